import SimilarVerif.Model.Common
import SimilarVerif.Lemmas.Utils
import SimilarVerif.Lemmas.Walk
import SimilarVerif.Lemmas.Replace
/-! # `cleanup_diff_ops` (`Compact`): partial correctness

* `cleanup_preserves` (A): the clean-up maps a valid `Replace`-free script to a valid `Replace`-free script
  between the same end points with the same numbers of deleted / inserted / equal items; only the
  comparison counter of the world moves.
* `cleanup_exact` (B): with the repair switch on, exact carried indices stay exact; with the switch off
  (shipped code) they do not (`cleanup_exact_shipped_counterexample`).
* `repair_only_touches_carried` (C): the switch influences nothing but carried indices (up to the checked
  subtraction in `shift_left`, which may panic on a stale carried index).
-/
namespace SimilarVerif.CompactP
open SimilarVerif Spec

/-! ### lists addressed by index vs. `pre ++ rest` -/
section ListIdx
variable {α : Type}
theorem get_pre (pre rest : List α) (i : Nat) : (pre ++ rest)[pre.length + i]? = rest[i]? := by
  rw [List.getElem?_append_right (by omega)]; congr 1; omega
theorem set_pre (pre rest : List α) (i : Nat) (x : α) :
    (pre ++ rest).set (pre.length + i) x = pre ++ rest.set i x := by
  induction pre with
  | nil => simp
  | cons a pre ih => simp [Nat.add_right_comm, ih]
theorem erase_pre (pre rest : List α) (i : Nat) :
    (pre ++ rest).eraseIdx (pre.length + i) = pre ++ rest.eraseIdx i := by
  induction pre with
  | nil => simp
  | cons a pre ih => simp [Nat.add_right_comm, ih]
theorem insert_pre (pre rest : List α) (i : Nat) (x : α) :
    (pre ++ rest).insertIdx (pre.length + i) x = pre ++ rest.insertIdx i x := by
  induction pre with
  | nil => simp
  | cons a pre ih => simp [Nat.add_right_comm, List.insertIdx_succ_cons, ih]
theorem split_at {l : List α} {i : Nat} {a : α} (h : l[i]? = some a) :
    ∃ pre post, l = pre ++ a :: post ∧ pre.length = i := by
  obtain ⟨hi, rfl⟩ := List.getElem?_eq_some_iff.1 h
  refine ⟨l.take i, l.drop (i+1), ?_, by simp; omega⟩
  simp
theorem get_pre0 (pre rest : List α) : (pre ++ rest)[pre.length]? = rest[0]? := get_pre pre rest 0
theorem set_pre0 (pre rest : List α) (x : α) : (pre ++ rest).set pre.length x = pre ++ rest.set 0 x :=
  set_pre pre rest 0 x
theorem erase_pre0 (pre rest : List α) : (pre ++ rest).eraseIdx pre.length = pre ++ rest.eraseIdx 0 :=
  erase_pre pre rest 0
theorem insert_pre0 (pre rest : List α) (x : α) : (pre ++ rest).insertIdx pre.length x = pre ++ rest.insertIdx 0 x :=
  insert_pre pre rest 0 x
end ListIdx

/-! ### what every rewrite step preserves -/

theorem noReplace_append : ∀ (a b : List Op), NoReplaceOp (a ++ b) ↔ NoReplaceOp a ∧ NoReplaceOp b := by
  intro a b
  induction a with
  | nil => simp [NoReplaceOp]
  | cons c cs ih => cases c <;> simp [NoReplaceOp, ih]

/-- `b` is as good as `a`: valid between the same end points whenever `a` is, same item counts, still
`Replace`-free, and — when `rep` — exact carried indices if `a` had them. -/
def Pres (e : Nat → Nat → Bool) (rep : Bool) (a b : List Op) : Prop :=
  ∀ o n o' n', Walk e o n a o' n' → NoReplaceOp a →
    Walk e o n b o' n' ∧ NoReplaceOp b ∧ nDel b = nDel a ∧ nIns b = nIns a ∧ nEq b = nEq a ∧
    (rep = true → Exact o n a → Exact o n b)

theorem Pres.refl (e rep) (a : List Op) : Pres e rep a a :=
  fun _ _ _ _ hw hn => ⟨hw, hn, rfl, rfl, rfl, fun _ h => h⟩

theorem Pres.trans {e rep} {a b c : List Op} (h1 : Pres e rep a b) (h2 : Pres e rep b c) : Pres e rep a c := by
  intro o n o' n' hw hn
  obtain ⟨a1, a2, a3, a4, a5, a6⟩ := h1 o n o' n' hw hn
  obtain ⟨b1, b2, b3, b4, b5, b6⟩ := h2 o n o' n' a1 a2
  exact ⟨b1, b2, by omega, by omega, by omega, fun hr hx => b6 hr (a6 hr hx)⟩

/-- a local rewrite is a rewrite of the whole list -/
theorem Pres.ctx {e rep} {m m' : List Op} (h : Pres e rep m m') (pre post : List Op) :
    Pres e rep (pre ++ (m ++ post)) (pre ++ (m' ++ post)) := by
  intro o n o' n' hw hn
  obtain ⟨o1, n1, hw1, hw'⟩ := (Replace.walk_append e _ _ _ _ _ _).1 hw
  obtain ⟨o2, n2, hw2, hw3⟩ := (Replace.walk_append e _ _ _ _ _ _).1 hw'
  obtain ⟨hn1, hn'⟩ := (noReplace_append _ _).1 hn
  obtain ⟨hn2, hn3⟩ := (noReplace_append _ _).1 hn'
  obtain ⟨a1, a2, a3, a4, a5, a6⟩ := h o1 n1 o2 n2 hw2 hn2
  refine ⟨?_, ?_, ?_, ?_, ?_, ?_⟩
  · exact (Replace.walk_append e _ _ _ _ _ _).2 ⟨o1, n1, hw1, (Replace.walk_append e _ _ _ _ _ _).2 ⟨o2, n2, a1, hw3⟩⟩
  · exact (noReplace_append _ _).2 ⟨hn1, (noReplace_append _ _).2 ⟨a2, hn3⟩⟩
  · simp only [Replace.nDel_append]; omega
  · simp only [Replace.nIns_append]; omega
  · simp only [Replace.nEq_append]; omega
  · intro hr hx
    obtain ⟨x1, x'⟩ := (Replace.exact_append e _ _ _ _ _ _ hw1).1 hx
    obtain ⟨x2, x3⟩ := (Replace.exact_append e _ _ _ _ _ _ hw2).1 x'
    exact (Replace.exact_append e _ _ _ _ _ _ hw1).2 ⟨x1, (Replace.exact_append e _ _ _ _ _ _ a1).2 ⟨a6 hr x2, x3⟩⟩

/-! ### the local rewrites -/

theorem e_congr {e : Nat → Nat → Bool} {a b a' b' : Nat} (h : e a b = true) (ha : a = a') (hb : b = b') :
    e a' b' = true := by subst ha; subst hb; exact h

/-- an Equal op, dropped when it has become empty -/
def optEq (o n len : Nat) : List Op := if len = 0 then [] else [.equal o n len]

theorem optEq_zero (o n : Nat) : optEq o n 0 = [] := by simp [optEq]
theorem optEq_pos {o n len : Nat} (h : len ≠ 0) : optEq o n len = [.equal o n len] := by simp [optEq, h]

local macro "unf" : tactic =>
  `(tactic| simp only [Walk, NoReplaceOp, nDel, nIns, nEq, Exact, Op.oStart, Op.nStart, Op.oLen, Op.nLen,
      List.cons_append, List.nil_append, Nat.add_zero, and_true, true_and] at *)

local macro "fin" : tactic =>
  `(tactic| ((repeat' (first | apply And.intro | intro _)) <;> (first | omega | contradiction | trivial)))

local macro "fin_with" t:tacticSeq : tactic =>
  `(tactic| ((repeat' (first | apply And.intro | intro _)) <;> (first | omega | contradiction | trivial | ($t))))

/-- swapping an adjacent Delete/Insert pair (`ops.swap` + optional repair) -/
theorem pres_swap (e : Nat → Nat → Bool) (rep : Bool) (a b : Op)
    (hab : (a.tag = .delete ∧ b.tag = .insert) ∨ (a.tag = .insert ∧ b.tag = .delete)) :
    Pres e rep [a, b] [(swapPair rep a b).1, (swapPair rep a b).2] := by
  intro o n o' n' hw hn
  cases a <;> cases b <;> simp [Op.tag] at hab <;> cases rep <;> simp only [swapPair] <;>
    simp only [Bool.not_true, Bool.not_false, Bool.false_eq_true, if_false, if_true] <;> unf <;>
    fin

/-- merging two adjacent Inserts -/
theorem pres_merge_ins (e : Nat → Nat → Bool) (rep : Bool) (po pn pl co cn l : Nat) :
    Pres e rep [.insert po pn pl, .insert co cn l] [.insert po pn (pl + l)] := by
  intro o n o' n' hw hn
  unf
  fin

/-- merging two adjacent Deletes -/
theorem pres_merge_del (e : Nat → Nat → Bool) (rep : Bool) (po pl pn co l cn : Nat) :
    Pres e rep [.delete po pl pn, .delete co l cn] [.delete po (pl + l) pn] := by
  intro o n o' n' hw hn
  unf
  fin

theorem walk_optEq (e : Nat → Nat → Bool) (o n po pn k : Nat) (rest : List Op) (o' n' : Nat) :
    Walk e o n (optEq po pn k ++ rest) o' n' ↔
      (k ≠ 0 → po = o ∧ pn = n) ∧ (∀ t, t < k → e (o + t) (n + t) = true) ∧ Walk e (o + k) (n + k) rest o' n' := by
  by_cases hk : k = 0
  · subst hk; simp [optEq]
  · rw [optEq_pos hk]; simp only [List.cons_append, List.nil_append, Walk]
    have : 0 < k := by omega
    simp [this, hk, and_assoc]
theorem walk_optEq_nil (e : Nat → Nat → Bool) (o n po pn k : Nat) (o' n' : Nat) :
    Walk e o n (optEq po pn k) o' n' ↔
      (k ≠ 0 → po = o ∧ pn = n) ∧ (∀ t, t < k → e (o + t) (n + t) = true) ∧ o + k = o' ∧ n + k = n' := by
  simpa [Walk] using walk_optEq e o n po pn k [] o' n'
theorem nDel_optEq (o n k : Nat) (rest : List Op) : nDel (optEq o n k ++ rest) = nDel rest := by
  by_cases hk : k = 0 <;> simp [optEq, hk, nDel]
theorem nIns_optEq (o n k : Nat) (rest : List Op) : nIns (optEq o n k ++ rest) = nIns rest := by
  by_cases hk : k = 0 <;> simp [optEq, hk, nIns]
theorem nEq_optEq (o n k : Nat) (rest : List Op) : nEq (optEq o n k ++ rest) = k + nEq rest := by
  by_cases hk : k = 0 <;> simp [optEq, hk, nEq]
theorem noReplace_optEq (o n k : Nat) (rest : List Op) : NoReplaceOp (optEq o n k ++ rest) ↔ NoReplaceOp rest := by
  by_cases hk : k = 0 <;> simp [optEq, hk, NoReplaceOp]
theorem exact_optEq (o n po pn k : Nat) (rest : List Op) :
    Exact o n (optEq po pn k ++ rest) ↔ (k ≠ 0 → po = o ∧ pn = n) ∧ Exact (o + k) (n + k) rest := by
  by_cases hk : k = 0
  · subst hk; simp [optEq]
  · simp [optEq, hk, Exact, Op.oStart, Op.nStart, Op.oLen, Op.nLen, and_assoc]
theorem exact_optEq_nil (o n po pn k : Nat) :
    Exact o n (optEq po pn k) ↔ (k ≠ 0 → po = o ∧ pn = n) := by
  simpa [Exact] using exact_optEq o n po pn k []
theorem nDel_optEq_nil (o n k : Nat) : nDel (optEq o n k) = 0 := by
  simpa [nDel] using nDel_optEq o n k []
theorem nIns_optEq_nil (o n k : Nat) : nIns (optEq o n k) = 0 := by
  simpa [nIns] using nIns_optEq o n k []
theorem nEq_optEq_nil (o n k : Nat) : nEq (optEq o n k) = k := by
  simpa [nEq] using nEq_optEq o n k []
theorem noReplace_optEq_nil (o n k : Nat) : NoReplaceOp (optEq o n k) := by
  simpa [NoReplaceOp] using noReplace_optEq o n k []

local macro "unfo" : tactic =>
  `(tactic| simp only [walk_optEq, nDel_optEq, nIns_optEq, nEq_optEq, noReplace_optEq, exact_optEq,
      walk_optEq_nil, nDel_optEq_nil, nIns_optEq_nil, nEq_optEq_nil, noReplace_optEq_nil, exact_optEq_nil,
      Walk, NoReplaceOp, nDel, nIns, nEq, Exact, Op.oStart, Op.nStart, Op.oLen, Op.nLen,
      List.cons_append, List.nil_append, List.append_nil, Nat.add_zero, and_true, true_and])

/-- `shift_diff_ops_up`, Insert over Equal, the op after the Insert is an Equal (which grows to the left) -/
theorem pres_up_next (e : Nat → Nat → Bool) (rep : Bool) (po pn pl co cn l o2 n2 l2 sl : Nat)
    (h1 : sl ≤ pl) (h2 : sl ≤ l)
    (hs : ∀ t, t < sl → e (po + pl - 1 - t) (cn + l - 1 - t) = true) :
    Pres e rep [.equal po pn pl, .insert co cn l, .equal o2 n2 l2]
      (optEq po pn (pl - sl) ++ [.insert (co - sl) (cn - sl) l, .equal (o2 - sl) (n2 - sl) (l2 + sl)]) := by
  intro o n o' n' hw hn
  unf
  obtain ⟨rfl, rfl, hpl, he1, rfl, hl, rfl, rfl, hl2, he2, rfl, rfl⟩ := hw
  unfo
  fin_with (rename_i t ht; first
    | exact he1 t (by omega)
    | (by_cases h : t < sl
       · exact e_congr (hs (sl - 1 - t) (by omega)) (by omega) (by omega)
       · exact e_congr (he2 (t - sl) (by omega)) (by omega) (by omega)))

/-- `shift_diff_ops_up`, Insert over Equal, no Equal after the Insert (a new Equal is inserted) -/
theorem pres_up_end (e : Nat → Nat → Bool) (rep : Bool) (po pn pl co cn l sl : Nat)
    (h0 : 0 < sl) (h1 : sl ≤ pl) (h2 : sl ≤ l)
    (hs : ∀ t, t < sl → e (po + pl - 1 - t) (cn + l - 1 - t) = true) :
    Pres e rep [.equal po pn pl, .insert co cn l]
      (optEq po pn (pl - sl) ++ [.insert (co - sl) (cn - sl) l, .equal (po + pl - sl) (cn + l - sl) sl]) := by
  intro o n o' n' hw hn
  unf
  obtain ⟨rfl, rfl, hpl, he1, rfl, hl, rfl, rfl⟩ := hw
  unfo
  fin_with (rename_i t ht; first
    | exact he1 t (by omega)
    | exact e_congr (hs (sl - 1 - t) (by omega)) (by omega) (by omega))

/-- `shift_diff_ops_down`, Insert before Equal, the op before the Insert is an Equal (which grows) -/
theorem pres_down_prev (e : Nat → Nat → Bool) (rep : Bool) (po pn plen co cn l o2 n2 l2 pl : Nat)
    (h1 : pl ≤ l2)
    (hs : ∀ t, t < pl → e (o2 + t) (cn + t) = true) :
    Pres e rep [.equal po pn plen, .insert co cn l, .equal o2 n2 l2]
      ([.equal po pn (plen + pl), .insert (co + pl) (cn + pl) l] ++ optEq (o2 + pl) (n2 + pl) (l2 - pl)) := by
  intro o n o' n' hw hn
  unf
  obtain ⟨rfl, rfl, hpl, he1, rfl, hl, rfl, rfl, hl2, he2, rfl, rfl⟩ := hw
  unfo
  fin_with (rename_i t ht; first
    | exact e_congr (he2 (t + pl) (by omega)) (by omega) (by omega)
    | (by_cases h : t < plen
       · exact he1 t h
       · exact e_congr (hs (t - plen) (by omega)) (by omega) (by omega)))

/-- `shift_diff_ops_down`, Insert before Equal, no Equal before the Insert (a new Equal is inserted) -/
theorem pres_down_noprev (e : Nat → Nat → Bool) (rep : Bool) (co cn l o2 n2 l2 pl : Nat)
    (h0 : 0 < pl) (h1 : pl ≤ l2)
    (hs : ∀ t, t < pl → e (o2 + t) (cn + t) = true) :
    Pres e rep [.insert co cn l, .equal o2 n2 l2]
      ([.equal o2 cn pl, .insert (co + pl) (cn + pl) l] ++ optEq (o2 + pl) (n2 + pl) (l2 - pl)) := by
  intro o n o' n' hw hn
  unf
  obtain ⟨rfl, hl, rfl, rfl, hl2, he2, rfl, rfl⟩ := hw
  unfo
  fin_with (rename_i t ht; first
    | exact e_congr (he2 (t + pl) (by omega)) (by omega) (by omega)
    | exact hs t ht)

/-! ### `shift_diff_ops_up` -/

theorem opAt_ok {ops : List Op} {i : Nat} {x : Op} (h : opAt ops i = .ok x) : ops[i]? = some x := by
  unfold opAt at h
  split at h
  · rename_i y hy; cases h; exact hy
  · cases h

/-- the window `prev, this` around the pointer of `shift_diff_ops_up` -/
theorem window_up {ops : List Op} {p : Nat} {prev this : Op} (hp : ¬ p = 0) (h1 : ops[p - 1]? = some prev)
    (h2 : opAt ops p = .ok this) :
    ∃ pre post, ops = pre ++ prev :: this :: post ∧ p = pre.length + 1 := by
  obtain ⟨pre, post0, rfl, hlen⟩ := split_at h1
  have hp' : p = pre.length + 1 := by omega
  subst hp'
  have h2' := opAt_ok h2
  rw [get_pre] at h2'
  cases post0 with
  | nil => simp at h2'
  | cons a post => simp at h2'; subst h2'; exact ⟨pre, post, rfl, rfl⟩

/-- the simp set that computes `set` / `eraseIdx` / `insertIdx` / `[·]?` on `pre ++ a :: b :: post` -/
local macro "idx" : tactic =>
  `(tactic| simp only [get_pre, set_pre, erase_pre, insert_pre, get_pre0, set_pre0, erase_pre0, insert_pre0,
      Nat.add_sub_cancel, Nat.add_assoc, Nat.reduceAdd, List.set_cons_zero, List.set_cons_succ,
      List.eraseIdx_cons_zero, List.eraseIdx_cons_succ, List.insertIdx_zero, List.insertIdx_succ_cons,
      List.getElem?_cons_zero, List.getElem?_cons_succ] at *)

theorem csub_ok {a b r : Nat} : csub a b = .ok r ↔ b ≤ a ∧ r = a - b := by
  unfold csub; split <;> simp_all [eq_comm] <;> (intros; omega)
theorem map_ok {α β : Type} {f : α → β} {r : Res α} {y : β} :
    Except.map f r = .ok y ↔ ∃ x, r = .ok x ∧ y = f x := by
  cases r <;> simp [Except.map, eq_comm]
theorem shrinkLeft_equal_ok {o n l a : Nat} {x : Op} :
    Op.shrinkLeft (.equal o n l) a = .ok x ↔ a ≤ l ∧ x = .equal o n (l - a) := by
  simp only [Op.shrinkLeft, Op.subLen, map_ok, csub_ok]
  constructor
  · rintro ⟨_, ⟨h, rfl⟩, rfl⟩; exact ⟨h, rfl⟩
  · rintro ⟨h, rfl⟩; exact ⟨_, ⟨h, rfl⟩, rfl⟩
theorem shiftLeft_insert_ok {o n l a : Nat} {x : Op} :
    Op.shiftLeft (.insert o n l) a = .ok x ↔ a ≤ o ∧ a ≤ n ∧ x = .insert (o - a) (n - a) l := by
  simp only [Op.shiftLeft, csub, Op.oStart, Op.nStart]
  by_cases h1 : a ≤ o <;> by_cases h2 : a ≤ n <;> simp [h1, h2, eq_comm]
theorem growLeft_equal_ok {o n l a : Nat} {x : Op} :
    Op.growLeft (.equal o n l) a = .ok x ↔ a ≤ o ∧ a ≤ n ∧ x = .equal (o - a) (n - a) (l + a) := by
  simp only [Op.growLeft, Op.shiftLeft, csub, Op.oStart, Op.nStart]
  by_cases h1 : a ≤ o <;> by_cases h2 : a ≤ n <;> simp [h1, h2, eq_comm, Except.map, Op.addLen]
theorem shrinkRight_equal_ok {o n l a : Nat} {x : Op} :
    Op.shrinkRight (.equal o n l) a = .ok x ↔ a ≤ l ∧ x = .equal (o + a) (n + a) (l - a) := by
  simp only [Op.shrinkRight, Op.shiftRight, Op.subLen, map_ok, csub_ok]
  constructor
  · rintro ⟨_, ⟨h, rfl⟩, rfl⟩; exact ⟨h, rfl⟩
  · rintro ⟨h, rfl⟩; exact ⟨_, ⟨h, rfl⟩, rfl⟩
theorem tag_equal {x : Op} (h : x.tag = .equal) : ∃ o n l, x = .equal o n l := by
  cases x <;> simp [Op.tag] at h; exact ⟨_, _, _, rfl⟩
theorem tag_insert {x : Op} (h : x.tag = .insert) : ∃ o n l, x = .insert o n l := by
  cases x <;> simp [Op.tag] at h; exact ⟨_, _, _, rfl⟩
theorem tag_delete {x : Op} (h : x.tag = .delete) : ∃ o l n, x = .delete o l n := by
  cases x <;> simp [Op.tag] at h; exact ⟨_, _, _, rfl⟩
theorem head_eq {post : List Op} {x : Op} (h : post[0]? = some x) : ∃ post', post = x :: post' := by
  cases post with
  | nil => simp at h
  | cons a t => simp at h; subst h; exact ⟨t, rfl⟩
theorem isEmpty_equal {o n l : Nat} : (Op.equal o n l).isEmpty = true ↔ l = 0 := by
  simp [Op.isEmpty, Op.oLen, Op.nLen]

/-- deletions never slide: the scan is given the Delete's empty new range -/
theorem csl_empty {E : Env} {os oe ns : Nat} {w w' : World} {p : Nat}
    (h : commonSuffixLen E os oe ns ns w = .ok (p, w')) : p = 0 := by
  have := (commonSuffixLen_spec h).2.1; omega
theorem cpl_empty {E : Env} {os oe ns : Nat} {w w' : World} {p : Nat}
    (h : commonPrefixLen E os oe ns ns w = .ok (p, w')) : p = 0 := by
  have := (commonPrefixLen_spec h).2.1; omega

/-- an empty Equal cannot occur in a valid script, so removing it is (vacuously) fine -/
theorem pres_drop_empty (e : Nat → Nat → Bool) (rep : Bool) (x : Op) (ht : x.tag = .equal) (he : x.isEmpty = true) :
    Pres e rep [x] [] := by
  obtain ⟨o, n, l, rfl⟩ := tag_equal ht
  rw [isEmpty_equal] at he; subst he
  intro o n o' n' hw; simp [Walk] at hw

theorem nEnd_delete {x : Op} (h : x.tag = .delete) : x.nEnd = x.nStart := by
  obtain ⟨o, l, n, rfl⟩ := tag_delete h; simp [Op.nEnd, Op.nLen]

theorem shiftUp_pres (E : Env) (repair : Bool) (fuel : Nat) (ops : List Op) (pointer : Nat) (w : World) :
    ∀ ops' p' w', shiftUp E repair fuel ops pointer w = .ok (ops', p', w') →
      Pres (eqB E) repair ops ops' ∧ w'.clock = w.clock ∧ w'.probes = w.probes := by
  fun_induction shiftUp E repair fuel ops pointer w
  case case7 fuel ops p w hp prev h1 this h2 ht1 ht2 sl w1 hs hsl ops1 hx this' prev' h3 h4 ops2 hemp ih
     | case8 fuel ops p w hp prev h1 this h2 ht1 ht2 sl w1 hs hsl ops1 hx this' prev' h3 h4 ops2 hemp ih =>
    intro ops' p' w' h
    obtain ⟨ihP, ihc, ihp⟩ := ih _ _ _ h
    obtain ⟨pre, post, rfl, rfl⟩ := window_up hp h1 h2
    obtain ⟨hs1, hs2, hs3, -, hW⟩ := commonSuffixLen_spec hs
    refine ⟨Pres.trans ?_ ihP, by rw [ihc]; exact hW.1, by rw [ihp]; exact hW.2.1⟩
    clear ih h ihP h1 h2 hs hW
    obtain ⟨po, pn, pl, rfl⟩ := tag_equal ht1
    obtain ⟨co, cn, l, rfl⟩ := tag_insert ht2
    simp only [ops2]
    simp only [shrinkLeft_equal_ok, shiftLeft_insert_ok] at h3 h4
    obtain ⟨h3a, rfl⟩ := h3
    obtain ⟨h4a, h4b, rfl⟩ := h4
    simp only [isEmpty_equal] at hemp
    simp only [Op.oStart, Op.oEnd, Op.nStart, Op.nEnd, Op.oLen, Op.nLen] at *
    idx
    split at hx
    · rename_i o2 n2 l2 hnext
      obtain ⟨post', rfl⟩ := head_eq hnext
      simp only [map_ok, growLeft_equal_ok] at hx
      obtain ⟨_, ⟨hg1, hg2, rfl⟩, rfl⟩ := hx
      idx
      have := (pres_up_next (eqB E) repair po pn pl co cn l o2 n2 l2 sl h3a (by omega) hs3).ctx pre post'
      simpa [optEq, hemp] using this
    · split at hx
      · rename_i eo en heo hen
        simp only [csub_ok] at heo hen
        obtain ⟨-, rfl⟩ := heo
        obtain ⟨-, rfl⟩ := hen
        simp only [Op.tag] at hx
        cases hx
        idx
        have := (pres_up_end (eqB E) repair po pn pl co cn l sl hsl h3a (by omega) hs3).ctx pre post
        simpa [optEq, hemp] using this
      · cases hx
  case case14 fuel ops p w hp prev h1 this h2 ht1 ht2 sl w1 hs hsl ops1 hx this' prev' h3 h4 ops2 hemp ih
     | case15 fuel ops p w hp prev h1 this h2 ht1 ht2 sl w1 hs hsl ops1 hx this' prev' h3 h4 ops2 hemp ih =>
    rw [nEnd_delete ht2] at hs; have := csl_empty hs; omega
  case case10 fuel ops p w hp prev h1 this h2 ht1 ht2 sl w1 hs hsl hemp ih
     | case17 fuel ops p w hp prev h1 this h2 ht1 ht2 sl w1 hs hsl hemp ih =>
    intro ops' p' w' h
    obtain ⟨ihP, ihc, ihp⟩ := ih _ _ _ h
    obtain ⟨pre, post, rfl, rfl⟩ := window_up hp h1 h2
    obtain ⟨-, -, -, -, hW⟩ := commonSuffixLen_spec hs
    refine ⟨Pres.trans ?_ ihP, by rw [ihc]; exact hW.1, by rw [ihp]; exact hW.2.1⟩
    idx
    exact (pres_drop_empty (eqB E) repair prev ht1 hemp).ctx pre (this :: post)
  case case11 fuel ops p w hp prev h1 this h2 ht1 ht2 sl w1 hs hsl hemp
     | case18 fuel ops p w hp prev h1 this h2 ht1 ht2 sl w1 hs hsl hemp =>
    intro ops' p' w' h
    cases h
    obtain ⟨-, -, -, -, hW⟩ := commonSuffixLen_spec hs
    exact ⟨Pres.refl _ _ _, hW.1, hW.2.1⟩
  case case19 fuel ops p w hp prev h1 this h2 ht1 ht2 x y hxy ih
     | case20 fuel ops p w hp prev h1 this h2 ht1 ht2 x y hxy ih =>
    intro ops' p' w' h
    obtain ⟨ihP, ihc, ihp⟩ := ih _ _ _ h
    obtain ⟨pre, post, rfl, rfl⟩ := window_up hp h1 h2
    refine ⟨Pres.trans ?_ ihP, ihc, ihp⟩
    idx
    have := (pres_swap (eqB E) repair prev this (by simp [ht1, ht2])).ctx pre post
    rw [hxy] at this
    exact this
  case case21 fuel ops p w hp prev h1 this h2 ht1 ht2 ih =>
    intro ops' p' w' h
    obtain ⟨ihP, ihc, ihp⟩ := ih _ _ _ h
    obtain ⟨pre, post, rfl, rfl⟩ := window_up hp h1 h2
    refine ⟨Pres.trans ?_ ihP, ihc, ihp⟩
    obtain ⟨po, pn, pl, rfl⟩ := tag_insert ht1
    obtain ⟨co, cn, l, rfl⟩ := tag_insert ht2
    idx
    exact (pres_merge_ins (eqB E) repair po pn pl co cn l).ctx pre post
  case case22 fuel ops p w hp prev h1 this h2 ht1 ht2 ih =>
    intro ops' p' w' h
    obtain ⟨ihP, ihc, ihp⟩ := ih _ _ _ h
    obtain ⟨pre, post, rfl, rfl⟩ := window_up hp h1 h2
    refine ⟨Pres.trans ?_ ihP, ihc, ihp⟩
    obtain ⟨po, pl, pn, rfl⟩ := tag_delete ht1
    obtain ⟨co, l, cn, rfl⟩ := tag_delete ht2
    idx
    exact (pres_merge_del (eqB E) repair po pl pn co l cn).ctx pre post
  all_goals (intro _ _ _ h; cases h)
  all_goals exact ⟨Pres.refl _ _ _, rfl, rfl⟩

/-! ### `shift_diff_ops_down` -/

theorem opAt_ok_iff {ops : List Op} {i : Nat} {x : Op} : opAt ops i = .ok x ↔ ops[i]? = some x := by
  unfold opAt
  cases h : ops[i]? <;> simp

/-- the window `this, next` at the pointer of `shift_diff_ops_down` -/
theorem window_down {ops : List Op} {p : Nat} {this next : Op} (h1 : ops[p + 1]? = some next)
    (h2 : opAt ops p = .ok this) :
    ∃ pre post, ops = pre ++ this :: next :: post ∧ p = pre.length := by
  obtain ⟨pre, post0, rfl, hlen⟩ := split_at (opAt_ok h2)
  subst hlen
  rw [get_pre] at h1
  obtain ⟨post, rfl⟩ : ∃ post, post0 = next :: post := by
    cases post0 with
    | nil => simp at h1
    | cons a t => simp at h1; subst h1; exact ⟨t, rfl⟩
  exact ⟨pre, post, rfl, rfl⟩

theorem last_of_pre {pre rest : List Op} {x : Op} (hp : ¬ pre.length = 0)
    (h : (pre ++ rest)[pre.length - 1]? = some x) : ∃ pre', pre = pre' ++ [x] := by
  rcases List.eq_nil_or_concat pre with rfl | ⟨L, b, rfl⟩
  · simp at hp
  · refine ⟨L, ?_⟩
    simp at h
    simp [h]

theorem nEnd_insert (o n l : Nat) : (Op.insert o n l).nEnd = n + l := rfl

theorem shiftDown_pres (E : Env) (repair : Bool) (fuel : Nat) (ops : List Op) (pointer : Nat) (w : World) :
    ∀ ops' p' w', shiftDown E repair fuel ops pointer w = .ok (ops', p', w') →
      Pres (eqB E) repair ops ops' ∧ w'.clock = w.clock ∧ w'.probes = w.probes := by
  fun_induction shiftDown E repair fuel ops pointer w
  case case6 fuel ops p w next h1 this h2 ht1 ht2 pl w1 hs hpl prevIsEq ops1 p1 hx t nx hnx ht nx' h3 ops2 hemp ih
     | case7 fuel ops p w next h1 this h2 ht1 ht2 pl w1 hs hpl prevIsEq ops1 p1 hx t nx hnx ht nx' h3 ops2 hemp ih =>
    intro ops' p' w' h
    obtain ⟨ihP, ihc, ihp⟩ := ih _ _ _ h
    obtain ⟨pre, post, rfl, rfl⟩ := window_down h1 h2
    obtain ⟨hs1, hs2, hs3, -, hW⟩ := commonPrefixLen_spec hs
    refine ⟨Pres.trans ?_ ihP, by rw [ihc]; exact hW.1, by rw [ihp]; exact hW.2.1⟩
    clear ih h ihP h1 h2 hs hW
    obtain ⟨o2, n2, l2, rfl⟩ := tag_equal ht1
    obtain ⟨co, cn, l, rfl⟩ := tag_insert ht2
    simp only [ops2]
    simp only [prevIsEq] at hx
    simp only [Op.oStart, Op.oEnd, Op.nStart, Op.nEnd, Op.oLen, Op.nLen] at *
    have hx' : (ops1 = pre ++ .equal o2 cn pl :: .insert co cn l :: .equal o2 n2 l2 :: post ∧ p1 = pre.length + 1) ∨
        (∃ pre' qo qn ql, pre = pre' ++ [.equal qo qn ql] ∧
          ops1 = pre' ++ .equal qo qn (ql + pl) :: .insert co cn l :: .equal o2 n2 l2 :: post ∧ p1 = pre.length) := by
      by_cases hpe : pre.length = 0
      · left
        simp only [hpe, if_true, Bool.false_eq_true, if_false] at hx
        obtain rfl := List.eq_nil_of_length_eq_zero hpe
        cases hx
        exact ⟨rfl, rfl⟩
      · simp only [hpe, if_false] at hx
        cases hq : (pre ++ Op.insert co cn l :: Op.equal o2 n2 l2 :: post)[pre.length - 1]? with
        | none =>
          simp only [hq, Bool.false_eq_true, if_false] at hx
          left
          cases hx
          exact ⟨by simp only [insert_pre0, List.insertIdx_zero], rfl⟩
        | some q =>
          obtain ⟨pre', rfl⟩ := last_of_pre hpe hq
          simp only [hq] at hx
          cases q
          · right
            simp only [if_true] at hx
            cases hx
            refine ⟨pre', _, _, _, rfl, ?_, rfl⟩
            simp [Op.growRight, Op.addLen]
          all_goals
            left
            simp only [Bool.false_eq_true, if_false] at hx
            cases hx
            exact ⟨by simp only [insert_pre0, List.insertIdx_zero], rfl⟩
    clear hx
    rcases hx' with ⟨rfl, rfl⟩ | ⟨pre', qo, qn, ql, rfl, rfl, rfl⟩
    · simp only [opAt_ok_iff] at ht hnx
      idx
      cases ht
      cases hnx
      simp only [shrinkRight_equal_ok] at h3
      obtain ⟨h3a, rfl⟩ := h3
      simp only [isEmpty_equal] at hemp
      have := (pres_down_noprev (eqB E) repair co cn l o2 n2 l2 pl hpl h3a hs3).ctx pre post
      simpa [optEq, hemp, Op.shiftRight] using this
    · simp only [opAt_ok_iff, List.length_append, List.length_cons, List.length_nil, List.append_assoc,
        List.cons_append, List.nil_append] at ht hnx ⊢
      idx
      cases ht
      cases hnx
      simp only [shrinkRight_equal_ok] at h3
      obtain ⟨h3a, rfl⟩ := h3
      simp only [isEmpty_equal] at hemp
      have := (pres_down_prev (eqB E) repair qo qn ql co cn l o2 n2 l2 pl h3a hs3).ctx pre' post
      simpa [optEq, hemp, Op.shiftRight] using this
  case case13 fuel ops p w next h1 this h2 ht1 ht2 pl w1 hs hpl prevIsEq ops1 p1 hx t nx hnx ht nx' h3 ops2 hemp ih
     | case14 fuel ops p w next h1 this h2 ht1 ht2 pl w1 hs hpl prevIsEq ops1 p1 hx t nx hnx ht nx' h3 ops2 hemp ih =>
    rw [nEnd_delete ht2] at hs; have := cpl_empty hs; omega
  case case9 fuel ops p w next h1 this h2 ht1 ht2 pl w1 hs hpl hemp ih
     | case16 fuel ops p w next h1 this h2 ht1 ht2 pl w1 hs hpl hemp ih =>
    intro ops' p' w' h
    obtain ⟨ihP, ihc, ihp⟩ := ih _ _ _ h
    obtain ⟨pre, post, rfl, rfl⟩ := window_down h1 h2
    obtain ⟨-, -, -, -, hW⟩ := commonPrefixLen_spec hs
    refine ⟨Pres.trans ?_ ihP, by rw [ihc]; exact hW.1, by rw [ihp]; exact hW.2.1⟩
    idx
    have := (pres_drop_empty (eqB E) repair next ht1 hemp).ctx (pre ++ [this]) post
    simpa using this
  case case10 fuel ops p w next h1 this h2 ht1 ht2 pl w1 hs hpl hemp
     | case17 fuel ops p w next h1 this h2 ht1 ht2 pl w1 hs hpl hemp =>
    intro ops' p' w' h
    cases h
    obtain ⟨-, -, -, -, hW⟩ := commonPrefixLen_spec hs
    exact ⟨Pres.refl _ _ _, hW.1, hW.2.1⟩
  case case18 fuel ops p w next h1 this h2 ht1 ht2 x y hxy ih
     | case19 fuel ops p w next h1 this h2 ht1 ht2 x y hxy ih =>
    intro ops' p' w' h
    obtain ⟨ihP, ihc, ihp⟩ := ih _ _ _ h
    obtain ⟨pre, post, rfl, rfl⟩ := window_down h1 h2
    refine ⟨Pres.trans ?_ ihP, ihc, ihp⟩
    idx
    have := (pres_swap (eqB E) repair this next (by simp [ht1, ht2])).ctx pre post
    rw [hxy] at this
    exact this
  case case20 fuel ops p w next h1 this h2 ht1 ht2 ih =>
    intro ops' p' w' h
    obtain ⟨ihP, ihc, ihp⟩ := ih _ _ _ h
    obtain ⟨pre, post, rfl, rfl⟩ := window_down h1 h2
    refine ⟨Pres.trans ?_ ihP, ihc, ihp⟩
    obtain ⟨o2, n2, l2, rfl⟩ := tag_insert ht1
    obtain ⟨co, cn, l, rfl⟩ := tag_insert ht2
    idx
    exact (pres_merge_ins (eqB E) repair co cn l o2 n2 l2).ctx pre post
  case case21 fuel ops p w next h1 this h2 ht1 ht2 ih =>
    intro ops' p' w' h
    obtain ⟨ihP, ihc, ihp⟩ := ih _ _ _ h
    obtain ⟨pre, post, rfl, rfl⟩ := window_down h1 h2
    refine ⟨Pres.trans ?_ ihP, ihc, ihp⟩
    obtain ⟨o2, l2, n2, rfl⟩ := tag_delete ht1
    obtain ⟨co, l, cn, rfl⟩ := tag_delete ht2
    idx
    exact (pres_merge_del (eqB E) repair co l cn o2 l2 n2).ctx pre post
  all_goals (intro _ _ _ h; cases h)
  all_goals exact ⟨Pres.refl _ _ _, rfl, rfl⟩

/-! ### the two passes and `cleanup_diff_ops` -/

theorem cleanupPass_pres (E : Env) (repair : Bool) (which : Tag) (inner : Nat) (fuel : Nat) (ops : List Op)
    (pointer : Nat) (w : World) :
    ∀ ops' w', cleanupPass E repair which inner fuel ops pointer w = .ok (ops', w') →
      Pres (eqB E) repair ops ops' ∧ w'.clock = w.clock ∧ w'.probes = w.probes := by
  fun_induction cleanupPass E repair which inner fuel ops pointer w
  case case5 fuel ops p w op hop htag ops1 p1 w1 hup ops2 p2 w2 hdown ih =>
    intro ops' w' h
    obtain ⟨a1, a2, a3⟩ := shiftUp_pres E repair _ _ _ _ _ _ _ hup
    obtain ⟨b1, b2, b3⟩ := shiftDown_pres E repair _ _ _ _ _ _ _ hdown
    obtain ⟨c1, c2, c3⟩ := ih _ _ h
    exact ⟨(a1.trans b1).trans c1, by rw [c2, b2, a2], by rw [c3, b3, a3]⟩
  case case6 fuel ops p w op hop htag ih =>
    intro ops' w' h
    exact ih _ _ h
  all_goals (intro _ _ h; cases h)
  all_goals exact ⟨Pres.refl _ _ _, rfl, rfl⟩

theorem cleanup_pres (E : Env) (repair : Bool) (ops : List Op) (w : World) (ops' : List Op) (w' : World)
    (h : cleanupDiffOps E repair ops w = .ok (ops', w')) :
    Pres (eqB E) repair ops ops' ∧ w'.clock = w.clock ∧ w'.probes = w.probes := by
  unfold cleanupDiffOps at h
  simp only at h
  split at h
  · cases h
  · rename_i ops1 w1 h1
    obtain ⟨a1, a2, a3⟩ := cleanupPass_pres E repair _ _ _ _ _ _ _ _ h1
    obtain ⟨b1, b2, b3⟩ := cleanupPass_pres E repair _ _ _ _ _ _ _ _ h
    exact ⟨a1.trans b1, by rw [b2, a2], by rw [b3, a3]⟩

/-- **(A)** Partial correctness of `cleanup_diff_ops`, for the shipped code and for the repaired variant,
for every fuel: a valid `Replace`-free script is mapped to a valid `Replace`-free script between the same
end points with the same item counts; the virtual clock is not touched. (No in-bounds hypothesis is
needed: an out-of-bounds comparison is a panic, i.e. not an `.ok` result.) -/
theorem cleanup_preserves (E : Env) (repair : Bool) (ops : List Op) (o n o' n' : Nat) (w : World)
    (ops' : List Op) (w' : World)
    (hnr : NoReplaceOp ops) (hw : Walk (eqB E) o n ops o' n')
    (h : cleanupDiffOps E repair ops w = .ok (ops', w')) :
    Walk (eqB E) o n ops' o' n' ∧ nDel ops' = nDel ops ∧ nIns ops' = nIns ops ∧ nEq ops' = nEq ops ∧
      NoReplaceOp ops' ∧ w'.clock = w.clock ∧ w'.probes = w.probes := by
  obtain ⟨hp, hc, hpr⟩ := cleanup_pres E repair ops w ops' w' h
  obtain ⟨a1, a2, a3, a4, a5, -⟩ := hp o n o' n' hw hnr
  exact ⟨a1, a3, a4, a5, a2, hc, hpr⟩

/-- the statement with the in-bounds hypothesis of the task text (it is not used) -/
theorem cleanup_preserves' (E : Env) (repair : Bool) (ops : List Op) (o n o' n' : Nat) (w : World)
    (ops' : List Op) (w' : World)
    (hnr : NoReplaceOp ops) (hw : Walk (eqB E) o n ops o' n') (_hb : InBounds E o o' n n')
    (h : cleanupDiffOps E repair ops w = .ok (ops', w')) :
    Walk (eqB E) o n ops' o' n' ∧ nDel ops' = nDel ops ∧ nIns ops' = nIns ops ∧ nEq ops' = nEq ops ∧
      NoReplaceOp ops' ∧ w'.clock = w.clock ∧ w'.probes = w.probes :=
  cleanup_preserves E repair ops o n o' n' w ops' w' hnr hw h

/-- **(B)** With the repair switch on, exact carried indices stay exact. -/
theorem cleanup_exact (E : Env) (ops : List Op) (o n o' n' : Nat) (w : World)
    (ops' : List Op) (w' : World)
    (hnr : NoReplaceOp ops) (hw : Walk (eqB E) o n ops o' n') (hx : Exact o n ops)
    (h : cleanupDiffOps E true ops w = .ok (ops', w')) : Exact o n ops' := by
  obtain ⟨hp, -, -⟩ := cleanup_pres E true ops w ops' w' h
  exact (hp o n o' n' hw hnr).2.2.2.2.2 rfl hx

/-! ### (B) is false for the shipped code: the concrete witness

`old = [0,1]`, `new = [1,1]`. Myers emits `insert(0,0,1) delete(0,1,1) equal(1,1,1)` (valid, exact). The
shipped clean-up swaps the pair without touching the carried indices and then slides the Insert down. -/

def cexEnv : Env := Env.ofSeqs #[0, 1] #[1, 1]
def cexOps : List Op := [.insert 0 0 1, .delete 0 1 1, .equal 1 1 1]

theorem cex_is_myers_output :
    (rawTrace .myers cexEnv 0 2 0 2 {}).map (fun r => traceOps r.1.trace) = .ok cexOps := by rfl
theorem cex_walk : Walk (eqB cexEnv) 0 0 cexOps 2 2 := by simp only [cexOps, Walk]; decide
theorem cex_exact : Exact 0 0 cexOps := by simp only [cexOps, Exact]; decide
theorem cex_noReplace : NoReplaceOp cexOps := by simp [cexOps, NoReplaceOp]
theorem cex_shipped : cleanupDiffOps cexEnv false cexOps {} =
    .ok ([.delete 0 1 1, .equal 1 0 1, .insert 1 1 1], { cmps := 1 }) := by rfl
theorem cex_repaired : cleanupDiffOps cexEnv true cexOps {} =
    .ok ([.delete 0 1 0, .equal 1 0 1, .insert 2 1 1], { cmps := 1 }) := by rfl
/-- the Delete claims new position 1 (true: 0), the Insert claims old position 1 (true: 2) -/
theorem cex_not_exact : ¬ Exact 0 0 [.delete 0 1 1, .equal 1 0 1, .insert 1 1 1] := by
  simp only [Exact]; decide

/-- **(B) fails with `repair = false`** (known defect D5 of the shipped `compact.rs`). -/
theorem cleanup_exact_shipped_counterexample :
    ∃ (E : Env) (ops : List Op) (o n o' n' : Nat) (w : World) (ops' : List Op) (w' : World),
      NoReplaceOp ops ∧ Walk (eqB E) o n ops o' n' ∧ Exact o n ops ∧
      cleanupDiffOps E false ops w = .ok (ops', w') ∧ ¬ Exact o n ops' :=
  ⟨cexEnv, cexOps, 0, 0, 2, 2, {}, _, _, cex_noReplace, cex_walk, cex_exact, cex_shipped, cex_not_exact⟩

/-! ### (C) the repair switch only touches carried indices

Relational proof: two runs on lists that agree up to carried indices (`LR`), with any two switch
settings, stay in lock step; the only observable influence of a carried index is the checked
subtraction `shift_left` performs on the carried old index of an Insert (a panic). -/

/-- forget the carried index of a Delete / Insert -/
def eraseOp : Op → Op
  | .delete o l _ => .delete o l 0
  | .insert _ n l => .insert 0 n l
  | x => x

/-- same ops up to carried indices -/
def ER (x y : Op) : Prop := eraseOp x = eraseOp y
def LR (a b : List Op) : Prop := a.map eraseOp = b.map eraseOp

theorem ER_cases {x y : Op} (h : ER x y) :
    (∃ o n l, x = .equal o n l ∧ y = .equal o n l) ∨ (∃ o l n n', x = .delete o l n ∧ y = .delete o l n') ∨
    (∃ o o' n l, x = .insert o n l ∧ y = .insert o' n l) ∨ (∃ o ol n nl, x = .replace o ol n nl ∧ y = .replace o ol n nl) := by
  cases x with
  | equal o n l =>
    cases y <;> simp [ER, eraseOp] at h
    obtain ⟨rfl, rfl, rfl⟩ := h; exact .inl ⟨_, _, _, rfl, rfl⟩
  | delete o l n =>
    cases y <;> simp [ER, eraseOp] at h
    obtain ⟨rfl, rfl⟩ := h; exact .inr (.inl ⟨_, _, _, _, rfl, rfl⟩)
  | insert o n l =>
    cases y <;> simp [ER, eraseOp] at h
    obtain ⟨rfl, rfl⟩ := h; exact .inr (.inr (.inl ⟨_, _, _, _, rfl, rfl⟩))
  | replace o ol n nl =>
    cases y <;> simp [ER, eraseOp] at h
    obtain ⟨rfl, rfl, rfl, rfl⟩ := h; exact .inr (.inr (.inr ⟨_, _, _, _, rfl, rfl⟩))

theorem LR_get {a b : List Op} (h : LR a b) (i : Nat) :
    (a[i]? = none ∧ b[i]? = none) ∨ ∃ x y, a[i]? = some x ∧ b[i]? = some y ∧ ER x y := by
  have := congrArg (·[i]?) h
  simp only [List.getElem?_map] at this
  cases ha : a[i]? <;> cases hb : b[i]? <;> simp [ha, hb] at this
  · exact .inl ⟨rfl, rfl⟩
  · exact .inr ⟨_, _, rfl, rfl, this⟩

theorem map_eraseIdx' {α β : Type} (f : α → β) : ∀ (l : List α) (i : Nat),
    (l.eraseIdx i).map f = (l.map f).eraseIdx i := by
  intro l
  induction l with
  | nil => intro i; simp
  | cons a l ih => intro i; cases i <;> simp [ih]
theorem map_insertIdx' {α β : Type} (f : α → β) (x : α) : ∀ (l : List α) (i : Nat),
    (l.insertIdx i x).map f = (l.map f).insertIdx i (f x) := by
  intro l
  induction l with
  | nil => intro i; cases i <;> simp
  | cons a l ih => intro i; cases i <;> simp [List.insertIdx_succ_cons, ih]

theorem LR_set {a b : List Op} (h : LR a b) (i : Nat) {x y : Op} (hxy : ER x y) : LR (a.set i x) (b.set i y) := by
  simp only [LR, List.map_set]; rw [h, hxy]
theorem LR_erase {a b : List Op} (h : LR a b) (i : Nat) : LR (a.eraseIdx i) (b.eraseIdx i) := by
  simp only [LR, map_eraseIdx']; rw [h]
theorem LR_insert {a b : List Op} (h : LR a b) (i : Nat) {x y : Op} (hxy : ER x y) :
    LR (a.insertIdx i x) (b.insertIdx i y) := by
  simp only [LR, map_insertIdx']; rw [h, hxy]
theorem ER.rfl {x : Op} : ER x x := by simp [ER]

/-- equal up to `R`, or one side panicked -/
def Sim {α : Type} (R : α → α → Prop) (a b : Res α) : Prop :=
  a = .error .panic ∨ b = .error .panic ∨ (∃ e, a = .error e ∧ b = .error e) ∨
    (∃ x y, a = .ok x ∧ b = .ok y ∧ R x y)

theorem Sim.err {α : Type} {R : α → α → Prop} (e : Abort) : Sim R (.error e) (.error e) := .inr (.inr (.inl ⟨e, rfl, rfl⟩))
theorem Sim.ok {α : Type} {R : α → α → Prop} {x y : α} (h : R x y) : Sim R (.ok x) (.ok y) :=
  .inr (.inr (.inr ⟨x, y, rfl, rfl, h⟩))
theorem Sim.panicL {α : Type} {R : α → α → Prop} {b : Res α} : Sim R (.error .panic) b := .inl rfl
theorem Sim.panicR {α : Type} {R : α → α → Prop} {a : Res α} : Sim R a (.error .panic) := .inr (.inl rfl)

def SR (a b : List Op × Nat × World) : Prop := LR a.1 b.1 ∧ a.2 = b.2

theorem csl_same (E : Env) (a b c : Nat) (w : World) : commonSuffixLen E a b c c w = .ok (0, w) := by
  simp [commonSuffixLen]
theorem cpl_same (E : Env) (a b c : Nat) (w : World) : commonPrefixLen E a b c c w = .ok (0, w) := by
  simp [commonPrefixLen]

theorem swap_ER (r1 r2 : Bool) {a a2 b b2 : Op} (ha : ER a a2) (hb : ER b b2)
    (hab : (a.tag = .delete ∧ b.tag = .insert) ∨ (a.tag = .insert ∧ b.tag = .delete)) :
    ER (swapPair r1 a b).1 (swapPair r2 a2 b2).1 ∧ ER (swapPair r1 a b).2 (swapPair r2 a2 b2).2 := by
  rcases ER_cases ha with ⟨_, _, _, rfl, rfl⟩ | ⟨_, _, _, _, rfl, rfl⟩ | ⟨_, _, _, _, rfl, rfl⟩ | ⟨_, _, _, _, rfl, rfl⟩ <;>
  rcases ER_cases hb with ⟨_, _, _, rfl, rfl⟩ | ⟨_, _, _, _, rfl, rfl⟩ | ⟨_, _, _, _, rfl, rfl⟩ | ⟨_, _, _, _, rfl, rfl⟩ <;>
  simp [Op.tag] at hab <;> cases r1 <;> cases r2 <;> simp [swapPair, ER, eraseOp]

theorem shiftLeft_insert_cases (o n l a : Nat) :
    (Op.insert o n l).shiftLeft a = .error .panic ∨ (Op.insert o n l).shiftLeft a = .ok (.insert (o - a) (n - a) l) := by
  simp only [Op.shiftLeft, csub, Op.oStart, Op.nStart]
  by_cases h1 : a ≤ o <;> by_cases h2 : a ≤ n <;> simp [h1, h2]
theorem shrinkLeft_equal_cases (o n l a : Nat) :
    (Op.equal o n l).shrinkLeft a = .error .panic ∨ (Op.equal o n l).shrinkLeft a = .ok (.equal o n (l - a)) := by
  simp only [Op.shrinkLeft, Op.subLen, csub]
  by_cases h1 : a ≤ l <;> simp [h1, Except.map]
theorem growLeft_equal_cases (o n l a : Nat) :
    (Op.equal o n l).growLeft a = .error .panic ∨ (Op.equal o n l).growLeft a = .ok (.equal (o - a) (n - a) (l + a)) := by
  simp only [Op.growLeft, Op.shiftLeft, csub, Op.oStart, Op.nStart]
  by_cases h1 : a ≤ o <;> by_cases h2 : a ≤ n <;> simp [h1, h2, Except.map, Op.addLen]
theorem csub_cases (a b : Nat) : csub a b = .error .panic ∨ csub a b = .ok (a - b) := by
  unfold csub; split <;> simp

set_option hygiene false in
/-- common tail of the slide-up arm once both sides hold related lists `X1`, `X2` (proved by `$t`) -/
local macro "cont_up" t:term : tactic => `(tactic| (
  rcases shrinkLeft_equal_cases po pn pl sl with hS | hS <;>
  rcases shiftLeft_insert_cases co cn l sl with hL | hL <;>
  rcases shiftLeft_insert_cases co2 cn l sl with hR | hR <;>
  simp only [hS, hL, hR] <;> (try exact Sim.panicL) <;> (try exact Sim.panicR)
  by_cases he : (Op.equal po pn (pl - sl)).isEmpty = true
  · simp only [he, if_true]
    exact ih _ _ _ _ (LR_erase (LR_set (LR_set $t _ (by simp [ER, eraseOp])) _ ER.rfl) _)
  · simp only [he]
    exact ih _ _ _ _ (LR_set (LR_set $t _ (by simp [ER, eraseOp])) _ ER.rfl)))

theorem shiftUp_sim (E : Env) (r1 r2 : Bool) : ∀ (fuel : Nat) (ops1 ops2 : List Op) (p : Nat) (w : World),
    LR ops1 ops2 → Sim SR (shiftUp E r1 fuel ops1 p w) (shiftUp E r2 fuel ops2 p w) := by
  intro fuel
  induction fuel with
  | zero => intro ops1 ops2 p w h; exact Sim.err _
  | succ fuel ih =>
    intro ops1 ops2 p w h
    simp only [shiftUp]
    by_cases hp : p = 0
    · simp only [hp, if_true]; exact Sim.ok ⟨h, rfl⟩
    simp only [hp, if_false]
    rcases LR_get h (p - 1) with ⟨h1, h2⟩ | ⟨prev, prev2, h1, h2, hprev⟩
    · simp only [h1, h2]; exact Sim.ok ⟨h, rfl⟩
    simp only [h1, h2, opAt]
    rcases LR_get h p with ⟨h3, h4⟩ | ⟨this, this2, h3, h4, hthis⟩
    · simp only [h3, h4]; exact Sim.panicL
    simp only [h3, h4]
    rcases ER_cases hthis with ⟨co, cn, l, rfl, rfl⟩ | ⟨co, l, cn, cn2, rfl, rfl⟩ | ⟨co, co2, cn, l, rfl, rfl⟩ | ⟨_, _, _, _, rfl, rfl⟩ <;>
    rcases ER_cases hprev with ⟨po, pn, pl, rfl, rfl⟩ | ⟨po, pl, pn, pn2, rfl, rfl⟩ | ⟨po, po2, pn, pl, rfl, rfl⟩ | ⟨_, _, _, _, rfl, rfl⟩ <;>
    simp only [Op.tag] <;> try exact Sim.panicL
    · -- Delete after Equal: never slides
      simp only [Op.oStart, Op.oEnd, Op.nStart, Op.nEnd, Op.nLen, Nat.add_zero, csl_same, Nat.lt_irrefl, if_false]
      by_cases he : (Op.equal po pn pl).isEmpty = true
      · simp only [he, if_true]; exact ih _ _ _ _ (LR_erase h _)
      · simp only [he]; exact Sim.ok ⟨h, rfl⟩
    · exact ih _ _ _ _ (LR_erase (LR_set h _ (by simp [ER, eraseOp, Op.growRight, Op.addLen, Op.oLen])) _)
    · have := swap_ER r1 r2 hprev hthis (by simp [Op.tag])
      exact ih _ _ _ _ (LR_set (LR_set h _ this.1) _ this.2)
    · -- Insert after Equal
      simp only [Op.oStart, Op.oEnd, Op.nStart, Op.nEnd, Op.nLen, Op.oLen]
      cases hs : commonSuffixLen E po (po + pl) cn (cn + l) w with
      | error e => exact Sim.err e
      | ok r =>
        obtain ⟨sl, w1⟩ := r
        simp only []
        by_cases hsl : 0 < sl
        · simp only [hsl, if_true]
          rcases LR_get h (p + 1) with ⟨h5, h6⟩ | ⟨q, q2, h5, h6, hq⟩
          · simp only [h5, h6]
            rcases csub_cases (po + pl) sl with hc1 | hc1 <;> rcases csub_cases (cn + l) sl with hc2 | hc2 <;>
              simp only [hc1, hc2] <;> (try exact Sim.panicL)
            cont_up (LR_insert h _ ER.rfl)
          · rcases ER_cases hq with ⟨o2, n2, l2, rfl, rfl⟩ | ⟨_, _, _, _, rfl, rfl⟩ | ⟨_, _, _, _, rfl, rfl⟩ |
                ⟨_, _, _, _, rfl, rfl⟩ <;> simp only [h5, h6]
            · rcases growLeft_equal_cases o2 n2 l2 sl with hg | hg <;> simp only [hg, Except.map] <;>
                (try exact Sim.panicL)
              cont_up (LR_set h _ ER.rfl)
            all_goals
              rcases csub_cases (po + pl) sl with hc1 | hc1 <;> rcases csub_cases (cn + l) sl with hc2 | hc2 <;>
                simp only [hc1, hc2] <;> (try exact Sim.panicL)
              cont_up (LR_insert h _ ER.rfl)
        · simp only [hsl, if_false]
          by_cases he : (Op.equal po pn pl).isEmpty = true
          · simp only [he, if_true]; exact ih _ _ _ _ (LR_erase h _)
          · simp only [he]; exact Sim.ok ⟨h, rfl⟩
    · have := swap_ER r1 r2 hprev hthis (by simp [Op.tag])
      exact ih _ _ _ _ (LR_set (LR_set h _ this.1) _ this.2)
    · exact ih _ _ _ _ (LR_erase (LR_set h _ (by simp [ER, eraseOp, Op.growRight, Op.addLen, Op.nLen])) _)

theorem shrinkRight_equal_cases (o n l a : Nat) :
    (Op.equal o n l).shrinkRight a = .error .panic ∨
      (Op.equal o n l).shrinkRight a = .ok (.equal (o + a) (n + a) (l - a)) := by
  simp only [Op.shrinkRight, Op.shiftRight, Op.subLen, csub]
  by_cases h1 : a ≤ l <;> simp [h1, Except.map]

theorem get_insert_succ (l : List Op) (i : Nat) (x : Op) : (l.insertIdx i x)[i + 1]? = l[i]? := by
  rw [List.getElem?_insertIdx_of_gt (by omega)]; simp
theorem get_insert_succ2 (l : List Op) (i : Nat) (x : Op) : (l.insertIdx i x)[i + 1 + 1]? = l[i + 1]? := by
  rw [List.getElem?_insertIdx_of_gt (by omega)]; simp
theorem get_set_pred (l : List Op) (i : Nat) (x : Op) (hi : ¬ i = 0) : (l.set (i - 1) x)[i]? = l[i]? := by
  rw [List.getElem?_set_ne (by omega)]
theorem get_set_pred2 (l : List Op) (i : Nat) (x : Op) : (l.set (i - 1) x)[i + 1]? = l[i + 1]? := by
  rw [List.getElem?_set_ne (by omega)]

set_option hygiene false in
/-- common tail of the slide-down arm -/
local macro "cont_down" t:term : tactic => `(tactic| (
  rcases shrinkRight_equal_cases o2 n2 l2 pl with hS | hS <;> simp only [hS] <;> (try exact Sim.panicL)
  by_cases he : (Op.equal (o2 + pl) (n2 + pl) (l2 - pl)).isEmpty = true
  · simp only [he, if_true]
    exact ih _ _ _ _ (LR_erase (LR_set (LR_set $t _ (by simp [ER, eraseOp, Op.shiftRight])) _ ER.rfl) _)
  · simp only [he]
    exact ih _ _ _ _ (LR_set (LR_set $t _ (by simp [ER, eraseOp, Op.shiftRight])) _ ER.rfl)))

theorem shiftDown_sim (E : Env) (r1 r2 : Bool) : ∀ (fuel : Nat) (ops1 ops2 : List Op) (p : Nat) (w : World),
    LR ops1 ops2 → Sim SR (shiftDown E r1 fuel ops1 p w) (shiftDown E r2 fuel ops2 p w) := by
  intro fuel
  induction fuel with
  | zero => intro ops1 ops2 p w h; exact Sim.err _
  | succ fuel ih =>
    intro ops1 ops2 p w h
    simp only [shiftDown]
    rcases LR_get h (p + 1) with ⟨h1, h2⟩ | ⟨next, next2, h1, h2, hnext⟩
    · simp only [h1, h2]; exact Sim.ok ⟨h, rfl⟩
    simp only [h1, h2, opAt]
    rcases LR_get h p with ⟨h3, h4⟩ | ⟨this, this2, h3, h4, hthis⟩
    · simp only [h3, h4]; exact Sim.panicL
    simp only [h3, h4]
    rcases ER_cases hthis with ⟨co, cn, l, rfl, rfl⟩ | ⟨co, l, cn, cn2, rfl, rfl⟩ | ⟨co, co2, cn, l, rfl, rfl⟩ | ⟨_, _, _, _, rfl, rfl⟩ <;>
    rcases ER_cases hnext with ⟨o2, n2, l2, rfl, rfl⟩ | ⟨o2, l2, n2, n22, rfl, rfl⟩ | ⟨o2, o22, n2, l2, rfl, rfl⟩ | ⟨_, _, _, _, rfl, rfl⟩ <;>
    simp only [Op.tag] <;> try exact Sim.panicL
    · -- Delete before Equal: never slides
      simp only [Op.oStart, Op.oEnd, Op.nStart, Op.nEnd, Op.nLen, Nat.add_zero, cpl_same, Nat.lt_irrefl, if_false]
      by_cases he : (Op.equal o2 n2 l2).isEmpty = true
      · simp only [he, if_true]; exact ih _ _ _ _ (LR_erase h _)
      · simp only [he]; exact Sim.ok ⟨h, rfl⟩
    · exact ih _ _ _ _ (LR_erase (LR_set h _ (by simp [ER, eraseOp, Op.growRight, Op.addLen, Op.oLen])) _)
    · have := swap_ER r1 r2 hthis hnext (by simp [Op.tag])
      exact ih _ _ _ _ (LR_set (LR_set h _ this.1) _ this.2)
    · -- Insert before Equal
      simp only [Op.oStart, Op.oEnd, Op.nStart, Op.nEnd, Op.nLen, Op.oLen]
      cases hs : commonPrefixLen E o2 (o2 + l2) cn (cn + l) w with
      | error e => exact Sim.err e
      | ok r =>
        obtain ⟨pl, w1⟩ := r
        simp only []
        by_cases hpl : 0 < pl
        · simp only [hpl, if_true]
          by_cases hp : p = 0
          · simp only [hp, if_true, Bool.false_eq_true, if_false, get_insert_succ, get_insert_succ2]
            subst hp
            simp only [h3, h4, h1, h2, Nat.zero_add]
            cont_down (LR_insert h _ ER.rfl)
          · simp only [hp, if_false]
            rcases LR_get h (p - 1) with ⟨h7, h8⟩ | ⟨q, q2, h7, h8, hq⟩
            · simp only [h7, h8, Bool.false_eq_true, if_false, get_insert_succ, get_insert_succ2, h3, h4, h1, h2]
              cont_down (LR_insert h _ ER.rfl)
            · rcases ER_cases hq with ⟨qo, qn, ql, rfl, rfl⟩ | ⟨_, _, _, _, rfl, rfl⟩ | ⟨_, _, _, _, rfl, rfl⟩ |
                  ⟨_, _, _, _, rfl, rfl⟩
              · simp only [h7, h8, if_true, get_set_pred _ _ _ hp, get_set_pred2, h3, h4, h1, h2]
                cont_down (LR_set h _ ER.rfl)
              all_goals
                simp only [h7, h8, Bool.false_eq_true, if_false, get_insert_succ, get_insert_succ2, h3, h4, h1, h2]
                cont_down (LR_insert h _ ER.rfl)
        · simp only [hpl, if_false]
          by_cases he : (Op.equal o2 n2 l2).isEmpty = true
          · simp only [he, if_true]; exact ih _ _ _ _ (LR_erase h _)
          · simp only [he]; exact Sim.ok ⟨h, rfl⟩
    · have := swap_ER r1 r2 hthis hnext (by simp [Op.tag])
      exact ih _ _ _ _ (LR_set (LR_set h _ this.1) _ this.2)
    · exact ih _ _ _ _ (LR_erase (LR_set h _ (by simp [ER, eraseOp, Op.growRight, Op.addLen, Op.nLen])) _)

theorem ER_tag {x y : Op} (h : ER x y) : x.tag = y.tag := by
  rcases ER_cases h with ⟨_, _, _, rfl, rfl⟩ | ⟨_, _, _, _, rfl, rfl⟩ | ⟨_, _, _, _, rfl, rfl⟩ | ⟨_, _, _, _, rfl, rfl⟩ <;> rfl

def PR (a b : List Op × World) : Prop := LR a.1 b.1 ∧ a.2 = b.2

theorem cleanupPass_sim (E : Env) (r1 r2 : Bool) (which : Tag) (inner : Nat) :
    ∀ (fuel : Nat) (ops1 ops2 : List Op) (p : Nat) (w : World),
    LR ops1 ops2 → Sim PR (cleanupPass E r1 which inner fuel ops1 p w) (cleanupPass E r2 which inner fuel ops2 p w) := by
  intro fuel
  induction fuel with
  | zero => intro ops1 ops2 p w h; exact Sim.err _
  | succ fuel ih =>
    intro ops1 ops2 p w h
    simp only [cleanupPass]
    rcases LR_get h p with ⟨h1, h2⟩ | ⟨op, op2, h1, h2, hop⟩
    · simp only [h1, h2]; exact Sim.ok ⟨h, rfl⟩
    simp only [h1, h2, ← ER_tag hop]
    by_cases ht : op.tag = which
    · simp only [ht, if_true]
      rcases shiftUp_sim E r1 r2 inner ops1 ops2 p w h with ha | hb | ⟨e, ha, hb⟩ | ⟨⟨x1, p1, w1⟩, ⟨x2, p2, w2⟩, ha, hb, hR, hpw⟩
      · simp only [ha]; exact Sim.panicL
      · simp only [hb]; exact Sim.panicR
      · simp only [ha, hb]; exact Sim.err e
      · simp only [ha, hb]
        simp only [Prod.mk.injEq] at hpw
        obtain ⟨rfl, rfl⟩ := hpw
        rcases shiftDown_sim E r1 r2 inner x1 x2 p1 w1 hR with ha | hb | ⟨e, ha, hb⟩ | ⟨⟨y1, q1, v1⟩, ⟨y2, q2, v2⟩, ha, hb, hR', hpw⟩
        · simp only [ha]; exact Sim.panicL
        · simp only [hb]; exact Sim.panicR
        · simp only [ha, hb]; exact Sim.err e
        · simp only [ha, hb]
          simp only [Prod.mk.injEq] at hpw
          obtain ⟨rfl, rfl⟩ := hpw
          exact ih _ _ _ _ hR'
    · simp only [ht, if_false]
      exact ih _ _ _ _ h

theorem opsWeight_erase (a : List Op) : opsWeight (a.map eraseOp) = opsWeight a := by
  unfold opsWeight
  rw [List.foldl_map]
  congr
  funext acc x
  cases x <;> rfl

theorem opsWeight_LR {a b : List Op} (h : LR a b) : opsWeight a = opsWeight b := by
  rw [← opsWeight_erase a, ← opsWeight_erase b, h]

/-- **(C)**, general form: two runs of `cleanup_diff_ops` on scripts that differ only in carried indices,
with any two settings of the repair switch, either agree — same abort, or results equal up to carried
indices and equal worlds — or one of them panicked (the checked subtraction on the carried old index
of an Insert in `shift_left` is the only place where a carried index can matter). -/
theorem cleanup_sim (E : Env) (r1 r2 : Bool) (ops1 ops2 : List Op) (w : World) (h : LR ops1 ops2) :
    Sim PR (cleanupDiffOps E r1 ops1 w) (cleanupDiffOps E r2 ops2 w) := by
  simp only [cleanupDiffOps, opsWeight_LR h]
  rcases cleanupPass_sim E r1 r2 .delete (2 * opsWeight ops2 + 4) ((opsWeight ops2 + 2) * (opsWeight ops2 + 2)) ops1 ops2 0 w h with ha | hb | ⟨e, ha, hb⟩ | ⟨⟨x1, w1⟩, ⟨x2, w2⟩, ha, hb, hR, hw⟩
  · simp only [ha]; exact Sim.panicL
  · simp only [hb]; exact Sim.panicR
  · simp only [ha, hb]; exact Sim.err e
  · simp only [ha, hb]
    simp only at hw; subst hw
    exact cleanupPass_sim E r1 r2 .insert (2 * opsWeight ops2 + 4) ((opsWeight ops2 + 2) * (opsWeight ops2 + 2)) x1 x2 0 w1 hR

/-- **(C)** The repair switch only touches carried indices: on the same input the shipped and the
repaired clean-up agree up to carried indices (results and worlds; same abort), unless one of them panics. -/
theorem repair_only_touches_carried (E : Env) (ops : List Op) (w : World) :
    Sim (fun a b => a.1.map eraseOp = b.1.map eraseOp ∧ a.2 = b.2)
      (cleanupDiffOps E true ops w) (cleanupDiffOps E false ops w) :=
  cleanup_sim E true false ops ops w rfl

/-- (C) in the form "erasing commutes with the switch", for runs that do not panic -/
theorem repair_only_touches_carried_map (E : Env) (ops : List Op) (w : World)
    (h1 : cleanupDiffOps E true ops w ≠ .error .panic) (h2 : cleanupDiffOps E false ops w ≠ .error .panic) :
    (cleanupDiffOps E true ops w).map (fun r => (r.1.map eraseOp, r.2)) =
    (cleanupDiffOps E false ops w).map (fun r => (r.1.map eraseOp, r.2)) := by
  rcases repair_only_touches_carried E ops w with ha | hb | ⟨e, ha, hb⟩ | ⟨⟨x1, w1⟩, ⟨x2, w2⟩, ha, hb, hR, hw⟩
  · exact absurd ha h1
  · exact absurd hb h2
  · rw [ha, hb]
  · rw [ha, hb]
    have hR' : x1.map eraseOp = x2.map eraseOp := hR
    have hw' : w1 = w2 := hw
    simp only [Except.map, hR', hw']

/-- (C) for `.ok` results -/
theorem repair_only_touches_carried_ok (E : Env) (ops : List Op) (w : World) (a b : List Op) (wa wb : World)
    (h1 : cleanupDiffOps E true ops w = .ok (a, wa)) (h2 : cleanupDiffOps E false ops w = .ok (b, wb)) :
    a.map eraseOp = b.map eraseOp ∧ wa = wb := by
  rcases repair_only_touches_carried E ops w with ha | hb | ⟨e, ha, hb⟩ | ⟨⟨x1, w1⟩, ⟨x2, w2⟩, ha, hb, hR, hw⟩
  · rw [h1] at ha; cases ha
  · rw [h2] at hb; cases hb
  · rw [h1] at ha; cases ha
  · rw [h1] at ha; rw [h2] at hb; cases ha; cases hb; exact ⟨hR, hw⟩

/-- The proviso about panics is needed: a valid script (`Walk`) whose Insert carries an old index below
its run (`insert 0 1 1` after `equal 0 0 1, delete 1 1 1`; not `Carried`-valid) makes the shipped code
underflow in `shift_left`, while the repaired code first rewrites the carried index and succeeds. -/
def cex2Env : Env := Env.ofSeqs #[0, 0] #[0, 0]
def cex2Ops : List Op := [.equal 0 0 1, .delete 1 1 1, .insert 0 1 1]
theorem cex2_walk : Walk (eqB cex2Env) 0 0 cex2Ops 2 2 := by simp only [cex2Ops, Walk]; decide
theorem cex2_repaired : cleanupDiffOps cex2Env true cex2Ops {} =
    .ok ([.equal 0 0 1, .delete 1 1 1, .insert 2 1 1], { cmps := 2 }) := by rfl
theorem cex2_shipped : cleanupDiffOps cex2Env false cex2Ops {} = .error .panic := by rfl

end SimilarVerif.CompactP

import SimilarVerif.Model.Myers
import SimilarVerif.Lemmas.Utils
/-! Soundness of Myers' `conquer` over the recording hook, for every clock, relative to the one
fact about `find_middle_snake` that needs Myers' theory: the returned split point lies in the box
(`SnakeInBox`).  Exactness of the carried indices without a deadline is in addition relative to
`SnakeFound` (without a deadline `find_middle_snake` does not give up); unconditionally the carried
indices are `NearExact`: exact except for the `insert` of a `delete`+`insert` fallback pair. -/
namespace SimilarVerif.MyersP
open Spec

/-- What `conquer` needs from `find_middle_snake` to be sound: a returned split point lies inside
the box it was asked about.  (That it is not a corner is needed for termination only.)
Stated for the situations in which `conquer` calls it: both ranges non-empty. -/
def SnakeInBox (E : Env) : Prop :=
  ∀ (os oe ns ne off : Nat) (vf vb : V) (w : World) (vf' vb' : V) (x y : Nat) (w' : World),
    os < oe → ns < ne → InBounds E os oe ns ne →
    findMiddleSnake E os oe ns ne off vf vb w = .ok (vf', vb', some (x, y), w') →
    os ≤ x ∧ x ≤ oe ∧ ns ≤ y ∧ y ≤ ne

/-- The second fact about `find_middle_snake` that needs Myers' theory (a middle snake exists with
`d < d_max`): without a deadline it never gives up.  In the model `snakeLoop` answers `none` both when
the deadline fires and when its `d` counter runs out; only the theory excludes the latter. -/
def SnakeFound (E : Env) : Prop :=
  ∀ (os oe ns ne off : Nat) (vf vb : V) (w : World) (vf' vb' : V) (w' : World),
    os < oe → ns < ne → InBounds E os oe ns ne → w.clock = none →
    findMiddleSnake E os oe ns ne off vf vb w ≠ .ok (vf', vb', none, w')

/-! ## Spec-level lemmas: appending scripts -/

theorem Walk_append {e : Nat → Nat → Bool} : ∀ (a b : List Op) (o n o2 n2 : Nat),
    Walk e o n (a ++ b) o2 n2 ↔ ∃ o1 n1, Walk e o n a o1 n1 ∧ Walk e o1 n1 b o2 n2 := by
  intro a
  induction a with
  | nil =>
    intro b o n o2 n2
    simp only [List.nil_append, Walk]
    constructor
    · intro h; exact ⟨o, n, ⟨rfl, rfl⟩, h⟩
    · rintro ⟨o1, n1, ⟨rfl, rfl⟩, h⟩; exact h
  | cons c cs ih =>
    intro b o n o2 n2
    cases c <;> simp only [Walk, List.cons_append, ih] <;> grind

theorem Exact_append {e : Nat → Nat → Bool} : ∀ (a b : List Op) (o n o1 n1 : Nat),
    Walk e o n a o1 n1 → Exact o n a → Exact o1 n1 b → Exact o n (a ++ b) := by
  intro a
  induction a with
  | nil =>
    intro b o n o1 n1 hw _ hb
    simp only [Walk] at hw
    obtain ⟨rfl, rfl⟩ := hw
    simpa using hb
  | cons c cs ih =>
    intro b o n o1 n1 hw ha hb
    cases c <;> simp only [Walk, Exact, List.cons_append, Op.oStart, Op.nStart, Op.oLen, Op.nLen] at hw ha ⊢
    all_goals
      refine ⟨ha.1, ha.2.1, ?_⟩
      apply ih b _ _ o1 n1 _ ha.2.2 hb
      try simp only [Nat.add_zero]
      grind

/-- Carried indices are exact, except that an `insert` which directly follows a `delete` may carry
the old position at which that `delete` started (`pd`).  This is what the deadline fallback of
`conquer` emits, and it implies C01's `Carried`. -/
def NearExact : Option Nat → Nat → Nat → List Op → Prop
  | _, _, _, [] => True
  | _, o, n, .equal co cn len :: cs => co = o ∧ cn = n ∧ NearExact none (o+len) (n+len) cs
  | _, o, n, .delete co l cn :: cs => co = o ∧ cn = n ∧ NearExact (some o) (o+l) n cs
  | pd, o, n, .insert co cn l :: cs => (co = o ∨ pd = some co) ∧ cn = n ∧ NearExact none o (n+l) cs
  | _, o, n, .replace co ol cn nl :: cs => co = o ∧ cn = n ∧ NearExact none (o+ol) (n+nl) cs

theorem NearExact_mono : ∀ (pd : Option Nat) (b : List Op) (o n : Nat),
    NearExact none o n b → NearExact pd o n b := by
  intro pd b o n h
  cases b with
  | nil => simp [NearExact]
  | cons c cs => cases c <;> simp only [NearExact] at h ⊢ <;> grind

theorem NearExact_append {e : Nat → Nat → Bool} : ∀ (a b : List Op) (pd : Option Nat) (o n o1 n1 : Nat),
    Walk e o n a o1 n1 → NearExact pd o n a → NearExact none o1 n1 b → NearExact pd o n (a ++ b) := by
  intro a
  induction a with
  | nil =>
    intro b pd o n o1 n1 hw _ hb
    simp only [Walk] at hw
    obtain ⟨rfl, rfl⟩ := hw
    simpa using NearExact_mono pd b _ _ hb
  | cons c cs ih =>
    intro b pd o n o1 n1 hw ha hb
    cases c <;> simp only [Walk, NearExact, List.cons_append] at hw ha ⊢
    · exact ⟨ha.1, ha.2.1, ih b _ _ _ o1 n1 hw.2.2.2.2 ha.2.2 hb⟩
    · exact ⟨ha.1, ha.2.1, ih b _ _ _ o1 n1 hw.2.2 ha.2.2 hb⟩
    · exact ⟨ha.1, ha.2.1, ih b _ _ _ o1 n1 hw.2.2 ha.2.2 hb⟩
    · exact ⟨ha.1, ha.2.1, ih b _ _ _ o1 n1 hw.2.2.2.2 ha.2.2 hb⟩

theorem InRun_mono {o0 n0 o1 n1 o1' n1' : Nat} {x : Op} (h : InRun o0 n0 o1 n1 x)
    (ho : o1 ≤ o1') (hn : n1 ≤ n1') : InRun o0 n0 o1' n1' x := by
  cases x <;> simp only [InRun] at h ⊢ <;> omega

theorem CarriedGo_of_NearExact : ∀ (ops : List Op) (o0 n0 o n : Nat) (pend : List Op) (pd : Option Nat),
    o0 ≤ o → n0 ≤ n → (∀ x ∈ pend, InRun o0 n0 o n x) → (∀ d, pd = some d → o0 ≤ d ∧ d ≤ o) →
    NearExact pd o n ops → CarriedGo o0 n0 o n pend ops := by
  intro ops
  induction ops with
  | nil => intro o0 n0 o n pend pd _ _ hp _ _; simpa [CarriedGo] using hp
  | cons c cs ih =>
    intro o0 n0 o n pend pd ho hn hp hpd h
    cases c with
    | equal co cn len =>
      simp only [NearExact] at h
      simp only [CarriedGo]
      refine ⟨hp, ih _ _ _ _ [] none (Nat.le_refl _) (Nat.le_refl _) ?_ ?_ h.2.2⟩
      · intro x hx; simp at hx
      · intro d hd; simp at hd
    | delete co l cn =>
      simp only [NearExact] at h
      simp only [CarriedGo]
      refine ih _ _ _ _ _ (some o) (by omega) hn ?_ ?_ h.2.2
      · intro x hx
        simp only [List.mem_cons] at hx
        rcases hx with rfl | hx
        · simp only [InRun]; omega
        · exact InRun_mono (hp x hx) (by omega) (Nat.le_refl _)
      · intro d hd; simp only [Option.some.injEq] at hd; omega
    | insert co cn l =>
      simp only [NearExact] at h
      simp only [CarriedGo]
      refine ih _ _ _ _ _ none ho (by omega) ?_ ?_ h.2.2
      · intro x hx
        simp only [List.mem_cons] at hx
        rcases hx with rfl | hx
        · simp only [InRun]
          rcases h.1 with rfl | hc
          · omega
          · exact hpd co hc
        · exact InRun_mono (hp x hx) (Nat.le_refl _) (by omega)
      · intro d hd; simp at hd
    | replace co ol cn nl =>
      simp only [NearExact] at h
      simp only [CarriedGo]
      refine ih _ _ _ _ _ none (by omega) (by omega) ?_ ?_ h.2.2
      · intro x hx
        simp only [List.mem_cons] at hx
        rcases hx with rfl | hx
        · simp only [InRun]
        · exact InRun_mono (hp x hx) (by omega) (by omega)
      · intro d hd; simp at hd

/-- near-exact carried indices obey C01's run-relative rule -/
theorem Carried_of_NearExact {o n : Nat} {ops : List Op} (h : NearExact none o n ops) : Carried o n ops := by
  apply CarriedGo_of_NearExact ops o n o n [] none (Nat.le_refl _) (Nat.le_refl _) _ _ h
  · intro x hx; simp at hx
  · intro d hd; simp at hd

/-! ## The recording hook -/

/-- the hook state `r'` is `r` with `ops` appended to its trace -/
def Ext (r r' : Rec) (ops : List Op) : Prop := r' = { r with trace := r.trace ++ ops.map Call.op }

theorem Ext.nil (r : Rec) : Ext r r [] := by simp [Ext]

theorem Ext.append {r r1 r2 : Rec} {a b : List Op} (h1 : Ext r r1 a) (h2 : Ext r1 r2 b) :
    Ext r r2 (a ++ b) := by
  unfold Ext at *
  subst h1 h2
  simp [List.append_assoc]

theorem Ext.failAt {r r' : Rec} {a : List Op} (h : Ext r r' a) : r'.failAt = r.failAt := by
  unfold Ext at h; subst h; rfl

/-- `recHook` on a non-`replace` op with `failAt = none`: appends the call, world unchanged -/
theorem emit_rec {x : Op} {r r' : Rec} {w w' : World} (hf : r.failAt = none)
    (hx : ∀ o ol n nl, x ≠ .replace o ol n nl) (h : emit recHook x r w = .ok (r', w')) :
    Ext r r' [x] ∧ w' = w := by
  cases x with
  | replace o ol n nl => exact absurd rfl (hx o ol n nl)
  | _ =>
    simp only [emit, recHook, Rec.push, hf, Except.map] at h
    simp at h
    obtain ⟨rfl, rfl⟩ := h
    simp [Ext, hf]

/-! ## The clock: without a deadline nothing changes it -/

theorem probe_none {w : World} (h : w.clock = none) : probe w = (false, w) := by
  simp [probe, h]

theorem commonPrefixLen_clock {E : Env} {os oe ns ne : Nat} {w w' : World} {p : Nat}
    (h : commonPrefixLen E os oe ns ne w = .ok (p, w')) : w'.clock = w.clock :=
  (commonPrefixLen_spec h).2.2.2.2.1

theorem commonSuffixLen_clock {E : Env} {os oe ns ne : Nat} {w w' : World} {p : Nat}
    (h : commonSuffixLen E os oe ns ne w = .ok (p, w')) : w'.clock = w.clock :=
  (commonSuffixLen_spec h).2.2.2.2.1

theorem fwdPass_clock (E : Env) (os oe ns ne off : Nat) (d delta : Int) (odd : Bool) (vb : V) :
    ∀ (cnt : Nat) (k : Int) (vf : V) (w : World) (vf' : V) (res : Option (Nat × Nat)) (w' : World),
      fwdPass E os oe ns ne off d delta odd vb cnt k vf w = .ok (vf', res, w') → w'.clock = w.clock := by
  intro cnt
  induction cnt with
  | zero => intro k vf w vf' res w' h; simp [fwdPass] at h; rw [h.2.2]
  | succ c ih =>
    intro k vf w vf' res w' h
    simp only [fwdPass] at h
    split at h
    · simp at h
    · rename_i x0 _
      split at h
      · simp at h
      · rename_i x w1 hadv
        have hw1 : w1.clock = w.clock := by
          split at hadv
          · split at hadv
            · rename_i hc; simp at hadv; rw [← hadv.2]; exact commonPrefixLen_clock hc
            · simp at hadv
          · simp at hadv; rw [hadv.2]
        split at h
        · simp at h
        · split at h
          · split at h
            · simp at h
            · split at h
              · split at h
                · simp at h
                · simp at h; rw [← h.2.2]; exact hw1
              · rw [ih _ _ _ _ _ _ h, hw1]
          · rw [ih _ _ _ _ _ _ h, hw1]

theorem bwdPass_clock (E : Env) (os oe ns ne off : Nat) (d delta : Int) (odd : Bool) (vf : V) :
    ∀ (cnt : Nat) (k : Int) (vb : V) (w : World) (vb' : V) (res : Option (Nat × Nat)) (w' : World),
      bwdPass E os oe ns ne off d delta odd vf cnt k vb w = .ok (vb', res, w') → w'.clock = w.clock := by
  intro cnt
  induction cnt with
  | zero => intro k vb w vb' res w' h; simp [bwdPass] at h; rw [h.2.2]
  | succ c ih =>
    intro k vb w vb' res w' h
    simp only [bwdPass] at h
    split at h
    · simp at h
    · rename_i x0 _
      split at h
      · simp at h
      · rename_i x y w1 hadv
        have hw1 : w1.clock = w.clock := by
          split at hadv
          · split at hadv
            · rename_i hc; simp at hadv; rw [← hadv.2.2]; exact commonSuffixLen_clock hc
            · simp at hadv
          · simp at hadv; rw [hadv.2.2]
        split at h
        · simp at h
        · split at h
          · split at h
            · simp at h
            · split at h
              · split at h
                · simp at h
                · simp at h; rw [← h.2.2]; exact hw1
              · rw [ih _ _ _ _ _ _ h, hw1]
          · rw [ih _ _ _ _ _ _ h, hw1]

theorem snakeLoop_clock (E : Env) (os oe ns ne off : Nat) (delta : Int) (odd : Bool) :
    ∀ (cnt d : Nat) (vf vb : V) (w : World) (vf' vb' : V) (res : Option (Nat × Nat)) (w' : World),
      snakeLoop E os oe ns ne off delta odd cnt d vf vb w = .ok (vf', vb', res, w') →
      w.clock = none → w'.clock = none := by
  intro cnt
  induction cnt with
  | zero => intro d vf vb w vf' vb' res w' h hc; simp [snakeLoop] at h; rw [← h.2.2.2]; exact hc
  | succ c ih =>
    intro d vf vb w vf' vb' res w' h hc
    simp only [snakeLoop, probe_none hc] at h
    split at h
    · simp at h
    · rename_i hf
      simp at h; rw [← h.2.2.2, fwdPass_clock _ _ _ _ _ _ _ _ _ _ _ _ _ _ _ _ _ hf]; exact hc
    · rename_i hf
      have h1 := fwdPass_clock _ _ _ _ _ _ _ _ _ _ _ _ _ _ _ _ _ hf
      split at h
      · simp at h
      · rename_i hb
        simp at h; rw [← h.2.2.2, bwdPass_clock _ _ _ _ _ _ _ _ _ _ _ _ _ _ _ _ _ hb, h1]; exact hc
      · rename_i hb
        have h2 := bwdPass_clock _ _ _ _ _ _ _ _ _ _ _ _ _ _ _ _ _ hb
        exact ih _ _ _ _ _ _ _ _ h (by rw [h2, h1]; exact hc)

theorem findMiddleSnake_clock {E : Env} {os oe ns ne off : Nat} {vf vb : V} {w : World}
    {vf' vb' : V} {res : Option (Nat × Nat)} {w' : World}
    (h : findMiddleSnake E os oe ns ne off vf vb w = .ok (vf', vb', res, w'))
    (hc : w.clock = none) : w'.clock = none := by
  unfold findMiddleSnake at h
  simp only at h
  split at h
  · simp at h
  · split at h
    · simp at h
    · split at h
      · simp at h
      · exact snakeLoop_clock _ _ _ _ _ _ _ _ _ _ _ _ _ _ _ _ _ h hc

theorem InBounds_sub {E : Env} {os oe ns ne os' oe' ns' ne' : Nat} (h : InBounds E os oe ns ne)
    (h1 : os ≤ os') (h2 : oe' ≤ oe) (h3 : ns ≤ ns') (h4 : ne' ≤ ne) : InBounds E os' oe' ns' ne' :=
  fun i j a b c d => h i j (by omega) (by omega) (by omega) (by omega)

/-! ## Segments of a run -/

/-- One stretch of a run over the recording hook: the hook went from `r` to `r'` being told `ops`,
which walk from `(o,n)` to `(o',n')` with near-exact carried indices, exact ones under `P`. -/
structure Seg (e : Nat → Nat → Bool) (P : Prop) (r : Rec) (o n : Nat) (ops : List Op)
    (r' : Rec) (o' n' : Nat) : Prop where
  ext : Ext r r' ops
  walk : Walk e o n ops o' n'
  near : NearExact none o n ops
  exact : P → Exact o n ops

theorem Seg.nil {e : Nat → Nat → Bool} {P : Prop} {r : Rec} {o n : Nat} : Seg e P r o n [] r o n :=
  ⟨Ext.nil r, by simp [Walk], by simp [NearExact], fun _ => by simp [Exact]⟩

theorem Seg.append {e : Nat → Nat → Bool} {P : Prop} {r r1 r2 : Rec} {o n o1 n1 o2 n2 : Nat} {a b : List Op}
    (h1 : Seg e P r o n a r1 o1 n1) (h2 : Seg e P r1 o1 n1 b r2 o2 n2) : Seg e P r o n (a ++ b) r2 o2 n2 :=
  ⟨h1.ext.append h2.ext, (Walk_append a b o n o2 n2).2 ⟨o1, n1, h1.walk, h2.walk⟩,
   NearExact_append a b none o n o1 n1 h1.walk h1.near h2.near,
   fun hp => Exact_append a b o n o1 n1 h1.walk (h1.exact hp) (h2.exact hp)⟩

theorem Seg.failAt {e : Nat → Nat → Bool} {P : Prop} {r r' : Rec} {o n o' n' : Nat} {a : List Op}
    (h : Seg e P r o n a r' o' n') (hf : r.failAt = none) : r'.failAt = none := by
  rw [h.ext.failAt]; exact hf

theorem Seg.equal {e : Nat → Nat → Bool} {P : Prop} {r r' : Rec} {w w' : World} {o n l : Nat}
    (hf : r.failAt = none) (h : emit recHook (.equal o n l) r w = .ok (r', w')) (hl : 0 < l)
    (heq : ∀ t, t < l → e (o+t) (n+t) = true) :
    Seg e P r o n [.equal o n l] r' (o+l) (n+l) ∧ w' = w := by
  obtain ⟨hx, rfl⟩ := emit_rec hf (by intros; simp) h
  exact ⟨⟨hx, by simp only [Walk, hl, true_and, and_true]; exact heq, by simp [NearExact], fun _ => by simp [Exact, Op.oStart, Op.nStart]⟩, rfl⟩

theorem Seg.delete {e : Nat → Nat → Bool} {P : Prop} {r r' : Rec} {w w' : World} {o n l : Nat}
    (hf : r.failAt = none) (h : emit recHook (.delete o l n) r w = .ok (r', w')) (hl : 0 < l) :
    Seg e P r o n [.delete o l n] r' (o+l) n ∧ w' = w := by
  obtain ⟨hx, rfl⟩ := emit_rec hf (by intros; simp) h
  exact ⟨⟨hx, by simp [Walk, hl], by simp [NearExact], fun _ => by simp [Exact, Op.oStart, Op.nStart]⟩, rfl⟩

theorem Seg.insert {e : Nat → Nat → Bool} {P : Prop} {r r' : Rec} {w w' : World} {o n l : Nat}
    (hf : r.failAt = none) (h : emit recHook (.insert o n l) r w = .ok (r', w')) (hl : 0 < l) :
    Seg e P r o n [.insert o n l] r' o (n+l) ∧ w' = w := by
  obtain ⟨hx, rfl⟩ := emit_rec hf (by intros; simp) h
  exact ⟨⟨hx, by simp [Walk, hl], by simp [NearExact], fun _ => by simp [Exact, Op.oStart, Op.nStart]⟩, rfl⟩

/-- the deadline fallback: `delete` then `insert`, the insert carrying the old position *before* the
delete. Never exact, hence only available when `P` is absurd. -/
theorem Seg.fallback {e : Nat → Nat → Bool} {P : Prop} {r r1 r2 : Rec} {w w1 w2 : World} {o n l l' : Nat}
    (hP : ¬ P) (hf : r.failAt = none) (h1 : emit recHook (.delete o l n) r w = .ok (r1, w1))
    (h2 : emit recHook (.insert o n l') r1 w1 = .ok (r2, w2)) (hl : 0 < l) (hl' : 0 < l') :
    Seg e P r o n [.delete o l n, .insert o n l'] r2 (o+l) (n+l') ∧ w2 = w := by
  obtain ⟨hx1, rfl⟩ := emit_rec hf (by intros; simp) h1
  obtain ⟨hx2, rfl⟩ := emit_rec (by rw [hx1.failAt]; exact hf) (by intros; simp) h2
  exact ⟨⟨hx1.append hx2, by simp [Walk, hl, hl'], by simp [NearExact], fun hp => absurd hp hP⟩, rfl⟩

/-! ## `conquer` -/

theorem conquer_aux (E : Env) (hbox : SnakeInBox E) (off : Nat) (P : Prop) (hfound : P → SnakeFound E) :
    ∀ (fuel os oe ns ne : Nat) (vf vb : V) (r : Rec) (w : World) (r' : Rec) (vf' vb' : V) (w' : World),
      r.failAt = none → os ≤ oe → ns ≤ ne → InBounds E os oe ns ne → (P → w.clock = none) →
      conquer E recHook off fuel os oe ns ne vf vb r w = .ok (r', vf', vb', w') →
      (∃ ops, Seg (eqB E) P r os ns ops r' oe ne) ∧ (w.clock = none → w'.clock = none) := by
  intro fuel
  induction fuel with
  | zero => intro os oe ns ne vf vb r w r' vf' vb' w' _ _ _ _ _ h; simp [conquer] at h
  | succ f ih =>
    intro os oe ns ne vf vb r w r' vf' vb' w' hf ho hn hb hP h
    simp only [conquer] at h
    split at h
    · simp at h
    · rename_i p w1 hp
      obtain ⟨hp1, hp2, hp3, -, hp5⟩ := commonPrefixLen_spec hp
      have hc1 : w1.clock = w.clock := hp5.1
      split at h
      · simp at h
      · rename_i r1 w2 hpre
        have hpre' : (∃ pre, Seg (eqB E) P r os ns pre r1 (os+p) (ns+p)) ∧ w2 = w1 := by
          split at hpre
          · rename_i hpos
            obtain ⟨sg, rfl⟩ := Seg.equal (P := P) hf hpre hpos hp3
            exact ⟨⟨_, sg⟩, rfl⟩
          · rename_i hpos
            simp only [Except.ok.injEq, Prod.mk.injEq] at hpre
            obtain ⟨rfl, rfl⟩ := hpre
            have : p = 0 := by omega
            subst this
            exact ⟨⟨[], Seg.nil⟩, rfl⟩
        obtain ⟨⟨pre, spre⟩, rfl⟩ := hpre'
        have hf1 : r1.failAt = none := spre.failAt hf
        split at h
        · simp at h
        · rename_i sl w3 hs
          obtain ⟨hs1, hs2, hs3, -, hs5⟩ := commonSuffixLen_spec hs
          have hc3 : w3.clock = w.clock := by rw [hs5.1, hc1]
          split at h
          · simp at h
          · rename_i r2 vf2 vb2 w4 hmid
            have hmid' : (∃ mid, Seg (eqB E) P r1 (os+p) (ns+p) mid r2 (oe-sl) (ne-sl)) ∧
                (w3.clock = none → w4.clock = none) := by
              split at hmid
              · -- both ranges empty
                rename_i hcond
                simp only [Bool.and_eq_true, decide_eq_true_eq] at hcond
                simp only [Except.ok.injEq, Prod.mk.injEq] at hmid
                obtain ⟨rfl, rfl, rfl, rfl⟩ := hmid
                have e1 : oe - sl = os + p := by omega
                have e2 : ne - sl = ns + p := by omega
                rw [e1, e2]
                exact ⟨⟨[], Seg.nil⟩, id⟩
              · rename_i hcond
                simp only [Bool.and_eq_true, decide_eq_true_eq] at hcond
                split at hmid
                · -- new range empty: one delete
                  rename_i hne
                  split at hmid
                  · simp at hmid
                  · rename_i ra wa hem
                    simp only [Except.ok.injEq, Prod.mk.injEq] at hmid
                    obtain ⟨rfl, rfl, rfl, rfl⟩ := hmid
                    obtain ⟨sg, rfl⟩ := Seg.delete (e := eqB E) (P := P) hf1 hem (by omega)
                    have e1 : os + p + (oe - sl - (os + p)) = oe - sl := by omega
                    have e2 : ns + p = ne - sl := by omega
                    rw [e1] at sg
                    rw [← e2]
                    exact ⟨⟨_, sg⟩, id⟩
                · rename_i hne
                  split at hmid
                  · -- old range empty: one insert
                    rename_i hoe
                    split at hmid
                    · simp at hmid
                    · rename_i ra wa hem
                      simp only [Except.ok.injEq, Prod.mk.injEq] at hmid
                      obtain ⟨rfl, rfl, rfl, rfl⟩ := hmid
                      obtain ⟨sg, rfl⟩ := Seg.insert (e := eqB E) (P := P) hf1 hem (by omega)
                      have e1 : ns + p + (ne - sl - (ns + p)) = ne - sl := by omega
                      have e2 : os + p = oe - sl := by omega
                      rw [e1] at sg
                      rw [← e2]
                      exact ⟨⟨_, sg⟩, id⟩
                  · rename_i hoe
                    have hb' : InBounds E (os+p) (oe-sl) (ns+p) (ne-sl) :=
                      InBounds_sub hb (by omega) (by omega) (by omega) (by omega)
                    split at hmid
                    · simp at hmid
                    · -- a split point
                      rename_i vf5 vb5 x y w5 hfm
                      obtain ⟨hx1, hx2, hy1, hy2⟩ :=
                        hbox _ _ _ _ _ _ _ _ _ _ _ _ _ (by omega) (by omega) hb' hfm
                      have hc5 : w3.clock = none → w5.clock = none := findMiddleSnake_clock hfm
                      split at hmid
                      · simp at hmid
                      · rename_i ra vfa vba wa hca
                        obtain ⟨⟨opsa, sga⟩, hcla⟩ := ih _ _ _ _ _ _ _ _ _ _ _ _ hf1 hx1 hy1
                          (InBounds_sub hb' (Nat.le_refl _) hx2 (Nat.le_refl _) hy2)
                          (fun hp => hc5 (by rw [hc3]; exact hP hp)) hca
                        obtain ⟨⟨opsb, sgb⟩, hclb⟩ := ih _ _ _ _ _ _ _ _ _ _ _ _ (sga.failAt hf1) hx2 hy2
                          (InBounds_sub hb' hx1 (Nat.le_refl _) hy1 (Nat.le_refl _))
                          (fun hp => hcla (hc5 (by rw [hc3]; exact hP hp))) hmid
                        exact ⟨⟨_, sga.append sgb⟩, fun hc => hclb (hcla (hc5 hc))⟩
                    · -- gave up: delete then insert
                      rename_i vf5 vb5 w5 hfm
                      have hc5 : w3.clock = none → w5.clock = none := findMiddleSnake_clock hfm
                      have hnP : ¬ P := fun hp =>
                        hfound hp _ _ _ _ _ _ _ _ _ _ _ (by omega) (by omega) hb'
                          (by rw [hc3]; exact hP hp) hfm
                      split at hmid
                      · simp at hmid
                      · rename_i ra wa hem1
                        split at hmid
                        · simp at hmid
                        · rename_i rb wb hem2
                          simp only [Except.ok.injEq, Prod.mk.injEq] at hmid
                          obtain ⟨rfl, rfl, rfl, rfl⟩ := hmid
                          obtain ⟨sg, rfl⟩ := Seg.fallback (e := eqB E) hnP hf1 hem1 hem2 (by omega) (by omega)
                          have e1 : os + p + (oe - sl - (os + p)) = oe - sl := by omega
                          have e2 : ns + p + (ne - sl - (ns + p)) = ne - sl := by omega
                          rw [e1, e2] at sg
                          exact ⟨⟨_, sg⟩, hc5⟩
            obtain ⟨⟨mid, smid⟩, hc4⟩ := hmid'
            have hf2 : r2.failAt = none := smid.failAt hf1
            have hpost : (∃ post, Seg (eqB E) P r2 (oe-sl) (ne-sl) post r' oe ne) ∧ w' = w4 := by
              split at h
              · rename_i hpos
                split at h
                · simp at h
                · rename_i rc wc hem
                  simp only [Except.ok.injEq, Prod.mk.injEq] at h
                  obtain ⟨rfl, rfl, rfl, rfl⟩ := h
                  obtain ⟨sg, rfl⟩ := Seg.equal (e := eqB E) (P := P) hf2 hem hpos (by
                    intro t ht
                    have := hs3 (sl - 1 - t) (by omega)
                    have e1 : oe - 1 - (sl - 1 - t) = oe - sl + t := by omega
                    have e2 : ne - 1 - (sl - 1 - t) = ne - sl + t := by omega
                    rw [e1, e2] at this
                    exact this)
                  have e1 : oe - sl + sl = oe := by omega
                  have e2 : ne - sl + sl = ne := by omega
                  rw [e1, e2] at sg
                  exact ⟨⟨_, sg⟩, rfl⟩
              · rename_i hpos
                simp only [Except.ok.injEq, Prod.mk.injEq] at h
                obtain ⟨rfl, rfl, rfl, rfl⟩ := h
                have : sl = 0 := by omega
                subst this
                exact ⟨⟨[], Seg.nil⟩, rfl⟩
            obtain ⟨⟨post, spost⟩, rfl⟩ := hpost
            exact ⟨⟨_, spre.append (smid.append spost)⟩, fun hc => hc4 (by rw [hc3]; exact hc)⟩

/-- `conquer` appends a valid script for its box to what the recording hook already holds; the carried
indices are near-exact (hence obey C01's run-relative rule), they are exact when there is no deadline
and `find_middle_snake` then never gives up, and without a deadline the clock stays untouched. -/
theorem conquer_sound_near (E : Env) (hbox : SnakeInBox E) (off : Nat) :
    ∀ (fuel os oe ns ne : Nat) (vf vb : V) (r : Rec) (w : World) (r' : Rec) (vf' vb' : V) (w' : World),
      r.failAt = none → os ≤ oe → ns ≤ ne → InBounds E os oe ns ne →
      conquer E recHook off fuel os oe ns ne vf vb r w = .ok (r', vf', vb', w') →
      ∃ ops, r' = { r with trace := r.trace ++ ops.map Call.op } ∧
        Walk (eqB E) os ns ops oe ne ∧ Carried os ns ops ∧
        (SnakeFound E → w.clock = none → Exact os ns ops) ∧
        NearExact none os ns ops ∧ (w.clock = none → w'.clock = none) := by
  intro fuel os oe ns ne vf vb r w r' vf' vb' w' hf ho hn hb h
  obtain ⟨⟨ops, sg⟩, hc⟩ := conquer_aux E hbox off (SnakeFound E ∧ w.clock = none) (fun hp => hp.1)
    fuel os oe ns ne vf vb r w r' vf' vb' w' hf ho hn hb (fun hp => hp.2) h
  exact ⟨ops, sg.ext, sg.walk, Carried_of_NearExact sg.near, fun h1 h2 => sg.exact ⟨h1, h2⟩, sg.near, hc⟩

/-- `conquer` appends a valid script for its box to what the recording hook already holds; the
carried indices obey C01's run-relative rule, and are exact when there is no deadline (relative to
`SnakeFound`: without a deadline `find_middle_snake` does not give up). -/
theorem conquer_sound (E : Env) (hbox : SnakeInBox E) (off : Nat) :
    ∀ (fuel os oe ns ne : Nat) (vf vb : V) (r : Rec) (w : World) (r' : Rec) (vf' vb' : V) (w' : World),
      r.failAt = none → os ≤ oe → ns ≤ ne → InBounds E os oe ns ne →
      conquer E recHook off fuel os oe ns ne vf vb r w = .ok (r', vf', vb', w') →
      ∃ ops, r' = { r with trace := r.trace ++ ops.map Call.op } ∧
        Walk (eqB E) os ns ops oe ne ∧ Carried os ns ops ∧
        (SnakeFound E → w.clock = none → Exact os ns ops) := by
  intro fuel os oe ns ne vf vb r w r' vf' vb' w' hf ho hn hb h
  obtain ⟨ops, h1, h2, h3, h4, -, -⟩ :=
    conquer_sound_near E hbox off fuel os oe ns ne vf vb r w r' vf' vb' w' hf ho hn hb h
  exact ⟨ops, h1, h2, h3, h4⟩

/-- `myers::diff_deadline` over the recording hook: the trace is a script followed by one `finish`;
the script is valid, near-exact, and exact without a deadline (relative to `SnakeFound`). -/
theorem myers_sound_near (E : Env) (hbox : SnakeInBox E) (os oe ns ne : Nat) (w : World) (r' : Rec) (w' : World)
    (ho : os ≤ oe) (hn : ns ≤ ne) (hb : InBounds E os oe ns ne)
    (h : myersDiff E recHook os oe ns ne {} w = .ok (r', w')) :
    ∃ ops, r'.trace = ops.map Call.op ++ [.finish] ∧ Walk (eqB E) os ns ops oe ne ∧ Carried os ns ops ∧
      (SnakeFound E → w.clock = none → Exact os ns ops) ∧ NearExact none os ns ops ∧
      (w.clock = none → w'.clock = none) := by
  unfold myersDiff at h
  simp only at h
  split at h
  · simp at h
  · rename_i r1 vf1 vb1 w1 hc
    obtain ⟨ops, h1, h2, h3, h4, h5, h6⟩ :=
      conquer_sound_near E hbox _ _ os oe ns ne _ _ {} w r1 vf1 vb1 w1 rfl ho hn hb hc
    subst h1
    simp [recHook, Rec.push, Except.map] at h
    obtain ⟨rfl, rfl⟩ := h
    exact ⟨ops, by simp, h2, h3, h4, h5, h6⟩

/-- **Myers, partial correctness**: if `myers::diff_deadline` returns, the recorded calls are a
valid script for the two ranges followed by exactly one `finish`. -/
theorem myers_sound (E : Env) (hbox : SnakeInBox E) (os oe ns ne : Nat) (w : World) (r' : Rec) (w' : World)
    (ho : os ≤ oe) (hn : ns ≤ ne) (hb : InBounds E os oe ns ne)
    (h : myersDiff E recHook os oe ns ne {} w = .ok (r', w')) :
    ValidRaw E os oe ns ne r'.trace := by
  obtain ⟨ops, h1, h2, h3, -⟩ := myers_sound_near E hbox os oe ns ne w r' w' ho hn hb h
  exact ⟨ops, h1, h2, h3⟩

/-- **Myers without a deadline**: every index of every op is exact (C11 for the raw stream), relative
to the two facts about `find_middle_snake`. -/
theorem myers_exact (E : Env) (hbox : SnakeInBox E) (hfound : SnakeFound E) (os oe ns ne : Nat)
    (w : World) (r' : Rec) (w' : World)
    (ho : os ≤ oe) (hn : ns ≤ ne) (hb : InBounds E os oe ns ne) (hclock : w.clock = none)
    (h : myersDiff E recHook os oe ns ne {} w = .ok (r', w')) :
    ∃ ops, r'.trace = ops.map Call.op ++ [.finish] ∧ Walk (eqB E) os ns ops oe ne ∧ Exact os ns ops := by
  obtain ⟨ops, h1, h2, -, h4, -⟩ := myers_sound_near E hbox os oe ns ne w r' w' ho hn hb h
  exact ⟨ops, h1, h2, h4 hfound hclock⟩

end SimilarVerif.MyersP

import SimilarVerif.Model.Myers
import SimilarVerif.Lemmas.Utils
/-! Soundness of Myers' `conquer` over the recording hook, for every clock, relative to the one
fact about `find_middle_snake` that needs Myers' theory: the returned split point lies in the box. -/
namespace SimilarVerif
open Spec

/-- What `conquer` needs from `find_middle_snake` to be sound: a returned split point lies inside
the box it was asked about.  (That it is not a corner is needed for termination only.)
Stated for the situations in which `conquer` calls it: both ranges non-empty. -/
def SnakeInBox (E : Env) : Prop :=
  ∀ (os oe ns ne off : Nat) (vf vb : V) (w : World) (vf' vb' : V) (x y : Nat) (w' : World),
    os < oe → ns < ne → InBounds E os oe ns ne →
    findMiddleSnake E os oe ns ne off vf vb w = .ok (vf', vb', some (x, y), w') →
    os ≤ x ∧ x ≤ oe ∧ ns ≤ y ∧ y ≤ ne

/-- `conquer` appends a valid script for its box to what the recording hook already holds; the
carried indices obey C01's run-relative rule, and are exact when there is no deadline. -/
theorem conquer_sound (E : Env) (hbox : SnakeInBox E) (off : Nat) :
    ∀ (fuel os oe ns ne : Nat) (vf vb : V) (r : Rec) (w : World) (r' : Rec) (vf' vb' : V) (w' : World),
      r.failAt = none → os ≤ oe → ns ≤ ne → InBounds E os oe ns ne →
      conquer E recHook off fuel os oe ns ne vf vb r w = .ok (r', vf', vb', w') →
      ∃ ops, r' = { r with trace := r.trace ++ ops.map Call.op } ∧
        Walk (eqB E) os ns ops oe ne ∧ Carried os ns ops ∧ (w.clock = none → Exact os ns ops) := by
  sorry

/-- **Myers, partial correctness**: if `myers::diff_deadline` returns, the recorded calls are a
valid script for the two ranges followed by exactly one `finish`. -/
theorem myers_sound (E : Env) (hbox : SnakeInBox E) (os oe ns ne : Nat) (w : World) (r' : Rec) (w' : World)
    (ho : os ≤ oe) (hn : ns ≤ ne) (hb : InBounds E os oe ns ne)
    (h : myersDiff E recHook os oe ns ne {} w = .ok (r', w')) :
    ValidRaw E os oe ns ne r'.trace := by
  sorry

end SimilarVerif

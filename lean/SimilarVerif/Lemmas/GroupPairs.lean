import SimilarVerif.Lemmas.Group
/-! # C12, clause (g'): two ARBITRARY changes of the input

`group_separation` / `group_adjacent_changes` (Lemmas/Group.lean) say when two CONSECUTIVE changes fall into the same
group. Here: two arbitrary changes `c1`, `c2` of `ops = pre ++ [c1] ++ mid ++ [c2] ++ post`
* are in the same group — which contains `c1`, the whole of `mid` and `c2` — when every Equal op between them has at
  most `2n` items (`same_group_of_small_gaps`),
* are in different groups, `c1`'s before `c2`'s, when some Equal op between them has more than `2n` items
  (`different_groups_of_big_gap`).
Every op list, every radius: no hypothesis (`AltOps` or other) on the op list is needed. -/
namespace SimilarVerif
open Spec Group

namespace Group

theorem isBig_false_of_small2 {n : Nat} {x : Op} (h : x.tag = .equal → x.oLen ≤ 2 * n) : isBig n x = false := by
  cases x with
  | equal o m len => simp [Op.tag, Op.oLen] at h; simp [isBig]; omega
  | _ => rfl

theorem isBig_true_of_big {n : Nat} {x : Op} (ht : x.tag = .equal) (h : 2 * n < x.oLen) : isBig n x = true := by
  cases x with
  | equal o m len => simp [Op.oLen] at h; simp [isBig]; omega
  | _ => simp [Op.tag] at ht

/-- ops none of which closes a group are appended to the pending group -/
theorem G_small_list (n : Nat) (l rest p : List Op) (h : ∀ x ∈ l, isBig n x = false) :
    G n (l ++ rest) p = G n rest (p ++ l) := by
  induction l generalizing p with
  | nil => simp
  | cons x l ih =>
    rw [List.cons_append, G_small _ _ _ _ (h x (by simp)), ih _ (fun y hy => h y (by simp [hy]))]
    simp

/-- the first op of a list that closes a group -/
theorem exists_first_big (n : Nat) (l : List Op) (h : ∃ x ∈ l, isBig n x = true) :
    ∃ l1 x l2, l = l1 ++ x :: l2 ∧ (∀ y ∈ l1, isBig n y = false) ∧ isBig n x = true := by
  induction l with
  | nil => obtain ⟨x, hx, -⟩ := h; simp at hx
  | cons a l ih =>
    by_cases ha : isBig n a = true
    · exact ⟨[], a, l, rfl, by simp, ha⟩
    · have ha : isBig n a = false := by simpa using ha
      obtain ⟨x, hx, hb⟩ := h
      have hxl : x ∈ l := by
        rcases List.mem_cons.1 hx with rfl | hx
        · rw [ha] at hb; cases hb
        · exact hx
      obtain ⟨l1, y, l2, rfl, h1, hy⟩ := ih ⟨x, hxl, hb⟩
      refine ⟨a :: l1, y, l2, rfl, ?_, hy⟩
      intro z hz
      rcases List.mem_cons.1 hz with rfl | hz
      · exact ha
      · exact h1 z hz

/-- the trimmed input when the list is split around two changes -/
theorem trim_split2 (n : Nat) (pre mid post : List Op) (c1 c2 : Op) (h1 : c1.tag ≠ .equal) (h2 : c2.tag ≠ .equal) :
    trimLast n (trimFirst n (pre ++ [c1] ++ mid ++ [c2] ++ post)) =
      trimFirst n pre ++ (c1 :: (mid ++ c2 :: trimLast n post)) := by
  have := trim_split n (pre ++ [c1] ++ mid) c2 post h2
  simp only [List.append_assoc, List.cons_append, List.nil_append] at this ⊢
  rw [this, trimFirst_append_ne n pre c1 _ h1]
  simp

end Group

/-- **Two arbitrary changes, same group.** If every Equal op between the changes `c1` and `c2` has at most `2n`
items, one group contains `c1`, all the ops between them (whole) and `c2`. `G1` and `s1` hold exactly the changes of
`pre`, so the statement is about these occurrences of `c1`, `c2`. -/
theorem same_group_of_small_gaps (ops : List Op) (n : Nat) (pre mid post : List Op) (c1 c2 : Op)
    (hops : ops = pre ++ [c1] ++ mid ++ [c2] ++ post) (h1 : c1.tag ≠ .equal) (h2 : c2.tag ≠ .equal)
    (hmid : ∀ x ∈ mid, x.tag = .equal → x.oLen ≤ 2 * n) :
    ∃ G1 s1 s2 G2, groupDiffOps ops n = G1 ++ [s1 ++ [c1] ++ mid ++ [c2] ++ s2] ++ G2 ∧
      changesOf (G1.flatten ++ s1) = changesOf pre := by
  subst hops
  obtain ⟨done, p', hG, hch⟩ := G_prefix n (trimFirst n pre) []
  rw [changesOf_trimFirst] at hch
  rw [groupDiffOps_eq, trim_split2 n pre mid post c1 c2 h1 h2, hG, G_small _ _ _ _ (isBig_false_of_ne h1),
    G_small_list n mid _ _ (fun x hx => isBig_false_of_small2 (hmid x hx)),
    G_small _ _ _ _ (isBig_false_of_ne h2)]
  obtain ⟨s, t, h⟩ := G_of_change n (trimLast n post) (p' ++ [c1] ++ mid ++ [c2])
    (by rw [changesOf_append, changesOf_single_ne h2]; simp)
  refine ⟨done, p', s, t, ?_, by simpa [changesOf] using hch⟩
  rw [h]; simp

/-- **Two arbitrary changes, different groups.** If some Equal op between the changes `c1` and `c2` has more than
`2n` items, `c1` is in a group `g1` and `c2` in a LATER group `g2`. The `changesOf` equations say that these are the
given occurrences: the groups before `g1` and the part `s1` of `g1` before `c1` hold exactly the changes of `pre`;
the groups before `g2` and the part `s2` of `g2` before `c2` hold exactly the changes of `pre ++ [c1] ++ mid`.
Additionally: `g1` ends with the first `n` items of the first such Equal op `.equal o m len` of `mid`, and the ops of
`mid` before it are whole in `g1`. -/
theorem different_groups_of_big_gap (ops : List Op) (n : Nat) (pre mid post : List Op) (c1 c2 : Op)
    (hops : ops = pre ++ [c1] ++ mid ++ [c2] ++ post) (h1 : c1.tag ≠ .equal) (h2 : c2.tag ≠ .equal)
    (hmid : ∃ x ∈ mid, x.tag = .equal ∧ 2 * n < x.oLen) :
    ∃ G1 g1 Gm g2 G2 s1 t1 s2 t2,
      groupDiffOps ops n = G1 ++ [g1] ++ Gm ++ [g2] ++ G2 ∧
      g1 = s1 ++ [c1] ++ t1 ∧ changesOf (G1.flatten ++ s1) = changesOf pre ∧
      g2 = s2 ++ [c2] ++ t2 ∧
      changesOf ((G1 ++ [g1] ++ Gm).flatten ++ s2) = changesOf (pre ++ [c1] ++ mid) ∧
      (∃ m1 o m len m2, mid = m1 ++ .equal o m len :: m2 ∧ 2 * n < len ∧
        (∀ y ∈ m1, y.tag = .equal → y.oLen ≤ 2 * n) ∧ t1 = m1 ++ [.equal o m n]) := by
  subst hops
  obtain ⟨m1, x, m2, rfl, hm1, hx⟩ := exists_first_big n mid
    (by obtain ⟨x, hx, ht, hl⟩ := hmid; exact ⟨x, hx, isBig_true_of_big ht hl⟩)
  obtain ⟨o, m, len, rfl, hlen⟩ := isBig_true hx
  obtain ⟨done, p', hG, hch⟩ := G_prefix n (trimFirst n pre) []
  rw [changesOf_trimFirst] at hch
  obtain ⟨done2, p2, hG2, hch2⟩ := G_prefix n m2 [.equal (o + (len - n)) (m + (len - n)) (len - (len - n))]
  obtain ⟨s, t, h⟩ := G_of_change n (trimLast n post) (p2 ++ [c2])
    (by rw [changesOf_append, changesOf_single_ne h2]; simp)
  refine ⟨done, p' ++ [c1] ++ (m1 ++ [.equal o m n]), done2, p2 ++ [c2] ++ s, t, p', m1 ++ [.equal o m n], p2, s,
    ?_, rfl, by simpa [changesOf] using hch, rfl, ?_,
    ⟨m1, o, m, len, m2, rfl, by omega, fun y hy => small_of_not_big (hm1 y hy), rfl⟩⟩
  · rw [groupDiffOps_eq, trim_split2 n pre _ post c1 c2 h1 h2, hG, G_small _ _ _ _ (isBig_false_of_ne h1),
      List.append_assoc, G_small_list n m1 _ _ hm1, List.cons_append, G_big _ _ _ _ _ _ hlen, hG2,
      G_small _ _ _ _ (isBig_false_of_ne h2), h]
    simp
  · have e1 : changesOf (done.flatten ++ p') = changesOf pre := by simpa [changesOf] using hch
    have e2 : changesOf (done2.flatten ++ p2) = changesOf m2 := by simpa [changesOf] using hch2
    simp only [List.flatten_append, List.flatten_cons, List.flatten_nil, List.append_nil, List.append_assoc,
      changesOf_append, changesOf_cons (.equal o m len) m2, changesOf_single_eq, List.nil_append] at e1 e2 ⊢
    rw [← e2, ← List.append_assoc (changesOf done.flatten), e1]

end SimilarVerif

#print axioms SimilarVerif.same_group_of_small_gaps
#print axioms SimilarVerif.different_groups_of_big_gap

import SimilarVerif.Lemmas.MyersGeneric
import SimilarVerif.Lemmas.MyersTotal
import SimilarVerif.Lemmas.MyersOptimal
/-! Myers over an ARBITRARY hook: optimality of the delivered script (G1), progress modulo hook
failures (G2), and totality under a hook invariant indexed by the ops delivered so far (G3). -/
namespace SimilarVerif.MyersGO
open Spec MyersP MyersG MyersT LcsMin

/-! ## G1: the delivered script is optimal -/

theorem cost_nil : Spec.cost ([] : List Op) = 0 := by simp [Spec.cost, nDel, nIns]
theorem cost_equal (o n l : Nat) : Spec.cost [.equal o n l] = 0 := by simp [Spec.cost, nDel, nIns]
theorem cost_delete (o l n : Nat) : Spec.cost [.delete o l n] = l := by simp [Spec.cost, nDel, nIns]
theorem cost_insert (o n l : Nat) : Spec.cost [.insert o n l] = l := by simp [Spec.cost, nDel, nIns]

theorem conquer_gen_cost {σ : Type} (E : Env) (off : Nat) (h : Hook σ) (hkeep : HookKeepsClock h) :
    ∀ (fuel os oe ns ne : Nat) (vf vb : V) (s : σ) (w : World) (s' : σ) (vf' vb' : V) (w' : World),
      os ≤ oe → ns ≤ ne → InBounds E os oe ns ne → w.clock = none →
      conquer E h off fuel os oe ns ne vf vb s w = .ok (s', vf', vb', w') →
      ∃ ops, GSeg (eqB E) True h s w os ns ops s' w' oe ne ∧ Spec.cost ops = boxD E os oe ns ne := by
  intro fuel
  induction fuel with
  | zero => intro os oe ns ne vf vb s w s' vf' vb' w' _ _ _ _ hc; simp [conquer] at hc
  | succ f ih =>
    intro os oe ns ne vf vb s w s' vf' vb' w' ho hn hb hw hc
    simp only [conquer] at hc
    split at hc
    · simp at hc
    · rename_i p w1 hp
      obtain ⟨hp1, hp2, hp3, -, hp5⟩ := commonPrefixLen_spec hp
      have hk1 : ClockKeep w w1 := ClockKeep.of_eq hp5.1
      have hD1 := boxD_strip_prefix (E := E) hp1 hp2 hp3
      split at hc
      · simp at hc
      · rename_i s1 w2 hpre
        have hpre' : ∃ pre, GSeg (eqB E) True h s w os ns pre s1 w2 (os+p) (ns+p) ∧ Spec.cost pre = 0 := by
          split at hpre
          · rename_i hpos
            exact ⟨_, (GSeg.equal hpre hpos hp3).pre hk1, cost_equal _ _ _⟩
          · rename_i hpos
            simp only [Except.ok.injEq, Prod.mk.injEq] at hpre
            obtain ⟨rfl, rfl⟩ := hpre
            have : p = 0 := by omega
            subst this
            exact ⟨[], GSeg.nil hk1, cost_nil⟩
        obtain ⟨pre, spre, cpre⟩ := hpre'
        have hw2 : w2.clock = none := spre.clock hkeep hw
        split at hc
        · simp at hc
        · rename_i sl w3 hs
          obtain ⟨hs1, hs2, hs3, -, hs5⟩ := commonSuffixLen_spec hs
          have hk3 : ClockKeep w2 w3 := ClockKeep.of_eq hs5.1
          have hw3 : w3.clock = none := hk3 hw2
          have hD2 := boxD_strip_suffix (E := E) (os := os+p) (ns := ns+p) hs1 hs2 hs3
          have hb' : InBounds E (os+p) (oe-sl) (ns+p) (ne-sl) :=
            InBounds_sub hb (by omega) (by omega) (by omega) (by omega)
          split at hc
          · simp at hc
          · rename_i s2 vf2 vb2 w4 hmid
            have hmid' : ∃ mid, GSeg (eqB E) True h s1 w3 (os+p) (ns+p) mid s2 w4 (oe-sl) (ne-sl) ∧
                Spec.cost mid = boxD E (os+p) (oe-sl) (ns+p) (ne-sl) := by
              split at hmid
              · rename_i hcond
                simp only [Bool.and_eq_true, decide_eq_true_eq] at hcond
                simp only [Except.ok.injEq, Prod.mk.injEq] at hmid
                obtain ⟨rfl, rfl, rfl, rfl⟩ := hmid
                have e1 : oe - sl = os + p := by omega
                have e2 : ne - sl = ns + p := by omega
                refine ⟨[], ?_, ?_⟩
                · rw [e1, e2]; exact GSeg.nil (ClockKeep.refl _)
                · rw [boxD_no_new hcond.2, cost_nil]; omega
              · rename_i hcond
                simp only [Bool.and_eq_true, decide_eq_true_eq] at hcond
                split at hmid
                · rename_i hne
                  split at hmid
                  · simp at hmid
                  · rename_i ra wa hem
                    simp only [Except.ok.injEq, Prod.mk.injEq] at hmid
                    obtain ⟨rfl, rfl, rfl, rfl⟩ := hmid
                    have sg := GSeg.delete (e := eqB E) (P := True) hem (by omega)
                    have e1 : os + p + (oe - sl - (os + p)) = oe - sl := by omega
                    have e2 : ns + p = ne - sl := by omega
                    rw [e1] at sg
                    refine ⟨[.delete (os+p) (oe - sl - (os+p)) (ns+p)], ?_, ?_⟩
                    · rw [← e2]; exact sg
                    · rw [boxD_no_new hne, cost_delete]
                · rename_i hne
                  split at hmid
                  · rename_i hoe
                    split at hmid
                    · simp at hmid
                    · rename_i ra wa hem
                      simp only [Except.ok.injEq, Prod.mk.injEq] at hmid
                      obtain ⟨rfl, rfl, rfl, rfl⟩ := hmid
                      have sg := GSeg.insert (e := eqB E) (P := True) hem (by omega)
                      have e1 : ns + p + (ne - sl - (ns + p)) = ne - sl := by omega
                      have e2 : os + p = oe - sl := by omega
                      rw [e1] at sg
                      refine ⟨[.insert (os+p) (ns+p) (ne - sl - (ns+p))], ?_, ?_⟩
                      · rw [← e2]; exact sg
                      · rw [boxD_no_old hoe, cost_insert]
                  · rename_i hoe
                    have ho' : os + p < oe - sl := by omega
                    have hn' : ns + p < ne - sl := by omega
                    split at hmid
                    · simp at hmid
                    · rename_i vf5 vb5 x y w5 hfm
                      have hsp := findMiddleSnake_spec (Nat.le_of_lt ho') (Nat.le_of_lt hn') hfm
                      simp only [LoopPost] at hsp
                      obtain ⟨hx1, hx2, hy1, hy2, -⟩ := id hsp
                      have hk5 : ClockKeep w3 w5 := findMiddleSnake_clock hfm
                      split at hmid
                      · simp at hmid
                      · rename_i ra vfa vba wa hca
                        obtain ⟨opsa, sga, ca⟩ := ih _ _ _ _ _ _ _ _ _ _ _ _ hx1 hy1
                          (InBounds_sub hb' (Nat.le_refl _) hx2 (Nat.le_refl _) hy2) (hk5 hw3) hca
                        obtain ⟨opsb, sgb, cb⟩ := ih _ _ _ _ _ _ _ _ _ _ _ _ hx2 hy2
                          (InBounds_sub hb' hx1 (Nat.le_refl _) hy1 (Nat.le_refl _))
                          (sga.clock hkeep (hk5 hw3)) hmid
                        exact ⟨_, (sga.append sgb).pre hk5, by rw [cost_append, ca, cb, boxD_split hsp]⟩
                    · rename_i vf5 vb5 w5 hfm
                      exact absurd hfm (snake_found E _ _ _ _ _ _ _ _ _ _ _ ho' hn' hb' hw3)
            obtain ⟨mid, smid, cmid⟩ := hmid'
            have hpost : ∃ post, GSeg (eqB E) True h s2 w4 (oe-sl) (ne-sl) post s' w' oe ne ∧ Spec.cost post = 0 := by
              split at hc
              · rename_i hpos
                split at hc
                · simp at hc
                · rename_i rc wc hem
                  simp only [Except.ok.injEq, Prod.mk.injEq] at hc
                  obtain ⟨rfl, rfl, rfl, rfl⟩ := hc
                  have sg := GSeg.equal (e := eqB E) (P := True) hem hpos (by
                    intro t ht
                    have := hs3 (sl - 1 - t) (by omega)
                    have e1 : oe - 1 - (sl - 1 - t) = oe - sl + t := by omega
                    have e2 : ne - 1 - (sl - 1 - t) = ne - sl + t := by omega
                    rw [e1, e2] at this
                    exact this)
                  have e1 : oe - sl + sl = oe := by omega
                  have e2 : ne - sl + sl = ne := by omega
                  rw [e1, e2] at sg
                  exact ⟨_, sg, cost_equal _ _ _⟩
              · rename_i hpos
                simp only [Except.ok.injEq, Prod.mk.injEq] at hc
                obtain ⟨rfl, rfl, rfl, rfl⟩ := hc
                have : sl = 0 := by omega
                subst this
                exact ⟨[], GSeg.nil (ClockKeep.refl _), cost_nil⟩
            obtain ⟨post, spost, cpost⟩ := hpost
            refine ⟨_, spre.append ((smid.pre hk3).append spost), ?_⟩
            rw [cost_append, cost_append, cpre, cmid, cpost, hD1, hD2]; omega


/-- **G1, `conquer` over any hook without a deadline**: the hook is driven with a valid, exact script
for the box that has exactly `N + M - 2·LCS` deleted+inserted items (hence is a cheapest one). -/
theorem conquer_generic_optimal {σ : Type} (E : Env) (off : Nat) (h : Hook σ) (hkeep : HookKeepsClock h)
    (fuel os oe ns ne : Nat) (vf vb : V) (s : σ) (w : World) (s' : σ) (vf' vb' : V) (w' : World)
    (ho : os ≤ oe) (hn : ns ≤ ne) (hb : InBounds E os oe ns ne) (hw : w.clock = none)
    (hc : conquer E h off fuel os oe ns ne vf vb s w = .ok (s', vf', vb', w')) :
    ∃ ops, Delivered h ops s w s' w' ∧ Walk (eqB E) os ns ops oe ne ∧ NearExact none os ns ops ∧
      NoReplaceOp ops ∧ Exact os ns ops ∧
      nDel ops + nIns ops + 2 * lcsLen (eqB E) (oe-os) (ne-ns) os ns = (oe-os) + (ne-ns) ∧
      (∀ ops', Walk (eqB E) os ns ops' oe ne → Spec.cost ops ≤ Spec.cost ops') ∧ w'.clock = none := by
  obtain ⟨ops, sg, c⟩ := conquer_gen_cost E off h hkeep fuel os oe ns ne vf vb s w s' vf' vb' w' ho hn hb hw hc
  have hl := boxD_lcs E os oe ns ne
  refine ⟨ops, sg.del, sg.walk, sg.near, sg.norep, sg.exact trivial, ?_, ?_, sg.clock hkeep hw⟩
  · unfold Spec.cost at c; omega
  · intro ops' hw'
    have := walk_cost_lower hw'
    omega

/-- **G1, `myers::diff_deadline` over any hook without a deadline** -/
theorem myersDiff_generic_optimal {σ : Type} (E : Env) (h : Hook σ) (hkeep : HookKeepsClock h)
    (os oe ns ne : Nat) (s : σ) (w : World) (s' : σ) (w' : World)
    (ho : os ≤ oe) (hn : ns ≤ ne) (hb : InBounds E os oe ns ne) (hw : w.clock = none)
    (hc : myersDiff E h os oe ns ne s w = .ok (s', w')) :
    ∃ ops s1 w1, Delivered h ops s w s1 w1 ∧ h.call .finish s1 w1 = .ok (s', w') ∧
      Walk (eqB E) os ns ops oe ne ∧ NearExact none os ns ops ∧ NoReplaceOp ops ∧ Exact os ns ops ∧
      nDel ops + nIns ops + 2 * lcsLen (eqB E) (oe-os) (ne-ns) os ns = (oe-os) + (ne-ns) ∧
      (∀ ops', Walk (eqB E) os ns ops' oe ne → Spec.cost ops ≤ Spec.cost ops') ∧ w1.clock = none := by
  unfold myersDiff at hc
  simp only at hc
  split at hc
  · simp at hc
  · rename_i s1 vf1 vb1 w1 hcq
    obtain ⟨ops, h1, h2, h3, h4, h5, h6, h7, h8⟩ :=
      conquer_generic_optimal E _ h hkeep _ os oe ns ne _ _ s w s1 vf1 vb1 w1 ho hn hb hw hcq
    exact ⟨ops, s1, w1, h1, hc, h2, h3, h4, h5, h6, h7, h8⟩


/-! ## G2: progress — every abort is a propagated hook abort -/

/-- the abort `e` was produced by some call of the hook -/
def HookFailed {σ} (h : Hook σ) (e : Abort) : Prop := ∃ c s0 w0, h.call c s0 w0 = .error e

theorem HookFailed.of_emit {σ} {h : Hook σ} {x : Op} {s : σ} {w : World} {e : Abort}
    (hem : emit h x s w = .error e) : HookFailed h e := ⟨.op x, s, w, hem⟩

/-- **G2**: over any hook, with in-bounds ranges, arrays of the allocated size and enough fuel,
`conquer` itself never panics and never runs out of fuel: an abort is an abort of a hook call. -/
theorem conquer_generic_progress {σ : Type} (E : Env) (off : Nat) (h : Hook σ) :
    ∀ (fuel os oe ns ne : Nat) (vf vb : V) (s : σ) (w : World),
      (oe - os) + (ne - ns) < fuel → os ≤ oe → ns ≤ ne → InBounds E os oe ns ne →
      maxD (oe-os) (ne-ns) ≤ off → vf.size = 2 * off → vb.size = 2 * off →
      ∀ e, conquer E h off fuel os oe ns ne vf vb s w = .error e → HookFailed h e := by
  intro fuel
  induction fuel with
  | zero => intro os oe ns ne vf vb s w hfu; omega
  | succ f ih =>
    intro os oe ns ne vf vb s w hfu ho hn hb hmd hsf hsb e hc
    simp only [conquer] at hc
    split at hc
    · rename_i e' hp
      obtain ⟨p, w', hp'⟩ := commonPrefixLen_total (E := E) w hb
      rw [hp'] at hp; simp at hp
    · rename_i p w1 hp
      obtain ⟨hp1, hp2, hp3, hp4, -⟩ := commonPrefixLen_spec hp
      split at hc
      · rename_i e' hpre
        simp only [Except.error.injEq] at hc
        subst hc
        split at hpre
        · exact .of_emit hpre
        · simp at hpre
      · rename_i s1 w2 hpre
        have hb1 : InBounds E (os+p) oe (ns+p) ne :=
          InBounds_sub hb (by omega) (Nat.le_refl _) (by omega) (Nat.le_refl _)
        split at hc
        · rename_i e' hs
          obtain ⟨sl, w', hs'⟩ := commonSuffixLen_total (E := E) w2 hb1
          rw [hs'] at hs; simp at hs
        · rename_i sl w3 hs
          obtain ⟨hs1, hs2, hs3, hs4, -⟩ := commonSuffixLen_spec hs
          have hb' : InBounds E (os+p) (oe-sl) (ns+p) (ne-sl) :=
            InBounds_sub hb (by omega) (by omega) (by omega) (by omega)
          split at hc
          · rename_i e' hmid
            simp only [Except.error.injEq] at hc
            subst hc
            split at hmid
            · simp at hmid
            · split at hmid
              · split at hmid
                · rename_i e'' hem
                  simp only [Except.error.injEq] at hmid; subst hmid
                  exact .of_emit hem
                · simp at hmid
              · split at hmid
                · split at hmid
                  · rename_i e'' hem
                    simp only [Except.error.injEq] at hmid; subst hmid
                    exact .of_emit hem
                  · simp at hmid
                · rename_i hc1 hc2 hc3
                  simp only [Bool.and_eq_true, decide_eq_true_eq] at hc1
                  have ho' : os + p < oe - sl := by omega
                  have hn' : ns + p < ne - sl := by omega
                  have hmd' : maxD (oe - sl - (os+p)) (ne - sl - (ns+p)) ≤ off :=
                    Nat.le_trans (maxD_mono (by omega)) hmd
                  split at hmid
                  · rename_i e'' hfm
                    exact absurd hfm (findMiddleSnake_total w3 ho' hn' hb' hmd' hsf hsb e'')
                  · rename_i vf5 vb5 x y w5 hfm
                    obtain ⟨z1, z2⟩ := findMiddleSnake_size hfm
                    have hsp := findMiddleSnake_spec (Nat.le_of_lt ho') (Nat.le_of_lt hn') hfm
                    simp only [LoopPost] at hsp
                    obtain ⟨hx1, hx2, hy1, hy2, -⟩ := id hsp
                    obtain ⟨nc1, nc2⟩ := hsp.not_corner ho' hn' (hp4 (by omega) (by omega))
                      (by have := hs4 (by omega) (by omega)
                          rwa [show oe - 1 - sl = oe - sl - 1 from by omega,
                            show ne - 1 - sl = ne - sl - 1 from by omega] at this)
                    have nc1' : ¬ (x = os + p ∧ y = ns + p) := fun hh => nc1 (by rw [hh.1, hh.2])
                    have nc2' : ¬ (x = oe - sl ∧ y = ne - sl) := fun hh => nc2 (by rw [hh.1, hh.2])
                    have hba : InBounds E (os+p) x (ns+p) y :=
                      InBounds_sub hb' (Nat.le_refl _) hx2 (Nat.le_refl _) hy2
                    have hbb : InBounds E x (oe-sl) y (ne-sl) :=
                      InBounds_sub hb' hx1 (Nat.le_refl _) hy1 (Nat.le_refl _)
                    split at hmid
                    · rename_i e'' hca
                      simp only [Except.error.injEq] at hmid; subst hmid
                      exact ih (os+p) x (ns+p) y vf5 vb5 s1 w5 (by omega) hx1 hy1 hba
                        (Nat.le_trans (maxD_mono (by omega)) hmd) (by omega) (by omega) _ hca
                    · rename_i ra vfa vba wa hca
                      obtain ⟨q1, q2⟩ := conquer_size _ _ _ _ _ _ _ _ _ _ _ _ _ _ _ _ hca
                      exact ih x (oe-sl) y (ne-sl) vfa vba ra wa (by omega) hx2 hy2 hbb
                        (Nat.le_trans (maxD_mono (by omega)) hmd) (by omega) (by omega) _ hmid
                  · split at hmid
                    · rename_i e'' hem
                      simp only [Except.error.injEq] at hmid; subst hmid
                      exact .of_emit hem
                    · split at hmid
                      · rename_i e'' hem2
                        simp only [Except.error.injEq] at hmid; subst hmid
                        exact .of_emit hem2
                      · simp at hmid
          · rename_i s2 vf2 vb2 w4 hmid
            split at hc
            · split at hc
              · rename_i e' hem
                simp only [Except.error.injEq] at hc
                subst hc
                exact .of_emit hem
              · simp at hc
            · simp at hc


/-- **G2 for `myers::diff_deadline`**: any abort is an abort of a hook call (`finish` included) -/
theorem myersDiff_generic_progress {σ : Type} (E : Env) (h : Hook σ) (os oe ns ne : Nat) (s : σ) (w : World)
    (ho : os ≤ oe) (hn : ns ≤ ne) (hb : InBounds E os oe ns ne) (e : Abort)
    (hc : myersDiff E h os oe ns ne s w = .error e) : HookFailed h e := by
  unfold myersDiff at hc
  simp only at hc
  split at hc
  · rename_i e' hcq
    simp only [Except.error.injEq] at hc; subst hc
    exact conquer_generic_progress E _ h _ os oe ns ne _ _ s w (by omega) ho hn hb (Nat.le_refl _)
      (by simp) (by simp) _ hcq
  · exact ⟨.finish, _, _, hc⟩


/-! ## G3: totality under a hook invariant indexed by the ops delivered so far -/

/-- `ops` is what a Myers run may have delivered so far: a walk from the start `(os0,ns0)` of the
top-level box to `(o,n)`, carried indices near-exact (exact under `P`), no `replace` -/
def PrefAt (e : Nat → Nat → Bool) (P : Prop) (os0 ns0 : Nat) (ops : List Op) (o n : Nat) : Prop :=
  Walk e os0 ns0 ops o n ∧ NearExact none os0 ns0 ops ∧ NoReplaceOp ops ∧ (P → Exact os0 ns0 ops)

theorem PrefAt.nil (e : Nat → Nat → Bool) (P : Prop) (os0 ns0 : Nat) : PrefAt e P os0 ns0 [] os0 ns0 :=
  ⟨by simp [Walk], by simp [NearExact], by simp [NoReplaceOp], fun _ => by simp [Exact]⟩

theorem PrefAt.append {e : Nat → Nat → Bool} {P : Prop} {os0 ns0 o n o' n' : Nat} {a b : List Op}
    (h1 : PrefAt e P os0 ns0 a o n) (hw : Walk e o n b o' n') (hn : NearExact none o n b)
    (hr : NoReplaceOp b) (hx : P → Exact o n b) : PrefAt e P os0 ns0 (a ++ b) o' n' :=
  ⟨(Walk_append a b os0 ns0 o' n').2 ⟨o, n, h1.1, hw⟩, NearExact_append a b none os0 ns0 o n h1.1 h1.2.1 hn,
   noReplaceOp_append a b h1.2.2.1 hr, fun hp => Exact_append a b os0 ns0 o n h1.1 (h1.2.2.2 hp) (hx hp)⟩

theorem PrefAt.append_seg {σ} {e : Nat → Nat → Bool} {P : Prop} {h : Hook σ} {os0 ns0 o n o' n' : Nat}
    {a b : List Op} {s s' : σ} {w w' : World}
    (h1 : PrefAt e P os0 ns0 a o n) (sg : GSeg e P h s w o n b s' w' o' n') :
    PrefAt e P os0 ns0 (a ++ b) o' n' :=
  h1.append sg.walk sg.near sg.norep sg.exact

/-- **the hook invariant**: whenever the ops delivered so far satisfy `I` and the next op `x` extends
them to a possible prefix of a Myers run inside the top-level box, the call succeeds (in every
world) and re-establishes `I` -/
def HookInv {σ} (h : Hook σ) (e : Nat → Nat → Bool) (P : Prop) (os0 ns0 oe0 ne0 : Nat)
    (I : List Op → σ → Prop) : Prop :=
  ∀ (ops : List Op) (x : Op) (o n : Nat) (s0 : σ) (w0 : World),
    PrefAt e P os0 ns0 (ops ++ [x]) o n → o ≤ oe0 → n ≤ ne0 → I ops s0 →
    ∃ s1 w1, h.call (.op x) s0 w0 = .ok (s1, w1) ∧ I (ops ++ [x]) s1

theorem HookInv.emit_ok {σ} {h : Hook σ} {e : Nat → Nat → Bool} {P : Prop} {os0 ns0 oe0 ne0 : Nat}
    {I : List Op → σ → Prop} (hI : HookInv h e P os0 ns0 oe0 ne0 I) {ops : List Op} {x : Op} {o n : Nat}
    {s0 : σ} (w0 : World) (hp : PrefAt e P os0 ns0 (ops ++ [x]) o n) (ho : o ≤ oe0) (hn : n ≤ ne0)
    (hi : I ops s0) : ∀ err, emit h x s0 w0 ≠ .error err := by
  intro err he
  obtain ⟨s1, w1, h1, _⟩ := hI ops x o n s0 w0 hp ho hn hi
  simp only [emit] at he
  rw [h1] at he; simp at he

theorem HookInv.emit_inv {σ} {h : Hook σ} {e : Nat → Nat → Bool} {P : Prop} {os0 ns0 oe0 ne0 : Nat}
    {I : List Op → σ → Prop} (hI : HookInv h e P os0 ns0 oe0 ne0 I) {ops : List Op} {x : Op} {o n : Nat}
    {s0 s1 : σ} {w0 w1 : World} (hp : PrefAt e P os0 ns0 (ops ++ [x]) o n) (ho : o ≤ oe0) (hn : n ≤ ne0)
    (hi : I ops s0) (hem : emit h x s0 w0 = .ok (s1, w1)) : I (ops ++ [x]) s1 := by
  obtain ⟨s1', w1', h1, h2⟩ := hI ops x o n s0 w0 hp ho hn hi
  simp only [emit] at hem
  rw [h1] at hem
  simp only [Except.ok.injEq, Prod.mk.injEq] at hem
  rw [← hem.1]; exact h2


theorem conquer_inv_partial {σ : Type} (E : Env) (off : Nat) (h : Hook σ) (P : Prop)
    (hkeep : P → HookKeepsClock h) (os0 ns0 oe0 ne0 : Nat) (I : List Op → σ → Prop)
    (hI : HookInv h (eqB E) P os0 ns0 oe0 ne0 I) :
    ∀ (fuel os oe ns ne : Nat) (vf vb : V) (s : σ) (w : World) (done : List Op)
      (s' : σ) (vf' vb' : V) (w' : World),
      os ≤ oe → ns ≤ ne → InBounds E os oe ns ne → oe ≤ oe0 → ne ≤ ne0 → (P → w.clock = none) →
      PrefAt (eqB E) P os0 ns0 done os ns → I done s →
      conquer E h off fuel os oe ns ne vf vb s w = .ok (s', vf', vb', w') →
      ∃ ops, GSeg (eqB E) P h s w os ns ops s' w' oe ne ∧ I (done ++ ops) s' := by
  intro fuel
  induction fuel with
  | zero => intro os oe ns ne vf vb s w done s' vf' vb' w' _ _ _ _ _ _ _ _ hc; simp [conquer] at hc
  | succ f ih =>
    intro os oe ns ne vf vb s w done s' vf' vb' w' ho hn hb hoe hne hP hpf hi hc
    simp only [conquer] at hc
    split at hc
    · simp at hc
    · rename_i p w1 hp
      obtain ⟨hp1, hp2, hp3, -, hp5⟩ := commonPrefixLen_spec hp
      have hk1 : ClockKeep w w1 := ClockKeep.of_eq hp5.1
      split at hc
      · simp at hc
      · rename_i s1 w2 hpre
        have hpre' : ∃ pre, GSeg (eqB E) P h s w os ns pre s1 w2 (os+p) (ns+p) ∧ I (done ++ pre) s1 := by
          split at hpre
          · rename_i hpos
            have sg := GSeg.equal (e := eqB E) (P := P) hpre hpos hp3
            exact ⟨_, sg.pre hk1, hI.emit_inv (hpf.append_seg sg) (by omega) (by omega) hi hpre⟩
          · rename_i hpos
            simp only [Except.ok.injEq, Prod.mk.injEq] at hpre
            obtain ⟨rfl, rfl⟩ := hpre
            have : p = 0 := by omega
            subst this
            exact ⟨[], GSeg.nil hk1, by simpa using hi⟩
        obtain ⟨pre, spre, ipre⟩ := hpre'
        have hpf1 := hpf.append_seg spre
        have hP2 : P → w2.clock = none := fun hp => spre.clock (hkeep hp) (hP hp)
        split at hc
        · simp at hc
        · rename_i sl w3 hs
          obtain ⟨hs1, hs2, hs3, -, hs5⟩ := commonSuffixLen_spec hs
          have hk3 : ClockKeep w2 w3 := ClockKeep.of_eq hs5.1
          have hP3 : P → w3.clock = none := fun hp => hk3 (hP2 hp)
          split at hc
          · simp at hc
          · rename_i s2 vf2 vb2 w4 hmid
            have hmid' : ∃ mid, GSeg (eqB E) P h s1 w3 (os+p) (ns+p) mid s2 w4 (oe-sl) (ne-sl) ∧
                I ((done ++ pre) ++ mid) s2 := by
              split at hmid
              · rename_i hcond
                simp only [Bool.and_eq_true, decide_eq_true_eq] at hcond
                simp only [Except.ok.injEq, Prod.mk.injEq] at hmid
                obtain ⟨rfl, rfl, rfl, rfl⟩ := hmid
                have e1 : oe - sl = os + p := by omega
                have e2 : ne - sl = ns + p := by omega
                rw [e1, e2]
                exact ⟨[], GSeg.nil (ClockKeep.refl _), by simpa using ipre⟩
              · rename_i hcond
                simp only [Bool.and_eq_true, decide_eq_true_eq] at hcond
                split at hmid
                · rename_i hne'
                  split at hmid
                  · simp at hmid
                  · rename_i ra wa hem
                    simp only [Except.ok.injEq, Prod.mk.injEq] at hmid
                    obtain ⟨rfl, rfl, rfl, rfl⟩ := hmid
                    have sg := GSeg.delete (e := eqB E) (P := P) hem (by omega)
                    have e1 : os + p + (oe - sl - (os + p)) = oe - sl := by omega
                    have e2 : ns + p = ne - sl := by omega
                    rw [e1] at sg
                    have ii := hI.emit_inv (hpf1.append_seg sg) (by omega) (by omega) ipre hem
                    rw [← e2]
                    exact ⟨_, sg, ii⟩
                · rename_i hne'
                  split at hmid
                  · rename_i hoe'
                    split at hmid
                    · simp at hmid
                    · rename_i ra wa hem
                      simp only [Except.ok.injEq, Prod.mk.injEq] at hmid
                      obtain ⟨rfl, rfl, rfl, rfl⟩ := hmid
                      have sg := GSeg.insert (e := eqB E) (P := P) hem (by omega)
                      have e1 : ns + p + (ne - sl - (ns + p)) = ne - sl := by omega
                      have e2 : os + p = oe - sl := by omega
                      rw [e1] at sg
                      have ii := hI.emit_inv (hpf1.append_seg sg) (by omega) (by omega) ipre hem
                      rw [← e2]
                      exact ⟨_, sg, ii⟩
                  · rename_i hoe'
                    have hb' : InBounds E (os+p) (oe-sl) (ns+p) (ne-sl) :=
                      InBounds_sub hb (by omega) (by omega) (by omega) (by omega)
                    split at hmid
                    · simp at hmid
                    · rename_i vf5 vb5 x y w5 hfm
                      obtain ⟨hx1, hx2, hy1, hy2⟩ :=
                        snake_in_box E _ _ _ _ _ _ _ _ _ _ _ _ _ (by omega) (by omega) hb' hfm
                      have hk5 : ClockKeep w3 w5 := findMiddleSnake_clock hfm
                      split at hmid
                      · simp at hmid
                      · rename_i ra vfa vba wa hca
                        obtain ⟨opsa, sga, ia⟩ := ih _ _ _ _ _ _ _ _ _ _ _ _ _ hx1 hy1
                          (InBounds_sub hb' (Nat.le_refl _) hx2 (Nat.le_refl _) hy2) (by omega) (by omega)
                          (fun hp => hk5 (hP3 hp)) hpf1 ipre hca
                        obtain ⟨opsb, sgb, ib⟩ := ih _ _ _ _ _ _ _ _ _ _ _ _ _ hx2 hy2
                          (InBounds_sub hb' hx1 (Nat.le_refl _) hy1 (Nat.le_refl _)) (by omega) (by omega)
                          (fun hp => sga.clock (hkeep hp) (hk5 (hP3 hp))) (hpf1.append_seg sga) ia hmid
                        exact ⟨_, (sga.append sgb).pre hk5, by simpa [List.append_assoc] using ib⟩
                    · rename_i vf5 vb5 w5 hfm
                      have hk5 : ClockKeep w3 w5 := findMiddleSnake_clock hfm
                      have hnP : ¬ P := fun hp =>
                        snake_found E _ _ _ _ _ _ _ _ _ _ _ (by omega) (by omega) hb' (hP3 hp) hfm
                      split at hmid
                      · simp at hmid
                      · rename_i ra wa hem1
                        split at hmid
                        · simp at hmid
                        · rename_i rb wb hem2
                          simp only [Except.ok.injEq, Prod.mk.injEq] at hmid
                          obtain ⟨rfl, rfl, rfl, rfl⟩ := hmid
                          have sg1 := GSeg.delete (e := eqB E) (P := P) hem1 (by omega : 0 < oe - sl - (os + p))
                          have i1 := hI.emit_inv (hpf1.append_seg sg1) (by omega) (by omega) ipre hem1
                          have sg := GSeg.fallback (e := eqB E) hnP hem1 hem2
                            (by omega : 0 < oe - sl - (os + p)) (by omega : 0 < ne - sl - (ns + p))
                          have hp2 := hpf1.append_seg sg
                          have i2 := hI.emit_inv (ops := (done ++ pre) ++ [.delete (os+p) (oe - sl - (os+p)) (ns+p)])
                            (by simpa [List.append_assoc] using hp2) (by omega) (by omega) i1 hem2
                          have e1 : os + p + (oe - sl - (os + p)) = oe - sl := by omega
                          have e2 : ns + p + (ne - sl - (ns + p)) = ne - sl := by omega
                          rw [e1, e2] at sg
                          exact ⟨_, sg.pre hk5, by simpa [List.append_assoc] using i2⟩
            obtain ⟨mid, smid, imid⟩ := hmid'
            have hpf2 := hpf1.append_seg smid
            have hpost : ∃ post, GSeg (eqB E) P h s2 w4 (oe-sl) (ne-sl) post s' w' oe ne ∧
                I (((done ++ pre) ++ mid) ++ post) s' := by
              split at hc
              · rename_i hpos
                split at hc
                · simp at hc
                · rename_i rc wc hem
                  simp only [Except.ok.injEq, Prod.mk.injEq] at hc
                  obtain ⟨rfl, rfl, rfl, rfl⟩ := hc
                  have sg := GSeg.equal (e := eqB E) (P := P) hem hpos (by
                    intro t ht
                    have := hs3 (sl - 1 - t) (by omega)
                    have e1 : oe - 1 - (sl - 1 - t) = oe - sl + t := by omega
                    have e2 : ne - 1 - (sl - 1 - t) = ne - sl + t := by omega
                    rw [e1, e2] at this
                    exact this)
                  have e1 : oe - sl + sl = oe := by omega
                  have e2 : ne - sl + sl = ne := by omega
                  rw [e1, e2] at sg
                  exact ⟨_, sg, hI.emit_inv (hpf2.append_seg sg) hoe hne imid hem⟩
              · rename_i hpos
                simp only [Except.ok.injEq, Prod.mk.injEq] at hc
                obtain ⟨rfl, rfl, rfl, rfl⟩ := hc
                have : sl = 0 := by omega
                subst this
                exact ⟨[], GSeg.nil (ClockKeep.refl _), by simpa using imid⟩
            obtain ⟨post, spost, ipost⟩ := hpost
            refine ⟨_, spre.append ((smid.pre hk3).append spost), ?_⟩
            simpa [List.append_assoc] using ipost


theorem PrefAt.equal {e : Nat → Nat → Bool} {P : Prop} {os0 ns0 o n l : Nat} {a : List Op}
    (h1 : PrefAt e P os0 ns0 a o n) (hl : 0 < l) (heq : ∀ t, t < l → e (o+t) (n+t) = true) :
    PrefAt e P os0 ns0 (a ++ [.equal o n l]) (o+l) (n+l) :=
  h1.append (by simp only [Walk, hl, true_and, and_true]; exact heq) (by simp [NearExact])
    (by simp [NoReplaceOp]) (fun _ => by simp [Exact, Op.oStart, Op.nStart])

theorem PrefAt.delete {e : Nat → Nat → Bool} {P : Prop} {os0 ns0 o n l : Nat} {a : List Op}
    (h1 : PrefAt e P os0 ns0 a o n) (hl : 0 < l) :
    PrefAt e P os0 ns0 (a ++ [.delete o l n]) (o+l) n :=
  h1.append (by simp [Walk, hl]) (by simp [NearExact]) (by simp [NoReplaceOp])
    (fun _ => by simp [Exact, Op.oStart, Op.nStart])

theorem PrefAt.insert {e : Nat → Nat → Bool} {P : Prop} {os0 ns0 o n l : Nat} {a : List Op}
    (h1 : PrefAt e P os0 ns0 a o n) (hl : 0 < l) :
    PrefAt e P os0 ns0 (a ++ [.insert o n l]) o (n+l) :=
  h1.append (by simp [Walk, hl]) (by simp [NearExact]) (by simp [NoReplaceOp])
    (fun _ => by simp [Exact, Op.oStart, Op.nStart])

theorem PrefAt.fallback {e : Nat → Nat → Bool} {P : Prop} {os0 ns0 o n l l' : Nat} {a : List Op}
    (h1 : PrefAt e P os0 ns0 a o n) (hl : 0 < l) (hl' : 0 < l') (hP : ¬ P) :
    PrefAt e P os0 ns0 ((a ++ [.delete o l n]) ++ [.insert o n l']) (o+l) (n+l') := by
  rw [List.append_assoc]
  exact h1.append (by simp [Walk, hl, hl']) (by simp [NearExact]) (by simp [NoReplaceOp])
    (fun hp => absurd hp hP)

/-- outcome of a run under the hook invariant: it returned, a valid script was delivered, `I` holds -/
def InvGood {σ} (E : Env) (P : Prop) (h : Hook σ) (s : σ) (w : World) (os ns oe ne : Nat)
    (I : List Op → σ → Prop) (done : List Op) : Res (σ × V × V × World) → Prop
  | .error _ => False
  | .ok (s', _, _, w') => ∃ ops, GSeg (eqB E) P h s w os ns ops s' w' oe ne ∧ I (done ++ ops) s' ∧
      (P → Spec.cost ops = boxD E os oe ns ne)


/-- the part of `conquer` between stripping the suffix and emitting it, with the recursive calls
abstracted (`rec` = `conquer` with one unit of fuel less) -/
def midPart {σ} (E : Env) (h : Hook σ) (off : Nat)
    (rec : Nat → Nat → Nat → Nat → V → V → σ → World → Res (σ × V × V × World))
    (os oe ns ne : Nat) (vf vb : V) (s : σ) (w : World) : Res (σ × V × V × World) :=
  if oe ≤ os && ne ≤ ns then (.ok (s, vf, vb, w) : Res (σ × V × V × World))
  else if ne ≤ ns then
    match emit h (.delete os (oe - os) ns) s w with
    | .error e => .error e
    | .ok (s, w) => .ok (s, vf, vb, w)
  else if oe ≤ os then
    match emit h (.insert os ns (ne - ns)) s w with
    | .error e => .error e
    | .ok (s, w) => .ok (s, vf, vb, w)
  else
    match findMiddleSnake E os oe ns ne off vf vb w with
    | .error e => .error e
    | .ok (vf, vb, some (x, y), w) =>
      (match rec os x ns y vf vb s w with
       | .error e => .error e
       | .ok (s, vf, vb, w) => rec x oe y ne vf vb s w)
    | .ok (vf, vb, none, w) =>
      match emit h (.delete os (oe - os) ns) s w with
      | .error e => .error e
      | .ok (s, w) =>
        match emit h (.insert os ns (ne - ns)) s w with
        | .error e => .error e
        | .ok (s, w) => .ok (s, vf, vb, w)

theorem conquer_succ_eq {σ} (E : Env) (h : Hook σ) (off f os oe ns ne : Nat) (vf vb : V) (s : σ) (w : World) :
    conquer E h off (f+1) os oe ns ne vf vb s w =
    match commonPrefixLen E os oe ns ne w with
    | .error e => .error e
    | .ok (p, w) =>
    match (if 0 < p then emit h (.equal os ns p) s w else .ok (s, w)) with
    | .error e => .error e
    | .ok (s, w) =>
    match commonSuffixLen E (os + p) oe (ns + p) ne w with
    | .error e => .error e
    | .ok (sl, w) =>
    match midPart E h off (conquer E h off f) (os + p) (oe - sl) (ns + p) (ne - sl) vf vb s w with
    | .error e => .error e
    | .ok (s, vf, vb, w) =>
    if 0 < sl then
      match emit h (.equal (oe - sl) (ne - sl) sl) s w with
      | .error e => .error e
      | .ok (s, w) => .ok (s, vf, vb, w)
    else .ok (s, vf, vb, w) := by
  rfl


/-- the middle part under the hook invariant, given the induction hypothesis for `conquer` with fuel `f` -/
theorem midPart_good {σ : Type} (E : Env) (off : Nat) (h : Hook σ) (P : Prop)
    (hkeep : P → HookKeepsClock h) (os0 ns0 oe0 ne0 : Nat) (I : List Op → σ → Prop)
    (hI : HookInv h (eqB E) P os0 ns0 oe0 ne0 I) (f : Nat)
    (ih : ∀ (os oe ns ne : Nat) (vf vb : V) (s : σ) (w : World) (done : List Op),
      (oe - os) + (ne - ns) < f → os ≤ oe → ns ≤ ne → InBounds E os oe ns ne →
      maxD (oe-os) (ne-ns) ≤ off → vf.size = 2 * off → vb.size = 2 * off →
      oe ≤ oe0 → ne ≤ ne0 → (P → w.clock = none) →
      PrefAt (eqB E) P os0 ns0 done os ns → I done s →
      ∀ res, conquer E h off f os oe ns ne vf vb s w = res →
        InvGood E P h s w os ns oe ne I done res)
    (os oe ns ne : Nat) (vf vb : V) (s : σ) (w : World) (done : List Op)
    (hfu : (oe - os) + (ne - ns) ≤ f) (ho : os ≤ oe) (hn : ns ≤ ne) (hb : InBounds E os oe ns ne)
    (hmd : maxD (oe-os) (ne-ns) ≤ off) (hsf : vf.size = 2 * off) (hsb : vb.size = 2 * off)
    (hoe : oe ≤ oe0) (hne : ne ≤ ne0) (hP : P → w.clock = none)
    (hpf : PrefAt (eqB E) P os0 ns0 done os ns) (hi : I done s)
    (h0 : os < oe → ns < ne → eqB E os ns = false) (h1 : os < oe → ns < ne → eqB E (oe-1) (ne-1) = false) :
    ∀ res, midPart E h off (conquer E h off f) os oe ns ne vf vb s w = res →
      InvGood E P h s w os ns oe ne I done res := by
  intro res hmid
  unfold midPart at hmid
  split at hmid
  · rename_i hcond
    simp only [Bool.and_eq_true, decide_eq_true_eq] at hcond
    subst hmid
    have e1 : oe = os := by omega
    have e2 : ne = ns := by omega
    subst e1 e2
    exact ⟨[], GSeg.nil (ClockKeep.refl _), by simpa using hi,
      fun _ => by rw [cost_nil, boxD_no_new (Nat.le_refl _)]; omega⟩
  · rename_i hc1
    simp only [Bool.and_eq_true, decide_eq_true_eq] at hc1
    split at hmid
    · rename_i hc2
      have e2 : ne = ns := by omega
      subst e2
      have hq := hpf.delete (l := oe - os) (by omega)
      have e1 : os + (oe - os) = oe := by omega
      split at hmid
      · rename_i e'' hem
        subst hmid
        exact hI.emit_ok w hq (by omega) (by omega) hi _ hem
      · rename_i ra wa hem
        subst hmid
        have sg := GSeg.delete (e := eqB E) (P := P) hem (by omega : 0 < oe - os)
        have ii := hI.emit_inv hq (by omega) (by omega) hi hem
        rw [e1] at sg
        exact ⟨_, sg, ii, fun _ => by rw [cost_delete, boxD_no_new (Nat.le_refl _)]⟩
    · rename_i hc2
      split at hmid
      · rename_i hc3
        have e2 : oe = os := by omega
        subst e2
        have hq := hpf.insert (l := ne - ns) (by omega)
        have e1 : ns + (ne - ns) = ne := by omega
        split at hmid
        · rename_i e'' hem
          subst hmid
          exact hI.emit_ok w hq (by omega) (by omega) hi _ hem
        · rename_i ra wa hem
          subst hmid
          have sg := GSeg.insert (e := eqB E) (P := P) hem (by omega : 0 < ne - ns)
          have ii := hI.emit_inv hq (by omega) (by omega) hi hem
          rw [e1] at sg
          exact ⟨_, sg, ii, fun _ => by rw [cost_insert, boxD_no_old (Nat.le_refl _)]⟩
      · rename_i hc3
        have ho' : os < oe := by omega
        have hn' : ns < ne := by omega
        split at hmid
        · rename_i e'' hfm
          exact (findMiddleSnake_total w ho' hn' hb hmd hsf hsb e'' hfm).elim
        · rename_i vf5 vb5 x y w5 hfm
          obtain ⟨z1, z2⟩ := findMiddleSnake_size hfm
          have hsp := findMiddleSnake_spec (Nat.le_of_lt ho') (Nat.le_of_lt hn') hfm
          simp only [LoopPost] at hsp
          obtain ⟨hx1, hx2, hy1, hy2, -⟩ := id hsp
          obtain ⟨nc1, nc2⟩ := hsp.not_corner ho' hn' (h0 ho' hn') (h1 ho' hn')
          have nc1' : ¬ (x = os ∧ y = ns) := fun hh => nc1 (by rw [hh.1, hh.2])
          have nc2' : ¬ (x = oe ∧ y = ne) := fun hh => nc2 (by rw [hh.1, hh.2])
          have hba : InBounds E os x ns y := InBounds_sub hb (Nat.le_refl _) hx2 (Nat.le_refl _) hy2
          have hbb : InBounds E x oe y ne := InBounds_sub hb hx1 (Nat.le_refl _) hy1 (Nat.le_refl _)
          have hk5 : ClockKeep w w5 := findMiddleSnake_clock hfm
          have ga := fun resa => ih os x ns y vf5 vb5 s w5 done (by omega) hx1 hy1 hba
            (Nat.le_trans (maxD_mono (by omega)) hmd) (by omega) (by omega) (by omega) (by omega)
            (fun hp => hk5 (hP hp)) hpf hi resa
          split at hmid
          · rename_i e'' hca
            exact (ga _ hca).elim
          · rename_i ra vfa vba wa hca
            obtain ⟨q1, q2⟩ := conquer_size _ _ _ _ _ _ _ _ _ _ _ _ _ _ _ _ hca
            obtain ⟨opsa, sga, ia, ca⟩ := ga _ hca
            have gb := ih x oe y ne vfa vba ra wa (done ++ opsa) (by omega) hx2 hy2 hbb
              (Nat.le_trans (maxD_mono (by omega)) hmd) (by omega) (by omega) hoe hne
              (fun hp => sga.clock (hkeep hp) (hk5 (hP hp))) (hpf.append_seg sga) ia res hmid
            cases res with
            | error e => exact gb
            | ok r =>
              obtain ⟨s', vf', vb', w'⟩ := r
              obtain ⟨opsb, sgb, ib, cb⟩ := gb
              exact ⟨_, (sga.append sgb).pre hk5, by simpa [List.append_assoc] using ib,
                fun hp => by rw [cost_append, ca hp, cb hp, boxD_split hsp]⟩
        · rename_i vf5 vb5 w5 hfm
          have hk5 : ClockKeep w w5 := findMiddleSnake_clock hfm
          have hnP : ¬ P := fun hp => snake_found E _ _ _ _ _ _ _ _ _ _ _ ho' hn' hb (hP hp) hfm
          have hq1 := hpf.delete (l := oe - os) (by omega)
          have hq2 := hpf.fallback (l := oe - os) (l' := ne - ns) (by omega) (by omega) hnP
          split at hmid
          · rename_i e'' hem
            subst hmid
            exact hI.emit_ok w5 hq1 (by omega) (by omega) hi _ hem
          · rename_i ra wa hem1
            have i1 := hI.emit_inv hq1 (by omega) (by omega) hi hem1
            split at hmid
            · rename_i e'' hem2
              subst hmid
              exact hI.emit_ok wa hq2 (by omega) (by omega) i1 _ hem2
            · rename_i rb wb hem2
              subst hmid
              have i2 := hI.emit_inv hq2 (by omega) (by omega) i1 hem2
              have sg := GSeg.fallback (e := eqB E) hnP hem1 hem2 (by omega : 0 < oe - os) (by omega : 0 < ne - ns)
              have e1 : os + (oe - os) = oe := by omega
              have e2 : ns + (ne - ns) = ne := by omega
              rw [e1, e2] at sg
              exact ⟨_, sg.pre hk5, by simpa [List.append_assoc] using i2, fun hp => absurd hp hnP⟩


/-- **G3, core**: under the hook invariant `conquer` returns, delivers a valid script and re-establishes `I` -/
theorem conquer_inv_good {σ : Type} (E : Env) (off : Nat) (h : Hook σ) (P : Prop)
    (hkeep : P → HookKeepsClock h) (os0 ns0 oe0 ne0 : Nat) (I : List Op → σ → Prop)
    (hI : HookInv h (eqB E) P os0 ns0 oe0 ne0 I) :
    ∀ (fuel os oe ns ne : Nat) (vf vb : V) (s : σ) (w : World) (done : List Op),
      (oe - os) + (ne - ns) < fuel → os ≤ oe → ns ≤ ne → InBounds E os oe ns ne →
      maxD (oe-os) (ne-ns) ≤ off → vf.size = 2 * off → vb.size = 2 * off →
      oe ≤ oe0 → ne ≤ ne0 → (P → w.clock = none) →
      PrefAt (eqB E) P os0 ns0 done os ns → I done s →
      ∀ res, conquer E h off fuel os oe ns ne vf vb s w = res →
        InvGood E P h s w os ns oe ne I done res := by
  intro fuel
  induction fuel with
  | zero => intro os oe ns ne vf vb s w done hfu; omega
  | succ f ih =>
    intro os oe ns ne vf vb s w done hfu ho hn hb hmd hsf hsb hoe hne hP hpf hi res hc
    rw [conquer_succ_eq] at hc
    split at hc
    · rename_i e' hp
      obtain ⟨p, w', hp'⟩ := commonPrefixLen_total (E := E) w hb
      rw [hp'] at hp; simp at hp
    · rename_i p w1 hp
      obtain ⟨hp1, hp2, hp3, hp4, hp5⟩ := commonPrefixLen_spec hp
      have hk1 : ClockKeep w w1 := ClockKeep.of_eq hp5.1
      split at hc
      · rename_i e' hpre
        exfalso
        split at hpre
        · rename_i hpos
          exact hI.emit_ok w1 (hpf.equal hpos hp3) (by omega) (by omega) hi _ hpre
        · simp at hpre
      · rename_i s1 w2 hpre
        have hpre' : ∃ pre, GSeg (eqB E) P h s w os ns pre s1 w2 (os+p) (ns+p) ∧ I (done ++ pre) s1 ∧
            Spec.cost pre = 0 := by
          split at hpre
          · rename_i hpos
            have sg := GSeg.equal (e := eqB E) (P := P) hpre hpos hp3
            exact ⟨_, sg.pre hk1, hI.emit_inv (hpf.append_seg sg) (by omega) (by omega) hi hpre, cost_equal _ _ _⟩
          · rename_i hpos
            simp only [Except.ok.injEq, Prod.mk.injEq] at hpre
            obtain ⟨rfl, rfl⟩ := hpre
            have : p = 0 := by omega
            subst this
            exact ⟨[], GSeg.nil hk1, by simpa using hi, cost_nil⟩
        obtain ⟨pre, spre, ipre, cpre⟩ := hpre'
        have hD1 := boxD_strip_prefix (E := E) hp1 hp2 hp3
        have hpf1 := hpf.append_seg spre
        have hP2 : P → w2.clock = none := fun hp => spre.clock (hkeep hp) (hP hp)
        have hb1 : InBounds E (os+p) oe (ns+p) ne :=
          InBounds_sub hb (by omega) (Nat.le_refl _) (by omega) (Nat.le_refl _)
        split at hc
        · rename_i e' hs
          obtain ⟨sl, w', hs'⟩ := commonSuffixLen_total (E := E) w2 hb1
          rw [hs'] at hs; simp at hs
        · rename_i sl w3 hs
          obtain ⟨hs1, hs2, hs3, hs4, hs5⟩ := commonSuffixLen_spec hs
          have hk3 : ClockKeep w2 w3 := ClockKeep.of_eq hs5.1
          have hP3 : P → w3.clock = none := fun hp => hk3 (hP2 hp)
          have hb' : InBounds E (os+p) (oe-sl) (ns+p) (ne-sl) :=
            InBounds_sub hb (by omega) (by omega) (by omega) (by omega)
          have hmidG := midPart_good E off h P hkeep os0 ns0 oe0 ne0 I hI f ih
            (os+p) (oe-sl) (ns+p) (ne-sl) vf vb s1 w3 (done ++ pre) (by omega) (by omega) (by omega) hb'
            (Nat.le_trans (maxD_mono (by omega)) hmd) hsf hsb (by omega) (by omega) hP3 hpf1 ipre
            (fun a b => hp4 (by omega) (by omega))
            (fun a b => by
              have := hs4 (by omega) (by omega)
              rwa [show oe - 1 - sl = oe - sl - 1 from by omega,
                show ne - 1 - sl = ne - sl - 1 from by omega] at this)
          split at hc
          · rename_i e' hmid
            exact (hmidG _ hmid).elim
          · rename_i s2 vf2 vb2 w4 hmid
            obtain ⟨mid, smid, imid, cmid⟩ := hmidG _ hmid
            have hD2 := boxD_strip_suffix (E := E) (os := os+p) (ns := ns+p) hs1 hs2 hs3
            have hpf2 := hpf1.append_seg smid
            have hsuf : ∀ t, t < sl → eqB E (oe - sl + t) (ne - sl + t) = true := by
              intro t ht
              have := hs3 (sl - 1 - t) (by omega)
              have e1 : oe - 1 - (sl - 1 - t) = oe - sl + t := by omega
              have e2 : ne - 1 - (sl - 1 - t) = ne - sl + t := by omega
              rw [e1, e2] at this
              exact this
            have e1 : oe - sl + sl = oe := by omega
            have e2 : ne - sl + sl = ne := by omega
            split at hc
            · rename_i hpos
              split at hc
              · rename_i e' hem
                have hq := hpf2.equal hpos hsuf
                rw [e1, e2] at hq
                exact (hI.emit_ok w4 hq hoe hne imid _ hem).elim
              · rename_i rc wc hem
                subst hc
                have sg := GSeg.equal (e := eqB E) (P := P) hem hpos hsuf
                rw [e1, e2] at sg
                refine ⟨_, spre.append ((smid.pre hk3).append sg), ?_, ?_⟩
                · have := hI.emit_inv (hpf2.append_seg sg) hoe hne imid hem
                  simpa [List.append_assoc] using this
                · intro hp
                  rw [cost_append, cost_append, cpre, cmid hp, cost_equal, hD1, hD2]; omega
            · rename_i hpos
              subst hc
              have : sl = 0 := by omega
              subst this
              refine ⟨_, spre.append ((smid.pre hk3).append (GSeg.nil (ClockKeep.refl _))), ?_, ?_⟩
              · simpa [List.append_assoc] using imid
              · intro hp
                rw [cost_append, cost_append, cpre, cmid hp, cost_nil, hD1, hD2]; omega


/-- **G3, `conquer`**: hook invariant ⇒ `conquer` returns; the delivered script is valid, `I` holds for
it, and under `P` (no deadline, hook keeps the clock) it is exact and optimal. -/
theorem conquer_generic_total {σ : Type} (E : Env) (off : Nat) (h : Hook σ) (P : Prop)
    (hkeep : P → HookKeepsClock h) (I : List Op → σ → Prop)
    (fuel os oe ns ne : Nat) (vf vb : V) (s : σ) (w : World)
    (hI : HookInv h (eqB E) P os ns oe ne I)
    (hfu : (oe - os) + (ne - ns) < fuel) (ho : os ≤ oe) (hn : ns ≤ ne) (hb : InBounds E os oe ns ne)
    (hmd : maxD (oe-os) (ne-ns) ≤ off) (hsf : vf.size = 2 * off) (hsb : vb.size = 2 * off)
    (hP : P → w.clock = none) (hi : I [] s) :
    ∃ s' vf' vb' w' ops, conquer E h off fuel os oe ns ne vf vb s w = .ok (s', vf', vb', w') ∧
      Delivered h ops s w s' w' ∧ Walk (eqB E) os ns ops oe ne ∧ NearExact none os ns ops ∧
      NoReplaceOp ops ∧ I ops s' ∧
      (P → Exact os ns ops ∧
        nDel ops + nIns ops + 2 * lcsLen (eqB E) (oe-os) (ne-ns) os ns = (oe-os) + (ne-ns)) := by
  have g := conquer_inv_good E off h P hkeep os ns oe ne I hI fuel os oe ns ne vf vb s w [] hfu ho hn hb
    hmd hsf hsb (Nat.le_refl _) (Nat.le_refl _) hP (PrefAt.nil _ _ _ _) hi _ rfl
  cases hc : conquer E h off fuel os oe ns ne vf vb s w with
  | error e => rw [hc] at g; exact g.elim
  | ok r =>
    obtain ⟨s', vf', vb', w'⟩ := r
    rw [hc] at g
    obtain ⟨ops, sg, ii, cc⟩ := g
    refine ⟨s', vf', vb', w', ops, rfl, sg.del, sg.walk, sg.near, sg.norep, by simpa using ii, fun hp => ⟨sg.exact hp, ?_⟩⟩
    have := cc hp
    have hl := boxD_lcs E os oe ns ne
    unfold Spec.cost at this
    omega

/-- **G3, `myers::diff_deadline`**: hook invariant for the ops, and `finish` succeeds on every state
reached after a complete script ⇒ the run returns. -/
theorem myersDiff_generic_total {σ : Type} (E : Env) (h : Hook σ) (P : Prop)
    (hkeep : P → HookKeepsClock h) (I : List Op → σ → Prop) (J : σ → Prop)
    (os oe ns ne : Nat) (s : σ) (w : World)
    (hI : HookInv h (eqB E) P os ns oe ne I)
    (hfin : ∀ ops s1 w1, PrefAt (eqB E) P os ns ops oe ne → I ops s1 →
      ∃ s2 w2, h.call .finish s1 w1 = .ok (s2, w2) ∧ J s2)
    (ho : os ≤ oe) (hn : ns ≤ ne) (hb : InBounds E os oe ns ne) (hP : P → w.clock = none) (hi : I [] s) :
    ∃ s' w' ops s1 w1, myersDiff E h os oe ns ne s w = .ok (s', w') ∧
      Delivered h ops s w s1 w1 ∧ h.call .finish s1 w1 = .ok (s', w') ∧
      Walk (eqB E) os ns ops oe ne ∧ NearExact none os ns ops ∧ NoReplaceOp ops ∧ I ops s1 ∧ J s' ∧
      (P → Exact os ns ops ∧
        nDel ops + nIns ops + 2 * lcsLen (eqB E) (oe-os) (ne-ns) os ns = (oe-os) + (ne-ns)) := by
  obtain ⟨s1, vf1, vb1, w1, ops, hc, h1, h2, h3, h4, h5, h6⟩ :=
    conquer_generic_total E (maxD (oe-os) (ne-ns)) h P hkeep I ((oe-os)+(ne-ns)+2) os oe ns ne
      (Array.replicate (2 * maxD (oe-os) (ne-ns)) 0) (Array.replicate (2 * maxD (oe-os) (ne-ns)) 0) s w
      hI (by omega) ho hn hb (Nat.le_refl _) (by simp) (by simp) hP hi
  obtain ⟨s2, w2, hf, hj⟩ := hfin ops s1 w1 ⟨h2, h3, h4, fun hp => (h6 hp).1⟩ h5
  refine ⟨s2, w2, ops, s1, w1, ?_, h1, hf, h2, h3, h4, h5, hj, h6⟩
  unfold myersDiff
  simp only
  rw [hc]
  exact hf


/-! ## Sanity instance: the recording hook without a scheduled failure satisfies `HookInv` -/

theorem noReplaceOp_last : ∀ (a : List Op) (x : Op), NoReplaceOp (a ++ [x]) →
    ∀ o ol n nl, x ≠ .replace o ol n nl := by
  intro a
  induction a with
  | nil => intro x hx o ol n nl he; subst he; exact hx
  | cons c cs ih =>
    intro x hx
    cases c <;> simp only [List.cons_append, NoReplaceOp] at hx
    all_goals first | exact ih x hx | exact hx.elim

theorem recHook_inv (e : Nat → Nat → Bool) (P : Prop) (os ns oe ne : Nat) :
    HookInv recHook e P os ns oe ne (fun _ r => r.failAt = none) := by
  intro ops x o n r w0 hp _ _ hf
  have hx := noReplaceOp_last ops x hp.2.2.1
  cases x with
  | replace o ol n nl => exact absurd rfl (hx o ol n nl)
  | _ => simp [recHook, Rec.push, hf, Except.map]

/-- `myersDiff_total` re-derived from G3 (checks that the hypotheses of G3 are satisfiable) -/
example (E : Env) (os oe ns ne : Nat) (w : World) (ho : os ≤ oe) (hn : ns ≤ ne)
    (hb : InBounds E os oe ns ne) : ∃ r' w', myersDiff E recHook os oe ns ne {} w = .ok (r', w') := by
  obtain ⟨s', w', _, _, _, h, _⟩ := myersDiff_generic_total E recHook False (fun hp => hp.elim)
    (fun _ r => r.failAt = none) (fun _ => True) os oe ns ne {} w (recHook_inv _ _ _ _ _ _)
    (fun ops s1 w1 _ hf => by simp [recHook, Rec.push, hf, Except.map]) ho hn hb (fun hp => hp.elim) rfl
  exact ⟨s', w', h⟩

end SimilarVerif.MyersGO

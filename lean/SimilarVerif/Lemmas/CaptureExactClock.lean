import SimilarVerif.Lemmas.CompactLoose
import SimilarVerif.Lemmas.CaptureExact
import SimilarVerif.Lemmas.HeadlineGlue
/-! # C11 under an expiring deadline: captured Myers / Patience ops are exact with the repaired swap

The raw streams of Myers and Patience are `NearExact` for EVERY clock (exact except the Insert of a deadline
fallback pair `delete; insert`, which carries the old position before its Delete).  Near-exact streams — with every
`replace` expanded by `Compact` — are `CompactL.Loose`; the repaired clean-up makes `Loose` scripts `Exact`
(`CompactL.cleanup_loose_exact`: already the Delete pass swaps every Insert of a run that contains a Delete at least
once, and the repaired swap recomputes both carried indices); `Replace` keeps exactness. -/
set_option linter.unusedSimpArgs false
namespace SimilarVerif.CaptureClock
open SimilarVerif Spec MyersP CompactL CaptureP

/-- near-exact carried indices are loose, also after `Compact` has expanded every `replace` -/
theorem loose_of_near : ∀ (ops : List Op) (pd : Option Nat) (b : Bool) (o n : Nat),
    NearExact pd o n ops → (pd ≠ none → b = true) → Loose b o n (expandReplace ops) := by
  intro ops
  induction ops with
  | nil => intro pd b o n _ _; trivial
  | cons x xs ih =>
    intro pd b o n h hb
    rw [expandReplace_cons]
    cases x with
    | equal co cn l =>
      simp only [NearExact] at h
      simp only [expand1, List.singleton_append, Loose]
      exact ⟨h.1, h.2.1, ih none false _ _ h.2.2 (fun hh => absurd rfl hh)⟩
    | delete co l cn =>
      simp only [NearExact] at h
      simp only [expand1, List.singleton_append, Loose]
      exact ⟨h.1, h.2.1, ih (some o) true _ _ h.2.2 (fun _ => rfl)⟩
    | insert co cn l =>
      simp only [NearExact] at h
      simp only [expand1, List.singleton_append, Loose]
      refine ⟨?_, h.2.1, ih none b _ _ h.2.2 (fun hh => absurd rfl hh)⟩
      rcases h.1 with h1 | h1
      · exact .inr h1
      · exact .inl (hb (by rw [h1]; simp))
    | replace co ol cn nl =>
      simp only [NearExact] at h
      simp only [expand1, List.cons_append, List.nil_append, Loose, true_or, true_and]
      exact ⟨h.1, h.2.1, h.2.1, ih none true _ _ h.2.2 (fun _ => rfl)⟩

/-- **near-exact raw stream ⟹ exact captured ops** (repaired swap, any algorithm, any clock) -/
theorem capture_exact_of_near (alg : Alg) (E : Env) (os oe ns ne : Nat) (w : World) (raw : List Op) (w1 : World)
    (hraw : rawTrace alg E os oe ns ne w = .ok ({ trace := raw.map Call.op ++ [.finish] }, w1))
    (hw : Walk (eqB E) os ns raw oe ne) (hn : NearExact none os ns raw)
    (ops : List Op) (w' : World) (hc : captureDiff alg E true os oe ns ne w = .ok (ops, w')) :
    Exact os ns ops := by
  rw [capture_factor_gen alg E true os oe ns ne w raw w1 hraw] at hc
  obtain ⟨-, -, -, c4⟩ := counts_expand raw
  have hwe := walk_expand _ raw _ _ _ _ hw
  split at hc
  · cases hc
  · rename_i ops' w2 hcl
    obtain ⟨a1, -, -, -, a5, -, -⟩ := CompactP.cleanup_preserves E true _ os ns oe ne w1 ops' w2 c4 hwe hcl
    have hx : Exact os ns ops' :=
      cleanup_loose_exact E _ os ns oe ne w1 ops' w2 c4 hwe
        (loose_of_near raw none false os ns hn (fun hh => absurd rfl hh)) hcl
    obtain ⟨out, rs, hro, -, -, -, -, -, b6⟩ := replace_preserves (eqB E) ops' os ns oe ne w2 a5 a1
    rw [hro] at hc
    simp only [traceOps_eq_opsOf, opsOf_raw, Except.ok.injEq, Prod.mk.injEq] at hc
    obtain ⟨rfl, rfl⟩ := hc
    exact b6 hx

/-! ## the raw Patience stream is near-exact for every clock

`PatienceP.patience_sound` carries `Seg (eqB E) False …` (valid and NEAR-exact) to the end and then weakens it to
`Carried`; here the last step keeps `NearExact`. -/

section
open PatienceP MyersG
variable (E : Env) (hboxE : SnakeInBox E) (os oe ns ne : Nat) (hb : InBounds E os oe ns ne)
  (uo un : Array Nat) (hao : Asc uo os oe) (han : Asc un ns ne)
include hboxE hb hao han

/-- `finish` of the outer run: pending anchors, then the tail run with the real `finish` — near-exact -/
theorem step_finish_near (i j : Nat) (st : RState × PState × Rec) (w : World) (st' : RState × PState × Rec) (w' : World)
    (hinv : HInv E os oe ns ne uo un i j st)
    (h : (replaceHook (patienceHook E recHook uo un oe ne)).call .finish st w = .ok (st', w')) :
    ∃ ops, st'.2.2.trace = ops.map Call.op ++ [.finish] ∧ Walk (eqB E) os ns ops oe ne ∧
      NearExact none os ns ops := by
  obtain ⟨rs, p, r⟩ := st
  obtain ⟨hu, hp⟩ := hinv
  simp only at hu hp
  simp only [replaceHook] at h
  split at h
  · simp at h
  · rename_i rs1 st1 w1 hfl
    obtain ⟨p1, r1⟩ := st1
    obtain ⟨hu1, -, -⟩ := flushEq_pat E hboxE os oe ns ne hb uo un hao han i j rs p r w rs1 p1 r1 w1 hu hp hfl
    split at h
    · simp at h
    · rename_i rs2 st2 w2 hfl2
      obtain ⟨rfl, -⟩ := flushDelIns_pat E oe ne uo un rs1 p1 r1 w1 rs2 st2 w2 hfl2
      split at h
      · simp at h
      · rename_i st3 w3 hfin
        simp only [Except.ok.injEq, Prod.mk.injEq] at h
        obtain ⟨rfl, rfl⟩ := h
        simp only [patienceHook] at hfin
        split at hfin
        · simp at hfin
        · rename_i r3 w4 hmy
          simp only [Except.ok.injEq, Prod.mk.injEq] at hfin
          obtain ⟨rfl, rfl⟩ := hfin
          obtain ⟨h1, h2, h3, h4, out, sg⟩ := hu1
          obtain ⟨ops, he, hw, hn⟩ := myersDiff_rec E hboxE p1.oc oe p1.nc ne r1 w2 r3 w4 (sg.failAt rfl) h2 h4
            (InBounds_sub hb h1 (Nat.le_refl _) h3 (Nat.le_refl _)) hmy
          have hx := sg.ext
          unfold Ext at hx
          subst hx
          subst he
          exact ⟨out ++ ops, by simp, (Walk_append _ _ _ _ _ _).2 ⟨_, _, sg.walk, hw⟩,
            NearExact_append _ _ none _ _ _ _ sg.walk sg.near hn⟩

end

/-- **Patience, every clock**: whenever `patience::diff_deadline` returns, the recorded stream is a valid script
with near-exact carried indices -/
theorem patience_near (E : Env) (os oe ns ne : Nat) (w : World) (r' : Rec) (w' : World)
    (ho : os ≤ oe) (hn : ns ≤ ne) (hb : InBounds E os oe ns ne)
    (h : patienceDiff E recHook os oe ns ne {} w = .ok (r', w')) :
    ∃ ops, r'.trace = ops.map Call.op ++ [.finish] ∧ Walk (eqB E) os ns ops oe ne ∧ NearExact none os ns ops := by
  unfold patienceDiff at h
  split at h
  · rename_i uo un hu1 hu2
    have hao := PatienceP.unique_asc hu1
    have han := PatienceP.unique_asc hu2
    simp only at h
    split at h
    · simp at h
    · rename_i rs p r1 w1 hmy
      simp only [Except.ok.injEq, Prod.mk.injEq] at h
      obtain ⟨rfl, rfl⟩ := h
      obtain ⟨ops, s1, w2, hd, hfin, hw, -, hnr, -⟩ :=
        MyersG.myersDiff_generic (E.sub uo.toArray un.toArray) (MyersT.snake_in_box _) _ 0 uo.toArray.size 0
          un.toArray.size _ w _ _ (Nat.zero_le _) (Nat.zero_le _) (PatienceP.sub_inBounds hb hao han) hmy
      have hinv0 : PatienceP.HInv E os oe ns ne uo.toArray un.toArray 0 0
          (({} : RState), ({ oc := os, nc := ns } : PState), ({} : Rec)) := by
        refine ⟨⟨Nat.le_refl _, ho, Nat.le_refl _, hn, [], Seg.nil⟩, ?_⟩
        simp only [PatienceP.Pend]
        exact ⟨fun k a _ hk => (hao.range k a hk).1, fun k b _ hk => (han.range k b hk).1⟩
      have hinv1 := PatienceP.outer_run E (MyersT.snake_in_box E) os oe ns ne hb _ _ hao han _ ops 0 0 _ _ _ w s1 w2
        hd hw hnr hinv0
      exact step_finish_near E (MyersT.snake_in_box E) os oe ns ne hb _ _ hao han _ _ s1 w2 _ _ hinv1 hfin
  · simp at h

/-! ## all algorithms, every clock -/

/-- every algorithm's raw stream, for every clock: total, valid, near-exact -/
theorem raw_near (alg : Alg) (E : Env) (os oe ns ne : Nat) (w : World)
    (ho : os ≤ oe) (hn : ns ≤ ne) (hb : InBounds E os oe ns ne)
    (hp : alg = .patience → CaptureNF.SameSideBounds E os oe ns ne) :
    ∃ raw w1, rawTrace alg E os oe ns ne w = .ok ({ trace := raw.map Call.op ++ [.finish] }, w1) ∧
      Walk (eqB E) os ns raw oe ne ∧ Carried os ns raw ∧ NearExact none os ns raw := by
  have key : ∀ (r : Rec) (w1 : World) (raw : List Op), rawTrace alg E os oe ns ne w = .ok (r, w1) →
      r.trace = raw.map Call.op ++ [.finish] →
      rawTrace alg E os oe ns ne w = .ok ({ trace := raw.map Call.op ++ [.finish] }, w1) := by
    intro r w1 raw hraw ht
    have hr := raw_rec_eta alg E os oe ns ne w r w1 hraw
    rw [ht] at hr
    rw [← hr]; exact hraw
  cases alg with
  | myers =>
    obtain ⟨r, w1, hm⟩ := MyersT.myersDiff_total E os oe ns ne w ho hn hb
    have hraw : rawTrace .myers E os oe ns ne w = .ok (r, w1) := by simpa [rawTrace, diffWith] using hm
    obtain ⟨raw, ht, hw, hcar, hne⟩ := C01.myers_near_exact E (MyersT.snake_in_box E) os oe ns ne w r w1 ho hn hb hraw
    exact ⟨raw, w1, key r w1 raw hraw ht, hw, hcar, hne⟩
  | lcs =>
    obtain ⟨raw, w1, hraw, hw, hx⟩ := C01.lcs_exact E os oe ns ne w ho hn hb
    have hl : ∀ (ops : List Op) (o n : Nat), Exact o n ops → NearExact none o n ops := by
      intro ops
      induction ops with
      | nil => intros; trivial
      | cons x xs ih =>
        intro o n h
        cases x <;> simp only [Exact, Op.oStart, Op.nStart, Op.oLen, Op.nLen, Nat.add_zero] at h <;>
          simp only [NearExact]
        · exact ⟨h.1, h.2.1, ih _ _ h.2.2⟩
        · exact ⟨h.1, h.2.1, NearExact_mono _ _ _ _ (ih _ _ h.2.2)⟩
        · exact ⟨.inl h.1, h.2.1, ih _ _ h.2.2⟩
        · exact ⟨h.1, h.2.1, ih _ _ h.2.2⟩
    exact ⟨raw, w1, hraw, hw, LcsP.exact_carried _ raw os ns oe ne hw hx, hl raw os ns hx⟩
  | patience =>
    obtain ⟨r, w1, hm, -⟩ := PatienceT.patience_total E os oe ns ne w ho hn hb (hp rfl).1 (hp rfl).2
    have hraw : rawTrace .patience E os oe ns ne w = .ok (r, w1) := by simpa [rawTrace, diffWith] using hm
    obtain ⟨raw, ht, hw, hne⟩ := patience_near E os oe ns ne w r w1 ho hn hb hm
    exact ⟨raw, w1, key r w1 raw hraw ht, hw, Carried_of_NearExact hne, hne⟩

/-- **C11, repaired swap, all three algorithms, EVERY clock** (in particular Myers and Patience under a deadline
that expires): `capture_diff` returns a valid, alternating script in which every op carries exact positions -/
theorem capture_exact_repaired_every_clock' (alg : Alg) (E : Env) (os oe ns ne : Nat) (w : World)
    (ho : os ≤ oe) (hn : ns ≤ ne) (hb : InBounds E os oe ns ne)
    (hp : alg = .patience → CaptureNF.SameSideBounds E os oe ns ne) :
    ∃ ops w', captureDiff alg E true os oe ns ne w = .ok (ops, w') ∧
      Walk (eqB E) os ns ops oe ne ∧ Exact os ns ops ∧ Alternating ops := by
  obtain ⟨raw, w1, hraw, hw, hcar, hne⟩ := raw_near alg E os oe ns ne w ho hn hb hp
  obtain ⟨ops, w', hc, h1, -, -, -, h5, -, -⟩ :=
    CaptureMin.capture_total_gen alg E true os oe ns ne w raw w1 hraw hw hcar hb
  exact ⟨ops, w', hc, h1, capture_exact_of_near alg E os oe ns ne w raw w1 hraw hw hne ops w' hc, h5⟩

/-- the statement asked for: the hypothesis `alg = .lcs ∨ w.clock = none` of `C11_statement` (a), (b) is not needed -/
theorem capture_exact_repaired_every_clock (alg : Alg) (E : Env) (os oe ns ne : Nat) (w : World)
    (hr : Headline.RangesInBounds E os oe ns ne) :
    ∃ ops w', captureDiff alg E true os oe ns ne w = .ok (ops, w') ∧ Exact os ns ops := by
  obtain ⟨ops, w', hc, -, hx, -⟩ := capture_exact_repaired_every_clock' alg E os oe ns ne w hr.old_le hr.new_le
    hr.cross (fun _ => ⟨hr.oldSide, hr.newSide⟩)
  exact ⟨ops, w', hc, hx⟩

#print axioms capture_exact_repaired_every_clock'
#print axioms capture_exact_repaired_every_clock

/-! ## a witness that the statement is not vacuous under an expired deadline

`[1,0]` vs `[0,0,0]`, clock already expired, Myers and Patience: the raw stream is the fallback pair followed by the
common suffix; the Insert carries old index 0 (true: 1).  The clean-up swaps the pair, slides the Insert below the
Equal, and the Insert SURVIVES `Replace` as a stand-alone op — with the exact old index 2.  (The shipped swap leaves
`insert(1,1,2)`: inexact.) -/

example : ∀ alg : Alg, alg ≠ .lcs →
    (rawTrace alg (Env.ofSeqs #[1, 0] #[0, 0, 0]) 0 2 0 3 { clock := some 0 }).map (·.1.trace) =
      .ok [.op (.delete 0 1 0), .op (.insert 0 0 2), .op (.equal 1 2 1), .finish] ∧
    (captureDiff alg (Env.ofSeqs #[1, 0] #[0, 0, 0]) true 0 2 0 3 { clock := some 0 }).map (·.1) =
      .ok [.delete 0 1 0, .equal 1 0 1, .insert 2 1 2] ∧
    (captureDiff alg (Env.ofSeqs #[1, 0] #[0, 0, 0]) false 0 2 0 3 { clock := some 0 }).map (·.1) =
      .ok [.delete 0 1 0, .equal 1 0 1, .insert 1 1 2] := by
  intro alg h; cases alg
  · exact ⟨by rfl, by rfl, by rfl⟩
  · exact ⟨by rfl, by rfl, by rfl⟩
  · exact absurd rfl h

example : ¬ Exact 0 0 [.delete 0 1 0, .insert 0 0 2, .equal 1 2 1] ∧
    Exact 0 0 [.delete 0 1 0, .equal 1 0 1, .insert 2 1 2] ∧
    ¬ Exact 0 0 [.delete 0 1 0, .equal 1 0 1, .insert 1 1 2] := by
  simp only [Exact]; decide

end SimilarVerif.CaptureClock

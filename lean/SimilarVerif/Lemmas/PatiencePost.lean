import SimilarVerif.Lemmas.PatiencePostHook
/-! # C07 for Patience: at most `7 * min N M` comparisons after the first probe that answered "exceeded"

`patience_post_expiry`: for every `Env`, in-bounds ranges and EVERY initial world, a returning
`patience::diff_deadline` over a hook that does not touch the world (e.g. the recording hook) has a
ghost run `patienceDiffG … none w` (`PatiencePostDefs`) with the same result, whose ghost `g'` is

* `none`: no probe answered "exceeded" (`tm` unchanged), or
* `some we`: `we` is the world right after the FIRST probe that answered "exceeded"
  (`JustExpired we`, `we.probes = tm w` = probes made before the call + probes the clock allowed + 1),
  and the whole rest of the call — outer run, scans, gap runs, tail run — makes at most
  `7 * min N M` comparisons: `w'.cmps ≤ we.cmps + 7 * min N M`.

Accounting: the outer run itself `3·min(|uo|,|un|)` (`conquerS_post`), the hook calls
`3·min N M + (number of anchors)` (`jp_finish`), and there are at most `min(|uo|,|un|) ≤ min N M` anchors. -/
namespace SimilarVerif.PatiencePost
open SimilarVerif Spec HookFail DeadlineP PatienceP PatienceC

/-- what the final ghost says about a call on an `n × m` problem that started in world `w` -/
def PostP (g' : Option World) (w w' : World) (n m : Nat) : Prop :=
  match g' with
  | none => tm w' = tm w ∧ w.cmps ≤ w'.cmps
  | some we => JustExpired we ∧ we.probes = tm w ∧ w.cmps ≤ we.cmps ∧ we.cmps ≤ w'.cmps ∧
      w'.cmps ≤ we.cmps + 7 * min n m ∧ ck w' = 1

theorem mkW_ok {σ} : MkOK (mkW (σ := σ)) gW := fun _ _ _ => rfl

/-- the invariant holds at the start of the outer run -/
theorem jp_init {σ} {os oe ns ne : Nat} {uo un : Array Nat} (hao : Asc uo os oe) (han : Asc un ns ne)
    (ho : os ≤ oe) (hn : ns ≤ ne) (s : σ) :
    JP os oe ns ne uo un 0 0
      ((({} : RState), ({ oc := os, nc := ns } : PState), (s, (none : Option World))), 0) := by
  refine ⟨⟨Nat.le_refl _, ho, Nat.le_refl _, hn⟩, ?_, 0, by simp [plen], by simp [plen], ?_⟩
  · simp only [Pend]
    exact ⟨fun k a _ hk => (hao.range k a hk).1, fun k b _ hk => (han.range k b hk).1⟩
  · exact ⟨fun _ => rfl, Nat.zero_le _⟩

/-- from the accounting of the whole wrapped run to `PostP` -/
theorem postP_of_adv {b γ' n m : Nat} {g' : Option World} {w w' : World}
    (hA : AdvN b none 0 w g' γ' w') (hb : γ' + b ≤ 7 * min n m) : PostP g' w w' n m := by
  obtain ⟨q, a1, a2, a3⟩ := hA
  unfold QN at q
  cases g' with
  | none =>
    simp only [ph, true_implies] at q
    exact ⟨q.2.2.2.1, q.1⟩
  | some we =>
    simp only [ph, gc, gpr, gk, true_implies] at q a2
    obtain ⟨q1, -, -, -, -, q6⟩ := q
    exact ⟨justExpired_of q6.2.2.2.1 q6.2.2.2.2.1, q6.2.2.2.2.2, q6.1, q6.2.1, by omega, q6.2.2.1⟩

/-- **the ghost run of Patience** over a hook that does not touch the world: `PostP` -/
theorem patienceDiffG_post {σ} {h : Hook σ} (hW : WorldId h) {E : Env} {os oe ns ne : Nat}
    (ho : os ≤ oe) (hn : ns ≤ ne) (hb : InBounds E os oe ns ne) {s s' : σ} {g' : Option World} {w w' : World}
    (hc : patienceDiffG E h os oe ns ne s none w = .ok ((s', g'), w')) :
    PostP g' w w' (oe - os) (ne - ns) := by
  unfold patienceDiffG patienceDiffS at hc
  split at hc
  · rename_i uo un hu1 hu2
    have hao := unique_asc hu1
    have han := unique_asc hu2
    have so := asc_size_le hao
    have sn := asc_size_le han
    simp only at hc
    split at hc
    · simp at hc
    · rename_i rs p s1 w1 hmy
      simp only [Except.ok.injEq, Prod.mk.injEq] at hc
      obtain ⟨rfl, rfl⟩ := hc
      -- the same run with the counter
      have hO := myersDiffSS_sim
        (ghp_sim (replaceHook (patienceHookS E (liftG h) mkG uo.toArray un.toArray oe ne)) g0)
        (fun _ _ hx => hx) (mk1 := mkO mkG) (mk2 := mkW)
        (fun s t w w1 (hR : t.1 = s) => by subst hR; rfl)
        (t := ((({} : RState), ({ oc := os, nc := ns } : PState), (s, (none : Option World))), 0)) rfl hmy
      obtain ⟨⟨t1, γ1⟩, hk, hR⟩ := hO.resolve_right (by rintro ⟨e, _, hF⟩; exact hF)
      simp only at hR
      subst hR
      unfold myersDiffS at hk
      simp only at hk
      split at hk
      · simp at hk
      · rename_i tc vf1 vb1 wc hcq
        have hG0 : GoodT (gW (σ := σ)) ΓW
            ((({} : RState), ({ oc := os, nc := ns } : PState), (s, (none : Option World))), 0) w :=
          ⟨fun _ => rfl, fun hx => by simp [gW, g0, ph] at hx⟩
        obtain ⟨hJ, hA⟩ := conquerS_post (MyersT.snake_in_box (E.sub uo.toArray un.toArray))
          (outer_hookA hW) mkW_ok (fun _ _ _ => rfl) (jsteps hW hb hao han)
          (Nat.zero_le _) (Nat.zero_le _) (sub_inBounds hb hao han) hcq (jp_init hao han ho hn s) hG0
        have hGc := GoodT.step hG0 hA
        have hfin := jp_finish hW hb hao han hJ hGc hk
        have hAf := outer_hookA (E := E) (uo := uo.toArray) (un := un.toArray) (oe := oe) (ne := ne) hW
          _ _ _ _ _ hk
        have hAll := AdvT.trans hA hAf
        unfold AdvT at hAll
        simp only [gW, g0, ΓW] at hAll hfin
        refine postP_of_adv hAll ?_
        simp only [List.size_toArray] at so sn hfin ⊢
        omega
  · simp at hc

/-- **C07, Patience, expiry at ANY probe**: a returning `patience::diff_deadline` over a hook that does
not touch the world has a ghost run with the same result whose ghost satisfies `PostP`: after the
first probe that answered "exceeded" at most `7 * min N M` comparisons are made. -/
theorem patience_post_expiry_gen {σ} {h : Hook σ} (hW : WorldId h) (E : Env) (os oe ns ne : Nat)
    (s : σ) (w : World) (s' : σ) (w' : World) (ho : os ≤ oe) (hn : ns ≤ ne) (hb : InBounds E os oe ns ne)
    (hrun : patienceDiff E h os oe ns ne s w = .ok (s', w')) :
    ∃ g', patienceDiffG E h os oe ns ne s none w = .ok ((s', g'), w') ∧
      PostP g' w w' (oe - os) (ne - ns) := by
  obtain ⟨g', hg⟩ := patienceDiffG_total none hrun
  exact ⟨g', hg, patienceDiffG_post hW ho hn hb hg⟩

/-- the recording hook -/
theorem patience_post_expiry (E : Env) (os oe ns ne : Nat) (r : Rec) (w : World) (r' : Rec) (w' : World)
    (ho : os ≤ oe) (hn : ns ≤ ne) (hb : InBounds E os oe ns ne)
    (hrun : patienceDiff E recHook os oe ns ne r w = .ok (r', w')) :
    ∃ g', patienceDiffG E recHook os oe ns ne r none w = .ok ((r', g'), w') ∧
      PostP g' w w' (oe - os) (ne - ns) :=
  patience_post_expiry_gen recHook_worldId E os oe ns ne r w r' w' ho hn hb hrun

/-- the same as a disjunction: either no probe answered "exceeded" (`tm` unchanged), or there is the
world `we` right after the first probe that did, and at most `7 * min N M ≤ 8 * (N + M) + 8`
comparisons follow it -/
theorem patience_post_expiry_cases (E : Env) (os oe ns ne : Nat) (r : Rec) (w : World) (r' : Rec) (w' : World)
    (ho : os ≤ oe) (hn : ns ≤ ne) (hb : InBounds E os oe ns ne)
    (hrun : patienceDiff E recHook os oe ns ne r w = .ok (r', w')) :
    (patienceDiffG E recHook os oe ns ne r none w = .ok ((r', none), w') ∧ tm w' = tm w) ∨
    ∃ we, patienceDiffG E recHook os oe ns ne r none w = .ok ((r', some we), w') ∧
      JustExpired we ∧ we.probes = tm w ∧ w.cmps ≤ we.cmps ∧ we.cmps ≤ w'.cmps ∧
      w'.cmps ≤ we.cmps + 7 * min (oe - os) (ne - ns) ∧
      w'.cmps ≤ we.cmps + 8 * ((oe - os) + (ne - ns)) + 8 ∧ w'.clock = some 0 := by
  obtain ⟨g', hg, hp⟩ := patience_post_expiry E os oe ns ne r w r' w' ho hn hb hrun
  cases g' with
  | none => exact .inl ⟨hg, hp.1⟩
  | some we =>
    obtain ⟨h1, h2, h3, h4, h5, h6⟩ := hp
    exact .inr ⟨we, hg, h1, h2, h3, h4, h5, by omega, ck_one.1 h6⟩

/-- entered with `clock = some k`: either at most `k` probes were made, or `we` is the world right
after the `(k+1)`-th probe (the first that answered "exceeded") and at most `7 * min N M` comparisons
are made after it -/
theorem patience_post_expiry_clock (E : Env) (os oe ns ne : Nat) (r : Rec) (k pr c : Nat) (r' : Rec) (w' : World)
    (ho : os ≤ oe) (hn : ns ≤ ne) (hb : InBounds E os oe ns ne)
    (hrun : patienceDiff E recHook os oe ns ne r { clock := some k, probes := pr, cmps := c } = .ok (r', w')) :
    (w'.probes ≤ pr + k ∧ w'.clock = some (pr + k - w'.probes)) ∨
    ∃ we, patienceDiffG E recHook os oe ns ne r none { clock := some k, probes := pr, cmps := c }
        = .ok ((r', some we), w') ∧
      we.clock = some 0 ∧ we.probes = pr + k + 1 ∧ c ≤ we.cmps ∧ we.cmps ≤ w'.cmps ∧
      w'.cmps ≤ we.cmps + 7 * min (oe - os) (ne - ns) ∧ w'.clock = some 0 := by
  have hS := (patienceDiff_par (recHook_par 0) hrun).1
  have hck : ck ({ clock := some k, probes := pr, cmps := c } : World) = k + 1 := ck_some rfl
  rcases patience_post_expiry_cases E os oe ns ne r _ r' w' ho hn hb hrun with ⟨-, ht⟩ | ⟨we, hg, h1, h2, h3, h4, h5, -, h7⟩
  · left
    unfold Step at hS
    unfold tm at ht hS
    simp only at ht hS
    have h0 : ck w' ≠ 0 := by omega
    have hcl : w'.clock = some (ck w' - 1) := by
      unfold ck at h0 ⊢
      cases hx : w'.clock with
      | none => simp [hx] at h0
      | some g => simp
    refine ⟨by omega, ?_⟩
    rw [hcl]
    congr 1
    omega
  · right
    refine ⟨we, hg, h1.clock, ?_, h3, h4, h5, h7⟩
    unfold tm at h2
    simp only at h2
    omega

#print axioms patience_post_expiry
#print axioms patience_post_expiry_clock
#print axioms patienceDiffG_erase

end SimilarVerif.PatiencePost

import SimilarVerif.Lemmas.Group
/-! # Glue for the C12 headline theorem (Props/Headline/C12.lean)

The per-group form of "each group starts and ends with `min(n, available)` equal items of context taken from the
adjacent equal run, keeps interior equal runs whole": `Group.G_contig` (behind `C12.contiguous`) with the pieces
made exact.  No hypothesis on the op list. -/
namespace SimilarVerif.Headline
open SimilarVerif Spec Group

/-- leading context of a group: the LAST `min n len` items of an Equal op; any other op is left as it is -/
def lastItems (n : Nat) : Op → Op
  | .equal o m len => .equal (o + (len - min n len)) (m + (len - min n len)) (min n len)
  | x => x

/-- trailing context of a group: the FIRST `min n len` items of an Equal op; any other op is left as it is -/
def firstItems (n : Nat) : Op → Op
  | .equal o m len => .equal o m (min n len)
  | x => x

/-- an Equal op of more than `2n` items (where the loop closes a group) -/
def BigEqual (n : Nat) (x : Op) : Prop := x.tag = .equal ∧ 2 * n < x.oLen

/-- **`g` is the group cut out of the run `mid` of `ops = pre ++ mid ++ post`.**
Either the whole input is one change, which is the group; or `mid` has at least two ops, the group is `mid` with its
first op cut down to its last `min n len` items and its last op cut down to its first `min n len` items when they
are Equal ops (unchanged when they are changes) and every interior op unchanged; the run starts at the start of the
input or at an Equal op of more than `2n` items, and ends at the end of the input or at such an op. -/
def GroupOf (n : Nat) (pre mid post g : List Op) : Prop :=
  (∃ c, c.tag ≠ .equal ∧ pre = [] ∧ post = [] ∧ mid = [c] ∧ g = [c]) ∨
  (∃ X inner Z, mid = X :: (inner ++ [Z]) ∧ g = lastItems n X :: (inner ++ [firstItems n Z]) ∧
    (pre = [] ∨ BigEqual n X) ∧ (post = [] ∨ BigEqual n Z))

theorem lastItems_eq (n o m len : Nat) :
    lastItems n (.equal o m len) = .equal (o + (len - n)) (m + (len - n)) (len - (len - n)) := by
  simp only [lastItems]
  rw [show len - min n len = len - n by omega, show min n len = len - (len - n) by omega]

theorem firstItems_eq (n o m len : Nat) :
    firstItems n (.equal o m len) = .equal o m (len - (len - n)) := by
  simp only [firstItems]
  rw [show min n len = len - (len - n) by omega]

theorem firstItems_big (n o m len : Nat) (h : n * 2 < len) :
    firstItems n (.equal o m len) = .equal o m n := by
  simp only [firstItems]
  rw [show min n len = n by omega]

theorem trimFirst_cons (n : Nat) (X : Op) (rest : List Op) :
    trimFirst n (X :: rest) = lastItems n X :: rest := by
  cases X with
  | equal o m len => rw [lastItems_eq]; rfl
  | _ => rfl

theorem trimLast_single (n : Nat) (Z : Op) : trimLast n [Z] = [firstItems n Z] := by
  cases Z with
  | equal o m len => rw [firstItems_eq]; rfl
  | _ => rfl

theorem trimLast_snoc (n : Nat) (t : List Op) (Z : Op) : trimLast n (t ++ [Z]) = t ++ [firstItems n Z] := by
  rw [trimLast_append _ _ _ (by simp), trimLast_single]

theorem bigEqual_of (n o m len : Nat) (h : n * 2 < len) : BigEqual n (.equal o m len) :=
  ⟨rfl, by simp only [Op.oLen]; omega⟩

theorem piece_lastItems (n : Nat) (X : Op) : Piece X (lastItems n X) := by
  cases X with
  | equal o m len => exact Or.inr ⟨o, m, len, len - min n len, min n len, rfl, rfl, by omega⟩
  | _ => exact Or.inl rfl

theorem piece_firstItems (n : Nat) (Z : Op) : Piece Z (firstItems n Z) := by
  cases Z with
  | equal o m len => exact Or.inr ⟨o, m, len, 0, min n len, rfl, rfl, by omega⟩
  | _ => exact Or.inl rfl

/-- the exact form implies the form of `C12.contiguous` -/
theorem GroupOf.trimmed {n : Nat} {pre mid post g : List Op} (h : GroupOf n pre mid post g) : Trimmed mid g := by
  rcases h with ⟨c, -, -, -, rfl, rfl⟩ | ⟨X, inner, Z, rfl, rfl, -, -⟩
  · exact Or.inl ⟨c, c, rfl, rfl, Or.inl rfl⟩
  · exact Or.inr ⟨X, _, inner, Z, _, rfl, rfl, piece_lastItems n X, piece_firstItems n Z⟩

/-- pending group vs. the run of the input it came from: the first op is cut to its last `min n len` items; the run
starts at the start of the input or at an Equal op of more than `2n` items -/
def PendingOf (n : Nat) (A P p : List Op) : Prop :=
  ∃ X t, P = X :: t ∧ p = lastItems n X :: t ∧ (A = [] ∨ BigEqual n X)

/-- remaining ops vs. the remaining input (non-empty): the last op is cut to its first `min n len` items -/
def RestOf (n : Nat) (O ops : List Op) : Prop := ∃ t Z, O = t ++ [Z] ∧ ops = t ++ [firstItems n Z]

theorem G_nil_two (n : Nat) (a : Op) (t : List Op) (b : Op) : G n [] (a :: (t ++ [b])) = [a :: (t ++ [b])] := by
  rw [G_nil]
  split
  · rename_i h; simp at h
  · rename_i h; simp at h
  · rfl

theorem G_groupOf (n : Nat) (S : List Op) (ops p A P O : List Op) (hS : S = A ++ P ++ O)
    (hP : PendingOf n A P p) (hO : RestOf n O ops) (hlast : ∀ z, ops.getLast? = some z → isBig n z = false) :
    ∀ g ∈ G n ops p, ∃ pre mid post, S = pre ++ mid ++ post ∧ GroupOf n pre mid post g := by
  induction ops generalizing p A P O with
  | nil =>
    obtain ⟨t, Z, -, h⟩ := hO
    simp at h
  | cons x rest ih =>
    obtain ⟨t, Z, rfl, hops⟩ := hO
    obtain ⟨X, u, rfl, rfl, hA⟩ := hP
    cases t with
    | nil =>
      simp only [List.nil_append, List.cons.injEq] at hops
      obtain ⟨rfl, rfl⟩ := hops
      have hb : isBig n (firstItems n Z) = false := hlast _ rfl
      rw [G_small _ _ _ _ hb]
      intro g hg
      rw [List.cons_append, G_nil_two] at hg
      have hg : g = lastItems n X :: (u ++ [firstItems n Z]) := by simpa using hg
      subst hg
      exact ⟨A, X :: (u ++ [Z]), [], by simp [hS], Or.inr ⟨X, u, Z, rfl, rfl, hA, Or.inl rfl⟩⟩
    | cons y t =>
      simp only [List.cons_append, List.cons.injEq] at hops
      obtain ⟨rfl, rfl⟩ := hops
      have hne : t ++ [firstItems n Z] ≠ [] := by simp
      have hlast' : ∀ z, (t ++ [firstItems n Z]).getLast? = some z → isBig n z = false := by
        intro z hz; apply hlast z
        rwa [List.getLast?_cons_of_ne_nil hne]
      by_cases hb : isBig n x = true
      · obtain ⟨o, m, len, rfl, hlen⟩ := isBig_true hb
        rw [G_big _ _ _ _ _ _ hlen]
        intro g hg
        rcases List.mem_cons.1 hg with rfl | hg
        · refine ⟨A, X :: (u ++ [.equal o m len]), t ++ [Z], by simp [hS], Or.inr ⟨X, u, .equal o m len, rfl, ?_, hA,
            Or.inr (bigEqual_of n o m len hlen)⟩⟩
          rw [firstItems_big n o m len hlen]; rfl
        · refine ih _ (A ++ X :: u) [.equal o m len] (t ++ [Z]) (by simp [hS]) ?_ ⟨t, Z, rfl, rfl⟩ hlast' g hg
          exact ⟨_, [], rfl, by rw [lastItems_eq], Or.inr (bigEqual_of n o m len hlen)⟩
      · have hb : isBig n x = false := by simpa using hb
        rw [G_small _ _ _ _ hb]
        exact ih _ A (X :: (u ++ [x])) (t ++ [Z]) (by simp [hS]) ⟨X, u ++ [x], rfl, rfl, hA⟩ ⟨t, Z, rfl, rfl⟩ hlast'

/-- **every group, exactly**: each group of `group_diff_ops(ops, n)` is cut out of a contiguous run of the input as
`GroupOf` says.  Every op list, every radius. -/
theorem group_groupOf (ops : List Op) (n : Nat) (g : List Op) (hg : g ∈ groupDiffOps ops n) :
    ∃ pre mid post, ops = pre ++ mid ++ post ∧ GroupOf n pre mid post g := by
  rw [groupDiffOps_eq] at hg
  match ops, hg with
  | [], hg => simp [trimFirst, trimLast, G_nil] at hg
  | [X], hg =>
    rw [trimFirst_cons, trimLast_single] at hg
    have hb : isBig n (firstItems n (lastItems n X)) = false :=
      isBig_false_of_small (trimLast_last_small n [lastItems n X] _ (by rw [trimLast_single]; rfl))
    rw [G_small _ _ _ _ hb, G_nil] at hg
    cases X with
    | equal o m len => simp [lastItems, firstItems] at hg
    | delete o l m =>
      simp [lastItems, firstItems] at hg; subst hg
      exact ⟨[], _, [], rfl, Or.inl ⟨_, by simp [Op.tag], rfl, rfl, rfl, rfl⟩⟩
    | insert o m l =>
      simp [lastItems, firstItems] at hg; subst hg
      exact ⟨[], _, [], rfl, Or.inl ⟨_, by simp [Op.tag], rfl, rfl, rfl, rfl⟩⟩
    | replace o ol m nl =>
      simp [lastItems, firstItems] at hg; subst hg
      exact ⟨[], _, [], rfl, Or.inl ⟨_, by simp [Op.tag], rfl, rfl, rfl, rfl⟩⟩
  | X :: Y :: rest, hg =>
    obtain ⟨t, Z, hYZ⟩ : ∃ t Z, Y :: rest = t ++ [Z] := by
      rcases eq_nil_or_snoc (Y :: rest) with h | ⟨t, Z, h⟩
      · simp at h
      · exact ⟨t, Z, h⟩
    have hL : trimLast n (trimFirst n (X :: Y :: rest)) = lastItems n X :: (t ++ [firstItems n Z]) := by
      rw [trimFirst_cons, trimLast, hYZ, trimLast_snoc]
    have hb : isBig n (lastItems n X) = false := by
      apply isBig_false_of_small
      exact trim_head_small n (X :: Y :: rest) _ (by rw [hL]; rfl)
    rw [hL, G_small _ _ _ _ hb] at hg
    refine G_groupOf n _ _ _ [] [X] (Y :: rest) rfl ⟨X, [], rfl, rfl, Or.inl rfl⟩ ⟨t, Z, hYZ, rfl⟩ ?_ g hg
    intro z hz
    refine isBig_false_of_small (trimLast_last_small n (t ++ [Z]) z ?_)
    rwa [trimLast_snoc]

end SimilarVerif.Headline

#print axioms SimilarVerif.Headline.group_groupOf
#print axioms SimilarVerif.Headline.GroupOf.trimmed

import SimilarVerif.Lemmas.Myers
import SimilarVerif.Lemmas.Replace
/-! Soundness of Myers' `conquer` / `myersDiff` over an ARBITRARY hook: the hook is driven with the
ops of a valid script for the box (`Delivered`), interleaved with algorithm-internal world changes
that never touch an absent clock.  The recording-hook theorems of `Lemmas/Myers.lean` are corollaries. -/
namespace SimilarVerif.MyersG
open Spec MyersP

/-- what the algorithm itself may do to the world between two hook calls: without a deadline the
clock stays absent (it only compares items and probes the clock) -/
def ClockKeep (w w' : World) : Prop := w.clock = none → w'.clock = none

theorem ClockKeep.refl (w : World) : ClockKeep w w := id
theorem ClockKeep.trans {a b c : World} (h1 : ClockKeep a b) (h2 : ClockKeep b c) : ClockKeep a c :=
  fun h => h2 (h1 h)
theorem ClockKeep.of_eq {a b : World} (h : b.clock = a.clock) : ClockKeep a b := fun h' => by rw [h, h']

/-- a hook that never installs a deadline -/
def HookKeepsClock {σ} (h : Hook σ) : Prop :=
  ∀ c s w s' w', h.call c s w = .ok (s', w') → w.clock = none → w'.clock = none

/-- The hook `h` was driven, from state `s` / world `w` to `s'` / `w'`, with exactly the calls `ops`
(all answered `Ok`), interleaved with algorithm-internal world changes. -/
inductive Delivered {σ} (h : Hook σ) : List Op → σ → World → σ → World → Prop
  | nil {s : σ} {w w' : World} : ClockKeep w w' → Delivered h [] s w s w'
  | cons {x : Op} {xs : List Op} {s s2 s' : σ} {w w1 w2 w' : World} :
      ClockKeep w w1 → h.call (.op x) s w1 = .ok (s2, w2) → Delivered h xs s2 w2 s' w' →
      Delivered h (x :: xs) s w s' w'

theorem Delivered.pre {σ} {h : Hook σ} {ops : List Op} {s s' : σ} {w0 w w' : World}
    (h0 : ClockKeep w0 w) (hd : Delivered h ops s w s' w') : Delivered h ops s w0 s' w' := by
  cases hd with
  | nil hk => exact .nil (h0.trans hk)
  | cons hk hc ht => exact .cons (h0.trans hk) hc ht

theorem Delivered.append {σ} {h : Hook σ} {a b : List Op} {s s1 s2 : σ} {w w1 w2 : World}
    (h1 : Delivered h a s w s1 w1) (h2 : Delivered h b s1 w1 s2 w2) : Delivered h (a ++ b) s w s2 w2 := by
  induction h1 with
  | nil hk => exact h2.pre hk
  | cons hk hc _ ih => exact .cons hk hc (ih h2)

theorem Delivered.single {σ} {h : Hook σ} {x : Op} {s s' : σ} {w w' : World}
    (hc : emit h x s w = .ok (s', w')) : Delivered h [x] s w s' w' :=
  .cons (ClockKeep.refl w) hc (.nil (ClockKeep.refl w'))

/-- with a hook that never installs a deadline, an absent clock stays absent -/
theorem Delivered.clock {σ} {h : Hook σ} {ops : List Op} {s s' : σ} {w w' : World}
    (hk : HookKeepsClock h) (hd : Delivered h ops s w s' w') : ClockKeep w w' := by
  induction hd with
  | nil h0 => exact h0
  | cons h0 hc _ ih => exact fun hw => ih (hk _ _ _ _ _ hc (h0 hw))

/-- `NoFinishHook` forwards every op -/
theorem Delivered.of_noFinish {σ} {h : Hook σ} {ops : List Op} {s s' : σ} {w w' : World}
    (hd : Delivered (noFinishHook h) ops s w s' w') : Delivered h ops s w s' w' := by
  induction hd with
  | nil h0 => exact .nil h0
  | cons h0 hc _ ih => exact .cons h0 hc ih

/-- over the recording hook (no failure scheduled) delivering ops appends them to the trace -/
theorem Delivered.rec_ext {ops : List Op} {r r' : Rec} {w w' : World}
    (hd : Delivered recHook ops r w r' w') (hf : r.failAt = none) (hnr : NoReplaceOp ops) : Ext r r' ops := by
  induction hd with
  | nil _ => exact Ext.nil _
  | @cons x xs s s2 s' w w1 w2 w' _ hc _ ih =>
    have hx : ∀ o ol n nl, x ≠ .replace o ol n nl := by
      intro o ol n nl he; subst he; exact hnr
    have hnr' : NoReplaceOp xs := by
      cases x <;> first | exact hnr | exact hnr.elim
    obtain ⟨he, _⟩ := emit_rec hf hx hc
    have := ih (by rw [he.failAt]; exact hf) hnr'
    exact he.append this

theorem noReplaceOp_append : ∀ (a b : List Op), NoReplaceOp a → NoReplaceOp b → NoReplaceOp (a ++ b) := by
  intro a
  induction a with
  | nil => intro b _ hb; simpa using hb
  | cons c cs ih =>
    intro b ha hb
    cases c <;> simp only [NoReplaceOp, List.cons_append] at ha ⊢
    all_goals first | exact ih b ha hb | exact ha

/-! ## Segments of a run over an arbitrary hook -/

structure GSeg {σ} (e : Nat → Nat → Bool) (P : Prop) (h : Hook σ) (s : σ) (w : World) (o n : Nat)
    (ops : List Op) (s' : σ) (w' : World) (o' n' : Nat) : Prop where
  del : Delivered h ops s w s' w'
  walk : Walk e o n ops o' n'
  near : NearExact none o n ops
  norep : NoReplaceOp ops
  exact : P → Exact o n ops

variable {σ : Type} {e : Nat → Nat → Bool} {P : Prop} {h : Hook σ}

theorem GSeg.nil {s : σ} {w w' : World} {o n : Nat} (hk : ClockKeep w w') :
    GSeg e P h s w o n [] s w' o n :=
  ⟨.nil hk, by simp [Walk], by simp [NearExact], by simp [NoReplaceOp], fun _ => by simp [Exact]⟩

theorem GSeg.append {s s1 s2 : σ} {w w1 w2 : World} {o n o1 n1 o2 n2 : Nat} {a b : List Op}
    (h1 : GSeg e P h s w o n a s1 w1 o1 n1) (h2 : GSeg e P h s1 w1 o1 n1 b s2 w2 o2 n2) :
    GSeg e P h s w o n (a ++ b) s2 w2 o2 n2 :=
  ⟨h1.del.append h2.del, (Walk_append a b o n o2 n2).2 ⟨o1, n1, h1.walk, h2.walk⟩,
   NearExact_append a b none o n o1 n1 h1.walk h1.near h2.near,
   noReplaceOp_append a b h1.norep h2.norep,
   fun hp => Exact_append a b o n o1 n1 h1.walk (h1.exact hp) (h2.exact hp)⟩

theorem GSeg.pre {s s' : σ} {w0 w w' : World} {o n o' n' : Nat} {a : List Op}
    (h0 : ClockKeep w0 w) (h1 : GSeg e P h s w o n a s' w' o' n') : GSeg e P h s w0 o n a s' w' o' n' :=
  ⟨h1.del.pre h0, h1.walk, h1.near, h1.norep, h1.exact⟩

theorem GSeg.equal {s s' : σ} {w w' : World} {o n l : Nat}
    (hc : emit h (.equal o n l) s w = .ok (s', w')) (hl : 0 < l)
    (heq : ∀ t, t < l → e (o+t) (n+t) = true) :
    GSeg e P h s w o n [.equal o n l] s' w' (o+l) (n+l) :=
  ⟨.single hc, by simp only [Walk, hl, true_and, and_true]; exact heq, by simp [NearExact],
   by simp [NoReplaceOp], fun _ => by simp [Exact, Op.oStart, Op.nStart]⟩

theorem GSeg.delete {s s' : σ} {w w' : World} {o n l : Nat}
    (hc : emit h (.delete o l n) s w = .ok (s', w')) (hl : 0 < l) :
    GSeg e P h s w o n [.delete o l n] s' w' (o+l) n :=
  ⟨.single hc, by simp [Walk, hl], by simp [NearExact], by simp [NoReplaceOp],
   fun _ => by simp [Exact, Op.oStart, Op.nStart]⟩

theorem GSeg.insert {s s' : σ} {w w' : World} {o n l : Nat}
    (hc : emit h (.insert o n l) s w = .ok (s', w')) (hl : 0 < l) :
    GSeg e P h s w o n [.insert o n l] s' w' o (n+l) :=
  ⟨.single hc, by simp [Walk, hl], by simp [NearExact], by simp [NoReplaceOp],
   fun _ => by simp [Exact, Op.oStart, Op.nStart]⟩

theorem GSeg.fallback {s s1 s2 : σ} {w w1 w2 : World} {o n l l' : Nat}
    (hP : ¬ P) (h1 : emit h (.delete o l n) s w = .ok (s1, w1))
    (h2 : emit h (.insert o n l') s1 w1 = .ok (s2, w2)) (hl : 0 < l) (hl' : 0 < l') :
    GSeg e P h s w o n [.delete o l n, .insert o n l'] s2 w2 (o+l) (n+l') :=
  ⟨(Delivered.single h1).append (.single h2), by simp [Walk, hl, hl'], by simp [NearExact],
   by simp [NoReplaceOp], fun hp => absurd hp hP⟩

theorem GSeg.clock {s s' : σ} {w w' : World} {o n o' n' : Nat} {a : List Op}
    (hk : HookKeepsClock h) (h1 : GSeg e P h s w o n a s' w' o' n') : ClockKeep w w' :=
  h1.del.clock hk

/-! ## `conquer` over an arbitrary hook -/

theorem conquer_gen_aux {σ : Type} (E : Env) (hbox : SnakeInBox E) (off : Nat) (h : Hook σ) (P : Prop)
    (hfound : P → SnakeFound E) (hkeep : P → HookKeepsClock h) :
    ∀ (fuel os oe ns ne : Nat) (vf vb : V) (s : σ) (w : World) (s' : σ) (vf' vb' : V) (w' : World),
      os ≤ oe → ns ≤ ne → InBounds E os oe ns ne → (P → w.clock = none) →
      conquer E h off fuel os oe ns ne vf vb s w = .ok (s', vf', vb', w') →
      ∃ ops, GSeg (eqB E) P h s w os ns ops s' w' oe ne := by
  intro fuel
  induction fuel with
  | zero => intro os oe ns ne vf vb s w s' vf' vb' w' _ _ _ _ hc; simp [conquer] at hc
  | succ f ih =>
    intro os oe ns ne vf vb s w s' vf' vb' w' ho hn hb hP hc
    simp only [conquer] at hc
    split at hc
    · simp at hc
    · rename_i p w1 hp
      obtain ⟨hp1, hp2, hp3, -, hp5⟩ := commonPrefixLen_spec hp
      have hk1 : ClockKeep w w1 := ClockKeep.of_eq hp5.1
      split at hc
      · simp at hc
      · rename_i s1 w2 hpre
        have hpre' : ∃ pre, GSeg (eqB E) P h s w os ns pre s1 w2 (os+p) (ns+p) := by
          split at hpre
          · rename_i hpos
            exact ⟨_, (GSeg.equal hpre hpos hp3).pre hk1⟩
          · rename_i hpos
            simp only [Except.ok.injEq, Prod.mk.injEq] at hpre
            obtain ⟨rfl, rfl⟩ := hpre
            have : p = 0 := by omega
            subst this
            exact ⟨[], GSeg.nil hk1⟩
        obtain ⟨pre, spre⟩ := hpre'
        have hP2 : P → w2.clock = none := fun hp => spre.clock (hkeep hp) (hP hp)
        split at hc
        · simp at hc
        · rename_i sl w3 hs
          obtain ⟨hs1, hs2, hs3, -, hs5⟩ := commonSuffixLen_spec hs
          have hk3 : ClockKeep w2 w3 := ClockKeep.of_eq hs5.1
          have hP3 : P → w3.clock = none := fun hp => hk3 (hP2 hp)
          split at hc
          · simp at hc
          · rename_i s2 vf2 vb2 w4 hmid
            have hmid' : ∃ mid, GSeg (eqB E) P h s1 w3 (os+p) (ns+p) mid s2 w4 (oe-sl) (ne-sl) := by
              split at hmid
              · -- both ranges empty
                rename_i hcond
                simp only [Bool.and_eq_true, decide_eq_true_eq] at hcond
                simp only [Except.ok.injEq, Prod.mk.injEq] at hmid
                obtain ⟨rfl, rfl, rfl, rfl⟩ := hmid
                have e1 : oe - sl = os + p := by omega
                have e2 : ne - sl = ns + p := by omega
                rw [e1, e2]
                exact ⟨[], GSeg.nil (ClockKeep.refl _)⟩
              · rename_i hcond
                simp only [Bool.and_eq_true, decide_eq_true_eq] at hcond
                split at hmid
                · -- new range empty: one delete
                  rename_i hne
                  split at hmid
                  · simp at hmid
                  · rename_i ra wa hem
                    simp only [Except.ok.injEq, Prod.mk.injEq] at hmid
                    obtain ⟨rfl, rfl, rfl, rfl⟩ := hmid
                    have sg := GSeg.delete (e := eqB E) (P := P) hem (by omega)
                    have e1 : os + p + (oe - sl - (os + p)) = oe - sl := by omega
                    have e2 : ns + p = ne - sl := by omega
                    rw [e1] at sg
                    rw [← e2]
                    exact ⟨_, sg⟩
                · rename_i hne
                  split at hmid
                  · -- old range empty: one insert
                    rename_i hoe
                    split at hmid
                    · simp at hmid
                    · rename_i ra wa hem
                      simp only [Except.ok.injEq, Prod.mk.injEq] at hmid
                      obtain ⟨rfl, rfl, rfl, rfl⟩ := hmid
                      have sg := GSeg.insert (e := eqB E) (P := P) hem (by omega)
                      have e1 : ns + p + (ne - sl - (ns + p)) = ne - sl := by omega
                      have e2 : os + p = oe - sl := by omega
                      rw [e1] at sg
                      rw [← e2]
                      exact ⟨_, sg⟩
                  · rename_i hoe
                    have hb' : InBounds E (os+p) (oe-sl) (ns+p) (ne-sl) :=
                      InBounds_sub hb (by omega) (by omega) (by omega) (by omega)
                    split at hmid
                    · simp at hmid
                    · -- a split point
                      rename_i vf5 vb5 x y w5 hfm
                      obtain ⟨hx1, hx2, hy1, hy2⟩ :=
                        hbox _ _ _ _ _ _ _ _ _ _ _ _ _ (by omega) (by omega) hb' hfm
                      have hk5 : ClockKeep w3 w5 := findMiddleSnake_clock hfm
                      split at hmid
                      · simp at hmid
                      · rename_i ra vfa vba wa hca
                        obtain ⟨opsa, sga⟩ := ih _ _ _ _ _ _ _ _ _ _ _ _ hx1 hy1
                          (InBounds_sub hb' (Nat.le_refl _) hx2 (Nat.le_refl _) hy2)
                          (fun hp => hk5 (hP3 hp)) hca
                        obtain ⟨opsb, sgb⟩ := ih _ _ _ _ _ _ _ _ _ _ _ _ hx2 hy2
                          (InBounds_sub hb' hx1 (Nat.le_refl _) hy1 (Nat.le_refl _))
                          (fun hp => sga.clock (hkeep hp) (hk5 (hP3 hp))) hmid
                        exact ⟨_, (sga.append sgb).pre hk5⟩
                    · -- gave up: delete then insert
                      rename_i vf5 vb5 w5 hfm
                      have hk5 : ClockKeep w3 w5 := findMiddleSnake_clock hfm
                      have hnP : ¬ P := fun hp =>
                        hfound hp _ _ _ _ _ _ _ _ _ _ _ (by omega) (by omega) hb' (hP3 hp) hfm
                      split at hmid
                      · simp at hmid
                      · rename_i ra wa hem1
                        split at hmid
                        · simp at hmid
                        · rename_i rb wb hem2
                          simp only [Except.ok.injEq, Prod.mk.injEq] at hmid
                          obtain ⟨rfl, rfl, rfl, rfl⟩ := hmid
                          have sg := GSeg.fallback (e := eqB E) hnP hem1 hem2 (by omega) (by omega)
                          have e1 : os + p + (oe - sl - (os + p)) = oe - sl := by omega
                          have e2 : ns + p + (ne - sl - (ns + p)) = ne - sl := by omega
                          rw [e1, e2] at sg
                          exact ⟨_, sg.pre hk5⟩
            obtain ⟨mid, smid⟩ := hmid'
            have hpost : ∃ post, GSeg (eqB E) P h s2 w4 (oe-sl) (ne-sl) post s' w' oe ne := by
              split at hc
              · rename_i hpos
                split at hc
                · simp at hc
                · rename_i rc wc hem
                  simp only [Except.ok.injEq, Prod.mk.injEq] at hc
                  obtain ⟨rfl, rfl, rfl, rfl⟩ := hc
                  have sg := GSeg.equal (e := eqB E) (P := P) hem hpos (by
                    intro t ht
                    have := hs3 (sl - 1 - t) (by omega)
                    have e1 : oe - 1 - (sl - 1 - t) = oe - sl + t := by omega
                    have e2 : ne - 1 - (sl - 1 - t) = ne - sl + t := by omega
                    rw [e1, e2] at this
                    exact this)
                  have e1 : oe - sl + sl = oe := by omega
                  have e2 : ne - sl + sl = ne := by omega
                  rw [e1, e2] at sg
                  exact ⟨_, sg⟩
              · rename_i hpos
                simp only [Except.ok.injEq, Prod.mk.injEq] at hc
                obtain ⟨rfl, rfl, rfl, rfl⟩ := hc
                have : sl = 0 := by omega
                subst this
                exact ⟨[], GSeg.nil (ClockKeep.refl _)⟩
            obtain ⟨post, spost⟩ := hpost
            exact ⟨_, spre.append ((smid.pre hk3).append spost)⟩

/-- **`conquer` over any hook**: the hook is driven with a valid script for the box, carried indices
near-exact; exact when there is no deadline, the hook never installs one, and `find_middle_snake`
then never gives up. -/
theorem conquer_generic {σ : Type} (E : Env) (hbox : SnakeInBox E) (off : Nat) (h : Hook σ)
    (fuel os oe ns ne : Nat) (vf vb : V) (s : σ) (w : World) (s' : σ) (vf' vb' : V) (w' : World)
    (ho : os ≤ oe) (hn : ns ≤ ne) (hb : InBounds E os oe ns ne)
    (hc : conquer E h off fuel os oe ns ne vf vb s w = .ok (s', vf', vb', w')) :
    ∃ ops, Delivered h ops s w s' w' ∧ Walk (eqB E) os ns ops oe ne ∧ NearExact none os ns ops ∧
      NoReplaceOp ops ∧ (SnakeFound E → HookKeepsClock h → w.clock = none → Exact os ns ops) := by
  obtain ⟨ops, sg⟩ := conquer_gen_aux E hbox off h (SnakeFound E ∧ HookKeepsClock h ∧ w.clock = none)
    (fun hp => hp.1) (fun hp => hp.2.1) fuel os oe ns ne vf vb s w s' vf' vb' w' ho hn hb (fun hp => hp.2.2) hc
  exact ⟨ops, sg.del, sg.walk, sg.near, sg.norep, fun h1 h2 h3 => sg.exact ⟨h1, h2, h3⟩⟩

/-- **`myers::diff_deadline` over any hook**: a valid script is delivered, then `finish`. -/
theorem myersDiff_generic {σ : Type} (E : Env) (hbox : SnakeInBox E) (h : Hook σ)
    (os oe ns ne : Nat) (s : σ) (w : World) (s' : σ) (w' : World)
    (ho : os ≤ oe) (hn : ns ≤ ne) (hb : InBounds E os oe ns ne)
    (hc : myersDiff E h os oe ns ne s w = .ok (s', w')) :
    ∃ ops s1 w1, Delivered h ops s w s1 w1 ∧ h.call .finish s1 w1 = .ok (s', w') ∧
      Walk (eqB E) os ns ops oe ne ∧ NearExact none os ns ops ∧ NoReplaceOp ops ∧
      (SnakeFound E → HookKeepsClock h → w.clock = none → Exact os ns ops) := by
  unfold myersDiff at hc
  simp only at hc
  split at hc
  · simp at hc
  · rename_i s1 vf1 vb1 w1 hcq
    obtain ⟨ops, h1, h2, h3, h4, h5⟩ := conquer_generic E hbox _ h _ os oe ns ne _ _ s w s1 vf1 vb1 w1 ho hn hb hcq
    exact ⟨ops, s1, w1, h1, hc, h2, h3, h4, h5⟩

/-! ## The recording hook as a corollary -/

/-- the first three conjuncts of `MyersP.conquer_sound` from the generic theorem -/
theorem conquer_rec (E : Env) (hbox : SnakeInBox E) (off : Nat)
    (fuel os oe ns ne : Nat) (vf vb : V) (r : Rec) (w : World) (r' : Rec) (vf' vb' : V) (w' : World)
    (hf : r.failAt = none) (ho : os ≤ oe) (hn : ns ≤ ne) (hb : InBounds E os oe ns ne)
    (hc : conquer E recHook off fuel os oe ns ne vf vb r w = .ok (r', vf', vb', w')) :
    ∃ ops, r' = { r with trace := r.trace ++ ops.map Call.op } ∧
      Walk (eqB E) os ns ops oe ne ∧ Carried os ns ops ∧ NearExact none os ns ops := by
  obtain ⟨ops, h1, h2, h3, h4, -⟩ := conquer_generic E hbox off recHook fuel os oe ns ne vf vb r w r' vf' vb' w' ho hn hb hc
  exact ⟨ops, h1.rec_ext hf h4, h2, Carried_of_NearExact h3, h3⟩

/-- `myersDiff` over the recording hook started in ANY state without a scheduled failure (the inner
and tail runs of Patience): ops appended, then `finish`. -/
theorem myersDiff_rec (E : Env) (hbox : SnakeInBox E) (os oe ns ne : Nat) (r : Rec) (w : World)
    (r' : Rec) (w' : World) (hf : r.failAt = none)
    (ho : os ≤ oe) (hn : ns ≤ ne) (hb : InBounds E os oe ns ne)
    (hc : myersDiff E recHook os oe ns ne r w = .ok (r', w')) :
    ∃ ops, r' = { r with trace := r.trace ++ ops.map Call.op ++ [.finish] } ∧
      Walk (eqB E) os ns ops oe ne ∧ NearExact none os ns ops := by
  obtain ⟨ops, r1, w1, h1, h2, h3, h4, h5, -⟩ := myersDiff_generic E hbox recHook os oe ns ne r w r' w' ho hn hb hc
  have he := h1.rec_ext hf h5
  have hf1 : r1.failAt = none := by rw [he.failAt]; exact hf
  unfold Ext at he
  subst he
  simp [recHook, Rec.push, Except.map, hf] at h2
  obtain ⟨rfl, rfl⟩ := h2
  exact ⟨ops, by simp [hf], h3, h4⟩

/-- the same over `NoFinishHook(recording hook)`: the `finish` is swallowed -/
theorem myersDiff_rec_noFinish (E : Env) (hbox : SnakeInBox E) (os oe ns ne : Nat) (r : Rec) (w : World)
    (r' : Rec) (w' : World) (hf : r.failAt = none)
    (ho : os ≤ oe) (hn : ns ≤ ne) (hb : InBounds E os oe ns ne)
    (hc : myersDiff E (noFinishHook recHook) os oe ns ne r w = .ok (r', w')) :
    ∃ ops, r' = { r with trace := r.trace ++ ops.map Call.op } ∧
      Walk (eqB E) os ns ops oe ne ∧ NearExact none os ns ops := by
  obtain ⟨ops, r1, w1, h1, h2, h3, h4, h5, -⟩ :=
    myersDiff_generic E hbox (noFinishHook recHook) os oe ns ne r w r' w' ho hn hb hc
  have he := h1.of_noFinish.rec_ext hf h5
  simp [noFinishHook] at h2
  obtain ⟨rfl, rfl⟩ := h2
  exact ⟨ops, he, h3, h4⟩

end SimilarVerif.MyersG

import SimilarVerif.Model.Common
import SimilarVerif.Lemmas.Utils
/-! # Shift invariance of the raw callback streams (C01, "indices are absolute")

Diffing the sub-ranges `os..oe`, `ns..ne` of an environment `E` is the same computation as diffing
`0..oe-os`, `0..ne-ns` of the environment `E.shift os ns` of the extracted slices: same comparisons,
same probes, same aborts, and the callbacks differ exactly by adding `os` to every old index and `ns`
to every new index (`rawTrace_shift`).

The proof is a simulation between the run on `(E, os+a, oe+a, ns+b, ne+b)` with hook `h` and the run on
`(E.shift a b, os, oe, ns, ne)` with hook `h'`, where `h` called with the shifted call does what `h'`
does with the unshifted one (`HSim`). Functions that do not call a hook are related by equations. -/
namespace SimilarVerif.ShiftP
open SimilarVerif

/-- the environment of the slices `old[a..]`, `new[b..]` -/
def _root_.SimilarVerif.Env.shift (E : Env) (a b : Nat) : Env :=
  { on := fun i j => E.on (i + a) (j + b)
    oo := fun i j => E.oo (i + a) (j + a)
    nn := fun i j => E.nn (i + b) (j + b) }

/-- add `a` to every old index and `b` to every new index (carried ones included) -/
def shiftOp (a b : Nat) : Op → Op
  | .equal o n l => .equal (o + a) (n + b) l
  | .delete o l n => .delete (o + a) l (n + b)
  | .insert o n l => .insert (o + a) (n + b) l
  | .replace o ol n nl => .replace (o + a) ol (n + b) nl

def shiftCall (a b : Nat) : Call → Call
  | .op x => .op (shiftOp a b x)
  | .finish => .finish

def shiftAbort (a b : Nat) : Abort → Abort
  | .hookErr t => .hookErr (t.map (shiftCall a b))
  | e => e

/-- an abort that does not come from a hook -/
def PureErr (e : Abort) : Prop := e = .panic ∨ e = .fuel

/-- a computation that does not call a hook aborts only with `panic`/`fuel` -/
def NoHookErr {α} (x : Res α) : Prop := ∀ e, x = .error e → PureErr e

theorem shiftOp_equal (a b o n l : Nat) : shiftOp a b (.equal o n l) = .equal (o + a) (n + b) l := rfl
theorem shiftOp_delete (a b o l n : Nat) : shiftOp a b (.delete o l n) = .delete (o + a) l (n + b) := rfl
theorem shiftOp_insert (a b o n l : Nat) : shiftOp a b (.insert o n l) = .insert (o + a) (n + b) l := rfl
theorem shiftOp_replace (a b o ol n nl : Nat) : shiftOp a b (.replace o ol n nl) = .replace (o + a) ol (n + b) nl := rfl
theorem shiftCall_op (a b : Nat) (x : Op) : shiftCall a b (.op x) = .op (shiftOp a b x) := rfl
theorem shiftCall_finish (a b : Nat) : shiftCall a b .finish = .finish := rfl

theorem shiftOp_zero (x : Op) : shiftOp 0 0 x = x := by cases x <;> rfl
theorem shiftCall_zero (c : Call) : shiftCall 0 0 c = c := by
  cases c with
  | op x => simp only [shiftCall, shiftOp_zero]
  | finish => rfl

theorem Env.shift_zero (E : Env) : E.shift 0 0 = E := rfl

/-! ## functions that do not call a hook: equations -/

theorem cmp_shift (E : Env) (a b i j : Nat) (w : World) : cmp (E.shift a b) i j w = cmp E (i + a) (j + b) w := rfl

theorem cmp_pure (E : Env) (i j : Nat) (w : World) : NoHookErr (cmp E i j w) := by
  intro e h; unfold cmp at h; split at h
  · cases h; exact Or.inl rfl
  · cases h

theorem cplGo_shift (E : Env) (a b os ns : Nat) : ∀ (fuel i : Nat) (w : World),
    cplGo E (os + a) (ns + b) fuel i w = cplGo (E.shift a b) os ns fuel i w := by
  intro fuel
  induction fuel with
  | zero => intro i w; rfl
  | succ fuel ih =>
    intro i w
    simp only [cplGo, cmp_shift, Nat.add_right_comm os a i, Nat.add_right_comm ns b i, ih]

theorem commonPrefixLen_shift (E : Env) (a b os oe ns ne : Nat) (w : World) :
    commonPrefixLen E (os + a) (oe + a) (ns + b) (ne + b) w = commonPrefixLen (E.shift a b) os oe ns ne w := by
  simp only [commonPrefixLen, Nat.add_le_add_iff_right, Nat.add_sub_add_right, cplGo_shift]

theorem cslGo_shift (E : Env) (a b oe ne : Nat) : ∀ (fuel i : Nat) (w : World), i + fuel ≤ oe → i + fuel ≤ ne →
    cslGo E (oe + a) (ne + b) fuel i w = cslGo (E.shift a b) oe ne fuel i w := by
  intro fuel
  induction fuel with
  | zero => intro i w _ _; rfl
  | succ fuel ih =>
    intro i w h1 h2
    have e1 : oe + a - 1 - i = oe - 1 - i + a := by omega
    have e2 : ne + b - 1 - i = ne - 1 - i + b := by omega
    simp only [cslGo, cmp_shift, e1, e2, ih (i + 1) _ (by omega) (by omega)]

theorem commonSuffixLen_shift (E : Env) (a b os oe ns ne : Nat) (w : World) :
    commonSuffixLen E (os + a) (oe + a) (ns + b) (ne + b) w = commonSuffixLen (E.shift a b) os oe ns ne w := by
  simp only [commonSuffixLen, Nat.add_le_add_iff_right, Nat.add_sub_add_right]
  split
  · rfl
  · exact cslGo_shift E a b oe ne _ 0 w (by omega) (by omega)

/-! ### purity of the hook-free functions -/

theorem NoHookErr.ok {α} (x : α) : NoHookErr (.ok x : Res α) := by intro e h; cases h
theorem NoHookErr.panic {α} : NoHookErr (.error .panic : Res α) := by intro e h; cases h; exact Or.inl rfl
theorem NoHookErr.fuel {α} : NoHookErr (.error .fuel : Res α) := by intro e h; cases h; exact Or.inr rfl

theorem cplGo_pure (E : Env) (os ns fuel i : Nat) (w : World) : NoHookErr (cplGo E os ns fuel i w) := by
  fun_induction cplGo E os ns fuel i w <;> grind [NoHookErr, cmp_pure]

theorem commonPrefixLen_pure (E : Env) (os oe ns ne : Nat) (w : World) : NoHookErr (commonPrefixLen E os oe ns ne w) := by
  unfold commonPrefixLen; split
  · exact .ok _
  · exact cplGo_pure _ _ _ _ _ _

theorem cslGo_pure (E : Env) (oe ne fuel i : Nat) (w : World) : NoHookErr (cslGo E oe ne fuel i w) := by
  fun_induction cslGo E oe ne fuel i w <;> grind [NoHookErr, cmp_pure]

theorem commonSuffixLen_pure (E : Env) (os oe ns ne : Nat) (w : World) : NoHookErr (commonSuffixLen E os oe ns ne w) := by
  unfold commonSuffixLen; split
  · exact .ok _
  · exact cslGo_pure _ _ _ _ _ _

theorem vget_pure (v : V) (off : Nat) (k : Int) : NoHookErr (vget v off k) := by
  intro e h; unfold vget at h; grind [PureErr]

theorem vset_pure (v : V) (off : Nat) (k : Int) (x : Nat) : NoHookErr (vset v off k x) := by
  intro e h; unfold vset at h; grind [PureErr]

theorem startX_pure (v : V) (off : Nat) (d k : Int) : NoHookErr (startX v off d k) := by
  have := vget_pure v off (k+1); have := vget_pure v off (k-1)
  unfold startX; intro e h
  grind [NoHookErr]

/-! ### Myers: the middle snake -/

theorem commonPrefixLen_shift' (E : Env) (a b os oe ns ne x y : Nat) (w : World) :
    commonPrefixLen E (os + a + x) (oe + a) (ns + b + y) (ne + b) w =
      commonPrefixLen (E.shift a b) (os + x) oe (ns + y) ne w := by
  rw [Nat.add_right_comm os a x, Nat.add_right_comm ns b y, commonPrefixLen_shift]

def shiftPt (a b : Nat) (p : Option (Nat × Nat)) : Option (Nat × Nat) := p.map fun p => (p.1 + a, p.2 + b)

def shiftPass (a b : Nat) : Res (V × Option (Nat × Nat) × World) → Res (V × Option (Nat × Nat) × World)
  | .ok (v, p, w) => .ok (v, shiftPt a b p, w)
  | .error e => .error e

theorem fwdPass_shift (E : Env) (a b os oe ns ne off : Nat) (d delta : Int) (odd : Bool) (vb : V) :
    ∀ (cnt : Nat) (k : Int) (vf : V) (w : World),
    fwdPass E (os + a) (oe + a) (ns + b) (ne + b) off d delta odd vb cnt k vf w =
      shiftPass a b (fwdPass (E.shift a b) os oe ns ne off d delta odd vb cnt k vf w) := by
  intro cnt
  induction cnt with
  | zero => intro k vf w; rfl
  | succ cnt ih =>
    intro k vf w
    unfold fwdPass
    simp only [Nat.add_sub_add_right, commonPrefixLen_shift', ih]
    repeat' split
    all_goals first | rfl | (simp only [shiftPass, shiftPt, Option.map, Nat.add_assoc]; done)

theorem commonSuffixLen_shift' (E : Env) (a b os ns n m x y : Nat) (w : World) :
    commonSuffixLen E (os + a) (os + a + n - x) (ns + b) (ns + b + m - y) w =
      commonSuffixLen (E.shift a b) os (os + n - x) ns (ns + m - y) w := by
  by_cases hx : x < os + n ∧ y < ns + m
  · rw [show os + a + n - x = (os + n - x) + a by omega, show ns + b + m - y = (ns + m - y) + b by omega,
      commonSuffixLen_shift]
  · have h1 : (os + a + n - x ≤ os + a ∨ ns + b + m - y ≤ ns + b) := by omega
    have h2 : (os + n - x ≤ os ∨ ns + m - y ≤ ns) := by omega
    simp only [commonSuffixLen, if_pos h1, if_pos h2]

theorem bwdPass_shift (E : Env) (a b os oe ns ne off : Nat) (d delta : Int) (odd : Bool) (vf : V) :
    ∀ (cnt : Nat) (k : Int) (vb : V) (w : World),
    bwdPass E (os + a) (oe + a) (ns + b) (ne + b) off d delta odd vf cnt k vb w =
      shiftPass a b (bwdPass (E.shift a b) os oe ns ne off d delta odd vf cnt k vb w) := by
  intro cnt
  induction cnt with
  | zero => intro k vb w; rfl
  | succ cnt ih =>
    intro k vb w
    unfold bwdPass
    simp only [Nat.add_sub_add_right, commonSuffixLen_shift', ih]
    repeat' split
    all_goals first | rfl | (simp only [shiftPass, shiftPt, Option.map, Nat.add_assoc]; done) | trace_state


def shiftSnake (a b : Nat) : Res (V × V × Option (Nat × Nat) × World) → Res (V × V × Option (Nat × Nat) × World)
  | .ok (vf, vb, p, w) => .ok (vf, vb, shiftPt a b p, w)
  | .error e => .error e

theorem snakeLoop_shift (E : Env) (a b os oe ns ne off : Nat) (delta : Int) (odd : Bool) :
    ∀ (cnt d : Nat) (vf vb : V) (w : World),
    snakeLoop E (os + a) (oe + a) (ns + b) (ne + b) off delta odd cnt d vf vb w =
      shiftSnake a b (snakeLoop (E.shift a b) os oe ns ne off delta odd cnt d vf vb w) := by
  intro cnt
  induction cnt with
  | zero => intro d vf vb w; rfl
  | succ cnt ih =>
    intro d vf vb w
    unfold snakeLoop
    simp only [fwdPass_shift, bwdPass_shift, ih]
    split
    · rfl
    · cases fwdPass (E.shift a b) os oe ns ne off d delta odd vb (d + 1) d vf _ with
      | error e => rfl
      | ok r =>
        obtain ⟨vf1, p, w1⟩ := r
        cases p with
        | some p => rfl
        | none =>
          simp only [shiftPass, shiftPt, Option.map]
          cases bwdPass (E.shift a b) os oe ns ne off d delta odd vf1 (d + 1) d vb w1 with
          | error e => rfl
          | ok r =>
            obtain ⟨vb1, p, w2⟩ := r
            cases p <;> rfl

theorem findMiddleSnake_shift (E : Env) (a b os oe ns ne off : Nat) (vf vb : V) (w : World) :
    findMiddleSnake E (os + a) (oe + a) (ns + b) (ne + b) off vf vb w =
      shiftSnake a b (findMiddleSnake (E.shift a b) os oe ns ne off vf vb w) := by
  unfold findMiddleSnake
  simp only [Nat.add_sub_add_right, snakeLoop_shift]
  repeat' split
  all_goals rfl


theorem fwdPass_pure (E : Env) (os oe ns ne off : Nat) (d delta : Int) (odd : Bool) (vb : V)
    (cnt : Nat) (k : Int) (vf : V) (w : World) :
    NoHookErr (fwdPass E os oe ns ne off d delta odd vb cnt k vf w) := by
  fun_induction fwdPass E os oe ns ne off d delta odd vb cnt k vf w <;>
    grind [NoHookErr, PureErr, startX_pure, vset_pure, vget_pure, commonPrefixLen_pure]


theorem bwdPass_pure (E : Env) (os oe ns ne off : Nat) (d delta : Int) (odd : Bool) (vf : V)
    (cnt : Nat) (k : Int) (vb : V) (w : World) :
    NoHookErr (bwdPass E os oe ns ne off d delta odd vf cnt k vb w) := by
  fun_induction bwdPass E os oe ns ne off d delta odd vf cnt k vb w <;>
    grind [NoHookErr, PureErr, startX_pure, vset_pure, vget_pure, commonSuffixLen_pure]

theorem snakeLoop_pure (E : Env) (os oe ns ne off : Nat) (delta : Int) (odd : Bool)
    (cnt d : Nat) (vf vb : V) (w : World) :
    NoHookErr (snakeLoop E os oe ns ne off delta odd cnt d vf vb w) := by
  fun_induction snakeLoop E os oe ns ne off delta odd cnt d vf vb w <;>
    grind [NoHookErr, PureErr, fwdPass_pure, bwdPass_pure]

theorem findMiddleSnake_pure (E : Env) (os oe ns ne off : Nat) (vf vb : V) (w : World) :
    NoHookErr (findMiddleSnake E os oe ns ne off vf vb w) := by
  intro e h
  unfold findMiddleSnake at h
  grind [NoHookErr, PureErr, vset_pure, snakeLoop_pure]


/-! ### LCS: the table -/

theorem tableRow_shift (E : Env) (a b os ns i : Nat) : ∀ (cnt : Nat) (t : Table) (w : World),
    tableRow E (os + a) (ns + b) i cnt t w = tableRow (E.shift a b) os ns i cnt t w := by
  intro cnt
  induction cnt with
  | zero => intro t w; rfl
  | succ j ih =>
    intro t w
    simp only [tableRow, cmp_shift, Nat.add_right_comm os a j, Nat.add_right_comm ns b i, ih]

theorem tableRows_shift (E : Env) (a b os ns ol : Nat) : ∀ (cnt : Nat) (t : Table) (w : World),
    tableRows E (os + a) (ns + b) ol cnt t w = tableRows (E.shift a b) os ns ol cnt t w := by
  intro cnt
  induction cnt with
  | zero => intro t w; rfl
  | succ i ih => intro t w; simp only [tableRows, tableRow_shift, ih]

theorem makeTable_shift (E : Env) (a b os oe ns ne : Nat) (w : World) :
    makeTable E (os + a) (oe + a) (ns + b) (ne + b) w = makeTable (E.shift a b) os oe ns ne w := by
  simp only [makeTable, Nat.add_sub_add_right, tableRows_shift]

theorem tableRow_pure (E : Env) (os ns i cnt : Nat) (t : Table) (w : World) : NoHookErr (tableRow E os ns i cnt t w) := by
  fun_induction tableRow E os ns i cnt t w <;> grind [NoHookErr, cmp_pure]

theorem tableRows_pure (E : Env) (os ns ol cnt : Nat) (t : Table) (w : World) : NoHookErr (tableRows E os ns ol cnt t w) := by
  fun_induction tableRows E os ns ol cnt t w <;> grind [NoHookErr, tableRow_pure]

theorem makeTable_pure (E : Env) (os oe ns ne : Nat) (w : World) : NoHookErr (makeTable E os oe ns ne w) :=
  tableRows_pure _ _ _ _ _ _ _

/-! ### Patience: `unique`, `Env.sub`, the scan -/

theorem countEq_shift (eq : Nat → Nat → Option Bool) (a i s : Nat) : ∀ len : Nat,
    countEq eq (i + a) (s + a) len = countEq (fun i j => eq (i + a) (j + a)) i s len := by
  intro len
  induction len with
  | zero => rfl
  | succ len ih => simp only [countEq, ih, Nat.add_right_comm s a len]

theorem uniqueGo_shift (eq : Nat → Nat → Option Bool) (a s e : Nat) : ∀ cnt i : Nat,
    uniqueGo eq (s + a) (e + a) cnt (i + a) =
      (uniqueGo (fun i j => eq (i + a) (j + a)) s e cnt i).map (List.map (· + a)) := by
  intro cnt
  induction cnt with
  | zero => intro i; rfl
  | succ cnt ih =>
    intro i
    simp only [uniqueGo, Nat.add_sub_add_right, countEq_shift, Nat.add_right_comm i a 1, ih]
    cases countEq (fun i j => eq (i + a) (j + a)) i s (e - s) with
    | none => rfl
    | some c =>
      cases uniqueGo (fun i j => eq (i + a) (j + a)) s e cnt (i + 1) with
      | none => rfl
      | some rest => by_cases hc : (c == 1) = true <;> simp [hc]

theorem unique_shift (eq : Nat → Nat → Option Bool) (a s e : Nat) :
    unique eq (s + a) (e + a) = (unique (fun i j => eq (i + a) (j + a)) s e).map (List.map (· + a)) := by
  simp only [unique, Nat.add_sub_add_right, uniqueGo_shift]

theorem sub_shift (E : Env) (a b : Nat) (uo un : Array Nat) :
    E.sub (uo.map (· + a)) (un.map (· + b)) = (E.shift a b).sub uo un := by
  simp only [Env.sub, Env.shift, Array.getElem?_map]
  congr 1
  · funext i j; cases uo[i]? <;> cases un[j]? <;> rfl
  · funext i j; cases uo[i]? <;> cases uo[j]? <;> rfl
  · funext i j; cases un[i]? <;> cases un[j]? <;> rfl

def shiftScan (a b : Nat) : Res (Nat × Nat × World) → Res (Nat × Nat × World)
  | .ok (oc, nc, w) => .ok (oc + a, nc + b, w)
  | .error e => .error e

theorem patScan_shift (E : Env) (a b A B : Nat) : ∀ (fuel oc nc : Nat) (w : World),
    patScan E (A + a) (B + b) fuel (oc + a) (nc + b) w = shiftScan a b (patScan (E.shift a b) A B fuel oc nc w) := by
  intro fuel
  induction fuel with
  | zero =>
    intro oc nc w
    simp only [patScan, Nat.add_lt_add_iff_right]
    split <;> rfl
  | succ fuel ih =>
    intro oc nc w
    simp only [patScan, Nat.add_lt_add_iff_right, cmp_shift, Nat.add_right_comm oc a 1, Nat.add_right_comm nc b 1, ih]
    split
    · cases cmp E (oc + a) (nc + b) w with
      | error e => rfl
      | ok r => obtain ⟨bb, w1⟩ := r; cases bb <;> rfl
    · rfl

theorem patScan_pure (E : Env) (A B fuel oc nc : Nat) (w : World) : NoHookErr (patScan E A B fuel oc nc w) := by
  fun_induction patScan E A B fuel oc nc w <;> grind [NoHookErr, PureErr, cmp_pure]

/-! ## simulation of the hook-generic functions -/

/-- relation between the aborts of the two runs; aborts that do not come from a hook are the same -/
structure ERel where
  rel : Abort → Abort → Prop
  pure : ∀ e, PureErr e → rel e e

/-- both runs abort (with related aborts) or both return (with related results) -/
def Both {α β} (ER : ERel) (R : α → β → Prop) (x : Res α) (y : Res β) : Prop :=
  (∃ e e', x = .error e ∧ y = .error e' ∧ ER.rel e e') ∨ (∃ u v, x = .ok u ∧ y = .ok v ∧ R u v)

/-- states related, everything else (world, `V` arrays, cursors) equal -/
def RW {σ τ γ} (RS : σ → τ → Prop) (x : σ × γ) (y : τ × γ) : Prop := RS x.1 y.1 ∧ x.2 = y.2

/-- cursors equal, states related, world equal -/
def RW3 {σ τ α β γ} (RS : σ → τ → Prop) (x : α × β × σ × γ) (y : α × β × τ × γ) : Prop :=
  x.1 = y.1 ∧ x.2.1 = y.2.1 ∧ RS x.2.2.1 y.2.2.1 ∧ x.2.2.2 = y.2.2.2

def shiftP (a b : Nat) (p : PState) : PState := { oc := p.oc + a, nc := p.nc + b }

/-- Patience cursors shifted, states related, world equal -/
def RWP {σ τ γ} (a b : Nat) (RS : σ → τ → Prop) (x : PState × σ × γ) (y : PState × τ × γ) : Prop :=
  x.1 = shiftP a b y.1 ∧ RS x.2.1 y.2.1 ∧ x.2.2 = y.2.2

/-- adapter state equal, states related, world equal -/
def RW2 {σ τ α γ} (RS : σ → τ → Prop) (x : α × σ × γ) (y : α × τ × γ) : Prop :=
  x.1 = y.1 ∧ RS x.2.1 y.2.1 ∧ x.2.2 = y.2.2

/-- adapter state equal, inner states related -/
def RPair {σ τ α} (RS : σ → τ → Prop) (x : α × σ) (y : α × τ) : Prop := x.1 = y.1 ∧ RS x.2 y.2

/-- Patience cursors shifted, inner states related -/
def RPS {σ τ} (a b : Nat) (RS : σ → τ → Prop) (x : PState × σ) (y : PState × τ) : Prop :=
  x.1 = shiftP a b y.1 ∧ RS x.2 y.2

/-- `h` given the shifted call does what `g` does given the call -/
def HSim {σ τ} (a b : Nat) (ER : ERel) (RS : σ → τ → Prop) (h : Hook σ) (g : Hook τ) : Prop :=
  ∀ c s t w, RS s t → Both ER (RW RS) (h.call (shiftCall a b c) s w) (g.call c t w)

theorem Both.err {α β} {ER : ERel} {R : α → β → Prop} {e e' : Abort} (h : ER.rel e e') :
    Both ER R (.error e) (.error e') := Or.inl ⟨e, e', rfl, rfl, h⟩
theorem Both.ok {α β} {ER : ERel} {R : α → β → Prop} {u : α} {v : β} (h : R u v) :
    Both ER R (.ok u) (.ok v) := Or.inr ⟨u, v, rfl, rfl, h⟩

theorem pure_cases {α} {x : Res α} (hp : NoHookErr x) : (∃ e, x = .error e ∧ PureErr e) ∨ (∃ u, x = .ok u) := by
  cases x with
  | error e => exact Or.inl ⟨e, rfl, hp e rfl⟩
  | ok u => exact Or.inr ⟨u, rfl⟩

section Sim
variable {σ τ : Type} {a b : Nat} {ER : ERel} {RS : σ → τ → Prop} {h : Hook σ} {g : Hook τ}

theorem emit_sim (H : HSim a b ER RS h g) (x : Op) {s t} (hR : RS s t) (w : World) :
    Both ER (RW RS) (emit h (shiftOp a b x) s w) (emit g x t w) := H (.op x) s t w hR

theorem optEmit_sim (H : HSim a b ER RS h g) (c : Prop) [Decidable c] (x : Op) {s t} (hR : RS s t) (w : World) :
    Both ER (RW RS) (if c then emit h (shiftOp a b x) s w else .ok (s, w)) (if c then emit g x t w else .ok (t, w)) := by
  by_cases hc : c
  · rw [if_pos hc, if_pos hc]; exact emit_sim H x hR w
  · rw [if_neg hc, if_neg hc]; exact Both.ok ⟨hR, rfl⟩

/-- case split on a hook-free step occurring in both runs -/
syntax "pstep " term " with " Lean.Parser.Tactic.rcasesPatLo : tactic
macro_rules
  | `(tactic| pstep $hp with $pat) =>
    `(tactic| (rcases pure_cases $hp with ⟨e, hx, he⟩ | ⟨u, hx⟩
               · simp only [hx]; exact Both.err (ERel.pure _ e he)
               rcases u with $pat
               simp only [hx]))

/-- case split on a pair of related hook steps -/
syntax "hstep " term " with " Lean.Parser.Tactic.rcasesPatLo ", " Lean.Parser.Tactic.rcasesPatLo ", " Lean.Parser.Tactic.rcasesPatLo : tactic
macro_rules
  | `(tactic| hstep $hq with $p1, $p2, $p3) =>
    `(tactic| (have hb := $hq
               try simp only [shiftOp_equal, shiftOp_delete, shiftOp_insert, shiftOp_replace, shiftCall_op,
                 shiftCall_finish] at hb
               rcases hb with ⟨e, e', hx, hy, he⟩ | ⟨u, v, hx, hy, hr⟩
               · simp only [hx, hy]; exact Both.err he
               rcases u with $p1
               rcases v with $p2
               simp only [RW, RW2, RW3, RWP, RPair, RPS, Prod.mk.injEq] at hr
               rcases hr with $p3
               simp only [hx, hy]))

theorem sfx_sim (H : HSim a b ER RS h g) (c : Prop) [Decidable c] (x : Op) {s t} (hR : RS s t) (w : World) (vf vb : V) :
    Both ER (RW RS)
      (if c then (match emit h (shiftOp a b x) s w with
                  | .error e => .error e
                  | .ok (s, w) => .ok (s, vf, vb, w)) else .ok (s, vf, vb, w))
      (if c then (match emit g x t w with
                  | .error e => .error e
                  | .ok (s, w) => .ok (s, vf, vb, w)) else .ok (t, vf, vb, w)) := by
  by_cases hc : c
  · simp only [if_pos hc]
    hstep (emit_sim H x hR w) with ⟨s2, w4⟩, ⟨t2, _⟩, ⟨hR2, rfl⟩
    exact Both.ok ⟨hR2, rfl⟩
  · simp only [if_neg hc]; exact Both.ok ⟨hR, rfl⟩

theorem conquer_sim (H : HSim a b ER RS h g) (E : Env) (off : Nat) :
    ∀ (fuel os oe ns ne : Nat) (vf vb : V) (s : σ) (t : τ) (w : World), RS s t →
    Both ER (RW RS) (conquer E h off fuel (os + a) (oe + a) (ns + b) (ne + b) vf vb s w)
      (conquer (E.shift a b) g off fuel os oe ns ne vf vb t w) := by
  intro fuel
  induction fuel with
  | zero => intro os oe ns ne vf vb s t w _; exact Both.err (ER.pure _ (Or.inr rfl))
  | succ fuel ih =>
    intro os oe ns ne vf vb s t w hR
    unfold conquer
    rw [commonPrefixLen_shift]
    pstep (commonPrefixLen_pure (E.shift a b) os oe ns ne w) with ⟨p, w1⟩
    hstep (optEmit_sim H (0 < p) (.equal os ns p) hR w1) with ⟨s1, w2⟩, ⟨t1, _⟩, ⟨hR1, rfl⟩
    rw [Nat.add_right_comm os a p, Nat.add_right_comm ns b p, commonSuffixLen_shift]
    have hsl : ∀ sl w3, commonSuffixLen (E.shift a b) (os + p) oe (ns + p) ne w2 = .ok (sl, w3) → sl ≤ oe ∧ sl ≤ ne :=
      fun _ _ h => by have := commonSuffixLen_spec h; omega
    pstep (commonSuffixLen_pure (E.shift a b) (os + p) oe (ns + p) ne w2) with ⟨sl, w3⟩
    have hb := hsl _ _ (by assumption)
    rw [show oe + a - sl = oe - sl + a by omega, show ne + b - sl = ne - sl + b by omega]
    simp only [Nat.add_le_add_iff_right, Nat.add_sub_add_right]
    by_cases c1 : (decide (oe - sl ≤ os + p) && decide (ne - sl ≤ ns + p)) = true
    · simp only [if_pos c1]
      exact sfx_sim H _ (.equal (oe - sl) (ne - sl) sl) hR1 _ _ _
    simp only [if_neg c1]
    by_cases c2 : ne - sl ≤ ns + p
    · simp only [if_pos c2]
      hstep (emit_sim H (.delete (os + p) (oe - sl - (os + p)) (ns + p)) hR1 w3) with ⟨s2, w4⟩, ⟨t2, _⟩, ⟨hR2, rfl⟩
      exact sfx_sim H _ (.equal (oe - sl) (ne - sl) sl) hR2 _ _ _
    simp only [if_neg c2]
    by_cases c3 : oe - sl ≤ os + p
    · simp only [if_pos c3]
      hstep (emit_sim H (.insert (os + p) (ns + p) (ne - sl - (ns + p))) hR1 w3) with ⟨s2, w4⟩, ⟨t2, _⟩, ⟨hR2, rfl⟩
      exact sfx_sim H _ (.equal (oe - sl) (ne - sl) sl) hR2 _ _ _
    simp only [if_neg c3]
    rw [findMiddleSnake_shift]
    pstep (findMiddleSnake_pure (E.shift a b) (os + p) (oe - sl) (ns + p) (ne - sl) off vf vb w3) with ⟨vf1, vb1, pt, w4⟩
    rcases pt with _ | ⟨x, y⟩ <;> simp only [shiftSnake, shiftPt, Option.map]
    · hstep (emit_sim H (.delete (os + p) (oe - sl - (os + p)) (ns + p)) hR1 w4) with ⟨s2, w5⟩, ⟨t2, _⟩, ⟨hR2, rfl⟩
      hstep (emit_sim H (.insert (os + p) (ns + p) (ne - sl - (ns + p))) hR2 w5) with ⟨s3, w6⟩, ⟨t3, _⟩, ⟨hR3, rfl⟩
      exact sfx_sim H _ (.equal (oe - sl) (ne - sl) sl) hR3 _ _ _
    · hstep (ih (os + p) x (ns + p) y vf1 vb1 s1 t1 w4 hR1) with ⟨s2, vf2, vb2, w5⟩, ⟨t2, _, _, _⟩, ⟨hR2, rfl, rfl, rfl⟩
      hstep (ih x (oe - sl) y (ne - sl) vf2 vb2 s2 t2 w5 hR2) with ⟨s3, vf3, vb3, w6⟩, ⟨t3, _, _, _⟩, ⟨hR3, rfl, rfl, rfl⟩
      exact sfx_sim H _ (.equal (oe - sl) (ne - sl) sl) hR3 _ _ _

theorem finish_sim (H : HSim a b ER RS h g) {s t} (hR : RS s t) (w : World) :
    Both ER (RW RS) (h.call .finish s w) (g.call .finish t w) := H .finish s t w hR

theorem myersDiff_sim (H : HSim a b ER RS h g) (E : Env) (os oe ns ne : Nat) {s : σ} {t : τ} (hR : RS s t) (w : World) :
    Both ER (RW RS) (myersDiff E h (os + a) (oe + a) (ns + b) (ne + b) s w)
      (myersDiff (E.shift a b) g os oe ns ne t w) := by
  unfold myersDiff
  simp only [Nat.add_sub_add_right]
  hstep (conquer_sim H E (maxD (oe - os) (ne - ns)) (oe - os + (ne - ns) + 2) os oe ns ne
    (Array.replicate (2 * maxD (oe - os) (ne - ns)) 0) (Array.replicate (2 * maxD (oe - os) (ne - ns)) 0) s t w hR)
    with ⟨s1, vf1, vb1, w1⟩, ⟨t1, _, _, _⟩, ⟨hR1, rfl, rfl, rfl⟩
  exact finish_sim H hR1 w1

/-! ### LCS -/

theorem lcsWalk_sim (H : HSim a b ER RS h g) (E : Env) (tb : Table) (o0 n0 ol nl : Nat) :
    ∀ (fuel oi ni : Nat) (s : σ) (t : τ) (w : World), RS s t →
    Both ER (RW3 RS) (lcsWalk E h tb (o0 + a) (n0 + b) ol nl fuel oi ni s w)
      (lcsWalk (E.shift a b) g tb o0 n0 ol nl fuel oi ni t w) := by
  intro fuel
  induction fuel with
  | zero =>
    intro oi ni s t w hR
    unfold lcsWalk
    by_cases c : (decide (ni < nl) && decide (oi < ol)) = true
    · simp only [if_pos c]; exact Both.err (ER.pure _ (Or.inr rfl))
    · simp only [if_neg c]; exact Both.ok ⟨rfl, rfl, hR, rfl⟩
  | succ fuel ih =>
    intro oi ni s t w hR
    unfold lcsWalk
    by_cases c : (decide (ni < nl) && decide (oi < ol)) = true
    · simp only [if_pos c]
      rw [Nat.add_right_comm o0 a oi, Nat.add_right_comm n0 b ni, ← cmp_shift E a b]
      pstep (cmp_pure (E.shift a b) (o0 + oi) (n0 + ni) w) with ⟨bb, w1⟩
      cases bb
      · by_cases c2 : tb.get ni (oi + 1) ≥ tb.get (ni + 1) oi
        · simp only [if_pos c2]
          hstep (emit_sim H (.delete (o0 + oi) 1 (n0 + ni)) hR w1) with ⟨s1, w2⟩, ⟨t1, _⟩, ⟨hR1, rfl⟩
          exact ih _ _ _ _ _ hR1
        · simp only [if_neg c2]
          hstep (emit_sim H (.insert (o0 + oi) (n0 + ni) 1) hR w1) with ⟨s1, w2⟩, ⟨t1, _⟩, ⟨hR1, rfl⟩
          exact ih _ _ _ _ _ hR1
      · hstep (emit_sim H (.equal (o0 + oi) (n0 + ni) 1) hR w1) with ⟨s1, w2⟩, ⟨t1, _⟩, ⟨hR1, rfl⟩
        exact ih _ _ _ _ _ hR1
    · simp only [if_neg c]; exact Both.ok ⟨rfl, rfl, hR, rfl⟩

set_option hygiene false in
/-- the part of `lcsDiff` after the walk, from cursors `oi`, `ni` -/
local macro "lcs_tail " oi:term:max ni:term:max hR:term:max w:term:max : tactic => `(tactic| (
  by_cases d1 : $oi < oe - os - p - sl
  · simp only [if_pos d1]
    hstep (emit_sim H (.delete (os + p + $oi) (oe - os - p - sl - $oi) (ns + p + $ni)) $hR $w) with ⟨s3, w6⟩, ⟨t3, _⟩, ⟨hR3, rfl⟩
    hstep (optEmit_sim H ($ni < ne - ns - p - sl)
      (.insert (os + p + (oe - os - p - sl)) (ns + p + $ni) (ne - ns - p - sl - $ni)) hR3 w6) with ⟨s4, w7⟩, ⟨t4, _⟩, ⟨hR4, rfl⟩
    hstep (optEmit_sim H (0 < sl) (.equal (os + (oe - os - p - sl) + p) (ns + (ne - ns - p - sl) + p) sl) hR4 w7)
      with ⟨s5, w8⟩, ⟨t5, _⟩, ⟨hR5, rfl⟩
    exact finish_sim H hR5 w8
  · simp only [if_neg d1]
    hstep (optEmit_sim H ($ni < ne - ns - p - sl)
      (.insert (os + p + $oi) (ns + p + $ni) (ne - ns - p - sl - $ni)) $hR $w) with ⟨s4, w7⟩, ⟨t4, _⟩, ⟨hR4, rfl⟩
    hstep (optEmit_sim H (0 < sl) (.equal (os + (oe - os - p - sl) + p) (ns + (ne - ns - p - sl) + p) sl) hR4 w7)
      with ⟨s5, w8⟩, ⟨t5, _⟩, ⟨hR5, rfl⟩
    exact finish_sim H hR5 w8))

theorem lcsDiff_sim (H : HSim a b ER RS h g) (E : Env) (os oe ns ne : Nat) {s : σ} {t : τ} (hR : RS s t) (w : World) :
    Both ER (RW RS) (lcsDiff E h (os + a) (oe + a) (ns + b) (ne + b) s w)
      (lcsDiff (E.shift a b) g os oe ns ne t w) := by
  have ea : ∀ x y, x + a + y = x + y + a := fun x y => Nat.add_right_comm x a y
  have eb : ∀ x y, x + b + y = x + y + b := fun x y => Nat.add_right_comm x b y
  unfold lcsDiff
  simp only [Nat.add_le_add_iff_right, Nat.add_sub_add_right]
  by_cases c1 : ne ≤ ns
  · simp only [if_pos c1]
    by_cases c2 : oe ≤ os
    · simp only [if_pos c2]; exact finish_sim H hR w
    · simp only [if_neg c2]
      hstep (emit_sim H (.delete os (oe - os) ns) hR w) with ⟨s1, w1⟩, ⟨t1, _⟩, ⟨hR1, rfl⟩
      exact finish_sim H hR1 w1
  simp only [if_neg c1]
  by_cases c2 : oe ≤ os
  · simp only [if_pos c2]
    hstep (emit_sim H (.insert os ns (ne - ns)) hR w) with ⟨s1, w1⟩, ⟨t1, _⟩, ⟨hR1, rfl⟩
    exact finish_sim H hR1 w1
  simp only [if_neg c2]
  rw [commonPrefixLen_shift]
  pstep (commonPrefixLen_pure (E.shift a b) os oe ns ne w) with ⟨p, w1⟩
  simp only [ea, eb]
  rw [commonSuffixLen_shift]
  have hsl : ∀ sl w3, commonSuffixLen (E.shift a b) (os + p) oe (ns + p) ne w1 = .ok (sl, w3) → sl ≤ oe ∧ sl ≤ ne :=
    fun _ _ h => by have := commonSuffixLen_spec h; omega
  pstep (commonSuffixLen_pure (E.shift a b) (os + p) oe (ns + p) ne w1) with ⟨sl, w2⟩
  have hb := hsl _ _ (by assumption)
  by_cases c3 : (p == oe - os && oe - os == ne - ns) = true
  · simp only [if_pos c3]
    hstep (emit_sim H (.equal os ns (oe - os)) hR w2) with ⟨s1, w3⟩, ⟨t1, _⟩, ⟨hR1, rfl⟩
    exact finish_sim H hR1 w3
  simp only [if_neg c3]
  rw [show oe + a - sl = oe - sl + a by omega, show ne + b - sl = ne - sl + b by omega, makeTable_shift]
  pstep (makeTable_pure (E.shift a b) (os + p) (oe - sl) (ns + p) (ne - sl) w2) with ⟨mt, w3⟩
  hstep (optEmit_sim H (0 < p) (.equal os ns p) hR w3) with ⟨s1, w4⟩, ⟨t1, _⟩, ⟨hR1, rfl⟩
  rcases mt with _ | tb
  · simp only []
    lcs_tail 0 0 hR1 w4
  · simp only []
    hstep (lcsWalk_sim H E tb (os + p) (ns + p) (oe - os - p - sl) (ne - ns - p - sl)
      (oe - os - p - sl + (ne - ns - p - sl)) 0 0 s1 t1 w4 hR1) with ⟨oi, ni, s2, w5⟩, ⟨_, _, t2, _⟩, ⟨rfl, rfl, hR2, rfl⟩
    lcs_tail oi ni hR2 w5

/-! ### Patience -/

theorem HSim.noFinish (H : HSim a b ER RS h g) : HSim a b ER RS (noFinishHook h) (noFinishHook g) := by
  intro c s t w hR
  cases c with
  | finish => exact Both.ok ⟨hR, rfl⟩
  | op x => exact H (.op x) s t w hR

theorem patAnchor_sim (H : HSim a b ER RS h g) (E : Env) (uo un : Array Nat) (i j : Nat) (p : PState)
    {s : σ} {t : τ} (hR : RS s t) (w : World) :
    Both ER (RWP a b RS) (patAnchor E h (uo.map (· + a)) (un.map (· + b)) i j (shiftP a b p) s w)
      (patAnchor (E.shift a b) g uo un i j p t w) := by
  unfold patAnchor
  simp only [Array.getElem?_map]
  rcases uo[i]? with _ | A <;> rcases un[j]? with _ | B <;> simp only [Option.map] <;>
    try exact Both.err (ER.pure _ (Or.inl rfl))
  simp only [shiftP, Nat.add_sub_add_right, patScan_shift]
  pstep (patScan_pure (E.shift a b) A B (min (A - p.oc) (B - p.nc)) p.oc p.nc w) with ⟨oc, nc, w1⟩
  simp only [shiftScan, Nat.add_lt_add_iff_right, Nat.add_sub_add_right]
  hstep (optEmit_sim H (p.oc < oc) (.equal p.oc p.nc (oc - p.oc)) hR w1) with ⟨s1, w2⟩, ⟨t1, _⟩, ⟨hR1, rfl⟩
  hstep (myersDiff_sim H.noFinish E oc A nc B hR1 w2) with ⟨s2, w3⟩, ⟨t2, _⟩, ⟨hR2, rfl⟩
  exact Both.ok ⟨rfl, hR2, rfl⟩

theorem patEqual_sim (H : HSim a b ER RS h g) (E : Env) (uo un : Array Nat) :
    ∀ (len i j : Nat) (p : PState) (s : σ) (t : τ) (w : World), RS s t →
    Both ER (RWP a b RS) (patEqual E h (uo.map (· + a)) (un.map (· + b)) len i j (shiftP a b p) s w)
      (patEqual (E.shift a b) g uo un len i j p t w) := by
  intro len
  induction len with
  | zero => intro i j p s t w hR; exact Both.ok ⟨rfl, hR, rfl⟩
  | succ len ih =>
    intro i j p s t w hR
    unfold patEqual
    hstep (patAnchor_sim H E uo un i j p hR w) with ⟨p1, s1, w1⟩, ⟨p2, t1, _⟩, ⟨rfl, hR1, rfl⟩
    exact ih _ _ _ _ _ _ hR1

/-- the two hooks do the same given the same call -/
def HSim0 {σ τ} (ER : ERel) (RS : σ → τ → Prop) (h : Hook σ) (g : Hook τ) : Prop :=
  ∀ c s t w, RS s t → Both ER (RW RS) (h.call c s w) (g.call c t w)

theorem HSim0.toHSim (H : HSim0 ER RS h g) : HSim 0 0 ER RS h g := by
  intro c s t w hR; rw [shiftCall_zero]; exact H c s t w hR

theorem myersDiff_sim0 (H : HSim0 ER RS h g) (E : Env) (os oe ns ne : Nat) {s : σ} {t : τ} (hR : RS s t) (w : World) :
    Both ER (RW RS) (myersDiff E h os oe ns ne s w) (myersDiff E g os oe ns ne t w) :=
  myersDiff_sim H.toHSim E os oe ns ne hR w

theorem patienceHook_sim (H : HSim a b ER RS h g) (E : Env) (uo un : Array Nat) (oe ne : Nat) :
    HSim0 ER (RPS a b RS) (patienceHook E h (uo.map (· + a)) (un.map (· + b)) (oe + a) (ne + b))
      (patienceHook (E.shift a b) g uo un oe ne) := by
  rintro c ⟨_, s⟩ ⟨p, t⟩ w ⟨hp, hR⟩
  simp only at hp hR
  subst hp
  cases c with
  | finish =>
    simp only [patienceHook, shiftP]
    hstep (myersDiff_sim H E p.oc oe p.nc ne hR w) with ⟨s1, w1⟩, ⟨t1, _⟩, ⟨hR1, rfl⟩
    exact Both.ok ⟨⟨rfl, hR1⟩, rfl⟩
  | op x =>
    cases x with
    | equal o n len =>
      simp only [patienceHook]
      hstep (patEqual_sim H E uo un len o n p s t w hR) with ⟨p1, s1, w1⟩, ⟨p2, t1, _⟩, ⟨rfl, hR1, rfl⟩
      exact Both.ok ⟨⟨rfl, hR1⟩, rfl⟩
    | _ => exact Both.ok ⟨⟨rfl, hR⟩, rfl⟩

theorem rFlushEq_sim (H : HSim0 ER RS h g) (r : RState) {s : σ} {t : τ} (hR : RS s t) (w : World) :
    Both ER (RW2 RS) (rFlushEq h r s w) (rFlushEq g r t w) := by
  unfold rFlushEq
  rcases r.eq with _ | ⟨o, n, l⟩ <;> simp only []
  · exact Both.ok ⟨rfl, hR, rfl⟩
  · hstep (H (.op (.equal o n l)) s t w hR) with ⟨s1, w1⟩, ⟨t1, _⟩, ⟨hR1, rfl⟩
    exact Both.ok ⟨rfl, hR1, rfl⟩

theorem rFlushDelIns_sim (H : HSim0 ER RS h g) (r : RState) {s : σ} {t : τ} (hR : RS s t) (w : World) :
    Both ER (RW2 RS) (rFlushDelIns h r s w) (rFlushDelIns g r t w) := by
  unfold rFlushDelIns
  rcases r.del with _ | ⟨o, ol, n⟩ <;> rcases r.ins with _ | ⟨o', n', nl⟩ <;> simp only []
  · exact Both.ok ⟨rfl, hR, rfl⟩
  · hstep (H (.op (.insert o' n' nl)) s t w hR) with ⟨s1, w1⟩, ⟨t1, _⟩, ⟨hR1, rfl⟩
    exact Both.ok ⟨rfl, hR1, rfl⟩
  · hstep (H (.op (.delete o ol n)) s t w hR) with ⟨s1, w1⟩, ⟨t1, _⟩, ⟨hR1, rfl⟩
    exact Both.ok ⟨rfl, hR1, rfl⟩
  · hstep (H (.op (.replace o ol n' nl)) s t w hR) with ⟨s1, w1⟩, ⟨t1, _⟩, ⟨hR1, rfl⟩
    exact Both.ok ⟨rfl, hR1, rfl⟩

theorem replaceHook_sim (H : HSim0 ER RS h g) : HSim0 ER (RPair RS) (replaceHook h) (replaceHook g) := by
  rintro c ⟨r, s⟩ ⟨_, t⟩ w ⟨hr, hR⟩
  simp only at hr hR
  subst hr
  cases c with
  | finish =>
    simp only [replaceHook]
    hstep (rFlushEq_sim H r hR w) with ⟨r1, s1, w1⟩, ⟨_, t1, _⟩, ⟨rfl, hR1, rfl⟩
    hstep (rFlushDelIns_sim H r1 hR1 w1) with ⟨r2, s2, w2⟩, ⟨_, t2, _⟩, ⟨rfl, hR2, rfl⟩
    hstep (H .finish s2 t2 w2 hR2) with ⟨s3, w3⟩, ⟨t3, _⟩, ⟨hR3, rfl⟩
    exact Both.ok ⟨⟨rfl, hR3⟩, rfl⟩
  | op x =>
    cases x with
    | equal o n l =>
      simp only [replaceHook]
      hstep (rFlushDelIns_sim H r hR w) with ⟨r1, s1, w1⟩, ⟨_, t1, _⟩, ⟨rfl, hR1, rfl⟩
      rcases r1.eq with _ | ⟨eo, en, el⟩ <;> exact Both.ok ⟨⟨rfl, hR1⟩, rfl⟩
    | delete o l n =>
      simp only [replaceHook]
      hstep (rFlushEq_sim H r hR w) with ⟨r1, s1, w1⟩, ⟨_, t1, _⟩, ⟨rfl, hR1, rfl⟩
      rcases r1.del with _ | ⟨d_o, dl, dn⟩ <;> simp only []
      · exact Both.ok ⟨⟨rfl, hR1⟩, rfl⟩
      · split
        · exact Both.ok ⟨⟨rfl, hR1⟩, rfl⟩
        · exact Both.err (ER.pure _ (Or.inl rfl))
    | insert o n l =>
      simp only [replaceHook]
      hstep (rFlushEq_sim H r hR w) with ⟨r1, s1, w1⟩, ⟨_, t1, _⟩, ⟨rfl, hR1, rfl⟩
      rcases r1.ins with _ | ⟨io, i_n, il⟩ <;> simp only []
      · exact Both.ok ⟨⟨rfl, hR1⟩, rfl⟩
      · split
        · exact Both.ok ⟨⟨rfl, hR1⟩, rfl⟩
        · exact Both.err (ER.pure _ (Or.inl rfl))
    | replace o ol n nl =>
      simp only [replaceHook]
      hstep (rFlushEq_sim H r hR w) with ⟨r1, s1, w1⟩, ⟨_, t1, _⟩, ⟨rfl, hR1, rfl⟩
      hstep (H (.op (.replace o ol n nl)) s1 t1 w1 hR1) with ⟨s2, w2⟩, ⟨t2, _⟩, ⟨hR2, rfl⟩
      exact Both.ok ⟨⟨rfl, hR2⟩, rfl⟩

theorem patienceDiff_sim (H : HSim a b ER RS h g) (E : Env) (os oe ns ne : Nat) {s : σ} {t : τ} (hR : RS s t)
    (w : World) :
    Both ER (RW RS) (patienceDiff E h (os + a) (oe + a) (ns + b) (ne + b) s w)
      (patienceDiff (E.shift a b) g os oe ns ne t w) := by
  unfold patienceDiff
  have e1 : unique E.oo (os + a) (oe + a) = (unique (E.shift a b).oo os oe).map (List.map (· + a)) :=
    unique_shift E.oo a os oe
  have e2 : unique E.nn (ns + b) (ne + b) = (unique (E.shift a b).nn ns ne).map (List.map (· + b)) :=
    unique_shift E.nn b ns ne
  rw [e1, e2]
  rcases unique (E.shift a b).oo os oe with _ | uo <;> rcases unique (E.shift a b).nn ns ne with _ | un <;>
    simp only [Option.map] <;> try exact Both.err (ER.pure _ (Or.inl rfl))
  simp only [← List.map_toArray, Array.size_map, sub_shift]
  hstep (myersDiff_sim0 (replaceHook_sim (patienceHook_sim H E uo.toArray un.toArray oe ne))
      ((E.shift a b).sub uo.toArray un.toArray) 0 uo.toArray.size 0 un.toArray.size
      (s := ({}, ({ oc := os + a, nc := ns + b }, s))) (t := ({}, ({ oc := os, nc := ns }, t))) ⟨rfl, rfl, hR⟩ w)
    with ⟨⟨r1, p1, s1⟩, w1⟩, ⟨⟨_, p2, t1⟩, _⟩, ⟨⟨rfl, rfl, hR1⟩, rfl⟩
  exact Both.ok ⟨hR1, rfl⟩

theorem diffWith_sim (H : HSim a b ER RS h g) (alg : Alg) (E : Env) (os oe ns ne : Nat) {s : σ} {t : τ} (hR : RS s t)
    (w : World) :
    Both ER (RW RS) (diffWith alg E h (os + a) (oe + a) (ns + b) (ne + b) s w)
      (diffWith alg (E.shift a b) g os oe ns ne t w) := by
  cases alg
  · exact myersDiff_sim H E os oe ns ne hR w
  · exact patienceDiff_sim H E os oe ns ne hR w
  · exact lcsDiff_sim H E os oe ns ne hR w

end Sim


/-! ## the recording hook -/

def shiftRec (a b : Nat) (r : Rec) : Rec := { r with trace := r.trace.map (shiftCall a b) }

theorem rec_hsim_of {a b : Nat} {ER : ERel} {RS : Rec → Rec → Prop}
    (hn : ∀ r r', RS r r' → r.nativeReplace = r'.nativeReplace)
    (hpush : ∀ c r r', RS r r' → Both ER RS (r.push (shiftCall a b c)) (r'.push c)) :
    HSim a b ER RS recHook recHook := by
  have key : ∀ c r r' (w : World), RS r r' →
      Both ER (RW RS) ((r.push (shiftCall a b c)).map (·, w)) ((r'.push c).map (·, w)) := by
    intro c r r' w hR
    rcases hpush c r r' hR with ⟨e, e', hx, hy, he⟩ | ⟨u, v, hx, hy, hr⟩
    · rw [hx, hy]; exact Both.err he
    · rw [hx, hy]; exact Both.ok ⟨hr, rfl⟩
  intro c r r' w hR
  cases c with
  | finish => exact key .finish r r' w hR
  | op x =>
    cases x with
    | replace o ol n nl =>
      simp only [recHook, shiftCall_op, shiftOp_replace, ← hn r r' hR]
      by_cases c1 : r.nativeReplace = true
      · simp only [if_pos c1]; exact key (.op (.replace o ol n nl)) r r' w hR
      · simp only [if_neg c1]
        rcases hpush (.op (.delete o ol n)) r r' hR with ⟨e, e', hx, hy, he⟩ | ⟨u, v, hx, hy, hr⟩ <;>
          simp only [shiftCall_op, shiftOp_delete] at hx <;> simp only [hx, hy]
        · exact Both.err he
        · exact key (.op (.insert o n nl)) u v w hr
    | equal o n l => exact key (.op (.equal o n l)) r r' w hR
    | delete o l n => exact key (.op (.delete o l n)) r r' w hR
    | insert o n l => exact key (.op (.insert o n l)) r r' w hR


/-- aborts related by shifting the recorded calls -/
def ERshift (a b : Nat) : ERel where
  rel e e' := e = shiftAbort a b e'
  pure e he := by rcases he with rfl | rfl <;> rfl

/-- aborts equal and not from a hook -/
def ERpure : ERel where
  rel e e' := e = e' ∧ PureErr e
  pure _ he := ⟨rfl, he⟩

theorem rec_hsim (a b : Nat) : HSim a b (ERshift a b) (fun r r' => r = shiftRec a b r') recHook recHook := by
  refine rec_hsim_of (fun r r' hR => by rw [hR]; rfl) ?_
  rintro c _ r' rfl
  unfold Rec.push
  simp only [shiftRec, List.length_map]
  split
  · exact Both.err (by simp [ERshift, shiftAbort, List.map_append])
  · exact Both.ok (by simp [List.map_append])

theorem rec_hsim_none (a b : Nat) :
    HSim a b ERpure (fun r r' => r = shiftRec a b r' ∧ r'.failAt = none) recHook recHook := by
  refine rec_hsim_of (fun r r' hR => by rw [hR.1]; rfl) ?_
  rintro c _ r' ⟨rfl, h0⟩
  unfold Rec.push
  simp only [shiftRec, List.length_map, h0]
  exact Both.ok (by simp [List.map_append])


/-! ## main theorems -/

/-- shift a whole outcome: the record (or the calls carried by a hook abort) and nothing else -/
def shiftRes (a b : Nat) : Res (Rec × World) → Res (Rec × World)
  | .ok (r, w) => .ok (shiftRec a b r, w)
  | .error e => .error (shiftAbort a b e)

/-- **Shift invariance, general form** (any record state, failing hooks included): the run on the
ranges moved by `(a, b)` is the run on the environment of the slices, with every recorded call (also
those carried by a hook abort) shifted; same final world, same `panic`/`fuel` aborts. -/
theorem rawTrace_shift_add (alg : Alg) (E : Env) (a b os oe ns ne : Nat) (w : World) (r : Rec) :
    rawTrace alg E (os + a) (oe + a) (ns + b) (ne + b) w (shiftRec a b r) =
      shiftRes a b (rawTrace alg (E.shift a b) os oe ns ne w r) := by
  unfold rawTrace
  rcases diffWith_sim (rec_hsim a b) alg E os oe ns ne (s := shiftRec a b r) (t := r) rfl w with
    ⟨e, e', hx, hy, he⟩ | ⟨⟨r1, w1⟩, ⟨r2, w2⟩, hx, hy, hr, hw⟩
  · rw [hx, hy]; simp only [shiftRes]; exact congrArg _ he
  · simp only at hr hw
    subst hr hw
    rw [hx, hy]; rfl

/-- **Shift invariance of the raw streams** (C01: "diffing a sub-range equals diffing the extracted
slices shifted by the range starts"), as an equation between the two runs: same result or same abort,
same final world (comparisons, probes, clock), traces related by `shiftCall os ns`. -/
theorem rawTrace_shift (alg : Alg) (E : Env) (os oe ns ne : Nat) (w : World) (ho : os ≤ oe) (hn : ns ≤ ne) :
    rawTrace alg E os oe ns ne w =
      (rawTrace alg (E.shift os ns) 0 (oe - os) 0 (ne - ns) w).map
        (fun (r, w') => ({ r with trace := r.trace.map (shiftCall os ns) }, w')) := by
  unfold rawTrace
  have h := diffWith_sim (rec_hsim_none os ns) alg E 0 (oe - os) 0 (ne - ns) (s := {}) (t := {}) ⟨rfl, rfl⟩ w
  rw [Nat.zero_add, Nat.zero_add, Nat.sub_add_cancel ho, Nat.sub_add_cancel hn] at h
  rcases h with ⟨e, e', hx, hy, he, _⟩ | ⟨⟨r1, w1⟩, ⟨r2, w2⟩, hx, hy, ⟨hr, _⟩, hw⟩
  · rw [hx, hy, he]; rfl
  · simp only at hr hw
    subst hr hw
    rw [hx, hy]; rfl

end SimilarVerif.ShiftP

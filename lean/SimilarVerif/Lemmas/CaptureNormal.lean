import SimilarVerif.Lemmas.CaptureMinimal
import SimilarVerif.Lemmas.MyersTotal
import SimilarVerif.Lemmas.PatienceTotal
/-! # C09 end to end: every captured diff is in normal form

`captureDiff` is total for in-bounds ranges (Lemmas/CaptureMinimal.lean).  Clauses 1-3 of C09 follow from
`Alternating` and `Walk` of the captured ops.  Clause 4 (a pure insertion followed by an equal op sits at its
latest position) is known for the op list LEAVING the clean-up (`CompactT.cleanup_insert_latest`); to carry it
through `Replace` one more invariant of the insert pass is needed: in the cleaned list **every Insert is
followed by an Equal or by nothing** (`NI`, proved below along the lines of `GT` in Lemmas/CompactTotal.lean).
Then `Replace` never merges a lone insertion that is followed by an equal op, and the pair survives verbatim
(up to the length of the equal op). -/
set_option linter.unusedSimpArgs false
set_option linter.unusedVariables false
namespace SimilarVerif.CaptureNF
open SimilarVerif Spec SimilarVerif.CompactP SimilarVerif.CompactT

/-! ## an Insert of the cleaned list is followed by an Equal or by nothing -/

/-- for all adjacent pairs lying inside the first `k` ops: an Insert is followed by an Equal -/
def NI (k : Nat) (ops : List Op) : Prop :=
  ∀ i x y, i + 1 < k → ops[i]? = some x → ops[i+1]? = some y → x.tag = .insert → y.tag = .equal

theorem NI.mono {k k' : Nat} {ops : List Op} (h : NI k ops) (hk : k' ≤ k) : NI k' ops :=
  fun i x y hi h1 h2 hx => h i x y (by omega) h1 h2 hx

theorem NI_pre_congr {k : Nat} {pre r r' : List Op} (hk : k ≤ pre.length)
    (h : NI k (pre ++ r)) : NI k (pre ++ r') := by
  intro i x y hi h1 h2 hx
  rw [get_in_pre (by omega)] at h1 h2
  exact h i x y hi (by rw [get_in_pre (by omega)]; exact h1) (by rw [get_in_pre (by omega)]; exact h2) hx

/-- the op at position `pre.length` may change as long as an Equal stays an Equal -/
theorem NI_last_congr {pre r r' : List Op} {a a' : Op}
    (ha : a.tag = .equal → a'.tag = .equal)
    (h : NI (pre.length + 1) (pre ++ a :: r)) : NI (pre.length + 1) (pre ++ a' :: r') := by
  intro i x y hi h1 h2 hx
  rw [get_in_pre (by omega)] at h1
  by_cases hi2 : i + 1 < pre.length
  · rw [get_in_pre hi2] at h2
    exact h i x y hi (by rw [get_in_pre (by omega)]; exact h1) (by rw [get_in_pre hi2]; exact h2) hx
  · have : i + 1 = pre.length := by omega
    rw [this, get_pre0] at h2
    simp at h2
    subst h2
    exact ha (h i x a hi (by rw [get_in_pre (by omega)]; exact h1) (by rw [this, get_pre0]; simp) hx)

theorem NI_snoc_notins {pre r0 r : List Op} {a : Op} (h : NI pre.length (pre ++ r0))
    (hp : PNI (pre ++ r0) pre.length) : NI (pre.length + 1) (pre ++ a :: r) := by
  intro i x y hi h1 h2 hx
  rw [get_in_pre (by omega)] at h1
  by_cases hi2 : i + 1 < pre.length
  · rw [get_in_pre hi2] at h2
    exact h i x y hi2 (by rw [get_in_pre (by omega)]; exact h1) (by rw [get_in_pre hi2]; exact h2) hx
  · have : i = pre.length - 1 := by omega
    exact absurd hx (hp x (by omega) (by rw [← this, get_in_pre (by omega)]; exact h1))

local macro "idx" : tactic =>
  `(tactic| simp only [get_pre, set_pre, erase_pre, insert_pre, get_pre0, set_pre0, erase_pre0, insert_pre0,
      Nat.add_sub_cancel, Nat.add_assoc, Nat.reduceAdd, List.set_cons_zero, List.set_cons_succ,
      List.eraseIdx_cons_zero, List.eraseIdx_cons_succ, List.insertIdx_zero, List.insertIdx_succ_cons,
      List.getElem?_cons_zero, List.getElem?_cons_succ] at *)

theorem shiftUp_ni (E : Env) (repair : Bool) (fuel : Nat) (ops : List Op) (pointer : Nat) (w : World) :
    ∀ ops' p' w', shiftUp E repair fuel ops pointer w = .ok (ops', p', w') → NI pointer ops → TI ops pointer →
      NI p' ops' ∧ PNI ops' p' ∧ TI ops' p' := by
  fun_induction shiftUp E repair fuel ops pointer w
  case case7 fuel ops p w hp prev h1 this h2 ht1 ht2 sl w1 hs hsl ops1 hx this' prev' h3 h4 ops2 hemp ih
     | case8 fuel ops p w hp prev h1 this h2 ht1 ht2 sl w1 hs hsl ops1 hx this' prev' h3 h4 ops2 hemp ih =>
    intro ops' p' w' h hG hT
    refine ih _ _ _ h ?_ ?_ <;> clear ih h
    all_goals
      obtain ⟨pre, post, rfl, rfl⟩ := window_up hp h1 h2
      clear h1 h2 hs hT
      obtain ⟨po, pn, pl, rfl⟩ := tag_equal ht1
      obtain ⟨co, cn, l, rfl⟩ := tag_insert ht2
      simp only [ops2]
      simp only [shrinkLeft_equal_ok, shiftLeft_insert_ok] at h3 h4
      obtain ⟨h3a, rfl⟩ := h3
      obtain ⟨h4a, h4b, rfl⟩ := h4
      simp only [Op.oStart, Op.oEnd, Op.nStart, Op.nEnd, Op.oLen, Op.nLen] at *
      idx
      have hx' : ∃ rest, ops1 = pre ++ Op.equal po pn pl :: Op.insert co cn l :: rest := by
        split at hx
        · rename_i o2 n2 l2 hnext
          obtain ⟨post', rfl⟩ := head_eq hnext
          simp only [map_ok, growLeft_equal_ok] at hx
          obtain ⟨_, ⟨hg1, hg2, rfl⟩, rfl⟩ := hx
          exact ⟨_, by idx; rfl⟩
        · split at hx
          · simp only [Op.tag] at hx; cases hx; exact ⟨_, rfl⟩
          · cases hx
      obtain ⟨rest, rfl⟩ := hx'
      clear hx
      idx
      first
        | exact NI_pre_congr (Nat.le_refl _) (hG.mono (Nat.le_succ _))
        | exact NI_last_congr (by intro _; rfl) hG
        | exact ⟨co - sl, cn - sl, l, by simp [get_pre, get_pre0]⟩
  case case14 fuel ops p w hp prev h1 this h2 ht1 ht2 sl w1 hs hsl ops1 hx this' prev' h3 h4 ops2 hemp ih
     | case15 fuel ops p w hp prev h1 this h2 ht1 ht2 sl w1 hs hsl ops1 hx this' prev' h3 h4 ops2 hemp ih =>
    rw [nEnd_delete ht2] at hs; have := csl_empty hs; omega
  case case10 fuel ops p w hp prev h1 this h2 ht1 ht2 sl w1 hs hsl hemp ih
     | case17 fuel ops p w hp prev h1 this h2 ht1 ht2 sl w1 hs hsl hemp ih =>
    intro ops' p' w' h hG hT
    refine ih _ _ _ h ?_ ?_ <;> clear ih h
    all_goals
      obtain ⟨pre, post, rfl, rfl⟩ := window_up hp h1 h2
      have ht := TI_tag hT h2
      obtain ⟨co, cn, l, rfl⟩ := tag_insert ht
      idx
      first
        | exact NI_pre_congr (Nat.le_refl _) (hG.mono (Nat.le_succ _))
        | exact ⟨co, cn, l, by simp [get_pre, get_pre0]⟩
  case case11 fuel ops p w hp prev h1 this h2 ht1 ht2 sl w1 hs hsl hemp
     | case18 fuel ops p w hp prev h1 this h2 ht1 ht2 sl w1 hs hsl hemp =>
    intro ops' p' w' h hG hT
    cases h
    refine ⟨hG, ?_, hT⟩
    intro x _ hx
    rw [h1] at hx; cases hx; rw [ht1]; simp
  case case19 fuel ops p w hp prev h1 this h2 ht1 ht2 x y hxy ih =>
    intro ops' p' w' h hG hT
    refine ih _ _ _ h ?_ ?_ <;> clear ih h
    all_goals
      obtain ⟨pre, post, rfl, rfl⟩ := window_up hp h1 h2
      obtain ⟨co, cn, l, hx1⟩ := swap_fst_insert repair ht1 ht2
      rw [hxy] at hx1; simp only at hx1; subst hx1
      idx
      first
        | exact NI_pre_congr (Nat.le_refl _) (hG.mono (Nat.le_succ _))
        | exact ⟨co, cn, l, by simp [get_pre, get_pre0]⟩
  case case20 fuel ops p w hp prev h1 this h2 ht1 ht2 x y hxy ih =>
    intro ops' p' w' h hG hT
    have ht := TI_tag hT h2
    rw [ht] at ht2; cases ht2
  case case21 fuel ops p w hp prev h1 this h2 ht1 ht2 ih =>
    intro ops' p' w' h hG hT
    refine ih _ _ _ h ?_ ?_ <;> clear ih h
    all_goals
      obtain ⟨pre, post, rfl, rfl⟩ := window_up hp h1 h2
      obtain ⟨po, pn, pl, rfl⟩ := tag_insert ht1
      obtain ⟨co, cn, l, rfl⟩ := tag_insert ht2
      idx
      first
        | exact NI_pre_congr (Nat.le_refl _) (hG.mono (Nat.le_succ _))
        | exact ⟨po, pn, pl + l, by simp [get_pre, get_pre0, Op.growRight, Op.addLen, Op.nLen]⟩
  case case22 fuel ops p w hp prev h1 this h2 ht1 ht2 ih =>
    intro ops' p' w' h hG hT
    have ht := TI_tag hT h2
    rw [ht] at ht2; cases ht2
  case case2 =>
    intro ops' p' w' h hG hT
    cases h
    refine ⟨hG, ?_, hT⟩
    intro x hx _; exact absurd rfl hx
  case case3 fuel ops p w hp h0 =>
    intro ops' p' w' h hG hT
    cases h
    refine ⟨hG, ?_, hT⟩
    intro x _ hx; rw [h0] at hx; cases hx
  all_goals (intro _ _ _ h; cases h)

/-- where `shift_diff_ops_down` stops -/
theorem NI_stop {pre r0 nexts : List Op} {this : Op} (h : NI pre.length (pre ++ r0))
    (hp : PNI (pre ++ r0) pre.length)
    (hn : this.tag = .insert → ∀ y, nexts[0]? = some y → y.tag = .equal) :
    NI (pre.length + 2) (pre ++ this :: nexts) := by
  intro i x y hi h1 h2 hx
  by_cases hi2 : i + 1 < pre.length
  · rw [get_in_pre (by omega)] at h1
    rw [get_in_pre hi2] at h2
    exact h i x y hi2 (by rw [get_in_pre (by omega)]; exact h1) (by rw [get_in_pre hi2]; exact h2) hx
  · by_cases hi3 : i + 1 = pre.length
    · rw [get_in_pre (by omega)] at h1
      have : i = pre.length - 1 := by omega
      exact absurd hx (hp x (by omega) (by rw [← this, get_in_pre (by omega)]; exact h1))
    · have : i = pre.length := by omega
      subst this
      rw [get_pre0] at h1
      rw [get_pre] at h2
      simp at h1; subst h1
      exact hn hx y (by simpa using h2)

theorem shiftDown_ni (E : Env) (repair : Bool) (fuel : Nat) (ops : List Op) (pointer : Nat) (w : World) :
    ∀ ops' p' w', shiftDown E repair fuel ops pointer w = .ok (ops', p', w') → InsPos ops' →
      NI pointer ops → PNI ops pointer → TI ops pointer → NI (p' + 2) ops' := by
  fun_induction shiftDown E repair fuel ops pointer w
  case case6 fuel ops p w next h1 this h2 ht1 ht2 pl w1 hs hpl prevIsEq ops1 p1 hx t nx hnx ht nx' h3 ops2 hemp ih
     | case7 fuel ops p w next h1 this h2 ht1 ht2 pl w1 hs hpl prevIsEq ops1 p1 hx t nx hnx ht nx' h3 ops2 hemp ih =>
    intro ops' p' w' h hpos hG hP hT
    refine ih _ _ _ h hpos ?_ ?_ ?_ <;> clear ih h hpos
    all_goals
      obtain ⟨pre, post, rfl, rfl⟩ := window_down h1 h2
      clear h1 h2 hs hT
      obtain ⟨o2, n2, l2, rfl⟩ := tag_equal ht1
      obtain ⟨co, cn, l, rfl⟩ := tag_insert ht2
      simp only [ops2]
      simp only [prevIsEq] at hx
      simp only [Op.oStart, Op.oEnd, Op.nStart, Op.nEnd, Op.oLen, Op.nLen] at *
      have hx' : (ops1 = pre ++ .equal o2 cn pl :: .insert co cn l :: .equal o2 n2 l2 :: post ∧ p1 = pre.length + 1) ∨
          (∃ pre' qo qn ql, pre = pre' ++ [.equal qo qn ql] ∧
            ops1 = pre' ++ .equal qo qn (ql + pl) :: .insert co cn l :: .equal o2 n2 l2 :: post ∧ p1 = pre.length) := by
        by_cases hpe : pre.length = 0
        · left
          simp only [hpe, if_true, Bool.false_eq_true, if_false] at hx
          obtain rfl := List.eq_nil_of_length_eq_zero hpe
          cases hx
          exact ⟨rfl, rfl⟩
        · simp only [hpe, if_false] at hx
          cases hq : (pre ++ Op.insert co cn l :: Op.equal o2 n2 l2 :: post)[pre.length - 1]? with
          | none =>
            simp only [hq, Bool.false_eq_true, if_false] at hx
            left
            cases hx
            exact ⟨by simp only [insert_pre0, List.insertIdx_zero], rfl⟩
          | some q =>
            obtain ⟨pre', rfl⟩ := last_of_pre hpe hq
            simp only [hq] at hx
            cases q
            · right
              simp only [if_true] at hx
              cases hx
              refine ⟨pre', _, _, _, rfl, ?_, rfl⟩
              simp [Op.growRight, Op.addLen]
            all_goals
              left
              simp only [Bool.false_eq_true, if_false] at hx
              cases hx
              exact ⟨by simp only [insert_pre0, List.insertIdx_zero], rfl⟩
      clear hx
      rcases hx' with ⟨rfl, rfl⟩ | ⟨pre', qo, qn, ql, rfl, rfl, rfl⟩
      · simp only [opAt_ok_iff] at ht hnx
        idx
        cases ht
        cases hnx
        simp only [shrinkRight_equal_ok] at h3
        obtain ⟨h3a, rfl⟩ := h3
        first
          | exact NI_snoc_notins hG hP
          | exact PNI_succ (by simp [Op.tag])
          | exact ⟨co + pl, cn + pl, l, by simp [get_pre, Op.shiftRight]⟩
      · simp only [opAt_ok_iff, List.length_append, List.length_cons, List.length_nil, List.append_assoc,
          List.cons_append, List.nil_append] at ht hnx hG ⊢
        idx
        cases ht
        cases hnx
        simp only [shrinkRight_equal_ok] at h3
        obtain ⟨h3a, rfl⟩ := h3
        first
          | exact NI_last_congr (by intro _; rfl) hG
          | exact PNI_succ (by simp [Op.tag])
          | exact ⟨co + pl, cn + pl, l, by simp [get_pre, Op.shiftRight]⟩
  case case13 fuel ops p w next h1 this h2 ht1 ht2 pl w1 hs hpl prevIsEq ops1 p1 hx t nx hnx ht nx' h3 ops2 hemp ih
     | case14 fuel ops p w next h1 this h2 ht1 ht2 pl w1 hs hpl prevIsEq ops1 p1 hx t nx hnx ht nx' h3 ops2 hemp ih =>
    rw [nEnd_delete ht2] at hs; have := cpl_empty hs; omega
  case case9 fuel ops p w next h1 this h2 ht1 ht2 pl w1 hs hpl hemp ih
     | case16 fuel ops p w next h1 this h2 ht1 ht2 pl w1 hs hpl hemp ih =>
    intro ops' p' w' h hpos hG hP hT
    refine ih _ _ _ h hpos ?_ ?_ ?_ <;> clear ih h hpos
    all_goals
      obtain ⟨pre, post, rfl, rfl⟩ := window_down h1 h2
      have ht := TI_tag hT h2
      obtain ⟨co, cn, l, rfl⟩ := tag_insert ht
      idx
      first
        | exact NI_pre_congr (Nat.le_refl _) hG
        | exact PNI_pre_congr hP
        | exact ⟨co, cn, l, by simp [get_pre0]⟩
  case case2 fuel ops p w h0 =>
    intro ops' p' w' h hpos hG hP hT
    cases h
    obtain ⟨co, cn, l, hT⟩ := hT
    obtain ⟨pre, post, rfl, rfl⟩ := split_at hT
    refine NI_stop hG hP ?_
    intro _ y hn
    rw [get_pre] at h0; simp at h0; subst h0; simp at hn
  case case10 fuel ops p w next h1 this h2 ht1 ht2 pl w1 hs hpl hemp =>
    intro ops' p' w' h hpos hG hP hT
    cases h
    obtain ⟨pre, post, rfl, rfl⟩ := window_down h1 h2
    obtain ⟨o2, n2, l2, rfl⟩ := tag_equal ht1
    obtain ⟨co, cn, l, rfl⟩ := tag_insert ht2
    refine NI_stop hG hP ?_
    intro _ y hn
    simp at hn
    subst hn
    rfl
  case case17 fuel ops p w next h1 this h2 ht1 ht2 pl w1 hs hpl hemp =>
    intro ops' p' w' h hpos hG hP hT
    have ht := TI_tag hT h2
    rw [ht] at ht2; cases ht2
  case case18 fuel ops p w next h1 this h2 ht1 ht2 x y hxy ih =>
    intro ops' p' w' h hpos hG hP hT
    refine ih _ _ _ h hpos ?_ ?_ ?_ <;> clear ih h hpos
    all_goals
      obtain ⟨pre, post, rfl, rfl⟩ := window_down h1 h2
      obtain ⟨hxd, co, cn, l, hyi⟩ := swap_down repair ht2 ht1
      rw [hxy] at hxd hyi; simp only at hxd hyi; subst hyi
      idx
      first
        | exact NI_snoc_notins hG hP
        | exact PNI_succ (by rw [hxd]; simp)
        | exact ⟨co, cn, l, by simp [get_pre]⟩
  case case19 fuel ops p w next h1 this h2 ht1 ht2 x y hxy ih =>
    intro ops' p' w' h hpos hG hP hT
    have ht := TI_tag hT h2
    rw [ht] at ht2; cases ht2
  case case20 fuel ops p w next h1 this h2 ht1 ht2 ih =>
    intro ops' p' w' h hpos hG hP hT
    refine ih _ _ _ h hpos ?_ ?_ ?_ <;> clear ih h hpos
    all_goals
      obtain ⟨pre, post, rfl, rfl⟩ := window_down h1 h2
      obtain ⟨o2, n2, l2, rfl⟩ := tag_insert ht1
      obtain ⟨co, cn, l, rfl⟩ := tag_insert ht2
      idx
      first
        | exact NI_pre_congr (Nat.le_refl _) hG
        | exact PNI_pre_congr hP
        | exact ⟨co, cn, l + l2, by simp [get_pre0, Op.growRight, Op.addLen, Op.nLen]⟩
  case case21 fuel ops p w next h1 this h2 ht1 ht2 ih =>
    intro ops' p' w' h hpos hG hP hT
    have ht := TI_tag hT h2
    rw [ht] at ht2; cases ht2
  all_goals (intro _ _ _ h; cases h)

theorem NI_succ_notins {k : Nat} {ops : List Op} (h : NI (k + 1) ops)
    (hk : ∀ co cn l, ops[k]? ≠ some (.insert co cn l)) : NI (k + 2) ops := by
  intro i x y hi h1 h2 hx
  by_cases hi2 : i + 1 < k + 1
  · exact h i x y hi2 h1 h2 hx
  · have : i = k := by omega
    subst this
    obtain ⟨co, cn, l, rfl⟩ := tag_insert hx
    exact absurd h1 (hk co cn l)

theorem NI_all_of_none {p : Nat} {ops : List Op} (h : NI (p + 1) ops) (hp : ops[p]? = none) :
    ∀ k, NI k ops := by
  intro k i x y _ h1 h2 hx
  have : i + 1 < ops.length := by
    rcases Nat.lt_or_ge (i + 1) ops.length with h | h
    · exact h
    · rw [List.getElem?_eq_none h] at h2; cases h2
  have : ops.length ≤ p := by
    rcases Nat.lt_or_ge p ops.length with h | h
    · rw [List.getElem?_eq_getElem h] at hp; cases hp
    · exact h
  exact h i x y (by omega) h1 h2 hx

theorem insertPass_ni (E : Env) (repair : Bool) (inner fuel : Nat) (ops : List Op) (pointer : Nat) (w : World) :
    ∀ ops' w', cleanupPass E repair .insert inner fuel ops pointer w = .ok (ops', w') →
      ∀ o n o' n', Walk (eqB E) o n ops o' n' → NoReplaceOp ops → NI (pointer + 1) ops → ∀ k, NI k ops' := by
  fun_induction cleanupPass E repair .insert inner fuel ops pointer w
  case case2 fuel ops p w h0 =>
    intro ops' w' h o n o' n' hw hnr hG
    cases h
    exact NI_all_of_none hG h0
  case case5 fuel ops p w op hop htag ops1 p1 w1 hup ops2 p2 w2 hdown ih =>
    intro ops' w' h o n o' n' hw hnr hG
    obtain ⟨a1, -, -⟩ := shiftUp_pres E repair _ _ _ _ _ _ _ hup
    obtain ⟨b1, -, -⟩ := shiftDown_pres E repair _ _ _ _ _ _ _ hdown
    obtain ⟨hw1, hnr1, -⟩ := a1 o n o' n' hw hnr
    obtain ⟨hw2, hnr2, -⟩ := b1 o n o' n' hw1 hnr1
    obtain ⟨co, cn, l, rfl⟩ := tag_insert htag
    obtain ⟨g1, g2, g3⟩ := shiftUp_ni E repair _ _ _ _ _ _ _ hup (hG.mono (Nat.le_succ _)) ⟨co, cn, l, hop⟩
    have g4 := shiftDown_ni E repair _ _ _ _ _ _ _ hdown (walk_insPos _ _ _ _ _ hw2) g1 g2 g3
    exact ih _ _ h o n o' n' hw2 hnr2 g4
  case case6 fuel ops p w op hop htag ih =>
    intro ops' w' h o n o' n' hw hnr hG
    refine ih _ _ h o n o' n' hw hnr (NI_succ_notins hG ?_)
    intro co cn l hc
    rw [hop] at hc; cases hc; exact htag rfl
  all_goals (intro _ _ h; cases h)

/-- **every Insert of the cleaned list is followed by an Equal or by nothing** (index form) -/
theorem cleanup_insert_next_equal (E : Env) (repair : Bool) (ops : List Op) (o n o' n' : Nat) (w : World)
    (ops' : List Op) (w' : World)
    (hnr : NoReplaceOp ops) (hw : Walk (eqB E) o n ops o' n')
    (h : cleanupDiffOps E repair ops w = .ok (ops', w')) :
    ∀ (i : Nat) x y, ops'[i]? = some x → ops'[i + 1]? = some y → x.tag = .insert → y.tag = .equal := by
  unfold cleanupDiffOps at h
  simp only at h
  split at h
  · cases h
  · rename_i ops1 w1 h1
    obtain ⟨a1, -, -⟩ := cleanupPass_pres E repair _ _ _ _ _ _ _ _ h1
    obtain ⟨hw1, hnr1, -⟩ := a1 o n o' n' hw hnr
    have hG : NI (0 + 1) ops1 := fun i _ _ hi _ _ _ => by omega
    have := insertPass_ni E repair _ _ _ _ _ _ _ h o n o' n' hw1 hnr1 hG
    intro i x y h1 h2 hx
    exact this (i + 2) i x y (by omega) h1 h2 hx

/-! ## recursive form of the two facts about the cleaned list -/

/-- what may follow an Insert whose first new item is `cn`: nothing, or an Equal whose first old item differs -/
def NextOK (e : Nat → Nat → Bool) (cn : Nat) : List Op → Prop
  | [] => True
  | .equal eo _ _ :: _ => e eo cn = false
  | _ => False

def InsOK (e : Nat → Nat → Bool) : List Op → Prop
  | [] => True
  | .insert _ cn _ :: cs => NextOK e cn cs ∧ InsOK e cs
  | _ :: cs => InsOK e cs

theorem insOK_of_idx (e : Nat → Nat → Bool) : ∀ (ops : List Op),
    (∀ (i : Nat) x y, ops[i]? = some x → ops[i + 1]? = some y → x.tag = .insert → y.tag = .equal) →
    (∀ (i : Nat) co cn l eo en el, ops[i]? = some (.insert co cn l) → ops[i + 1]? = some (.equal eo en el) →
      e eo cn = false) → InsOK e ops := by
  intro ops
  induction ops with
  | nil => intro _ _; trivial
  | cons c cs ih =>
    intro h1 h2
    have ih' := ih (fun i x y a b => h1 (i + 1) x y (by simpa using a) (by simpa using b))
      (fun i co cn l eo en el a b => h2 (i + 1) co cn l eo en el (by simpa using a) (by simpa using b))
    cases c with
    | insert co cn l =>
      refine ⟨?_, ih'⟩
      cases cs with
      | nil => trivial
      | cons y ys =>
        have ht := h1 0 (.insert co cn l) y (by simp) (by simp) rfl
        obtain ⟨eo, en, el, rfl⟩ := tag_equal ht
        exact h2 0 co cn l eo en el (by simp) (by simp)
    | equal => exact ih'
    | delete => exact ih'
    | replace => exact ih'

/-- the cleaned list in recursive form -/
theorem cleanup_insOK (E : Env) (repair : Bool) (ops : List Op) (o n o' n' : Nat) (w : World)
    (ops' : List Op) (w' : World)
    (hnr : NoReplaceOp ops) (hw : Walk (eqB E) o n ops o' n')
    (h : cleanupDiffOps E repair ops w = .ok (ops', w')) : InsOK (eqB E) ops' :=
  insOK_of_idx _ ops' (cleanup_insert_next_equal E repair ops o n o' n' w ops' w' hnr hw h)
    (cleanup_insert_latest_idx E repair ops o n o' n' w ops' w' hnr hw h)

/-! ## clause 4 through `Replace` -/

/-- clause 4 for a whole list (index form) -/
def Full (E : Env) (l : List Op) : Prop := ∀ k, GT E k l

theorem full_single (E : Env) (y : Op) : Full E ([] ++ [y]) := by
  intro k i co cn l eo en el _ h1 h2
  simp at h2

/-- append one op: the only new adjacent pair is `(y, z)` -/
theorem full_snoc2 {E : Env} {X : List Op} {y z : Op} (h : Full E (X ++ [y]))
    (hz : ∀ co cn l eo en el, y = .insert co cn l → z = .equal eo en el → eqB E eo cn = false) :
    Full E ((X ++ [y]) ++ [z]) := by
  intro k i co cn l eo en el _ h1 h2
  by_cases hi : i + 1 < (X ++ [y]).length
  · rw [get_in_pre (by omega)] at h1
    rw [get_in_pre hi] at h2
    exact h (i + 2) i co cn l eo en el (by omega) h1 h2
  · by_cases hi2 : i + 1 = (X ++ [y]).length
    · rw [get_in_pre (by omega)] at h1
      rw [hi2, get_pre0] at h2
      simp at h2
      have hi3 : i = X.length := by simp at hi2; omega
      rw [hi3, get_pre0] at h1
      simp at h1
      exact hz co cn l eo en el h1 h2
    · have : (X ++ [y] ++ [z]).length ≤ i + 1 := by simp at hi hi2 ⊢; omega
      rw [List.getElem?_eq_none this] at h2
      cases h2

/-- change the last op: fine as long as an Equal keeps its old start -/
theorem full_last {E : Env} {X : List Op} {y y' : Op} (h : Full E (X ++ [y]))
    (hy : ∀ eo en el, y' = .equal eo en el → ∃ en' el', y = .equal eo en' el') : Full E (X ++ [y']) := by
  intro k i co cn l eo en el _ h1 h2
  by_cases hi : i + 1 < X.length
  · rw [get_in_pre (by omega)] at h1
    rw [get_in_pre hi] at h2
    exact h (i + 2) i co cn l eo en el (by omega) (by rw [get_in_pre (by omega)]; exact h1)
      (by rw [get_in_pre hi]; exact h2)
  · by_cases hi2 : i + 1 = X.length
    · rw [get_in_pre (by omega)] at h1
      rw [hi2, get_pre0] at h2
      simp at h2
      obtain ⟨en', el', rfl⟩ := hy eo en el h2
      exact h (i + 2) i co cn l eo en' el' (by omega) (by rw [get_in_pre (by omega)]; exact h1)
        (by rw [hi2, get_pre0]; simp)
    · have : (X ++ [y']).length ≤ i + 1 := by simp; omega
      rw [List.getElem?_eq_none this] at h2
      cases h2

/-- invariant of `Replace` over the recording hook: clause 4 holds for what has been emitted plus the
pending op, and a pending pure insertion is followed by nothing or by an Equal it cannot slide into -/
inductive J (E : Env) : RState → List Op → List Op → Prop
  | init {ops} : InsOK (eqB E) ops → J E {} [] ops
  | eq {out a b c ops} : Full E (out ++ [.equal a b c]) → InsOK (eqB E) ops →
      J E { eq := some (a, b, c) } out ops
  | del {out a b c ops} : Full E (out ++ [.delete a b c]) → InsOK (eqB E) ops →
      J E { del := some (a, b, c) } out ops
  | ins {out a b c ops} : Full E (out ++ [.insert a b c]) → NextOK (eqB E) b ops → InsOK (eqB E) ops →
      J E { ins := some (a, b, c) } out ops
  | both {out a b x y c l ops} : Full E (out ++ [.replace a b c l]) → InsOK (eqB E) ops →
      J E { del := some (a, b, x), ins := some (y, c, l) } out ops

open SimilarVerif.Replace in
theorem step_equal {E : Env} {r : RState} {out ops : List Op} {a b l : Nat} (w : World)
    (h : J E r out (.equal a b l :: ops)) :
    ∃ out2 r2, (replaceHook recHook).call (.op (.equal a b l)) (r, { trace := out.map Call.op }) w
        = .ok ((r2, { trace := out2.map Call.op }), w) ∧ J E r2 out2 ops := by
  cases h with
  | init h1 => exact ⟨[], { eq := some (a, b, l) }, by simp [replaceHook, rFlushEq, rFlushDelIns, recHook_call], .eq (full_single E _) h1⟩
  | eq hf h1 =>
    rename_i a0 b0 l0
    exact ⟨out, { eq := some (a0, b0, l0 + l) }, by simp [replaceHook, rFlushEq, rFlushDelIns, recHook_call],
      .eq (full_last hf (by intro eo en el h; cases h; exact ⟨_, _, rfl⟩)) h1⟩
  | del hf h1 =>
    exact ⟨_, { eq := some (a, b, l) }, by simp [replaceHook, rFlushEq, rFlushDelIns, recHook_call],
      .eq (full_snoc2 hf (by intro _ _ _ _ _ _ h; cases h)) h1⟩
  | ins hf hn h1 =>
    exact ⟨_, { eq := some (a, b, l) }, by simp [replaceHook, rFlushEq, rFlushDelIns, recHook_call],
      .eq (full_snoc2 hf (by intro _ _ _ _ _ _ h h'; cases h; cases h'; exact hn)) h1⟩
  | both hf h1 =>
    exact ⟨_, { eq := some (a, b, l) }, by simp [replaceHook, rFlushEq, rFlushDelIns, recHook_call],
      .eq (full_snoc2 hf (by intro _ _ _ _ _ _ h; cases h)) h1⟩

local macro "run" : tactic =>
  `(tactic| simp [replaceHook, rFlushEq, rFlushDelIns, SimilarVerif.Replace.recHook_call])
local macro "noeq" : tactic => `(tactic| (intro _ _ _ h; cases h))

theorem step_delete {E : Env} {r : RState} {out ops : List Op} {a l x : Nat} (w : World)
    (h : J E r out (.delete a l x :: ops)) (res : (RState × Rec) × World)
    (hc : (replaceHook recHook).call (.op (.delete a l x)) (r, { trace := out.map Call.op }) w = .ok res) :
    ∃ out2 r2, res = ((r2, { trace := out2.map Call.op }), w) ∧ J E r2 out2 ops := by
  cases h with
  | init h1 =>
    refine ⟨[], { del := some (a, l, x) }, ?_, .del (full_single E _) h1⟩
    revert hc; run; exact fun h => h.symm
  | eq hf h1 =>
    refine ⟨_, { del := some (a, l, x) }, ?_, .del (full_snoc2 hf (by intro _ _ _ _ _ _ h; cases h)) h1⟩
    revert hc; run; exact fun h => h.symm
  | del hf h1 =>
    rename_i a0 l0 x0
    by_cases ha : a = a0 + l0
    · refine ⟨out, { del := some (a0, l0 + l, x0) }, ?_, .del (full_last hf (by noeq)) h1⟩
      revert hc; simp [replaceHook, rFlushEq, ha]; exact fun h => h.symm
    · revert hc; simp [replaceHook, rFlushEq, ha]
  | ins hf hn h1 => exact hn.elim
  | both hf h1 =>
    rename_i a0 l0 x0 y0 c0 i0
    by_cases ha : a = a0 + l0
    · refine ⟨out, { del := some (a0, l0 + l, x0), ins := some (y0, c0, i0) }, ?_, .both (full_last hf (by noeq)) h1⟩
      revert hc; simp [replaceHook, rFlushEq, ha]; exact fun h => h.symm
    · revert hc; simp [replaceHook, rFlushEq, ha]

theorem step_insert {E : Env} {r : RState} {out ops : List Op} {y a l : Nat} (w : World)
    (h : J E r out (.insert y a l :: ops)) (res : (RState × Rec) × World)
    (hc : (replaceHook recHook).call (.op (.insert y a l)) (r, { trace := out.map Call.op }) w = .ok res) :
    ∃ out2 r2, res = ((r2, { trace := out2.map Call.op }), w) ∧ J E r2 out2 ops := by
  cases h with
  | init h1 =>
    refine ⟨[], { ins := some (y, a, l) }, ?_, .ins (full_single E _) h1.1 h1.2⟩
    revert hc; run; exact fun h => h.symm
  | eq hf h1 =>
    refine ⟨_, { ins := some (y, a, l) }, ?_, .ins (full_snoc2 hf (by intro _ _ _ _ _ _ h; cases h)) h1.1 h1.2⟩
    revert hc; run; exact fun h => h.symm
  | ins hf hn h1 => exact hn.elim
  | del hf h1 =>
    rename_i a0 l0 x0
    refine ⟨out, { del := some (a0, l0, x0), ins := some (y, a, l) }, ?_, .both (full_last hf (by noeq)) h1.2⟩
    revert hc; run; exact fun h => h.symm
  | both hf h1 =>
    rename_i a0 l0 x0 y0 c0 i0
    by_cases ha : c0 + i0 = a
    · refine ⟨out, { del := some (a0, l0, x0), ins := some (y0, c0, l + i0) }, ?_, .both (full_last hf (by noeq)) h1.2⟩
      revert hc; simp [replaceHook, rFlushEq, ha]; exact fun h => h.symm
    · revert hc; simp [replaceHook, rFlushEq, ha]

theorem step_finish {E : Env} {r : RState} {out : List Op} (w : World) (h : J E r out []) :
    ∃ out2 r2, (replaceHook recHook).call .finish (r, { trace := out.map Call.op }) w
        = .ok ((r2, { trace := out2.map Call.op ++ [.finish] }), w) ∧ Full E out2 := by
  cases h with
  | init => exact ⟨[], {}, by run, fun k i co cn l eo en el _ h1 _ => by simp at h1⟩
  | eq hf => exact ⟨_, {}, by run, hf⟩
  | del hf => exact ⟨_, {}, by run, hf⟩
  | ins hf => exact ⟨_, {}, by run, hf⟩
  | both hf => exact ⟨_, {}, by run, hf⟩

theorem deliver_latest (E : Env) (w : World) : ∀ (ops : List Op) (r : RState) (out : List Op),
    J E r out ops → NoReplaceOp ops → ∀ res,
    deliver (replaceHook recHook) (ops.map Call.op ++ [.finish]) (r, { trace := out.map Call.op }) w = .ok res →
    ∃ out', res.1.2.trace = out'.map Call.op ++ [.finish] ∧ Full E out' := by
  intro ops
  induction ops with
  | nil =>
    intro r out hJ _ res h
    obtain ⟨out2, r2, hc, hf⟩ := step_finish w hJ
    simp only [List.map_nil, List.nil_append, deliver, hc] at h
    cases h
    exact ⟨out2, rfl, hf⟩
  | cons c ops ih =>
    intro r out hJ hnr res h
    simp only [List.map_cons, List.cons_append, deliver] at h
    cases c with
    | replace => exact hnr.elim
    | equal a b l =>
      obtain ⟨out2, r2, hc, hJ2⟩ := step_equal w hJ
      rw [hc] at h
      exact ih r2 out2 hJ2 hnr res h
    | delete a l x =>
      cases hc : (replaceHook recHook).call (.op (.delete a l x)) (r, { trace := out.map Call.op }) w with
      | error e => rw [hc] at h; cases h
      | ok v =>
        obtain ⟨out2, r2, rfl, hJ2⟩ := step_delete w hJ v hc
        rw [hc] at h
        exact ih r2 out2 hJ2 hnr res h
    | insert y a l =>
      cases hc : (replaceHook recHook).call (.op (.insert y a l)) (r, { trace := out.map Call.op }) w with
      | error e => rw [hc] at h; cases h
      | ok v =>
        obtain ⟨out2, r2, rfl, hJ2⟩ := step_insert w hJ v hc
        rw [hc] at h
        exact ih r2 out2 hJ2 hnr res h

/-- **`Replace` keeps clause 4**: if in the input every Insert is followed by nothing or by an Equal whose first
old item differs from the first inserted item, the same holds for every Insert-then-Equal pair of the output -/
theorem replace_latest (E : Env) (ops : List Op) (w : World) (hnr : NoReplaceOp ops) (hi : InsOK (eqB E) ops)
    (res : (RState × Rec) × World) (h : replaceOut ops w = .ok res) :
    ∃ out, res.1.2.trace = out.map Call.op ++ [.finish] ∧
      ∀ pre co cn l eo en el post, out = pre ++ .insert co cn l :: .equal eo en el :: post → eqB E eo cn = false := by
  obtain ⟨out, ht, hf⟩ := deliver_latest E w ops {} [] (.init hi) hnr res (by simpa [replaceOut] using h)
  refine ⟨out, ht, ?_⟩
  intro pre co cn l eo en el post hs
  subst hs
  exact hf (pre.length + 2) pre.length co cn l eo en el (by omega) (by simp [get_pre0]) (by simp [get_pre])

/-- the Patience run additionally compares items of the same side (`unique`) -/
def SameSideBounds (E : Env) (os oe ns ne : Nat) : Prop :=
  (∀ i j, os ≤ i → i < oe → os ≤ j → j < oe → (E.oo i j).isSome) ∧
  (∀ i j, ns ≤ i → i < ne → ns ≤ j → j < ne → (E.nn i j).isSome)

/-- the raw run of every algorithm returns a valid stream for in-bounds ranges (every clock) -/
theorem rawTrace_total (alg : Alg) (E : Env) (os oe ns ne : Nat) (w : World)
    (ho : os ≤ oe) (hn : ns ≤ ne) (hb : InBounds E os oe ns ne)
    (hp : alg = .patience → SameSideBounds E os oe ns ne) :
    ∃ r w1, rawTrace alg E os oe ns ne w = .ok (r, w1) ∧ ValidRaw E os oe ns ne r.trace := by
  cases alg with
  | myers =>
    obtain ⟨r, w', h, hv⟩ := MyersT.myers_valid E os oe ns ne w ho hn hb
    exact ⟨r, w', by simpa [rawTrace, diffWith] using h, hv⟩
  | lcs =>
    obtain ⟨r, w', h, hv⟩ := LcsP.lcs_validRaw E os oe ns ne w ho hn hb
    exact ⟨r, w', by simpa [rawTrace, diffWith] using h, hv⟩
  | patience =>
    obtain ⟨r, w', h, hv⟩ := PatienceT.patience_total E os oe ns ne w ho hn hb (hp rfl).1 (hp rfl).2
    exact ⟨r, w', by simpa [rawTrace, diffWith] using h, hv⟩

/-- alternation implies: two adjacent ops are never both changes (as `C09.alternating_no_adjacent_changes`) -/
theorem alt_no_adjacent_changes : ∀ (l : List Op), Alternating l →
    ∀ pre x y post, l = pre ++ x :: y :: post → ¬ (x.tag ≠ .equal ∧ y.tag ≠ .equal) := by
  intro l
  induction l with
  | nil => intro _ pre x y post h; cases pre <;> simp at h
  | cons a as ih =>
    intro ha pre x y post h
    cases pre with
    | nil =>
      simp at h
      obtain ⟨rfl, rfl⟩ := h
      simp only [Alternating] at ha
      intro ⟨h1, h2⟩
      exact ha.1 (by simp [h1, h2])
    | cons p ps =>
      simp at h
      obtain ⟨rfl, rfl⟩ := h
      cases ps with
      | nil => simp only [List.nil_append, Alternating] at ha; exact ih ha.2 [] x y post rfl
      | cons q qs => simp only [List.cons_append, Alternating] at ha; exact ih ha.2 (q :: qs) x y post rfl

/-- no op of a valid script is empty (as `C09.walk_no_empty`) -/
theorem walk_nonempty (e : Nat → Nat → Bool) : ∀ (ops : List Op) (o n o' n' : Nat), Walk e o n ops o' n' →
    ∀ x ∈ ops, x.isEmpty = false := by
  intro ops
  induction ops with
  | nil => intro _ _ _ _ _ x hx; simp at hx
  | cons c cs ih =>
    intro o n o' n' h x hx
    cases c <;> simp only [Walk] at h <;> simp only [List.mem_cons] at hx <;> rcases hx with rfl | hx
    all_goals first
      | (simp [Op.isEmpty, Op.oLen, Op.nLen]; omega)
      | exact ih _ _ _ _ (by first | exact h.2.2.2.2 | exact h.2.2) x hx

/-- **clause 4 for the captured ops**, whenever the raw run returned a valid script -/
theorem capture_insert_latest (alg : Alg) (E : Env) (repair : Bool) (os oe ns ne : Nat) (w : World)
    (raw : List Op) (w1 : World)
    (hraw : rawTrace alg E os oe ns ne w = .ok ({ trace := raw.map Call.op ++ [.finish] }, w1))
    (hw : Walk (eqB E) os ns raw oe ne) (ops : List Op) (w' : World)
    (hc : captureDiff alg E repair os oe ns ne w = .ok (ops, w')) :
    ∀ pre co cn l eo en el post, ops = pre ++ .insert co cn l :: .equal eo en el :: post → eqB E eo cn = false := by
  rw [CaptureP.capture_factor_gen alg E repair os oe ns ne w raw w1 hraw] at hc
  obtain ⟨-, -, -, c4⟩ := CaptureP.counts_expand raw
  have hwe := CaptureP.walk_expand _ raw _ _ _ _ hw
  split at hc
  · cases hc
  · rename_i ops' w2 hcl
    obtain ⟨a1, -, -, -, a5, -⟩ := CompactP.cleanup_preserves E repair _ os ns oe ne w1 ops' w2 c4 hwe hcl
    have hi := cleanup_insOK E repair _ os ns oe ne w1 ops' w2 c4 hwe hcl
    split at hc
    · cases hc
    · rename_i rs r w3 hro
      obtain ⟨out, ht, hf⟩ := replace_latest E ops' w2 a5 hi _ hro
      simp only at ht
      simp only [Except.ok.injEq, Prod.mk.injEq] at hc
      obtain ⟨rfl, rfl⟩ := hc
      rw [ht, CaptureP.traceOps_eq_opsOf, CaptureP.opsOf_raw]
      exact hf

/-- **C09 end to end**: for every algorithm, both clean-up variants, in-bounds ranges and EVERY world
`capture_diff` returns, and its op list is in normal form: (1) Equal and non-Equal ops strictly alternate,
(2) no op is empty, (3) two adjacent ops are never both changes (a Delete next to an Insert has become one
Replace), (4) a pure insertion followed by an equal op sits at its latest position — its first inserted item
differs from the first item of the equal run. -/
theorem capture_normal_form (alg : Alg) (E : Env) (repair : Bool) (os oe ns ne : Nat) (w : World)
    (ho : os ≤ oe) (hn : ns ≤ ne) (hb : InBounds E os oe ns ne)
    (hp : alg = .patience → SameSideBounds E os oe ns ne) :
    ∃ ops w', captureDiff alg E repair os oe ns ne w = .ok (ops, w') ∧
      Walk (eqB E) os ns ops oe ne ∧
      Alternating ops ∧
      (∀ x ∈ ops, x.isEmpty = false) ∧
      (∀ pre x y post, ops = pre ++ x :: y :: post → ¬ (x.tag ≠ .equal ∧ y.tag ≠ .equal)) ∧
      (∀ pre co cn l eo en el post, ops = pre ++ .insert co cn l :: .equal eo en el :: post →
        eqB E eo cn = false) := by
  obtain ⟨r, w1, hraw, hv⟩ := rawTrace_total alg E os oe ns ne w ho hn hb hp
  obtain ⟨raw, ops, w', ht, hwr, -, hc, hw, -, -, -, ha, -⟩ :=
    CaptureMin.capture_total_of_validRaw alg E repair os oe ns ne w r w1 hraw hv hb
  have hr := CaptureP.raw_rec_eta alg E os oe ns ne w r w1 hraw
  rw [ht] at hr
  rw [hr] at hraw
  exact ⟨ops, w', hc, hw, ha, walk_nonempty _ ops _ _ _ _ hw, alt_no_adjacent_changes ops ha,
    capture_insert_latest alg E repair os oe ns ne w raw w1 hraw hwr ops w' hc⟩

theorem walk_head_ok (e : Nat → Nat → Bool) (x : Op) (xs : List Op) (o n o' n' : Nat) :
    Walk e o n (x :: xs) o' n' →
    ¬ x.isEmpty = true ∧ (match x with | .replace _ ol _ nl => 0 < ol ∧ 0 < nl | _ => True) := by
  intro hw
  cases x <;> simp only [Walk] at hw <;> simp [Op.isEmpty, Op.oLen, Op.nLen] <;> omega

/-- the same as the `Spec.NormalForm` predicate of Spec/Walk.lean -/
theorem normalForm_of (e : Nat → Nat → Bool) : ∀ (ops : List Op) (o n o' n' : Nat), Walk e o n ops o' n' →
    Alternating ops →
    (∀ pre co cn l eo en el post, ops = pre ++ .insert co cn l :: .equal eo en el :: post → e eo cn = false) →
    NormalForm e ops := by
  intro ops
  induction ops with
  | nil => intros; trivial
  | cons x xs ih =>
    intro o n o' n' hw ha h4
    have hx := walk_head_ok e x xs o n o' n' hw
    cases xs with
    | nil => exact hx
    | cons y ys =>
      have hw' : ∃ o1 n1, Walk e o1 n1 (y :: ys) o' n' := by
        cases x <;> simp only [Walk] at hw
        · exact ⟨_, _, hw.2.2.2.2⟩
        · exact ⟨_, _, hw.2.2⟩
        · exact ⟨_, _, hw.2.2⟩
        · exact ⟨_, _, hw.2.2.2.2⟩
      obtain ⟨o1, n1, hw'⟩ := hw'
      simp only [Alternating] at ha
      refine ⟨hx.1, hx.2, ha.1, ?_, ih o1 n1 o' n' hw' ha.2 ?_⟩
      · cases x <;> cases y <;> try trivial
        rename_i co cn l eo en el
        exact h4 [] co cn l eo en el ys rfl
      · intro pre co cn l eo en el post hs
        exact h4 (x :: pre) co cn l eo en el post (by rw [hs]; rfl)

/-- **C09 end to end**, as the `NormalForm` predicate of the specification -/
theorem capture_normalForm (alg : Alg) (E : Env) (repair : Bool) (os oe ns ne : Nat) (w : World)
    (ho : os ≤ oe) (hn : ns ≤ ne) (hb : InBounds E os oe ns ne)
    (hp : alg = .patience → SameSideBounds E os oe ns ne) :
    ∃ ops w', captureDiff alg E repair os oe ns ne w = .ok (ops, w') ∧ Walk (eqB E) os ns ops oe ne ∧
      NormalForm (eqB E) ops := by
  obtain ⟨ops, w', hc, hw, ha, -, -, h4⟩ := capture_normal_form alg E repair os oe ns ne w ho hn hb hp
  exact ⟨ops, w', hc, hw, normalForm_of _ ops _ _ _ _ hw ha h4⟩

end SimilarVerif.CaptureNF

import SimilarVerif.Lemmas.Deadline
import SimilarVerif.Lemmas.HookFail
/-! # C07 for Patience, expiry at ANY probe: the ghost-instrumented run

The model does not record when a probe answered "exceeded".  As in `DeadlineP.conquerG` we re-run the
algorithm with a ghost `Option World` (the world right after the first probe that answered
"exceeded"); because Patience runs Myers inside hook calls, the ghost lives in the HOOK STATE:

* `conquerS E h mk` is `conquer E h` except that, where `find_middle_snake` gave up (`w` before, `w1`
  after), the state is passed through `mk · w w1` before the fallback `delete` is emitted;
* `patAnchorS`, `patEqualS`, `patienceHookS`, `patienceDiffS` are the Patience functions over
  `conquerS` (same text as the model);
* `patienceDiffG E h … s g w` instantiates the state with `σ × Option World` (`liftG h` ignores the
  ghost) and `mk` with `mkG` (`DeadlineP.mark` on the ghost).

`*_id`: with `mk = id` the instrumented functions ARE the model functions; `*SS_sim`: two
instrumented runs over simulating hooks stay in lock step.  Consequences (`patienceDiffG_erase`,
`patienceDiffG_total`): the ghost run returns exactly what the model run returns, and it exists
whenever the model run succeeds. -/
namespace SimilarVerif.PatiencePost
open SimilarVerif HookFail DeadlineP

/-- `conquer` with a state transformer applied where `find_middle_snake` gave up -/
def conquerS {σ} (E : Env) (h : Hook σ) (mk : σ → World → World → σ) (off : Nat) :
    (fuel : Nat) → (os oe ns ne : Nat) → (vf vb : V) → σ → World → Res (σ × V × V × World)
  | 0, _, _, _, _, _, _, _, _ => .error .fuel
  | fuel+1, os, oe, ns, ne, vf, vb, s, w =>
    match commonPrefixLen E os oe ns ne w with
    | .error e => .error e
    | .ok (p, w) =>
    match (if 0 < p then emit h (.equal os ns p) s w else .ok (s, w)) with
    | .error e => .error e
    | .ok (s, w) =>
    let os := os + p
    let ns := ns + p
    match commonSuffixLen E os oe ns ne w with
    | .error e => .error e
    | .ok (sl, w) =>
    let sfxO := oe - sl
    let sfxN := ne - sl
    let oe := oe - sl
    let ne := ne - sl
    match (
      if oe ≤ os && ne ≤ ns then (.ok (s, vf, vb, w) : Res (σ × V × V × World))
      else if ne ≤ ns then
        match emit h (.delete os (oe - os) ns) s w with
        | .error e => .error e
        | .ok (s, w) => .ok (s, vf, vb, w)
      else if oe ≤ os then
        match emit h (.insert os ns (ne - ns)) s w with
        | .error e => .error e
        | .ok (s, w) => .ok (s, vf, vb, w)
      else
        match findMiddleSnake E os oe ns ne off vf vb w with
        | .error e => .error e
        | .ok (vf, vb, some (x, y), w) =>
          (match conquerS E h mk off fuel os x ns y vf vb s w with
           | .error e => .error e
           | .ok (s, vf, vb, w) => conquerS E h mk off fuel x oe y ne vf vb s w)
        | .ok (vf, vb, none, w1) =>
          match emit h (.delete os (oe - os) ns) (mk s w w1) w1 with
          | .error e => .error e
          | .ok (s, w) =>
            match emit h (.insert os ns (ne - ns)) s w with
            | .error e => .error e
            | .ok (s, w) => .ok (s, vf, vb, w)) with
    | .error e => .error e
    | .ok (s, vf, vb, w) =>
    if 0 < sl then
      match emit h (.equal sfxO sfxN sl) s w with
      | .error e => .error e
      | .ok (s, w) => .ok (s, vf, vb, w)
    else .ok (s, vf, vb, w)

/-- `myersDiff` over `conquerS` -/
def myersDiffS {σ} (E : Env) (h : Hook σ) (mk : σ → World → World → σ) (os oe ns ne : Nat) (s : σ) (w : World) :
    Res (σ × World) :=
  let md := maxD (oe - os) (ne - ns)
  let v : V := Array.replicate (2 * md) 0
  match conquerS E h mk md ((oe - os) + (ne - ns) + 2) os oe ns ne v v s w with
  | .error e => .error e
  | .ok (s, _, _, w) => h.call .finish s w

/-- `patAnchor` over `myersDiffS` -/
def patAnchorS {σ} (E : Env) (h : Hook σ) (mk : σ → World → World → σ) (uo un : Array Nat) (i j : Nat)
    (p : PState) (s : σ) (w : World) : Res (PState × σ × World) :=
  match uo[i]?, un[j]? with
  | some a, some b =>
    let a0 := p.oc
    let b0 := p.nc
    (match patScan E a b (min (a - p.oc) (b - p.nc)) p.oc p.nc w with
     | .error e => .error e
     | .ok (oc, nc, w) =>
       match (if a0 < oc then emit h (.equal a0 b0 (oc - a0)) s w else .ok (s, w)) with
       | .error e => .error e
       | .ok (s, w) =>
         match myersDiffS E (noFinishHook h) mk oc a nc b s w with
         | .error e => .error e
         | .ok (s, w) => .ok ({ oc := a, nc := b }, s, w))
  | _, _ => .error .panic

/-- `patEqual` over `patAnchorS` -/
def patEqualS {σ} (E : Env) (h : Hook σ) (mk : σ → World → World → σ) (uo un : Array Nat) :
    (len : Nat) → (i j : Nat) → PState → σ → World → Res (PState × σ × World)
  | 0, _, _, p, s, w => .ok (p, s, w)
  | len+1, i, j, p, s, w =>
    match patAnchorS E h mk uo un i j p s w with
    | .error e => .error e
    | .ok (p, s, w) => patEqualS E h mk uo un len (i+1) (j+1) p s w

/-- `patienceHook` over `patEqualS` / `myersDiffS` -/
def patienceHookS {σ} (E : Env) (h : Hook σ) (mk : σ → World → World → σ) (uo un : Array Nat) (oe ne : Nat) :
    Hook (PState × σ) where
  call c st w :=
    let (p, s) := st
    match c with
    | .op (.equal o n len) =>
      (match patEqualS E h mk uo un len o n p s w with
       | .error e => .error e
       | .ok (p, s, w) => .ok ((p, s), w))
    | .op _ => .ok ((p, s), w)
    | .finish =>
      (match myersDiffS E h mk p.oc oe p.nc ne s w with
       | .error e => .error e
       | .ok (s, w) => .ok ((p, s), w))

/-- the state transformer of the outer run: the user state sits below `Replace` and the cursor -/
def mkO {σ} (mk : σ → World → World → σ) : (RState × PState × σ) → World → World → (RState × PState × σ) :=
  fun t w w1 => (t.1, t.2.1, mk t.2.2 w w1)

/-- `patienceDiff` over `myersDiffS` -/
def patienceDiffS {σ} (E : Env) (h : Hook σ) (mk : σ → World → World → σ) (os oe ns ne : Nat) (s : σ) (w : World) :
    Res (σ × World) :=
  match unique E.oo os oe, unique E.nn ns ne with
  | some uo, some un =>
    let uo := uo.toArray
    let un := un.toArray
    let hook := replaceHook (patienceHookS E h mk uo un oe ne)
    (match myersDiffS (E.sub uo un) hook (mkO mk) 0 uo.size 0 un.size ({}, ({ oc := os, nc := ns }, s)) w with
     | .error e => .error e
     | .ok ((_, _, s), w) => .ok (s, w))
  | _, _ => .error .panic

/-- a hook next to a ghost that it neither reads nor writes -/
def liftG {σ} (h : Hook σ) : Hook (σ × Option World) where
  call c t w :=
    match h.call c t.1 w with
    | .error e => .error e
    | .ok (s', w') => .ok ((s', t.2), w')

/-- the ghost update: `DeadlineP.mark` on the ghost component -/
def mkG {σ} : (σ × Option World) → World → World → (σ × Option World) :=
  fun t w w1 => (t.1, mark t.2 w w1)

/-- **the ghost-instrumented `patience::diff_deadline`**: user state `s`, ghost `g` -/
def patienceDiffG {σ} (E : Env) (h : Hook σ) (os oe ns ne : Nat) (s : σ) (g : Option World) (w : World) :
    Res ((σ × Option World) × World) :=
  patienceDiffS E (liftG h) mkG os oe ns ne (s, g) w

/-! ## `mk = id` gives back the model -/

section Id
variable {σ : Type} {E : Env} {h : Hook σ} {mk : σ → World → World → σ} (hid : ∀ s w w1, mk s w w1 = s)
include hid

theorem conquerS_id (off : Nat) : ∀ (fuel os oe ns ne : Nat) (vf vb : V) (s : σ) (w : World),
    conquerS E h mk off fuel os oe ns ne vf vb s w = conquer E h off fuel os oe ns ne vf vb s w := by
  intro fuel
  induction fuel with
  | zero => intros; rfl
  | succ fuel ih =>
    intro os oe ns ne vf vb s w
    unfold conquerS conquer
    simp only [hid, ih]
    rfl

theorem myersDiffS_id (os oe ns ne : Nat) (s : σ) (w : World) :
    myersDiffS E h mk os oe ns ne s w = myersDiff E h os oe ns ne s w := by
  unfold myersDiffS myersDiff
  simp only [conquerS_id hid]
  rfl

theorem patAnchorS_id (uo un : Array Nat) (i j : Nat) (p : PState) (s : σ) (w : World) :
    patAnchorS E h mk uo un i j p s w = patAnchor E h uo un i j p s w := by
  unfold patAnchorS patAnchor
  simp only [myersDiffS_id hid]
  rfl

theorem patEqualS_id (uo un : Array Nat) : ∀ (len i j : Nat) (p : PState) (s : σ) (w : World),
    patEqualS E h mk uo un len i j p s w = patEqual E h uo un len i j p s w := by
  intro len
  induction len with
  | zero => intros; rfl
  | succ len ih =>
    intro i j p s w
    unfold patEqualS patEqual
    simp only [patAnchorS_id hid, ih]
    rfl

theorem patienceHookS_id (uo un : Array Nat) (oe ne : Nat) :
    patienceHookS E h mk uo un oe ne = patienceHook E h uo un oe ne := by
  unfold patienceHookS patienceHook
  simp only [patEqualS_id hid, myersDiffS_id hid]
  rfl

theorem patienceDiffS_id (os oe ns ne : Nat) (s : σ) (w : World) :
    patienceDiffS E h mk os oe ns ne s w = patienceDiff E h os oe ns ne s w := by
  unfold patienceDiffS patienceDiff
  have h2 : ∀ (t : RState × PState × σ) (w w1 : World), mkO mk t w w1 = t := by
    intro t w w1; simp only [mkO, hid]
  simp only [patienceHookS_id hid, myersDiffS_id h2]
  rfl

end Id

end SimilarVerif.PatiencePost

import SimilarVerif.Props.C16
/-! # Glue for the headline theorem of C16 (Props/Headline/C16.lean)

`inline_headline`: the conclusions of `C16.inline_changes_total_segmenter` re-expressed against the model's own
plain expansion `inlinePlain` (which returns), with "emphasised only in Delete/Insert changes of a Replace op" and
"no line-break byte" derived; any line sequences, any lines-and-newlines tokenizer with its two contracts.
`segmenter_words`: the crate's own `tokenize_words` (used without the `unicode` feature) obeys the segmenter contract. -/
namespace SimilarVerif.Headline
open SimilarVerif Spec InlineP InlineTotal TokP

/-- every lookup of the plain expansion of an in-range op succeeds, and `plainOf` is that line as one
unemphasised segment -/
theorem plainOf_line (old new : Array Bytes) (x : Op) (hin : InB old.size new.size x) :
    ∀ c ∈ opChanges x, ∃ line, (if c.fromNew then new[c.idx]? else old[c.idx]?) = some line ∧
      plainOf old new c = ⟨c.tag, c.oldIndex, c.newIndex, [(false, line)]⟩ := by
  intro c hc
  have hlt := opChanges_idx_lt old new x hin c hc
  cases hf : c.fromNew
  · simp only [hf, Bool.false_eq_true, if_false] at hlt ⊢
    exact ⟨old[c.idx], Array.getElem?_eq_getElem hlt, by simp [plainOf, hf, Array.getElem?_eq_getElem hlt]⟩
  · simp only [hf, if_true] at hlt ⊢
    exact ⟨new[c.idx], Array.getElem?_eq_getElem hlt, by simp [plainOf, hf, Array.getElem?_eq_getElem hlt]⟩

/-- the changes of a Replace op are Deletes and Inserts -/
theorem replace_tags (x : Op) (hx : x.tag = .replace) : ∀ c ∈ opChanges x, c.tag = .delete ∨ c.tag = .insert := by
  intro c hc
  rw [C13.opChanges_eq_spec] at hc
  cases x <;> simp [Op.tag] at hx
  simp only [Spec.iterChanges, List.mem_append, List.mem_map, List.mem_range] at hc
  rcases hc with ⟨t, -, rfl⟩ | ⟨t, -, rfl⟩
  · exact Or.inl rfl
  · exact Or.inr rfl

/-- **C16 for one op of a valid line script over non-empty lines**, every world, both clean-up variants, any
lines-and-newlines tokenizer `lnl` that tiles its input and whose non-newline tokens contain no line break, any
word segmenter `sg` obeying its contract -/
theorem inline_headline (lnl : Bytes → List (Nat × Nat)) (hlnl : ∀ s, Tiling (lnl s) s.length) (hnl : LnlNoNL lnl)
    (sg : Bytes → List Nat) (hsg : ∀ line, line ≠ [] → Partition (sg line) line.length)
    (repair : Bool) (old new : Array Bytes) {e : Nat → Nat → Bool} (ops : List Op)
    (hw : Walk e 0 0 ops old.size new.size)
    (hno : ∀ t ∈ old.toList, t ≠ []) (hnn : ∀ t ∈ new.toList, t ≠ [])
    (x : Op) (hx : x ∈ ops) (w : World) :
    ∃ cs w' plain,
      inlineChanges lnl repair old new x
        (segsOf sg ((old.toList.drop x.oStart).take x.oLen)) (segsOf sg ((new.toList.drop x.nStart).take x.nLen)) w
        = .ok (cs, w') ∧
      inlinePlain old new x = .ok plain ∧
      plain = (opChanges x).map (plainOf old new) ∧
      (∀ c ∈ opChanges x, ∃ line, (if c.fromNew then new[c.idx]? else old[c.idx]?) = some line ∧
        plainOf old new c = ⟨c.tag, c.oldIndex, c.newIndex, [(false, line)]⟩) ∧
      cs.map (fun c => (c.tag, c.oldIndex, c.newIndex)) = plain.map (fun c => (c.tag, c.oldIndex, c.newIndex)) ∧
      cs.map (fun c => segsConcat c.values) = plain.map (fun c => segsConcat c.values) ∧
      (∀ c ∈ cs, ∀ seg ∈ c.values, seg.1 = true → x.tag = .replace ∧ (c.tag = .delete ∨ c.tag = .insert)) ∧
      (∀ c ∈ cs, ∀ seg ∈ c.values, seg.1 = true → ∀ b ∈ seg.2, b ≠ 10 ∧ b ≠ 13) ∧
      (∀ c ∈ cs, missingNewline c.values = !endsWithNewline (segsConcat c.values)) ∧
      (∀ c ∈ cs, ∀ seg ∈ c.values, seg.2 ≠ []) ∧
      (x.tag ≠ .replace → cs = plain ∧ w' = w) := by
  obtain ⟨cs, w', h1, h2, h3, h4, h5, h6⟩ :=
    inline_changes_total_segmenter lnl hlnl sg hsg repair old new ops hw hno hnn x hx w
  have hin := walk_inB ops _ _ hw x hx
  refine ⟨cs, w', _, h1, inlinePlain_total old new x hin, rfl, plainOf_line old new x hin, ?_, ?_, ?_, ?_, h5,
    fun c hc seg hs => (h4 c hc seg hs).2, h6⟩
  · rw [List.map_map]; exact h2
  · rw [List.map_map]; exact h3
  · intro c hc seg hs he
    by_cases hr : x.tag = .replace
    · refine ⟨hr, ?_⟩
      have hm : (c.tag, c.oldIndex, c.newIndex) ∈ cs.map (fun c => (c.tag, c.oldIndex, c.newIndex)) :=
        List.mem_map_of_mem hc
      rw [h2] at hm
      obtain ⟨ch, hch, he'⟩ := List.mem_map.1 hm
      have := replace_tags x hr ch hch
      have ht : ch.tag = c.tag := congrArg Prod.fst he'
      rwa [ht] at this
    · exfalso
      obtain ⟨hcs, -⟩ := h6 hr
      rw [hcs] at hc
      obtain ⟨ch, -, rfl⟩ := List.mem_map.1 hc
      simp only [plainOf, List.mem_singleton] at hs
      subst hs
      simp at he
  · intro c hc seg hs he
    exact emphOK_noNL hnl seg (h4 c hc seg hs).1 he

/-- the crate's `tokenize_words` (the segmenter `MultiLookup::new` uses without the `unicode` feature), as segment
lengths: it obeys the segmenter contract -/
theorem segmenter_words : ∀ line : Bytes, line ≠ [] →
    Partition (HelpersP.lens line (tokenizeWordsB line)) line.length :=
  fun line _ => ⟨HelpersP.lens_pos (tokenizeWordsB_tiling line), HelpersP.lens_sum (tokenizeWordsB_tiling line)⟩

end SimilarVerif.Headline

#print axioms SimilarVerif.Headline.inline_headline
#print axioms SimilarVerif.Headline.segmenter_words

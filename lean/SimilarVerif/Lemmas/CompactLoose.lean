import SimilarVerif.Lemmas.Compact
/-! # The repaired clean-up makes loosely carried indices exact

Under an expiring deadline Myers' fallback emits `delete(o, ol, n); insert(o, n, nl)`: the Insert carries the old
position BEFORE its Delete.  `Loose` is the weakest shape this file needs: every primary index is exact, every
Delete's carried index is exact, and an Insert's carried old index is exact UNLESS a Delete occurs earlier in the
same run of changes (since the last Equal).

With the repaired swap the DELETE pass of `cleanup_diff_ops` already turns every `Loose` script into an `Exact`
one: a Delete at the pointer is first swapped / merged up to the start of its run, then swapped / merged down to the
end of its run (Deletes never slide over an Equal: the scan is given the Delete's empty new range), so every Insert
of a run that contains a Delete is swapped at least once — and the repaired swap recomputes both carried indices
from primary ones.  The Insert pass then keeps exactness (`CompactP.cleanupPass_pres`). -/
set_option linter.unusedSimpArgs false
namespace SimilarVerif.CompactL
open SimilarVerif Spec CompactP

/-- primary indices exact, Deletes' carried index exact, an Insert's carried index exact unless `b` = "a Delete
occurred earlier in this run of changes" -/
def Loose : Bool → Nat → Nat → List Op → Prop
  | _, _, _, [] => True
  | _, o, n, .equal co cn len :: cs => co = o ∧ cn = n ∧ Loose false (o+len) (n+len) cs
  | _, o, n, .delete co l cn :: cs => co = o ∧ cn = n ∧ Loose true (o+l) n cs
  | b, o, n, .insert co cn l :: cs => (b = true ∨ co = o) ∧ cn = n ∧ Loose b o (n+l) cs
  | _, o, n, .replace co ol cn nl :: cs => co = o ∧ cn = n ∧ Loose false (o+ol) (n+nl) cs

theorem Loose.mono : ∀ (ops : List Op) (b : Bool) (o n : Nat), Loose b o n ops → Loose true o n ops := by
  intro ops
  induction ops with
  | nil => intro b o n _; trivial
  | cons x xs ih =>
    intro b o n h
    cases x with
    | insert co cn l =>
      simp only [Loose] at h ⊢
      exact ⟨.inl (by simp), h.2.1, ih _ _ _ h.2.2⟩
    | _ => simpa only [Loose] using h

theorem Loose.congr {b : Bool} {o n o' n' : Nat} {ops : List Op} (h : Loose b o n ops) (ho : o = o') (hn : n = n') :
    Loose b o' n' ops := by subst ho; subst hn; exact h

/-- exact indices are loose -/
theorem Loose.of_exact : ∀ (ops : List Op) (b : Bool) (o n : Nat), Exact o n ops → Loose b o n ops := by
  intro ops
  induction ops with
  | nil => intro b o n _; trivial
  | cons x xs ih =>
    intro b o n h
    cases x <;> simp only [Exact, Op.oStart, Op.nStart, Op.oLen, Op.nLen, Nat.add_zero] at h <;>
      simp only [Loose] <;> exact ⟨by simp [h.1], h.2.1, ih _ _ _ h.2.2⟩

/-- an exact walk: `Exact`, with the end position -/
def XW : Nat → Nat → List Op → Nat → Nat → Prop
  | o, n, [], o', n' => o' = o ∧ n' = n
  | o, n, x :: cs, o', n' => x.oStart = o ∧ x.nStart = n ∧ XW (o + x.oLen) (n + x.nLen) cs o' n'

theorem XW.exact : ∀ (ops : List Op) (o n o' n' : Nat), XW o n ops o' n' → Exact o n ops := by
  intro ops
  induction ops with
  | nil => intros; trivial
  | cons x xs ih => intro o n o' n' h; exact ⟨h.1, h.2.1, ih _ _ _ _ h.2.2⟩

theorem XW_snoc : ∀ (a : List Op) (x : Op) (o n o2 n2 : Nat),
    XW o n (a ++ [x]) o2 n2 ↔
      ∃ o1 n1, XW o n a o1 n1 ∧ x.oStart = o1 ∧ x.nStart = n1 ∧ o2 = o1 + x.oLen ∧ n2 = n1 + x.nLen := by
  intro a
  induction a with
  | nil =>
    intro x o n o2 n2
    simp only [List.nil_append, XW]
    constructor
    · rintro ⟨h1, h2, h3, h4⟩; exact ⟨o, n, ⟨rfl, rfl⟩, h1, h2, h3, h4⟩
    · rintro ⟨o1, n1, ⟨rfl, rfl⟩, h1, h2, h3, h4⟩; exact ⟨h1, h2, h3, h4⟩
  | cons c cs ih =>
    intro x o n o2 n2
    simp only [List.cons_append, XW, ih]
    constructor
    · rintro ⟨h1, h2, o1, n1, h3⟩; exact ⟨o1, n1, ⟨h1, h2, h3.1⟩, h3.2⟩
    · rintro ⟨o1, n1, ⟨h1, h2, h3⟩, h4⟩; exact ⟨h1, h2, o1, n1, h3, h4⟩

/-! ### one round of `shift_diff_ops_up` / `shift_diff_ops_down` with a Delete at the pointer -/

theorem get_mid (pre : List Op) (a : Op) (rest : List Op) : (pre ++ a :: rest)[pre.length]? = some a := by
  simp


theorem set_mid1 (pre : List Op) (a b x : Op) (rest : List Op) :
    (pre ++ a :: b :: rest).set (pre.length + 1) x = pre ++ a :: x :: rest := by
  have := set_pre pre (a :: b :: rest) 1 x
  simp only [List.set_cons_succ, List.set_cons_zero] at this
  exact this
theorem erase_mid1 (pre : List Op) (a b : Op) (rest : List Op) :
    (pre ++ a :: b :: rest).eraseIdx (pre.length + 1) = pre ++ a :: rest := by
  have := erase_pre pre (a :: b :: rest) 1
  simp only [List.eraseIdx_cons_succ, List.eraseIdx_cons_zero] at this
  exact this

theorem up_nil (E : Env) (f : Nat) (d : Op) (post : List Op) (w : World) :
    shiftUp E true (f+1) (d :: post) 0 w = .ok (d :: post, 0, w) := by
  simp [shiftUp]

theorem up_equal (E : Env) (f : Nat) (pre : List Op) (po pn pl d_o dl d_n : Nat) (post : List Op) (w : World) :
    shiftUp E true (f+1) (pre ++ .equal po pn pl :: .delete d_o dl d_n :: post) (pre.length + 1) w =
      if pl = 0 then shiftUp E true f (pre ++ .delete d_o dl d_n :: post) pre.length w
      else .ok (pre ++ .equal po pn pl :: .delete d_o dl d_n :: post, pre.length + 1, w) := by
  rw [shiftUp]
  simp [opAt, Op.tag, Op.nStart, Op.nEnd, Op.nLen, csl_same, Op.isEmpty, Op.oLen, erase_pre0]

theorem up_insert (E : Env) (f : Nat) (pre : List Op) (io i_n il d_o dl d_n : Nat) (post : List Op) (w : World) :
    shiftUp E true (f+1) (pre ++ .insert io i_n il :: .delete d_o dl d_n :: post) (pre.length + 1) w =
      shiftUp E true f (pre ++ .delete d_o dl i_n :: .insert (d_o + dl) i_n il :: post) pre.length w := by
  rw [shiftUp]
  simp [opAt, Op.tag, swapPair, set_pre0, set_mid1]

theorem up_delete (E : Env) (f : Nat) (pre : List Op) (po pl pn d_o dl d_n : Nat) (post : List Op) (w : World) :
    shiftUp E true (f+1) (pre ++ .delete po pl pn :: .delete d_o dl d_n :: post) (pre.length + 1) w =
      shiftUp E true f (pre ++ .delete po (pl + dl) pn :: post) pre.length w := by
  rw [shiftUp]
  simp [opAt, Op.tag, set_pre0, erase_mid1, Op.growRight, Op.addLen, Op.oLen]

theorem up_replace (E : Env) (f : Nat) (pre : List Op) (a b c e d_o dl d_n : Nat) (post : List Op) (w : World) :
    shiftUp E true (f+1) (pre ++ .replace a b c e :: .delete d_o dl d_n :: post) (pre.length + 1) w = .error .panic := by
  rw [shiftUp]
  simp [opAt, Op.tag]

theorem down_nil (E : Env) (f : Nat) (pre : List Op) (d : Op) (w : World) :
    shiftDown E true (f+1) (pre ++ [d]) pre.length w = .ok (pre ++ [d], pre.length, w) := by
  simp [shiftDown]

theorem down_equal (E : Env) (f : Nat) (pre : List Op) (d_o dl d_n o2 n2 l2 : Nat) (post : List Op) (w : World) :
    shiftDown E true (f+1) (pre ++ .delete d_o dl d_n :: .equal o2 n2 l2 :: post) pre.length w =
      if l2 = 0 then shiftDown E true f (pre ++ .delete d_o dl d_n :: post) pre.length w
      else .ok (pre ++ .delete d_o dl d_n :: .equal o2 n2 l2 :: post, pre.length, w) := by
  rw [shiftDown]
  simp [opAt, Op.tag, Op.nStart, Op.nEnd, Op.nLen, cpl_same, Op.isEmpty, Op.oLen, erase_mid1]

theorem down_insert (E : Env) (f : Nat) (pre : List Op) (d_o dl d_n io i_n il : Nat) (post : List Op) (w : World) :
    shiftDown E true (f+1) (pre ++ .delete d_o dl d_n :: .insert io i_n il :: post) pre.length w =
      shiftDown E true f (pre ++ .insert d_o i_n il :: .delete d_o dl (i_n + il) :: post) (pre.length + 1) w := by
  rw [shiftDown]
  simp [opAt, Op.tag, swapPair, set_pre0, set_mid1]

theorem down_delete (E : Env) (f : Nat) (pre : List Op) (d_o dl d_n o2 l2 n2 : Nat) (post : List Op) (w : World) :
    shiftDown E true (f+1) (pre ++ .delete d_o dl d_n :: .delete o2 l2 n2 :: post) pre.length w =
      shiftDown E true f (pre ++ .delete d_o (dl + l2) d_n :: post) pre.length w := by
  rw [shiftDown]
  simp [opAt, Op.tag, set_pre0, erase_mid1, Op.growRight, Op.addLen, Op.oLen]

theorem down_replace (E : Env) (f : Nat) (pre : List Op) (d_o dl d_n a b c e : Nat) (post : List Op) (w : World) :
    shiftDown E true (f+1) (pre ++ .delete d_o dl d_n :: .replace a b c e :: post) pre.length w = .error .panic := by
  rw [shiftDown]
  simp [opAt, Op.tag]



theorem snoc_cons (pre : List Op) (a : Op) (rest : List Op) : (pre ++ [a]) ++ rest = pre ++ a :: rest := by simp
theorem len_snoc (pre : List Op) (a : Op) : (pre ++ [a]).length = pre.length + 1 := by simp

/-- `shift_diff_ops_up` with a Delete at the pointer -/
theorem shiftUp_del (E : Env) (o n : Nat) : ∀ (f : Nat) (pre : List Op) (o1 n1 dl : Nat) (post : List Op) (w : World)
    (ops' : List Op) (p' : Nat) (w' : World),
    XW o n pre o1 n1 → Loose true (o1 + dl) n1 post →
    shiftUp E true f (pre ++ .delete o1 dl n1 :: post) pre.length w = .ok (ops', p', w') →
    ∃ pre' o1' n1' dl' post', ops' = pre' ++ .delete o1' dl' n1' :: post' ∧ p' = pre'.length ∧
      XW o n pre' o1' n1' ∧ Loose true (o1' + dl') n1' post' := by
  intro f
  induction f with
  | zero => intro pre o1 n1 dl post w ops' p' w' _ _ h; simp [shiftUp] at h
  | succ f ih =>
    intro pre o1 n1 dl post w ops' p' w' hx hl h
    rcases List.eq_nil_or_concat pre with rfl | ⟨pre', prev, rfl⟩
    · simp only [List.nil_append, List.length_nil, up_nil, Except.ok.injEq, Prod.mk.injEq] at h
      obtain ⟨rfl, rfl, rfl⟩ := h
      exact ⟨[], o1, n1, dl, post, rfl, rfl, hx, hl⟩
    · simp only [List.concat_eq_append] at hx h
      rw [snoc_cons, len_snoc] at h
      obtain ⟨oa, na, hxa, e1, e2, e3, e4⟩ := (XW_snoc _ _ _ _ _ _).1 hx
      cases prev with
      | equal po pn pl =>
        rw [up_equal] at h
        simp only [Op.oStart, Op.nStart, Op.oLen, Op.nLen] at e1 e2 e3 e4
        split at h
        · rename_i hz
          subst hz
          exact ih pre' o1 n1 dl post w ops' p' w' (by subst e3 e4; simpa using hxa) hl h
        · simp only [Except.ok.injEq, Prod.mk.injEq] at h
          obtain ⟨rfl, rfl, rfl⟩ := h
          exact ⟨pre' ++ [.equal po pn pl], o1, n1, dl, post, by simp, by simp, hx, hl⟩
      | insert io i_n il =>
        rw [up_insert] at h
        simp only [Op.oStart, Op.nStart, Op.oLen, Op.nLen, Nat.add_zero] at e1 e2 e3 e4
        subst e1 e2 e3 e4
        refine ih pre' _ _ dl _ w ops' p' w' hxa ?_ h
        simp only [Loose, true_or, true_and]
        exact hl
      | delete po pl pn =>
        rw [up_delete] at h
        simp only [Op.oStart, Op.nStart, Op.oLen, Op.nLen, Nat.add_zero] at e1 e2 e3 e4
        subst e1 e2 e3 e4
        exact ih pre' _ _ (pl + dl) post w ops' p' w' hxa (hl.congr (by omega) rfl) h
      | replace a b c e =>
        rw [up_replace] at h
        cases h

/-- `shift_diff_ops_down` with a Delete at the pointer -/
theorem shiftDown_del (E : Env) (o n : Nat) : ∀ (f : Nat) (pre : List Op) (o1 n1 dl : Nat) (post : List Op) (w : World)
    (ops' : List Op) (p' : Nat) (w' : World),
    XW o n pre o1 n1 → Loose true (o1 + dl) n1 post →
    shiftDown E true f (pre ++ .delete o1 dl n1 :: post) pre.length w = .ok (ops', p', w') →
    ∃ pre' o1' n1' dl' post', ops' = pre' ++ .delete o1' dl' n1' :: post' ∧ p' = pre'.length ∧
      XW o n pre' o1' n1' ∧ Loose false (o1' + dl') n1' post' := by
  intro f
  induction f with
  | zero => intro pre o1 n1 dl post w ops' p' w' _ _ h; simp [shiftDown] at h
  | succ f ih =>
    intro pre o1 n1 dl post w ops' p' w' hx hl h
    cases post with
    | nil =>
      rw [down_nil] at h
      simp only [Except.ok.injEq, Prod.mk.injEq] at h
      obtain ⟨rfl, rfl, rfl⟩ := h
      exact ⟨pre, o1, n1, dl, [], rfl, rfl, hx, trivial⟩
    | cons next rest =>
      cases next with
      | equal o2 n2 l2 =>
        rw [down_equal] at h
        simp only [Loose] at hl
        split at h
        · rename_i hz
          subst hz
          exact ih pre o1 n1 dl rest w ops' p' w' hx ((hl.2.2.mono).congr (by omega) (by omega)) h
        · simp only [Except.ok.injEq, Prod.mk.injEq] at h
          obtain ⟨rfl, rfl, rfl⟩ := h
          exact ⟨pre, o1, n1, dl, _, rfl, rfl, hx, by simp only [Loose]; exact hl⟩
      | insert io i_n il =>
        rw [down_insert] at h
        simp only [Loose, true_or, true_and] at hl
        obtain ⟨rfl, hl⟩ := hl
        rw [← snoc_cons, ← len_snoc] at h
        refine ih (pre ++ [.insert o1 i_n il]) o1 (i_n + il) dl rest w ops' p' w' ?_ hl h
        exact (XW_snoc _ _ _ _ _ _).2 ⟨o1, i_n, hx, rfl, rfl, by simp [Op.oLen], by simp [Op.nLen]⟩
      | delete o2 l2 n2 =>
        rw [down_delete] at h
        simp only [Loose] at hl
        exact ih pre o1 n1 (dl + l2) rest w ops' p' w' hx (hl.2.2.congr (by omega) rfl) h
      | replace a b c e =>
        rw [down_replace] at h
        cases h



/-- the Delete pass of `cleanup_diff_ops` with the repaired swap: loose in, exact out -/
theorem deletePass_exact (E : Env) (inner : Nat) (o n : Nat) : ∀ (fuel : Nat) (pre post : List Op) (o1 n1 : Nat)
    (w : World) (ops' : List Op) (w' : World),
    XW o n pre o1 n1 → Loose false o1 n1 post →
    cleanupPass E true .delete inner fuel (pre ++ post) pre.length w = .ok (ops', w') → Exact o n ops' := by
  intro fuel
  induction fuel with
  | zero => intro pre post o1 n1 w ops' w' _ _ h; simp [cleanupPass] at h
  | succ fuel ih =>
    intro pre post o1 n1 w ops' w' hx hl h
    cases post with
    | nil =>
      simp [cleanupPass] at h
      obtain ⟨rfl, rfl⟩ := h
      exact hx.exact
    | cons x rest =>
      rw [cleanupPass] at h
      simp only [get_mid] at h
      cases x with
      | delete co l cn =>
        simp only [Loose] at hl
        obtain ⟨rfl, rfl, hl⟩ := hl
        simp only [Op.tag, if_true] at h
        split at h
        · cases h
        · rename_i ops1 p1 w1 hup
          obtain ⟨pre1, o2, n2, dl2, post2, rfl, rfl, hx2, hl2⟩ :=
            shiftUp_del E o n inner pre _ _ l rest w ops1 p1 w1 hx hl hup
          split at h
          · cases h
          · rename_i ops2 p2 w2 hdown
            obtain ⟨pre3, o3, n3, dl3, post3, rfl, rfl, hx3, hl3⟩ :=
              shiftDown_del E o n inner pre1 _ _ dl2 post2 w1 ops2 p2 w2 hx2 hl2 hdown
            rw [← snoc_cons, ← len_snoc] at h
            refine ih (pre3 ++ [.delete o3 dl3 n3]) post3 (o3 + dl3) n3 w2 ops' w' ?_ hl3 h
            exact (XW_snoc _ _ _ _ _ _).2 ⟨o3, n3, hx3, rfl, rfl, by simp [Op.oLen], by simp [Op.nLen]⟩
      | equal co cn l =>
        simp only [Loose] at hl
        obtain ⟨rfl, rfl, hl⟩ := hl
        simp only [Op.tag, reduceCtorEq, if_false] at h
        rw [← snoc_cons, ← len_snoc] at h
        refine ih (pre ++ [.equal _ _ l]) rest _ _ w ops' w' ?_ hl h
        exact (XW_snoc _ _ _ _ _ _).2 ⟨_, _, hx, rfl, rfl, by simp [Op.oLen], by simp [Op.nLen]⟩
      | insert co cn l =>
        simp only [Loose, Bool.false_eq_true, false_or] at hl
        obtain ⟨rfl, rfl, hl⟩ := hl
        simp only [Op.tag, reduceCtorEq, if_false] at h
        rw [← snoc_cons, ← len_snoc] at h
        refine ih (pre ++ [.insert _ _ l]) rest _ _ w ops' w' ?_ hl h
        exact (XW_snoc _ _ _ _ _ _).2 ⟨_, _, hx, rfl, rfl, by simp [Op.oLen], by simp [Op.nLen]⟩
      | replace co ol cn nl =>
        simp only [Loose] at hl
        obtain ⟨rfl, rfl, hl⟩ := hl
        simp only [Op.tag, reduceCtorEq, if_false] at h
        rw [← snoc_cons, ← len_snoc] at h
        refine ih (pre ++ [.replace _ ol _ nl]) rest _ _ w ops' w' ?_ hl h
        exact (XW_snoc _ _ _ _ _ _).2 ⟨_, _, hx, rfl, rfl, by simp [Op.oLen], by simp [Op.nLen]⟩

/-- **the repaired clean-up makes loose carried indices exact** -/
theorem cleanup_loose_exact (E : Env) (ops : List Op) (o n o' n' : Nat) (w : World) (ops' : List Op) (w' : World)
    (hnr : NoReplaceOp ops) (hw : Walk (eqB E) o n ops o' n') (hl : Loose false o n ops)
    (h : cleanupDiffOps E true ops w = .ok (ops', w')) : Exact o n ops' := by
  unfold cleanupDiffOps at h
  simp only at h
  split at h
  · cases h
  · rename_i ops1 w1 h1
    have hx1 : Exact o n ops1 :=
      deletePass_exact E _ o n _ [] ops o n w ops1 w1 ⟨rfl, rfl⟩ hl (by simpa using h1)
    obtain ⟨a1, -, -⟩ := cleanupPass_pres E true _ _ _ _ _ _ _ _ h1
    obtain ⟨hw1, hnr1, -, -, -, -⟩ := a1 o n o' n' hw hnr
    obtain ⟨b1, -, -⟩ := cleanupPass_pres E true _ _ _ _ _ _ _ _ h
    exact (b1 o n o' n' hw1 hnr1).2.2.2.2.2 rfl hx1


#print axioms cleanup_loose_exact

end SimilarVerif.CompactL

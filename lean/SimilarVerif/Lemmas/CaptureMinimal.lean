import SimilarVerif.Lemmas.Capture
import SimilarVerif.Lemmas.CompactTotal
import SimilarVerif.Lemmas.MyersOptimal
/-! # Totality of the capture pipeline; captured Myers / LCS diffs are minimal

`captureDiff` = raw stream → `cleanupDiffOps` → `Replace` (Lemmas/Capture.lean).  The clean-up is total on
valid in-bounds input whose carried indices satisfy `CarOK` (Lemmas/CompactTotal.lean), `Replace` over the
recording hook is total (Lemmas/Replace.lean): so whenever the raw run returns a valid `Carried` stream,
`capture_diff` returns too.  With the minimality of the raw Myers / LCS streams this gives the end-to-end
statements `capture_myers_minimal` and `capture_lcs_minimal_total`.
-/
namespace SimilarVerif.CaptureMin
open SimilarVerif Spec CaptureP CompactT

/-- expanding every `replace` into `delete; insert` keeps the totality invariant of the clean-up -/
theorem carOK_expand (e : Nat → Nat → Bool) : ∀ (raw : List Op) (o n o' n' nd : Nat),
    Walk e o n raw o' n' → CarOK o nd raw → CarOK o nd (expandReplace raw) := by
  intro raw
  induction raw with
  | nil => intro _ _ _ _ _ _ h; exact h
  | cons x xs ih =>
    intro o n o' n' nd hw hc
    rw [expandReplace_cons]
    cases x with
    | equal a b l =>
      simp only [Walk] at hw
      simp only [expand1, List.singleton_append, CarOK] at hc ⊢
      exact ih _ _ _ _ _ hw.2.2.2.2 hc
    | delete a l b =>
      simp only [Walk] at hw
      simp only [expand1, List.singleton_append, CarOK] at hc ⊢
      exact ih _ _ _ _ _ hw.2.2 hc
    | insert a b l =>
      simp only [Walk] at hw
      simp only [expand1, List.singleton_append, CarOK] at hc ⊢
      exact ⟨hc.1, ih _ _ _ _ _ hw.2.2 hc.2⟩
    | replace a al b bl =>
      simp only [Walk] at hw
      simp only [expand1, List.cons_append, List.nil_append, CarOK] at hc ⊢
      obtain ⟨rfl, rfl, _, _, hw'⟩ := hw
      exact ⟨by omega, ih _ _ _ _ _ hw' hc⟩

theorem sumEqual_eq_nEq : ∀ (ops : List Op), sumEqual ops = nEq ops := by
  intro ops
  induction ops with
  | nil => rfl
  | cons x xs ih => cases x <;> simp [sumEqual, nEq, ih]

theorem ratioPair_eq (ops : List Op) (a b : Nat) : ratioPair ops a b = (2 * nEq ops, a + b) := by
  unfold ratioPair; rw [sumEqual_eq_nEq]

/-- **The capture pipeline is total after a valid raw run**: if the algorithm against the recording
hook returns a valid script with `Carried` indices for in-bounds ranges, `capture_diff` returns, and its
result has all the properties of `CaptureP.capture_valid_gen`. -/
theorem capture_total_gen (alg : Alg) (E : Env) (repair : Bool) (os oe ns ne : Nat) (w : World)
    (raw : List Op) (w1 : World)
    (hraw : rawTrace alg E os oe ns ne w = .ok ({ trace := raw.map Call.op ++ [.finish] }, w1))
    (hw : Walk (eqB E) os ns raw oe ne) (hcar : Carried os ns raw) (hb : InBounds E os oe ns ne) :
    ∃ ops w', captureDiff alg E repair os oe ns ne w = .ok (ops, w') ∧
      Walk (eqB E) os ns ops oe ne ∧ nDel ops = nDel raw ∧ nIns ops = nIns raw ∧ nEq ops = nEq raw ∧
      Alternating ops ∧ w'.clock = w1.clock ∧
      (repair = true → NoReplaceOp raw → Exact os ns raw → Exact os ns ops) := by
  have hex : ∃ ops w', captureDiff alg E repair os oe ns ne w = .ok (ops, w') := by
    rw [capture_factor_gen alg E repair os oe ns ne w raw w1 hraw]
    obtain ⟨-, -, -, c4⟩ := counts_expand raw
    have hwe := walk_expand _ raw _ _ _ _ hw
    obtain ⟨ops', w2, hcl⟩ := cleanup_total E repair (expandReplace raw) os ns oe ne w1 c4 hwe
      (carOK_expand _ raw _ _ _ _ 0 hw (carried_carOK os ns raw hcar)) hb
    obtain ⟨a1, -, -, -, a5, -⟩ := CompactP.cleanup_preserves E repair _ os ns oe ne w1 ops' w2 c4 hwe hcl
    obtain ⟨out, rs, hro, -⟩ := replace_preserves (eqB E) ops' os ns oe ne w2 a5 a1
    rw [hcl]
    simp only [hro]
    exact ⟨_, _, rfl⟩
  obtain ⟨ops, w', hc⟩ := hex
  exact ⟨ops, w', hc, capture_valid_gen alg E repair os oe ns ne w _ w1 raw ops w' hraw rfl hw hc⟩

/-- the same, from a raw run whose recorded stream is `ValidRaw` (what C01 delivers for every algorithm) -/
theorem capture_total_of_validRaw (alg : Alg) (E : Env) (repair : Bool) (os oe ns ne : Nat) (w : World)
    (r : Rec) (w1 : World) (hraw : rawTrace alg E os oe ns ne w = .ok (r, w1))
    (hv : ValidRaw E os oe ns ne r.trace) (hb : InBounds E os oe ns ne) :
    ∃ raw ops w', r.trace = raw.map Call.op ++ [.finish] ∧ Walk (eqB E) os ns raw oe ne ∧ Carried os ns raw ∧
      captureDiff alg E repair os oe ns ne w = .ok (ops, w') ∧
      Walk (eqB E) os ns ops oe ne ∧ nDel ops = nDel raw ∧ nIns ops = nIns raw ∧ nEq ops = nEq raw ∧
      Alternating ops ∧ w'.clock = w1.clock := by
  obtain ⟨raw, ht, hw, hcar⟩ := hv
  have hr := raw_rec_eta alg E os oe ns ne w r w1 hraw
  rw [ht] at hr
  rw [hr] at hraw
  obtain ⟨ops, w', hc, h1, h2, h3, h4, h5, h6, -⟩ :=
    capture_total_gen alg E repair os oe ns ne w raw w1 hraw hw hcar hb
  exact ⟨raw, ops, w', ht, hw, hcar, hc, h1, h2, h3, h4, h5, h6⟩

/-- **Captured Myers diffs are minimal** (no deadline, shipped and repaired clean-up): for in-bounds
ranges `capture_diff` with Myers RETURNS a valid script that deletes and inserts exactly
`N + M - 2·LCS` items and whose Equal segments total `LCS` items; hence the ratio pair is
`(2·LCS, N + M)`. No valid script is cheaper; with the repair switch all indices are exact. -/
theorem capture_myers_minimal (E : Env) (repair : Bool) (os oe ns ne : Nat) (w : World)
    (ho : os ≤ oe) (hn : ns ≤ ne) (hb : InBounds E os oe ns ne) (hclk : w.clock = none) :
    ∃ ops w', captureDiff .myers E repair os oe ns ne w = .ok (ops, w') ∧
      Walk (eqB E) os ns ops oe ne ∧
      Spec.cost ops = (oe - os) + (ne - ns) - 2 * lcsLen (eqB E) (oe - os) (ne - ns) os ns ∧
      nEq ops = lcsLen (eqB E) (oe - os) (ne - ns) os ns ∧
      ratioPair ops (oe - os) (ne - ns) =
        (2 * lcsLen (eqB E) (oe - os) (ne - ns) os ns, (oe - os) + (ne - ns)) ∧
      (∀ ops'', Walk (eqB E) os ns ops'' oe ne → Spec.cost ops ≤ Spec.cost ops'') ∧
      Alternating ops ∧ (repair = true → Exact os ns ops) := by
  obtain ⟨r, w1, hm⟩ := MyersT.myersDiff_total E os oe ns ne w ho hn hb
  obtain ⟨raw, ht, hwr, hx, hcost, hmin⟩ := MyersT.myers_optimal E os oe ns ne w r w1 ho hn hb hclk hm
  have hraw0 : rawTrace .myers E os oe ns ne w = .ok (r, w1) := by simpa [rawTrace, diffWith] using hm
  have hr := raw_rec_eta .myers E os oe ns ne w r w1 hraw0
  rw [ht] at hr
  have hraw : rawTrace .myers E os oe ns ne w = .ok ({ trace := raw.map Call.op ++ [.finish] }, w1) := by
    rw [← hr]; exact hraw0
  have hnr := myers_raw_noReplace E (MyersT.snake_in_box E) os oe ns ne w ho hn hb raw w1 hraw
  obtain ⟨ops, w', hc, h1, h2, h3, h4, h5, -, h7⟩ :=
    capture_total_gen .myers E repair os oe ns ne w raw w1 hraw hwr
      (LcsP.exact_carried _ raw os ns oe ne hwr hx) hb
  have hcr := walk_counts _ _ _ _ _ hwr
  have hcost' : Spec.cost ops = Spec.cost raw := by simp only [Spec.cost, h2, h3]
  have hL : nEq raw = lcsLen (eqB E) (oe - os) (ne - ns) os ns := by
    unfold Spec.cost at hcost; omega
  refine ⟨ops, w', hc, h1, by rw [hcost']; omega, by rw [h4, hL], ?_, ?_, h5, fun hrep => h7 hrep hnr hx⟩
  · rw [ratioPair_eq, h4, hL]
  · intro ops'' hw''
    rw [hcost']; exact hmin ops'' hw''

/-- **Captured LCS diffs are minimal**, in the same total form -/
theorem capture_lcs_minimal_total (E : Env) (repair : Bool) (os oe ns ne : Nat) (w : World)
    (ho : os ≤ oe) (hn : ns ≤ ne) (hb : InBounds E os oe ns ne) (hclk : w.clock = none) :
    ∃ ops w', captureDiff .lcs E repair os oe ns ne w = .ok (ops, w') ∧
      Walk (eqB E) os ns ops oe ne ∧
      Spec.cost ops = (oe - os) + (ne - ns) - 2 * lcsLen (eqB E) (oe - os) (ne - ns) os ns ∧
      nEq ops = lcsLen (eqB E) (oe - os) (ne - ns) os ns ∧
      ratioPair ops (oe - os) (ne - ns) =
        (2 * lcsLen (eqB E) (oe - os) (ne - ns) os ns, (oe - os) + (ne - ns)) ∧
      (∀ ops'', Walk (eqB E) os ns ops'' oe ne → Spec.cost ops ≤ Spec.cost ops'') ∧
      Alternating ops := by
  obtain ⟨raw, w1, h, hwr, hx, hL, hcost, hcost2⟩ := LcsMin.lcs_minimal E os oe ns ne w ho hn hb hclk
  have hraw : rawTrace .lcs E os oe ns ne w = .ok ({ trace := raw.map Call.op ++ [.finish] }, w1) := by
    simpa [rawTrace, diffWith] using h
  obtain ⟨ops, w', hc, h1, h2, h3, h4, h5, -, -⟩ :=
    capture_total_gen .lcs E repair os oe ns ne w raw w1 hraw hwr
      (LcsP.exact_carried _ raw os ns oe ne hwr hx) hb
  have hcost' : Spec.cost ops = Spec.cost raw := by simp only [Spec.cost, h2, h3]
  refine ⟨ops, w', hc, h1, by rw [hcost', hcost], by rw [h4, hL], ?_, ?_, h5⟩
  · rw [ratioPair_eq, h4, hL]
  · intro ops'' hw''
    have := LcsMin.walk_cost_lower hw''
    rw [hcost']; omega

end SimilarVerif.CaptureMin

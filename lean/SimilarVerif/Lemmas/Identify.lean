import SimilarVerif.Model.TextDiff
/-!
# `IdentifyDistinct` and the 100-token switch of `TextDiffConfig::diff` (property C14)

For an environment whose three relations are an equality pattern on the caller's ranges
(`EqPatternWith` / `EqPattern`), `identifyDistinct` is total, keeps the ranges, gives equal ids exactly
to equal items (within and across sides), numbers the ids `0,1,2,…` in first-seen order, and the
environment of the id arrays is the environment of the tokens, so `textDiffOps` is `captureDiff` on the
tokens for every size.
-/
namespace SimilarVerif.IdentP
open SimilarVerif
set_option linter.unusedSectionVars false

/-! ## first-seen numbering of a sequence `c : Nat → α` -/
section Numbering
variable {α : Type} [BEq α] [LawfulBEq α]

/-- position `q` carries an item that occurs at no earlier position -/
def fresh (c : Nat → α) (q : Nat) : Bool := (List.range q).all fun q' => !(c q' == c q)

/-- number of distinct items among positions `[0, n)` (= number of first occurrences) -/
def cntFresh (c : Nat → α) : Nat → Nat
  | 0 => 0
  | n+1 => cntFresh c n + (if fresh c n then 1 else 0)

/-- least `k' ≥ k` with `P k'`, searching at most `fuel` positions (`k + fuel` if none) -/
def lowest (P : Nat → Bool) : (fuel k : Nat) → Nat
  | 0, k => k
  | f+1, k => if P k then k else lowest P f (k+1)

/-- first occurrence of the item at position `p` -/
def firstIdx (c : Nat → α) (p : Nat) : Nat := lowest (fun q => c q == c p) p 0

/-- the first-seen number of the item at position `p`: the number of distinct items seen strictly
before its first occurrence -/
def specId (c : Nat → α) (p : Nat) : Nat := cntFresh c (firstIdx c p)

/-- the old range followed by the new range, as one sequence of labels -/
def comb (lo ln : Nat → α) (os oe ns : Nat) : Nat → α :=
  fun p => if p < oe - os then lo (os + p) else ln (ns + (p - (oe - os)))

end Numbering

/-- The three relations of `E` are an equality pattern on `[os,oe)` / `[ns,ne)` with labels `lo`, `ln`
(in particular every comparison inside the ranges is in bounds). -/
structure EqPatternWith {α : Type} [BEq α] [LawfulBEq α] (E : Env) (os oe ns ne : Nat) (lo ln : Nat → α) : Prop where
  oo : ∀ i j, os ≤ i → i < oe → os ≤ j → j < oe → E.oo i j = some (lo i == lo j)
  nn : ∀ i j, ns ≤ i → i < ne → ns ≤ j → j < ne → E.nn i j = some (ln i == ln j)
  on : ∀ i j, os ≤ i → i < oe → ns ≤ j → j < ne → E.on i j = some (ln j == lo i)

/-- the hypothesis of C14: some labelling by natural numbers exists -/
def EqPattern (E : Env) (os oe ns ne : Nat) : Prop :=
  ∃ lo ln : Nat → Nat, EqPatternWith E os oe ns ne lo ln

/-! ## facts about the numbering -/
section NumberingLemmas
variable {α : Type} [BEq α] [LawfulBEq α]

theorem fresh_iff (c : Nat → α) (q : Nat) : fresh c q = true ↔ ∀ q', q' < q → c q' ≠ c q := by
  simp [fresh]

theorem not_fresh_of_eq {c : Nat → α} {k p : Nat} (hk : k < p) (h : c k = c p) : fresh c p = false := by
  cases hf : fresh c p with
  | false => rfl
  | true => exact absurd h ((fresh_iff c p).1 hf k hk)

theorem lowest_spec (P : Nat → Bool) : ∀ (fuel k : Nat),
    k ≤ lowest P fuel k ∧ lowest P fuel k ≤ k + fuel ∧
    (lowest P fuel k < k + fuel → P (lowest P fuel k) = true) ∧
    (∀ q, k ≤ q → q < lowest P fuel k → P q = false) := by
  intro fuel
  induction fuel with
  | zero => intro k; simp only [lowest]; refine ⟨Nat.le_refl _, Nat.le_refl _, ?_, ?_⟩ <;> intros <;> omega
  | succ f ih =>
    intro k
    simp only [lowest]
    by_cases hP : P k = true
    · simp only [hP, if_true]
      refine ⟨Nat.le_refl _, by omega, fun _ => trivial, ?_⟩
      intros; omega
    · have hP' : P k = false := by simpa using hP
      simp only [hP', Bool.false_eq_true, if_false]
      obtain ⟨h1, h2, h3, h4⟩ := ih (k+1)
      refine ⟨by omega, by omega, fun h => h3 (by omega), ?_⟩
      intro q hq1 hq2
      by_cases hqk : q = k
      · subst hqk; exact hP'
      · exact h4 q (by omega) hq2

theorem firstIdx_le (c : Nat → α) (p : Nat) : firstIdx c p ≤ p := by
  have := (lowest_spec (fun q => c q == c p) p 0).2.1
  simpa [firstIdx] using this

theorem firstIdx_eq (c : Nat → α) (p : Nat) : c (firstIdx c p) = c p := by
  obtain ⟨_, h2, h3, _⟩ := lowest_spec (fun q => c q == c p) p 0
  by_cases h : firstIdx c p < p
  · have := h3 (by simpa [firstIdx] using h)
    simpa [firstIdx] using this
  · have : firstIdx c p = p := by have := firstIdx_le c p; omega
    rw [this]

theorem firstIdx_min (c : Nat → α) (p q : Nat) (hq : q < firstIdx c p) : c q ≠ c p := by
  have := (lowest_spec (fun q => c q == c p) p 0).2.2.2 q (Nat.zero_le _) (by simpa [firstIdx] using hq)
  simpa using this

theorem firstIdx_fresh (c : Nat → α) (p : Nat) : fresh c (firstIdx c p) = true := by
  rw [fresh_iff]; intro q hq; rw [firstIdx_eq c p]; exact firstIdx_min c p q hq

/-- the first occurrence is determined by the item -/
theorem firstIdx_congr {c : Nat → α} {p q : Nat} (h : c p = c q) : firstIdx c p = firstIdx c q := by
  have h1 := firstIdx_min c p (firstIdx c q)
  have h2 := firstIdx_min c q (firstIdx c p)
  have e1 := firstIdx_eq c p
  have e2 := firstIdx_eq c q
  by_cases a : firstIdx c q < firstIdx c p
  · exact absurd (e2.trans h.symm) (h1 a)
  · by_cases b : firstIdx c p < firstIdx c q
    · exact absurd (e1.trans h) (h2 b)
    · omega

theorem firstIdx_of_fresh {c : Nat → α} {p : Nat} (h : fresh c p = true) : firstIdx c p = p := by
  have hle := firstIdx_le c p
  by_cases hlt : firstIdx c p < p
  · exact absurd (firstIdx_eq c p) ((fresh_iff c p).1 h _ hlt)
  · omega

theorem cntFresh_mono (c : Nat → α) {a b : Nat} (h : a ≤ b) : cntFresh c a ≤ cntFresh c b := by
  induction b with
  | zero => have : a = 0 := by omega
            subst this; exact Nat.le_refl _
  | succ b ih =>
    by_cases hab : a = b + 1
    · subst hab; exact Nat.le_refl _
    · have := ih (by omega); simp only [cntFresh]; omega

theorem cntFresh_lt (c : Nat → α) {a b : Nat} (h : a < b) (hf : fresh c a = true) : cntFresh c a < cntFresh c b := by
  have h1 : cntFresh c (a+1) = cntFresh c a + 1 := by simp [cntFresh, hf]
  have h2 := cntFresh_mono c (a := a+1) (b := b) h
  omega

theorem cntFresh_le (c : Nat → α) (n : Nat) : cntFresh c n ≤ n := by
  induction n with
  | zero => simp [cntFresh]
  | succ n ih => simp only [cntFresh]; split <;> omega

theorem specId_congr {c : Nat → α} {p q : Nat} (h : c p = c q) : specId c p = specId c q := by
  simp only [specId, firstIdx_congr h]

/-- equal numbers exactly for equal items -/
theorem specId_eq_iff (c : Nat → α) (p q : Nat) : specId c p = specId c q ↔ c p = c q := by
  refine ⟨fun h => ?_, specId_congr⟩
  have fa := firstIdx_fresh c p
  have fb := firstIdx_fresh c q
  have hab : firstIdx c p = firstIdx c q := by
    by_cases h1 : firstIdx c p < firstIdx c q
    · have := cntFresh_lt c h1 fa; simp only [specId] at h; omega
    · by_cases h2 : firstIdx c q < firstIdx c p
      · have := cntFresh_lt c h2 fb; simp only [specId] at h; omega
      · omega
  rw [← firstIdx_eq c p, ← firstIdx_eq c q, hab]

theorem specId_of_fresh {c : Nat → α} {p : Nat} (h : fresh c p = true) : specId c p = cntFresh c p := by
  simp only [specId, firstIdx_of_fresh h]

/-- every number is below the number of distinct items of any prefix containing the position -/
theorem specId_lt (c : Nat → α) {p n : Nat} (h : p < n) : specId c p < cntFresh c n :=
  cntFresh_lt c (Nat.lt_of_le_of_lt (firstIdx_le c p) h) (firstIdx_fresh c p)

/-- numbers are handed out in order of first occurrence -/
theorem specId_lt_of_first_lt (c : Nat → α) {p q : Nat} (h : firstIdx c p < firstIdx c q) : specId c p < specId c q :=
  cntFresh_lt c h (firstIdx_fresh c p)

/-- loop invariant: `ids` holds the numbers of positions `[off, off+n)` and `next` is the next fresh number -/
def Good (c : Nat → α) (off : Nat) (ids : Array Nat) (n next : Nat) : Prop :=
  ids.size = n ∧ next = cntFresh c (off + n) ∧ ∀ p, p < n → ids.getD p 0 = specId c (off + p)

theorem getD_push (ids : Array Nat) (x p : Nat) :
    (ids.push x).getD p 0 = if p < ids.size then ids.getD p 0 else if p = ids.size then x else 0 := by
  simp only [Array.getD_eq_getD_getElem?, Array.getElem?_push]
  by_cases h1 : p < ids.size
  · have : ¬ p = ids.size := by omega
    simp [h1, this]
  · by_cases h2 : p = ids.size
    · simp [h2]
    · have : ids[p]? = none := by simp; omega
      simp [h1, h2]

theorem good_push_val {c : Nat → α} {off : Nat} {ids : Array Nat} {n next v : Nat} (g : Good c off ids n next)
    (hv : v = specId c (off + n)) (hf : fresh c (off + n) = false) : Good c off (ids.push v) (n+1) next := by
  obtain ⟨g1, g2, g3⟩ := g
  refine ⟨by simp [g1], ?_, ?_⟩
  · rw [g2, ← Nat.add_assoc]; simp [cntFresh, hf]
  · intro p hp
    rw [getD_push, g1]
    by_cases h1 : p < n
    · simp only [h1, if_true]; exact g3 p h1
    · have : p = n := by omega
      subst this; simp [hv]

theorem good_push_fresh {c : Nat → α} {off : Nat} {ids : Array Nat} {n next : Nat} (g : Good c off ids n next)
    (hf : fresh c (off + n) = true) : Good c off (ids.push next) (n+1) (next+1) := by
  obtain ⟨g1, g2, g3⟩ := g
  refine ⟨by simp [g1], ?_, ?_⟩
  · rw [g2, ← Nat.add_assoc]; simp [cntFresh, hf]
  · intro p hp
    rw [getD_push, g1]
    by_cases h1 : p < n
    · simp only [h1, if_true]; exact g3 p h1
    · have : p = n := by omega
      subst this; simp [g2, specId_of_fresh hf]

end NumberingLemmas

/-- what `firstEq` returns: a hit is inside `[k, k+cnt)`, compares `some true`, and nothing before it does;
a miss means nothing in `[k, k+cnt)` compares `some true` -/
theorem firstEq_spec (eq : Nat → Nat → Option Bool) (i : Nat) : ∀ (cnt k : Nat),
    (∀ r, firstEq eq i cnt k = some r → k ≤ r ∧ r < k + cnt ∧ eq r i = some true ∧ ∀ q, k ≤ q → q < r → eq q i ≠ some true) ∧
    (firstEq eq i cnt k = none → ∀ q, k ≤ q → q < k + cnt → eq q i ≠ some true) := by
  intro cnt
  induction cnt with
  | zero =>
    intro k; simp only [firstEq]
    refine ⟨fun r h => (by cases h), ?_⟩
    intros; omega
  | succ cnt ih =>
    intro k
    simp only [firstEq]
    by_cases hk : eq k i = some true
    · simp only [hk, beq_self_eq_true, if_true]
      refine ⟨?_, fun h => (by cases h)⟩
      intro r h; cases h
      exact ⟨Nat.le_refl _, by omega, hk, by intros; omega⟩
    · have hk' : (eq k i == some true) = false := by simpa using hk
      simp only [hk', Bool.false_eq_true, if_false]
      obtain ⟨a, b⟩ := ih (k+1)
      refine ⟨?_, ?_⟩
      · intro r h
        obtain ⟨a1, a2, a3, a4⟩ := a r h
        refine ⟨by omega, by omega, a3, ?_⟩
        intro q hq1 hq2
        by_cases hqk : q = k
        · subst hqk; exact hk
        · exact a4 q (by omega) hq2
      · intro h q hq1 hq2
        by_cases hqk : q = k
        · subst hqk; exact hk
        · exact b h q (by omega) (by omega)

/-! ## the two loops of `IdentifyDistinct::new` -/
section Loops
variable {α : Type} [BEq α] [LawfulBEq α]

theorem comb_old (lo ln : Nat → α) (os oe ns : Nat) {p : Nat} (h : p < oe - os) :
    comb lo ln os oe ns p = lo (os + p) := by simp [comb, h]

theorem comb_new (lo ln : Nat → α) (os oe ns p : Nat) :
    comb lo ln os oe ns (oe - os + p) = ln (ns + p) := by
  have : ¬ (oe - os + p < oe - os) := by omega
  simp [comb, this]

theorem identifyOld_good {E : Env} {os oe ns ne : Nat} {lo ln : Nat → α} (P : EqPatternWith E os oe ns ne lo ln) :
    ∀ (cnt n : Nat) (ids : Array Nat) (next : Nat), n + cnt = oe - os →
      Good (comb lo ln os oe ns) 0 ids n next →
      ∃ ids' next', identifyOld E os cnt (os + n) ids next = some (ids', next') ∧
        Good (comb lo ln os oe ns) 0 ids' (oe - os) next' := by
  intro cnt
  induction cnt with
  | zero =>
    intro n ids next hn g
    have : n = oe - os := by omega
    subst this
    exact ⟨ids, next, by simp [identifyOld], g⟩
  | succ cnt ih =>
    intro n ids next hn g
    have hi1 : os ≤ os + n := by omega
    have hi2 : os + n < oe := by omega
    have hnlt : n < oe - os := by omega
    simp only [identifyOld, P.oo _ _ hi1 hi2 hi1 hi2, Nat.add_sub_cancel_left, Nat.add_assoc]
    obtain ⟨fs, fn⟩ := firstEq_spec E.oo (os + n) n os
    cases hf : firstEq E.oo (os + n) n os with
    | some k =>
      simp only []
      obtain ⟨k1, k2, k3, _⟩ := fs k hf
      rw [P.oo k (os+n) k1 (by omega) hi1 hi2] at k3
      have hlab : lo k = lo (os + n) := by simpa using k3
      have hk : k - os < n := by omega
      have hc : comb lo ln os oe ns (k - os) = comb lo ln os oe ns n := by
        rw [comb_old lo ln os oe ns (by omega : k - os < oe - os), comb_old lo ln os oe ns hnlt]
        rw [show os + (k - os) = k by omega]; exact hlab
      refine ih (n+1) _ next (by omega) (good_push_val g ?_ ?_)
      · have := g.2.2 (k - os) hk
        rw [this]; simp only [Nat.zero_add]; exact specId_congr hc
      · simp only [Nat.zero_add]; exact not_fresh_of_eq hk hc
    | none =>
      simp only []
      refine ih (n+1) _ (next+1) (by omega) (good_push_fresh g ?_)
      simp only [Nat.zero_add]
      rw [fresh_iff]
      intro q hq
      rw [comb_old lo ln os oe ns (by omega : q < oe - os), comb_old lo ln os oe ns hnlt]
      have := fn hf (os + q) (by omega) (by omega)
      rw [P.oo (os+q) (os+n) (by omega) (by omega) hi1 hi2] at this
      simpa using this

theorem identifyNew_good {E : Env} {os oe ns ne : Nat} {lo ln : Nat → α} (P : EqPatternWith E os oe ns ne lo ln)
    {oldIds : Array Nat} {nextO : Nat} (gO : Good (comb lo ln os oe ns) 0 oldIds (oe - os) nextO) :
    ∀ (cnt m : Nat) (ids : Array Nat) (next : Nat), m + cnt = ne - ns →
      Good (comb lo ln os oe ns) (oe - os) ids m next →
      ∃ ids' next', identifyNew E os oe ns oldIds cnt (ns + m) ids next = some (ids', next') ∧
        Good (comb lo ln os oe ns) (oe - os) ids' (ne - ns) next' := by
  intro cnt
  induction cnt with
  | zero =>
    intro m ids next hm g
    have : m = ne - ns := by omega
    subst this
    exact ⟨ids, next, by simp [identifyNew], g⟩
  | succ cnt ih =>
    intro m ids next hm g
    have hj1 : ns ≤ ns + m := by omega
    have hj2 : ns + m < ne := by omega
    have hcj : comb lo ln os oe ns (oe - os + m) = ln (ns + m) := comb_new lo ln os oe ns m
    simp only [identifyNew, P.nn _ _ hj1 hj2 hj1 hj2, Nat.add_sub_cancel_left, Nat.add_assoc]
    obtain ⟨fs, fn⟩ := firstEq_spec (fun k j => E.on k j) (ns + m) (oe - os) os
    cases hf : firstEq (fun k j => E.on k j) (ns + m) (oe - os) os with
    | some k =>
      simp only []
      obtain ⟨k1, k2, k3, _⟩ := fs k hf
      have k2' : k < oe := by omega
      simp only [P.on k (ns+m) k1 k2' hj1 hj2] at k3
      have hlab : ln (ns + m) = lo k := by simpa using k3
      have hc : comb lo ln os oe ns (k - os) = comb lo ln os oe ns (oe - os + m) := by
        rw [comb_old lo ln os oe ns (by omega : k - os < oe - os), hcj]
        rw [show os + (k - os) = k by omega]; exact hlab.symm
      refine ih (m+1) _ next (by omega) (good_push_val g ?_ ?_)
      · have := gO.2.2 (k - os) (by omega)
        rw [this]; simp only [Nat.zero_add]; exact specId_congr hc
      · exact not_fresh_of_eq (by omega) hc
    | none =>
      simp only []
      have fn' := fn hf
      obtain ⟨gs, gn⟩ := firstEq_spec E.nn (ns + m) m ns
      cases hg : firstEq E.nn (ns + m) m ns with
      | some k =>
        simp only []
        obtain ⟨k1, k2, k3, _⟩ := gs k hg
        rw [P.nn k (ns+m) k1 (by omega) hj1 hj2] at k3
        have hlab : ln k = ln (ns + m) := by simpa using k3
        have hc : comb lo ln os oe ns (oe - os + (k - ns)) = comb lo ln os oe ns (oe - os + m) := by
          rw [comb_new, hcj, show ns + (k - ns) = k by omega]; exact hlab
        refine ih (m+1) _ next (by omega) (good_push_val g ?_ ?_)
        · have := g.2.2 (k - ns) (by omega)
          rw [this]; exact specId_congr hc
        · exact not_fresh_of_eq (by omega) hc
      | none =>
        simp only []
        refine ih (m+1) _ (next+1) (by omega) (good_push_fresh g ?_)
        rw [fresh_iff]
        intro q hq
        rw [hcj]
        by_cases hqo : q < oe - os
        · rw [comb_old lo ln os oe ns hqo]
          have := fn' (os + q) (by omega) (by omega)
          simp only [P.on (os+q) (ns+m) (by omega) (by omega) hj1 hj2] at this
          intro e; apply this; simp [e]
        · have hq' : q = oe - os + (q - (oe - os)) := by omega
          rw [hq', comb_new]
          have := gn hg (ns + (q - (oe - os))) (by omega) (by omega)
          rw [P.nn _ (ns+m) (by omega) (by omega) hj1 hj2] at this
          simpa using this

end Loops

/-! ## `identifyDistinct` -/
section Main
variable {α : Type} [BEq α] [LawfulBEq α]

/-- master statement: total, sizes kept, every id is the first-seen number of its item in the
sequence "old range then new range" -/
theorem identifyDistinct_spec {E : Env} {os oe ns ne : Nat} {lo ln : Nat → α} (P : EqPatternWith E os oe ns ne lo ln) :
    ∃ io i_n, identifyDistinct E os oe ns ne = some (io, i_n) ∧ io.size = oe - os ∧ i_n.size = ne - ns ∧
      (∀ i, os ≤ i → i < oe → io[i - os]! = specId (comb lo ln os oe ns) (i - os)) ∧
      (∀ j, ns ≤ j → j < ne → i_n[j - ns]! = specId (comb lo ln os oe ns) (oe - os + (j - ns))) := by
  have g0 : Good (comb lo ln os oe ns) 0 #[] 0 0 := ⟨rfl, rfl, fun p hp => by omega⟩
  obtain ⟨io, nextO, h1, gO⟩ := identifyOld_good P (oe - os) 0 #[] 0 (by omega) g0
  have g1 : Good (comb lo ln os oe ns) (oe - os) #[] 0 nextO :=
    ⟨rfl, by rw [gO.2.1]; simp, fun p hp => by omega⟩
  obtain ⟨i_n, nextN, h2, gN⟩ := identifyNew_good P gO (ne - ns) 0 #[] nextO (by omega) g1
  refine ⟨io, i_n, ?_, gO.1, gN.1, ?_, ?_⟩
  · simp only [Nat.add_zero] at h1 h2
    simp only [identifyDistinct, h1, h2]
  · intro i hi1 hi2
    rw [Array.getElem!_eq_getD]
    have := gO.2.2 (i - os) (by omega)
    simpa using this
  · intro j hj1 hj2
    rw [Array.getElem!_eq_getD]
    exact gN.2.2 (j - ns) (by omega)

/-- (1) totality and sizes: the integer mapping keeps the caller's index ranges -/
theorem identifyDistinct_total {E : Env} {os oe ns ne : Nat} {lo ln : Nat → α} (P : EqPatternWith E os oe ns ne lo ln) :
    ∃ io i_n, identifyDistinct E os oe ns ne = some (io, i_n) ∧ io.size = oe - os ∧ i_n.size = ne - ns := by
  obtain ⟨io, i_n, h, s1, s2, _⟩ := identifyDistinct_spec P
  exact ⟨io, i_n, h, s1, s2⟩

theorem identifyDistinct_sizes {E : Env} {os oe ns ne : Nat} {lo ln : Nat → α} (P : EqPatternWith E os oe ns ne lo ln)
    {io i_n : Array Nat} (h : identifyDistinct E os oe ns ne = some (io, i_n)) :
    io.size = oe - os ∧ i_n.size = ne - ns := by
  obtain ⟨io', i_n', h', s1, s2, _⟩ := identifyDistinct_spec P
  rw [h] at h'; cases h'; exact ⟨s1, s2⟩

/-- (3) ids are `0,1,2,…` in first-seen order, old range first, then new range: the id of an item is
the number of distinct items seen strictly before its first occurrence (`specId`), hence below the
number of distinct items (`cntFresh` of the whole sequence). -/
theorem identifyDistinct_firstSeen {E : Env} {os oe ns ne : Nat} {lo ln : Nat → α} (P : EqPatternWith E os oe ns ne lo ln)
    {io i_n : Array Nat} (h : identifyDistinct E os oe ns ne = some (io, i_n)) :
    (∀ i, os ≤ i → i < oe → io[i - os]! = specId (comb lo ln os oe ns) (i - os) ∧
        io[i - os]! < cntFresh (comb lo ln os oe ns) (oe - os + (ne - ns))) ∧
    (∀ j, ns ≤ j → j < ne → i_n[j - ns]! = specId (comb lo ln os oe ns) (oe - os + (j - ns)) ∧
        i_n[j - ns]! < cntFresh (comb lo ln os oe ns) (oe - os + (ne - ns))) := by
  obtain ⟨io', i_n', h', _, _, a, b⟩ := identifyDistinct_spec P
  rw [h] at h'; cases h'
  refine ⟨fun i h1 h2 => ⟨a i h1 h2, ?_⟩, fun j h1 h2 => ⟨b j h1 h2, ?_⟩⟩
  · rw [a i h1 h2]; exact specId_lt _ (by omega)
  · rw [b j h1 h2]; exact specId_lt _ (by omega)

/-- (2) equal ids exactly for equal items, within each side and across the sides -/
theorem identifyDistinct_ids_eq_iff {E : Env} {os oe ns ne : Nat} {lo ln : Nat → α} (P : EqPatternWith E os oe ns ne lo ln)
    {io i_n : Array Nat} (h : identifyDistinct E os oe ns ne = some (io, i_n)) :
    (∀ i j, os ≤ i → i < oe → os ≤ j → j < oe → (io[i - os]! = io[j - os]! ↔ lo i = lo j)) ∧
    (∀ i j, ns ≤ i → i < ne → ns ≤ j → j < ne → (i_n[i - ns]! = i_n[j - ns]! ↔ ln i = ln j)) ∧
    (∀ i j, os ≤ i → i < oe → ns ≤ j → j < ne → (i_n[j - ns]! = io[i - os]! ↔ ln j = lo i)) := by
  obtain ⟨io', i_n', h', _, _, a, b⟩ := identifyDistinct_spec P
  rw [h] at h'; cases h'
  have co : ∀ i, os ≤ i → i < oe → comb lo ln os oe ns (i - os) = lo i := fun i h1 h2 => by
    rw [comb_old lo ln os oe ns (by omega : i - os < oe - os), show os + (i - os) = i by omega]
  have cn : ∀ j, ns ≤ j → j < ne → comb lo ln os oe ns (oe - os + (j - ns)) = ln j := fun j h1 h2 => by
    rw [comb_new, show ns + (j - ns) = j by omega]
  refine ⟨?_, ?_, ?_⟩
  · intro i j hi1 hi2 hj1 hj2
    rw [a i hi1 hi2, a j hj1 hj2, specId_eq_iff, co i hi1 hi2, co j hj1 hj2]
  · intro i j hi1 hi2 hj1 hj2
    rw [b i hi1 hi2, b j hj1 hj2, specId_eq_iff, cn i hi1 hi2, cn j hj1 hj2]
  · intro i j hi1 hi2 hj1 hj2
    rw [a i hi1 hi2, b j hj1 hj2, specId_eq_iff, co i hi1 hi2, cn j hj1 hj2]

end Main

/-! ## the two instances of the hypothesis -/

theorem eqPatternWith_ofSeqs (a b : Array Nat) (oOff nOff os oe ns ne : Nat)
    (ho : oOff ≤ os) (hoe : oe ≤ oOff + a.size) (hn : nOff ≤ ns) (hne : ne ≤ nOff + b.size) :
    EqPatternWith (Env.ofSeqs a b oOff nOff) os oe ns ne (fun i => a.getD (i - oOff) 0) (fun j => b.getD (j - nOff) 0) := by
  have ga : ∀ i, os ≤ i → i < oe → ¬ i < oOff ∧ a[i - oOff]? = some (a.getD (i - oOff) 0) := fun i h1 h2 => by
    refine ⟨by omega, ?_⟩
    have : i - oOff < a.size := by omega
    simp [Array.getD_eq_getD_getElem?, this]
  have gb : ∀ j, ns ≤ j → j < ne → ¬ j < nOff ∧ b[j - nOff]? = some (b.getD (j - nOff) 0) := fun j h1 h2 => by
    refine ⟨by omega, ?_⟩
    have : j - nOff < b.size := by omega
    simp [Array.getD_eq_getD_getElem?, this]
  refine ⟨?_, ?_, ?_⟩
  · intro i j hi1 hi2 hj1 hj2
    obtain ⟨i1, i2⟩ := ga i hi1 hi2
    obtain ⟨j1, j2⟩ := ga j hj1 hj2
    simp only [Env.ofSeqs, i1, j1, i2, j2, if_false, Option.bind_eq_bind, Option.bind_some, Option.pure_def]
  · intro i j hi1 hi2 hj1 hj2
    obtain ⟨i1, i2⟩ := gb i hi1 hi2
    obtain ⟨j1, j2⟩ := gb j hj1 hj2
    simp only [Env.ofSeqs, i1, j1, i2, j2, if_false, Option.bind_eq_bind, Option.bind_some, Option.pure_def]
  · intro i j hi1 hi2 hj1 hj2
    obtain ⟨i1, i2⟩ := ga i hi1 hi2
    obtain ⟨j1, j2⟩ := gb j hj1 hj2
    simp only [Env.ofSeqs, i1, j1, i2, j2, if_false, Option.bind_eq_bind, Option.bind_some, Option.pure_def]

theorem eqPattern_ofSeqs (a b : Array Nat) (oOff nOff os oe ns ne : Nat)
    (ho : oOff ≤ os) (hoe : oe ≤ oOff + a.size) (hn : nOff ≤ ns) (hne : ne ≤ nOff + b.size) :
    EqPattern (Env.ofSeqs a b oOff nOff) os oe ns ne :=
  ⟨_, _, eqPatternWith_ofSeqs a b oOff nOff os oe ns ne ho hoe hn hne⟩

theorem eqPatternWith_ofTokens (old new : Array Bytes) (os oe ns ne : Nat) (hoe : oe ≤ old.size) (hne : ne ≤ new.size) :
    EqPatternWith (Env.ofTokens old new) os oe ns ne (fun i => old.getD i []) (fun j => new.getD j []) := by
  have ga : ∀ i, i < oe → old[i]? = some (old.getD i []) := fun i h => by
    have : i < old.size := by omega
    simp [Array.getD_eq_getD_getElem?, this]
  have gb : ∀ j, j < ne → new[j]? = some (new.getD j []) := fun j h => by
    have : j < new.size := by omega
    simp [Array.getD_eq_getD_getElem?, this]
  refine ⟨?_, ?_, ?_⟩
  · intro i j _ hi2 _ hj2; simp only [Env.ofTokens, ga i hi2, ga j hj2]
  · intro i j _ hi2 _ hj2; simp only [Env.ofTokens, gb i hi2, gb j hj2]
  · intro i j _ hi2 _ hj2; simp only [Env.ofTokens, ga i hi2, gb j hj2]

/-- relabelling along an injective map keeps the pattern -/
theorem EqPatternWith.map {α β : Type} [BEq α] [LawfulBEq α] [BEq β] [LawfulBEq β] {E : Env} {os oe ns ne : Nat}
    {lo ln : Nat → α} (P : EqPatternWith E os oe ns ne lo ln) (f : α → β) (hf : ∀ x y, f x = f y → x = y) :
    EqPatternWith E os oe ns ne (fun i => f (lo i)) (fun j => f (ln j)) := by
  have key : ∀ x y : α, (f x == f y) = (x == y) := fun x y => by
    by_cases h : x = y
    · subst h; simp
    · have : f x ≠ f y := fun e => h (hf _ _ e)
      rw [beq_eq_false_iff_ne.2 h, beq_eq_false_iff_ne.2 this]
  refine ⟨?_, ?_, ?_⟩
  · intro i j h1 h2 h3 h4; rw [P.oo i j h1 h2 h3 h4, key]
  · intro i j h1 h2 h3 h4; rw [P.nn i j h1 h2 h3 h4, key]
  · intro i j h1 h2 h3 h4; rw [P.on i j h1 h2 h3 h4, key]

/-- an injective encoding of byte strings as natural numbers -/
def encBytes : Bytes → Nat
  | [] => 0
  | b :: bs => (b.toNat + 1) + 257 * encBytes bs

theorem encBytes_inj : ∀ x y : Bytes, encBytes x = encBytes y → x = y := by
  intro x
  induction x with
  | nil => intro y h; cases y with
    | nil => rfl
    | cons c cs => simp only [encBytes] at h; omega
  | cons b bs ih =>
    intro y h
    cases y with
    | nil => simp only [encBytes] at h; omega
    | cons c cs =>
      simp only [encBytes] at h
      have hb := b.toNat_lt
      have hc := c.toNat_lt
      have h1 : b.toNat = c.toNat := by omega
      have h2 : encBytes bs = encBytes cs := by omega
      rw [ih cs h2, UInt8.toNat_inj.1 h1]

theorem eqPattern_ofTokens (old new : Array Bytes) (os oe ns ne : Nat) (hoe : oe ≤ old.size) (hne : ne ≤ new.size) :
    EqPattern (Env.ofTokens old new) os oe ns ne :=
  ⟨_, _, (eqPatternWith_ofTokens old new os oe ns ne hoe hne).map encBytes encBytes_inj⟩

/-! ## (4) the switch to integers is invisible -/

theorem getElem?_eq_ite_getD {β : Type} (a : Array β) (d : β) (i : Nat) :
    a[i]? = if i < a.size then some (a.getD i d) else none := by
  by_cases h : i < a.size
  · simp [Array.getD_eq_getD_getElem?, h]
  · simp [h]

theorem beq_eq_beq_of_iff {α β : Type} [BEq α] [LawfulBEq α] [BEq β] [LawfulBEq β] {a b : α} {x y : β}
    (h : a = b ↔ x = y) : (a == b) = (x == y) := by
  rw [Bool.eq_iff_iff]; simp only [beq_iff_eq]; exact h

/-- the environment of the id arrays is the environment of the tokens (equal as functions) -/
theorem ofSeqs_identify_eq_ofTokens (old new : Array Bytes) {io i_n : Array Nat}
    (h : identifyDistinct (Env.ofTokens old new) 0 old.size 0 new.size = some (io, i_n)) :
    Env.ofSeqs io i_n 0 0 = Env.ofTokens old new := by
  have P := eqPatternWith_ofTokens old new 0 old.size 0 new.size (Nat.le_refl _) (Nat.le_refl _)
  obtain ⟨s1, s2⟩ := identifyDistinct_sizes P h
  obtain ⟨e1, e2, e3⟩ := identifyDistinct_ids_eq_iff P h
  simp only [Nat.sub_zero, Array.getElem!_eq_getD] at s1 s2 e1 e2 e3
  have b1 : ∀ i j, i < old.size → j < old.size → (io.getD i 0 == io.getD j 0) = (old.getD i [] == old.getD j []) :=
    fun i j hi hj => beq_eq_beq_of_iff (e1 i j (Nat.zero_le _) hi (Nat.zero_le _) hj)
  have b2 : ∀ i j, i < new.size → j < new.size → (i_n.getD i 0 == i_n.getD j 0) = (new.getD i [] == new.getD j []) :=
    fun i j hi hj => beq_eq_beq_of_iff (e2 i j (Nat.zero_le _) hi (Nat.zero_le _) hj)
  have b3 : ∀ i j, i < old.size → j < new.size → (i_n.getD j 0 == io.getD i 0) = (new.getD j [] == old.getD i []) :=
    fun i j hi hj => beq_eq_beq_of_iff (e3 i j (Nat.zero_le _) hi (Nat.zero_le _) hj)
  simp only [Env.ofSeqs, Env.ofTokens, Env.mk.injEq, Nat.not_lt_zero, if_false, Nat.sub_zero]
  refine ⟨?_, ?_, ?_⟩
  · funext i j
    rw [getElem?_eq_ite_getD io 0 i, getElem?_eq_ite_getD i_n 0 j, getElem?_eq_ite_getD old [] i,
      getElem?_eq_ite_getD new [] j, s1, s2]
    by_cases hi : i < old.size <;> by_cases hj : j < new.size <;>
      simp only [hi, hj, if_true, if_false, Option.bind_eq_bind, Option.bind_some, Option.bind_none, Option.pure_def]
    rw [b3 i j hi hj]
  · funext i j
    rw [getElem?_eq_ite_getD io 0 i, getElem?_eq_ite_getD io 0 j, getElem?_eq_ite_getD old [] i,
      getElem?_eq_ite_getD old [] j, s1]
    by_cases hi : i < old.size <;> by_cases hj : j < old.size <;>
      simp only [hi, hj, if_true, if_false, Option.bind_eq_bind, Option.bind_some, Option.bind_none, Option.pure_def]
    rw [b1 i j hi hj]
  · funext i j
    rw [getElem?_eq_ite_getD i_n 0 i, getElem?_eq_ite_getD i_n 0 j, getElem?_eq_ite_getD new [] i,
      getElem?_eq_ite_getD new [] j, s2]
    by_cases hi : i < new.size <;> by_cases hj : j < new.size <;>
      simp only [hi, hj, if_true, if_false, Option.bind_eq_bind, Option.bind_some, Option.bind_none, Option.pure_def]
    rw [b2 i j hi hj]

/-- C14, the switch: for every size (below and above 100 tokens) the ops of a text diff are the ops of
diffing the token slices directly with the same algorithm -/
theorem textDiffOps_eq_capture (alg : Alg) (repair : Bool) (old new : Array Bytes) (w : World) :
    textDiffOps alg repair old new w = captureDiff alg (Env.ofTokens old new) repair 0 old.size 0 new.size w := by
  unfold textDiffOps
  simp only []
  split
  · obtain ⟨io, i_n, h, _⟩ := identifyDistinct_total
      (eqPatternWith_ofTokens old new 0 old.size 0 new.size (Nat.le_refl _) (Nat.le_refl _))
    simp only [h, ofSeqs_identify_eq_ofTokens old new h]
  · rfl

/-- (1) under the existential form of the hypothesis -/
theorem identifyDistinct_total_of_eqPattern {E : Env} {os oe ns ne : Nat} (h : EqPattern E os oe ns ne) :
    ∃ io i_n, identifyDistinct E os oe ns ne = some (io, i_n) ∧ io.size = oe - os ∧ i_n.size = ne - ns := by
  obtain ⟨lo, ln, P⟩ := h
  exact identifyDistinct_total P

#print axioms identifyDistinct_total
#print axioms identifyDistinct_ids_eq_iff
#print axioms identifyDistinct_firstSeen
#print axioms eqPattern_ofSeqs
#print axioms eqPattern_ofTokens
#print axioms ofSeqs_identify_eq_ofTokens
#print axioms textDiffOps_eq_capture

end SimilarVerif.IdentP

import SimilarVerif.Model.F32
/-! Proofs about the soft-float model `SimilarVerif.F32` (Model/F32.lean): rounding is monotone,
`n as f32` is monotone / exact on 24-bit integers / commutes with doubling, the ratio
`2.0 * a as f32 / b as f32` is monotone in `a`, antitone in `b`, is `1.0` exactly when `2a = b` and is
below `0.5` exactly when `4a < b` (24-bit denominators), and the IEEE comparisons are the order of the bit
patterns on non-negative values and are monotone in the ratio argument for EVERY cutoff pattern.
Core Lean only. -/
namespace SimilarVerif.F32

/-! ## fractions compared by cross-multiplication -/

/-- `a/b ≤ c/d → c/d ≤ e/f → a/b ≤ e/f` -/
theorem frac_le_trans {a b c d e f : Nat} (h1 : a * d ≤ c * b) (h2 : c * f ≤ e * d) (hd : 0 < d) :
    a * f ≤ e * b := by
  apply Nat.le_of_mul_le_mul_right _ hd
  calc a * f * d = a * d * f := Nat.mul_right_comm _ _ _
    _ ≤ c * b * f := Nat.mul_le_mul_right _ h1
    _ = c * f * b := Nat.mul_right_comm _ _ _
    _ ≤ e * d * b := Nat.mul_le_mul_right _ h2
    _ = e * b * d := Nat.mul_right_comm _ _ _

/-- `a/b < c/d → c/d ≤ e/f → a/b < e/f` -/
theorem frac_lt_of_lt_of_le {a b c d e f : Nat} (h1 : a * d < c * b) (h2 : c * f ≤ e * d)
    (hf : 0 < f) : a * f < e * b := by
  apply Nat.lt_of_mul_lt_mul_right (a := d)
  calc a * f * d = a * d * f := Nat.mul_right_comm _ _ _
    _ < c * b * f := Nat.mul_lt_mul_of_pos_right h1 hf
    _ = c * f * b := Nat.mul_right_comm _ _ _
    _ ≤ e * d * b := Nat.mul_le_mul_right _ h2
    _ = e * b * d := Nat.mul_right_comm _ _ _

/-- `a/b ≤ c/d → c/d < e/f → a/b < e/f` -/
theorem frac_lt_of_le_of_lt {a b c d e f : Nat} (h1 : a * d ≤ c * b) (h2 : c * f < e * d)
    (hb : 0 < b) : a * f < e * b := by
  apply Nat.lt_of_mul_lt_mul_right (a := d)
  calc a * f * d = a * d * f := Nat.mul_right_comm _ _ _
    _ ≤ c * b * f := Nat.mul_le_mul_right _ h1
    _ = c * f * b := Nat.mul_right_comm _ _ _
    _ < e * d * b := Nat.mul_lt_mul_of_pos_right h2 hb
    _ = e * b * d := Nat.mul_right_comm _ _ _

/-- `⌊a/b⌋ ≤ ⌊c/d⌋` when `a/b ≤ c/d` -/
theorem div_le_div_of_frac_le {a b c d : Nat} (h : a * d ≤ c * b) (hb : 0 < b) (hd : 0 < d) :
    a / b ≤ c / d := by
  rw [Nat.le_div_iff_mul_le hd]
  apply Nat.le_of_mul_le_mul_right _ hb
  calc a / b * d * b = a / b * b * d := Nat.mul_right_comm _ _ _
    _ ≤ a * d := Nat.mul_le_mul_right _ (Nat.div_mul_le_self a b)
    _ ≤ c * b := h

/-! ## (1) `rne` -/

theorem rne_ge_div (r s : Nat) : r / s ≤ rne r s := by
  unfold rne; simp only; split
  · omega
  · split
    · omega
    · split <;> omega

theorem rne_le_div_succ (r s : Nat) : rne r s ≤ r / s + 1 := by
  unfold rne; simp only; split
  · omega
  · split
    · omega
    · split <;> omega

/-- exact quotients are not changed -/
theorem rne_exact (k s : Nat) (hs : 0 < s) : rne (k * s) s = k := by
  unfold rne
  simp only [Nat.mul_mod_left, Nat.mul_div_cancel _ hs]
  rw [if_pos (by omega)]

theorem rne_zero (s : Nat) : rne 0 s = 0 := by
  unfold rne; simp

/-- **rounding to nearest-even is monotone** (fractions compared by cross-multiplication) -/
theorem rne_mono {r s r' s' : Nat} (h : r * s' ≤ r' * s) (hs : 0 < s) (hs' : 0 < s') :
    rne r s ≤ rne r' s' := by
  have hq : r / s ≤ r' / s' := div_le_div_of_frac_le h hs hs'
  rcases Nat.lt_or_eq_of_le hq with hq | hq
  · have := rne_le_div_succ r s
    have := rne_ge_div r' s'
    omega
  · -- same integer part: compare the remainders
    have e1 := Nat.div_add_mod r s
    have e2 := Nat.div_add_mod r' s'
    have hm : r % s < s := Nat.mod_lt _ hs
    have hm' : r' % s' < s' := Nat.mod_lt _ hs'
    -- `(r % s) / s ≤ (r' % s') / s'`
    have hrem : (r % s) * s' ≤ (r' % s') * s := by
      have h' : (s * (r / s) + r % s) * s' ≤ (s' * (r / s) + r' % s') * s := by
        rw [e1, hq, e2]; exact h
      rw [Nat.add_mul, Nat.add_mul] at h'
      have : s * (r / s) * s' = s' * (r / s) * s := by
        rw [Nat.mul_comm s, Nat.mul_comm s', Nat.mul_assoc, Nat.mul_assoc, Nat.mul_comm s]
      omega
    -- `1/2 < m/s → 1/2 < m'/s'` and `1/2 ≤ m/s → 1/2 ≤ m'/s'`
    have hgt : s < 2 * (r % s) → s' < 2 * (r' % s') := by
      intro hh
      have := frac_lt_of_lt_of_le (a := 1) (b := 2) (c := r % s) (d := s) (e := r' % s') (f := s')
        (by omega) hrem hs'
      omega
    have hge : s ≤ 2 * (r % s) → s' ≤ 2 * (r' % s') := by
      intro hh
      have := frac_le_trans (a := 1) (b := 2) (c := r % s) (d := s) (e := r' % s') (f := s')
        (by omega) hrem hs
      omega
    unfold rne
    simp only [hq]
    by_cases c1 : 2 * (r % s) < s
    · rw [if_pos c1]
      split
      · omega
      · split
        · omega
        · split <;> omega
    · rw [if_neg c1]
      have c1' : ¬ 2 * (r' % s') < s' := by have := hge (by omega); omega
      rw [if_neg c1']
      by_cases c2 : s < 2 * (r % s)
      · rw [if_pos c2, if_pos (hgt c2)]; omega
      · rw [if_neg c2]
        split
        · split <;> omega
        · split
          · omega
          · omega

/-- rounding a value `≤ n` gives `≤ n` -/
theorem rne_le_of_le {r s n : Nat} (h : r ≤ n * s) (hs : 0 < s) : rne r s ≤ n := by
  have := rne_mono (r := r) (s := s) (r' := n * s) (s' := s) (Nat.mul_le_mul_right _ h) hs hs
  rwa [rne_exact n s hs] at this

/-- rounding a value `≥ n` gives `≥ n` -/
theorem le_rne_of_le {r s n : Nat} (h : n * s ≤ r) (hs : 0 < s) : n ≤ rne r s := by
  have := rne_mono (r := n * s) (s := s) (r' := r) (s' := s) (Nat.mul_le_mul_right _ h) hs hs
  rwa [rne_exact n s hs] at this

/-- scaling numerator and denominator does not change the result -/
theorem rne_scale (c r s : Nat) (hc : 0 < c) : rne (c * r) (c * s) = rne r s := by
  unfold rne
  simp only [Nat.mul_div_mul_left _ _ hc, Nat.mul_mod_mul_left]
  have h1 : (2 * (c * (r % s)) < c * s) ↔ (2 * (r % s) < s) := by
    rw [← Nat.mul_assoc, Nat.mul_comm 2 c, Nat.mul_assoc]
    exact ⟨fun h => Nat.lt_of_mul_lt_mul_left h, fun h => Nat.mul_lt_mul_of_pos_left h hc⟩
  have h2 : (c * s < 2 * (c * (r % s))) ↔ (s < 2 * (r % s)) := by
    rw [← Nat.mul_assoc, Nat.mul_comm 2 c, Nat.mul_assoc]
    exact ⟨fun h => Nat.lt_of_mul_lt_mul_left h, fun h => Nat.mul_lt_mul_of_pos_left h hc⟩
  simp only [h1, h2]

example : rne 5 2 = 2 ∧ rne 7 2 = 4 ∧ rne 10 4 = 2 ∧ rne 11 4 = 3 ∧ rne 9 4 = 2 := by decide
example : rne 7 3 ≤ rne 5 2 := rne_mono (by decide) (by decide) (by decide)
example : rne (6 * 7) 7 = 6 := rne_exact 6 7 (by decide)

/-! ## (2) logarithms and the binade index -/

theorem log2_unique {n e : Nat} (h1 : 2^e ≤ n) (h2 : n < 2^(e+1)) : n.log2 = e := by
  have hn : n ≠ 0 := by have := Nat.two_pow_pos e; omega
  have a : e ≤ n.log2 := (Nat.le_log2 hn).2 h1
  have b : n.log2 < e + 1 := (Nat.log2_lt hn).2 h2
  omega

theorem log2_mono {m n : Nat} (h : m ≤ n) : m.log2 ≤ n.log2 := by
  by_cases hm : m = 0
  · subst hm; simp
  · have hn : n ≠ 0 := by omega
    exact (Nat.le_log2 hn).2 (Nat.le_trans (Nat.log2_self_le hm) h)

/-- `p/q < 2^(k+24-149)` for `k = expo p q`: the significand is at most `2^24` -/
theorem expo_upper (p q : Nat) (hq : 0 < q) : p * 2^149 < 2^24 * (q * 2^(expo p q)) := by
  have h1 : p * 2^149 / q < 2^((p * 2^149 / q).log2 + 1) := Nat.lt_log2_self
  have h2 : 2^((p * 2^149 / q).log2 + 1) ≤ 2^(expo p q + 24) :=
    Nat.pow_le_pow_right (by decide) (by unfold expo; omega)
  have h3 := (Nat.div_lt_iff_lt_mul hq).1 (Nat.lt_of_lt_of_le h1 h2)
  have : 2^(expo p q + 24) * q = 2^24 * (q * 2^(expo p q)) := by
    rw [Nat.pow_add]; simp only [Nat.mul_comm, Nat.mul_left_comm]
  omega

/-- `2^(k+23-149) ≤ p/q` for `k = expo p q > 0`: the significand is at least `2^23` above the first binade -/
theorem expo_lower (p q : Nat) (hq : 0 < q) (hk : 0 < expo p q) :
    2^23 * (q * 2^(expo p q)) ≤ p * 2^149 := by
  have hl : (p * 2^149 / q).log2 = expo p q + 23 := by unfold expo at hk ⊢; omega
  have hx : p * 2^149 / q ≠ 0 := by
    intro h0; rw [h0] at hl; simp at hl
  have h1 := Nat.log2_self_le hx
  rw [hl] at h1
  have h3 := (Nat.le_div_iff_mul_le hq).1 h1
  have : 2^(expo p q + 23) * q = 2^23 * (q * 2^(expo p q)) := by
    rw [Nat.pow_add]; simp only [Nat.mul_comm, Nat.mul_left_comm]
  omega

theorem scaled_le {p q p' q' : Nat} (h : p * q' ≤ p' * q) (c d : Nat) :
    p * c * (q' * d) ≤ p' * c * (q * d) := by
  have : p * q' * (c * d) ≤ p' * q * (c * d) := Nat.mul_le_mul_right _ h
  have e1 : p * c * (q' * d) = p * q' * (c * d) := by simp only [Nat.mul_comm, Nat.mul_left_comm]
  have e2 : p' * c * (q * d) = p' * q * (c * d) := by simp only [Nat.mul_comm, Nat.mul_left_comm]
  omega

theorem expo_mono {p q p' q' : Nat} (h : p * q' ≤ p' * q) (hq : 0 < q) (hq' : 0 < q') :
    expo p q ≤ expo p' q' := by
  have hx : p * 2^149 / q ≤ p' * 2^149 / q' := by
    apply div_le_div_of_frac_le _ hq hq'
    have := scaled_le h (2^149) 1
    simpa using this
  have := log2_mono hx
  unfold expo; omega

/-! ## (3) `rnd` -/

/-- the bits before the clamp to `+inf` -/
def raw (p q : Nat) : Nat := expo p q * 2^23 + rne (p * 2^149) (q * 2^(expo p q))

theorem rnd_eq (p q : Nat) : rnd p q = min (raw p q) inf := rfl

theorem raw_mono {p q p' q' : Nat} (h : p * q' ≤ p' * q) (hq : 0 < q) (hq' : 0 < q') :
    raw p q ≤ raw p' q' := by
  have hk := expo_mono h hq hq'
  have hpk : 0 < q * 2^(expo p q) := Nat.mul_pos hq (Nat.two_pow_pos _)
  have hpk' : 0 < q' * 2^(expo p' q') := Nat.mul_pos hq' (Nat.two_pow_pos _)
  rcases Nat.lt_or_eq_of_le hk with hk | hk
  · -- different binades: significand ≤ 2^24 below, ≥ 2^23 above
    have h1 : rne (p * 2^149) (q * 2^(expo p q)) ≤ 2^24 :=
      rne_le_of_le (Nat.le_of_lt (expo_upper p q hq)) hpk
    have h2 : 2^23 ≤ rne (p' * 2^149) (q' * 2^(expo p' q')) :=
      le_rne_of_le (expo_lower p' q' hq' (by omega)) hpk'
    unfold raw; omega
  · have : rne (p * 2^149) (q * 2^(expo p q)) ≤ rne (p' * 2^149) (q' * 2^(expo p' q')) := by
      apply rne_mono _ hpk hpk'
      rw [← hk]
      exact scaled_le h _ _
    unfold raw; omega

/-- **correct rounding to binary32 is monotone**, on all non-negative rationals (normal, subnormal and
overflowing alike); the order of the results is the order of the bit patterns as naturals -/
theorem rnd_mono {p q p' q' : Nat} (h : p * q' ≤ p' * q) (hq : 0 < q) (hq' : 0 < q') :
    rnd p q ≤ rnd p' q' := by
  have := raw_mono h hq hq'
  rw [rnd_eq, rnd_eq]; omega

theorem rnd_zero (q : Nat) : rnd 0 q = 0 := by
  rw [rnd_eq, raw]; simp [expo, rne_zero]

theorem rnd_le_inf (p q : Nat) : rnd p q ≤ inf := by rw [rnd_eq]; omega

/-- scaling numerator and denominator does not change the result -/
theorem rnd_scale (c p q : Nat) (hc : 0 < c) : rnd (c * p) (c * q) = rnd p q := by
  have he : expo (c * p) (c * q) = expo p q := by
    unfold expo; rw [Nat.mul_assoc, Nat.mul_div_mul_left _ _ hc]
  rw [rnd_eq, rnd_eq, raw, raw, he, Nat.mul_assoc, Nat.mul_assoc, rne_scale _ _ _ hc]

example : rnd 1 3 ≤ rnd 2 5 := rnd_mono (by decide) (by decide) (by decide)
example : rnd 1 3 = 0x3EAAAAAB ∧ rnd 2 5 = 0x3ECCCCCD ∧ rnd 1 (2^149) = 1 ∧ rnd (2^128) 1 = inf := by decide
example : rnd (7 * 2) (7 * 6) = rnd 2 6 := rnd_scale 7 2 6 (by decide)

/-! ## (4) `natVal`: the value of `n as f32` -/

/-- the exponent of the unit in the last place of `n as f32` -/
def nexp (n : Nat) : Nat := n.log2 - 23

theorem natVal_eq (n : Nat) : natVal n = rne n (2^(nexp n)) * 2^(nexp n) := rfl

theorem nexp_upper (n : Nat) : n < 2^24 * 2^(nexp n) := by
  have h1 : n < 2^(n.log2 + 1) := Nat.lt_log2_self
  have h2 : 2^(n.log2 + 1) ≤ 2^(nexp n + 24) := Nat.pow_le_pow_right (by decide) (by unfold nexp; omega)
  have : 2^(nexp n + 24) = 2^24 * 2^(nexp n) := by rw [Nat.pow_add, Nat.mul_comm]
  omega

theorem nexp_lower (n : Nat) (hk : 0 < nexp n) : 2^23 * 2^(nexp n) ≤ n := by
  have hl : n.log2 = nexp n + 23 := by unfold nexp at hk ⊢; omega
  have hn : n ≠ 0 := by intro h0; rw [h0] at hl; simp at hl
  have h1 := Nat.log2_self_le hn
  rw [hl, Nat.pow_add, Nat.mul_comm] at h1
  exact h1

theorem nexp_le (n : Nat) (hn : 0 < n) : 2^(nexp n) ≤ n :=
  Nat.le_trans (Nat.pow_le_pow_right (by decide) (by unfold nexp; omega)) (Nat.log2_self_le (by omega))

theorem nexp_mono {m n : Nat} (h : m ≤ n) : nexp m ≤ nexp n := by
  have := log2_mono h; unfold nexp; omega

theorem nexp_small {n : Nat} (h : n < 2^24) : nexp n = 0 := by
  by_cases hn : n = 0
  · subst hn; decide
  · have := (Nat.log2_lt hn).2 h; unfold nexp; omega

theorem natVal_le_top (n : Nat) : natVal n ≤ 2^24 * 2^(nexp n) := by
  rw [natVal_eq]
  exact Nat.mul_le_mul_right _ (rne_le_of_le (Nat.le_of_lt (nexp_upper n)) (Nat.two_pow_pos _))

theorem natVal_ge_bot (n : Nat) (hk : 0 < nexp n) : 2^23 * 2^(nexp n) ≤ natVal n := by
  rw [natVal_eq]
  exact Nat.mul_le_mul_right _ (le_rne_of_le (nexp_lower n hk) (Nat.two_pow_pos _))

/-- **`as f32` is monotone** -/
theorem natVal_mono {m n : Nat} (h : m ≤ n) : natVal m ≤ natVal n := by
  have hk := nexp_mono h
  rcases Nat.lt_or_eq_of_le hk with hk | hk
  · have h1 := natVal_le_top m
    have h2 := natVal_ge_bot n (by omega)
    have h3 : 2^(nexp m + 1) ≤ 2^(nexp n) := Nat.pow_le_pow_right (by decide) hk
    rw [Nat.pow_succ] at h3
    omega
  · rw [natVal_eq, natVal_eq, ← hk]
    apply Nat.mul_le_mul_right
    exact rne_mono (Nat.mul_le_mul_right _ h) (Nat.two_pow_pos _) (Nat.two_pow_pos _)

/-- integers below `2^24` are exact -/
theorem natVal_id {n : Nat} (h : n < 2^24) : natVal n = n := by
  rw [natVal_eq, nexp_small h]
  have := rne_exact n 1 (by decide)
  simp only [Nat.mul_one, Nat.pow_zero] at this ⊢
  exact this

/-- integers with at most 24 significant bits are exact -/
theorem natVal_exact {m : Nat} (j : Nat) (h : m < 2^24) : natVal (m * 2^j) = m * 2^j := by
  by_cases hkj : nexp (m * 2^j) ≤ j
  · have e : m * 2^j = (m * 2^(j - nexp (m * 2^j))) * 2^(nexp (m * 2^j)) := by
      rw [Nat.mul_assoc, ← Nat.pow_add]; congr 2; omega
    rw [natVal_eq]
    generalize nexp (m * 2^j) = k at e ⊢
    rw [e, rne_exact _ _ (Nat.two_pow_pos _)]
  · exfalso
    have h1 := nexp_lower (m * 2^j) (by omega)
    have h2 : m * 2^j < 2^24 * 2^j := Nat.mul_lt_mul_of_pos_right h (Nat.two_pow_pos _)
    have h3 : 2^(j + 1) ≤ 2^(nexp (m * 2^j)) := Nat.pow_le_pow_right (by decide) (by omega)
    rw [Nat.pow_succ] at h3
    omega

/-- doubling commutes with `as f32` (the product `2.0 * x` is exact) -/
theorem natVal_double (n : Nat) : natVal (2 * n) = 2 * natVal n := by
  by_cases hn : n = 0
  · subst hn; decide
  · have hl : (2 * n).log2 = n.log2 + 1 := Nat.log2_two_mul hn
    by_cases hb : 23 ≤ n.log2
    · have hk : nexp (2 * n) = nexp n + 1 := by unfold nexp; omega
      rw [natVal_eq, natVal_eq, hk, Nat.pow_succ, Nat.mul_comm (2^(nexp n)) 2,
        rne_scale 2 _ _ (by decide), Nat.mul_left_comm]
    · have : n < 2^23 := (Nat.log2_lt hn).1 (by omega)
      rw [natVal_id (by omega), natVal_id (by omega)]

theorem natVal_pos {n : Nat} (h : 0 < n) : 0 < natVal n := by
  rw [natVal_eq]
  have : 1 ≤ rne n (2^(nexp n)) := le_rne_of_le (by simpa using nexp_le n h) (Nat.two_pow_pos _)
  exact Nat.mul_pos this (Nat.two_pow_pos _)

theorem natVal_zero : natVal 0 = 0 := by decide

/-- `usize` values convert to at most `2^64` -/
theorem natVal_le_of_lt {n : Nat} (h : n < 2^64) : natVal n ≤ 2^64 := by
  have := natVal_mono (Nat.le_of_lt h)
  have e : natVal (2^64) = 2^64 := by simpa using natVal_exact (m := 1) 64 (by decide)
  omega

example : natVal (2^24 + 1) = 2^24 ∧ natVal (2^24 + 3) = 2^24 + 4 ∧ natVal (2^64 - 1) = 2^64 := by decide
example : natVal 16777215 = 16777215 := natVal_id (by decide)
example : natVal (12345678 * 2^40) = 12345678 * 2^40 := natVal_exact 40 (by decide)
example : natVal (2^30 + 77) ≤ natVal (2^30 + 78) := natVal_mono (by decide)
example : 0 < natVal 5 := natVal_pos (by decide)

/-! ## (5), (6) the ratio `2.0 * a as f32 / b as f32` -/

theorem ratio_pos_den {a b : Nat} (hb : 0 < b) : ratio a b = rnd (2 * natVal a) (natVal b) := by
  unfold ratio; rw [if_neg (by omega)]

theorem ratio_zero_den (a : Nat) : ratio a 0 = one := rfl

/-- **monotone in the numerator** -/
theorem ratio_mono_num {a a' : Nat} (b : Nat) (h : a ≤ a') : ratio a b ≤ ratio a' b := by
  by_cases hb : b = 0
  · subst hb; rw [ratio_zero_den, ratio_zero_den]; exact Nat.le_refl _
  · rw [ratio_pos_den (by omega), ratio_pos_den (by omega)]
    have hp := natVal_pos (n := b) (by omega)
    exact rnd_mono (Nat.mul_le_mul_right _ (Nat.mul_le_mul_left _ (natVal_mono h))) hp hp

/-- **antitone in the (positive) denominator** -/
theorem ratio_anti_den (a : Nat) {b b' : Nat} (hb : 0 < b) (h : b ≤ b') : ratio a b' ≤ ratio a b := by
  rw [ratio_pos_den hb, ratio_pos_den (by omega)]
  exact rnd_mono (Nat.mul_le_mul_left _ (natVal_mono h)) (natVal_pos (by omega)) (natVal_pos hb)

theorem rnd_one : rnd 1 1 = one := by decide
theorem rnd_half : rnd 1 2 = half := by decide

/-- a ratio of at most `1` rounds to at most `1.0` -/
theorem ratio_le_one {a b : Nat} (h : 2 * a ≤ b) : ratio a b ≤ one := by
  by_cases hb : b = 0
  · subst hb; rw [ratio_zero_den]; exact Nat.le_refl _
  · rw [ratio_pos_den (by omega), ← rnd_one]
    apply rnd_mono _ (natVal_pos (by omega)) (by decide)
    have := natVal_mono h
    rw [natVal_double] at this
    omega

/-- every ratio is `+inf` at most (never NaN, never negative) -/
theorem ratio_le_inf (a b : Nat) : ratio a b ≤ inf := by
  unfold ratio; split
  · decide
  · exact rnd_le_inf _ _

/-- for `usize` numerators the ratio is finite -/
theorem ratio_lt_inf {a : Nat} (b : Nat) (ha : a < 2^64) : ratio a b < inf := by
  by_cases hb : b = 0
  · subst hb; rw [ratio_zero_den]; decide
  · rw [ratio_pos_den (by omega)]
    have h1 := natVal_le_of_lt ha
    have h2 := natVal_pos (n := b) (by omega)
    have : rnd (2 * natVal a) (natVal b) ≤ rnd (2^65) 1 := by
      apply rnd_mono _ h2 (by decide)
      have : natVal a * 1 ≤ 2^64 * natVal b := Nat.mul_le_mul h1 h2
      omega
    have e : rnd (2^65) 1 = 0x60000000 := by decide
    have : inf = 0x7F800000 := rfl
    omega

theorem ratio_small {a b : Nat} (ha : a < 2^24) (hb : b < 2^24) (hb0 : 0 < b) : ratio a b = rnd (2 * a) b := by
  rw [ratio_pos_den hb0, natVal_id ha, natVal_id hb]

/-- with a 24-bit denominator: the ratio is `1.0` exactly when the fraction is `1` -/
theorem ratio_eq_one_iff {a b : Nat} (hb : b < 2^24) (h : 2 * a ≤ b) :
    ratio a b = one ↔ (b = 0 ∨ 2 * a = b) := by
  by_cases hb0 : b = 0
  · subst hb0; simp [ratio_zero_den]
  · rw [ratio_small (by omega) hb (by omega)]
    constructor
    · intro he
      right
      apply Nat.le_antisymm h
      apply Classical.byContradiction
      intro hlt
      have : rnd (2 * a) b ≤ rnd (2^24 - 1) (2^24) := rnd_mono (by omega) (by omega) (by decide)
      have e : rnd (2^24 - 1) (2^24) = 0x3F7FFFFF := by decide
      have : one = 0x3F800000 := rfl
      omega
    · rintro (h0 | h1)
      · exact absurd h0 hb0
      · rw [h1]
        have := rnd_scale b 1 1 (by omega)
        rw [Nat.mul_one] at this
        rw [this, rnd_one]

/-! ## (7) the comparisons -/

theorem nonneg_facts {x : Nat} (h : x ≤ inf) : mag x = x ∧ sign x = false ∧ isNaN x = false ∧ key x = (x : Int) := by
  have hi : inf = 0x7F800000 := rfl
  have hm : mag x = x := by unfold mag; exact Nat.mod_eq_of_lt (by omega)
  have hs : sign x = false := by
    unfold sign; rw [Nat.div_eq_of_lt (by omega)]; decide
  refine ⟨hm, hs, ?_, ?_⟩
  · unfold isNaN; rw [hm]; simp; omega
  · unfold key; rw [hs, hm]; simp

/-- on non-negative non-NaN patterns `<` is the order of the bit patterns -/
theorem lt_iff {x y : Nat} (hx : x ≤ inf) (hy : y ≤ inf) : lt x y = true ↔ x < y := by
  obtain ⟨_, _, nx, kx⟩ := nonneg_facts hx
  obtain ⟨_, _, ny, ky⟩ := nonneg_facts hy
  unfold lt; rw [nx, ny, kx, ky]; simp

theorem le_iff {x y : Nat} (hx : x ≤ inf) (hy : y ≤ inf) : le x y = true ↔ x ≤ y := by
  obtain ⟨_, _, nx, kx⟩ := nonneg_facts hx
  obtain ⟨_, _, ny, ky⟩ := nonneg_facts hy
  unfold le; rw [nx, ny, kx, ky]; simp

/-- on non-negative non-NaN patterns `>=` is the order of the bit patterns -/
theorem ge_iff {x y : Nat} (hx : x ≤ inf) (hy : y ≤ inf) : ge x y = true ↔ y ≤ x := le_iff hy hx

/-- **`ratio >= cutoff` is monotone in the ratio, for every cutoff pattern** (NaN, negative, … included) -/
theorem ge_mono {x y : Nat} (c : Nat) (h : x ≤ y) (hy : y ≤ inf) (hx : ge x c = true) : ge y c = true := by
  obtain ⟨_, _, nx, kx⟩ := nonneg_facts (Nat.le_trans h hy)
  obtain ⟨_, _, ny, ky⟩ := nonneg_facts hy
  unfold ge le at *
  rw [nx, kx] at hx
  rw [ny, ky]
  simp only [Bool.and_eq_true, Bool.not_eq_true', decide_eq_true_eq, Bool.not_false, Bool.and_true] at hx ⊢
  exact ⟨hx.1, by omega⟩

/-- **`ratio < cutoff` is antitone in the ratio, for every cutoff pattern** -/
theorem lt_anti {x y : Nat} (c : Nat) (h : x ≤ y) (hy : y ≤ inf) (hlt : lt y c = true) : lt x c = true := by
  obtain ⟨_, _, nx, kx⟩ := nonneg_facts (Nat.le_trans h hy)
  obtain ⟨_, _, ny, ky⟩ := nonneg_facts hy
  unfold lt at *
  rw [ny, ky] at hlt
  rw [nx, kx]
  simp only [Bool.and_eq_true, Bool.not_eq_true', decide_eq_true_eq, Bool.not_false, Bool.true_and] at hlt ⊢
  exact ⟨hlt.1, by omega⟩

/-- `v >= c` excludes `v < c`, for all patterns -/
theorem not_lt_of_ge {v c : Nat} (h : ge v c = true) : lt v c = false := by
  unfold ge le at h
  unfold lt
  simp only [Bool.and_eq_true, Bool.not_eq_true', decide_eq_true_eq] at h
  simp only [h.1.1, h.1.2, Bool.not_false, Bool.true_and, decide_eq_false_iff_not]
  omega

/-- a NaN cutoff: both tests fail -/
theorem nan_cutoff {c : Nat} (hc : isNaN c = true) (v : Nat) : lt v c = false ∧ ge v c = false := by
  unfold ge le lt; simp [hc]

/-- with a 24-bit denominator: the ratio is below `0.5` exactly when the fraction is -/
theorem ratio_lt_half_iff {a b : Nat} (hb : b < 2^24) (hb0 : 0 < b) :
    lt (ratio a b) half = true ↔ 4 * a < b := by
  rw [lt_iff (ratio_le_inf a b) (by decide)]
  have hh : half = 0x3F000000 := rfl
  constructor
  · intro hlt
    apply Classical.byContradiction
    intro hge
    -- `a ≥ ⌈b/4⌉ =: a0`, and `ratio a0 b ≥ 0.5`
    have h1 : ratio ((b + 3) / 4) b ≤ ratio a b := ratio_mono_num b (by omega)
    rw [ratio_small (by omega) hb hb0] at h1
    have h2 : rnd 1 2 ≤ rnd (2 * ((b + 3) / 4)) b := rnd_mono (by omega) (by decide) hb0
    rw [rnd_half] at h2
    omega
  · intro h4
    rw [ratio_small (by omega) hb hb0]
    have : rnd (2 * a) b ≤ rnd (2^24 - 1) (2^25) := rnd_mono (by omega) hb0 (by decide)
    have e : rnd (2^24 - 1) (2^25) = 0x3EFFFFFF := by decide
    omega

example : ratio 3 6 = one := (ratio_eq_one_iff (by decide) (by decide)).2 (Or.inr rfl)
example : lt (ratio 2 9) half = true := (ratio_lt_half_iff (by decide) (by decide)).2 (by decide)
example : lt (ratio 3 12) half = false := by decide
example : ratio 3 7 ≤ ratio 4 7 := ratio_mono_num 7 (by decide)
example : ratio 3 8 ≤ ratio 3 7 := ratio_anti_den 3 (by decide) (by decide)
example : ratio (2^40 + 1) (2^41 + 5) ≤ one := ratio_le_one (by decide)
example : ratio (2^63) 1 < inf := ratio_lt_inf 1 (by decide)
example : ge (ratio 2 7) 0x3F000000 = true → ge (ratio 3 7) 0x3F000000 = true :=
  ge_mono _ (ratio_mono_num 7 (by decide)) (ratio_le_inf _ _)
example : lt 0x3F000000 0x7FC00000 = false ∧ ge 0x3F000000 0x7FC00000 = false ∧
    ge 0 0x80000000 = true ∧ lt 0x80000000 0 = false ∧ lt 0xBF800000 0x00000001 = true ∧
    ge 0x3F000000 0xFF800000 = true := by decide

/-! ## `ilog2Q`, the textbook form of `rnd` in the normal range, and `n as f32` as a bit pattern -/

theorem ilog2Q_cases {p q : Nat} (hp : 0 < p) (hq : 0 < q) :
    (q ≤ p → ∃ e : Nat, ilog2Q p q = (e : Int) ∧ 2^e * q ≤ p ∧ p < 2^(e+1) * q) ∧
    (p < q → ∃ k : Nat, ilog2Q p q = -(k : Int) ∧ 0 < k ∧ q ≤ p * 2^k ∧ p * 2^k < 2 * q) := by
  constructor
  · intro h
    refine ⟨(p / q).log2, by unfold ilog2Q; rw [if_pos h], ?_, ?_⟩
    · have hx : p / q ≠ 0 := by
        have := (Nat.le_div_iff_mul_le hq).2 (by simpa using h : 1 * q ≤ p); omega
      exact (Nat.le_div_iff_mul_le hq).1 (Nat.log2_self_le hx)
    · exact (Nat.div_lt_iff_lt_mul hq).1 Nat.lt_log2_self
  · intro h
    refine ⟨((q + p - 1) / p - 1).log2 + 1, by unfold ilog2Q; rw [if_neg (by omega)], by omega, ?_, ?_⟩
    · -- `q ≤ p * ⌈q/p⌉ ≤ p * 2^k`
      have e := Nat.div_add_mod (q + p - 1) p
      have hm := Nat.mod_lt (q + p - 1) hp
      have ht : (q + p - 1) / p - 1 < 2^(((q + p - 1) / p - 1).log2 + 1) := Nat.lt_log2_self
      have := Nat.mul_le_mul_left p (by omega : (q + p - 1) / p ≤ 2^(((q + p - 1) / p - 1).log2 + 1))
      omega
    · -- `p * 2^(k-1) ≤ p * (⌈q/p⌉ - 1) < q`
      have e := Nat.div_add_mod (q + p - 1) p
      have hm := Nat.mod_lt (q + p - 1) hp
      have ht2 : 2 ≤ (q + p - 1) / p := (Nat.le_div_iff_mul_le hp).2 (by omega)
      have ht : 2^(((q + p - 1) / p - 1).log2) ≤ (q + p - 1) / p - 1 := Nat.log2_self_le (by omega)
      have h1 := Nat.mul_le_mul_left p ht
      rw [Nat.pow_succ, ← Nat.mul_assoc]
      have h2 : p * ((q + p - 1) / p - 1) = p * ((q + p - 1) / p) - p := by
        rw [Nat.mul_sub, Nat.mul_one]
      omega

/-- **`ilog2Q p q = ⌊log2 (p/q)⌋`**, cross-multiplied and shifted by any `2^n` that makes the exponents
natural numbers: `2^(e+n) ≤ (p/q)·2^n < 2^(e+n+1)` -/
theorem ilog2Q_spec {p q : Nat} (hp : 0 < p) (hq : 0 < q) (n : Nat) (hn : 0 ≤ ilog2Q p q + n) :
    2^(ilog2Q p q + n).toNat * q ≤ p * 2^n ∧ p * 2^n < 2^((ilog2Q p q + n).toNat + 1) * q := by
  obtain ⟨c1, c2⟩ := ilog2Q_cases hp hq
  by_cases h : q ≤ p
  · obtain ⟨e, he, h1, h2⟩ := c1 h
    have : (ilog2Q p q + n).toNat = e + n := by omega
    rw [this]
    constructor
    · calc 2^(e+n) * q = 2^e * q * 2^n := by rw [Nat.pow_add]; simp only [Nat.mul_comm, Nat.mul_left_comm]
        _ ≤ p * 2^n := Nat.mul_le_mul_right _ h1
    · calc p * 2^n < 2^(e+1) * q * 2^n := Nat.mul_lt_mul_of_pos_right h2 (Nat.two_pow_pos _)
        _ = 2^(e+n+1) * q := by
          rw [Nat.add_right_comm, Nat.pow_add (n := n)]; simp only [Nat.mul_comm, Nat.mul_left_comm]
  · obtain ⟨k, he, hk, h1, h2⟩ := c2 (by omega)
    have hkn : k ≤ n := by omega
    have : (ilog2Q p q + n).toNat = n - k := by omega
    rw [this]
    have e2 : p * 2^n = p * 2^k * 2^(n-k) := by rw [Nat.mul_assoc, ← Nat.pow_add]; congr 2; omega
    rw [e2]
    constructor
    · calc 2^(n-k) * q = q * 2^(n-k) := Nat.mul_comm _ _
        _ ≤ p * 2^k * 2^(n-k) := Nat.mul_le_mul_right _ h1
    · calc p * 2^k * 2^(n-k) < 2 * q * 2^(n-k) := Nat.mul_lt_mul_of_pos_right h2 (Nat.two_pow_pos _)
        _ = 2^(n-k+1) * q := by rw [Nat.pow_succ]; ac_rfl

/-- in the normal range (`2^-126 ≤ p/q`) the binade index is `⌊log2 (p/q)⌋ + 126` -/
theorem expo_normal {p q : Nat} (hp : 0 < p) (hq : 0 < q) (hn : q ≤ p * 2^126) :
    0 ≤ ilog2Q p q + 126 ∧ expo p q = (ilog2Q p q + 126).toNat := by
  have h126 : 0 ≤ ilog2Q p q + 126 := by
    obtain ⟨c1, c2⟩ := ilog2Q_cases hp hq
    by_cases h : q ≤ p
    · obtain ⟨e, he, _⟩ := c1 h; omega
    · obtain ⟨k, he, _, _, h2⟩ := c2 (by omega)
      have : 2^k < 2^127 := by
        apply Nat.lt_of_mul_lt_mul_left (a := p)
        have : p * 2^127 = 2 * (p * 2^126) := by rw [Nat.pow_succ]; simp only [Nat.mul_comm, Nat.mul_left_comm]
        omega
      have := (Nat.pow_lt_pow_iff_right (by decide : 1 < 2)).1 this
      omega
  refine ⟨h126, ?_⟩
  obtain ⟨h1, h2⟩ := ilog2Q_spec hp hq 149 (by omega)
  have hl : (p * 2^149 / q).log2 = (ilog2Q p q + 149).toNat :=
    log2_unique ((Nat.le_div_iff_mul_le hq).2 h1) ((Nat.div_lt_iff_lt_mul hq).2 h2)
  unfold expo; omega

/-- **the textbook form of `rnd` in the normal range**: with `e = ⌊log2 (p/q)⌋` and
`m = rne ((p/q)·2^(23-e))` (`2^23 ≤ m ≤ 2^24`), the bits are `(e+126)·2^23 + m`, clamped to `+inf` -/
theorem rnd_normal {p q : Nat} (hp : 0 < p) (hq : 0 < q) (hn : q ≤ p * 2^126) :
    let E := (ilog2Q p q + 126).toNat
    let m := rne (p * 2^149) (q * 2^E)
    rnd p q = min (E * 2^23 + m) inf ∧ 2^23 ≤ m ∧ m ≤ 2^24 := by
  intro E m
  obtain ⟨h0, he⟩ := expo_normal hp hq hn
  have hm : m = rne (p * 2^149) (q * 2^(expo p q)) := by rw [he]
  refine ⟨by rw [rnd_eq, raw, hm, he], ?_, ?_⟩
  · rw [hm]
    have hpk : 0 < q * 2^(expo p q) := Nat.mul_pos hq (Nat.two_pow_pos _)
    by_cases hk : 0 < expo p q
    · exact le_rne_of_le (expo_lower p q hq hk) hpk
    · have hk0 : expo p q = 0 := by omega
      apply le_rne_of_le _ hpk
      rw [hk0]
      have : p * 2^149 = p * 2^126 * 2^23 := by rw [Nat.mul_assoc, ← Nat.pow_add]
      have := Nat.mul_le_mul_right (2^23) hn
      simp only [Nat.pow_zero, Nat.mul_one]
      omega
  · rw [hm]
    exact rne_le_of_le (Nat.le_of_lt (expo_upper p q hq)) (Nat.mul_pos hq (Nat.two_pow_pos _))

/-- values with a 24-bit significand are represented exactly: bits `K·2^23 + m` for `m·2^(K-149)`,
`2^23 ≤ m ≤ 2^24` -/
theorem raw_exact {p q m K : Nat} (hq : 0 < q) (h1 : 2^23 ≤ m) (h2 : m ≤ 2^24)
    (h : p * 2^149 = m * (q * 2^K)) : raw p q = K * 2^23 + m := by
  -- the case `m < 2^24`; the other one is this case in the next binade
  have main : ∀ m K, 2^23 ≤ m → m < 2^24 → p * 2^149 = m * (q * 2^K) → raw p q = K * 2^23 + m := by
    intro m K h1 h2 h
    have hx : p * 2^149 / q = m * 2^K := by
      rw [h, ← Nat.mul_assoc, Nat.mul_comm m q, Nat.mul_assoc, Nat.mul_div_cancel_left _ hq]
    have hl : (p * 2^149 / q).log2 = K + 23 := by
      rw [hx]
      apply log2_unique
      · rw [Nat.pow_add, Nat.mul_comm]; exact Nat.mul_le_mul_right _ h1
      · rw [Nat.add_assoc, Nat.pow_add, Nat.mul_comm]
        exact (Nat.mul_lt_mul_left (Nat.two_pow_pos K)).2 h2
    have he : expo p q = K := by unfold expo; omega
    rw [raw, he, h, rne_exact _ _ (Nat.mul_pos hq (Nat.two_pow_pos _))]
  rcases Nat.lt_or_eq_of_le h2 with h2 | h2
  · exact main m K h1 h2 h
  · have eK : (2:Nat)^(K+1) = 2^K * 2 := by rw [Nat.pow_succ]
    have e24 : (2:Nat)^24 = 2^23 * 2 := by omega
    have := main (2^23) (K+1) (Nat.le_refl _) (by omega) (by rw [h, h2, eK, e24]; ac_rfl)
    rw [this, h2]; clear this main h; omega

/-- **`n as f32` is the correctly rounded `n`**: rounding `n` directly or rounding its `f32` value
(which is exact) give the same bits -/
theorem ofNat_natVal (n : Nat) : rnd (natVal n) 1 = ofNat n := by
  unfold ofNat
  by_cases hs : n < 2^24
  · rw [natVal_id hs]
  · have hn : n ≠ 0 := by omega
    have hlog : 24 ≤ n.log2 + 1 := by
      have := (Nat.log2_lt (k := n.log2 + 1) hn).1 (by omega)
      apply Classical.byContradiction; intro hc
      have : 2^(n.log2 + 1) ≤ 2^23 := Nat.pow_le_pow_right (by decide) (by omega)
      omega
    have hk : 0 < nexp n ∨ nexp n = 0 := by omega
    have hm1 : 2^23 ≤ rne n (2^(nexp n)) := by
      rcases hk with hk | hk
      · exact le_rne_of_le (nexp_lower n hk) (Nat.two_pow_pos _)
      · apply le_rne_of_le _ (Nat.two_pow_pos _); rw [hk]; omega
    have hm2 : rne n (2^(nexp n)) ≤ 2^24 := rne_le_of_le (Nat.le_of_lt (nexp_upper n)) (Nat.two_pow_pos _)
    -- bits of `n` rounded directly
    have hx : n * 2^149 / 1 = n * 2^149 := Nat.div_one _
    have hl : (n * 2^149 / 1).log2 = n.log2 + 149 := by
      rw [hx]; apply log2_unique
      · rw [Nat.pow_add]; exact Nat.mul_le_mul_right _ (Nat.log2_self_le hn)
      · rw [Nat.add_right_comm, Nat.pow_add]
        exact Nat.mul_lt_mul_of_pos_right Nat.lt_log2_self (Nat.two_pow_pos _)
    have he : expo n 1 = nexp n + 149 := by unfold expo nexp; omega
    have hr : raw n 1 = (nexp n + 149) * 2^23 + rne n (2^(nexp n)) := by
      rw [raw, he]
      have e1 : 1 * 2^(nexp n + 149) = 2^149 * 2^(nexp n) := by rw [Nat.one_mul, Nat.pow_add, Nat.mul_comm]
      rw [e1, Nat.mul_comm n, rne_scale _ _ _ (Nat.two_pow_pos _)]
    -- bits of the rounded value
    have hv : raw (natVal n) 1 = (nexp n + 149) * 2^23 + rne n (2^(nexp n)) := by
      apply raw_exact (by decide) hm1 hm2
      rw [natVal_eq, Nat.one_mul, Nat.pow_add, Nat.mul_assoc]
    rw [rnd_eq, rnd_eq, hr, hv]

example : ilog2Q 1 3 = -2 ∧ ilog2Q 3 4 = -1 ∧ ilog2Q 5 1 = 2 ∧ ilog2Q 8 1 = 3 ∧ ilog2Q 1 8 = -3 := by decide
example : 2^(ilog2Q 1 3 + 10).toNat * 3 ≤ 1 * 2^10 ∧ 1 * 2^10 < 2^((ilog2Q 1 3 + 10).toNat + 1) * 3 :=
  ilog2Q_spec (by decide) (by decide) 10 (by decide)
example : rnd 2 3 = (ilog2Q 2 3 + 126).toNat * 2^23 + rne (2 * 2^149) (3 * 2^(ilog2Q 2 3 + 126).toNat) := by decide
example : rnd (natVal (2^40 + 12345)) 1 = ofNat (2^40 + 12345) := ofNat_natVal _

example : lt (ratio 1 3) (ratio 2 5) = true := (lt_iff (ratio_le_inf _ _) (ratio_le_inf _ _)).2 (by decide)
example : ge (ratio 2 5) (ratio 1 3) = true := (ge_iff (ratio_le_inf _ _) (ratio_le_inf _ _)).2 (by decide)
example : lt (ratio 2 7) 0x3F666666 = true :=
  lt_anti 0x3F666666 (ratio_mono_num 7 (by decide : 2 ≤ 3)) (ratio_le_inf _ _) (by decide)
example : lt (ratio 3 7) 0x3F19999A = false := not_lt_of_ge (by decide)
example : rnd 2 3 = min ((ilog2Q 2 3 + 126).toNat * 2^23 + rne (2 * 2^149) (3 * 2^(ilog2Q 2 3 + 126).toNat)) inf ∧
    2^23 ≤ rne (2 * 2^149) (3 * 2^(ilog2Q 2 3 + 126).toNat) ∧ rne (2 * 2^149) (3 * 2^(ilog2Q 2 3 + 126).toNat) ≤ 2^24 :=
  rnd_normal (by decide) (by decide) (by decide)
example : raw 3 2 = 126 * 2^23 + 3 * 2^22 := raw_exact (K := 126) (by decide) (by decide) (by decide) (by decide)

end SimilarVerif.F32

import SimilarVerif.Props.C11
import SimilarVerif.Lemmas.TextDiff
import SimilarVerif.Lemmas.HeadlineGlue
/-! # Glue for the strengthened C05 headline theorem (Props/Headline/C05.lean)

`Exact` discharged end to end for text diffs: for the repaired swap, every algorithm, `alg = .lcs ∨ w.clock = none`
(LCS under every clock; Myers and Patience without a deadline), `textDiffOps` RETURNS a valid, alternating script
over the token comparison in which every op carries exact positions — for ANY two token arrays (the in-bounds
hypotheses of `C11.capture_exact_repaired_total`, including Patience's same-side tests, hold for the environment of
two token arrays).
-/
namespace SimilarVerif.Headline.G1
open SimilarVerif Spec

/-- the environment of two token arrays is in bounds on the whole ranges (all three element tests) -/
theorem rangesInBounds_ofTokens (old new : Array Bytes) :
    RangesInBounds (Env.ofTokens old new) 0 old.size 0 new.size :=
  RangesInBounds.of_eqPattern (Nat.zero_le _) (Nat.zero_le _)
    (IdentP.eqPattern_ofTokens old new 0 old.size 0 new.size (Nat.le_refl _) (Nat.le_refl _))

/-- **exact positions for text diffs, end to end (repaired swap)**: every algorithm, LCS under every clock, Myers
and Patience without a deadline, any two token arrays -/
theorem textDiffOps_exact_repaired (alg : Alg) (old new : Array Bytes) (w : World)
    (halg : alg = .lcs ∨ w.clock = none) :
    ∃ ops w', textDiffOps alg true old new w = .ok (ops, w') ∧
      Walk (eqB (Env.ofTokens old new)) 0 0 ops old.size new.size ∧ Exact 0 0 ops ∧ Alternating ops := by
  have hr := rangesInBounds_ofTokens old new
  rw [IdentP.textDiffOps_eq_capture]
  rcases halg with rfl | hclk
  · exact C11.capture_lcs_exact_repaired _ 0 old.size 0 new.size w hr.old_le hr.new_le hr.cross
  · exact C11.capture_exact_repaired_total alg _ 0 old.size 0 new.size w hr.old_le hr.new_le hr.cross
      (fun _ => ⟨hr.oldSide, hr.newSide⟩) hclk

end SimilarVerif.Headline.G1

#print axioms SimilarVerif.Headline.G1.rangesInBounds_ofTokens
#print axioms SimilarVerif.Headline.G1.textDiffOps_exact_repaired

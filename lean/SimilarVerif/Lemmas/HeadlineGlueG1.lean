import SimilarVerif.Props.C11
import SimilarVerif.Lemmas.TextDiff
import SimilarVerif.Lemmas.HeadlineGlue
/-! # Glue for the strengthened C05 headline theorem (Props/Headline/C05.lean)

`Exact` discharged end to end for text diffs: for the repaired swap, EVERY algorithm and EVERY world (every clock:
also Myers and Patience under a deadline that expires in the middle of the run — `C11.capture_exact_repaired_every_clock'`),
`textDiffOps` RETURNS a valid, alternating script over the token comparison in which every op carries exact
positions — for ANY two token arrays (the in-bounds hypotheses of `C11.capture_exact_repaired_every_clock'`,
including Patience's same-side tests, hold for the environment of two token arrays).
-/
namespace SimilarVerif.Headline.G1
open SimilarVerif Spec

/-- the environment of two token arrays is in bounds on the whole ranges (all three element tests) -/
theorem rangesInBounds_ofTokens (old new : Array Bytes) :
    RangesInBounds (Env.ofTokens old new) 0 old.size 0 new.size :=
  RangesInBounds.of_eqPattern (Nat.zero_le _) (Nat.zero_le _)
    (IdentP.eqPattern_ofTokens old new 0 old.size 0 new.size (Nat.le_refl _) (Nat.le_refl _))

/-- **exact positions for text diffs, end to end (repaired swap)**: every algorithm, every world (every clock, also
an expiring deadline), any two token arrays.  (Until `CaptureClock.capture_exact_repaired_every_clock'` this carried
the hypothesis `alg = .lcs ∨ w.clock = none`.) -/
theorem textDiffOps_exact_repaired (alg : Alg) (old new : Array Bytes) (w : World) :
    ∃ ops w', textDiffOps alg true old new w = .ok (ops, w') ∧
      Walk (eqB (Env.ofTokens old new)) 0 0 ops old.size new.size ∧ Exact 0 0 ops ∧ Alternating ops := by
  have hr := rangesInBounds_ofTokens old new
  rw [IdentP.textDiffOps_eq_capture]
  exact C11.capture_exact_repaired_every_clock' alg _ 0 old.size 0 new.size w hr.old_le hr.new_le hr.cross
    (fun _ => ⟨hr.oldSide, hr.newSide⟩)

/-- non-vacuity under an EXPIRING deadline: the tokens `"b" "a"` vs `"a" "a" "a"`, clock `some 0`, Myers and Patience —
the deadline fallback pair is swapped by the clean-up and the Insert survives as a stand-alone op with the exact old
index 2 (the shipped swap leaves `insert(1,1,2)`) -/
example : ∀ alg : Alg, alg ≠ .lcs →
    (textDiffOps alg true #[[98], [97]] #[[97], [97], [97]] { clock := some 0 }).map (·.1) =
      .ok [.delete 0 1 0, .equal 1 0 1, .insert 2 1 2] ∧
    (textDiffOps alg false #[[98], [97]] #[[97], [97], [97]] { clock := some 0 }).map (·.1) =
      .ok [.delete 0 1 0, .equal 1 0 1, .insert 1 1 2] := by
  intro alg h; cases alg
  · exact ⟨by rfl, by rfl⟩
  · exact ⟨by rfl, by rfl⟩
  · exact absurd rfl h

end SimilarVerif.Headline.G1

#print axioms SimilarVerif.Headline.G1.rangesInBounds_ofTokens
#print axioms SimilarVerif.Headline.G1.textDiffOps_exact_repaired

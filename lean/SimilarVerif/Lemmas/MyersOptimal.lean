import SimilarVerif.Lemmas.MyersTotal
import SimilarVerif.Lemmas.LcsMinimal
/-! Optimality of Myers' `conquer` (T4): without a deadline the emitted script has exactly
`N + M - 2·LCS` deleted+inserted items. -/
namespace SimilarVerif.MyersT
open Spec MyersP LcsMin

/-! ## The distance of a box and `Spec.lcsLen` -/

/-- the edit distance of the box `[os,oe) × [ns,ne)` -/
def boxD (E : Env) (os oe ns ne : Nat) : Nat := dist (fE E os oe ns ne) (oe-os) (ne-ns)

/-- the backward distance is `xb + yb - 2·LCS` of the two suffixes: both recursions peel the same cell -/
theorem distR_lcs (E : Env) (os oe ns ne : Nat) : ∀ (s xb yb : Nat), xb + yb < s → xb ≤ oe - os → yb ≤ ne - ns →
    dist (rE E os oe ns ne) xb yb + 2 * lcsLen (eqB E) xb yb (os + (oe-os-xb)) (ns + (ne-ns-yb)) = xb + yb := by
  intro s
  induction s with
  | zero => intro xb yb h; omega
  | succ s ih =>
    intro xb yb hs hx hy
    cases xb with
    | zero => simp
    | succ xb =>
      cases yb with
      | zero => simp
      | succ yb =>
        have h1 := ih xb yb (by omega) (by omega) (by omega)
        have h2 := ih xb (yb+1) (by omega) (by omega) (by omega)
        have h3 := ih (xb+1) yb (by omega) (by omega) (by omega)
        have e1 : os + (oe - os - (xb+1)) + 1 = os + (oe - os - xb) := by omega
        have e2 : ns + (ne - ns - (yb+1)) + 1 = ns + (ne - ns - yb) := by omega
        have hc : rE E os oe ns ne xb yb = eqB E (os + (oe - os - (xb+1))) (ns + (ne - ns - (yb+1))) := by
          simp only [rE, inb]
          rw [decide_eq_true (by omega : xb < oe - os), decide_eq_true (by omega : yb < ne - ns),
            show oe - os - 1 - xb = oe - os - (xb+1) from by omega,
            show ne - ns - 1 - yb = ne - ns - (yb+1) from by omega]
          simp
        rw [dist_succ, lcsLen_succ, e1, e2, hc]
        split <;> omega

theorem boxD_lcs (E : Env) (os oe ns ne : Nat) :
    boxD E os oe ns ne + 2 * lcsLen (eqB E) (oe-os) (ne-ns) os ns = (oe-os) + (ne-ns) := by
  have := distR_lcs E os oe ns ne _ (oe-os) (ne-ns) (Nat.lt_succ_self _) (Nat.le_refl _) (Nat.le_refl _)
  simp only [Nat.sub_self, Nat.add_zero] at this
  rw [boxD, (dual_E E os oe ns ne).dist_eq]
  exact this


/-! ## Decomposing the distance of a box -/

theorem fE_eq {E : Env} {os oe ns ne x y : Nat} (hx : x < oe - os) (hy : y < ne - ns) :
    fE E os oe ns ne x y = eqB E (os + x) (ns + y) := by
  simp [fE, inb, hx, hy]

theorem rE_eq {E : Env} {os oe ns ne x y : Nat} (hx : x < oe - os) (hy : y < ne - ns) :
    rE E os oe ns ne x y = eqB E (os + (oe - os - 1 - x)) (ns + (ne - ns - 1 - y)) := by
  simp [rE, inb, hx, hy]

theorem boxD_strip_suffix {E : Env} {os oe ns ne sl : Nat} (h1 : sl ≤ oe - os) (h2 : sl ≤ ne - ns)
    (h : ∀ t, t < sl → eqB E (oe-1-t) (ne-1-t) = true) :
    boxD E os oe ns ne = boxD E os (oe-sl) ns (ne-sl) := by
  unfold boxD
  have e1 : oe - os = oe - sl - os + sl := by omega
  have e2 : ne - ns = ne - sl - ns + sl := by omega
  have hs := dist_slide (e := fE E os oe ns ne) (x := oe - sl - os) (y := ne - sl - ns) sl (by
    intro t ht
    rw [fE_eq (by omega) (by omega)]
    have := h (sl - 1 - t) (by omega)
    rwa [show oe - 1 - (sl - 1 - t) = os + (oe - sl - os + t) from by omega,
      show ne - 1 - (sl - 1 - t) = ns + (ne - sl - ns + t) from by omega] at this)
  rw [← e1, ← e2] at hs
  rw [hs]
  apply dist_congr _ _ _ (Nat.lt_succ_self _)
  intro x' y' hx hy
  rw [fE_eq (by omega) (by omega), fE_eq (by omega) (by omega)]

theorem boxD_strip_prefix {E : Env} {os oe ns ne p : Nat} (h1 : p ≤ oe - os) (h2 : p ≤ ne - ns)
    (h : ∀ t, t < p → eqB E (os+t) (ns+t) = true) :
    boxD E os oe ns ne = boxD E (os+p) oe (ns+p) ne := by
  unfold boxD
  rw [(dual_E E os oe ns ne).dist_eq, (dual_E E (os+p) oe (ns+p) ne).dist_eq]
  have e1 : oe - os = oe - (os+p) + p := by omega
  have e2 : ne - ns = ne - (ns+p) + p := by omega
  have hs := dist_slide (e := rE E os oe ns ne) (x := oe - (os+p)) (y := ne - (ns+p)) p (by
    intro t ht
    rw [rE_eq (by omega) (by omega)]
    have := h (p - 1 - t) (by omega)
    rwa [show os + (p - 1 - t) = os + (oe - os - 1 - (oe - (os+p) + t)) from by omega,
      show ns + (p - 1 - t) = ns + (ne - ns - 1 - (ne - (ns+p) + t)) from by omega] at this)
  rw [← e1, ← e2] at hs
  rw [hs]
  apply dist_congr _ _ _ (Nat.lt_succ_self _)
  intro x' y' hx hy
  rw [rE_eq (by omega) (by omega), rE_eq (by omega) (by omega)]
  congr 1 <;> omega

theorem boxD_split {E : Env} {os oe ns ne x y : Nat} (h : Split E os oe ns ne (x, y)) :
    boxD E os oe ns ne = boxD E os x ns y + boxD E x oe y ne := by
  obtain ⟨h1, h2, h3, h4, h5, -, -⟩ := h
  simp only at h1 h2 h3 h4 h5
  have hl : boxD E os x ns y = dist (fE E os oe ns ne) (x - os) (y - ns) := by
    unfold boxD
    apply dist_congr _ _ _ (Nat.lt_succ_self _)
    intro x' y' hx hy
    rw [fE_eq (by omega) (by omega), fE_eq (by omega) (by omega)]
  have hr : boxD E x oe y ne = dist (rE E os oe ns ne) (oe - x) (ne - y) := by
    unfold boxD
    rw [(dual_E E x oe y ne).dist_eq]
    apply dist_congr _ _ _ (Nat.lt_succ_self _)
    intro x' y' hx hy
    rw [rE_eq (by omega) (by omega), rE_eq (by omega) (by omega)]
    congr 1 <;> omega
  rw [hl, hr]
  exact h5.symm

theorem boxD_no_new {E : Env} {os oe ns ne : Nat} (h : ne ≤ ns) : boxD E os oe ns ne = oe - os := by
  unfold boxD
  rw [show ne - ns = 0 from by omega]
  simp

theorem boxD_no_old {E : Env} {os oe ns ne : Nat} (h : oe ≤ os) : boxD E os oe ns ne = ne - ns := by
  unfold boxD
  rw [show oe - os = 0 from by omega]
  simp


/-! ## The cost of the script `conquer` emits -/

theorem nDel_append : ∀ (a b : List Op), nDel (a ++ b) = nDel a + nDel b := by
  intro a b
  induction a with
  | nil => simp [nDel]
  | cons c cs ih => cases c <;> simp [nDel, ih] <;> omega

theorem nIns_append : ∀ (a b : List Op), nIns (a ++ b) = nIns a + nIns b := by
  intro a b
  induction a with
  | nil => simp [nIns]
  | cons c cs ih => cases c <;> simp [nIns, ih] <;> omega

theorem cost_append (a b : List Op) : Spec.cost (a ++ b) = Spec.cost a + Spec.cost b := by
  simp only [Spec.cost, nDel_append, nIns_append]; omega

theorem map_op_inj : ∀ (a b : List Op), a.map Call.op = b.map Call.op → a = b := by
  intro a
  induction a with
  | nil => intro b h; cases b with
    | nil => rfl
    | cons _ _ => simp at h
  | cons c cs ih =>
    intro b h
    cases b with
    | nil => simp at h
    | cons d ds =>
      simp only [List.map_cons, List.cons.injEq, Call.op.injEq] at h
      rw [h.1, ih ds h.2]

theorem Ext.unique {r r' : Rec} {a b : List Op} (h1 : Ext r r' a) (h2 : Ext r r' b) : a = b := by
  unfold Ext at h1 h2
  rw [h1] at h2
  have : r.trace ++ a.map Call.op = r.trace ++ b.map Call.op := by
    have := congrArg Rec.trace h2; simpa using this
  have := List.append_cancel_left this
  exact map_op_inj a b this


theorem conquer_cost (E : Env) (off : Nat) :
    ∀ (fuel os oe ns ne : Nat) (vf vb : V) (r : Rec) (w : World) (r' : Rec) (vf' vb' : V) (w' : World),
      r.failAt = none → os ≤ oe → ns ≤ ne → InBounds E os oe ns ne → w.clock = none →
      conquer E recHook off fuel os oe ns ne vf vb r w = .ok (r', vf', vb', w') →
      ∃ ops, Ext r r' ops ∧ Spec.cost ops = boxD E os oe ns ne ∧ w'.clock = none := by
  intro fuel
  induction fuel with
  | zero => intro os oe ns ne vf vb r w r' vf' vb' w' _ _ _ _ _ h; simp [conquer] at h
  | succ f ih =>
    intro os oe ns ne vf vb r w r' vf' vb' w' hf ho hn hb hc h
    simp only [conquer] at h
    split at h
    · simp at h
    · rename_i p w1 hp
      obtain ⟨hp1, hp2, hp3, hp4, hp5⟩ := commonPrefixLen_spec hp
      have hc1 : w1.clock = none := by rw [hp5.1]; exact hc
      split at h
      · simp at h
      · rename_i r1 w2 hpre
        have hpre' : (∃ pre, Ext r r1 pre ∧ Spec.cost pre = 0) ∧ w2 = w1 := by
          split at hpre
          · obtain ⟨hx, rfl⟩ := emit_rec hf (by intros; simp) hpre
            exact ⟨⟨_, hx, by simp [Spec.cost, nDel, nIns]⟩, rfl⟩
          · simp only [Except.ok.injEq, Prod.mk.injEq] at hpre
            obtain ⟨rfl, rfl⟩ := hpre
            exact ⟨⟨[], Ext.nil _, by simp [Spec.cost, nDel, nIns]⟩, rfl⟩
        obtain ⟨⟨pre, xpre, cpre⟩, rfl⟩ := hpre'
        have hf1 : r1.failAt = none := by rw [xpre.failAt]; exact hf
        have hD1 := boxD_strip_prefix (E := E) hp1 hp2 hp3
        split at h
        · simp at h
        · rename_i sl w3 hs
          obtain ⟨hs1, hs2, hs3, hs4, hs5⟩ := commonSuffixLen_spec hs
          have hc3 : w3.clock = none := by rw [hs5.1]; exact hc1
          have hD2 := boxD_strip_suffix (E := E) (os := os+p) (ns := ns+p) hs1 hs2 hs3
          have hb' : InBounds E (os+p) (oe-sl) (ns+p) (ne-sl) :=
            InBounds_sub hb (by omega) (by omega) (by omega) (by omega)
          split at h
          · simp at h
          · rename_i r2 vf2 vb2 w4 hmid
            have hmid' : (∃ mid, Ext r1 r2 mid ∧ Spec.cost mid = boxD E (os+p) (oe-sl) (ns+p) (ne-sl)) ∧
                w4.clock = none := by
              split at hmid
              · rename_i hcond
                simp only [Bool.and_eq_true, decide_eq_true_eq] at hcond
                simp only [Except.ok.injEq, Prod.mk.injEq] at hmid
                obtain ⟨rfl, rfl, rfl, rfl⟩ := hmid
                refine ⟨⟨[], Ext.nil _, ?_⟩, hc3⟩
                rw [boxD_no_new hcond.2]; simp [Spec.cost, nDel, nIns]; omega
              · rename_i hcond
                simp only [Bool.and_eq_true, decide_eq_true_eq] at hcond
                split at hmid
                · rename_i hne
                  split at hmid
                  · simp at hmid
                  · rename_i ra wa hem
                    simp only [Except.ok.injEq, Prod.mk.injEq] at hmid
                    obtain ⟨rfl, rfl, rfl, rfl⟩ := hmid
                    obtain ⟨hx, rfl⟩ := emit_rec hf1 (by intros; simp) hem
                    refine ⟨⟨_, hx, ?_⟩, hc3⟩
                    rw [boxD_no_new hne]; simp [Spec.cost, nDel, nIns]
                · rename_i hne
                  split at hmid
                  · rename_i hoe
                    split at hmid
                    · simp at hmid
                    · rename_i ra wa hem
                      simp only [Except.ok.injEq, Prod.mk.injEq] at hmid
                      obtain ⟨rfl, rfl, rfl, rfl⟩ := hmid
                      obtain ⟨hx, rfl⟩ := emit_rec hf1 (by intros; simp) hem
                      refine ⟨⟨_, hx, ?_⟩, hc3⟩
                      rw [boxD_no_old hoe]; simp [Spec.cost, nDel, nIns]
                  · rename_i hoe
                    have ho' : os + p < oe - sl := by omega
                    have hn' : ns + p < ne - sl := by omega
                    split at hmid
                    · simp at hmid
                    · rename_i vf5 vb5 x y w5 hfm
                      have hsp := findMiddleSnake_spec (Nat.le_of_lt ho') (Nat.le_of_lt hn') hfm
                      simp only [LoopPost] at hsp
                      obtain ⟨hx1, hx2, hy1, hy2, -⟩ := id hsp
                      have hc5 : w5.clock = none := findMiddleSnake_clock hfm hc3
                      split at hmid
                      · simp at hmid
                      · rename_i ra vfa vba wa hca
                        obtain ⟨opsa, xa, ca, hca'⟩ := ih _ _ _ _ _ _ _ _ _ _ _ _ hf1 hx1 hy1
                          (InBounds_sub hb' (Nat.le_refl _) hx2 (Nat.le_refl _) hy2) hc5 hca
                        obtain ⟨opsb, xb, cb, hcb'⟩ := ih _ _ _ _ _ _ _ _ _ _ _ _ (by rw [xa.failAt]; exact hf1) hx2 hy2
                          (InBounds_sub hb' hx1 (Nat.le_refl _) hy1 (Nat.le_refl _)) hca' hmid
                        exact ⟨⟨_, xa.append xb, by rw [cost_append, ca, cb, boxD_split hsp]⟩, hcb'⟩
                    · rename_i vf5 vb5 w5 hfm
                      exact absurd hfm (snake_found E _ _ _ _ _ _ _ _ _ _ _ ho' hn' hb' hc3)
            obtain ⟨⟨mid, xmid, cmid⟩, hc4⟩ := hmid'
            have hf2 : r2.failAt = none := by rw [xmid.failAt]; exact hf1
            have hpost : (∃ post, Ext r2 r' post ∧ Spec.cost post = 0) ∧ w' = w4 := by
              split at h
              · split at h
                · simp at h
                · rename_i rc wc hem
                  simp only [Except.ok.injEq, Prod.mk.injEq] at h
                  obtain ⟨rfl, rfl, rfl, rfl⟩ := h
                  obtain ⟨hx, rfl⟩ := emit_rec hf2 (by intros; simp) hem
                  exact ⟨⟨_, hx, by simp [Spec.cost, nDel, nIns]⟩, rfl⟩
              · simp only [Except.ok.injEq, Prod.mk.injEq] at h
                obtain ⟨rfl, rfl, rfl, rfl⟩ := h
                exact ⟨⟨[], Ext.nil _, by simp [Spec.cost, nDel, nIns]⟩, rfl⟩
            obtain ⟨⟨post, xpost, cpost⟩, rfl⟩ := hpost
            refine ⟨_, xpre.append (xmid.append xpost), ?_, hc4⟩
            rw [cost_append, cost_append, cpre, cmid, cpost, hD1, hD2]; omega


/-- **T4, `conquer`**: without a deadline the script `conquer` appends is a valid exact script for its
box with exactly `N + M - 2·LCS` deleted+inserted items. -/
theorem conquer_optimal (E : Env) (off fuel os oe ns ne : Nat) (vf vb : V) (r : Rec) (w : World)
    (r' : Rec) (vf' vb' : V) (w' : World)
    (hf : r.failAt = none) (ho : os ≤ oe) (hn : ns ≤ ne) (hb : InBounds E os oe ns ne) (hc : w.clock = none)
    (h : conquer E recHook off fuel os oe ns ne vf vb r w = .ok (r', vf', vb', w')) :
    ∃ ops, r' = { r with trace := r.trace ++ ops.map Call.op } ∧ Walk (eqB E) os ns ops oe ne ∧
      Exact os ns ops ∧
      nDel ops + nIns ops = (oe-os) + (ne-ns) - 2 * lcsLen (eqB E) (oe-os) (ne-ns) os ns ∧
      nDel ops + nIns ops + 2 * lcsLen (eqB E) (oe-os) (ne-ns) os ns = (oe-os) + (ne-ns) := by
  obtain ⟨ops, h1, h2, -, h4, -, -⟩ :=
    conquer_sound_near E (snake_in_box E) off fuel os oe ns ne vf vb r w r' vf' vb' w' hf ho hn hb h
  obtain ⟨ops2, x2, c2, -⟩ := conquer_cost E off fuel os oe ns ne vf vb r w r' vf' vb' w' hf ho hn hb hc h
  have : ops2 = ops := Ext.unique x2 h1
  subst this
  have hl := boxD_lcs E os oe ns ne
  unfold Spec.cost at c2
  exact ⟨ops2, h1, h2, h4 (snake_found E) hc, by omega, by omega⟩

/-- **T4, `myers::diff_deadline`**: without a deadline the recorded script is valid, exact, costs
`N + M - 2·LCS`, and no valid script for the two ranges is cheaper. -/
theorem myers_optimal (E : Env) (os oe ns ne : Nat) (w : World) (r' : Rec) (w' : World)
    (ho : os ≤ oe) (hn : ns ≤ ne) (hb : InBounds E os oe ns ne) (hc : w.clock = none)
    (h : myersDiff E recHook os oe ns ne {} w = .ok (r', w')) :
    ∃ ops, r'.trace = ops.map Call.op ++ [.finish] ∧ Walk (eqB E) os ns ops oe ne ∧ Exact os ns ops ∧
      Spec.cost ops + 2 * lcsLen (eqB E) (oe-os) (ne-ns) os ns = (oe-os) + (ne-ns) ∧
      ∀ ops', Walk (eqB E) os ns ops' oe ne → Spec.cost ops ≤ Spec.cost ops' := by
  unfold myersDiff at h
  simp only at h
  split at h
  · simp at h
  · rename_i r1 vf1 vb1 w1 hcq
    obtain ⟨ops, h1, h2, h3, -, h5⟩ :=
      conquer_optimal E _ _ os oe ns ne _ _ {} w r1 vf1 vb1 w1 rfl ho hn hb hc hcq
    subst h1
    simp [recHook, Rec.push, Except.map] at h
    obtain ⟨rfl, rfl⟩ := h
    refine ⟨ops, by simp, h2, h3, by unfold Spec.cost; omega, ?_⟩
    intro ops' hw'
    have := walk_cost_lower hw'
    unfold Spec.cost at this ⊢
    omega

end SimilarVerif.MyersT

import SimilarVerif.Lemmas.Udiff
/-!
# Hunk extents for sub-range diffs

`UdiffP.header_counts` is stated for whole-sequence diffs (`Walk e 0 0 ops N M`, `Exact 0 0 ops`).  The chain
construction behind it (`UdiffP.chain_of_hwalk`) already works for arbitrary starts; this file lifts the theorem to
arbitrary range starts `os`, `ns` and adds the two lower bounds `os ≤ f.oStart`, `ns ≤ f.nStart`.
-/
namespace SimilarVerif.UdiffSub
open SimilarVerif Spec Group UdiffP

/-- the groups of an exact valid script over arbitrary range starts form a chain from these starts -/
theorem chain_of_walk_sub (e : Nat → Nat → Bool) (ops : List Op) (n os ns N M : Nat)
    (hw : Walk e os ns ops N M) (hx : Exact os ns ops) : Chain e N M 0 os ns (groupDiffOps ops n) :=
  chain_of_hwalk e ops n os ns N M (hwalk_of_walk ops os ns N M hw hx)

/-- `chain_mem` with the lower bounds: every group of a chain from `(a, b)` starts at or after `(a, b)` -/
theorem chain_mem_lb {e : Nat → Nat → Bool} {N M : Nat} : ∀ (gs : List (List Op)) (s a b : Nat),
    Chain e N M s a b gs →
    ∀ g ∈ gs, ∃ a' b' c d, g ≠ [] ∧ HWalk e a' b' g c d ∧ a ≤ a' ∧ b ≤ b' ∧ c ≤ N ∧ d ≤ M := by
  intro gs
  induction gs with
  | nil => intro s a b _ g hg; simp at hg
  | cons g0 gs ih =>
    intro s a b ⟨k, c, d, _, _, hne, hw, hc⟩ g hg
    rcases List.mem_cons.mp hg with rfl | hg
    · have := chain_bound _ _ _ _ hc
      exact ⟨_, _, c, d, hne, hw, Nat.le_add_right _ _, Nat.le_add_right _ _, this.1, this.2⟩
    · obtain ⟨a', b', c', d', h1, h2, h3, h4, h5, h6⟩ := ih _ _ _ hc g hg
      have hm := hwalk_mono _ _ _ _ _ hw
      exact ⟨a', b', c', d', h1, h2, by omega, by omega, h5, h6⟩

/-- **Hunk extents, every range start.**  For every hunk of an exact valid script over the ranges `os..N`, `ns..M`:
the header's ranges (first op's starts, last op's ends) are ordered and inside the ranges, their lengths are the
numbers of old-side and new-side body lines, and the old-side (new-side) body lines are exactly the old (new) lines
`oS, oS+1, …, oE-1` (`nS, …, nE-1`) in order. -/
theorem header_counts_sub (e : Nat → Nat → Bool) (ops : List Op) (n os ns N M : Nat)
    (hw : Walk e os ns ops N M) (hx : Exact os ns ops) (g : List Op)
    (hg : g ∈ (groupDiffOps ops n).filter fun g => !g.isEmpty) :
    ∃ f l, g.head? = some f ∧ g.getLast? = some l ∧
      os ≤ f.oStart ∧ f.oStart ≤ l.oEnd ∧ l.oEnd ≤ N ∧ ns ≤ f.nStart ∧ f.nStart ≤ l.nEnd ∧ l.nEnd ≤ M ∧
      (allChanges g).countP isOld = l.oEnd - f.oStart ∧
      (allChanges g).countP isNew = l.nEnd - f.nStart ∧
      (allChanges g).filterMap (·.oldIndex) = List.range' f.oStart (l.oEnd - f.oStart) ∧
      (allChanges g).filterMap (·.newIndex) = List.range' f.nStart (l.nEnd - f.nStart) := by
  have hc := chain_of_walk_sub e ops n os ns N M hw hx
  rw [chain_filter _ _ _ _ hc] at hg
  obtain ⟨a, b, c, d, hne, hh, ha, hb, hN, hM⟩ := chain_mem_lb _ _ _ _ hc g hg
  obtain ⟨f, l, h1, h2, rfl, rfl, rfl, rfl⟩ := hwalk_ends g _ _ _ _ hh hne
  obtain ⟨b1, b2, b3, b4⟩ := hwalk_body g _ _ _ _ hh
  have hm := hwalk_mono _ _ _ _ _ hh
  exact ⟨f, l, h1, h2, ha, hm.1, hN, hb, hm.2, hM, b3, b4, b1, b2⟩

#print axioms header_counts_sub

end SimilarVerif.UdiffSub

import SimilarVerif.Lemmas.HeadlineGlue
/-! # Totality of the run behind `Replace` alone (C08 a2)

`Replace<H>` panics (`debug_assert_eq!`) when it is told a `delete`/`insert` that does not continue the pending
one, so `diffWith alg E (replaceHook recHook) …` returning is not a consequence of the raw run returning alone:
it needs the raw stream to be a valid walk *without `replace` calls*.

* no algorithm ever calls `replace` on its hook: guarding the hook (`Headline.guardReplace`) changes nothing
  (`diffWith_guard`; Myers by induction on `conquer`, Patience through its internal hook, LCS from HeadlineGlue);
* simulation (Lemmas/HookFail.lean `diffWith_sim`) between the guarded recording hook and `Replace` over the recording
  hook: the state of the second run is what feeding the stream recorded so far to `Replace` gives (`RelR`); if
  `Replace` fails, feeding the recorded stream fails (`RelF`) — impossible for a valid `replace`-free walk
  (`replace_preserves`, Lemmas/Replace.lean).
-/
namespace SimilarVerif.ReplaceTotal
open SimilarVerif Spec HookFail Headline

/-! ### no algorithm calls `replace` -/
section Guard
variable {σ : Type} (h : Hook σ)

theorem conquer_guard (E : Env) (off : Nat) : ∀ fuel os oe ns ne vf vb s w,
    conquer E (guardReplace h) off fuel os oe ns ne vf vb s w = conquer E h off fuel os oe ns ne vf vb s w := by
  intro fuel
  induction fuel with
  | zero => intros; rfl
  | succ fuel ih =>
    intro os oe ns ne vf vb s w
    simp only [conquer, emit, guard_equal, guard_delete, guard_insert, ih]

theorem myersDiff_guard (E : Env) (os oe ns ne : Nat) (s : σ) (w : World) :
    myersDiff E (guardReplace h) os oe ns ne s w = myersDiff E h os oe ns ne s w := by
  simp only [myersDiff, conquer_guard, guard_finish]

theorem noFinish_guard : noFinishHook (guardReplace h) = guardReplace (noFinishHook h) := by
  unfold noFinishHook guardReplace
  congr
  funext c s w
  cases c with
  | finish => rfl
  | op x => cases x <;> rfl

theorem patAnchor_guard (E : Env) (uo un : Array Nat) (i j : Nat) (p : PState) (s : σ) (w : World) :
    patAnchor E (guardReplace h) uo un i j p s w = patAnchor E h uo un i j p s w := by
  simp only [patAnchor, emit, guard_equal, noFinish_guard, myersDiff_guard]

theorem patEqual_guard (E : Env) (uo un : Array Nat) : ∀ (len i j : Nat) (p : PState) (s : σ) (w : World),
    patEqual E (guardReplace h) uo un len i j p s w = patEqual E h uo un len i j p s w := by
  intro len
  induction len with
  | zero => intros; rfl
  | succ len ih =>
    intro i j p s w
    simp only [patEqual, patAnchor_guard, ih]

theorem patienceHook_guard (E : Env) (uo un : Array Nat) (oe ne : Nat) :
    patienceHook E (guardReplace h) uo un oe ne = patienceHook E h uo un oe ne := by
  unfold patienceHook
  congr
  funext c st w
  simp only [patEqual_guard, myersDiff_guard]

theorem patienceDiff_guard (E : Env) (os oe ns ne : Nat) (s : σ) (w : World) :
    patienceDiff E (guardReplace h) os oe ns ne s w = patienceDiff E h os oe ns ne s w := by
  simp only [patienceDiff, patienceHook_guard]

/-- **no algorithm calls `replace` on its hook**: a hook that panics on `replace` is as good as the hook itself -/
theorem diffWith_guard (alg : Alg) (E : Env) (os oe ns ne : Nat) (s : σ) (w : World) :
    diffWith alg E (guardReplace h) os oe ns ne s w = diffWith alg E h os oe ns ne s w := by
  cases alg with
  | myers => exact myersDiff_guard h E os oe ns ne s w
  | patience => exact patienceDiff_guard h E os oe ns ne s w
  | lcs => exact lcsDiff_guard h E os oe ns ne s w

end Guard

/-! ### `Replace` over the never-failing recording hook does not look at the world -/

/-- world-free reading of one call to `Replace` over the never-failing recording hook -/
def pureCall (c : Call) (a : RState) (T : List Call) : Except Abort (RState × List Call) :=
  match (replaceHook recHook).call c (a, { trace := T }) {} with
  | .ok ((a', r), _) => .ok (a', r.trace)
  | .error e => .error e

theorem replace_call_pure (c : Call) (a : RState) (T : List Call) (w : World) :
    (replaceHook recHook).call c (a, { trace := T }) w =
      (match pureCall c a T with
       | .ok (a', T') => .ok ((a', { trace := T' }), w)
       | .error e => .error e) := by
  unfold pureCall
  obtain ⟨d, i, q⟩ := a
  rcases d with _ | ⟨d1, d2, d3⟩ <;> rcases i with _ | ⟨i1, i2, i3⟩ <;> rcases q with _ | ⟨q1, q2, q3⟩ <;>
    cases c with
    | finish => simp [replaceHook, rFlushEq, rFlushDelIns, Replace.recHook_call]
    | op x =>
      cases x <;> simp [replaceHook, rFlushEq, rFlushDelIns, Replace.recHook_call] <;>
        (try (split <;> simp))

/-! ### the simulation -/

/-- the calls recorded so far contain no `replace`; feeding them to `Replace` (any world) gives the state `t` -/
def RelR (s : Rec) (t : RState × Rec) : Prop :=
  s = { trace := s.trace } ∧ NoReplaceOp (opsOf s.trace) ∧ t.2 = { trace := t.2.trace } ∧
  ∀ w, deliver (replaceHook recHook) s.trace ({}, {}) w = .ok (t, w)

/-- the calls recorded so far contain no `replace`, and feeding them to `Replace` fails -/
def RelF (_e : Abort) (s : Rec) : Prop :=
  NoReplaceOp (opsOf s.trace) ∧ ∃ w e', deliver (replaceHook recHook) s.trace ({}, {}) w = .error e'

theorem guard_call {c : Call} {s s' : Rec} {w w' : World}
    (hc : (guardReplace recHook).call c s w = .ok (s', w')) :
    NoReplaceOp (opsOf [c]) ∧ s' = { s with trace := s.trace ++ [c] } ∧ w' = w := by
  cases c with
  | finish =>
    have hc' : recHook.call .finish s w = .ok (s', w') := hc
    simp only [recHook] at hc'
    obtain ⟨hp, rfl⟩ := push_map_ok hc'
    exact ⟨trivial, push_ok hp, rfl⟩
  | op x =>
    cases x with
    | replace a b c d => simp [guardReplace] at hc
    | equal a b c =>
      have hc' : recHook.call (.op (.equal a b c)) s w = .ok (s', w') := hc
      simp only [recHook] at hc'
      obtain ⟨hp, rfl⟩ := push_map_ok hc'
      exact ⟨trivial, push_ok hp, rfl⟩
    | delete a b c =>
      have hc' : recHook.call (.op (.delete a b c)) s w = .ok (s', w') := hc
      simp only [recHook] at hc'
      obtain ⟨hp, rfl⟩ := push_map_ok hc'
      exact ⟨trivial, push_ok hp, rfl⟩
    | insert a b c =>
      have hc' : recHook.call (.op (.insert a b c)) s w = .ok (s', w') := hc
      simp only [recHook] at hc'
      obtain ⟨hp, rfl⟩ := push_map_ok hc'
      exact ⟨trivial, push_ok hp, rfl⟩

theorem noReplace_snoc {T : List Call} {c : Call} (h1 : NoReplaceOp (opsOf T)) (h2 : NoReplaceOp (opsOf [c])) :
    NoReplaceOp (opsOf (T ++ [c])) := by
  rw [CaptureP.opsOf_append]
  exact MyersG.noReplaceOp_append _ _ h1 h2

theorem replace_sim : Sim (guardReplace recHook) (replaceHook recHook) RelR RelF := by
  refine ⟨?_, ?_⟩
  · intro e c s w s' w' hc hF
    obtain ⟨hn, hs, -⟩ := guard_call hc
    obtain ⟨h1, w0, e', hd⟩ := hF
    subst hs
    refine ⟨noReplace_snoc h1 hn, w0, e', ?_⟩
    dsimp only
    rw [CaptureP.deliver_snoc, hd]
  · intro c s t w s' w' hR hc
    obtain ⟨hn, hs, hw⟩ := guard_call hc
    subst hs; subst hw
    obtain ⟨a, r⟩ := t
    obtain ⟨h0, h1, h2, hd⟩ := hR
    dsimp only at h2
    have hcall : ∀ w, (replaceHook recHook).call c (a, r) w =
        (match pureCall c a r.trace with
         | .ok (a', T') => .ok ((a', { trace := T' }), w)
         | .error e => .error e) := by
      intro w
      have := replace_call_pure c a r.trace w
      rw [← h2] at this
      exact this
    rw [hcall]
    cases hp : pureCall c a r.trace with
    | error e =>
      refine Out.err ⟨noReplace_snoc h1 hn, w', e, ?_⟩
      dsimp only
      rw [CaptureP.deliver_snoc, hd]
      dsimp only
      rw [hcall, hp]
    | ok v =>
      obtain ⟨a', T'⟩ := v
      refine Out.ok ⟨?_, noReplace_snoc h1 hn, rfl, ?_⟩
      · rw [h0]
      · intro w2
        dsimp only
        rw [CaptureP.deliver_snoc, hd]
        dsimp only
        rw [hcall, hp]

/-- **any algorithm against `Replace` over the recording hook, given the raw run**: if the raw run returns a valid
walk, the raw stream has no `replace` call, the run behind `Replace` returns with the same clock, and the
recording hook has been told exactly what feeding the raw stream to `Replace` produces (`replaceOut`): a valid
alternating script with the same item counts followed by one `finish` -/
theorem replace_run (alg : Alg) (E : Env) (os oe ns ne : Nat) (w : World) (raw : List Op) (w1 : World)
    (hraw : rawTrace alg E os oe ns ne w = .ok ({ trace := raw.map Call.op ++ [.finish] }, w1))
    (hw : Walk (eqB E) os ns raw oe ne) :
    NoReplaceOp raw ∧
    ∃ (out : List Op) (rs : RState),
      diffWith alg E (replaceHook recHook) os oe ns ne ({}, {}) w =
        .ok ((rs, { trace := out.map Call.op ++ [.finish] }), w1) ∧
      (∀ w0, replaceOut raw w0 = .ok ((rs, { trace := out.map Call.op ++ [.finish] }), w0)) ∧
      Walk (eqB E) os ns out oe ne ∧ nDel out = nDel raw ∧ nIns out = nIns raw ∧ nEq out = nEq raw ∧
      Alternating out := by
  have hraw' : diffWith alg E (guardReplace recHook) os oe ns ne ({} : Rec) w =
      .ok ({ trace := raw.map Call.op ++ [.finish] }, w1) := by
    rw [diffWith_guard]; exact hraw
  have hO := diffWith_sim replace_sim (s := ({} : Rec)) (t := (({}, {}) : RState × Rec))
    ⟨rfl, trivial, rfl, fun _ => rfl⟩ hraw'
  rcases hO with ⟨t', hk, -, hnr, -, hd⟩ | ⟨e, -, hnr, w0, e', hd⟩
  · dsimp only at hnr hd
    rw [CaptureP.opsOf_raw] at hnr
    refine ⟨hnr, ?_⟩
    obtain ⟨out, rs, hro, b1, b2, b3, b4, b5, -⟩ := replace_preserves (eqB E) raw os ns oe ne w hnr hw
    have ht : t' = (rs, { trace := out.map Call.op ++ [.finish] }) := by
      have := hd w
      unfold replaceOut at hro
      rw [hro] at this
      cases this; rfl
    subst ht
    refine ⟨out, rs, hk, ?_, b1, b2, b3, b4, b5⟩
    intro w0
    unfold replaceOut
    exact hd w0
  · dsimp only at hnr hd
    rw [CaptureP.opsOf_raw] at hnr
    obtain ⟨out, rs, hro, -⟩ := replace_preserves (eqB E) raw os ns oe ne w0 hnr hw
    unfold replaceOut at hro
    rw [hro] at hd
    cases hd

/-- **totality of the run behind `Replace` alone**: on in-bounds ranges, for every algorithm and clock, the run
against `Replace` over the (never-failing) recording hook returns; the hook has been told `out` followed by
`finish`, where `out` is what `Replace` makes of the raw stream `raw` of the algorithm alone (`replaceOut raw`), a
valid alternating script; the final clock is that of the raw run -/
theorem replace_stack_total (alg : Alg) (E : Env) (os oe ns ne : Nat) (w : World)
    (hr : RangesInBounds E os oe ns ne) :
    ∃ (raw out : List Op) (rs : RState) (w' : World),
      rawTrace alg E os oe ns ne w = .ok ({ trace := raw.map Call.op ++ [.finish] }, w') ∧
      NoReplaceOp raw ∧
      diffWith alg E (replaceHook recHook) os oe ns ne ({}, {}) w =
        .ok ((rs, { trace := out.map Call.op ++ [.finish] }), w') ∧
      (∀ w0, replaceOut raw w0 = .ok ((rs, { trace := out.map Call.op ++ [.finish] }), w0)) ∧
      Walk (eqB E) os ns out oe ne ∧ Alternating out := by
  obtain ⟨r, w1, h, raw, ht, hw, -⟩ := rawTrace_total_valid alg E os oe ns ne w hr
  have hreta := CaptureP.raw_rec_eta alg E os oe ns ne w r w1 h
  rw [ht] at hreta
  rw [hreta] at h
  obtain ⟨hnr, out, rs, hrun, hro, b1, -, -, -, b5⟩ := replace_run alg E os oe ns ne w raw w1 h hw
  exact ⟨raw, out, rs, w1, h, hnr, hrun, hro, b1, b5⟩

end SimilarVerif.ReplaceTotal

#print axioms SimilarVerif.ReplaceTotal.diffWith_guard
#print axioms SimilarVerif.ReplaceTotal.replace_run
#print axioms SimilarVerif.ReplaceTotal.replace_stack_total

import SimilarVerif.Lemmas.Helpers
/-! # C04 end to end: the text diff returns, and its changes reconstruct both texts

`HelpersP.textDiffOps_total` (every algorithm, every clock, below and above the 100-token switch, both
clean-up variants): the text diff of two token arrays returns a valid script over the tokens.  With
`TextP.reconstructs_of_walk` / `Reconstructs.bytes` this gives C04 without any "if it returns". -/
namespace SimilarVerif.TextTotal
open SimilarVerif Spec TextP TokP

/-- **C04, token level, total**: for ANY two token arrays, every algorithm, both clean-up variants and
every world the text diff returns ops whose whole-diff iteration has the C04 index shape and carries the
old / new tokens -/
theorem textDiff_total_tokens (alg : Alg) (repair : Bool) (old new : Array Bytes) (w : World) :
    ∃ ops w', textDiffOps alg repair old new w = .ok (ops, w') ∧
      Walk (eqB (Env.ofTokens old new)) 0 0 ops old.size new.size ∧ Reconstructs old new ops := by
  obtain ⟨ops, w', h, hw⟩ := HelpersP.textDiffOps_total alg repair old new w
  exact ⟨ops, w', h, hw, reconstructs_of_walk old new _ ops (UdiffP.sound_ofTokens old new) hw⟩

/-- **C04 end to end**: for token ranges `ro`, `rn` that tile the two texts `bo`, `bn` with non-empty tokens
(`Tiling`; what C06 proves for every tokenizer), every algorithm, both clean-up variants and EVERY world
(any clock): the text diff RETURNS; for the changes of its whole-diff iteration
* the old indices are `0, 1, …, #old tokens - 1` and the new indices `0, 1, …, #new tokens - 1`, in order;
* an Equal change carries both indices, a Delete only the old, an Insert only the new one, and each reads
  its value at its own index of the proper side;
* the values of the non-Insert changes concatenate to `bo`, those of the non-Delete changes to `bn`;
* no value is empty. -/
theorem text_diff_total_reconstructs (alg : Alg) (repair : Bool) (bo bn : Bytes) (ro rn : List (Nat × Nat))
    (w : World) (hto : Tiling ro bo.length) (htn : Tiling rn bn.length) :
    ∃ ops w', textDiffOps alg repair (tokens bo ro) (tokens bn rn) w = .ok (ops, w') ∧
      Walk (eqB (Env.ofTokens (tokens bo ro) (tokens bn rn))) 0 0 ops ro.length rn.length ∧
      (allChanges ops).filterMap (·.oldIndex) = List.range ro.length ∧
      (allChanges ops).filterMap (·.newIndex) = List.range rn.length ∧
      (∀ c ∈ allChanges ops,
        (c.tag = .equal → c.oldIndex = some c.idx ∧ c.newIndex.isSome ∧ c.fromNew = false) ∧
        (c.tag = .delete → c.oldIndex = some c.idx ∧ c.newIndex = none ∧ c.fromNew = false) ∧
        (c.tag = .insert → c.oldIndex = none ∧ c.newIndex = some c.idx ∧ c.fromNew = true)) ∧
      Reconstructs (tokens bo ro) (tokens bn rn) ops ∧
      (((allChanges ops).filter (·.tag != .insert)).map (value (tokens bo ro) (tokens bn rn))).flatten = bo ∧
      (((allChanges ops).filter (·.tag != .delete)).map (value (tokens bo ro) (tokens bn rn))).flatten = bn ∧
      (∀ c ∈ allChanges ops, value (tokens bo ro) (tokens bn rn) c ≠ []) := by
  obtain ⟨ops, w', h, hw, hr⟩ := textDiff_total_tokens alg repair (tokens bo ro) (tokens bn rn) w
  obtain ⟨b1, b2⟩ := hr.bytes hto htn
  refine ⟨ops, w', h, by simpa [tokens] using hw, by simpa [tokens] using hr.oldIdx,
    by simpa [tokens] using hr.newIdx, hr.shape, hr, b1, b2, ?_⟩
  intro c hc
  have hl := HelpersP.lookup_value _ _ ops hr c hc
  have hmem : value (tokens bo ro) (tokens bn rn) c ∈ (tokens bo ro).toList ∨
      value (tokens bo ro) (tokens bn rn) c ∈ (tokens bn rn).toList := by
    cases hf : c.fromNew
    · rw [hf] at hl
      simp only [Bool.false_eq_true, if_false] at hl
      exact .inl (Array.mem_toList_iff.2 (Array.mem_of_getElem? hl))
    · rw [hf] at hl
      simp only [if_true] at hl
      exact .inr (Array.mem_toList_iff.2 (Array.mem_of_getElem? hl))
  simp only [tokens, List.mem_map] at hmem
  rcases hmem with ⟨r, hr', he⟩ | ⟨r, hr', he⟩
  · show value _ _ c ≠ []
    rw [← he]; exact (tiling_concat hto).2 r hr'
  · show value _ _ c ≠ []
    rw [← he]; exact (tiling_concat htn).2 r hr'

/-- instance: the line tokenizer on bytes (its output tiles every text, C06) -/
theorem text_diff_total_linesB (alg : Alg) (repair : Bool) (bo bn : Bytes) (w : World) :
    ∃ ops w', textDiffOps alg repair (tokens bo (tokenizeLinesB bo)) (tokens bn (tokenizeLinesB bn)) w = .ok (ops, w') ∧
      (((allChanges ops).filter (·.tag != .insert)).map
        (value (tokens bo (tokenizeLinesB bo)) (tokens bn (tokenizeLinesB bn)))).flatten = bo ∧
      (((allChanges ops).filter (·.tag != .delete)).map
        (value (tokens bo (tokenizeLinesB bo)) (tokens bn (tokenizeLinesB bn)))).flatten = bn := by
  obtain ⟨ops, w', h, -, -, -, -, -, b1, b2, -⟩ := text_diff_total_reconstructs alg repair bo bn _ _ w
    (tokenizeLinesB_tiling bo) (tokenizeLinesB_tiling bn)
  exact ⟨ops, w', h, b1, b2⟩

end SimilarVerif.TextTotal

import SimilarVerif.Lemmas.Inline
import SimilarVerif.Lemmas.Helpers
/-! # C16 without the hypothesis on the second-level diff; `iter_inline_changes` never panics

The second-level diff inside `inlineChanges` is `captureDiff .patience` over the word tokens of the old and new
lines of the Replace op.  By `HelpersP.rawTrace_total_ofTokens` (Patience is total on token arrays, every clock)
and `CaptureMin.capture_total_of_validRaw` it returns a valid script over the two word lists — the hypothesis
(ii) of `InlineP.inlineChanges_replace`. -/
namespace SimilarVerif.InlineTotal
open SimilarVerif Spec InlineP TokP

/-- **the second-level diff is total and valid**: `capture_diff` (any algorithm) over two token arrays returns
a valid script, every clock, shipped and repaired clean-up -/
theorem capture_tokens_total (alg : Alg) (repair : Bool) (oW nW : Array Bytes) (w : World) :
    ∃ ops w', captureDiff alg (Env.ofTokens oW nW) repair 0 oW.size 0 nW.size w = .ok (ops, w') ∧
      Walk (eqB (Env.ofTokens oW nW)) 0 0 ops oW.size nW.size := by
  obtain ⟨r, w1, hraw, hv⟩ := HelpersP.rawTrace_total_ofTokens alg oW nW w
  obtain ⟨raw, ops, w', -, -, -, hc, hw, -⟩ :=
    CaptureMin.capture_total_of_validRaw alg _ repair 0 oW.size 0 nW.size w r w1 hraw hv
      (TextP.inBounds_ofTokens oW nW)
  exact ⟨ops, w', hc, hw⟩

/-- whatever the second-level diff returns is a valid script over the word lists -/
theorem capture_tokens_walk (alg : Alg) (repair : Bool) (oW nW : Array Bytes) (w w' : World) (ops : List Op)
    (h : captureDiff alg (Env.ofTokens oW nW) repair 0 oW.size 0 nW.size w = .ok (ops, w')) :
    Walk (eqB (Env.ofTokens oW nW)) 0 0 ops oW.size nW.size := by
  obtain ⟨ops2, w2, h2, hw⟩ := capture_tokens_total alg repair oW nW w
  rw [h] at h2; cases h2; exact hw

/-- **`replace_refined` without hypothesis (ii)**: a Replace op inside the line sequences that passes both ratio
gates, with per-line word segmentations satisfying the segmenter contract — whatever the second-level diff
returned, `iter_inline_changes` does not panic and has the tags, indices, lossless segments, emphasis and
missing-newline properties of `InlineP.inlineChanges_replace` -/
theorem replace_refined_uncond (lnl : Bytes → List (Nat × Nat)) (hlnl : ∀ s, Tiling (lnl s) s.length)
    (repair : Bool) (old new : Array Bytes)
    (o ol n nl : Nat) (segO segN : List (List Nat)) (w w' : World) (ops2 : List Op)
    (hb : o + ol ≤ old.size ∧ n + nl ≤ new.size)
    (hg : ¬ F32.lt (upperSeqRatio ((old.toList.drop o).take ol).length ((new.toList.drop n).take nl).length) F32.half = true)
    (hO : SegsOK ((old.toList.drop o).take ol) segO) (hN : SegsOK ((new.toList.drop n).take nl) segN) :
    let oSeqs := (multiLookup 0 ((old.toList.drop o).take ol) segO).toArray
    let nSeqs := (multiLookup 0 ((new.toList.drop n).take nl) segN).toArray
    captureDiff .patience (Env.ofTokens (oSeqs.map (·.1)) (nSeqs.map (·.1))) repair 0 oSeqs.size 0 nSeqs.size w
      = .ok (ops2, w') →
    ¬ F32.lt (ratioF ((ratioPair ops2 oSeqs.size nSeqs.size).1 / 2) (ratioPair ops2 oSeqs.size nSeqs.size).2) F32.half = true →
    ∃ cs, inlineChanges lnl repair old new (.replace o ol n nl) segO segN w = .ok (cs, w') ∧
      cs.map (fun c => (c.tag, c.oldIndex, c.newIndex))
        = (opChanges (.replace o ol n nl)).map (fun c => (c.tag, c.oldIndex, c.newIndex)) ∧
      cs.map (fun c => segsConcat c.values)
        = (opChanges (.replace o ol n nl)).map (fun c => segsConcat (plainOf old new c).values) ∧
      (∀ c ∈ cs, ∀ seg ∈ c.values, EmphOK lnl seg ∧ seg.2 ≠ []) ∧
      ∀ c ∈ cs, missingNewline c.values = !endsWithNewline (segsConcat c.values) := by
  intro oSeqs nSeqs hcap hr
  have hw := capture_tokens_walk .patience repair (oSeqs.map (·.1)) (nSeqs.map (·.1)) w w' ops2
    (by simpa using hcap)
  exact inlineChanges_replace lnl hlnl repair old new o ol n nl segO segN w w' ops2 hb hg hO hN hcap hr
    (by simpa [oSeqs, nSeqs] using hw)

/-! ## every op of a line diff: `iter_inline_changes` returns -/

/-- the ops of a valid script lie inside the two line sequences -/
theorem walk_inB {e : Nat → Nat → Bool} (ops : List Op) (no nn : Nat) (hw : Walk e 0 0 ops no nn) :
    ∀ x ∈ ops, InB no nn x := by
  intro x hx
  have := RemapP.walk_opIn ops _ _ _ _ _ _ hw (Nat.le_refl _) (Nat.le_refl _) x hx
  cases x <;> simp only [RemapP.OpIn] at this <;> simp only [InB] <;> omega

theorem opChanges_idx_lt (old new : Array Bytes) (x : Op) (h : InB old.size new.size x) :
    ∀ c ∈ opChanges x, c.idx < (if c.fromNew then new.size else old.size) := by
  intro c hc
  rw [C13.opChanges_eq_spec] at hc
  cases x <;> simp only [InB] at h <;> simp only [Spec.iterChanges, List.mem_append, List.mem_map, List.mem_range] at hc
  · obtain ⟨t, ht, rfl⟩ := hc; simp; omega
  · obtain ⟨t, ht, rfl⟩ := hc; simp; omega
  · obtain ⟨t, ht, rfl⟩ := hc; simp; omega
  · rcases hc with ⟨t, ht, rfl⟩ | ⟨t, ht, rfl⟩ <;> simp <;> omega

/-- the four properties, for the plain expansion of an in-range op over non-empty lines -/
theorem plain_props (lnl : Bytes → List (Nat × Nat)) (old new : Array Bytes) (x : Op)
    (h : InB old.size new.size x) (hno : ∀ t ∈ old.toList, t ≠ []) (hnn : ∀ t ∈ new.toList, t ≠ []) :
    ((opChanges x).map (plainOf old new)).map (fun c => (c.tag, c.oldIndex, c.newIndex))
        = (opChanges x).map (fun c => (c.tag, c.oldIndex, c.newIndex)) ∧
    ((opChanges x).map (plainOf old new)).map (fun c => segsConcat c.values)
        = (opChanges x).map (fun c => segsConcat (plainOf old new c).values) ∧
    (∀ c ∈ (opChanges x).map (plainOf old new), ∀ seg ∈ c.values, EmphOK lnl seg ∧ seg.2 ≠ []) ∧
    (∀ c ∈ (opChanges x).map (plainOf old new), missingNewline c.values = !endsWithNewline (segsConcat c.values)) := by
  have hne : ∀ c ∈ (opChanges x).map (plainOf old new), ∀ seg ∈ c.values, EmphOK lnl seg ∧ seg.2 ≠ [] := by
    intro c hc seg hs
    obtain ⟨ch, hch, rfl⟩ := List.mem_map.1 hc
    have hlt := opChanges_idx_lt old new x h ch hch
    simp only [plainOf, List.mem_singleton] at hs
    subst hs
    refine ⟨fun he => (by simp at he), ?_⟩
    cases hf : ch.fromNew
    · simp only [hf, Bool.false_eq_true, if_false] at hlt ⊢
      simp only [Array.getElem?_eq_getElem hlt, Option.getD_some]
      exact hno _ (by simp)
    · simp only [hf, if_true] at hlt ⊢
      simp only [Array.getElem?_eq_getElem hlt, Option.getD_some]
      exact hnn _ (by simp)
  refine ⟨by rw [List.map_map]; rfl, by rw [List.map_map]; rfl, hne, ?_⟩
  intro c hc
  refine missingNewline_agrees _ (fun seg hs => (hne c hc seg hs).2) ?_
  obtain ⟨ch, -, rfl⟩ := List.mem_map.1 hc
  simp [plainOf]

/-- **`iter_inline_changes` never panics, and refines losslessly**: for a line diff whose ops are a valid script
over NON-EMPTY line tokens, every op `x` of the diff, every world (any clock), both clean-up variants, and
word segmentations of the op's lines that satisfy the segmenter contract (needed for Replace ops only):
the call returns; the changes have the tags and indices of `iter_changes(op)`; the segments of each change
concatenate to the line of the corresponding plain change; every segment is non-empty and every emphasised
segment is a lines-and-newlines token not ending in a newline; the missing-newline flag agrees with the line;
and for Equal / Delete / Insert ops the result IS the plain expansion and the world is untouched. -/
theorem inline_changes_total (lnl : Bytes → List (Nat × Nat)) (hlnl : ∀ s, Tiling (lnl s) s.length)
    (repair : Bool) (old new : Array Bytes) {e : Nat → Nat → Bool} (ops : List Op)
    (hw : Walk e 0 0 ops old.size new.size)
    (hno : ∀ t ∈ old.toList, t ≠ []) (hnn : ∀ t ∈ new.toList, t ≠ [])
    (x : Op) (hx : x ∈ ops) (segO segN : List (List Nat)) (w : World)
    (hseg : ∀ o ol n nl, x = .replace o ol n nl →
      SegsOK ((old.toList.drop o).take ol) segO ∧ SegsOK ((new.toList.drop n).take nl) segN) :
    ∃ cs w', inlineChanges lnl repair old new x segO segN w = .ok (cs, w') ∧
      cs.map (fun c => (c.tag, c.oldIndex, c.newIndex))
        = (opChanges x).map (fun c => (c.tag, c.oldIndex, c.newIndex)) ∧
      cs.map (fun c => segsConcat c.values)
        = (opChanges x).map (fun c => segsConcat (plainOf old new c).values) ∧
      (∀ c ∈ cs, ∀ seg ∈ c.values, EmphOK lnl seg ∧ seg.2 ≠ []) ∧
      (∀ c ∈ cs, missingNewline c.values = !endsWithNewline (segsConcat c.values)) ∧
      (x.tag ≠ .replace → cs = (opChanges x).map (plainOf old new) ∧ w' = w) := by
  have hin := walk_inB ops _ _ hw x hx
  have hpl := inlinePlain_total old new x hin
  obtain ⟨p1, p2, p3, p4⟩ := plain_props lnl old new x hin hno hnn
  by_cases hr : x.tag ≠ .replace
  · refine ⟨_, w, ?_, p1, p2, p3, p4, fun _ => ⟨rfl, rfl⟩⟩
    rw [inlineChanges_nonReplace lnl repair old new x segO segN w hr, hpl]; rfl
  · obtain ⟨o, ol, n, nl, rfl⟩ : ∃ o ol n nl, x = .replace o ol n nl := by
      cases x <;> simp [Op.tag] at hr
      exact ⟨_, _, _, _, rfl⟩
    have hb : o + ol ≤ old.size ∧ n + nl ≤ new.size := hin
    obtain ⟨hO, hN⟩ := hseg o ol n nl rfl
    by_cases hg : F32.lt (upperSeqRatio ((old.toList.drop o).take ol).length
        ((new.toList.drop n).take nl).length) F32.half = true
    · refine ⟨_, w, ?_, p1, p2, p3, p4, fun h => absurd rfl h⟩
      rw [inlineChanges_gate1 lnl repair old new o ol n nl segO segN w hb hg, hpl]; rfl
    · obtain ⟨ops2, w', hcap, -⟩ := capture_tokens_total .patience repair
        ((multiLookup 0 ((old.toList.drop o).take ol) segO).toArray.map (·.1))
        ((multiLookup 0 ((new.toList.drop n).take nl) segN).toArray.map (·.1)) w
      simp only [Array.size_map] at hcap
      by_cases hg2 : F32.lt (ratioF ((ratioPair ops2 (multiLookup 0 ((old.toList.drop o).take ol) segO).toArray.size
          (multiLookup 0 ((new.toList.drop n).take nl) segN).toArray.size).1 / 2)
          (ratioPair ops2 (multiLookup 0 ((old.toList.drop o).take ol) segO).toArray.size
          (multiLookup 0 ((new.toList.drop n).take nl) segN).toArray.size).2) F32.half = true
      · refine ⟨_, w', ?_, p1, p2, p3, p4, fun h => absurd rfl h⟩
        rw [inlineChanges_gate2 lnl repair old new o ol n nl segO segN w w' ops2 hb hg hcap hg2, hpl]; rfl
      · obtain ⟨cs, h1, h2, h3, h4, h5⟩ := replace_refined_uncond lnl hlnl repair old new o ol n nl segO segN
          w w' ops2 hb hg hO hN hcap hg2
        exact ⟨cs, w', h1, h2, h3, h4, h5, fun h => absurd rfl h⟩

/-- the segmentations a word segmenter `sg` delivers for a list of lines -/
def segsOf (sg : Bytes → List Nat) (lines : List Bytes) : List (List Nat) := lines.map sg

/-- a segmenter that partitions every non-empty line into non-empty words satisfies `SegsOK` on non-empty lines -/
theorem segsOK_of_segmenter (sg : Bytes → List Nat) (hsg : ∀ line, line ≠ [] → Partition (sg line) line.length)
    (lines : List Bytes) (hne : ∀ t ∈ lines, t ≠ []) : SegsOK lines (segsOf sg lines) := by
  intro k line hk
  have hm : line ∈ lines := List.mem_of_getElem? hk
  refine ⟨?_, hne line hm⟩
  simp only [segsOf, List.getElem?_map, hk, Option.map_some, Option.getD_some]
  exact hsg line (hne line hm)

/-- **the same with a segmenter**: for every op of a valid line diff over non-empty lines and any word
segmenter obeying its contract, `iter_inline_changes` returns (no panic) with the C16 properties -/
theorem inline_changes_total_segmenter (lnl : Bytes → List (Nat × Nat)) (hlnl : ∀ s, Tiling (lnl s) s.length)
    (sg : Bytes → List Nat) (hsg : ∀ line, line ≠ [] → Partition (sg line) line.length)
    (repair : Bool) (old new : Array Bytes) {e : Nat → Nat → Bool} (ops : List Op)
    (hw : Walk e 0 0 ops old.size new.size)
    (hno : ∀ t ∈ old.toList, t ≠ []) (hnn : ∀ t ∈ new.toList, t ≠ [])
    (x : Op) (hx : x ∈ ops) (w : World) :
    ∃ cs w', inlineChanges lnl repair old new x
        (segsOf sg ((old.toList.drop x.oStart).take x.oLen)) (segsOf sg ((new.toList.drop x.nStart).take x.nLen)) w
        = .ok (cs, w') ∧
      cs.map (fun c => (c.tag, c.oldIndex, c.newIndex))
        = (opChanges x).map (fun c => (c.tag, c.oldIndex, c.newIndex)) ∧
      cs.map (fun c => segsConcat c.values)
        = (opChanges x).map (fun c => segsConcat (plainOf old new c).values) ∧
      (∀ c ∈ cs, ∀ seg ∈ c.values, EmphOK lnl seg ∧ seg.2 ≠ []) ∧
      (∀ c ∈ cs, missingNewline c.values = !endsWithNewline (segsConcat c.values)) ∧
      (x.tag ≠ .replace → cs = (opChanges x).map (plainOf old new) ∧ w' = w) := by
  refine inline_changes_total lnl hlnl repair old new ops hw hno hnn x hx _ _ w ?_
  rintro o ol n nl rfl
  exact ⟨segsOK_of_segmenter sg hsg _ (fun t ht => hno t (List.mem_of_mem_drop (List.mem_of_mem_take ht))),
    segsOK_of_segmenter sg hsg _ (fun t ht => hnn t (List.mem_of_mem_drop (List.mem_of_mem_take ht)))⟩

/-- **end to end from the texts**: line ranges that tile the two texts, any algorithm for the line diff, any
clock, any word segmenter obeying its contract: the line diff returns, and `iter_inline_changes` returns for
every one of its ops with the C16 properties -/
theorem inline_text_diff_total (lnl : Bytes → List (Nat × Nat)) (hlnl : ∀ s, Tiling (lnl s) s.length)
    (sg : Bytes → List Nat) (hsg : ∀ line, line ≠ [] → Partition (sg line) line.length)
    (alg : Alg) (repair : Bool) (bo bn : Bytes) (ro rn : List (Nat × Nat))
    (hto : Tiling ro bo.length) (htn : Tiling rn bn.length) (w0 : World) :
    ∃ ops w1, textDiffOps alg repair (TextP.tokens bo ro) (TextP.tokens bn rn) w0 = .ok (ops, w1) ∧
      ∀ x ∈ ops, ∀ w, ∃ cs w',
        inlineChanges lnl repair (TextP.tokens bo ro) (TextP.tokens bn rn) x
          (segsOf sg (((TextP.tokens bo ro).toList.drop x.oStart).take x.oLen))
          (segsOf sg (((TextP.tokens bn rn).toList.drop x.nStart).take x.nLen)) w = .ok (cs, w') ∧
        cs.map (fun c => (c.tag, c.oldIndex, c.newIndex))
          = (opChanges x).map (fun c => (c.tag, c.oldIndex, c.newIndex)) ∧
        cs.map (fun c => segsConcat c.values)
          = (opChanges x).map (fun c => segsConcat (plainOf (TextP.tokens bo ro) (TextP.tokens bn rn) c).values) ∧
        (∀ c ∈ cs, ∀ seg ∈ c.values, EmphOK lnl seg ∧ seg.2 ≠ []) ∧
        (∀ c ∈ cs, missingNewline c.values = !endsWithNewline (segsConcat c.values)) ∧
        (x.tag ≠ .replace →
          cs = (opChanges x).map (plainOf (TextP.tokens bo ro) (TextP.tokens bn rn)) ∧ w' = w) := by
  obtain ⟨ops, w1, h, hw⟩ := HelpersP.textDiffOps_total alg repair (TextP.tokens bo ro) (TextP.tokens bn rn) w0
  refine ⟨ops, w1, h, fun x hx w => ?_⟩
  refine inline_changes_total_segmenter lnl hlnl sg hsg repair _ _ ops hw ?_ ?_ x hx w
  · intro t ht
    simp only [List.mem_map] at ht
    obtain ⟨r, hr, rfl⟩ := ht
    exact (tiling_concat hto).2 r hr
  · intro t ht
    simp only [List.mem_map] at ht
    obtain ⟨r, hr, rfl⟩ := ht
    exact (tiling_concat htn).2 r hr

end SimilarVerif.InlineTotal

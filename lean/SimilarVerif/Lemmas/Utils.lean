import SimilarVerif.Model.Utils
import SimilarVerif.Spec.Walk
/-! Facts about `common_prefix_len` / `common_suffix_len` used by every algorithm proof. -/
namespace SimilarVerif
open Spec

/-- the world after some comparisons: clock and probes untouched, comparisons only grow -/
def World.CmpStep (w w' : World) (k : Nat) : Prop :=
  w'.clock = w.clock ∧ w'.probes = w.probes ∧ w.cmps ≤ w'.cmps ∧ w'.cmps ≤ w.cmps + k

theorem cmp_ok {E : Env} {i j : Nat} {w : World} {b : Bool} {w' : World} (h : cmp E i j w = .ok (b, w')) :
    E.on i j = some b ∧ w' = { w with cmps := w.cmps + 1 } := by
  unfold cmp at h
  cases hE : E.on i j with
  | none => simp [hE] at h
  | some b' => simp [hE] at h; obtain ⟨rfl, rfl⟩ := h; simp

theorem cmp_total {E : Env} {i j : Nat} (w : World) (h : (E.on i j).isSome) :
    ∃ b, cmp E i j w = .ok (b, { w with cmps := w.cmps + 1 }) ∧ E.on i j = some b := by
  unfold cmp
  cases hE : E.on i j with
  | none => simp [hE] at h
  | some b => exact ⟨b, by simp, rfl⟩

/-- result of the prefix scan: started at `i`, returns `p ≥ i` with all of `[i,p)` equal, `p - i ≤ fuel`,
and either fuel ran out exactly or the item at `p` differs -/
theorem cplGo_spec (E : Env) (os ns : Nat) : ∀ (fuel i : Nat) (w : World) (p : Nat) (w' : World),
    cplGo E os ns fuel i w = .ok (p, w') →
    i ≤ p ∧ p ≤ i + fuel ∧ (∀ t, i ≤ t → t < p → eqB E (os+t) (ns+t) = true) ∧
    (p < i + fuel → eqB E (os+p) (ns+p) = false) ∧ World.CmpStep w w' (p - i + 1) := by
  intro fuel
  induction fuel with
  | zero =>
    intro i w p w' h
    simp [cplGo] at h
    obtain ⟨rfl, rfl⟩ := h
    refine ⟨Nat.le_refl _, Nat.le_refl _, ?_, ?_, ?_⟩
    · intro t h1 h2; omega
    · intro h; omega
    · simp [World.CmpStep]
  | succ f ih =>
    intro i w p w' h
    simp only [cplGo] at h
    cases hc : cmp E (os + i) (ns + i) w with
    | error e => simp [hc] at h
    | ok r =>
      obtain ⟨b, w1⟩ := r
      obtain ⟨hE, rfl⟩ := cmp_ok hc
      cases b with
      | true =>
        simp [hc] at h
        obtain ⟨h1, h2, h3, h4, h5⟩ := ih (i+1) _ p w' h
        refine ⟨by omega, by omega, ?_, ?_, ?_⟩
        · intro t ht1 ht2
          by_cases hti : t = i
          · subst hti; simp [eqB, hE]
          · exact h3 t (by omega) ht2
        · intro hp; exact h4 (by omega)
        · simp only [World.CmpStep] at h5 ⊢; exact ⟨h5.1, h5.2.1, by omega, by omega⟩
      | false =>
        simp [hc] at h
        obtain ⟨rfl, rfl⟩ := h
        refine ⟨Nat.le_refl _, by omega, ?_, ?_, ?_⟩
        · intro t h1 h2; omega
        · intro _; simp [eqB, hE]
        · simp [World.CmpStep]

theorem cplGo_total (E : Env) (os ns : Nat) : ∀ (fuel i : Nat) (w : World),
    (∀ t, i ≤ t → t < i + fuel → (E.on (os+t) (ns+t)).isSome) →
    ∃ p w', cplGo E os ns fuel i w = .ok (p, w') := by
  intro fuel
  induction fuel with
  | zero => intro i w _; exact ⟨i, w, rfl⟩
  | succ f ih =>
    intro i w hb
    obtain ⟨b, hc, _⟩ := cmp_total (E := E) w (hb i (Nat.le_refl _) (by omega))
    simp only [cplGo, hc]
    cases b with
    | true => exact ih (i+1) _ (fun t h1 h2 => hb t (by omega) (by omega))
    | false => exact ⟨i, _, rfl⟩

/-- **`common_prefix_len`**: `p` items are pairwise equal, `p` is at most both lengths, and it is
maximal (the next pair differs or a range ends); at most `p+1` comparisons. -/
theorem commonPrefixLen_spec {E : Env} {os oe ns ne : Nat} {w w' : World} {p : Nat}
    (h : commonPrefixLen E os oe ns ne w = .ok (p, w')) :
    p ≤ oe - os ∧ p ≤ ne - ns ∧ (∀ t, t < p → eqB E (os+t) (ns+t) = true) ∧
    (p < oe - os → p < ne - ns → eqB E (os+p) (ns+p) = false) ∧ World.CmpStep w w' (p + 1) := by
  unfold commonPrefixLen at h
  split at h
  · simp at h; obtain ⟨rfl, rfl⟩ := h
    refine ⟨Nat.zero_le _, Nat.zero_le _, fun t ht => by omega, ?_, by simp [World.CmpStep]⟩
    intro h1 h2; omega
  · obtain ⟨_, h2, h3, h4, h5⟩ := cplGo_spec E os ns _ 0 w p w' h
    refine ⟨by omega, by omega, fun t ht => h3 t (Nat.zero_le _) ht, ?_, by simpa using h5⟩
    intro h1 h2'; exact h4 (by omega)

theorem commonPrefixLen_total {E : Env} {os oe ns ne : Nat} (w : World)
    (hb : InBounds E os oe ns ne) : ∃ p w', commonPrefixLen E os oe ns ne w = .ok (p, w') := by
  unfold commonPrefixLen
  split
  · exact ⟨0, w, rfl⟩
  · apply cplGo_total
    intro t _ ht
    exact hb (os+t) (ns+t) (by omega) (by omega) (by omega) (by omega)

theorem cslGo_spec (E : Env) (oe ne : Nat) : ∀ (fuel i : Nat) (w : World) (p : Nat) (w' : World),
    cslGo E oe ne fuel i w = .ok (p, w') →
    i ≤ p ∧ p ≤ i + fuel ∧ (∀ t, i ≤ t → t < p → eqB E (oe-1-t) (ne-1-t) = true) ∧
    (p < i + fuel → eqB E (oe-1-p) (ne-1-p) = false) ∧ World.CmpStep w w' (p - i + 1) := by
  intro fuel
  induction fuel with
  | zero =>
    intro i w p w' h
    simp [cslGo] at h
    obtain ⟨rfl, rfl⟩ := h
    refine ⟨Nat.le_refl _, Nat.le_refl _, ?_, ?_, ?_⟩
    · intro t h1 h2; omega
    · intro h; omega
    · simp [World.CmpStep]
  | succ f ih =>
    intro i w p w' h
    simp only [cslGo] at h
    cases hc : cmp E (oe - 1 - i) (ne - 1 - i) w with
    | error e => simp [hc] at h
    | ok r =>
      obtain ⟨b, w1⟩ := r
      obtain ⟨hE, rfl⟩ := cmp_ok hc
      cases b with
      | true =>
        simp [hc] at h
        obtain ⟨h1, h2, h3, h4, h5⟩ := ih (i+1) _ p w' h
        refine ⟨by omega, by omega, ?_, ?_, ?_⟩
        · intro t ht1 ht2
          by_cases hti : t = i
          · subst hti; simp [eqB, hE]
          · exact h3 t (by omega) ht2
        · intro hp; exact h4 (by omega)
        · simp only [World.CmpStep] at h5 ⊢; exact ⟨h5.1, h5.2.1, by omega, by omega⟩
      | false =>
        simp [hc] at h
        obtain ⟨rfl, rfl⟩ := h
        refine ⟨Nat.le_refl _, by omega, ?_, ?_, ?_⟩
        · intro t h1 h2; omega
        · intro _; simp [eqB, hE]
        · simp [World.CmpStep]

theorem cslGo_total (E : Env) (oe ne : Nat) : ∀ (fuel i : Nat) (w : World),
    (∀ t, i ≤ t → t < i + fuel → (E.on (oe-1-t) (ne-1-t)).isSome) →
    ∃ p w', cslGo E oe ne fuel i w = .ok (p, w') := by
  intro fuel
  induction fuel with
  | zero => intro i w _; exact ⟨i, w, rfl⟩
  | succ f ih =>
    intro i w hb
    obtain ⟨b, hc, _⟩ := cmp_total (E := E) w (hb i (Nat.le_refl _) (by omega))
    simp only [cslGo, hc]
    cases b with
    | true => exact ih (i+1) _ (fun t h1 h2 => hb t (by omega) (by omega))
    | false => exact ⟨i, _, rfl⟩

/-- **`common_suffix_len`** -/
theorem commonSuffixLen_spec {E : Env} {os oe ns ne : Nat} {w w' : World} {p : Nat}
    (h : commonSuffixLen E os oe ns ne w = .ok (p, w')) :
    p ≤ oe - os ∧ p ≤ ne - ns ∧ (∀ t, t < p → eqB E (oe-1-t) (ne-1-t) = true) ∧
    (p < oe - os → p < ne - ns → eqB E (oe-1-p) (ne-1-p) = false) ∧ World.CmpStep w w' (p + 1) := by
  unfold commonSuffixLen at h
  split at h
  · simp at h; obtain ⟨rfl, rfl⟩ := h
    refine ⟨Nat.zero_le _, Nat.zero_le _, fun t ht => by omega, ?_, by simp [World.CmpStep]⟩
    intro h1 h2; omega
  · obtain ⟨_, h2, h3, h4, h5⟩ := cslGo_spec E oe ne _ 0 w p w' h
    refine ⟨by omega, by omega, fun t ht => h3 t (Nat.zero_le _) ht, ?_, by simpa using h5⟩
    intro h1 h2'; exact h4 (by omega)

theorem commonSuffixLen_total {E : Env} {os oe ns ne : Nat} (w : World)
    (hb : InBounds E os oe ns ne) : ∃ p w', commonSuffixLen E os oe ns ne w = .ok (p, w') := by
  unfold commonSuffixLen
  split
  · exact ⟨0, w, rfl⟩
  · rename_i hne
    apply cslGo_total
    intro t _ ht
    exact hb (oe-1-t) (ne-1-t) (by omega) (by omega) (by omega) (by omega)

end SimilarVerif

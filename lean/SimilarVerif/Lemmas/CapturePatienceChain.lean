import SimilarVerif.Lemmas.CompactCov
import SimilarVerif.Lemmas.CapturePatience
import SimilarVerif.Lemmas.Identify
/-! # The captured Patience diff keeps the CHAIN of unique common items

`PatienceT.patience_lis`: without a deadline the raw Patience stream reports Equal a chain of
`lcsLen(unique old, unique new)` pairs of unique items.  Here: the same chain is still reported Equal by
the captured diff (raw stream → `cleanup_diff_ops` → `Replace`), PROVIDED the three element tests of the
environment are consistent across the two sides (`CrossConsistent`: two new items equal to the same old item
are equal to each other — true for every environment of two label sequences, `EqPattern`).

* `CompactCov.cleanup_oCov` / `cleanup_oCov_iff`: the clean-up keeps the set of old positions covered by Equal ops.
* `replace_preserves_oCov`: so does `Replace` (it keeps even the set of covered position PAIRS).
* `capture_oCov_iff`: hence the whole capture pipeline, for every algorithm.
* `unique_once`: an index returned by `unique` is the only one of the range holding its item.
* `captured_patience_chain`: the chain form of the size clause for the captured Patience diff.
* `captured_chain_needs_consistency`: without `CrossConsistent` the chain form is FALSE (an abstract
  environment in which `new[0] == old[0]`, `new[1] == old[0]` but `new[0] != new[1]`).
-/
namespace SimilarVerif.CaptureChain
open SimilarVerif Spec PatienceT PatienceP CompactCov CaptureP

/-! ### strictly increasing lists -/

theorem sorted_subset_sublist : ∀ (l₂ l₁ : List Nat), l₁.Pairwise (· < ·) → l₂.Pairwise (· < ·) → l₁ ⊆ l₂ →
    l₁.Sublist l₂ := by
  intro l₂
  induction l₂ with
  | nil =>
    intro l₁ _ _ hs
    rw [List.eq_nil_of_subset_nil hs]
    exact List.Sublist.slnil
  | cons y ys ih =>
    intro l₁ h1 h2 hs
    cases l₁ with
    | nil => exact List.nil_sublist _
    | cons x xs =>
      rw [List.pairwise_cons] at h1 h2
      have hx : x ∈ y :: ys := hs (List.mem_cons_self ..)
      by_cases hxy : x = y
      · subst hxy
        refine List.Sublist.cons_cons _ (ih xs h1.2 h2.2 ?_)
        intro z hz
        have hz' : z ∈ x :: ys := hs (List.mem_cons_of_mem _ hz)
        rcases List.mem_cons.1 hz' with rfl | hz'
        · exact absurd (h1.1 _ hz) (Nat.lt_irrefl _)
        · exact hz'
      · have hxys : x ∈ ys := by
          rcases List.mem_cons.1 hx with h | h
          · exact absurd h hxy
          · exact h
        have hyx : y < x := h2.1 _ hxys
        refine List.Sublist.cons _ (ih (x :: xs) (List.pairwise_cons.2 h1) h2.2 ?_)
        intro z hz
        have hz' : z ∈ y :: ys := hs hz
        rcases List.mem_cons.1 hz' with rfl | hz'
        · rcases List.mem_cons.1 hz with rfl | hz
          · exact absurd hyx (Nat.lt_irrefl _)
          · have := h1.1 _ hz; omega
        · exact hz'

/-- a strictly increasing list contained in a strictly increasing list that is not longer is that list -/
theorem sorted_subset_eq (l₁ l₂ : List Nat) (h1 : l₁.Pairwise (· < ·)) (h2 : l₂.Pairwise (· < ·)) (hs : l₁ ⊆ l₂)
    (hl : l₂.length ≤ l₁.length) : l₁ = l₂ :=
  (sorted_subset_sublist l₂ l₁ h1 h2 hs).eq_of_length_le hl

/-! ### the old positions reported Equal, as a list -/

/-- the old positions covered by Equal ops, in script order -/
def oPos : List Op → List Nat
  | [] => []
  | .equal o _ l :: cs => List.range' o l ++ oPos cs
  | _ :: cs => oPos cs

theorem mem_oPos (a : Nat) : ∀ (ops : List Op), a ∈ oPos ops ↔ oCov a ops := by
  intro ops
  induction ops with
  | nil => simp [oPos, oCov]
  | cons c cs ih => cases c <;> simp [oPos, oCov, ih, List.mem_range'_1]

theorem length_oPos : ∀ (ops : List Op), (oPos ops).length = nEq ops := by
  intro ops
  induction ops with
  | nil => rfl
  | cons c cs ih => cases c <;> simp [oPos, nEq, ih]

/-- in a valid script the covered old positions strictly increase (and lie in the walked range) -/
theorem oPos_sorted {e : Nat → Nat → Bool} : ∀ (ops : List Op) (o n o' n' : Nat), Walk e o n ops o' n' →
    (oPos ops).Pairwise (· < ·) ∧ ∀ a ∈ oPos ops, o ≤ a ∧ a < o' := by
  intro ops
  induction ops with
  | nil => intro o n o' n' _; simp [oPos]
  | cons c cs ih =>
    intro o n o' n' hw
    cases c with
    | equal xo xn xl =>
      simp only [Walk] at hw
      obtain ⟨rfl, rfl, hl, -, hw'⟩ := hw
      obtain ⟨i1, i2⟩ := ih _ _ _ _ hw'
      have hc := walk_counts _ _ _ _ _ hw'
      simp only [oPos]
      refine ⟨List.pairwise_append.2 ⟨List.pairwise_lt_range', i1, ?_⟩, ?_⟩
      · intro a ha b hb
        have := i2 b hb
        rw [List.mem_range'_1] at ha
        omega
      · intro a ha
        rcases List.mem_append.1 ha with ha | ha
        · rw [List.mem_range'_1] at ha; omega
        · have := i2 a ha; omega
    | delete xo xl xn =>
      simp only [Walk] at hw
      obtain ⟨i1, i2⟩ := ih _ _ _ _ hw.2.2
      exact ⟨i1, fun a ha => by have := i2 a ha; omega⟩
    | insert xo xn xl =>
      simp only [Walk] at hw
      obtain ⟨i1, i2⟩ := ih _ _ _ _ hw.2.2
      exact ⟨i1, fun a ha => by have := i2 a ha; omega⟩
    | replace xo xl xn xnl =>
      simp only [Walk] at hw
      obtain ⟨i1, i2⟩ := ih _ _ _ _ hw.2.2.2.2
      exact ⟨i1, fun a ha => by have := i2 a ha; omega⟩

/-- two valid scripts with the same number of equal items: if one covers every old position the other covers,
they cover the same old positions -/
theorem oCov_iff_of_imp {e e' : Nat → Nat → Bool} {A B : List Op} {o n o' n' p q p' q' : Nat}
    (hA : Walk e o n A o' n') (hB : Walk e' p q B p' q') (hcnt : nEq B ≤ nEq A)
    (h : ∀ a, oCov a A → oCov a B) : ∀ a, oCov a A ↔ oCov a B := by
  have heq : oPos A = oPos B :=
    sorted_subset_eq _ _ (oPos_sorted A _ _ _ _ hA).1 (oPos_sorted B _ _ _ _ hB).1
      (fun a ha => (mem_oPos a B).2 (h a ((mem_oPos a A).1 ha))) (by rw [length_oPos, length_oPos]; exact hcnt)
  intro a
  rw [← mem_oPos, ← mem_oPos, heq]

/-- **the clean-up keeps the set of old positions reported Equal** (both directions; `CompactCov.cleanup_oCov`
is the direction proved by walking through the clean-up, the converse follows because the number of equal items is
kept) -/
theorem cleanup_oCov_iff (E : Env) (repair : Bool) (ops : List Op) (o n o' n' : Nat) (w : World)
    (ops' : List Op) (w' : World)
    (hnr : NoReplaceOp ops) (hw : Walk (eqB E) o n ops o' n')
    (h : cleanupDiffOps E repair ops w = .ok (ops', w')) : ∀ a, oCov a ops ↔ oCov a ops' := by
  obtain ⟨a1, -, -, a4, -⟩ := CompactP.cleanup_preserves E repair ops o n o' n' w ops' w' hnr hw h
  exact oCov_iff_of_imp hw a1 (by omega) (cleanup_oCov E repair ops o n o' n' w ops' w' hnr hw h)

/-! ### `Replace` -/

/-- a valid script stays valid for every relation that holds on the pairs its Equal ops cover -/
theorem walk_change_rel {e e' : Nat → Nat → Bool} : ∀ (ops : List Op) (o n o' n' : Nat), Walk e o n ops o' n' →
    (∀ co cn len t, Op.equal co cn len ∈ ops → t < len → e' (co + t) (cn + t) = true) → Walk e' o n ops o' n' := by
  intro ops
  induction ops with
  | nil => intro o n o' n' h _; exact h
  | cons c cs ih =>
    intro o n o' n' hw he
    have he' : ∀ co cn len t, Op.equal co cn len ∈ cs → t < len → e' (co + t) (cn + t) = true :=
      fun co cn len t hm ht => he co cn len t (List.mem_cons_of_mem _ hm) ht
    cases c with
    | equal xo xn xl =>
      simp only [Walk] at hw ⊢
      obtain ⟨rfl, rfl, hl, -, hw'⟩ := hw
      exact ⟨rfl, rfl, hl, fun t ht => he _ _ _ t (List.mem_cons_self ..) ht, ih _ _ _ _ hw' he'⟩
    | delete xo xl xn =>
      simp only [Walk] at hw ⊢
      exact ⟨hw.1, hw.2.1, ih _ _ _ _ hw.2.2 he'⟩
    | insert xo xn xl =>
      simp only [Walk] at hw ⊢
      exact ⟨hw.1, hw.2.1, ih _ _ _ _ hw.2.2 he'⟩
    | replace xo xl xn xnl =>
      simp only [Walk] at hw ⊢
      exact ⟨hw.1, hw.2.1, hw.2.2.1, hw.2.2.2.1, ih _ _ _ _ hw.2.2.2.2 he'⟩

/-- **`Replace` keeps the set of position pairs reported Equal** (in particular the set of old positions
reported Equal).  `replace_preserves` holds for EVERY relation `e` and `Replace` never looks at the items, so it
may be applied to the relation "is reported Equal by the input": every pair the output reports Equal was reported
Equal by the input; the two scripts have the same number of equal items, so nothing is lost either. -/
theorem replace_preserves_oCov (e : Nat → Nat → Bool) (ops : List Op) (o n o' n' : Nat) (w : World)
    (hnr : NoReplaceOp ops) (hw : Walk e o n ops o' n') :
    ∃ out rs, replaceOut ops w = .ok ((rs, { trace := out.map Call.op ++ [.finish] }), w) ∧
      Walk e o n out o' n' ∧ nDel out = nDel ops ∧ nIns out = nIns ops ∧ nEq out = nEq ops ∧
      Alternating out ∧ (Exact o n ops → Exact o n out) ∧
      (∀ a b, covered out a b → covered ops a b) ∧ (∀ a, oCov a out ↔ oCov a ops) := by
  classical
  obtain ⟨out, rs, h1, h2, h3, h4, h5, h6, h7⟩ := replace_preserves e ops o n o' n' w hnr hw
  let e' : Nat → Nat → Bool := fun i j => decide (covered ops i j)
  have hw' : Walk e' o n ops o' n' := by
    apply walk_change_rel ops o n o' n' hw
    intro co cn len t hm ht
    simp only [e', decide_eq_true_eq]
    exact ⟨co, cn, len, hm, by omega, by omega, by congr 1; omega⟩
  obtain ⟨out', rs', g1, g2, -⟩ := replace_preserves e' ops o n o' n' w hnr hw'
  rw [h1] at g1
  simp only [Except.ok.injEq, Prod.mk.injEq, Rec.mk.injEq, and_true] at g1
  have hout : out = out' := by
    have := congrArg opsOf g1.2
    rwa [opsOf_raw, opsOf_raw] at this
  subst hout
  have hpairs : ∀ a b, covered out a b → covered ops a b := by
    intro a b hc
    have := (walk_covered _ _ _ _ _ _ _ g2 hc).2.2.2.2
    simpa [e'] using this
  refine ⟨out, rs, h1, h2, h3, h4, h5, h6, h7, hpairs, ?_⟩
  have himp : ∀ a, oCov a out → oCov a ops := by
    intro a ha
    obtain ⟨b, hb⟩ := (oCov_iff_covered a out).1 ha
    exact (oCov_iff_covered a ops).2 ⟨b, hpairs a b hb⟩
  exact oCov_iff_of_imp h2 hw (by omega) himp

/-! ### the capture pipeline -/

theorem oCov_expand (a : Nat) : ∀ (raw : List Op), oCov a (expandReplace raw) ↔ oCov a raw := by
  intro raw
  induction raw with
  | nil => simp [expandReplace]
  | cons x xs ih =>
    rw [expandReplace_cons, oCov_append, ih]
    cases x <;> simp [expand1, oCov]

/-- **the capture pipeline keeps the set of old positions reported Equal**, for every algorithm and both settings
of the repair switch: an old position lies in an Equal op of the captured diff iff it lies in an Equal op of the
raw callback stream -/
theorem capture_oCov_iff (alg : Alg) (E : Env) (repair : Bool) (os oe ns ne : Nat) (w : World)
    (r : Rec) (w1 : World) (raw : List Op) (ops : List Op) (w' : World)
    (hraw : rawTrace alg E os oe ns ne w = .ok (r, w1)) (ht : r.trace = raw.map Call.op ++ [.finish])
    (hw : Walk (eqB E) os ns raw oe ne)
    (hc : captureDiff alg E repair os oe ns ne w = .ok (ops, w')) :
    Walk (eqB E) os ns ops oe ne ∧ ∀ a, oCov a raw ↔ oCov a ops := by
  have hr := raw_rec_eta alg E os oe ns ne w r w1 hraw
  rw [ht] at hr
  have hraw' := hraw
  rw [hr] at hraw'
  rw [capture_factor_gen alg E repair os oe ns ne w raw w1 hraw'] at hc
  obtain ⟨c1, c2, c3, c4⟩ := counts_expand raw
  split at hc
  · cases hc
  · rename_i ops' w2 hcl
    have hwx := walk_expand _ raw _ _ _ _ hw
    obtain ⟨a1, a2, a3, a4, a5, a6, -⟩ := CompactP.cleanup_preserves E repair _ os ns oe ne w1 ops' w2 c4 hwx hcl
    have hcov := cleanup_oCov E repair _ os ns oe ne w1 ops' w2 c4 hwx hcl
    obtain ⟨out, rs, hro, b1, b2, b3, b4, -, -, -, b9⟩ := replace_preserves_oCov (eqB E) ops' os ns oe ne w2 a5 a1
    rw [hro] at hc
    simp only [traceOps_eq_opsOf, opsOf_raw, Except.ok.injEq, Prod.mk.injEq] at hc
    obtain ⟨rfl, rfl⟩ := hc
    refine ⟨b1, oCov_iff_of_imp hw b1 (by omega) ?_⟩
    intro a ha
    exact (b9 a).2 (hcov a ((oCov_expand a raw).2 ha))

/-! ### `unique`: the returned indices hold items that occur exactly once in the range -/

theorem countEq_pos (eq : Nat → Nat → Option Bool) (i s : Nat) : ∀ (len c : Nat), countEq eq i s len = some c →
    ∀ j, s ≤ j → j < s + len → eq i j = some true → 1 ≤ c := by
  intro len
  induction len with
  | zero => intro c _ j h1 h2; omega
  | succ len ih =>
    intro c h j h1 h2 hj
    simp only [countEq] at h
    split at h
    · rename_i b c' hb hc'
      cases h
      by_cases hjl : j = s + len
      · subst hjl
        rw [hb] at hj; cases hj
        simp
      · have := ih c' hc' j h1 (by omega) hj
        split <;> omega
    · cases h

theorem countEq_two (eq : Nat → Nat → Option Bool) (i s : Nat) : ∀ (len c : Nat), countEq eq i s len = some c →
    ∀ j1 j2, s ≤ j1 → j1 < j2 → j2 < s + len → eq i j1 = some true → eq i j2 = some true → 2 ≤ c := by
  intro len
  induction len with
  | zero => intro c _ j1 j2 h1 h2 h3; omega
  | succ len ih =>
    intro c h j1 j2 h1 h2 h3 e1 e2
    simp only [countEq] at h
    split at h
    · rename_i b c' hb hc'
      cases h
      by_cases hjl : j2 = s + len
      · subst hjl
        rw [hb] at e2; cases e2
        have := countEq_pos eq i s len c' hc' j1 h1 h2 e1
        simp; omega
      · have := ih c' hc' j1 j2 h1 h2 (by omega) e1 e2
        split <;> omega
    · cases h

theorem uniqueGo_count (eq : Nat → Nat → Option Bool) (s e : Nat) : ∀ (cnt i : Nat) (l : List Nat),
    uniqueGo eq s e cnt i = some l → ∀ x ∈ l, countEq eq x s (e - s) = some 1 := by
  intro cnt
  induction cnt with
  | zero => intro i l h x hx; simp [uniqueGo] at h; subst h; simp at hx
  | succ cnt ih =>
    intro i l h x hx
    simp only [uniqueGo] at h
    split at h
    · rename_i c rest hc hrest
      cases h
      by_cases hc1 : c = 1
      · subst hc1
        simp only [BEq.rfl, if_true, List.mem_cons] at hx
        rcases hx with rfl | hx
        · exact hc
        · exact ih _ _ hrest x hx
      · have : (c == 1) = false := by simpa using hc1
        simp only [this, Bool.false_eq_true, if_false] at hx
        exact ih _ _ hrest x hx
    · cases h

/-- **`unique`**: an index it returns is the only index of the range holding that item (given that the item
test is reflexive at it) -/
theorem unique_once {eq : Nat → Nat → Option Bool} {s e : Nat} {l : List Nat} (h : unique eq s e = some l)
    {x j : Nat} (hx : x ∈ l) (hxs : s ≤ x) (hxe : x < e) (hjs : s ≤ j) (hje : j < e)
    (hxx : eq x x = some true) (hxj : eq x j = some true) : j = x := by
  have hc := uniqueGo_count eq s e _ _ l h x hx
  by_cases hlt : j < x
  · have := countEq_two eq x s (e - s) 1 hc j x hjs hlt (by omega) hxj hxx; omega
  · by_cases hgt : x < j
    · have := countEq_two eq x s (e - s) 1 hc x j hxs hgt (by omega) hxx hxj; omega
    · omega

/-! ### the chain form for the captured Patience diff -/

/-- the element tests are consistent across the two sides: two new items equal to the same old item are equal
to each other (`b' = b` included: an item equal to some old item is equal to itself).  True for the environment of
any two label sequences (`crossConsistent_of_eqPattern`); NOT implied by in-bounds ranges alone. -/
def CrossConsistent (E : Env) (os oe ns ne : Nat) : Prop :=
  ∀ a b b', os ≤ a → a < oe → ns ≤ b → b < ne → ns ≤ b' → b' < ne →
    eqB E a b = true → eqB E a b' = true → E.nn b b' = some true

theorem crossConsistent_of_eqPattern {E : Env} {os oe ns ne : Nat} (h : IdentP.EqPattern E os oe ns ne) :
    CrossConsistent E os oe ns ne := by
  obtain ⟨lo, ln, P⟩ := h
  intro a b b' h1 h2 h3 h4 h5 h6 e1 e2
  simp only [eqB, P.on a b h1 h2 h3 h4, P.on a b' h1 h2 h5 h6] at e1 e2
  rw [P.nn b b' h3 h4 h5 h6]
  have q1 : ln b = lo a := by simpa using e1
  have q2 : ln b' = lo a := by simpa using e2
  simp [q1, q2]

/-- an old position the raw stream reports Equal with a new position that `unique` returned is, in the captured
diff, still reported Equal with exactly that new position -/
theorem captured_covered_unique (alg : Alg) (E : Env) (repair : Bool) (os oe ns ne : Nat) (w : World)
    (r : Rec) (w1 : World) (raw : List Op) (ops : List Op) (w' : World)
    (hraw : rawTrace alg E os oe ns ne w = .ok (r, w1)) (ht : r.trace = raw.map Call.op ++ [.finish])
    (hw : Walk (eqB E) os ns raw oe ne)
    (hc : captureDiff alg E repair os oe ns ne w = .ok (ops, w'))
    (hcons : CrossConsistent E os oe ns ne) (un : List Nat) (hun : unique E.nn ns ne = some un)
    (a b : Nat) (hb : b ∈ un) (hab : covered raw a b) : covered ops a b := by
  obtain ⟨hwo, hiff⟩ := capture_oCov_iff alg E repair os oe ns ne w r w1 raw ops w' hraw ht hw hc
  obtain ⟨b', hb'⟩ := (oCov_iff_covered a ops).1 ((hiff a).1 ((oCov_iff_covered a raw).2 ⟨b, hab⟩))
  obtain ⟨p1, p2, p3, p4, p5⟩ := walk_covered _ _ _ _ _ _ _ hw hab
  obtain ⟨q1, q2, q3, q4, q5⟩ := walk_covered _ _ _ _ _ _ _ hwo hb'
  have : b' = b := unique_once hun hb p3 p4 q3 q4 (hcons a b b p1 p2 p3 p4 p3 p4 p5 p5)
    (hcons a b b' p1 p2 p3 p4 q3 q4 p5 q5)
  rw [← this]; exact hb'

/-- **C15 for the captured diff, size clause in CHAIN form** (no deadline; shipped and repaired clean-up;
consistent element tests): whenever `capture_diff` with Patience returns, the op list is a valid script and there
is a chain — strictly increasing on both sides — of `lcsLen(unique old, unique new)` pairs of positions in the two
unique lists whose items are equal and which the captured diff reports Equal at exactly that pair of item
positions. -/
theorem captured_patience_chain (E : Env) (repair : Bool) (os oe ns ne : Nat) (w : World)
    (ops : List Op) (w' : World)
    (ho : os ≤ oe) (hn : ns ≤ ne) (hb : InBounds E os oe ns ne) (hw : w.clock = none)
    (hcons : CrossConsistent E os oe ns ne)
    (hc : captureDiff .patience E repair os oe ns ne w = .ok (ops, w')) :
    ∃ (uo un : List Nat) (pairs : List (Nat × Nat)),
      unique E.oo os oe = some uo ∧ unique E.nn ns ne = some un ∧
      Walk (eqB E) os ns ops oe ne ∧
      pairs.length = lcsLen (eqB (E.sub uo.toArray un.toArray)) uo.length un.length 0 0 ∧
      Chain pairs ∧
      ∀ x ∈ pairs, ∃ a b, uo[x.1]? = some a ∧ un[x.2]? = some b ∧ eqB E a b = true ∧ covered ops a b := by
  obtain ⟨r, w1, hraw⟩ := capture_ok_raw .patience E repair os oe ns ne w ops w' hc
  have hp : patienceDiff E recHook os oe ns ne {} w = .ok (r, w1) := by
    simpa [rawTrace, diffWith] using hraw
  obtain ⟨uo, un, raw, pairs, h1, h2, h3, h4, h5, h6, h7⟩ := patience_lis E os oe ns ne w r w1 ho hn hb hw hp
  obtain ⟨g1, -⟩ := capture_oCov_iff .patience E repair os oe ns ne w r w1 raw ops w' hraw h3 h4 hc
  refine ⟨uo, un, pairs, h1, h2, g1, h5, h6, ?_⟩
  intro x hx
  obtain ⟨a, b, q1, q2, q3, q4⟩ := h7 x hx
  refine ⟨a, b, q1, q2, q3, ?_⟩
  exact captured_covered_unique .patience E repair os oe ns ne w r w1 raw ops w' hraw h3 h4 hc hcons un h2 a b
    (List.mem_of_getElem? q2) q4

/-- … with totality: if moreover the same-side comparisons `unique` makes are defined, `capture_diff` with
Patience returns -/
theorem captured_patience_chain_total (E : Env) (repair : Bool) (os oe ns ne : Nat) (w : World)
    (ho : os ≤ oe) (hn : ns ≤ ne) (hb : InBounds E os oe ns ne)
    (hbo : ∀ i j, os ≤ i → i < oe → os ≤ j → j < oe → (E.oo i j).isSome)
    (hbn : ∀ i j, ns ≤ i → i < ne → ns ≤ j → j < ne → (E.nn i j).isSome)
    (hw : w.clock = none) (hcons : CrossConsistent E os oe ns ne) :
    ∃ (ops : List Op) (w' : World) (uo un : List Nat) (pairs : List (Nat × Nat)),
      captureDiff .patience E repair os oe ns ne w = .ok (ops, w') ∧
      unique E.oo os oe = some uo ∧ unique E.nn ns ne = some un ∧
      Walk (eqB E) os ns ops oe ne ∧
      pairs.length = lcsLen (eqB (E.sub uo.toArray un.toArray)) uo.length un.length 0 0 ∧
      Chain pairs ∧
      ∀ x ∈ pairs, ∃ a b, uo[x.1]? = some a ∧ un[x.2]? = some b ∧ eqB E a b = true ∧ covered ops a b := by
  obtain ⟨ops, w', -, -, hc, -⟩ := captured_count_ge_lis_total E repair os oe ns ne w ho hn hb hbo hbn hw
  obtain ⟨uo, un, pairs, h⟩ := captured_patience_chain E repair os oe ns ne w ops w' ho hn hb hw hcons hc
  exact ⟨ops, w', uo, un, pairs, hc, h⟩

/-! ### without consistency the chain form is false

Abstract environment: one old item, three new items; `new[0] == old[0]`, `new[1] == old[0]`, `new[2] != old[0]`,
but `new[0] != new[1]` and `new[0] == new[2]` — no two sequences behave like this.  All comparisons of the ranges
are defined.  `unique` returns `[0]` / `[1]`, `lcsLen = 1`; the raw stream is `insert(0,0,1) equal(0,1,1)
insert(1,2,1)`; the clean-up slides the first Insert down over the Equal item (`new[0] == old[0]`), so the captured
diff is `equal(0,0,1) insert(1,1,2)`: old item 0 is still reported Equal, but with new position 0, which `unique`
did not return. -/

def cexEnv : Env :=
  { on := fun i j => if i = 0 ∧ j < 3 then some (decide (j = 0 ∨ j = 1)) else none
    oo := fun i j => if i = 0 ∧ j = 0 then some true else none
    nn := fun i j => if i < 3 ∧ j < 3 then some (decide (i = j ∨ (i = 0 ∧ j = 2) ∨ (i = 2 ∧ j = 0))) else none }

theorem cex_inBounds : InBounds cexEnv 0 1 0 3 ∧
    (∀ i j, 0 ≤ i → i < 1 → 0 ≤ j → j < 1 → (cexEnv.oo i j).isSome) ∧
    (∀ i j, 0 ≤ i → i < 3 → 0 ≤ j → j < 3 → (cexEnv.nn i j).isSome) := by
  refine ⟨?_, ?_, ?_⟩
  · intro i j _ hi _ hj
    have : i = 0 := by omega
    subst this
    simp [cexEnv, hj]
  · intro i j _ hi _ hj
    have : i = 0 := by omega
    have : j = 0 := by omega
    subst_vars
    simp [cexEnv]
  · intro i j _ hi _ hj
    simp [cexEnv, hi, hj]

theorem cex_unique : unique cexEnv.oo 0 1 = some [0] ∧ unique cexEnv.nn 0 3 = some [1] := by decide

theorem cex_lcs : lcsLen (eqB (cexEnv.sub #[0] #[1])) 1 1 0 0 = 1 := by
  simp [lcsLen]; decide

theorem cex_captured (repair : Bool) :
    (captureDiff .patience cexEnv repair 0 1 0 3 {}).map (·.1) = .ok [.equal 0 0 1, .insert 1 1 2] := by
  cases repair <;> rfl

/-- **the chain form fails for an inconsistent environment**: in-bounds ranges, no deadline, `lcsLen = 1`, but no
pair of positions of the two unique lists is reported Equal by the captured diff -/
theorem captured_chain_needs_consistency (repair : Bool) :
    ∃ (ops : List Op) (w' : World), captureDiff .patience cexEnv repair 0 1 0 3 {} = .ok (ops, w') ∧
      unique cexEnv.oo 0 1 = some [0] ∧ unique cexEnv.nn 0 3 = some [1] ∧
      lcsLen (eqB (cexEnv.sub #[0] #[1])) 1 1 0 0 = 1 ∧
      ¬ ∃ a b, a ∈ [0] ∧ b ∈ [1] ∧ covered ops a b := by
  have h := cex_captured repair
  cases hc : captureDiff .patience cexEnv repair 0 1 0 3 {} with
  | error e => rw [hc] at h; cases h
  | ok v =>
    obtain ⟨ops, w'⟩ := v
    rw [hc] at h
    simp only [Except.map, Except.ok.injEq] at h
    subst h
    refine ⟨_, _, rfl, cex_unique.1, cex_unique.2, cex_lcs, ?_⟩
    rintro ⟨a, b, ha, hb, co, cn, len, hm, h1, h2, h3⟩
    simp only [List.mem_singleton] at ha hb
    subst ha; subst hb
    simp only [List.mem_cons, Op.equal.injEq, List.mem_nil_iff, or_false, reduceCtorEq] at hm
    omega

end SimilarVerif.CaptureChain

#print axioms SimilarVerif.CompactCov.cleanup_oCov
#print axioms SimilarVerif.CaptureChain.cleanup_oCov_iff
#print axioms SimilarVerif.CaptureChain.replace_preserves_oCov
#print axioms SimilarVerif.CaptureChain.capture_oCov_iff
#print axioms SimilarVerif.CaptureChain.captured_patience_chain
#print axioms SimilarVerif.CaptureChain.captured_patience_chain_total
#print axioms SimilarVerif.CaptureChain.captured_chain_needs_consistency

import SimilarVerif.Model.Helpers
import SimilarVerif.Lemmas.Remap
import SimilarVerif.Lemmas.TextDiff
import SimilarVerif.Lemmas.CaptureMinimal
import SimilarVerif.Lemmas.PatienceTotal
/-! # The one-call helpers of `src/utils.rs` (C17)

`utilsDiffRemap` (`diff_chars`, `diff_words`, `diff_unicode_words`, `diff_graphemes`) and
`utilsDiffLines` (`diff_lines`) compose tokenizer, text diff and remapper / change iterator.  For token
ranges that tile the two texts (C06) and EVERY algorithm and EVERY clock:

* the text diff returns (`textDiffOps_total`: raw run total — Myers, LCS, Patience — then the capture
  pipeline total, `CaptureMin.capture_total_of_validRaw`), with a valid script over the tokens;
* the helpers return, no slice is empty, the slices reconstruct both texts, the tags are those of the
  slice-wise (`utilsDiffRemap`) resp. item-wise (`utilsDiffLines`) expansion of the ops.
-/
namespace SimilarVerif.HelpersP
open SimilarVerif Spec RemapP TextP TokP

/-! ## the text diff is total -/

/-- the raw run of every algorithm on two token arrays returns a valid stream (every clock) -/
theorem rawTrace_total_ofTokens (alg : Alg) (old new : Array Bytes) (w : World) :
    ∃ r w1, rawTrace alg (Env.ofTokens old new) 0 old.size 0 new.size w = .ok (r, w1) ∧
      ValidRaw (Env.ofTokens old new) 0 old.size 0 new.size r.trace := by
  have hb := inBounds_ofTokens old new
  cases alg with
  | myers =>
    obtain ⟨r, w', h, hv⟩ := MyersT.myers_valid _ 0 old.size 0 new.size w (Nat.zero_le _) (Nat.zero_le _) hb
    exact ⟨r, w', by simpa [rawTrace, diffWith] using h, hv⟩
  | lcs =>
    obtain ⟨r, w', h, hv⟩ := LcsP.lcs_validRaw _ 0 old.size 0 new.size w (Nat.zero_le _) (Nat.zero_le _) hb
    exact ⟨r, w', by simpa [rawTrace, diffWith] using h, hv⟩
  | patience =>
    obtain ⟨r, w', h, hv⟩ := PatienceT.patience_total _ 0 old.size 0 new.size w (Nat.zero_le _) (Nat.zero_le _) hb
      (by intro i j _ hi _ hj; simp [Env.ofTokens, hi, hj])
      (by intro i j _ hi _ hj; simp [Env.ofTokens, hi, hj])
    exact ⟨r, w', by simpa [rawTrace, diffWith] using h, hv⟩

/-- **`TextDiffConfig::diff` never aborts** (every algorithm, every clock, below and above the 100-token
switch, shipped and repaired clean-up), and its ops are a valid script over the two token arrays -/
theorem textDiffOps_total (alg : Alg) (repair : Bool) (old new : Array Bytes) (w : World) :
    ∃ ops w', textDiffOps alg repair old new w = .ok (ops, w') ∧
      Walk (eqB (Env.ofTokens old new)) 0 0 ops old.size new.size := by
  obtain ⟨r, w1, hraw, hv⟩ := rawTrace_total_ofTokens alg old new w
  obtain ⟨raw, ops, w', -, -, -, hc, hw, -⟩ :=
    CaptureMin.capture_total_of_validRaw alg _ repair 0 old.size 0 new.size w r w1 hraw hv
      (inBounds_ofTokens old new)
  exact ⟨ops, w', by rw [IdentP.textDiffOps_eq_capture]; exact hc, hw⟩

/-! ## tokens of a tiling -/

/-- the byte lengths of the tokens -/
abbrev lens (b : Bytes) (r : List (Nat × Nat)) : List Nat := (r.map (slice b)).map List.length

/-- `SliceRemapper::new` recomputes the token ranges from the token lengths -/
theorem remapIndexes_tiling (b : Bytes) : ∀ (rs : List (Nat × Nat)) (pos : Nat), TilingFrom pos rs b.length →
    remapIndexes pos (lens b rs) = rs
  | [], _, _ => rfl
  | (s, e) :: rs, pos, ⟨h1, h2, h3⟩ => by
    subst h1
    have hle := TilingFrom.le h3
    have hl : (slice b (s, e)).length = e - s := by simp [slice]; omega
    simp only [lens, List.map_cons, remapIndexes, hl]
    rw [show s + (e - s) = e from by omega]
    exact congrArg _ (remapIndexes_tiling b rs e h3)

theorem lens_sum {b : Bytes} {rs : List (Nat × Nat)} (h : Tiling rs b.length) : (lens b rs).sum = b.length := by
  have := congrArg List.length (tiling_concat h).1
  rw [List.length_flatten] at this
  exact this

theorem lens_pos {b : Bytes} {rs : List (Nat × Nat)} (h : Tiling rs b.length) : ∀ x ∈ lens b rs, 0 < x := by
  intro x hx
  simp only [lens, List.mem_map] at hx
  obtain ⟨t, ⟨r, hr, rfl⟩, rfl⟩ := hx
  exact List.length_pos_iff.2 ((tiling_concat h).2 r hr)

/-- token `i` is the slice of the text at the byte range the remapper computes for `[i, i+1)` -/
theorem token_eq_slice {b : Bytes} {rs : List (Nat × Nat)} (h : Tiling rs b.length) (i : Nat) (hi : i < rs.length) :
    (tokens b rs)[i]? = some (slice b (byteRange (lens b rs) i (i + 1))) := by
  have h1 := remapIndexes_getElem? (lens b rs) 0 i (by simpa [lens] using hi)
  rw [remapIndexes_tiling b rs 0 h] at h1
  simp only [Nat.zero_add] at h1
  simp only [tokens, List.getElem?_toArray, List.getElem?_map, h1, Option.map_some, byteRange]

theorem eqB_ofTokens_lt {old new : Array Bytes} {i j : Nat} (h : eqB (Env.ofTokens old new) i j = true) :
    i < old.size ∧ j < new.size := by
  simp only [eqB, Env.ofTokens] at h
  constructor
  · rcases Nat.lt_or_ge i old.size with hlt | hge
    · exact hlt
    · rw [Array.getElem?_eq_none hge] at h; simp at h
  · rcases Nat.lt_or_ge j new.size with hlt | hge
    · exact hlt
    · rw [Array.getElem?_eq_none hge] at h
      cases old[i]? <;> simp at h

/-- tokens that compare equal are byte-equal slices of the two texts -/
theorem tokEq_ofTokens {bo bn : Bytes} {ro rn : List (Nat × Nat)}
    (hto : Tiling ro bo.length) (htn : Tiling rn bn.length) :
    TokEq (eqB (Env.ofTokens (tokens bo ro) (tokens bn rn))) (lens bo ro) (lens bn rn) bo bn := by
  intro i j h
  obtain ⟨hi, hj⟩ := eqB_ofTokens_lt h
  have hs := UdiffP.sound_ofTokens _ _ i j h
  rw [token_eq_slice hto i (by simpa [tokens] using hi), token_eq_slice htn j (by simpa [tokens] using hj)] at hs
  exact Option.some.inj hs

/-! ## `diff_chars` / `diff_words` / `diff_unicode_words` / `diff_graphemes` -/

/-- what the helper returns for one remapped slice -/
def outSlice (bo bn : Bytes) (x : CTag × Bool × Nat × Nat) : CTag × Bytes := (x.1, sliceText bo bn x)

theorem utilsDiffRemap_eq (alg : Alg) (bo bn : Bytes) (ro rn : List (Nat × Nat)) (w : World)
    (ops : List Op) (w' : World)
    (h : textDiffOps alg false (tokens bo ro) (tokens bn rn) w = .ok (ops, w'))
    (hw : Walk (eqB (Env.ofTokens (tokens bo ro) (tokens bn rn))) 0 0 ops (tokens bo ro).size (tokens bn rn).size) :
    utilsDiffRemap alg bo bn ro rn w =
      .ok (((ops.flatMap iterSlices).map (toBytes (lens bo ro) (lens bn rn))).map (outSlice bo bn)) := by
  have hw' : Walk (eqB (Env.ofTokens (tokens bo ro) (tokens bn rn))) 0 0 ops (lens bo ro).length (lens bn rn).length := by
    simpa [lens, tokens] using hw
  have hr := remapOps_eq (lens bo ro) (lens bn rn) ops hw'
  simp only [tokens, lens] at h hr
  simp only [utilsDiffRemap, h, hr]
  congr 1

/-- **the remapping helpers**: for token ranges that tile the two texts the call returns; its result is
the slice-wise expansion of the ops of the text diff (a valid script over the tokens) with every slice
turned into the bytes of the text it covers; no slice is empty; the non-Insert slices concatenate to
the old text and the non-Delete slices to the new text -/
theorem utilsDiffRemap_spec (alg : Alg) (bo bn : Bytes) (ro rn : List (Nat × Nat)) (w : World)
    (hto : Tiling ro bo.length) (htn : Tiling rn bn.length) :
    ∃ ops w' res, textDiffOps alg false (tokens bo ro) (tokens bn rn) w = .ok (ops, w') ∧
      Walk (eqB (Env.ofTokens (tokens bo ro) (tokens bn rn))) 0 0 ops ro.length rn.length ∧
      utilsDiffRemap alg bo bn ro rn w = .ok res ∧
      (∀ x ∈ res, x.2 ≠ []) ∧
      ((res.filter (·.1 != .insert)).map (·.2)).flatten = bo ∧
      ((res.filter (·.1 != .delete)).map (·.2)).flatten = bn ∧
      res.map (·.1) = (ops.flatMap iterSlices).map (·.1) := by
  obtain ⟨ops, w', h, hw⟩ := textDiffOps_total alg false (tokens bo ro) (tokens bn rn) w
  have hw' : Walk (eqB (Env.ofTokens (tokens bo ro) (tokens bn rn))) 0 0 ops (lens bo ro).length (lens bn rn).length := by
    simpa [lens, tokens] using hw
  have hE := utilsDiffRemap_eq alg bo bn ro rn w ops w' h hw
  have hre := remapOps_eq (lens bo ro) (lens bn rn) ops hw'
  refine ⟨ops, w', _, h, by simpa [tokens] using hw, hE, ?_, ?_, ?_, ?_⟩
  · -- no slice is empty
    intro x hx
    obtain ⟨y, hy, rfl⟩ := List.mem_map.1 hx
    obtain ⟨z, hz, rfl⟩ := List.mem_map.1 hy
    obtain ⟨op, hop, hz⟩ := List.mem_flatMap.1 hz
    have hin := opIn_sliceIn (lens bo ro) (lens bn rn) op
      (walk_opIn ops _ _ _ _ _ _ hw' (Nat.le_refl _) (Nat.le_refl _) op hop) z hz
    obtain ⟨t, side, s, e'⟩ := z
    obtain ⟨h1, h2⟩ := hin
    simp only [outSlice, sliceText, toBytes, byteRange, slice]
    cases side
    · have h2 : e' ≤ (lens bo ro).length := h2
      have hlt := take_sum_lt (lens bo ro) s e' (lens_pos hto) h1 h2
      have hle := take_sum_mono (lens bo ro) h2
      rw [List.take_length, lens_sum hto] at hle
      simp only [Bool.false_eq_true, if_false, ne_eq, List.take_eq_nil_iff, List.drop_eq_nil_iff, not_or]
      omega
    · have h2 : e' ≤ (lens bn rn).length := h2
      have hlt := take_sum_lt (lens bn rn) s e' (lens_pos htn) h1 h2
      have hle := take_sum_mono (lens bn rn) h2
      rw [List.take_length, lens_sum htn] at hle
      simp only [if_true, ne_eq, List.take_eq_nil_iff, List.drop_eq_nil_iff, not_or]
      omega
  · obtain ⟨sl, h1, h2⟩ := remapOps_old_text (lens bo ro) (lens bn rn) bo bn ops (lens_pos hto) (lens_sum hto).symm hw'
    rw [hre] at h1; cases h1
    refine Eq.trans ?_ h2
    rw [List.filter_map, List.map_map]
    rfl
  · obtain ⟨sl, h1, h2⟩ := remapOps_new_text (lens bo ro) (lens bn rn) bo bn ops (lens_sum htn).symm
      (tokEq_ofTokens hto htn) hw'
    rw [hre] at h1; cases h1
    refine Eq.trans ?_ h2
    rw [List.filter_map, List.map_map]
    rfl
  · rw [List.map_map, List.map_map]
    apply List.map_congr_left
    rintro ⟨t, side, s, e'⟩ _
    rfl

/-! ## `diff_lines` -/

theorem mapM_ok {α β} (f : α → Res β) (g : α → β) : ∀ (l : List α), (∀ x ∈ l, f x = .ok (g x)) →
    l.mapM f = .ok (l.map g) := by
  intro l
  induction l with
  | nil => intro _; rfl
  | cons x xs ih =>
    intro h
    rw [List.mapM_cons, h x (List.mem_cons_self ..), ih (fun y hy => h y (List.mem_cons_of_mem _ hy))]
    rfl

/-- every change of a valid script finds its value -/
theorem lookup_value (old new : Array Bytes) (ops : List Op) (hr : Reconstructs old new ops)
    (c : Change) (hc : c ∈ allChanges ops) :
    (if c.fromNew then new[c.idx]? else old[c.idx]?) = some (value old new c) := by
  obtain ⟨s1, s2, s3⟩ := hr.shape c hc
  obtain ⟨v1, v2⟩ := hr.val c hc
  cases ht : c.tag with
  | equal =>
    obtain ⟨a1, -, a3⟩ := s1 ht
    simp only [a3, Bool.false_eq_true, if_false]
    exact (v1 _ a1).2.2
  | delete =>
    obtain ⟨a1, -, a3⟩ := s2 ht
    simp only [a3, Bool.false_eq_true, if_false]
    exact (v1 _ a1).2.2
  | insert =>
    obtain ⟨-, a2, a3⟩ := s3 ht
    simp only [a3, if_true]
    exact (v2 _ a2).2

theorem utilsDiffLines_eq (alg : Alg) (bo bn : Bytes) (ro rn : List (Nat × Nat)) (w : World)
    (ops : List Op) (w' : World)
    (h : textDiffOps alg false (tokens bo ro) (tokens bn rn) w = .ok (ops, w'))
    (hr : Reconstructs (tokens bo ro) (tokens bn rn) ops) :
    utilsDiffLines alg bo bn ro rn w =
      .ok ((allChanges ops).map fun c => (c.tag, value (tokens bo ro) (tokens bn rn) c)) := by
  simp only [tokens] at h
  simp only [utilsDiffLines, h]
  apply mapM_ok
  intro c hc
  have := lookup_value _ _ ops hr c hc
  simp only [tokens] at this
  rw [this]

/-- **`diff_lines`**: for token ranges that tile the two texts the call returns one `(tag, token)` pair
per change of `iter_all_changes`, no value is empty, the non-Insert values concatenate to the old text
and the non-Delete values to the new text -/
theorem utilsDiffLines_spec (alg : Alg) (bo bn : Bytes) (ro rn : List (Nat × Nat)) (w : World)
    (hto : Tiling ro bo.length) (htn : Tiling rn bn.length) :
    ∃ ops w' res, textDiffOps alg false (tokens bo ro) (tokens bn rn) w = .ok (ops, w') ∧
      Walk (eqB (Env.ofTokens (tokens bo ro) (tokens bn rn))) 0 0 ops ro.length rn.length ∧
      utilsDiffLines alg bo bn ro rn w = .ok res ∧
      (∀ x ∈ res, x.2 ≠ []) ∧
      ((res.filter (·.1 != .insert)).map (·.2)).flatten = bo ∧
      ((res.filter (·.1 != .delete)).map (·.2)).flatten = bn ∧
      res.map (·.1) = (allChanges ops).map (·.tag) := by
  obtain ⟨ops, w', h, hw⟩ := textDiffOps_total alg false (tokens bo ro) (tokens bn rn) w
  have hr := reconstructs_of_walk _ _ _ ops (UdiffP.sound_ofTokens _ _) hw
  have hE := utilsDiffLines_eq alg bo bn ro rn w ops w' h hr
  obtain ⟨b1, b2⟩ := hr.bytes hto htn
  refine ⟨ops, w', _, h, by simpa [tokens] using hw, hE, ?_, ?_, ?_, ?_⟩
  · intro x hx
    obtain ⟨c, hc, rfl⟩ := List.mem_map.1 hx
    have hl := lookup_value _ _ ops hr c hc
    have hmem : value (tokens bo ro) (tokens bn rn) c ∈ (tokens bo ro).toList ∨
        value (tokens bo ro) (tokens bn rn) c ∈ (tokens bn rn).toList := by
      cases hf : c.fromNew
      · rw [hf] at hl
        simp only [Bool.false_eq_true, if_false] at hl
        exact .inl (Array.mem_toList_iff.2 (Array.mem_of_getElem? hl))
      · rw [hf] at hl
        simp only [if_true] at hl
        exact .inr (Array.mem_toList_iff.2 (Array.mem_of_getElem? hl))
    simp only [tokens, List.mem_map] at hmem
    rcases hmem with ⟨r, hr', he⟩ | ⟨r, hr', he⟩
    · show value _ _ c ≠ []
      rw [← he]; exact (tiling_concat hto).2 r hr'
    · show value _ _ c ≠ []
      rw [← he]; exact (tiling_concat htn).2 r hr'
  · refine Eq.trans ?_ b1
    rw [List.filter_map, List.map_map]; rfl
  · refine Eq.trans ?_ b2
    rw [List.filter_map, List.map_map]; rfl
  · rw [List.map_map]; rfl

/-! ## the statements of the task, one clause each -/

/-- **the helpers never abort** -/
theorem helpers_total (alg : Alg) (bo bn : Bytes) (ro rn : List (Nat × Nat)) (w : World)
    (hto : Tiling ro bo.length) (htn : Tiling rn bn.length) :
    (∃ res, utilsDiffRemap alg bo bn ro rn w = .ok res) ∧ (∃ res, utilsDiffLines alg bo bn ro rn w = .ok res) := by
  obtain ⟨_, _, r1, -, -, h1, -⟩ := utilsDiffRemap_spec alg bo bn ro rn w hto htn
  obtain ⟨_, _, r2, -, -, h2, -⟩ := utilsDiffLines_spec alg bo bn ro rn w hto htn
  exact ⟨⟨r1, h1⟩, ⟨r2, h2⟩⟩

/-- **no returned slice is empty** -/
theorem helpers_nonempty (alg : Alg) (bo bn : Bytes) (ro rn : List (Nat × Nat)) (w : World)
    (hto : Tiling ro bo.length) (htn : Tiling rn bn.length) :
    (∀ res, utilsDiffRemap alg bo bn ro rn w = .ok res → ∀ x ∈ res, x.2 ≠ []) ∧
    (∀ res, utilsDiffLines alg bo bn ro rn w = .ok res → ∀ x ∈ res, x.2 ≠ []) := by
  obtain ⟨_, _, r1, -, -, h1, g1, -⟩ := utilsDiffRemap_spec alg bo bn ro rn w hto htn
  obtain ⟨_, _, r2, -, -, h2, g2, -⟩ := utilsDiffLines_spec alg bo bn ro rn w hto htn
  constructor
  · intro res h; rw [h1] at h; cases h; exact g1
  · intro res h; rw [h2] at h; cases h; exact g2

/-- **the slices whose tag is not Insert concatenate to the old text** -/
theorem helpers_reconstruct_old (alg : Alg) (bo bn : Bytes) (ro rn : List (Nat × Nat)) (w : World)
    (hto : Tiling ro bo.length) (htn : Tiling rn bn.length) :
    (∀ res, utilsDiffRemap alg bo bn ro rn w = .ok res →
      ((res.filter (·.1 != .insert)).map (·.2)).flatten = bo) ∧
    (∀ res, utilsDiffLines alg bo bn ro rn w = .ok res →
      ((res.filter (·.1 != .insert)).map (·.2)).flatten = bo) := by
  obtain ⟨_, _, r1, -, -, h1, -, g1, -⟩ := utilsDiffRemap_spec alg bo bn ro rn w hto htn
  obtain ⟨_, _, r2, -, -, h2, -, g2, -⟩ := utilsDiffLines_spec alg bo bn ro rn w hto htn
  constructor
  · intro res h; rw [h1] at h; cases h; exact g1
  · intro res h; rw [h2] at h; cases h; exact g2

/-- **the slices whose tag is not Delete concatenate to the new text** -/
theorem helpers_reconstruct_new (alg : Alg) (bo bn : Bytes) (ro rn : List (Nat × Nat)) (w : World)
    (hto : Tiling ro bo.length) (htn : Tiling rn bn.length) :
    (∀ res, utilsDiffRemap alg bo bn ro rn w = .ok res →
      ((res.filter (·.1 != .delete)).map (·.2)).flatten = bn) ∧
    (∀ res, utilsDiffLines alg bo bn ro rn w = .ok res →
      ((res.filter (·.1 != .delete)).map (·.2)).flatten = bn) := by
  obtain ⟨_, _, r1, -, -, h1, -, -, g1, -⟩ := utilsDiffRemap_spec alg bo bn ro rn w hto htn
  obtain ⟨_, _, r2, -, -, h2, -, -, g2, -⟩ := utilsDiffLines_spec alg bo bn ro rn w hto htn
  constructor
  · intro res h; rw [h1] at h; cases h; exact g1
  · intro res h; rw [h2] at h; cases h; exact g2

/-- **the tag sequence** is that of the slice-wise expansion of the ops of the text diff
(`utilsDiffRemap`) resp. of `iter_all_changes` (`utilsDiffLines`) -/
theorem helpers_tags (alg : Alg) (bo bn : Bytes) (ro rn : List (Nat × Nat)) (w : World)
    (hto : Tiling ro bo.length) (htn : Tiling rn bn.length) :
    ∃ ops w', textDiffOps alg false (tokens bo ro) (tokens bn rn) w = .ok (ops, w') ∧
      Walk (eqB (Env.ofTokens (tokens bo ro) (tokens bn rn))) 0 0 ops ro.length rn.length ∧
      (∀ res, utilsDiffRemap alg bo bn ro rn w = .ok res →
        res.map (·.1) = (ops.flatMap iterSlices).map (·.1)) ∧
      (∀ res, utilsDiffLines alg bo bn ro rn w = .ok res →
        res.map (·.1) = (allChanges ops).map (·.tag)) := by
  obtain ⟨ops, w', r1, e1, hw, h1, -, -, -, g1⟩ := utilsDiffRemap_spec alg bo bn ro rn w hto htn
  obtain ⟨ops2, w2, r2, e2, -, h2, -, -, -, g2⟩ := utilsDiffLines_spec alg bo bn ro rn w hto htn
  rw [e1] at e2
  cases e2
  refine ⟨ops, w', e1, hw, ?_, ?_⟩
  · intro res h; rw [h1] at h; cases h; exact g1
  · intro res h; rw [h2] at h; cases h; exact g2

end SimilarVerif.HelpersP

import SimilarVerif.Lemmas.PatiencePostGeneric
import SimilarVerif.Lemmas.PatienceCost
/-! # C07 for Patience, expiry at any probe: the Patience hook with ghost and counter

* §1 the counter wrapper `ghp` (the counter `γ` = comparisons made inside hook calls after the expiry);
* §2 the inner runs (gap runs, tail run) over `liftG h`, `h` not touching the world: `myersDiffS_inner`;
* §3 `QN` for every call of `Replace` over the instrumented Patience hook (position independent);
* §4 one anchor, one outer `equal`, the flush of `Replace`: at most `3 * min (cursor advance) + anchors`
  comparisons after the expiry;
* §5 the position invariant `JP` of the outer run and its steps (`jsteps`), the `finish` call. -/
namespace SimilarVerif.PatiencePost
open SimilarVerif Spec HookFail DeadlineP PatienceP PatienceC

/-! ## 1. the counter wrapper -/

/-- the counter after a hook call from ghost `g` / world `w` to `g'` / `w'` -/
def updγ (g : Option World) (γ : Nat) (w : World) (g' : Option World) (w' : World) : Nat :=
  match g', g with
  | none, _ => 0
  | some we, none => w'.cmps - we.cmps
  | some _, some _ => γ + (w'.cmps - w.cmps)

/-- the hook next to a counter of the comparisons made inside its calls after the expiry -/
def ghp {τ} (H : Hook τ) (gOf : τ → Option World) : Hook (τ × Nat) where
  call c t w :=
    match H.call c t.1 w with
    | .error e => .error e
    | .ok (t', w') => .ok ((t', updγ (gOf t.1) t.2 w (gOf t') w'), w')

theorem ghp_ok {τ} {H : Hook τ} {gOf : τ → Option World} {c : Call} {t t' : τ × Nat} {w w' : World}
    (hc : (ghp H gOf).call c t w = .ok (t', w')) :
    H.call c t.1 w = .ok (t'.1, w') ∧ t'.2 = updγ (gOf t.1) t.2 w (gOf t'.1) w' := by
  simp only [ghp] at hc
  split at hc
  · simp at hc
  · rename_i s1 w1 h1
    simp only [Except.ok.injEq, Prod.mk.injEq] at hc
    obtain ⟨rfl, rfl⟩ := hc
    exact ⟨h1, rfl⟩

theorem ghp_sim {τ} (H : Hook τ) (gOf : τ → Option World) :
    Sim H (ghp H gOf) (fun s t => t.1 = s) (fun _ _ => False) := by
  refine ⟨fun _ _ _ _ _ _ _ hF => hF, ?_⟩
  intro c s t w s' w' hR hc
  obtain ⟨t1, γ⟩ := t
  simp only at hR
  subst hR
  left
  exact ⟨(s', updγ (gOf t1) γ w (gOf s') w'), by simp only [ghp, hc], rfl⟩

/-- a `QN` stretch is accounted exactly by the counter -/
theorem updγ_adv {g g' : Option World} {w w' : World} (γ : Nat) (q : QN g w g' w') :
    AdvN 0 g γ w g' (updγ g γ w g' w') w' := by
  refine ⟨q, ?_, ?_, ?_⟩ <;> unfold QN at q <;> cases g <;> cases g' <;>
    simp only [ph, gc, gpr, gk, updγ, true_implies, implies_true] at * <;> omega

/-- … and the counter grows by at most the cost bound of the stretch -/
theorem updγ_bound {B : Nat} {g g' : Option World} {w w' : World} {γ : Nat}
    (h : AdvN B g 0 w g' 0 w') (hG : GoodN g γ w) :
    (ph g' = 0 → updγ g γ w g' w' = 0) ∧ updγ g γ w g' w' ≤ γ + B := by
  obtain ⟨q, a1, a2, a3⟩ := h
  unfold QN at q
  unfold GoodN at hG
  refine ⟨?_, ?_⟩ <;> cases g <;> cases g' <;>
    simp only [ph, gc, gpr, gk, updγ, true_implies, implies_true] at * <;> omega

theorem ghp_hookA {τ} {H : Hook τ} {gOf : τ → Option World} (hQ : HookQ H gOf) :
    HookA (ghp H gOf) (fun t => gOf t.1) (fun t => t.2) := by
  intro c t w t' w' hc
  obtain ⟨h1, h2⟩ := ghp_ok hc
  unfold AdvT
  simp only [h2]
  exact updγ_adv _ (hQ _ _ _ _ _ h1)

/-- the ghost below the user state / below cursor and user state / below `Replace`, cursor and user state -/
@[reducible] def gI {σ} (t : σ × Option World) : Option World := t.2
@[reducible] def gK {σ} (t : PState × σ × Option World) : Option World := t.2.2
@[reducible] def g0 {σ} (t : RState × PState × σ × Option World) : Option World := t.2.2.2

/-! ## 2. the inner runs -/

section Inner
variable {σ : Type} {h : Hook σ} (hW : WorldId h)
include hW

theorem liftG_ok {c : Call} {t t' : σ × Option World} {w w' : World}
    (hc : (liftG h).call c t w = .ok (t', w')) : t'.2 = t.2 ∧ w' = w := by
  simp only [liftG] at hc
  split at hc
  · simp at hc
  · rename_i s1 w1 h1
    simp only [Except.ok.injEq, Prod.mk.injEq] at hc
    obtain ⟨rfl, rfl⟩ := hc
    exact ⟨rfl, hW _ _ _ _ _ h1⟩

theorem liftG_hookQ : HookQ (liftG h) gI := by
  intro c t w t' w' hc
  obtain ⟨h1, rfl⟩ := liftG_ok hW hc
  simp only [h1]
  exact QN.refl _ _

theorem liftG_nf_hookQ : HookQ (noFinishHook (liftG h)) gI := by
  intro c t w t' w' hc
  cases c with
  | finish => simp only [noFinishHook, Except.ok.injEq, Prod.mk.injEq] at hc; obtain ⟨rfl, rfl⟩ := hc; exact QN.refl _ _
  | op x => exact liftG_hookQ hW _ _ _ _ _ hc

theorem liftG_nf_ok {c : Call} {t t' : σ × Option World} {w w' : World}
    (hc : (noFinishHook (liftG h)).call c t w = .ok (t', w')) : t'.2 = t.2 ∧ w' = w := by
  cases c with
  | finish => simp only [noFinishHook, Except.ok.injEq, Prod.mk.injEq] at hc; obtain ⟨rfl, rfl⟩ := hc; exact ⟨rfl, rfl⟩
  | op x => exact liftG_ok hW hc

end Inner

theorem hookA_of_same {σ} {K : Hook (σ × Option World)}
    (hK : ∀ c t w t' w', K.call c t w = .ok (t', w') → t'.2 = t.2 ∧ w' = w) :
    HookA K gI (fun _ => 0) := by
  intro c t w t' w' hc
  obtain ⟨h1, rfl⟩ := hK _ _ _ _ _ hc
  unfold AdvT
  simp only [h1]
  exact AdvN.refl _ _ _

theorem mkG_ok {σ} : MkOK (mkG (σ := σ)) gI := fun _ _ _ => rfl

theorem jsteps_true {τ} (K : Hook τ) (mk : τ → World → World → τ) (gOf : τ → Option World) (Γ : τ → Nat) :
    JSteps K mk gOf Γ (fun _ _ _ => True) :=
  ⟨fun _ _ _ => trivial, fun _ _ _ => trivial, fun _ _ _ => trivial, fun _ => trivial⟩

/-- **an inner run** (gap run or tail run) over a hook `K` that neither touches the world nor the ghost:
at most `3 * min n m` comparisons after the expiry -/
theorem myersDiffS_inner {σ} {K : Hook (σ × Option World)}
    (hK : ∀ c t w t' w', K.call c t w = .ok (t', w') → t'.2 = t.2 ∧ w' = w)
    {E : Env} {os oe ns ne : Nat} {t t' : σ × Option World} {w w' : World}
    (ho : os ≤ oe) (hn : ns ≤ ne) (hb : InBounds E os oe ns ne) (hG : ph (gI t) = 1 → ck w = 1)
    (hc : myersDiffS E K mkG os oe ns ne t w = .ok (t', w')) :
    AdvN (3 * min (oe - os) (ne - ns)) (gI t) 0 w (gI t') 0 w' := by
  unfold myersDiffS at hc
  simp only at hc
  split at hc
  · simp at hc
  · rename_i tc vf1 vb1 wc hcq
    have hG0 : GoodT (gI (σ := σ)) (fun _ => 0) t w := ⟨fun _ => rfl, hG⟩
    obtain ⟨-, hA⟩ := conquerS_post (MyersT.snake_in_box E) (hookA_of_same hK) mkG_ok (fun _ _ _ => rfl)
      (jsteps_true K mkG _ _) ho hn hb hcq trivial hG0
    have hF := hookA_of_same hK _ _ _ _ _ hc
    have := AdvT.trans hA hF
    exact this

/-! ## 3. `QN` for the calls of `Replace` over the instrumented Patience hook -/

theorem patScanP (E : Env) (a b : Nat) : ∀ {fuel oc nc : Nat} {w : World} {oc' nc' : Nat} {w' : World},
    patScan E a b fuel oc nc w = .ok (oc', nc', w') → PureW w w' := by
  intro fuel
  induction fuel with
  | zero =>
    intro oc nc w oc' nc' w' hc
    unfold patScan at hc
    destruct_run
    exact ⟨Nat.le_refl _, rfl, id⟩
  | succ fuel ih =>
    intro oc nc w oc' nc' w' hc
    unfold patScan at hc
    destruct_run
    all_goals first
      | exact ⟨Nat.le_refl _, rfl, id⟩
      | (rename_i hcmp
         obtain ⟨-, rfl⟩ := cmp_ok hcmp
         first
           | exact ⟨Nat.le_succ _, rfl, id⟩
           | (obtain ⟨a1, a2, a3⟩ := ih hc
              exact ⟨Nat.le_trans (Nat.le_succ _) a1, a2, a3⟩))

section QualP
variable {σ : Type} {h : Hook σ} (hW : WorldId h) {E : Env} {uo un : Array Nat}
include hW

theorem patAnchorS_qual {i j : Nat} {p p' : PState} {t t' : σ × Option World} {w w' : World}
    (hc : patAnchorS E (liftG h) mkG uo un i j p t w = .ok (p', t', w')) : QN (gI t) w (gI t') w' := by
  unfold patAnchorS at hc
  destruct_run
  gather [patScanP E _ _, optCallQ (liftG_hookQ hW), myersDiffS_qual (liftG_nf_hookQ hW) mkG_ok]
  qn_chain (mkG_ok (σ := σ))

theorem patEqualS_qual : ∀ {len i j : Nat} {p p' : PState} {t t' : σ × Option World} {w w' : World},
    patEqualS E (liftG h) mkG uo un len i j p t w = .ok (p', t', w') → QN (gI t) w (gI t') w' := by
  intro len
  induction len with
  | zero => intro i j p p' t t' w w' hc; unfold patEqualS at hc; cases hc; exact QN.refl _ _
  | succ len ih =>
    intro i j p p' t t' w w' hc
    unfold patEqualS at hc
    destruct_run
    gather [patAnchorS_qual hW, ih]
    qn_chain (mkG_ok (σ := σ))

theorem patienceHookS_hookQ {oe ne : Nat} : HookQ (patienceHookS E (liftG h) mkG uo un oe ne) gK := by
  intro c a w a' w' hc
  obtain ⟨p, t⟩ := a
  cases c with
  | finish =>
    simp only [patienceHookS] at hc
    destruct_run
    gather [myersDiffS_qual (liftG_hookQ hW) mkG_ok]
    qn_chain (mkG_ok (σ := σ))
  | op x =>
    cases x <;> simp only [patienceHookS] at hc <;> destruct_run <;>
      (gather [patEqualS_qual hW]; qn_chain (mkG_ok (σ := σ)))

end QualP

section QualR
variable {τ : Type} {K : Hook τ} {gOf : τ → Option World} (hQ : HookQ K gOf)
include hQ

theorem rFlushEq_qual {r r' : RState} {s s' : τ} {w w' : World}
    (hc : rFlushEq K r s w = .ok (r', s', w')) : QN (gOf s) w (gOf s') w' := by
  unfold rFlushEq at hc
  destruct_run
  all_goals (gather [callQ hQ]; qn_chain (mkG_ok (σ := Unit)))

theorem rFlushDelIns_qual {r r' : RState} {s s' : τ} {w w' : World}
    (hc : rFlushDelIns K r s w = .ok (r', s', w')) : QN (gOf s) w (gOf s') w' := by
  unfold rFlushDelIns at hc
  destruct_run
  all_goals (gather [callQ hQ]; qn_chain (mkG_ok (σ := Unit)))

theorem replace_hookQ : HookQ (replaceHook K) (fun t => gOf t.2) := by
  intro c a w a' w' hc
  obtain ⟨r, s⟩ := a
  cases c with
  | finish =>
    simp only [replaceHook] at hc
    destruct_run
    gather [callQ hQ, rFlushEq_qual hQ, rFlushDelIns_qual hQ]
    qn_chain (mkG_ok (σ := Unit))
  | op x =>
    cases x <;> simp only [replaceHook] at hc <;> destruct_run <;>
      (gather [callQ hQ, rFlushEq_qual hQ, rFlushDelIns_qual hQ]; qn_chain (mkG_ok (σ := Unit)))

end QualR

/-! ## 4. one anchor, one outer `equal`, the flush of `Replace` -/

theorem optLift_ok {σ} {h : Hook σ} (hW : WorldId h) {c : Prop} [Decidable c] {x : Call}
    {t t' : σ × Option World} {w w' : World}
    (hc : (if c then (liftG h).call x t w else .ok (t, w)) = .ok (t', w')) : t'.2 = t.2 ∧ w' = w := by
  split at hc
  · exact liftG_ok hW hc
  · cases hc; exact ⟨rfl, rfl⟩

/-- `delete` / `insert` / `replace` reaching the instrumented Patience hook are ignored -/
theorem flushDelInsS_w {τ} {E : Env} {k : Hook τ} {mk : τ → World → World → τ} {uo un : Array Nat} {oe ne : Nat}
    {rs rs' : RState} {st st' : PState × τ} {w w' : World}
    (hc : rFlushDelIns (patienceHookS E k mk uo un oe ne) rs st w = .ok (rs', st', w')) :
    st' = st ∧ rs'.eq = rs.eq ∧ w' = w := by
  unfold rFlushDelIns at hc
  split at hc <;> simp [patienceHookS] at hc <;> obtain ⟨rfl, rfl, rfl⟩ := hc <;> simp

section Quant
variable {σ : Type} {h : Hook σ} (hW : WorldId h) {E : Env} {os oe ns ne : Nat} (hb : InBounds E os oe ns ne)
  {uo un : Array Nat}
include hW hb

/-- **one anchor**: the scan, the `equal`, the gap run: at most `3 * min (gap) + 1` comparisons after the expiry -/
theorem patAnchorS_post {i j a b : Nat} {p p' : PState} {t t' : σ × Option World} {w w' : World}
    (hua : uo[i]? = some a) (hub : un[j]? = some b)
    (h1 : os ≤ p.oc) (h2 : p.oc ≤ a) (h3 : a < oe) (h4 : ns ≤ p.nc) (h5 : p.nc ≤ b) (h6 : b < ne)
    (hG : ph (gI t) = 1 → ck w = 1)
    (hc : patAnchorS E (liftG h) mkG uo un i j p t w = .ok (p', t', w')) :
    p' = { oc := a, nc := b } ∧
      AdvN (3 * min (a - p.oc) (b - p.nc) + 1) (gI t) 0 w (gI t') 0 w' := by
  unfold patAnchorS at hc
  rw [hua, hub] at hc
  simp only at hc
  split at hc
  · simp at hc
  · rename_i oc nc w1 hscan
    obtain ⟨-, s2, -⟩ := patScan_cost E a b _ _ _ _ _ _ _ hscan
    obtain ⟨k, rfl, rfl, -, hk4, hk5⟩ := patScan_spec E a b _ _ _ _ _ _ _ hscan
    have l1 := hk4 h2
    have l2 := hk5 h5
    have hP := patScanP E a b hscan
    split at hc
    · simp at hc
    · rename_i t1 w2 hem
      obtain ⟨e1, rfl⟩ := optLift_ok hW hem
      split at hc
      · simp at hc
      · rename_i t2 w3 hmy
        simp only [Except.ok.injEq, Prod.mk.injEq] at hc
        obtain ⟨rfl, rfl, rfl⟩ := hc
        refine ⟨rfl, ?_⟩
        have A1 : AdvN (pcost (gI t) w w2) (gI t) 0 w (gI t) 0 w2 := AdvN.pure _ _ hP
        have hG1 : ph (gI t1) = 1 → ck w2 = 1 := by
          intro hx
          rw [show gI t1 = gI t from e1] at hx
          exact hP.2.2 (hG hx)
        have A2 := myersDiffS_inner (fun _ _ _ _ _ hx => liftG_nf_ok hW hx) l1 l2
          (MyersP.InBounds_sub hb (by omega) (by omega) (by omega) (by omega)) hG1 hmy
        rw [show gI t1 = gI t from e1] at A2
        refine AdvN.mono (AdvN.trans A1 A2) ?_
        have := pcost_le (gI t) w w2
        omega

/-- **one outer `equal`**: `len` anchors in turn -/
theorem patEqualS_post (hao : Asc uo os oe) (han : Asc un ns ne) :
    ∀ (len i j : Nat) (p : PState) (t : σ × Option World) (w : World) (p' : PState)
      (t' : σ × Option World) (w' : World),
    Bnd os oe ns ne p → CB uo un p i j → (ph (gI t) = 1 → ck w = 1) →
    patEqualS E (liftG h) mkG uo un len i j p t w = .ok (p', t', w') →
    Bnd os oe ns ne p' ∧ CB uo un p' (i+len) (j+len) ∧ p.oc ≤ p'.oc ∧ p.nc ≤ p'.nc ∧
      AdvN (3 * min (p'.oc - p.oc) (p'.nc - p.nc) + len) (gI t) 0 w (gI t') 0 w' := by
  intro len
  induction len with
  | zero =>
    intro i j p t w p' t' w' hB hcb hG hc
    simp only [patEqualS, Except.ok.injEq, Prod.mk.injEq] at hc
    obtain ⟨rfl, rfl, rfl⟩ := hc
    exact ⟨hB, hcb, Nat.le_refl _, Nat.le_refl _, AdvN.mono (AdvN.refl _ _ _) (Nat.zero_le _)⟩
  | succ l ih =>
    intro i j p t w p' t' w' hB hcb hG hc
    simp only [patEqualS] at hc
    split at hc
    · simp at hc
    · rename_i p1 t1 w1 ha
      have hua : ∃ a, uo[i]? = some a := by
        unfold patAnchorS at ha
        split at ha
        · exact ⟨_, ‹uo[i]? = some _›⟩
        · simp at ha
      have hub : ∃ b, un[j]? = some b := by
        unfold patAnchorS at ha
        split at ha
        · exact ⟨_, ‹un[j]? = some _›⟩
        · simp at ha
      obtain ⟨a, hua⟩ := hua
      obtain ⟨b, hub⟩ := hub
      have ra := hao.range i a hua
      have rb := han.range j b hub
      obtain ⟨b1, b2, b3, b4⟩ := hB
      have la := hcb.1 i a (Nat.le_refl _) hua
      have lb := hcb.2 j b (Nat.le_refl _) hub
      obtain ⟨rfl, A1⟩ := patAnchorS_post hW hb hua hub b1 la ra.2 b3 lb rb.2 hG ha
      have hB1 : Bnd os oe ns ne { oc := a, nc := b } := ⟨ra.1, Nat.le_of_lt ra.2, rb.1, Nat.le_of_lt rb.2⟩
      have hcb1 : CB uo un { oc := a, nc := b } (i+1) (j+1) :=
        ⟨fun k' a' hk' hu' => Nat.le_of_lt (hao.mono i k' a a' (by omega) hua hu'),
         fun k' b' hk' hu' => Nat.le_of_lt (han.mono j k' b b' (by omega) hub hu')⟩
      have hG1 : ph (gI t1) = 1 → ck w1 = 1 :=
        (GoodN.step (γ := 0) ⟨fun _ => rfl, hG⟩ A1).2
      obtain ⟨c1, c2, c3, c4, A2⟩ := ih (i+1) (j+1) _ t1 w1 p' t' w' hB1 hcb1 hG1 hc
      simp only at c3 c4
      refine ⟨c1, ?_, by omega, by omega, AdvN.mono (AdvN.trans A1 A2) ?_⟩
      · rw [show i + (l+1) = i + 1 + l from by omega, show j + (l+1) = j + 1 + l from by omega]; exact c2
      · simp only
        omega

/-- **flushing the pending `equal` of `Replace`** processes its anchors -/
theorem flushEqS_post (hao : Asc uo os oe) (han : Asc un ns ne) (i j : Nat) (rs : RState) (p : PState)
    (t : σ × Option World) (w : World) (rs' : RState) (p' : PState) (t' : σ × Option World) (w' : World)
    (hB : Bnd os oe ns ne p) (hp : Pend uo un rs p i j) (hG : ph (gI t) = 1 → ck w = 1)
    (hc : rFlushEq (patienceHookS E (liftG h) mkG uo un oe ne) rs (p, t) w = .ok (rs', (p', t'), w')) :
    rs'.eq = none ∧ rs'.del = rs.del ∧ rs'.ins = rs.ins ∧ Bnd os oe ns ne p' ∧ CB uo un p' i j ∧
      p.oc ≤ p'.oc ∧ p.nc ≤ p'.nc ∧
      AdvN (3 * min (p'.oc - p.oc) (p'.nc - p.nc) + plen rs) (gI t) 0 w (gI t') 0 w' := by
  unfold rFlushEq at hc
  unfold Pend at hp
  unfold plen
  split at hc
  · rename_i o n l heq
    rw [heq] at hp
    simp only [heq]
    obtain ⟨rfl, rfl, hcb⟩ := hp
    simp only [patienceHookS] at hc
    split at hc
    · simp at hc
    · rename_i st1 w1 hcall
      split at hcall
      · simp at hcall
      · rename_i p1 t1 w2 hpe
        simp only [Except.ok.injEq, Prod.mk.injEq] at hcall hc
        obtain ⟨rfl, rfl⟩ := hcall
        obtain ⟨rfl, ⟨rfl, rfl⟩, rfl⟩ := hc
        obtain ⟨c1, c2, c3, c4, c5⟩ := patEqualS_post hW hb hao han l o n p t w _ _ _ hB hcb hG hpe
        exact ⟨rfl, rfl, rfl, c1, c2, c3, c4, c5⟩
  · rename_i heq
    rw [heq] at hp
    simp only [heq]
    simp only [Except.ok.injEq, Prod.mk.injEq] at hc
    obtain ⟨rfl, ⟨rfl, rfl⟩, rfl⟩ := hc
    exact ⟨heq, rfl, rfl, hB, hp, Nat.le_refl _, Nat.le_refl _, AdvN.mono (AdvN.refl _ _ _) (Nat.zero_le _)⟩

end Quant

/-! ## 5. the position invariant of the outer run -/

/-- ghost and counter of the state of the wrapped outer hook -/
@[reducible] def gW {σ} (t : (RState × PState × σ × Option World) × Nat) : Option World := g0 t.1
@[reducible] def ΓW {σ} (t : (RState × PState × σ × Option World) × Nat) : Nat := t.2

/-- the state transformer of the wrapped outer run -/
def mkW {σ} : (RState × PState × σ × Option World) × Nat → World → World → (RState × PState × σ × Option World) × Nat :=
  fun t w w1 => (mkO mkG t.1 w w1, t.2)

/-- the counter is zero before the expiry and at most `3 * min (cursor advance) + anchors processed` -/
def CIx (os ns : Nat) (p : PState) (k : Nat) (g : Option World) (γ : Nat) : Prop :=
  (ph g = 0 → γ = 0) ∧ γ ≤ 3 * min (p.oc - os) (p.nc - ns) + k

/-- the invariant of the wrapped outer hook at outer position `(i, j)` -/
def JP {σ} (os oe ns ne : Nat) (uo un : Array Nat) (i j : Nat) (t : (RState × PState × σ × Option World) × Nat) : Prop :=
  Bnd os oe ns ne t.1.2.1 ∧ Pend uo un t.1.1 t.1.2.1 i j ∧
    ∃ k, k + plen t.1.1 ≤ i ∧ k + plen t.1.1 ≤ j ∧ CIx os ns t.1.2.1 k (g0 t.1) t.2

theorem updγ_same (g : Option World) (γ : Nat) (w : World) :
    (ph g = 0 → updγ g γ w g w = 0) ∧ updγ g γ w g w ≤ γ := by
  cases g <;> simp [updγ, ph]

/-- closing an outer `delete` / `insert` step after the flush -/
theorem jp_close {σ} {os oe ns ne : Nat} {uo un : Array Nat} {i' j' : Nat} {rs2 : RState} {p1 : PState}
    {t1 : σ × Option World} {γ γ' : Nat} {g : Option World} {w w1 : World} {k1 B : Nat}
    (he : rs2.eq = none) (hB1 : Bnd os oe ns ne p1) (hcb : CB uo un p1 i' j') (hk1 : k1 ≤ i') (hk2 : k1 ≤ j')
    (A : AdvN B g 0 w (gI t1) 0 w1) (hG : GoodN g γ w)
    (hle : γ + B ≤ 3 * min (p1.oc - os) (p1.nc - ns) + k1) (hγ : γ' = updγ g γ w (gI t1) w1) :
    JP os oe ns ne uo un i' j' ((rs2, p1, t1), γ') := by
  have hu := updγ_bound A hG
  refine ⟨hB1, by simp only [Pend, he]; exact hcb, k1, by simp only [plen, he]; omega,
    by simp only [plen, he]; omega, ?_⟩
  subst hγ
  exact ⟨hu.1, by simp only [g0, gI] at hu ⊢; omega⟩

section Outer
variable {σ : Type} {h : Hook σ} (hW : WorldId h) {E : Env} {os oe ns ne : Nat} (hb : InBounds E os oe ns ne)
  {uo un : Array Nat} (hao : Asc uo os oe) (han : Asc un ns ne)

/-- an outer `equal` is only queued by `Replace` -/
theorem jp_equal {i j l : Nat} {t t' : (RState × PState × σ × Option World) × Nat} {w w' : World}
    (hJ : JP os oe ns ne uo un i j t)
    (hc : (ghp (replaceHook (patienceHookS E (liftG h) mkG uo un oe ne)) g0).call (.op (.equal i j l)) t w
      = .ok (t', w')) : JP os oe ns ne uo un (i + l) (j + l) t' := by
  obtain ⟨c1, c2⟩ := ghp_ok hc
  obtain ⟨⟨rs, p, tt⟩, γ⟩ := t
  obtain ⟨⟨rs', p', tt'⟩, γ'⟩ := t'
  obtain ⟨hB, hp, k, hk1, hk2, hci⟩ := hJ
  simp only at hB hp hk1 hk2 hci c1 c2
  simp only [replaceHook] at c1
  split at c1
  · simp at c1
  · rename_i rs1 st1 w1 hfl
    obtain ⟨rfl, heq, rfl⟩ := flushDelInsS_w hfl
    unfold Pend at hp
    unfold plen at hk1 hk2
    rw [← heq] at hp hk1 hk2
    have hu := updγ_same (g0 (rs, p, tt)) γ w1
    unfold CIx at hci
    simp only [g0] at hu hci c2
    split at c1
    · rename_i eo en el heq1
      rw [heq1] at hp hk1 hk2
      simp only [Except.ok.injEq, Prod.mk.injEq] at c1
      obtain ⟨⟨rfl, rfl, rfl⟩, rfl⟩ := c1
      simp only at hk1 hk2
      subst c2
      refine ⟨hB, ?_, k, ?_, ?_, ?_⟩
      · simp only [Pend]; exact ⟨by omega, by omega, hp.2.2⟩
      · simp only [plen]; omega
      · simp only [plen]; omega
      · unfold CIx
        simp only [g0]
        exact ⟨hu.1, by omega⟩
    · rename_i heq1
      rw [heq1] at hp hk1 hk2
      simp only [Except.ok.injEq, Prod.mk.injEq] at c1
      obtain ⟨⟨rfl, rfl, rfl⟩, rfl⟩ := c1
      simp only at hk1 hk2
      subst c2
      refine ⟨hB, ?_, k, ?_, ?_, ?_⟩
      · simp only [Pend, true_and]; exact hp
      · simp only [plen]; omega
      · simp only [plen]; omega
      · unfold CIx
        simp only [g0]
        exact ⟨hu.1, by omega⟩

include hW hb hao han

/-- the flush at the start of an outer `delete` / `insert` / `finish`, with the counter -/
theorem jp_flush {i j : Nat} {rs : RState} {p : PState} {tt : σ × Option World} {γ : Nat} {w : World}
    {rs1 : RState} {p1 : PState} {t1 : σ × Option World} {w1 : World}
    (hJ : JP os oe ns ne uo un i j ((rs, p, tt), γ)) (hG : GoodN (gI tt) γ w)
    (hfl : rFlushEq (patienceHookS E (liftG h) mkG uo un oe ne) rs (p, tt) w = .ok (rs1, (p1, t1), w1)) :
    rs1.eq = none ∧ Bnd os oe ns ne p1 ∧ CB uo un p1 i j ∧ (ph (gI t1) = 1 → ck w1 = 1) ∧
    ∃ k1 B, k1 ≤ i ∧ k1 ≤ j ∧ AdvN B (gI tt) 0 w (gI t1) 0 w1 ∧
      γ + B ≤ 3 * min (p1.oc - os) (p1.nc - ns) + k1 := by
  obtain ⟨hB, hp, k, hk1, hk2, hci⟩ := hJ
  simp only at hB hp hk1 hk2 hci
  obtain ⟨a1, -, -, a4, a5, a6, a7, A⟩ :=
    flushEqS_post hW hb hao han i j rs p tt w rs1 p1 t1 w1 hB hp hG.2 hfl
  have hG1 : ph (gI t1) = 1 → ck w1 = 1 := (GoodN.step (γ := 0) ⟨fun _ => rfl, hG.2⟩ A).2
  refine ⟨a1, a4, a5, hG1, k + plen rs, _, hk1, hk2, A, ?_⟩
  obtain ⟨b1, b2, b3, b4⟩ := hB
  unfold CIx at hci
  have := hci.2
  omega

theorem jp_delete {i j l : Nat} {t t' : (RState × PState × σ × Option World) × Nat} {w w' : World}
    (hJ : JP os oe ns ne uo un i j t) (hG : GoodT gW ΓW t w)
    (hc : (ghp (replaceHook (patienceHookS E (liftG h) mkG uo un oe ne)) g0).call (.op (.delete i l j)) t w
      = .ok (t', w')) : JP os oe ns ne uo un (i + l) j t' := by
  obtain ⟨c1, c2⟩ := ghp_ok hc
  obtain ⟨⟨rs, p, tt⟩, γ⟩ := t
  obtain ⟨⟨rs', p', tt'⟩, γ'⟩ := t'
  simp only at c1 c2
  simp only [replaceHook] at c1
  split at c1
  · simp at c1
  · rename_i rs1 st1 w1 hfl
    obtain ⟨p1, t1⟩ := st1
    obtain ⟨heq1, hB1, hcb1, -, k1, B, hk1, hk2, A, hle⟩ := jp_flush hW hb hao han hJ hG hfl
    have hcb2 := hcb1.mono (Nat.le_add_right i l) (Nat.le_refl j)
    split at c1
    · split at c1
      · simp only [Except.ok.injEq, Prod.mk.injEq] at c1
        obtain ⟨⟨rfl, rfl, rfl⟩, rfl⟩ := c1
        exact jp_close heq1 hB1 hcb2 (by omega) hk2 A hG hle c2
      · simp at c1
    · simp only [Except.ok.injEq, Prod.mk.injEq] at c1
      obtain ⟨⟨rfl, rfl, rfl⟩, rfl⟩ := c1
      exact jp_close heq1 hB1 hcb2 (by omega) hk2 A hG hle c2

theorem jp_insert {i j l o : Nat} {t t' : (RState × PState × σ × Option World) × Nat} {w w' : World}
    (hJ : JP os oe ns ne uo un i j t) (hG : GoodT gW ΓW t w)
    (hc : (ghp (replaceHook (patienceHookS E (liftG h) mkG uo un oe ne)) g0).call (.op (.insert o j l)) t w
      = .ok (t', w')) : JP os oe ns ne uo un i (j + l) t' := by
  obtain ⟨c1, c2⟩ := ghp_ok hc
  obtain ⟨⟨rs, p, tt⟩, γ⟩ := t
  obtain ⟨⟨rs', p', tt'⟩, γ'⟩ := t'
  simp only at c1 c2
  simp only [replaceHook] at c1
  split at c1
  · simp at c1
  · rename_i rs1 st1 w1 hfl
    obtain ⟨p1, t1⟩ := st1
    obtain ⟨heq1, hB1, hcb1, -, k1, B, hk1, hk2, A, hle⟩ := jp_flush hW hb hao han hJ hG hfl
    have hcb2 := hcb1.mono (Nat.le_refl i) (Nat.le_add_right j l)
    split at c1
    · split at c1
      · simp only [Except.ok.injEq, Prod.mk.injEq] at c1
        obtain ⟨⟨rfl, rfl, rfl⟩, rfl⟩ := c1
        exact jp_close heq1 hB1 hcb2 hk1 (by omega) A hG hle c2
      · simp at c1
    · simp only [Except.ok.injEq, Prod.mk.injEq] at c1
      obtain ⟨⟨rfl, rfl, rfl⟩, rfl⟩ := c1
      exact jp_close heq1 hB1 hcb2 hk1 (by omega) A hG hle c2

omit hW hb hao han in
/-- marking the ghost keeps the invariant -/
theorem jp_mk {i j : Nat} {t : (RState × PState × σ × Option World) × Nat} {w w1 : World}
    (hJ : JP os oe ns ne uo un i j t) : JP os oe ns ne uo un i j (mkW t w w1) := by
  obtain ⟨⟨rs, p, tt⟩, γ⟩ := t
  obtain ⟨hB, hp, k, hk1, hk2, hci⟩ := hJ
  refine ⟨hB, hp, k, hk1, hk2, ?_⟩
  have := markN tt.2 w w1
  unfold CIx at hci ⊢
  simp only [g0, mkW, mkO, mkG] at hci ⊢
  exact ⟨fun hx => hci.1 (by omega), hci.2⟩

/-- the steps of the position invariant, for `conquerS_post` -/
theorem jsteps : JSteps (ghp (replaceHook (patienceHookS E (liftG h) mkG uo un oe ne)) g0) mkW gW ΓW
    (JP os oe ns ne uo un) := by
  refine ⟨?_, ?_, ?_, ?_⟩
  · intro i j l t w t' w' hJ hc _
    split at hc
    · exact jp_equal hJ hc
    · cases hc
      have : l = 0 := by omega
      subst this
      exact hJ
  · intro i j l t w t' w' hJ hc hG
    exact jp_delete hW hb hao han hJ hG hc
  · intro i j l o t w t' w' hJ hc hG
    exact jp_insert hW hb hao han hJ hG hc
  · intro i j t w w1 hJ
    exact jp_mk hJ

omit hb hao han in
theorem outer_hookQ : HookQ (replaceHook (patienceHookS E (liftG h) mkG uo un oe ne)) g0 :=
  replace_hookQ (patienceHookS_hookQ hW)

omit hb hao han in
theorem outer_hookA : HookA (ghp (replaceHook (patienceHookS E (liftG h) mkG uo un oe ne)) g0) gW ΓW :=
  ghp_hookA (outer_hookQ hW)

/-- **the `finish` call** of the wrapped outer hook: the pending anchors, then the tail run; afterwards
the counter is at most `3 * min N M + (anchors processed)` -/
theorem jp_finish {i j : Nat} {t t' : (RState × PState × σ × Option World) × Nat} {w w' : World}
    (hJ : JP os oe ns ne uo un i j t) (hG : GoodT gW ΓW t w)
    (hc : (ghp (replaceHook (patienceHookS E (liftG h) mkG uo un oe ne)) g0).call .finish t w = .ok (t', w')) :
    ΓW t' ≤ 3 * min (oe - os) (ne - ns) + min i j := by
  obtain ⟨c1, c2⟩ := ghp_ok hc
  obtain ⟨⟨rs, p, tt⟩, γ⟩ := t
  obtain ⟨⟨rs', p', tt'⟩, γ'⟩ := t'
  simp only at c1 c2
  simp only [replaceHook] at c1
  split at c1
  · simp at c1
  · rename_i rs1 st1 w1 hfl
    obtain ⟨p1, t1⟩ := st1
    obtain ⟨-, hB1, -, hG1, k1, B, hk1, hk2, A, hle⟩ := jp_flush hW hb hao han hJ hG hfl
    split at c1
    · simp at c1
    · rename_i rs2 st2 w2 hfl2
      obtain ⟨rfl, -, rfl⟩ := flushDelInsS_w hfl2
      split at c1
      · simp at c1
      · rename_i st3 w3 hfin
        simp only [Except.ok.injEq, Prod.mk.injEq] at c1
        obtain ⟨⟨rfl, rfl⟩, rfl⟩ := c1
        simp only [patienceHookS] at hfin
        split at hfin
        · simp at hfin
        · rename_i t2 w4 hmy
          simp only [Except.ok.injEq, Prod.mk.injEq] at hfin
          obtain ⟨⟨rfl, rfl⟩, rfl⟩ := hfin
          obtain ⟨b1, b2, b3, b4⟩ := hB1
          have A2 := myersDiffS_inner (fun _ _ _ _ _ hx => liftG_ok hW hx) b2 b4
            (MyersP.InBounds_sub hb b1 (Nat.le_refl _) b3 (Nat.le_refl _)) hG1 hmy
          have hu := (updγ_bound (AdvN.trans A A2) hG).2
          simp only [ΓW]
          subst c2
          simp only [g0, gI, ΓW] at hu ⊢
          omega

end Outer

end SimilarVerif.PatiencePost

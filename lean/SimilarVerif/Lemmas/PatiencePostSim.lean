import SimilarVerif.Lemmas.PatiencePostDefs
/-! # C07 for Patience, expiry at any probe: lock-step lemmas for the instrumented run

Two instrumented runs over hooks `h`, `g` with `Sim h g R F` (`F` never holds: neither hook fails unless
the other does) and related state transformers stay related.  Instances: the model run and the
ghost run (`liftG_sim`), the ghost run and the same run with a cost counter (`PatiencePostGeneric`). -/
namespace SimilarVerif.PatiencePost
open SimilarVerif HookFail DeadlineP

/-- use `hO : Out R F _ _ _` when `F` never holds -/
macro "simF_use" : tactic =>
  `(tactic| (rcases ‹Out _ _ _ _ _› with ⟨_, hk, hR⟩ | ⟨_, hk, hF⟩ <;>
      first | (exact absurd hF (by first | (exact ‹∀ e s, ¬ _› _ _) | (intro hx; exact hx))) | simp only [hk]))

macro "simS_run " H:term " with " ih:term " via " hmk:term : tactic =>
  `(tactic| repeat (first
      | (exact Out.ok (by with_reducible assumption))
      | (exact Out.ok ⟨rfl, by assumption⟩)
      | sim_simp
      | (sim_call $H; simF_use)
      | (have hO := $ih (by with_reducible assumption) (by with_reducible assumption); simF_use)
      | (have hO := call_sim $H ($hmk _ _ _ _ (by with_reducible assumption))
            (by with_reducible assumption); simF_use)))

macro "simS_run " H:term " with " ih:term : tactic =>
  `(tactic| repeat (first
      | (exact Out.ok (by with_reducible assumption))
      | (exact Out.ok ⟨rfl, by assumption⟩)
      | sim_simp
      | (sim_call $H; simF_use)
      | (have hO := $ih (by with_reducible assumption) (by with_reducible assumption); simF_use)))

macro "simS_run " H:term : tactic =>
  `(tactic| repeat (first
      | (exact Out.ok (by with_reducible assumption))
      | (exact Out.ok ⟨rfl, by assumption⟩)
      | sim_simp
      | (sim_call $H; simF_use)))

section SimS
variable {σ τ : Type} {h : Hook σ} {g : Hook τ} {R : σ → τ → Prop} {F : Abort → σ → Prop}
  {mk1 : σ → World → World → σ} {mk2 : τ → World → World → τ}

theorem conquerSS_sim (H : Sim h g R F) (hF : ∀ e s, ¬ F e s)
    (hmk : ∀ s t w w1, R s t → R (mk1 s w w1) (mk2 t w w1)) {E : Env} {off : Nat} :
    ∀ {fuel os oe ns ne vf vb s t w s' vf' vb' w'},
    R s t → conquerS E h mk1 off fuel os oe ns ne vf vb s w = .ok (s', vf', vb', w') →
    Out R F s' (fun t' => (t', vf', vb', w')) (conquerS E g mk2 off fuel os oe ns ne vf vb t w) := by
  intro fuel
  induction fuel with
  | zero => intro os oe ns ne vf vb s t w s' vf' vb' w' _ hc; simp [conquerS] at hc
  | succ fuel ih =>
    intro os oe ns ne vf vb s t w s' vf' vb' w' hR hc
    unfold conquerS at hc ⊢
    destruct_run
    all_goals simS_run H with ih via hmk
macro_rules | `(tactic| sim_call $H) => `(tactic| have hO := conquerSS_sim $H (by assumption) (by assumption) (by with_reducible assumption) (by with_reducible assumption))

theorem myersDiffSS_sim (H : Sim h g R F) (hF : ∀ e s, ¬ F e s)
    (hmk : ∀ s t w w1, R s t → R (mk1 s w w1) (mk2 t w w1)) {E : Env} {os oe ns ne s t w s' w'} (hR : R s t)
    (hc : myersDiffS E h mk1 os oe ns ne s w = .ok (s', w')) :
    Out R F s' (fun t' => (t', w')) (myersDiffS E g mk2 os oe ns ne t w) := by
  unfold myersDiffS at hc ⊢
  destruct_run
  all_goals simS_run H
macro_rules | `(tactic| sim_call $H) => `(tactic| have hO := myersDiffSS_sim $H (by assumption) (by assumption) (by with_reducible assumption) (by with_reducible assumption))
macro_rules
  | `(tactic| sim_call $H) =>
    `(tactic| have hO := myersDiffSS_sim (Sim.noFinish $H) (by assumption) (by assumption) (by with_reducible assumption) (by with_reducible assumption))

theorem patAnchorSS_sim (H : Sim h g R F) (hF : ∀ e s, ¬ F e s)
    (hmk : ∀ s t w w1, R s t → R (mk1 s w w1) (mk2 t w w1)) {E : Env} {uo un : Array Nat} {i j p s t w p' s' w'}
    (hR : R s t) (hc : patAnchorS E h mk1 uo un i j p s w = .ok (p', s', w')) :
    Out R F s' (fun t' => (p', t', w')) (patAnchorS E g mk2 uo un i j p t w) := by
  unfold patAnchorS at hc ⊢
  destruct_run
  all_goals simS_run H
macro_rules | `(tactic| sim_call $H) => `(tactic| have hO := patAnchorSS_sim $H (by assumption) (by assumption) (by with_reducible assumption) (by with_reducible assumption))

theorem patEqualSS_sim (H : Sim h g R F) (hF : ∀ e s, ¬ F e s)
    (hmk : ∀ s t w w1, R s t → R (mk1 s w w1) (mk2 t w w1)) {E : Env} {uo un : Array Nat} :
    ∀ {len i j p s t w p' s' w'},
    R s t → patEqualS E h mk1 uo un len i j p s w = .ok (p', s', w') →
    Out R F s' (fun t' => (p', t', w')) (patEqualS E g mk2 uo un len i j p t w) := by
  intro len
  induction len with
  | zero =>
    intro i j p s t w p' s' w' hR hc
    unfold patEqualS at hc ⊢
    cases hc
    exact Out.ok hR
  | succ len ih =>
    intro i j p s t w p' s' w' hR hc
    unfold patEqualS at hc ⊢
    destruct_run
    all_goals simS_run H with ih
macro_rules | `(tactic| sim_call $H) => `(tactic| have hO := patEqualSS_sim $H (by assumption) (by assumption) (by with_reducible assumption) (by with_reducible assumption))

theorem pres_of_never {ρ : Type} {k : Hook ρ} {F : Abort → ρ → Prop} (hF : ∀ e s, ¬ F e s) (e : Abort) : Pres k (F e) :=
  fun _ s _ _ _ _ hs => absurd hs (hF e s)

theorem Sim.patienceS (H : Sim h g R F) (hF : ∀ e s, ¬ F e s)
    (hmk : ∀ s t w w1, R s t → R (mk1 s w w1) (mk2 t w w1)) {E : Env} {uo un : Array Nat} {oe ne : Nat} :
    Sim (patienceHookS E h mk1 uo un oe ne) (patienceHookS E g mk2 uo un oe ne) (RP R) (FP F) := by
  refine ⟨fun e => pres_of_never (fun e (s : PState × σ) => hF e s.2) e, ?_⟩
  intro c a b w a' w' hR hc
  obtain ⟨p, s⟩ := a
  obtain ⟨p0, t⟩ := b
  obtain ⟨p', s'⟩ := a'
  obtain ⟨hr, hR⟩ := hR
  dsimp only at hr hR
  subst hr
  cases c with
  | finish => simp only [patienceHookS] at hc ⊢; destruct_run; all_goals simS_run H
  | op x => cases x <;> simp only [patienceHookS] at hc ⊢ <;> destruct_run <;> simS_run H

theorem mkO_rel (hmk : ∀ s t w w1, R s t → R (mk1 s w w1) (mk2 t w w1)) :
    ∀ (a : RState × PState × σ) (b : RState × PState × τ) (w w1 : World),
      RP (RP R) a b → RP (RP R) (mkO mk1 a w w1) (mkO mk2 b w w1) := by
  intro a b w w1 hab
  obtain ⟨h1, h2, h3⟩ := hab
  exact ⟨h1, h2, hmk _ _ _ _ h3⟩

theorem patienceDiffSS_sim (H : Sim h g R F) (hF : ∀ e s, ¬ F e s)
    (hmk : ∀ s t w w1, R s t → R (mk1 s w w1) (mk2 t w w1)) {E : Env} {os oe ns ne s t w s' w'} (hR : R s t)
    (hc : patienceDiffS E h mk1 os oe ns ne s w = .ok (s', w')) :
    Out R F s' (fun t' => (t', w')) (patienceDiffS E g mk2 os oe ns ne t w) := by
  unfold patienceDiffS at hc ⊢
  destruct_run
  rename_i _ _ uo un _ _ _ r' p' hm
  have hO := myersDiffSS_sim (Sim.replace (Sim.patienceS (E := E) (uo := uo.toArray) (un := un.toArray)
    (oe := oe) (ne := ne) H hF hmk)) (fun e s => hF e s.2.2) (mkO_rel hmk)
    (s := ({}, ({ oc := os, nc := ns }, s))) (t := ({}, ({ oc := os, nc := ns }, t)))
    ⟨rfl, rfl, hR⟩ hm
  rcases hO with ⟨⟨r1, p1, t1⟩, hk, hr, hp, hR1⟩ | ⟨e, hk, hF'⟩
  · simp only [hk]
    exact Out.ok hR1
  · exact absurd hF' (hF _ _)

end SimS

/-! ## the model run and the ghost run -/

theorem liftG_sim {σ} (h : Hook σ) : Sim h (liftG h) (fun s t => t.1 = s) (fun _ _ => False) := by
  refine ⟨fun _ _ _ _ _ _ _ hF => hF, ?_⟩
  intro c s t w s' w' hR hc
  obtain ⟨t1, g⟩ := t
  simp only at hR
  subst hR
  left
  exact ⟨(s', g), by simp only [liftG, hc], rfl⟩

theorem liftG_sim' {σ} (h : Hook σ) : Sim (liftG h) h (fun t s => t.1 = s) (fun _ _ => False) := by
  refine ⟨fun _ _ _ _ _ _ _ hF => hF, ?_⟩
  intro c t s w t' w' hR hc
  obtain ⟨t1, g⟩ := t
  simp only at hR
  subst hR
  left
  simp only [liftG] at hc
  split at hc
  · cases hc
  · rename_i s1 w1 h1
    cases hc
    exact ⟨s1, h1, rfl⟩

/-- **the ghost run exists whenever the model run succeeds**, with the same user state and world -/
theorem patienceDiffG_total {σ} {h : Hook σ} {E : Env} {os oe ns ne : Nat} {s s' : σ} {w w' : World}
    (g : Option World) (hc : patienceDiff E h os oe ns ne s w = .ok (s', w')) :
    ∃ g', patienceDiffG E h os oe ns ne s g w = .ok ((s', g'), w') := by
  rw [← patienceDiffS_id (mk := fun s _ _ => s) (fun _ _ _ => rfl)] at hc
  have hO := patienceDiffSS_sim (liftG_sim h) (fun _ _ hx => hx) (mk2 := mkG)
    (fun s t w w1 (hR : t.1 = s) => (hR : (mkG t w w1).1 = s)) (t := (s, g)) rfl hc
  rcases hO with ⟨⟨s1, g'⟩, hk, hR⟩ | ⟨e, _, hF⟩
  · simp only at hR
    subst hR
    exact ⟨g', hk⟩
  · exact hF.elim

/-- **forgetting the ghost gives back the model run** -/
theorem patienceDiffG_erase {σ} {h : Hook σ} {E : Env} {os oe ns ne : Nat} {s s' : σ} {g g' : Option World}
    {w w' : World} (hc : patienceDiffG E h os oe ns ne s g w = .ok ((s', g'), w')) :
    patienceDiff E h os oe ns ne s w = .ok (s', w') := by
  rw [← patienceDiffS_id (mk := fun s _ _ => s) (fun _ _ _ => rfl)]
  have hO := patienceDiffSS_sim (liftG_sim' h) (fun _ _ hx => hx) (mk1 := mkG) (mk2 := fun s _ _ => s)
    (fun t s w w1 (hR : t.1 = s) => (hR : (mkG t w w1).1 = s)) (s := (s, g)) (t := s) rfl hc
  rcases hO with ⟨s1, hk, hR⟩ | ⟨e, _, hF⟩
  · simp only at hR
    subst hR
    exact hk
  · exact hF.elim

end SimilarVerif.PatiencePost

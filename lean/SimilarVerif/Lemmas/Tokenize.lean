import SimilarVerif.Model.Text
/-!
# Property C06: the tokenizers of `str` and `[u8]`

(1) `Tiling` and `tiling_concat`; (2) losslessness of the eight non-unicode tokenizers
(`tokenize*_tiling`, `lossless_B`, `lossless_S`); (3) the external segmenters (`tiling_rangesOfLens`,
`lossless_segmenter`); (4) shape of the tokens (`tokenizeLines*_shape`, `tokenizeLines*_tokens`,
`tokenizeChars*`, `tokenizeWords*_shape`, `tokenizeLinesAndNewlines*_shape`); (5) `str` = `[u8]` on valid
UTF-8 (`decodeOne_utf8Enc`, `charIndicesB_utf8EncAll`, `str_eq_bytes`).
Order in the file: (1), (3), (2), (5), (4) — the `str` shape results are corollaries of (5).

Method: both `char_indices()` are viewed as lists of `(start, end, char)` triples (`Tri`); the `[u8]`
tokenizers are analysed once over an abstract contiguous list of triples (`Chain`), the `str`
tokenizers are shown equal to the `[u8]` ones over the triples `triS (i, c) = (i, i + len_utf8 c, c)`.
-/
namespace SimilarVerif.TokP
open SimilarVerif

/-! ## (1) tilings -/

/-- the ranges are non-empty, contiguous, start at `pos` and end at `len` -/
def TilingFrom : (pos : Nat) → List (Nat × Nat) → (len : Nat) → Prop
  | pos, [], len => pos = len
  | pos, (s, e) :: rs, len => s = pos ∧ s < e ∧ TilingFrom e rs len

/-- the ranges are non-empty (`s < e`), contiguous (each starts where the previous ended), start at `0`
and end at `len` (no ranges: `len = 0`) -/
def Tiling (rs : List (Nat × Nat)) (len : Nat) : Prop := TilingFrom 0 rs len

theorem TilingFrom.le : ∀ {rs : List (Nat × Nat)} {pos len : Nat}, TilingFrom pos rs len → pos ≤ len
  | [], _, _, h => Nat.le_of_eq h
  | (_, _) :: _, _, _, ⟨h1, h2, h3⟩ => by have := TilingFrom.le h3; omega

theorem TilingFrom.append : ∀ {rs₁ rs₂ : List (Nat × Nat)} {pos mid len : Nat},
    TilingFrom pos rs₁ mid → TilingFrom mid rs₂ len → TilingFrom pos (rs₁ ++ rs₂) len
  | [], _, _, _, _, h1, h2 => by cases h1; exact h2
  | (_, _) :: _, _, _, _, _, ⟨h1, h2, h3⟩, h4 => ⟨h1, h2, TilingFrom.append h3 h4⟩

/-- explicit (index-based) reading of `TilingFrom` -/
theorem tilingFrom_iff : ∀ (rs : List (Nat × Nat)) (pos len : Nat), TilingFrom pos rs len ↔
    ((∀ r ∈ rs, r.1 < r.2) ∧
     (∀ i, (h : i + 1 < rs.length) → rs[i + 1].1 = rs[i].2) ∧
     (rs.head?.map (·.1)).getD len = pos ∧ (rs.getLast?.map (·.2)).getD pos = len)
  | [], pos, len => by simp [TilingFrom]; omega
  | [(s, e)], pos, len => by simp [TilingFrom]; omega
  | (s, e) :: (s', e') :: rs, pos, len => by
    have ih := tilingFrom_iff ((s', e') :: rs) e len
    simp only [TilingFrom] at ih ⊢
    rw [ih]
    simp only [List.mem_cons, List.head?_cons, Option.map_some, Option.getD_some, List.length_cons,
      List.getLast?_cons_cons]
    constructor
    · rintro ⟨rfl, h1, h2, h3, h4, h5⟩
      refine ⟨?_, ?_, rfl, ?_⟩
      · intro r hr; rcases hr with rfl | hr
        · exact h1
        · exact h2 r hr
      · intro i hi
        cases i with
        | zero => exact h4
        | succ i => exact h3 i (by simpa using hi)
      · cases hl : ((s', e') :: rs).getLast? with
        | none => simp at hl
        | some x => simpa [hl] using h5
    · rintro ⟨h1, h2, rfl, h3⟩
      refine ⟨rfl, h1 _ (Or.inl rfl), fun r hr => h1 r (Or.inr hr), ?_, h2 0 (by simp), ?_⟩
      · intro i hi
        exact h2 (i + 1) (by simpa using hi)
      · cases hl : ((s', e') :: rs).getLast? with
        | none => simp at hl
        | some x => simpa [hl] using h3

theorem tiling_iff (rs : List (Nat × Nat)) (len : Nat) : Tiling rs len ↔
    ((∀ r ∈ rs, r.1 < r.2) ∧
     (∀ i, (h : i + 1 < rs.length) → rs[i + 1].1 = rs[i].2) ∧
     (rs.head?.map (·.1)).getD len = 0 ∧ (rs.getLast?.map (·.2)).getD 0 = len) :=
  tilingFrom_iff rs 0 len

theorem tilingFrom_concat (b : Bytes) : ∀ (rs : List (Nat × Nat)) (pos : Nat),
    TilingFrom pos rs b.length → (rs.map (slice b)).flatten = b.drop pos ∧ ∀ r ∈ rs, slice b r ≠ []
  | [], pos, h => by
    simp only [TilingFrom] at h
    subst h
    simp
  | (s, e) :: rs, pos, ⟨h1, h2, h3⟩ => by
    subst h1
    obtain ⟨ih1, ih2⟩ := tilingFrom_concat b rs e h3
    have hle := TilingFrom.le h3
    constructor
    · simp only [List.map_cons, List.flatten_cons, ih1, slice]
      have : b.drop e = (b.drop s).drop (e - s) := by
        rw [List.drop_drop]; congr 1; omega
      rw [this, List.take_append_drop]
    · intro r hr
      rcases List.mem_cons.1 hr with rfl | hr
      · intro h0
        have := congrArg List.length h0
        simp [slice] at this
        omega
      · exact ih2 r hr

/-- **tokens of a tiling concatenate to the input** (and are non-empty) -/
theorem tiling_concat {rs : List (Nat × Nat)} {b : Bytes} (h : Tiling rs b.length) :
    (rs.map (slice b)).flatten = b ∧ ∀ r ∈ rs, slice b r ≠ [] := by
  simpa using tilingFrom_concat b rs 0 h

/-! ## (3) external segmenters -/

theorem tilingFrom_rangesOfLens : ∀ (lens : List Nat) (pos : Nat), (∀ l ∈ lens, 0 < l) →
    TilingFrom pos (rangesOfLens pos lens) (pos + lens.sum)
  | [], pos, _ => by simp [rangesOfLens, TilingFrom]
  | l :: ls, pos, h => by
    have hl := h l (List.mem_cons_self ..)
    have ih := tilingFrom_rangesOfLens ls (pos + l) (fun x hx => h x (List.mem_cons_of_mem _ hx))
    simp only [rangesOfLens, TilingFrom, List.sum_cons]
    refine ⟨trivial, by omega, ?_⟩
    rw [← Nat.add_assoc]; exact ih

/-- a segmenter that satisfies its contract yields a tiling -/
theorem tiling_rangesOfLens {lens : List Nat} {len : Nat} (h : Partition lens len) :
    Tiling (rangesOfLens 0 lens) len := by
  obtain ⟨h1, h2⟩ := h
  have := tilingFrom_rangesOfLens lens 0 h1
  simpa [Tiling, h2] using this

/-! ## (2) losslessness -/

/-! ### `decodeOne` -/

theorem mkChar_val_ge {v : Nat} (h : 0x80 ≤ v) : 0x80 ≤ (mkChar v).val.toNat := by
  unfold mkChar
  split
  · rename_i hv
    simp [Nat.isValidChar] at hv
    show 0x80 ≤ (v.toUInt32).toNat
    simp [Nat.toUInt32]
    omega
  · decide

theorem decodeOne_spec (b0 : UInt8) (rest : Bytes) :
    1 ≤ (decodeOne (b0 :: rest)).2 ∧ (decodeOne (b0 :: rest)).2 ≤ 4 ∧
    (decodeOne (b0 :: rest)).2 ≤ (b0 :: rest).length ∧
    (((decodeOne (b0 :: rest)).2 = 1 ∧ b0.toNat < 0x80 ∧ (decodeOne (b0 :: rest)).1 = Char.ofNat b0.toNat) ∨
     (0x80 ≤ (decodeOne (b0 :: rest)).1.val.toNat ∧ ∀ x ∈ (b0 :: rest).take (decodeOne (b0 :: rest)).2, 0x80 ≤ x.toNat)) := by
  have hfffd : 128 ≤ '�'.val.toNat := by decide
  unfold decodeOne
  simp only []
  split
  · rename_i h
    simp only [UInt8.lt_iff_toNat_lt, UInt8.toNat_ofNat, Nat.reducePow, Nat.reduceMod] at h
    refine ⟨Nat.le_refl _, by simp, by simp, Or.inl ⟨rfl, h, rfl⟩⟩
  repeat' split
  all_goals simp only [List.take_succ_cons, List.take_zero, List.mem_cons, List.length_cons, List.not_mem_nil, or_false, forall_eq_or_imp, forall_eq]
  all_goals simp only [UInt8.lt_iff_toNat_lt, UInt8.le_iff_toNat_le, isCont, Bool.and_eq_true, decide_eq_true_eq, Nat.not_lt, beq_iff_eq, ← UInt8.toNat_inj, UInt8.toNat_ofNat, Nat.reducePow, Nat.reduceMod] at *
  all_goals
    refine ⟨?_, ?_, ?_, Or.inr ⟨?_, ?_⟩⟩ <;>
      first | omega | (with_reducible exact hfffd) | exact mkChar_val_ge (by omega)

abbrev Tri := Nat × Nat × Char

/-- abstract `char_indices`: contiguous non-empty pieces from `pos` to `len`; newline chars are one byte -/
def Chain : (pos : Nat) → List Tri → (len : Nat) → Prop
  | pos, [], len => pos = len
  | pos, (s, e, c) :: l, len => s = pos ∧ s < e ∧ (isNewline c = true → e = s + 1) ∧ Chain e l len

theorem Chain.le : ∀ {l : List Tri} {pos len : Nat}, Chain pos l len → pos ≤ len
  | [], _, _, h => Nat.le_of_eq h
  | (_, _, _) :: _, _, _, ⟨h1, h2, _, h3⟩ => by have := Chain.le h3; omega

theorem isNewline_iff (c : Char) : isNewline c = true ↔ c = '\r' ∨ c = '\n' := by
  simp [isNewline]

/-! ### lines -/

theorem linesGoB_tiling : ∀ (l : List Tri) (lastPos pos len : Nat), Chain pos l len → lastPos ≤ pos →
    TilingFrom lastPos (linesGoB l lastPos).1 (linesGoB l lastPos).2 ∧ (linesGoB l lastPos).2 ≤ len
  | [], lastPos, pos, len, h, hl => by
    simp only [Chain] at h
    simp only [linesGoB, TilingFrom]
    exact ⟨trivial, by omega⟩
  | [(s, e, c)], lastPos, pos, len, ⟨h1, h2, h3, h4⟩, hl => by
    simp only [Chain] at h4
    simp only [linesGoB]
    split
    · simp only [TilingFrom]; exact ⟨⟨trivial, by omega, trivial⟩, by omega⟩
    · simp only [TilingFrom]; exact ⟨trivial, by omega⟩
  | (s, e, c) :: (s2, e2, c2) :: rest, lastPos, pos, len, ⟨h1, h2, h3, h4⟩, hl => by
    obtain ⟨g1, g2, g3, g4⟩ := h4
    simp only [linesGoB]
    split
    · split
      · rename_i hc2
        have := g3 (by simp [isNewline, hc2])
        have ih := linesGoB_tiling rest (e + 1) e2 len g4 (by omega)
        simp only [TilingFrom]
        exact ⟨⟨trivial, by omega, ih.1⟩, ih.2⟩
      · have ih := linesGoB_tiling ((s2, e2, c2) :: rest) e e len ⟨g1, g2, g3, g4⟩ (Nat.le_refl _)
        simp only [TilingFrom]
        exact ⟨⟨trivial, by omega, ih.1⟩, ih.2⟩
    · split
      · have ih := linesGoB_tiling ((s2, e2, c2) :: rest) e e len ⟨g1, g2, g3, g4⟩ (Nat.le_refl _)
        simp only [TilingFrom]
        exact ⟨⟨trivial, by omega, ih.1⟩, ih.2⟩
      · exact linesGoB_tiling ((s2, e2, c2) :: rest) lastPos e len ⟨g1, g2, g3, g4⟩ (by omega)

/-- the line tokenizer over an abstract `char_indices` -/
def linesOf (l : List Tri) (len : Nat) : List (Nat × Nat) :=
  let (ts, lastPos) := linesGoB l 0
  if lastPos < len then ts ++ [(lastPos, len)] else ts

theorem linesOf_tiling {l : List Tri} {len : Nat} (h : Chain 0 l len) : Tiling (linesOf l len) len := by
  obtain ⟨h1, h2⟩ := linesGoB_tiling l 0 0 len h (Nat.le_refl _)
  unfold linesOf Tiling
  simp only []
  split
  · rename_i hlt
    exact TilingFrom.append h1 ⟨rfl, hlt, rfl⟩
  · have : (linesGoB l 0).2 = len := by omega
    rw [this] at h1; exact h1

/-! ### runs -/

theorem runGoB_chain (p : Char → Bool) (cls : Bool) : ∀ (l : List Tri) (e len : Nat), Chain e l len →
    Chain (runGoB p cls l e).1 (runGoB p cls l e).2 len ∧ (runGoB p cls l e).2.length ≤ l.length ∧
    e ≤ (runGoB p cls l e).1
  | [], e, len, h => by simpa [runGoB] using h
  | (s, e', c) :: rest, e, len, h => by
    simp only [runGoB]
    split
    · exact ⟨h, Nat.le_refl _, Nat.le_refl _⟩
    · obtain ⟨h1, h2, h3, h4⟩ := h
      have ih := runGoB_chain p cls rest e' len h4
      refine ⟨ih.1, ?_, by omega⟩
      simp only [List.length_cons]; omega

theorem runsB_tiling (p : Char → Bool) : ∀ (fuel : Nat) (l : List Tri) (pos len : Nat), Chain pos l len →
    l.length ≤ fuel → TilingFrom pos (runsB p fuel l) len
  | fuel, [], pos, len, h, _ => by
    simp only [Chain] at h
    cases fuel <;> simpa only [runsB, TilingFrom] using h
  | 0, _ :: _, _, _, _, hf => by simp at hf
  | fuel + 1, (s, e, c) :: rest, pos, len, ⟨h1, h2, h3, h4⟩, hf => by
    obtain ⟨g1, g2, g3⟩ := runGoB_chain p (p c) rest e len h4
    simp only [runsB, TilingFrom]
    refine ⟨h1, by omega, runsB_tiling p fuel _ _ len g1 ?_⟩
    simp only [List.length_cons] at hf; omega

theorem runGoB_length (p : Char → Bool) (cls : Bool) : ∀ (l : List Tri) (e : Nat),
    (runGoB p cls l e).2.length ≤ l.length
  | [], _ => by simp [runGoB]
  | (s, e', c) :: rest, e => by
    simp only [runGoB]
    split
    · exact Nat.le_refl _
    · have := runGoB_length p cls rest e'
      simp only [List.length_cons]; omega

/-- enough fuel is enough -/
theorem runsB_fuel (p : Char → Bool) : ∀ (f1 f2 : Nat) (l : List Tri), l.length ≤ f1 → l.length ≤ f2 →
    runsB p f1 l = runsB p f2 l
  | f1, f2, [], _, _ => by cases f1 <;> cases f2 <;> rfl
  | 0, _, _ :: _, h, _ => by simp at h
  | _, 0, _ :: _, _, h => by simp at h
  | f1 + 1, f2 + 1, (s, e, c) :: rest, h1, h2 => by
    have := runGoB_length p (p c) rest e
    simp only [List.length_cons] at h1 h2
    simp only [runsB]
    rw [runsB_fuel p f1 f2 _ (by omega) (by omega)]

/-! ### chars -/

theorem chars_tiling : ∀ (l : List Tri) (pos len : Nat), Chain pos l len →
    TilingFrom pos (l.map fun (s, e, _) => (s, e)) len
  | [], _, _, h => h
  | (_, _, _) :: l, _, len, ⟨h1, h2, _, h4⟩ => ⟨h1, h2, chars_tiling l _ len h4⟩


/-! ### bstr `char_indices` is a chain -/

theorem isNewline_val {c : Char} (h : isNewline c = true) : c.val.toNat = 13 ∨ c.val.toNat = 10 := by
  rcases (isNewline_iff c).1 h with rfl | rfl
  · left; rfl
  · right; rfl

theorem decodeOne_newline {bs : Bytes} (hbs : bs ≠ []) (h : isNewline (decodeOne bs).1 = true) :
    (decodeOne bs).2 = 1 := by
  cases bs with
  | nil => exact absurd rfl hbs
  | cons b0 rest =>
    obtain ⟨_, _, _, h4 | h4⟩ := decodeOne_spec b0 rest
    · exact h4.1
    · have := isNewline_val h; omega

/-- `l` is bstr's lossy decoding of `b` from byte `pos` to the end -/
def DecChain (b : Bytes) : (pos : Nat) → List Tri → Prop
  | pos, [] => pos = b.length
  | pos, (s, e, c) :: l =>
    s = pos ∧ s < e ∧ e ≤ b.length ∧ decodeOne (b.drop s) = (c, e - s) ∧ DecChain b e l

theorem DecChain.chain {b : Bytes} : ∀ {l : List Tri} {pos : Nat}, DecChain b pos l → Chain pos l b.length
  | [], _, h => h
  | (s, e, c) :: l, _, ⟨h1, h2, h3, h4, h5⟩ => by
    refine ⟨h1, h2, ?_, DecChain.chain h5⟩
    intro hc
    have hne : b.drop s ≠ [] := by
      intro h0; have := congrArg List.length h0; simp at this; omega
    have := decodeOne_newline hne (by rw [h4]; exact hc)
    rw [h4] at this
    simp only at this
    omega

theorem charIndicesB_decChain (b : Bytes) : ∀ (fuel pos : Nat) (bs : Bytes), b.drop pos = bs →
    pos ≤ b.length → bs.length ≤ fuel → DecChain b pos (charIndicesB fuel pos bs)
  | fuel, pos, [], h, hp, _ => by
    have := congrArg List.length h
    simp at this
    cases fuel <;> (simp only [charIndicesB, DecChain]; omega)
  | 0, _, _ :: _, _, _, hf => by simp at hf
  | fuel + 1, pos, b0 :: rest, h, hp, hf => by
    obtain ⟨k1, _, k3, _⟩ := decodeOne_spec b0 rest
    have hlen := congrArg List.length h
    simp only [List.length_drop, List.length_cons] at hlen k3 hf
    simp only [charIndicesB]
    have hk : (if ((decodeOne (b0 :: rest)).2 == 0) = true then 1 else (decodeOne (b0 :: rest)).2)
        = (decodeOne (b0 :: rest)).2 := by
      split
      · rename_i h0; simp at h0; omega
      · rfl
    rw [hk]
    refine ⟨rfl, by omega, by omega, ?_, ?_⟩
    · rw [h, Nat.add_sub_cancel_left]
    · apply charIndicesB_decChain b fuel
      · rw [← h, List.drop_drop]
      · omega
      · simp only [List.length_drop, List.length_cons]; omega

theorem charIndicesB_chain (b : Bytes) {fuel : Nat} (hf : b.length ≤ fuel) :
    DecChain b 0 (charIndicesB fuel 0 b) :=
  charIndicesB_decChain b fuel 0 b rfl (Nat.zero_le _) hf


theorem charIndicesB_length_le : ∀ (fuel pos : Nat) (bs : Bytes), (charIndicesB fuel pos bs).length ≤ fuel
  | 0, _, _ => by simp [charIndicesB]
  | _ + 1, _, [] => by simp [charIndicesB]
  | fuel + 1, pos, b0 :: rest => by
    simp only [charIndicesB, List.length_cons]
    exact Nat.succ_le_succ (charIndicesB_length_le fuel _ _)

/-! ### `str` as a chain -/

/-- the `(start, end, char)` triple of a `str::char_indices()` item -/
def triS (x : Nat × Char) : Tri := (x.1, x.1 + utf8Len x.2, x.2)

theorem utf8Len_pos (c : Char) : 0 < utf8Len c := by
  unfold utf8Len; repeat' split
  all_goals omega

theorem utf8Len_newline {c : Char} (h : isNewline c = true) : utf8Len c = 1 := by
  rcases (isNewline_iff c).1 h with rfl | rfl <;> rfl

theorem utf8Enc_length (c : Char) : (utf8Enc c).length = utf8Len c := by
  unfold utf8Enc utf8Len
  simp only [UInt32.lt_iff_toNat_lt, UInt32.toNat_ofNat, Nat.reducePow, Nat.reduceMod]
  repeat' split
  all_goals first | rfl | omega

theorem utf8EncAll_length (s : List Char) : (utf8EncAll s).length = (s.map utf8Len).sum := by
  induction s with
  | nil => rfl
  | cons c cs ih =>
    simp only [utf8EncAll, List.flatMap_cons, List.length_append, List.map_cons, List.sum_cons] at ih ⊢
    rw [ih, utf8Enc_length]

theorem charIndicesS_chain : ∀ (s : List Char) (pos : Nat),
    Chain pos ((charIndicesS pos s).map triS) (pos + (s.map utf8Len).sum)
  | [], pos => by simp [charIndicesS, Chain]
  | c :: cs, pos => by
    have ih := charIndicesS_chain cs (pos + utf8Len c)
    have := utf8Len_pos c
    simp only [charIndicesS, List.map_cons, triS, Chain, List.sum_cons]
    refine ⟨trivial, by omega, fun h => by rw [utf8Len_newline h], ?_⟩
    rw [← Nat.add_assoc]; exact ih

theorem charIndicesS_length : ∀ (s : List Char) (pos : Nat), (charIndicesS pos s).length = s.length
  | [], _ => rfl
  | _ :: cs, _ => by simp [charIndicesS, charIndicesS_length cs]

theorem linesGoS_eq : ∀ (l : List (Nat × Char)) (lp : Nat), linesGoS l lp = linesGoB (l.map triS) lp
  | [], _ => rfl
  | [(idx, c)], lp => by
    simp only [linesGoS, List.map_cons, List.map_nil, triS, linesGoB]
    split
    · rename_i h
      rw [utf8Len_newline (by simpa [isNewline] using h)]
    · rfl
  | (idx, c) :: (j, c2) :: rest, lp => by
    have ih1 := linesGoS_eq rest
    have ih2 := linesGoS_eq ((j, c2) :: rest)
    simp only [List.map_cons, triS] at ih2
    simp only [linesGoS, List.map_cons, triS, linesGoB]
    split
    · rename_i h
      have : utf8Len c = 1 := utf8Len_newline (by simp [isNewline, h])
      rw [this]
      split
      · rw [ih1]
      · rw [ih2]
    · split
      · rename_i h
        have : utf8Len c = 1 := utf8Len_newline (by simp [isNewline, h])
        rw [this, ih2]
      · rw [ih2]

theorem tokenizeLinesS_eq (s : List Char) :
    tokenizeLinesS s = linesOf ((charIndicesS 0 s).map triS) (s.map utf8Len).sum := by
  simp only [tokenizeLinesS, linesOf, linesGoS_eq]

theorem runGoS_eq (p : Char → Bool) (cls : Bool) : ∀ (l : List (Nat × Char)) (e len : Nat),
    Chain e (l.map triS) len →
    runGoB p cls (l.map triS) e = ((runGoS p cls l e).1, (runGoS p cls l e).2.map triS)
  | [], _, _, _ => rfl
  | (i, c) :: rest, e, len, ⟨h1, _, _, h4⟩ => by
    simp only at h1 h4
    subst h1
    simp only [List.map_cons, triS, runGoB, runGoS]
    split
    · rfl
    · exact runGoS_eq p cls rest _ len h4

theorem runsS_eq (p : Char → Bool) : ∀ (fuel : Nat) (l : List (Nat × Char)) (pos len : Nat),
    Chain pos (l.map triS) len → runsS p fuel l = runsB p fuel (l.map triS)
  | 0, _, _, _, _ => by simp [runsS, runsB]
  | _ + 1, [], _, _, _ => by simp [runsS, runsB]
  | fuel + 1, (i, c) :: rest, pos, len, ⟨_, _, _, h4⟩ => by
    simp only at h4
    have e1 := runGoS_eq p (p c) rest _ len h4
    have e2 := (runGoB_chain p (p c) _ _ len h4).1
    rw [e1] at e2
    simp only [List.map_cons, triS, runsS, runsB, e1]
    rw [runsS_eq p fuel _ _ len e2]


/-! ### the eight tokenizers are lossless -/

theorem tokenizeLinesB_eq (b : Bytes) :
    tokenizeLinesB b = linesOf (charIndicesB b.length 0 b) b.length := rfl

theorem tokenizeLinesB_tiling (b : Bytes) : Tiling (tokenizeLinesB b) b.length :=
  linesOf_tiling (charIndicesB_chain b (Nat.le_refl _)).chain

theorem tokenizeWordsB_tiling (b : Bytes) : Tiling (tokenizeWordsB b) b.length :=
  runsB_tiling _ _ _ 0 _ (charIndicesB_chain b (Nat.le_refl _)).chain
    (charIndicesB_length_le _ _ _)

theorem tokenizeLinesAndNewlinesB_tiling (b : Bytes) : Tiling (tokenizeLinesAndNewlinesB b) b.length :=
  runsB_tiling _ _ _ 0 _ (charIndicesB_chain b (Nat.le_refl _)).chain
    (charIndicesB_length_le _ _ _)

theorem tokenizeCharsB_tiling (b : Bytes) : Tiling (tokenizeCharsB b) b.length :=
  chars_tiling _ 0 _ (charIndicesB_chain b (Nat.le_refl _)).chain

theorem charIndicesS_chain0 (s : List Char) :
    Chain 0 ((charIndicesS 0 s).map triS) (utf8EncAll s).length := by
  have := charIndicesS_chain s 0
  rwa [Nat.zero_add, ← utf8EncAll_length] at this

theorem tokenizeLinesS_tiling (s : List Char) : Tiling (tokenizeLinesS s) (utf8EncAll s).length := by
  rw [tokenizeLinesS_eq, ← utf8EncAll_length]
  exact linesOf_tiling (charIndicesS_chain0 s)

theorem tokenizeWordsS_eq (s : List Char) :
    tokenizeWordsS s = runsB isWhitespace s.length ((charIndicesS 0 s).map triS) :=
  runsS_eq _ _ _ 0 _ (charIndicesS_chain0 s)

theorem tokenizeLinesAndNewlinesS_eq (s : List Char) :
    tokenizeLinesAndNewlinesS s = runsB isNewline s.length ((charIndicesS 0 s).map triS) :=
  runsS_eq _ _ _ 0 _ (charIndicesS_chain0 s)

theorem tokenizeCharsS_eq (s : List Char) :
    tokenizeCharsS s = ((charIndicesS 0 s).map triS).map fun (s, e, _) => (s, e) := by
  simp only [tokenizeCharsS, List.map_map]
  rfl

theorem tokenizeWordsS_tiling (s : List Char) : Tiling (tokenizeWordsS s) (utf8EncAll s).length := by
  rw [tokenizeWordsS_eq]
  exact runsB_tiling _ _ _ 0 _ (charIndicesS_chain0 s) (by simp [charIndicesS_length])

theorem tokenizeLinesAndNewlinesS_tiling (s : List Char) :
    Tiling (tokenizeLinesAndNewlinesS s) (utf8EncAll s).length := by
  rw [tokenizeLinesAndNewlinesS_eq]
  exact runsB_tiling _ _ _ 0 _ (charIndicesS_chain0 s) (by simp [charIndicesS_length])

theorem tokenizeCharsS_tiling (s : List Char) : Tiling (tokenizeCharsS s) (utf8EncAll s).length := by
  rw [tokenizeCharsS_eq]
  exact chars_tiling _ 0 _ (charIndicesS_chain0 s)

/-- **C06, losslessness, `[u8]`**: for every byte string (valid UTF-8 or not) each tokenizer returns
non-empty tokens whose concatenation is the input -/
theorem lossless_B (b : Bytes) :
    ∀ rs ∈ [tokenizeLinesB b, tokenizeWordsB b, tokenizeCharsB b, tokenizeLinesAndNewlinesB b],
      (rs.map (slice b)).flatten = b ∧ ∀ r ∈ rs, slice b r ≠ [] := by
  intro rs hrs
  simp only [List.mem_cons, List.not_mem_nil, or_false] at hrs
  rcases hrs with rfl | rfl | rfl | rfl
  · exact tiling_concat (tokenizeLinesB_tiling b)
  · exact tiling_concat (tokenizeWordsB_tiling b)
  · exact tiling_concat (tokenizeCharsB_tiling b)
  · exact tiling_concat (tokenizeLinesAndNewlinesB_tiling b)

/-- **C06, losslessness, `str`** -/
theorem lossless_S (s : List Char) :
    ∀ rs ∈ [tokenizeLinesS s, tokenizeWordsS s, tokenizeCharsS s, tokenizeLinesAndNewlinesS s],
      (rs.map (slice (utf8EncAll s))).flatten = utf8EncAll s ∧ ∀ r ∈ rs, slice (utf8EncAll s) r ≠ [] := by
  intro rs hrs
  simp only [List.mem_cons, List.not_mem_nil, or_false] at hrs
  rcases hrs with rfl | rfl | rfl | rfl
  · exact tiling_concat (tokenizeLinesS_tiling s)
  · exact tiling_concat (tokenizeWordsS_tiling s)
  · exact tiling_concat (tokenizeCharsS_tiling s)
  · exact tiling_concat (tokenizeLinesAndNewlinesS_tiling s)

/-- **C06, losslessness, external segmenters** (`tokenize_unicode_words`, `tokenize_graphemes`) -/
theorem lossless_segmenter {lens : List Nat} {b : Bytes} (h : Partition lens b.length) :
    ((rangesOfLens 0 lens).map (slice b)).flatten = b ∧ ∀ r ∈ rangesOfLens 0 lens, slice b r ≠ [] :=
  tiling_concat (tiling_rangesOfLens h)

/-! ## (5) `str` = `[u8]` on valid UTF-8 -/

theorem mkChar_val (c : Char) : mkChar c.val.toNat = c := by
  unfold mkChar
  rw [dif_pos c.valid]
  apply Char.ext
  exact UInt32.ofNat_toNat

theorem decodeOne_1 (b0 : UInt8) (rest : Bytes) (h0 : b0.toNat < 0x80) :
    decodeOne (b0 :: rest) = (Char.ofNat b0.toNat, 1) := by
  have : b0 < 0x80 := by rw [UInt8.lt_iff_toNat_lt]; exact h0
  simp only [decodeOne, this, if_true]

theorem decodeOne_2 (b0 b1 : UInt8) (rest : Bytes) (h0 : 0xC2 ≤ b0.toNat) (h0' : b0.toNat < 0xE0)
    (h1 : 0x80 ≤ b1.toNat) (h1' : b1.toNat ≤ 0xBF) :
    decodeOne (b0 :: b1 :: rest) = (mkChar ((b0.toNat - 0xC0) * 64 + (b1.toNat - 0x80)), 2) := by
  have a1 : ¬ b0 < 0x80 := by rw [UInt8.lt_iff_toNat_lt]; show ¬ b0.toNat < 128; omega
  have a2 : ¬ b0 < 0xC2 := by rw [UInt8.lt_iff_toNat_lt]; show ¬ b0.toNat < 0xC2; omega
  have a3 : b0 < 0xE0 := by rw [UInt8.lt_iff_toNat_lt]; exact h0'
  have a4 : isCont b1 = true := by
    simp only [isCont, UInt8.le_iff_toNat_le, Bool.and_eq_true, decide_eq_true_eq]; exact ⟨h1, h1'⟩
  simp only [decodeOne, a1, a2, a3, a4, if_true, if_false]

theorem decodeOne_3 (b0 b1 b2 : UInt8) (rest : Bytes) (h0 : 0xE0 ≤ b0.toNat) (h0' : b0.toNat < 0xF0)
    (h1 : 0x80 ≤ b1.toNat) (h1' : b1.toNat ≤ 0xBF) (hlo : b0.toNat = 0xE0 → 0xA0 ≤ b1.toNat)
    (hhi : b0.toNat = 0xED → b1.toNat ≤ 0x9F)
    (h2 : 0x80 ≤ b2.toNat) (h2' : b2.toNat ≤ 0xBF) :
    decodeOne (b0 :: b1 :: b2 :: rest) =
      (mkChar ((b0.toNat - 0xE0) * 4096 + (b1.toNat - 0x80) * 64 + (b2.toNat - 0x80)), 3) := by
  have a1 : ¬ b0 < 0x80 := by rw [UInt8.lt_iff_toNat_lt]; show ¬ b0.toNat < 128; omega
  have a2 : ¬ b0 < 0xC2 := by rw [UInt8.lt_iff_toNat_lt]; show ¬ b0.toNat < 0xC2; omega
  have a3 : ¬ b0 < 0xE0 := by rw [UInt8.lt_iff_toNat_lt]; show ¬ b0.toNat < 0xE0; omega
  have a4 : b0 < 0xF0 := by rw [UInt8.lt_iff_toNat_lt]; exact h0'
  have a5 : isCont b2 = true := by
    simp only [isCont, UInt8.le_iff_toNat_le, Bool.and_eq_true, decide_eq_true_eq]; exact ⟨h2, h2'⟩
  have a6 : ((if b0 == 0xE0 then (0xA0 : UInt8) else 0x80) ≤ b1 && b1 ≤ (if b0 == 0xED then (0x9F : UInt8) else 0xBF)) = true := by
    simp only [Bool.and_eq_true, decide_eq_true_eq, UInt8.le_iff_toNat_le]
    constructor
    · split
      · rename_i h; simp only [beq_iff_eq, ← UInt8.toNat_inj] at h; exact hlo h
      · exact h1
    · split
      · rename_i h; simp only [beq_iff_eq, ← UInt8.toNat_inj] at h; exact hhi h
      · exact h1'
  simp only [decodeOne, a1, a2, a3, a4, a5, a6, if_true, if_false]

theorem decodeOne_4 (b0 b1 b2 b3 : UInt8) (rest : Bytes) (h0 : 0xF0 ≤ b0.toNat) (h0' : b0.toNat < 0xF5)
    (h1 : 0x80 ≤ b1.toNat) (h1' : b1.toNat ≤ 0xBF) (hlo : b0.toNat = 0xF0 → 0x90 ≤ b1.toNat)
    (hhi : b0.toNat = 0xF4 → b1.toNat ≤ 0x8F)
    (h2 : 0x80 ≤ b2.toNat) (h2' : b2.toNat ≤ 0xBF) (h3 : 0x80 ≤ b3.toNat) (h3' : b3.toNat ≤ 0xBF) :
    decodeOne (b0 :: b1 :: b2 :: b3 :: rest) =
      (mkChar ((b0.toNat - 0xF0) * 262144 + (b1.toNat - 0x80) * 4096 + (b2.toNat - 0x80) * 64 + (b3.toNat - 0x80)), 4) := by
  have a1 : ¬ b0 < 0x80 := by rw [UInt8.lt_iff_toNat_lt]; show ¬ b0.toNat < 128; omega
  have a2 : ¬ b0 < 0xC2 := by rw [UInt8.lt_iff_toNat_lt]; show ¬ b0.toNat < 0xC2; omega
  have a3 : ¬ b0 < 0xE0 := by rw [UInt8.lt_iff_toNat_lt]; show ¬ b0.toNat < 0xE0; omega
  have a4 : ¬ b0 < 0xF0 := by rw [UInt8.lt_iff_toNat_lt]; show ¬ b0.toNat < 0xF0; omega
  have a4' : b0 < 0xF5 := by rw [UInt8.lt_iff_toNat_lt]; exact h0'
  have a5 : isCont b2 = true := by
    simp only [isCont, UInt8.le_iff_toNat_le, Bool.and_eq_true, decide_eq_true_eq]; exact ⟨h2, h2'⟩
  have a7 : isCont b3 = true := by
    simp only [isCont, UInt8.le_iff_toNat_le, Bool.and_eq_true, decide_eq_true_eq]; exact ⟨h3, h3'⟩
  have a6 : ((if b0 == 0xF0 then (0x90 : UInt8) else 0x80) ≤ b1 && b1 ≤ (if b0 == 0xF4 then (0x8F : UInt8) else 0xBF)) = true := by
    simp only [Bool.and_eq_true, decide_eq_true_eq, UInt8.le_iff_toNat_le]
    constructor
    · split
      · rename_i h; simp only [beq_iff_eq, ← UInt8.toNat_inj] at h; exact hlo h
      · exact h1
    · split
      · rename_i h; simp only [beq_iff_eq, ← UInt8.toNat_inj] at h; exact hhi h
      · exact h1'
  simp only [decodeOne, a1, a2, a3, a4, a4', a5, a6, a7, if_true, if_false]

theorem toUInt8_toNat (n : Nat) (h : n < 256) : n.toUInt8.toNat = n := by
  simp [Nat.toUInt8, Nat.mod_eq_of_lt h]

theorem decodeOne_utf8Enc (c : Char) (rest : Bytes) :
    decodeOne (utf8Enc c ++ rest) = (c, utf8Len c) := by
  have hm := mkChar_val c
  have ho : Char.ofNat c.val.toNat = c := Char.ofNat_toNat c
  have hv : c.val.toNat < 0xd800 ∨ 0xdfff < c.val.toNat ∧ c.val.toNat < 0x110000 := c.valid
  unfold utf8Enc utf8Len
  simp only [UInt32.lt_iff_toNat_lt, UInt32.toNat_ofNat, Nat.reducePow, Nat.reduceMod]
  generalize c.val.toNat = v at hm ho hv
  split
  · simp only [List.cons_append, List.nil_append]
    rw [decodeOne_1 _ _ (by rw [toUInt8_toNat _ (by omega)]; omega), toUInt8_toNat _ (by omega), ho]
  split
  · simp only [List.cons_append, List.nil_append]
    rw [decodeOne_2 _ _ _ (by rw [toUInt8_toNat _ (by omega)]; omega) (by rw [toUInt8_toNat _ (by omega)]; omega)
      (by rw [toUInt8_toNat _ (by omega)]; omega) (by rw [toUInt8_toNat _ (by omega)]; omega)]
    rw [toUInt8_toNat _ (by omega), toUInt8_toNat _ (by omega)]
    have : (192 + v / 64 - 192) * 64 + (128 + v % 64 - 128) = v := by omega
    rw [this, hm]
  split
  · simp only [List.cons_append, List.nil_append]
    have e0 : (224 + v / 4096).toUInt8.toNat = 224 + v / 4096 := toUInt8_toNat _ (by omega)
    have e1 : (128 + v / 64 % 64).toUInt8.toNat = 128 + v / 64 % 64 := toUInt8_toNat _ (by omega)
    have e2 : (128 + v % 64).toUInt8.toNat = 128 + v % 64 := toUInt8_toNat _ (by omega)
    rw [decodeOne_3 _ _ _ _ (by omega) (by omega) (by omega) (by omega) (by omega) (by omega) (by omega) (by omega)]
    rw [e0, e1, e2]
    have : (224 + v / 4096 - 224) * 4096 + (128 + v / 64 % 64 - 128) * 64 + (128 + v % 64 - 128) = v := by omega
    rw [this, hm]
  · simp only [List.cons_append, List.nil_append]
    have e0 : (240 + v / 262144).toUInt8.toNat = 240 + v / 262144 := toUInt8_toNat _ (by omega)
    have e1 : (128 + v / 4096 % 64).toUInt8.toNat = 128 + v / 4096 % 64 := toUInt8_toNat _ (by omega)
    have e2 : (128 + v / 64 % 64).toUInt8.toNat = 128 + v / 64 % 64 := toUInt8_toNat _ (by omega)
    have e3 : (128 + v % 64).toUInt8.toNat = 128 + v % 64 := toUInt8_toNat _ (by omega)
    rw [decodeOne_4 _ _ _ _ _ (by omega) (by omega) (by omega) (by omega) (by omega) (by omega) (by omega) (by omega) (by omega) (by omega)]
    rw [e0, e1, e2, e3]
    have : (240 + v / 262144 - 240) * 262144 + (128 + v / 4096 % 64 - 128) * 4096 + (128 + v / 64 % 64 - 128) * 64 + (128 + v % 64 - 128) = v := by omega
    rw [this, hm]


theorem charIndicesB_succ (fuel pos : Nat) (bs : Bytes) (h : bs ≠ []) :
    charIndicesB (fuel + 1) pos bs =
      (pos, pos + (if (decodeOne bs).2 == 0 then 1 else (decodeOne bs).2), (decodeOne bs).1) ::
        charIndicesB fuel (pos + (if (decodeOne bs).2 == 0 then 1 else (decodeOne bs).2))
          (bs.drop (if (decodeOne bs).2 == 0 then 1 else (decodeOne bs).2)) := by
  cases bs with
  | nil => exact absurd rfl h
  | cons b0 rest => simp only [charIndicesB]

/-- on the UTF-8 encoding of a string, bstr's `char_indices` is `str::char_indices` (with ends) -/
theorem charIndicesB_utf8EncAll : ∀ (s : List Char) (fuel pos : Nat), (utf8EncAll s).length ≤ fuel →
    charIndicesB fuel pos (utf8EncAll s) = (charIndicesS pos s).map triS
  | [], fuel, pos, _ => by cases fuel <;> rfl
  | c :: cs, fuel, pos, hf => by
    have hl := utf8Enc_length c
    have hp := utf8Len_pos c
    have henc : utf8EncAll (c :: cs) = utf8Enc c ++ utf8EncAll cs := by simp [utf8EncAll]
    have hf' : (utf8Enc c).length + (utf8EncAll cs).length ≤ fuel := by
      rw [henc, List.length_append] at hf; exact hf
    rw [henc]
    have hne : utf8Enc c ++ utf8EncAll cs ≠ [] := by
      intro h0; have := congrArg List.length h0
      simp only [List.length_append, List.length_nil] at this; omega
    cases fuel with
    | zero => omega
    | succ fuel =>
      rw [charIndicesB_succ _ _ _ hne, decodeOne_utf8Enc]
      have hk : (if (utf8Len c == 0) = true then 1 else utf8Len c) = utf8Len c := by
        split
        · rename_i h0; simp at h0; omega
        · rfl
      simp only [hk, List.drop_left' hl, charIndicesS, List.map_cons, triS]
      rw [charIndicesB_utf8EncAll cs fuel _ (by omega)]

/-- the same, with the triple written out -/
theorem charIndicesB_utf8EncAll' (s : List Char) (n : Nat) (h : (utf8EncAll s).length ≤ n) :
    charIndicesB n 0 (utf8EncAll s) = (charIndicesS 0 s).map (fun (i, c) => (i, i + utf8Len c, c)) :=
  charIndicesB_utf8EncAll s n 0 h

theorem tokenizeLinesB_utf8 (s : List Char) : tokenizeLinesB (utf8EncAll s) = tokenizeLinesS s := by
  rw [tokenizeLinesB_eq, tokenizeLinesS_eq, charIndicesB_utf8EncAll s _ 0 (Nat.le_refl _), utf8EncAll_length]

theorem tokenizeCharsB_utf8 (s : List Char) : tokenizeCharsB (utf8EncAll s) = tokenizeCharsS s := by
  rw [tokenizeCharsS_eq, tokenizeCharsB, charIndicesB_utf8EncAll s _ 0 (Nat.le_refl _)]

theorem length_le_utf8EncAll (s : List Char) : s.length ≤ (utf8EncAll s).length := by
  rw [utf8EncAll_length]
  induction s with
  | nil => simp
  | cons c cs ih => have := utf8Len_pos c; simp only [List.length_cons, List.map_cons, List.sum_cons]; omega

theorem tokenizeWordsB_utf8 (s : List Char) : tokenizeWordsB (utf8EncAll s) = tokenizeWordsS s := by
  rw [tokenizeWordsS_eq, tokenizeWordsB, charIndicesB_utf8EncAll s _ 0 (Nat.le_refl _)]
  exact runsB_fuel _ _ _ _ (by simpa [charIndicesS_length] using length_le_utf8EncAll s)
    (by simp [charIndicesS_length])

theorem tokenizeLinesAndNewlinesB_utf8 (s : List Char) :
    tokenizeLinesAndNewlinesB (utf8EncAll s) = tokenizeLinesAndNewlinesS s := by
  rw [tokenizeLinesAndNewlinesS_eq, tokenizeLinesAndNewlinesB, charIndicesB_utf8EncAll s _ 0 (Nat.le_refl _)]
  exact runsB_fuel _ _ _ _ (by simpa [charIndicesS_length] using length_le_utf8EncAll s)
    (by simp [charIndicesS_length])

/-- **C06, `str` = `[u8]`**: on valid UTF-8 the `str` and byte implementations of the line, word, char
and lines-and-newlines tokenizers return identical tokens -/
theorem str_eq_bytes (s : List Char) :
    tokenizeLinesB (utf8EncAll s) = tokenizeLinesS s ∧ tokenizeWordsB (utf8EncAll s) = tokenizeWordsS s ∧
    tokenizeCharsB (utf8EncAll s) = tokenizeCharsS s ∧
    tokenizeLinesAndNewlinesB (utf8EncAll s) = tokenizeLinesAndNewlinesS s :=
  ⟨tokenizeLinesB_utf8 s, tokenizeWordsB_utf8 s, tokenizeCharsB_utf8 s, tokenizeLinesAndNewlinesB_utf8 s⟩

/-! ## (4) shape -/

/-! ### words, lines-and-newlines: maximal runs -/

/-- `gs` cuts a `char_indices` list into maximal runs of constant class `p`: groups are non-empty,
all chars of a group have the same class, chars of adjacent groups have different classes -/
def MaxRuns (p : Char → Bool) : List (List Tri) → Prop
  | [] => True
  | g :: gs => g ≠ [] ∧ (∀ x ∈ g, ∀ y ∈ g, p x.2.2 = p y.2.2) ∧
      (∀ g' ∈ gs.head?, ∀ x ∈ g, ∀ y ∈ g', p x.2.2 ≠ p y.2.2) ∧ MaxRuns p gs

/-- byte range covered by a group of consecutive `char_indices` items: start of the first, end of the last -/
def spanOf (g : List Tri) : Nat × Nat := ((g.head?.map (·.1)).getD 0, (g.getLast?.map (·.2.1)).getD 0)

theorem runGoB_spec (p : Char → Bool) (cls : Bool) : ∀ (l : List Tri) (e : Nat),
    ∃ g, l = g ++ (runGoB p cls l e).2 ∧ (∀ x ∈ g, p x.2.2 = cls) ∧
      (∀ y ∈ (runGoB p cls l e).2.head?, p y.2.2 ≠ cls) ∧
      (runGoB p cls l e).1 = (g.getLast?.map (·.2.1)).getD e
  | [], e => ⟨[], by simp [runGoB]⟩
  | (s, e', c) :: rest, e => by
    simp only [runGoB]
    split
    · rename_i h
      refine ⟨[], by simp, by simp, ?_, by simp⟩
      intro y hy
      simp only [List.head?_cons, Option.mem_def, Option.some.injEq] at hy
      subst hy
      simpa using h
    · rename_i h
      obtain ⟨g, h1, h2, h3, h4⟩ := runGoB_spec p cls rest e'
      refine ⟨(s, e', c) :: g, ?_, ?_, h3, ?_⟩
      · rw [List.cons_append, ← h1]
      · intro x hx
        rcases List.mem_cons.1 hx with rfl | hx
        · simpa using h
        · exact h2 x hx
      · rw [h4]
        cases g with
        | nil => simp
        | cons a g =>
          cases hl : (a :: g).getLast? with
          | none => simp at hl
          | some z => rw [List.getLast?_cons_cons, hl]; rfl

theorem runsB_shape (p : Char → Bool) : ∀ (fuel : Nat) (l : List Tri), l.length ≤ fuel →
    ∃ gs, gs.flatten = l ∧ MaxRuns p gs ∧ runsB p fuel l = gs.map spanOf
  | fuel, [], _ => ⟨[], rfl, trivial, by cases fuel <;> rfl⟩
  | 0, _ :: _, h => by simp at h
  | fuel + 1, (s, e, c) :: rest, hf => by
    obtain ⟨g, h1, h2, h3, h4⟩ := runGoB_spec p (p c) rest e
    have hlen := runGoB_length p (p c) rest e
    simp only [List.length_cons] at hf
    obtain ⟨gs, k1, k2, k3⟩ := runsB_shape p fuel (runGoB p (p c) rest e).2 (by omega)
    refine ⟨((s, e, c) :: g) :: gs, ?_, ⟨by simp, ?_, ?_, k2⟩, ?_⟩
    · rw [List.flatten_cons, k1, List.cons_append, ← h1]
    · have : ∀ x ∈ (s, e, c) :: g, p x.2.2 = p c := by
        intro x hx
        rcases List.mem_cons.1 hx with rfl | hx
        · rfl
        · exact h2 x hx
      intro x hx y hy
      rw [this x hx, this y hy]
    · intro g' hg' x hx y hy
      have hx' : p x.2.2 = p c := by
        rcases List.mem_cons.1 hx with rfl | hx
        · rfl
        · exact h2 x hx
      cases gs with
      | nil => simp at hg'
      | cons g0 gs' =>
        simp only [List.head?_cons, Option.mem_def, Option.some.injEq] at hg'
        subst hg'
        obtain ⟨n1, n2, _, _⟩ := k2
        cases g0 with
        | nil => exact absurd rfl n1
        | cons z g0' =>
          rw [hx', n2 y hy z (List.mem_cons_self ..)]
          exact Ne.symm (h3 z (by rw [← k1]; simp))
    · simp only [runsB, List.map_cons, k3, spanOf, List.head?_cons, Option.map_some, Option.getD_some]
      congr 2
      rw [h4]
      cases g with
      | nil => simp
      | cons a g =>
        cases hl : (a :: g).getLast? with
        | none => simp at hl
        | some z => rw [List.getLast?_cons_cons, hl]; rfl


/-- **C06, shape of word tokens, `[u8]`**: the tokens are the spans of the maximal runs of
all-whitespace / all-non-whitespace chars of bstr's `char_indices()` -/
theorem tokenizeWordsB_shape (b : Bytes) : ∃ gs, gs.flatten = charIndicesB b.length 0 b ∧
    MaxRuns isWhitespace gs ∧ tokenizeWordsB b = gs.map spanOf :=
  runsB_shape _ _ _ (charIndicesB_length_le _ _ _)

/-- **C06, shape of lines-and-newlines tokens, `[u8]`**: alternating maximal newline / non-newline runs -/
theorem tokenizeLinesAndNewlinesB_shape (b : Bytes) : ∃ gs, gs.flatten = charIndicesB b.length 0 b ∧
    MaxRuns isNewline gs ∧ tokenizeLinesAndNewlinesB b = gs.map spanOf :=
  runsB_shape _ _ _ (charIndicesB_length_le _ _ _)

/-- **C06, shape of word tokens, `str`** (`triS (i, c) = (i, i + c.len_utf8(), c)`) -/
theorem tokenizeWordsS_shape (s : List Char) : ∃ gs, gs.flatten = (charIndicesS 0 s).map triS ∧
    MaxRuns isWhitespace gs ∧ tokenizeWordsS s = gs.map spanOf := by
  rw [tokenizeWordsS_eq]
  exact runsB_shape _ _ _ (by simp [charIndicesS_length])

/-- **C06, shape of lines-and-newlines tokens, `str`** -/
theorem tokenizeLinesAndNewlinesS_shape (s : List Char) : ∃ gs, gs.flatten = (charIndicesS 0 s).map triS ∧
    MaxRuns isNewline gs ∧ tokenizeLinesAndNewlinesS s = gs.map spanOf := by
  rw [tokenizeLinesAndNewlinesS_eq]
  exact runsB_shape _ _ _ (by simp [charIndicesS_length])

/-! ### lines -/

/-- no byte of `b` at an index in `[i, j)` is a line break -/
def NoNL (b : Bytes) (i j : Nat) : Prop := ∀ k x, i ≤ k → k < j → b[k]? = some x → x ≠ 10 ∧ x ≠ 13

theorem NoNL.append {b : Bytes} {i j k : Nat} (h1 : NoNL b i j) (h2 : NoNL b j k) : NoNL b i k := by
  intro n x hn1 hn2 hx
  by_cases h : n < j
  · exact h1 n x hn1 h hx
  · exact h2 n x (by omega) hn2 hx

theorem NoNL.nil (b : Bytes) (i : Nat) : NoNL b i i := by
  intro n x h1 h2; omega

/-- `(s, e)` is a terminated line of `b`: a break-free body `[s, t)` followed by the terminator
`[t, e)`, which is `"\n"`, `"\r\n"` or a lone `"\r"` (the byte after it, if any, is not `"\n"`) -/
def Terminated (b : Bytes) (r : Nat × Nat) : Prop :=
  ∃ t, r.1 ≤ t ∧ NoNL b r.1 t ∧
    ((r.2 = t + 1 ∧ b[t]? = some 10) ∨ (r.2 = t + 2 ∧ b[t]? = some 13 ∧ b[t + 1]? = some 10) ∨
     (r.2 = t + 1 ∧ b[t]? = some 13 ∧ b[t + 1]? ≠ some 10))

theorem toNat_ofNat_lt {n : Nat} (h : n < 0xd800) : (Char.ofNat n).toNat = n := by
  unfold Char.ofNat
  rw [dif_pos (Or.inl h)]
  rfl

theorem dec_cases {b : Bytes} {s e : Nat} {c : Char} (h2 : s < e) (h3 : e ≤ b.length)
    (h4 : decodeOne (b.drop s) = (c, e - s)) :
    (c = '\n' ∧ e = s + 1 ∧ b[s]? = some 10) ∨ (c = '\r' ∧ e = s + 1 ∧ b[s]? = some 13) ∨
    (c ≠ '\r' ∧ c ≠ '\n' ∧ NoNL b s e) := by
  cases hd : b.drop s with
  | nil => have := congrArg List.length hd; simp at this; omega
  | cons b0 rest =>
    have hb0 : b[s]? = some b0 := by
      have := List.getElem?_drop (xs := b) (i := s) (j := 0)
      rw [hd] at this
      simpa using this.symm
    rw [hd] at h4
    have hsp := decodeOne_spec b0 rest
    rw [h4] at hsp
    obtain ⟨_, _, _, ⟨k1, k2, k3⟩ | ⟨k1, k2⟩⟩ := hsp
    · simp only at k1 k3
      have he : e = s + 1 := by omega
      by_cases h10 : b0 = 10
      · subst h10; left; exact ⟨k3, he, hb0⟩
      by_cases h13 : b0 = 13
      · subst h13; right; left; exact ⟨k3, he, hb0⟩
      right; right
      have hn : c.toNat = b0.toNat := by rw [k3]; exact toNat_ofNat_lt (by omega)
      have n10 : b0.toNat ≠ 10 := fun h => h10 (UInt8.toNat_inj.1 h)
      have n13 : b0.toNat ≠ 13 := fun h => h13 (UInt8.toNat_inj.1 h)
      refine ⟨?_, ?_, ?_⟩
      · rintro rfl; exact n13 hn.symm
      · rintro rfl; exact n10 hn.symm
      · intro k x hk1 hk2 hx
        have : k = s := by omega
        subst this
        rw [hb0] at hx
        cases hx
        exact ⟨h10, h13⟩
    · simp only at k1 k2
      right; right
      refine ⟨?_, ?_, ?_⟩
      · rintro rfl; revert k1; decide
      · rintro rfl; revert k1; decide
      · intro k x hk1 hk2 hx
        have hmem : x ∈ (b0 :: rest).take (e - s) := by
          rw [← hd]
          apply List.mem_of_getElem? (i := k - s)
          rw [List.getElem?_take_of_lt (by omega), List.getElem?_drop]
          rw [← hx]; congr 1; omega
        have := k2 x hmem
        constructor
        · rintro rfl; revert this; decide
        · rintro rfl; revert this; decide

theorem nl_ne_cr : ('\n' : Char) ≠ '\r' := by decide

theorem linesGoB_shape (b : Bytes) : ∀ (l : List Tri) (lastPos pos : Nat), DecChain b pos l →
    lastPos ≤ pos → NoNL b lastPos pos →
    (∀ r ∈ (linesGoB l lastPos).1, Terminated b r) ∧ NoNL b (linesGoB l lastPos).2 b.length
  | [], lastPos, pos, h, hl, hn => by
    simp only [DecChain] at h
    subst h
    simp only [linesGoB]
    exact ⟨by simp, hn⟩
  | [(s, e, c)], lastPos, pos, ⟨h1, h2, h3, h4, h5⟩, hl, hn => by
    simp only [DecChain] at h5
    subst h1 h5
    have hd := dec_cases h2 h3 h4
    simp only [linesGoB]
    split
    · rename_i hc
      simp only [Bool.or_eq_true, beq_iff_eq] at hc
      refine ⟨?_, NoNL.nil _ _⟩
      intro r hr
      simp only [List.mem_singleton] at hr
      subst hr
      refine ⟨s, hl, hn, ?_⟩
      rcases hd with ⟨d1, d2, d3⟩ | ⟨d1, d2, d3⟩ | ⟨d1, d2, d3⟩
      · exact Or.inl ⟨d2, d3⟩
      · refine Or.inr (Or.inr ⟨d2, d3, ?_⟩)
        rw [List.getElem?_eq_none (by omega)]; simp
      · rcases hc with hc | hc
        · exact absurd hc d1
        · exact absurd hc d2
    · rename_i hc
      simp only [Bool.or_eq_true, beq_iff_eq, not_or] at hc
      refine ⟨by simp, hn.append ?_⟩
      rcases hd with ⟨d1, d2, d3⟩ | ⟨d1, d2, d3⟩ | ⟨d1, d2, d3⟩
      · exact absurd d1 hc.2
      · exact absurd d1 hc.1
      · exact d3
  | (s, e, c) :: (s2, e2, c2) :: rest, lastPos, pos, ⟨h1, h2, h3, h4, h5⟩, hl, hn => by
    obtain ⟨g1, g2, g3, g4, g5⟩ := h5
    have g1' : e = s2 := g1.symm
    subst h1 g1'
    have hd := dec_cases h2 h3 h4
    have hd2 := dec_cases g2 g3 g4
    simp only [linesGoB]
    split
    · rename_i hc
      simp only [beq_iff_eq] at hc
      subst hc
      have ⟨d2, d3⟩ : e = s + 1 ∧ b[s]? = some 13 := by
        rcases hd with ⟨d1, d2, d3⟩ | ⟨d1, d2, d3⟩ | ⟨d1, d2, d3⟩
        · exact absurd d1.symm nl_ne_cr
        · exact ⟨d2, d3⟩
        · exact absurd rfl d1
      split
      · rename_i hc2
        simp only [beq_iff_eq] at hc2
        subst hc2
        have ⟨f2, f3⟩ : e2 = e + 1 ∧ b[e]? = some 10 := by
          rcases hd2 with ⟨f1, f2, f3⟩ | ⟨f1, f2, f3⟩ | ⟨f1, f2, f3⟩
          · exact ⟨f2, f3⟩
          · exact absurd f1 nl_ne_cr
          · exact absurd rfl f2
        subst f2
        have ih := linesGoB_shape b rest (e + 1) (e + 1) g5 (Nat.le_refl _) (NoNL.nil _ _)
        refine ⟨?_, ih.2⟩
        intro r hr
        rcases List.mem_cons.1 hr with rfl | hr
        · exact ⟨s, hl, hn, Or.inr (Or.inl ⟨by omega, d3, by rw [← d2]; exact f3⟩)⟩
        · exact ih.1 r hr
      · rename_i hc2
        simp only [beq_iff_eq] at hc2
        have ih := linesGoB_shape b ((e, e2, c2) :: rest) e e ⟨rfl, g2, g3, g4, g5⟩ (Nat.le_refl _) (NoNL.nil _ _)
        refine ⟨?_, ih.2⟩
        intro r hr
        rcases List.mem_cons.1 hr with rfl | hr
        · refine ⟨s, hl, hn, Or.inr (Or.inr ⟨d2, d3, ?_⟩)⟩
          rw [← d2]
          rcases hd2 with ⟨f1, f2, f3⟩ | ⟨f1, f2, f3⟩ | ⟨f1, f2, f3⟩
          · exact absurd f1 hc2
          · rw [f3]; decide
          · intro h10
            exact (f3 e 10 (Nat.le_refl _) g2 h10).1 rfl
        · exact ih.1 r hr
    · rename_i hcr
      simp only [beq_iff_eq] at hcr
      split
      · rename_i hc
        simp only [beq_iff_eq] at hc
        subst hc
        have ⟨d2, d3⟩ : e = s + 1 ∧ b[s]? = some 10 := by
          rcases hd with ⟨d1, d2, d3⟩ | ⟨d1, d2, d3⟩ | ⟨d1, d2, d3⟩
          · exact ⟨d2, d3⟩
          · exact absurd d1 hcr
          · exact absurd rfl d2
        have ih := linesGoB_shape b ((e, e2, c2) :: rest) e e ⟨rfl, g2, g3, g4, g5⟩ (Nat.le_refl _) (NoNL.nil _ _)
        refine ⟨?_, ih.2⟩
        intro r hr
        rcases List.mem_cons.1 hr with rfl | hr
        · exact ⟨s, hl, hn, Or.inl ⟨d2, d3⟩⟩
        · exact ih.1 r hr
      · rename_i hc
        simp only [beq_iff_eq] at hc
        have d3 : NoNL b s e := by
          rcases hd with ⟨d1, d2, d3⟩ | ⟨d1, d2, d3⟩ | ⟨d1, d2, d3⟩
          · exact absurd d1 hc
          · exact absurd d1 hcr
          · exact d3
        exact linesGoB_shape b ((e, e2, c2) :: rest) lastPos e ⟨rfl, g2, g3, g4, g5⟩ (by omega) (hn.append d3)

/-- **C06, shape of line tokens (byte ranges)**: every line is terminated (`"\n"`, `"\r\n"`, or a `"\r"`
not followed by `"\n"`, and no other line break inside), except possibly the last one, which then contains
no line break at all -/
theorem tokenizeLinesB_shape (b : Bytes) (i : Nat) (h : i < (tokenizeLinesB b).length) :
    Terminated b (tokenizeLinesB b)[i] ∨
    (i + 1 = (tokenizeLinesB b).length ∧ NoNL b (tokenizeLinesB b)[i].1 (tokenizeLinesB b)[i].2) := by
  obtain ⟨h1, h2⟩ := linesGoB_shape b _ 0 0 (charIndicesB_chain b (Nat.le_refl _)) (Nat.le_refl _) (NoNL.nil _ _)
  revert h
  rw [tokenizeLinesB_eq]
  unfold linesOf
  simp only []
  split
  · intro h
    rw [List.length_append, List.length_singleton] at h
    by_cases hi : i < (linesGoB (charIndicesB b.length 0 b) 0).1.length
    · left
      rw [List.getElem_append_left hi]
      exact h1 _ (List.getElem_mem _)
    · right
      have : i = (linesGoB (charIndicesB b.length 0 b) 0).1.length := by omega
      subst this
      simp only [List.length_append, List.length_singleton, List.getElem_concat_length, true_and]
      exact h2
  · intro h
    left
    exact h1 _ (List.getElem_mem _)

/-! token-level reading -/

/-- a line token followed by `next`: break-free body and a terminator; a lone `"\r"` terminator only
if the next token does not start with `"\n"`; no terminator only if there is no next token -/
def LineTok (tok : Bytes) (next : Option Bytes) : Prop :=
  ∃ body term, tok = body ++ term ∧ (∀ x ∈ body, x ≠ 10 ∧ x ≠ 13) ∧
    (term = [10] ∨ term = [13, 10] ∨ (term = [13] ∧ ∀ n ∈ next, n.head? ≠ some 10) ∨
     (term = [] ∧ next = none))

theorem slice_split (b : Bytes) {s t e : Nat} (h1 : s ≤ t) (h2 : t ≤ e) :
    slice b (s, e) = slice b (s, t) ++ slice b (t, e) := by
  simp only [slice]
  have e1 : e - s = (t - s) + (e - t) := by omega
  have e2 : b.drop t = (b.drop s).drop (t - s) := by rw [List.drop_drop]; congr 1; omega
  rw [e1, List.take_add, e2]

theorem slice_getElem? (b : Bytes) (s e k : Nat) :
    (slice b (s, e))[k]? = if k < e - s then b[s + k]? else none := by
  simp only [slice, List.getElem?_take, List.getElem?_drop]

theorem slice_noNL {b : Bytes} {s t : Nat} (h : NoNL b s t) : ∀ x ∈ slice b (s, t), x ≠ 10 ∧ x ≠ 13 := by
  intro x hx
  obtain ⟨k, hk⟩ := List.getElem?_of_mem hx
  rw [slice_getElem?] at hk
  split at hk
  · exact h (s + k) x (by omega) (by omega) hk
  · cases hk

theorem slice_one {b : Bytes} {t : Nat} {x : UInt8} (h : b[t]? = some x) : slice b (t, t + 1) = [x] := by
  apply List.ext_getElem?
  intro k
  rw [slice_getElem?]
  cases k with
  | zero => simpa using h
  | succ k => simp

theorem slice_two {b : Bytes} {t : Nat} {x y : UInt8} (h : b[t]? = some x) (h' : b[t + 1]? = some y) :
    slice b (t, t + 2) = [x, y] := by
  rw [slice_split b (Nat.le_succ t) (by omega), slice_one h, slice_one h']
  rfl

theorem slice_head? {b : Bytes} {s e : Nat} (h : s < e) : (slice b (s, e)).head? = b[s]? := by
  rw [List.head?_eq_getElem?, slice_getElem?, if_pos (by omega)]; rfl

theorem TilingFrom.bound : ∀ {rs : List (Nat × Nat)} {pos len : Nat}, TilingFrom pos rs len →
    ∀ r ∈ rs, r.2 ≤ len
  | [], _, _, _ => by simp
  | (_, _) :: _, _, _, ⟨_, _, h3⟩ => by
    intro r hr
    rcases List.mem_cons.1 hr with rfl | hr
    · exact TilingFrom.le h3
    · exact TilingFrom.bound h3 r hr

/-- **C06, shape of line tokens**: every line token consists of a body without line breaks and one
terminator `"\n"`, `"\r\n"` or `"\r"` at its end — a lone `"\r"` only when the next token does not
start with `"\n"`; only the last token may lack the terminator -/
theorem tokenizeLinesB_tokens (b : Bytes) (i : Nat) (h : i < ((tokenizeLinesB b).map (slice b)).length) :
    LineTok ((tokenizeLinesB b).map (slice b))[i] ((tokenizeLinesB b).map (slice b))[i + 1]? := by
  have ht := tokenizeLinesB_tiling b
  obtain ⟨t1, t2, _, _⟩ := (tiling_iff _ _).1 ht
  have hb := TilingFrom.bound ht
  simp only [List.length_map] at h
  have hs := tokenizeLinesB_shape b i h
  generalize tokenizeLinesB b = rs at *
  simp only [List.getElem_map, List.getElem?_map]
  have hnext : b[rs[i].2]? ≠ some 10 → ∀ n ∈ Option.map (slice b) rs[i + 1]?, n.head? ≠ some 10 := by
    intro h10 n hn
    by_cases hi : i + 1 < rs.length
    · rw [List.getElem?_eq_getElem hi] at hn
      simp only [Option.map_some, Option.mem_def, Option.some.injEq] at hn
      subst hn
      have := t1 _ (List.getElem_mem hi)
      rw [show rs[i+1] = (rs[i+1].1, rs[i+1].2) from rfl, slice_head? this, t2 i hi]
      exact h10
    · rw [List.getElem?_eq_none (by omega)] at hn
      simp at hn
  rcases hri : rs[i] with ⟨s, e⟩
  rw [hri] at hs hnext
  rcases hs with ⟨t, k1, k2, k3⟩ | ⟨k1, k2⟩
  · simp only at k1 k2 k3
    rcases k3 with ⟨rfl, k4⟩ | ⟨rfl, k4, k5⟩ | ⟨rfl, k4, k5⟩
    · exact ⟨slice b (s, t), [10], by rw [slice_split b k1 (Nat.le_succ t), slice_one k4],
        slice_noNL k2, Or.inl rfl⟩
    · exact ⟨slice b (s, t), [13, 10], by rw [slice_split b k1 (by omega : t ≤ t + 2), slice_two k4 k5],
        slice_noNL k2, Or.inr (Or.inl rfl)⟩
    · exact ⟨slice b (s, t), [13], by rw [slice_split b k1 (Nat.le_succ t), slice_one k4],
        slice_noNL k2, Or.inr (Or.inr (Or.inl ⟨rfl, hnext k5⟩))⟩
  · refine ⟨slice b (s, e), [], by simp, slice_noNL k2, Or.inr (Or.inr (Or.inr ⟨rfl, ?_⟩))⟩
    rw [List.getElem?_eq_none (by omega)]; rfl


/-- **C06, shape of line tokens, `str`** (byte ranges) -/
theorem tokenizeLinesS_shape (s : List Char) : ∀ (i : Nat) (h : i < (tokenizeLinesS s).length),
    Terminated (utf8EncAll s) (tokenizeLinesS s)[i] ∨
    (i + 1 = (tokenizeLinesS s).length ∧
      NoNL (utf8EncAll s) (tokenizeLinesS s)[i].1 (tokenizeLinesS s)[i].2) := by
  rw [← tokenizeLinesB_utf8]
  exact tokenizeLinesB_shape _

/-- **C06, shape of line tokens, `str`** -/
theorem tokenizeLinesS_tokens (s : List Char) :
    ∀ (i : Nat) (h : i < ((tokenizeLinesS s).map (slice (utf8EncAll s))).length),
    LineTok ((tokenizeLinesS s).map (slice (utf8EncAll s)))[i]
      ((tokenizeLinesS s).map (slice (utf8EncAll s)))[i + 1]? := by
  rw [← tokenizeLinesB_utf8]
  exact tokenizeLinesB_tokens _

/-! ### chars -/

theorem DecChain.mem {b : Bytes} : ∀ {l : List Tri} {pos : Nat}, DecChain b pos l → ∀ x ∈ l,
    x.1 < x.2.1 ∧ x.2.1 ≤ b.length ∧ decodeOne (b.drop x.1) = (x.2.2, x.2.1 - x.1)
  | [], _, _ => by simp
  | (s, e, c) :: l, _, ⟨_, h2, h3, h4, h5⟩ => by
    intro x hx
    rcases List.mem_cons.1 hx with rfl | hx
    · exact ⟨h2, h3, h4⟩
    · exact DecChain.mem h5 x hx

/-- **C06, shape of char tokens, `[u8]`**: every range is exactly one step of the lossy decoder
(one scalar value, or one maximal invalid sequence decoded as U+FFFD) -/
theorem tokenizeCharsB_shape (b : Bytes) : ∀ r ∈ tokenizeCharsB b,
    r.1 < r.2 ∧ r.2 ≤ b.length ∧ (decodeOne (b.drop r.1)).2 = r.2 - r.1 := by
  intro r hr
  simp only [tokenizeCharsB, List.mem_map] at hr
  obtain ⟨⟨s, e, c⟩, hx, rfl⟩ := hr
  obtain ⟨h1, h2, h3⟩ := (charIndicesB_chain b (Nat.le_refl _)).mem _ hx
  exact ⟨h1, h2, by rw [h3]⟩

theorem charsS_slices : ∀ (s : List Char) (pre : Bytes),
    (charIndicesS pre.length s).map (fun x => slice (pre ++ utf8EncAll s) (x.1, x.1 + utf8Len x.2)) =
      s.map utf8Enc
  | [], _ => rfl
  | c :: cs, pre => by
    have henc : utf8EncAll (c :: cs) = utf8Enc c ++ utf8EncAll cs := by simp [utf8EncAll]
    have ih := charsS_slices cs (pre ++ utf8Enc c)
    rw [List.length_append, utf8Enc_length, List.append_assoc] at ih
    simp only [charIndicesS, List.map_cons, henc, ih, List.cons.injEq, and_true]
    simp only [slice, Nat.add_sub_cancel_left]
    rw [List.drop_left' rfl, List.take_left' (utf8Enc_length c)]

/-- **C06, shape of char tokens, `str`**: the tokens are the encodings of the scalar values -/
theorem tokenizeCharsS_tokens (s : List Char) :
    (tokenizeCharsS s).map (slice (utf8EncAll s)) = s.map utf8Enc := by
  have := charsS_slices s []
  simp only [List.length_nil, List.nil_append] at this
  rw [← this, tokenizeCharsS, List.map_map]
  rfl


end SimilarVerif.TokP

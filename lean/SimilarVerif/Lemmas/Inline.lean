import SimilarVerif.Model.Inline
import SimilarVerif.Lemmas.Walk
import SimilarVerif.Lemmas.Tokenize
import SimilarVerif.Props.C13
/-!
# Property C16: `iter_inline_changes`

Nothing is assumed about the second-level (word) diff beyond validity (`Walk`).

(a) `inlineChanges_nonReplace`, `inlineChanges_gate1`, `inlineChanges_gate2`, `inlinePlain_ok`,
`inlinePlain_total`; (b) `pushValues_row`, `pushValues_size`, `newSegs_concat`, `newSegs_emph`;
(c) `originalSlices_multiLookup` (`side_spec`, `originalSlices_asc`); (d) `inlineApplyOps_main`,
`numberFrom_idx`, `numberFrom_values`, `inlineChanges_replace` (also the missing-newline flag:
`missingNewline_agrees`); (e) `emphOK_noNL` with `lnlNoNL_B` / `lnlNoNL_S`.

Needed and not vacuous: no line of the Replace op is empty (`SegsOK`). With an empty trailing line the
value vector is too short and a change is lost (`#eval` in the report).
-/
namespace SimilarVerif.InlineP
open SimilarVerif Spec TokP

/-- the text of a list of `(emphasized, segment)` values -/
def segsConcat (vs : List (Bool × Bytes)) : Bytes := (vs.map (·.2)).flatten

theorem segsConcat_append (a b : List (Bool × Bytes)) : segsConcat (a ++ b) = segsConcat a ++ segsConcat b := by
  simp [segsConcat]

/-- the values collected so far for line `i` (`[]` beyond the end of the vector) -/
def row (v : Array (List (Bool × Bytes))) (i : Nat) : List (Bool × Bytes) := v[i]?.getD []

/-! ## (b) `push_values` -/

/-- the segments `push_values(_, _, emph, s)` appends -/
def newSegs (lnl : Bytes → List (Nat × Nat)) (emph : Bool) (s : Bytes) : List (Bool × Bytes) :=
  if emph then (lnl s).map fun r => (!endsWithNewline (slice s r), slice s r) else [(false, s)]

/-- `v.resize_with(v.len().max(idx + 1), Vec::new)` -/
def grow (v : Array (List (Bool × Bytes))) (idx : Nat) : Array (List (Bool × Bytes)) :=
  if v.size < idx + 1 then v ++ Array.replicate (idx + 1 - v.size) [] else v

theorem grow_size (v : Array (List (Bool × Bytes))) (idx : Nat) : (grow v idx).size = max v.size (idx + 1) := by
  unfold grow; split
  · simp; omega
  · omega

theorem grow_row (v : Array (List (Bool × Bytes))) (idx j : Nat) : row (grow v idx) j = row v j := by
  unfold grow row
  split
  · rw [Array.getElem?_append]
    by_cases hj : j < v.size
    · simp [hj]
    · rw [if_neg hj, Array.getElem?_replicate, Array.getElem?_eq_none (by omega)]
      split <;> rfl
  · rfl

theorem pushValues_eq (lnl : Bytes → List (Nat × Nat)) (v : Array (List (Bool × Bytes))) (idx : Nat)
    (emph : Bool) (s : Bytes) :
    pushValues lnl v idx emph s = (grow v idx).modify idx (· ++ newSegs lnl emph s) := by
  unfold pushValues grow newSegs
  cases emph <;> rfl

theorem pushValues_size (lnl : Bytes → List (Nat × Nat)) (v : Array (List (Bool × Bytes))) (idx : Nat)
    (emph : Bool) (s : Bytes) : (pushValues lnl v idx emph s).size = max v.size (idx + 1) := by
  rw [pushValues_eq, Array.size_modify, grow_size]

theorem pushValues_row (lnl : Bytes → List (Nat × Nat)) (v : Array (List (Bool × Bytes))) (idx : Nat)
    (emph : Bool) (s : Bytes) (j : Nat) :
    row (pushValues lnl v idx emph s) j = if j = idx then row v j ++ newSegs lnl emph s else row v j := by
  rw [pushValues_eq]
  have hg := grow_row v idx j
  have hsz := grow_size v idx
  unfold row at hg ⊢
  rw [Array.getElem?_modify]
  by_cases hj : j = idx
  · subst hj
    rw [if_pos rfl, if_pos rfl, ← hg]
    have : j < (grow v j).size := by omega
    simp [this]
  · rw [if_neg (Ne.symm hj), if_neg hj, hg]

/-- **C16 (b)**: the appended segments concatenate to `s` -/
theorem newSegs_concat (lnl : Bytes → List (Nat × Nat)) (emph : Bool) (s : Bytes)
    (ht : emph = true → Tiling (lnl s) s.length) : segsConcat (newSegs lnl emph s) = s := by
  unfold newSegs segsConcat
  cases emph
  · simp
  · simp only [if_true, List.map_map]
    exact (tiling_concat (ht rfl)).1

/-- **C16 (b)**: an emphasised segment comes from an emphasised push, is a lines-and-newlines token of
the pushed text and does not end in a newline -/
theorem newSegs_emph (lnl : Bytes → List (Nat × Nat)) (emph : Bool) (s : Bytes) (seg : Bool × Bytes)
    (hs : seg ∈ newSegs lnl emph s) (he : seg.1 = true) :
    emph = true ∧ endsWithNewline seg.2 = false ∧ ∃ r ∈ lnl s, seg.2 = slice s r := by
  unfold newSegs at hs
  cases emph
  · simp at hs; subst hs; simp at he
  · simp only [if_true, List.mem_map] at hs
    obtain ⟨r, hr, rfl⟩ := hs
    refine ⟨rfl, by simpa using he, r, hr, rfl⟩

/-- largest line index (+1) of a list of `(line index, slice)` pairs -/
def maxIdx : List (Nat × Bytes) → Nat
  | [] => 0
  | (i, _) :: rest => max (i + 1) (maxIdx rest)

/-- all segments pushed for line `j` by a list of `(line index, slice)` pairs -/
def segsFor (lnl : Bytes → List (Nat × Nat)) (emph : Bool) (j : Nat) : List (Nat × Bytes) → List (Bool × Bytes)
  | [] => []
  | (i, s) :: rest => (if j = i then newSegs lnl emph s else []) ++ segsFor lnl emph j rest

theorem pushAll_size (lnl : Bytes → List (Nat × Nat)) (emph : Bool) : ∀ (sl : List (Nat × Bytes))
    (v : Array (List (Bool × Bytes))), (pushAll lnl emph v sl).size = max v.size (maxIdx sl)
  | [], v => by simp [pushAll, maxIdx]
  | (i, s) :: rest, v => by
    simp only [pushAll, maxIdx, pushAll_size lnl emph rest, pushValues_size]
    omega

theorem pushAll_row (lnl : Bytes → List (Nat × Nat)) (emph : Bool) (j : Nat) : ∀ (sl : List (Nat × Bytes))
    (v : Array (List (Bool × Bytes))), row (pushAll lnl emph v sl) j = row v j ++ segsFor lnl emph j sl
  | [], v => by simp [pushAll, segsFor]
  | (i, s) :: rest, v => by
    simp only [pushAll, segsFor, pushAll_row lnl emph j rest, pushValues_row]
    split <;> simp

/-- text of the slices for line `j` -/
def textFor (j : Nat) : List (Nat × Bytes) → Bytes
  | [] => []
  | (i, s) :: rest => (if j = i then s else []) ++ textFor j rest

theorem segsFor_concat (lnl : Bytes → List (Nat × Nat)) (emph : Bool) (j : Nat)
    (ht : emph = true → ∀ s, Tiling (lnl s) s.length) : ∀ (sl : List (Nat × Bytes)),
    segsConcat (segsFor lnl emph j sl) = textFor j sl
  | [] => rfl
  | (i, s) :: rest => by
    simp only [segsFor, textFor, segsConcat_append, segsFor_concat lnl emph j ht rest]
    split
    · rw [newSegs_concat lnl emph s (fun h => ht h s)]
    · rfl

/-- what is known about an emphasised segment: it is a lines-and-newlines token, not ending in a
newline, of some text pushed with emphasis -/
def EmphOK (lnl : Bytes → List (Nat × Nat)) (seg : Bool × Bytes) : Prop :=
  seg.1 = true → endsWithNewline seg.2 = false ∧ ∃ s, ∃ r ∈ lnl s, seg.2 = slice s r

theorem segsFor_emph (lnl : Bytes → List (Nat × Nat)) (emph : Bool) (j : Nat) : ∀ (sl : List (Nat × Bytes)),
    ∀ seg ∈ segsFor lnl emph j sl, (seg.1 = true → emph = true) ∧ EmphOK lnl seg
  | [], seg, h => by simp [segsFor] at h
  | (i, s) :: rest, seg, h => by
    simp only [segsFor, List.mem_append] at h
    rcases h with h | h
    · split at h
      · refine ⟨fun he => (newSegs_emph lnl emph s seg h he).1, fun he => ?_⟩
        obtain ⟨_, h2, r, hr, h3⟩ := newSegs_emph lnl emph s seg h he
        exact ⟨h2, s, r, hr, h3⟩
      · simp at h
    · exact segsFor_emph lnl emph j rest seg h

/-! ## (c) `get_original_slices` -/

/-- `get_original_slices` over the list of the words of the range -/
def origL (lines : Array Bytes) : List MWord → Option (Nat × Nat × Nat) → Res (List (Nat × Bytes))
  | [], last =>
    (match last with
     | some (si, start, l) =>
       (match lines[si]? with
        | some line => .ok [(si, (line.drop start).take l)]
        | none => .error .panic)
     | none => .ok [])
  | (s, si, ci) :: ws, last =>
    match last with
    | none => origL lines ws (some (si, ci, s.length))
    | some (lsi, start, ll) =>
      if lsi = si then origL lines ws (some (si, start, ll + s.length))
      else
        match lines[lsi]?, origL lines ws (some (si, ci, s.length)) with
        | some line, .ok rest => .ok ((lsi, (line.drop start).take ll) :: rest)
        | none, _ => .error .panic
        | _, .error e => .error e

theorem originalSlices_eq (lines : Array Bytes) (seqs : Array MWord) (idx : Nat) : ∀ (len off : Nat)
    (last : Option (Nat × Nat × Nat)), idx + off + len ≤ seqs.size →
    originalSlices lines seqs idx len off last = origL lines ((seqs.toList.drop (idx + off)).take len) last
  | 0, off, last, _ => by
    rcases last with _ | ⟨si, st, l⟩ <;> simp only [originalSlices, origL, List.take_zero]
    cases lines[si]? <;> rfl
  | len+1, off, last, h => by
    have hlt : idx + off < seqs.size := by omega
    have hd : (seqs.toList.drop (idx + off)).take (len + 1)
        = seqs[idx + off] :: (seqs.toList.drop (idx + (off + 1))).take len := by
      rw [List.drop_eq_getElem_cons (by simpa using hlt)]
      simp [Nat.add_assoc]
    have ih := fun last => originalSlices_eq lines seqs idx len (off + 1) last (by omega)
    rw [hd]
    rcases hw : seqs[idx + off] with ⟨s, si, ci⟩
    rcases last with _ | ⟨lsi, st, l⟩ <;>
      simp only [originalSlices, origL, Array.getElem?_eq_getElem hlt, hw, ih]
    by_cases hl : lsi = si
    · simp only [hl, if_true]
    · simp only [hl, if_false]
      generalize origL lines _ (some (si, ci, s.length)) = r
      generalize lines[lsi]? = q
      cases q <;> cases r <;> rfl

/-- bytes of the words of line `j` -/
def wordsText (j : Nat) : List MWord → Bytes
  | [] => []
  | (w, i, _) :: rest => (if j = i then w else []) ++ wordsText j rest

/-- largest line index (+1) of the words -/
def maxLine : List MWord → Nat
  | [] => 0
  | (_, i, _) :: rest => max (i + 1) (maxLine rest)

/-- the words are slices of their lines at the recorded offset, and a word that follows a word of the
same line starts where that one ended; `(pl, pe)`: line and end offset of the preceding word -/
def WChain (lines : Array Bytes) : (pl pe : Nat) → List MWord → Prop
  | _, _, [] => True
  | pl, pe, (s, si, ci) :: ws =>
    (∃ line, lines[si]? = some line ∧ s = (line.drop ci).take s.length) ∧ (pl = si → ci = pe) ∧
      WChain lines si (ci + s.length) ws

/-- the same without a preceding word -/
def WChain0 (lines : Array Bytes) : List MWord → Prop
  | [] => True
  | (s, si, ci) :: ws =>
    (∃ line, lines[si]? = some line ∧ s = (line.drop ci).take s.length) ∧ WChain lines si (ci + s.length) ws

theorem origL_some (lines : Array Bytes) : ∀ (ws : List MWord) (lsi start ll : Nat) (line : Bytes),
    lines[lsi]? = some line → WChain lines lsi (start + ll) ws →
    ∃ sl, origL lines ws (some (lsi, start, ll)) = .ok sl ∧
      (∀ j, textFor j sl = (if j = lsi then (line.drop start).take ll else []) ++ wordsText j ws) ∧
      maxIdx sl = max (lsi + 1) (maxLine ws)
  | [], lsi, start, ll, line, hl, _ => by
    refine ⟨[(lsi, (line.drop start).take ll)], by simp [origL, hl], ?_, ?_⟩
    · intro j; simp [textFor, wordsText]
    · simp [maxIdx, maxLine]
  | (s, si, ci) :: ws, lsi, start, ll, line, hl, hc => by
    obtain ⟨⟨line', hl', hs⟩, hadj, hch⟩ := hc
    by_cases he : lsi = si
    · subst he
      have hci := hadj rfl
      subst hci
      rw [hl] at hl'; cases hl'
      obtain ⟨sl, h1, h2, h3⟩ := origL_some lines ws lsi start (ll + s.length) line hl
        (by rw [← Nat.add_assoc]; exact hch)
      refine ⟨sl, by simp [origL, h1], ?_, ?_⟩
      · intro j
        rw [h2 j]
        simp only [wordsText]
        split
        · rw [List.take_add, List.drop_drop, ← hs, List.append_assoc]
        · simp
      · rw [h3]; simp only [maxLine]; omega
    · obtain ⟨sl, h1, h2, h3⟩ := origL_some lines ws si ci s.length line' hl' hch
      refine ⟨(lsi, (line.drop start).take ll) :: sl, by simp [origL, he, hl, h1], ?_, ?_⟩
      · intro j
        simp only [textFor, wordsText, h2 j, ← hs]
      · simp only [maxIdx, maxLine, h3]

theorem WChain.to0 {lines : Array Bytes} : ∀ {ws : List MWord} {pl pe : Nat}, WChain lines pl pe ws → WChain0 lines ws
  | [], _, _, _ => trivial
  | (_, _, _) :: _, _, _, ⟨h1, _, h3⟩ => ⟨h1, h3⟩

/-- **C16 (c)**: for a chain of words the regrouped `(line index, slice)` list has, for every line, the
text of that line's words in the range, and the same largest line index -/
theorem origL_none (lines : Array Bytes) (ws : List MWord) (hc : WChain0 lines ws) :
    ∃ sl, origL lines ws none = .ok sl ∧ (∀ j, textFor j sl = wordsText j ws) ∧ maxIdx sl = maxLine ws := by
  cases ws with
  | nil => exact ⟨[], rfl, fun j => rfl, rfl⟩
  | cons w ws =>
    obtain ⟨s, si, ci⟩ := w
    obtain ⟨⟨line, hl, hs⟩, hch⟩ := hc
    obtain ⟨sl, h1, h2, h3⟩ := origL_some lines ws si ci s.length line hl hch
    refine ⟨sl, by simp [origL, h1], ?_, ?_⟩
    · intro j; simp only [h2 j, wordsText, ← hs]
    · simp only [h3, maxLine]

theorem WChain.take {lines : Array Bytes} : ∀ {ws : List MWord} {pl pe : Nat} (k : Nat),
    WChain lines pl pe ws → WChain lines pl pe (ws.take k)
  | [], _, _, _, _ => by simp [WChain]
  | _ :: _, _, _, 0, _ => by simp [WChain]
  | (_, _, _) :: _, _, _, k+1, ⟨h1, h2, h3⟩ => ⟨h1, h2, WChain.take k h3⟩

theorem WChain0.take {lines : Array Bytes} : ∀ {ws : List MWord} (k : Nat), WChain0 lines ws → WChain0 lines (ws.take k)
  | [], _, _ => by simp [WChain0]
  | _ :: _, 0, _ => by simp [WChain0]
  | (_, _, _) :: _, k+1, ⟨h1, h3⟩ => ⟨h1, WChain.take k h3⟩

theorem WChain.drop0 {lines : Array Bytes} : ∀ {ws : List MWord} {pl pe : Nat} (k : Nat),
    WChain lines pl pe ws → WChain0 lines (ws.drop k)
  | [], _, _, _, _ => by simp [WChain0]
  | _ :: _, _, _, 0, h => h.to0
  | (_, _, _) :: _, _, _, k+1, ⟨_, _, h3⟩ => WChain.drop0 k h3

theorem WChain0.drop {lines : Array Bytes} : ∀ {ws : List MWord} (k : Nat), WChain0 lines ws → WChain0 lines (ws.drop k)
  | [], _, _ => by simp [WChain0]
  | _ :: _, 0, h => h
  | (_, _, _) :: _, k+1, ⟨_, h3⟩ => WChain.drop0 k h3

theorem wordsText_append (j : Nat) : ∀ (a b : List MWord), wordsText j (a ++ b) = wordsText j a ++ wordsText j b
  | [], b => rfl
  | (_, _, _) :: a, b => by simp [wordsText, wordsText_append j a b]

theorem maxLine_append : ∀ (a b : List MWord), maxLine (a ++ b) = max (maxLine a) (maxLine b)
  | [], b => by simp [maxLine]
  | (_, _, _) :: a, b => by simp only [List.cons_append, maxLine, maxLine_append a b]; omega

/-- the words `[i, i+l)` -/
def wrange (seqs : Array MWord) (i l : Nat) : List MWord := (seqs.toList.drop i).take l

theorem wrange_add (seqs : Array MWord) (i a b : Nat) : wrange seqs i (a + b) = wrange seqs i a ++ wrange seqs (i + a) b := by
  simp [wrange, List.take_add, List.drop_drop]

/-- **C16 (c)** for `get_original_slices(idx, len)` on a chain of words -/
theorem side_spec (lines : Array Bytes) (seqs : Array MWord) (hc : WChain0 lines seqs.toList) (i l : Nat)
    (h : i + l ≤ seqs.size) :
    ∃ sl, originalSlices lines seqs i l 0 none = .ok sl ∧
      (∀ j, textFor j sl = wordsText j (wrange seqs i l)) ∧ maxIdx sl = maxLine (wrange seqs i l) := by
  rw [originalSlices_eq lines seqs i l 0 none (by omega)]
  exact origL_none lines _ ((hc.drop _).take _)

/-! ### no segment is empty -/

theorem WChain.wordOK {lines : Array Bytes} : ∀ {ws : List MWord} {pl pe : Nat}, WChain lines pl pe ws →
    ∀ w ∈ ws, ∃ line, lines[w.2.1]? = some line ∧ w.1 = (line.drop w.2.2).take w.1.length
  | [], _, _, _, w, hw => by simp at hw
  | (_, _, _) :: _, _, _, ⟨h1, _, h3⟩, w, hw => by
    rcases List.mem_cons.1 hw with rfl | hw
    · exact h1
    · exact WChain.wordOK h3 w hw

theorem WChain0.wordOK {lines : Array Bytes} : ∀ {ws : List MWord}, WChain0 lines ws →
    ∀ w ∈ ws, ∃ line, lines[w.2.1]? = some line ∧ w.1 = (line.drop w.2.2).take w.1.length
  | [], _, w, hw => by simp at hw
  | (_, _, _) :: _, ⟨h1, h3⟩, w, hw => by
    rcases List.mem_cons.1 hw with rfl | hw
    · exact h1
    · exact WChain.wordOK h3 w hw

theorem origL_some_nonempty (lines : Array Bytes) : ∀ (ws : List MWord) (lsi start ll : Nat) (line : Bytes)
    (sl : List (Nat × Bytes)), lines[lsi]? = some line → (line.drop start).take ll ≠ [] →
    (∀ w ∈ ws, w.1 ≠ [] ∧ ∃ line, lines[w.2.1]? = some line ∧ w.1 = (line.drop w.2.2).take w.1.length) →
    origL lines ws (some (lsi, start, ll)) = .ok sl → ∀ p ∈ sl, p.2 ≠ []
  | [], lsi, start, ll, line, sl, hl, hp, _, h => by
    simp [origL, hl] at h; subst h; simpa using hp
  | (s, si, ci) :: ws, lsi, start, ll, line, sl, hl, hp, hw, h => by
    obtain ⟨hs, line', hl', hs'⟩ := hw _ (List.mem_cons_self ..)
    have hw' := fun w hw0 => hw w (List.mem_cons_of_mem _ hw0)
    simp only [origL] at h
    split at h
    · rename_i he; subst he
      refine origL_some_nonempty lines ws lsi start (ll + s.length) line sl hl ?_ hw' h
      rw [List.take_add]; simp [hp]
    · rw [hl] at h
      cases h2 : origL lines ws (some (si, ci, s.length)) with
      | error e => simp [h2] at h
      | ok rest =>
        simp [h2] at h; subst h
        intro p hp'
        rcases List.mem_cons.1 hp' with rfl | hp'
        · exact hp
        · exact origL_some_nonempty lines ws si ci s.length line' rest hl' (by rw [← hs']; exact hs) hw' h2 p hp'

theorem origL_none_nonempty (lines : Array Bytes) (ws : List MWord) (sl : List (Nat × Bytes))
    (hw : ∀ w ∈ ws, w.1 ≠ [] ∧ ∃ line, lines[w.2.1]? = some line ∧ w.1 = (line.drop w.2.2).take w.1.length)
    (h : origL lines ws none = .ok sl) : ∀ p ∈ sl, p.2 ≠ [] := by
  cases ws with
  | nil => simp [origL] at h; subst h; simp
  | cons w ws =>
    obtain ⟨s, si, ci⟩ := w
    obtain ⟨hs, line', hl', hs'⟩ := hw _ (List.mem_cons_self ..)
    simp only [origL] at h
    exact origL_some_nonempty lines ws si ci s.length line' sl hl' (by rw [← hs']; exact hs)
      (fun w hw0 => hw w (List.mem_cons_of_mem _ hw0)) h

theorem segsFor_nonempty (lnl : Bytes → List (Nat × Nat)) (hlnl : ∀ s, Tiling (lnl s) s.length) (emph : Bool)
    (j : Nat) : ∀ (sl : List (Nat × Bytes)), (∀ p ∈ sl, p.2 ≠ []) → ∀ seg ∈ segsFor lnl emph j sl, seg.2 ≠ []
  | [], _, seg, h => by simp [segsFor] at h
  | (i, s) :: rest, hne, seg, h => by
    simp only [segsFor, List.mem_append] at h
    rcases h with h | h
    · split at h
      · unfold newSegs at h
        cases emph
        · simp at h; subst h; exact hne _ (List.mem_cons_self ..)
        · simp only [if_true, List.mem_map] at h
          obtain ⟨r, hr, rfl⟩ := h
          exact (tiling_concat (hlnl s)).2 r hr
      · simp at h
    · exact segsFor_nonempty lnl hlnl emph j rest (fun p hp => hne p (List.mem_cons_of_mem _ hp)) seg h

/-! ### line indices ascending -/

/-- the line indices of the words never decrease (and are at least `m`) -/
def Asc : Nat → List MWord → Prop
  | _, [] => True
  | m, (_, i, _) :: ws => m ≤ i ∧ Asc i ws

/-- the line indices of the regrouped slices strictly increase (and are at least `m`) -/
def AscOut : Nat → List (Nat × Bytes) → Prop
  | _, [] => True
  | m, (i, _) :: r => m ≤ i ∧ AscOut (i + 1) r

theorem Asc.weaken : ∀ {ws : List MWord} {m m' : Nat}, m' ≤ m → Asc m ws → Asc m' ws
  | [], _, _, _, _ => trivial
  | (_, _, _) :: _, _, _, h, ⟨h1, h2⟩ => ⟨by omega, h2⟩

theorem AscOut.weaken : ∀ {sl : List (Nat × Bytes)} {m m' : Nat}, m' ≤ m → AscOut m sl → AscOut m' sl
  | [], _, _, _, _ => trivial
  | (_, _) :: _, _, _, h, ⟨h1, h2⟩ => ⟨by omega, h2⟩

theorem Asc.take : ∀ {ws : List MWord} {m : Nat} (k : Nat), Asc m ws → Asc m (ws.take k)
  | [], _, _, _ => by simp [Asc]
  | _ :: _, _, 0, _ => by simp [Asc]
  | (_, _, _) :: _, _, k+1, ⟨h1, h2⟩ => ⟨h1, Asc.take k h2⟩

theorem Asc.drop : ∀ {ws : List MWord} {m : Nat} (k : Nat), Asc m ws → Asc m (ws.drop k)
  | [], _, _, _ => by simp [Asc]
  | _ :: _, _, 0, h => h
  | (_, _, _) :: _, _, k+1, ⟨h1, h2⟩ => Asc.drop k (h2.weaken h1)

theorem origL_some_asc (lines : Array Bytes) : ∀ (ws : List MWord) (lsi start ll : Nat) (sl : List (Nat × Bytes)),
    Asc lsi ws → origL lines ws (some (lsi, start, ll)) = .ok sl → AscOut lsi sl
  | [], lsi, start, ll, sl, _, h => by
    simp only [origL] at h
    split at h
    · cases h; exact ⟨Nat.le_refl _, trivial⟩
    · cases h
  | (s, si, ci) :: ws, lsi, start, ll, sl, ⟨h1, h2⟩, h => by
    simp only [origL] at h
    split at h
    · rename_i he; subst he
      exact origL_some_asc lines ws lsi start (ll + s.length) sl h2 h
    · rename_i he
      cases hq : lines[lsi]? with
      | none => simp [hq] at h
      | some line =>
        cases h2' : origL lines ws (some (si, ci, s.length)) with
        | error e => simp [hq, h2'] at h
        | ok rest =>
          simp [hq, h2'] at h; subst h
          exact ⟨Nat.le_refl _, (origL_some_asc lines ws si ci s.length rest h2 h2').weaken (by omega)⟩

theorem origL_none_asc (lines : Array Bytes) (ws : List MWord) (sl : List (Nat × Bytes)) (m : Nat)
    (ha : Asc m ws) (h : origL lines ws none = .ok sl) : AscOut m sl := by
  cases ws with
  | nil => simp [origL] at h; subst h; trivial
  | cons w ws =>
    obtain ⟨s, si, ci⟩ := w
    simp only [origL] at h
    exact (origL_some_asc lines ws si ci s.length sl ha.2 h).weaken ha.1

theorem lineWords_asc (line : Bytes) (i : Nat) (tail : List MWord) (ht : Asc i tail) : ∀ (lens : List Nat) (off m : Nat),
    m ≤ i → Asc m (lineWords line i off lens ++ tail)
  | [], _, m, h => by simpa [lineWords] using ht.weaken h
  | l :: ls, off, m, h => ⟨h, lineWords_asc line i tail ht ls (off + l) i (Nat.le_refl _)⟩

theorem multiLookup_asc : ∀ (rest : List Bytes) (i : Nat) (segs : List (List Nat)) (m : Nat), m ≤ i →
    Asc m (multiLookup i rest segs)
  | [], _, _, _, _ => trivial
  | line :: rest, i, segs, m, h => by
    simp only [multiLookup]
    exact lineWords_asc line i _ (multiLookup_asc rest (i + 1) segs.tail i (by omega)) _ 0 m h

/-- **C16 (c)**: the `(line index, slice)` pairs of `get_original_slices` come with strictly
increasing line indices -/
theorem originalSlices_asc (lines : Array Bytes) (ls : List Bytes) (segs : List (List Nat)) (i l : Nat)
    (sl : List (Nat × Bytes)) (h : i + l ≤ (multiLookup 0 ls segs).toArray.size)
    (hs : originalSlices lines (multiLookup 0 ls segs).toArray i l 0 none = .ok sl) : AscOut 0 sl := by
  rw [originalSlices_eq lines _ i l 0 none (by omega)] at hs
  exact origL_none_asc lines _ sl 0 (((multiLookup_asc ls 0 segs 0 (Nat.le_refl _)).drop _).take _) hs

/-! ## (d) the loop over the second-level ops -/

/-- state of one side after the words `[0, p)` were processed: every line's segments concatenate to
the text of its words so far, the vector reaches exactly to the last line seen, every emphasised
segment is a non-newline-terminated lines-and-newlines token -/
def Good (lnl : Bytes → List (Nat × Nat)) (seqs : Array MWord) (p : Nat) (v : Array (List (Bool × Bytes))) : Prop :=
  (∀ j, segsConcat (row v j) = wordsText j (wrange seqs 0 p)) ∧ v.size = maxLine (wrange seqs 0 p) ∧
    (∀ j, ∀ seg ∈ row v j, EmphOK lnl seg) ∧ ∀ j, ∀ seg ∈ row v j, seg.2 ≠ []

theorem good_empty (lnl : Bytes → List (Nat × Nat)) (seqs : Array MWord) : Good lnl seqs 0 #[] := by
  refine ⟨fun j => ?_, ?_, fun j seg h => ?_, fun j seg h => ?_⟩
  · simp [row, segsConcat, wrange, wordsText]
  · simp [wrange, maxLine]
  · simp [row] at h
  · simp [row] at h

theorem good_step (lnl : Bytes → List (Nat × Nat)) (hlnl : ∀ s, Tiling (lnl s) s.length)
    (lines : Array Bytes) (seqs : Array MWord) (hc : WChain0 lines seqs.toList)
    (hne : ∀ w ∈ seqs.toList, w.1 ≠ []) (p l : Nat) (h : p + l ≤ seqs.size) (v : Array (List (Bool × Bytes))) (hg : Good lnl seqs p v) :
    ∃ sl, originalSlices lines seqs p l 0 none = .ok sl ∧ ∀ emph, Good lnl seqs (p + l) (pushAll lnl emph v sl) := by
  obtain ⟨sl, h1, h2, h3⟩ := side_spec lines seqs hc p l h
  obtain ⟨g1, g2, g3, g4⟩ := hg
  have hsl : ∀ p ∈ sl, p.2 ≠ [] := by
    rw [originalSlices_eq lines seqs p l 0 none (by omega)] at h1
    refine origL_none_nonempty lines _ sl (fun w hw => ⟨?_, ((hc.drop _).take _).wordOK w hw⟩) h1
    exact hne w (List.mem_of_mem_drop (List.mem_of_mem_take hw))
  refine ⟨sl, h1, fun emph => ⟨fun j => ?_, ?_, fun j seg hs => ?_, fun j seg hs => ?_⟩⟩
  · rw [pushAll_row, segsConcat_append, segsFor_concat lnl emph j (fun _ => hlnl), g1 j, h2 j, wrange_add,
      wordsText_append, Nat.zero_add]
  · rw [pushAll_size, g2, h3, wrange_add, maxLine_append, Nat.zero_add]
  · rw [pushAll_row] at hs
    rcases List.mem_append.1 hs with hs | hs
    · exact g3 j seg hs
    · exact (segsFor_emph lnl emph j sl seg hs).2
  · rw [pushAll_row] at hs
    rcases List.mem_append.1 hs with hs | hs
    · exact g4 j seg hs
    · exact segsFor_nonempty lnl hlnl emph j sl hsl seg hs

theorem applyOps_spec (lnl : Bytes → List (Nat × Nat)) (hlnl : ∀ s, Tiling (lnl s) s.length)
    (oLines nLines : Array Bytes) (oS nS : Array MWord)
    (hco : WChain0 oLines oS.toList) (hcn : WChain0 nLines nS.toList)
    (hneo : ∀ w ∈ oS.toList, w.1 ≠ []) (hnen : ∀ w ∈ nS.toList, w.1 ≠ []) {e : Nat → Nat → Bool} :
    ∀ (ops : List Op) (o n o' n' : Nat) (ov nv : Array (List (Bool × Bytes))),
    Walk e o n ops o' n' → o' ≤ oS.size → n' ≤ nS.size → Good lnl oS o ov → Good lnl nS n nv →
    ∃ ov' nv', inlineApplyOps lnl oLines nLines oS nS ops ov nv = .ok (ov', nv') ∧
      Good lnl oS o' ov' ∧ Good lnl nS n' nv' := by
  intro ops
  induction ops with
  | nil =>
    intro o n o' n' ov nv h _ _ go gn
    obtain ⟨rfl, rfl⟩ := h
    exact ⟨ov, nv, rfl, go, gn⟩
  | cons c cs ih =>
    intro o n o' n' ov nv h ho hn go gn
    cases c with
    | equal co cn len =>
      simp only [Walk] at h
      obtain ⟨rfl, rfl, h3, _, h5⟩ := h
      have hc := walk_counts _ _ _ _ _ h5
      obtain ⟨a, ha, ga⟩ := good_step lnl hlnl oLines oS hco hneo co len (by omega) ov go
      obtain ⟨b, hb, gb⟩ := good_step lnl hlnl nLines nS hcn hnen cn len (by omega) nv gn
      simp only [inlineApplyOps, ha, hb]
      exact ih _ _ _ _ _ _ h5 ho hn (ga false) (gb false)
    | delete co len cn =>
      simp only [Walk] at h
      obtain ⟨rfl, h3, h5⟩ := h
      have hc := walk_counts _ _ _ _ _ h5
      obtain ⟨a, ha, ga⟩ := good_step lnl hlnl oLines oS hco hneo co len (by omega) ov go
      simp only [inlineApplyOps, ha]
      exact ih _ _ _ _ _ _ h5 ho hn (ga true) gn
    | insert co cn len =>
      simp only [Walk] at h
      obtain ⟨rfl, h3, h5⟩ := h
      have hc := walk_counts _ _ _ _ _ h5
      obtain ⟨b, hb, gb⟩ := good_step lnl hlnl nLines nS hcn hnen cn len (by omega) nv gn
      simp only [inlineApplyOps, hb]
      exact ih _ _ _ _ _ _ h5 ho hn go (gb true)
    | replace co ol cn nl =>
      simp only [Walk] at h
      obtain ⟨rfl, rfl, h3, h4, h5⟩ := h
      have hc := walk_counts _ _ _ _ _ h5
      obtain ⟨a, ha, ga⟩ := good_step lnl hlnl oLines oS hco hneo co ol (by omega) ov go
      obtain ⟨b, hb, gb⟩ := good_step lnl hlnl nLines nS hcn hnen cn nl (by omega) nv gn
      simp only [inlineApplyOps, ha, hb]
      exact ih _ _ _ _ _ _ h5 ho hn (ga true) (gb true)

/-! ## `MultiLookup::new` builds a chain -/

theorem lineWords_chain (all : Array Bytes) (line : Bytes) (i : Nat) (hl : all[i]? = some line) (tail : List MWord)
    (ht : ∀ pl pe, pl ≤ i → WChain all pl pe tail) : ∀ (lens : List Nat) (off pl pe : Nat),
    off + lens.sum ≤ line.length → (pl = i → off = pe) → pl ≤ i →
    WChain all pl pe (lineWords line i off lens ++ tail)
  | [], off, pl, pe, _, _, hpl => by simpa [lineWords] using ht pl pe hpl
  | l :: ls, off, pl, pe, hs, hadj, hpl => by
    simp only [List.sum_cons] at hs
    have hlen : ((line.drop off).take l).length = l := by simp; omega
    simp only [lineWords, List.cons_append, WChain]
    refine ⟨⟨line, hl, by rw [hlen]⟩, hadj, ?_⟩
    rw [hlen]
    exact lineWords_chain all line i hl tail ht ls (off + l) i (off + l) (by omega) (fun _ => rfl) (Nat.le_refl _)

theorem multiLookup_chain (all : Array Bytes) : ∀ (rest : List Bytes) (i : Nat) (segs : List (List Nat)),
    (∀ (k : Nat) (line : Bytes), rest[k]? = some line → all[i + k]? = some line) →
    (∀ (k : Nat) (line : Bytes), rest[k]? = some line → (segs[k]?.getD []).sum ≤ line.length) →
    ∀ pl pe, (pl = i → pe = 0) → pl ≤ i → WChain all pl pe (multiLookup i rest segs)
  | [], i, segs, _, _, pl, pe, _, _ => by simp [multiLookup, WChain]
  | line :: rest, i, segs, hall, hseg, pl, pe, hpe, hpl => by
    simp only [multiLookup]
    have h0 := hseg 0 line rfl
    have hhd : segs.headD [] = segs[0]?.getD [] := by cases segs <;> rfl
    rw [hhd]
    refine lineWords_chain all line i (by simpa using hall 0 line rfl) _ ?_ _ 0 pl pe (by omega)
      (fun h => (hpe h).symm) hpl
    intro pl' pe' hpl'
    refine multiLookup_chain all rest (i + 1) segs.tail ?_ ?_ pl' pe' (by omega) (by omega)
    · intro k line' hk
      have := hall (k + 1) line' (by simpa using hk)
      rwa [show i + 1 + k = i + (k + 1) from by omega]
    · intro k line' hk
      have := hseg (k + 1) line' (by simpa using hk)
      rwa [show segs.tail[k]? = segs[k + 1]? from by cases segs <;> simp]

/-- the per-line word segmentations are what a segmenter has to deliver, and no line is empty -/
def SegsOK (lines : List Bytes) (segs : List (List Nat)) : Prop :=
  ∀ (k : Nat) (line : Bytes), lines[k]? = some line → Partition (segs[k]?.getD []) line.length ∧ line ≠ []

theorem multiLookup_chain0 (lines : List Bytes) (segs : List (List Nat)) (h : SegsOK lines segs) :
    WChain0 lines.toArray (multiLookup 0 lines segs) := by
  refine (multiLookup_chain lines.toArray lines 0 segs ?_ ?_ 0 0 (fun _ => rfl) (Nat.le_refl _)).to0
  · intro k line hk; simpa using hk
  · intro k line hk; exact Nat.le_of_eq (h k line hk).1.2

theorem lineWords_text (line : Bytes) (i j : Nat) : ∀ (lens : List Nat) (off : Nat),
    wordsText j (lineWords line i off lens) = if j = i then (line.drop off).take lens.sum else []
  | [], off => by simp [lineWords, wordsText]
  | l :: ls, off => by
    simp only [lineWords, wordsText, lineWords_text line i j ls (off + l), List.sum_cons]
    split
    · rw [List.take_add, List.drop_drop]
    · rfl

theorem lineWords_maxLine (line : Bytes) (i : Nat) : ∀ (lens : List Nat) (off : Nat), lens ≠ [] →
    maxLine (lineWords line i off lens) = i + 1
  | [], _, h => by simp at h
  | [l], off, _ => by simp [lineWords, maxLine]
  | l :: l' :: ls, off, _ => by
    have := lineWords_maxLine line i (l' :: ls) (off + l) (by simp)
    simp only [lineWords, maxLine] at this ⊢
    omega

theorem multiLookup_text (j : Nat) : ∀ (rest : List Bytes) (i : Nat) (segs : List (List Nat)),
    (∀ (k : Nat) (line : Bytes), rest[k]? = some line → (segs[k]?.getD []).sum = line.length) →
    wordsText j (multiLookup i rest segs) = if i ≤ j then rest[j - i]?.getD [] else []
  | [], i, segs, _ => by simp [multiLookup, wordsText]
  | line :: rest, i, segs, hseg => by
    have h0 := hseg 0 line rfl
    have hhd : segs.headD [] = segs[0]?.getD [] := by cases segs <;> rfl
    have ih := multiLookup_text j rest (i + 1) segs.tail (by
      intro k line' hk
      have := hseg (k + 1) line' (by simpa using hk)
      rwa [show segs.tail[k]? = segs[k + 1]? from by cases segs <;> simp])
    simp only [multiLookup, wordsText_append, lineWords_text, ih, hhd, h0, List.drop_zero, List.take_length]
    by_cases h1 : j = i
    · subst h1; simp; omega
    · by_cases h2 : i ≤ j
      · have : j - i = (j - (i + 1)) + 1 := by omega
        rw [if_neg h1, if_pos (by omega), if_pos h2, this]
        simp
      · rw [if_neg h1, if_neg (by omega), if_neg h2]; rfl

theorem multiLookup_maxLine : ∀ (rest : List Bytes) (i : Nat) (segs : List (List Nat)),
    (∀ (k : Nat) (line : Bytes), rest[k]? = some line → segs[k]?.getD [] ≠ []) →
    maxLine (multiLookup i rest segs) = if rest = [] then 0 else i + rest.length
  | [], i, segs, _ => by simp [multiLookup, maxLine]
  | line :: rest, i, segs, hseg => by
    have h0 := hseg 0 line rfl
    have hhd : segs.headD [] = segs[0]?.getD [] := by cases segs <;> rfl
    have ih := multiLookup_maxLine rest (i + 1) segs.tail (by
      intro k line' hk
      have := hseg (k + 1) line' (by simpa using hk)
      rwa [show segs.tail[k]? = segs[k + 1]? from by cases segs <;> simp])
    simp only [multiLookup, maxLine_append, hhd, lineWords_maxLine line i _ 0 h0, ih]
    split <;> simp <;> omega

theorem lineWords_nonempty (line : Bytes) (i : Nat) : ∀ (lens : List Nat) (off : Nat),
    (∀ l ∈ lens, 0 < l) → off + lens.sum ≤ line.length → ∀ w ∈ lineWords line i off lens, w.1 ≠ []
  | [], _, _, _, w, hw => by simp [lineWords] at hw
  | l :: ls, off, hp, hs, w, hw => by
    simp only [List.sum_cons] at hs
    simp only [lineWords, List.mem_cons] at hw
    rcases hw with rfl | hw
    · have hl := hp l (List.mem_cons_self ..)
      intro h0
      have := congrArg List.length h0
      simp at this
      omega
    · exact lineWords_nonempty line i ls (off + l) (fun x hx => hp x (List.mem_cons_of_mem _ hx)) (by omega) w hw

theorem multiLookup_nonempty : ∀ (rest : List Bytes) (i : Nat) (segs : List (List Nat)),
    (∀ (k : Nat) (line : Bytes), rest[k]? = some line → Partition (segs[k]?.getD []) line.length) →
    ∀ w ∈ multiLookup i rest segs, w.1 ≠ []
  | [], _, _, _, w, hw => by simp [multiLookup] at hw
  | line :: rest, i, segs, hseg, w, hw => by
    have h0 := hseg 0 line rfl
    have hhd : segs.headD [] = segs[0]?.getD [] := by cases segs <;> rfl
    simp only [multiLookup, List.mem_append, hhd] at hw
    rcases hw with hw | hw
    · exact lineWords_nonempty line i _ 0 h0.1 (by have := h0.2; omega) w hw
    · refine multiLookup_nonempty rest (i + 1) segs.tail ?_ w hw
      intro k line' hk
      have := hseg (k + 1) line' (by simpa using hk)
      rwa [show segs.tail[k]? = segs[k + 1]? from by cases segs <;> simp]

/-- **C16 (c)**: on the words of `MultiLookup::new` (segmentations satisfying the segmenter contract)
`get_original_slices(i, l)` does not panic; for every line `j` the returned slices of line `j`
concatenate to the words of line `j` in the range; line indices strictly increase; no slice is empty -/
theorem originalSlices_multiLookup (lines : List Bytes) (segs : List (List Nat)) (h : SegsOK lines segs) (i l : Nat)
    (hi : i + l ≤ (multiLookup 0 lines segs).toArray.size) :
    ∃ sl, originalSlices lines.toArray (multiLookup 0 lines segs).toArray i l 0 none = .ok sl ∧
      (∀ j, textFor j sl = wordsText j (wrange (multiLookup 0 lines segs).toArray i l)) ∧
      AscOut 0 sl ∧ ∀ p ∈ sl, p.2 ≠ [] := by
  have hc : WChain0 lines.toArray (multiLookup 0 lines segs).toArray.toList := by
    simpa using multiLookup_chain0 lines segs h
  obtain ⟨sl, h1, h2, _⟩ := side_spec lines.toArray _ hc i l hi
  refine ⟨sl, h1, h2, originalSlices_asc _ lines segs i l sl hi h1, ?_⟩
  rw [originalSlices_eq _ _ i l 0 none (by omega)] at h1
  refine origL_none_nonempty _ _ sl (fun w hw => ⟨?_, ((hc.drop _).take _).wordOK w hw⟩) h1
  have := List.mem_of_mem_drop (List.mem_of_mem_take hw)
  exact multiLookup_nonempty lines 0 segs (fun k line hk => (h k line hk).1) w (by simpa using this)

theorem good_final (lnl : Bytes → List (Nat × Nat)) (lines : List Bytes) (segs : List (List Nat))
    (h : SegsOK lines segs) (v : Array (List (Bool × Bytes)))
    (hg : Good lnl (multiLookup 0 lines segs).toArray (multiLookup 0 lines segs).length v) :
    v.toList.map segsConcat = lines ∧ ∀ vs ∈ v.toList, ∀ seg ∈ vs, EmphOK lnl seg ∧ seg.2 ≠ [] := by
  obtain ⟨g1, g2, g3, g4⟩ := hg
  have hwr : wrange (multiLookup 0 lines segs).toArray 0 (multiLookup 0 lines segs).length = multiLookup 0 lines segs := by
    simp [wrange]
  rw [hwr] at g1 g2
  have hne : ∀ (k : Nat) (line : Bytes), lines[k]? = some line → segs[k]?.getD [] ≠ [] := by
    intro k line hk h0
    obtain ⟨⟨_, hp⟩, hl⟩ := h k line hk
    rw [h0] at hp
    exact hl (List.eq_nil_of_length_eq_zero hp.symm)
  rw [multiLookup_maxLine lines 0 segs hne] at g2
  have hsz : v.size = lines.length := by rw [g2]; cases lines <;> simp
  constructor
  · apply List.ext_getElem?
    intro j
    have := g1 j
    rw [multiLookup_text j lines 0 segs (fun k line hk => (h k line hk).1.2)] at this
    simp only [Nat.zero_le, if_true, Nat.sub_zero, row] at this
    by_cases hj : j < v.size
    · have hj' : j < lines.length := by omega
      simp only [List.getElem?_map, Array.getElem?_toList, Array.getElem?_eq_getElem hj, Option.getD_some,
        List.getElem?_eq_getElem hj', Option.map_some] at this ⊢
      rw [this]
    · rw [List.getElem?_eq_none (by simp; omega), List.getElem?_eq_none (by omega)]
  · intro vs hvs seg hseg
    obtain ⟨j, hj, rfl⟩ := List.getElem_of_mem hvs
    simp only [Array.length_toList] at hj
    have : seg ∈ row v j := by simpa [row, Array.getElem?_eq_getElem hj] using hseg
    exact ⟨g3 j seg this, g4 j seg this⟩

/-- **C16 (d), the loop**: for a valid second-level script over the two word lists the loop does not
panic, returns one value list per old line and per new line, the segments of line `i` concatenate to
line `i`, and every emphasised segment is a lines-and-newlines token not ending in a newline -/
theorem inlineApplyOps_main (lnl : Bytes → List (Nat × Nat)) (hlnl : ∀ s, Tiling (lnl s) s.length)
    (oLines nLines : List Bytes) (segO segN : List (List Nat))
    (hO : SegsOK oLines segO) (hN : SegsOK nLines segN) {e2 : Nat → Nat → Bool} (ops2 : List Op)
    (hw : Walk e2 0 0 ops2 (multiLookup 0 oLines segO).toArray.size (multiLookup 0 nLines segN).toArray.size) :
    ∃ ov nv, inlineApplyOps lnl oLines.toArray nLines.toArray (multiLookup 0 oLines segO).toArray
        (multiLookup 0 nLines segN).toArray ops2 #[] #[] = .ok (ov, nv) ∧
      ov.toList.map segsConcat = oLines ∧ nv.toList.map segsConcat = nLines ∧
      (∀ vs ∈ ov.toList, ∀ seg ∈ vs, EmphOK lnl seg ∧ seg.2 ≠ []) ∧
      (∀ vs ∈ nv.toList, ∀ seg ∈ vs, EmphOK lnl seg ∧ seg.2 ≠ []) := by
  obtain ⟨ov, nv, h1, h2, h3⟩ := applyOps_spec lnl hlnl oLines.toArray nLines.toArray _ _
    (by simpa using multiLookup_chain0 oLines segO hO) (by simpa using multiLookup_chain0 nLines segN hN)
    (by simpa using multiLookup_nonempty oLines 0 segO (fun k line hk => (hO k line hk).1))
    (by simpa using multiLookup_nonempty nLines 0 segN (fun k line hk => (hN k line hk).1))
    ops2 0 0 _ _ #[] #[] hw (Nat.le_refl _) (Nat.le_refl _) (good_empty _ _) (good_empty _ _)
  have ho := good_final lnl oLines segO hO ov (by simpa using h2)
  have hn := good_final lnl nLines segN hN nv (by simpa using h3)
  exact ⟨ov, nv, h1, ho.1, hn.1, ho.2, hn.2⟩

/-! ## (a) the plain expansion -/

/-- `Change<&T>::into()`: same tag and indices, the line as one unemphasised segment -/
def plainOf (old new : Array Bytes) (c : Change) : InlineChange :=
  { tag := c.tag, oldIndex := c.oldIndex, newIndex := c.newIndex,
    values := [(false, (if c.fromNew then new[c.idx]? else old[c.idx]?).getD [])] }

/-- the lookup of `inlinePlain` -/
def plainStep (old new : Array Bytes) (c : Change) : Res InlineChange :=
  match (if c.fromNew then new[c.idx]? else old[c.idx]?) with
  | some v => .ok { tag := c.tag, oldIndex := c.oldIndex, newIndex := c.newIndex, values := [(false, v)] }
  | none => .error .panic

theorem plain_mapM_ok (old new : Array Bytes) : ∀ (l : List Change) (cs : List InlineChange),
    l.mapM (plainStep old new) = .ok cs → cs = l.map (plainOf old new)
  | [], cs, h => by simp [pure, Except.pure] at h; simp [h]
  | c :: l, cs, h => by
    rw [List.mapM_cons] at h
    cases h1 : plainStep old new c with
    | error e => simp [h1, bind, Except.bind] at h
    | ok a =>
      cases h2 : l.mapM (plainStep old new) with
      | error e => simp [h1, h2, bind, Except.bind] at h
      | ok r =>
        simp [h1, h2, bind, Except.bind, pure, Except.pure] at h
        have ih := plain_mapM_ok old new l r h2
        subst h ih
        simp only [List.map_cons, List.cons.injEq, and_true]
        unfold plainStep at h1
        unfold plainOf
        split at h1
        · rename_i v hv; cases h1; simp [hv]
        · cases h1

theorem plain_mapM_total (old new : Array Bytes) : ∀ (l : List Change),
    (∀ c ∈ l, c.idx < (if c.fromNew then new.size else old.size)) →
    l.mapM (plainStep old new) = .ok (l.map (plainOf old new))
  | [], _ => rfl
  | c :: l, h => by
    have ih := plain_mapM_total old new l (fun c hc => h c (List.mem_cons_of_mem _ hc))
    have hc := h c (List.mem_cons_self ..)
    rw [List.mapM_cons, ih]
    have : plainStep old new c = .ok (plainOf old new c) := by
      unfold plainStep plainOf
      cases hf : c.fromNew <;> simp only [hf, Bool.false_eq_true, if_false, if_true] at hc ⊢ <;>
        simp [Array.getElem?_eq_getElem hc]
    simp [this, bind, Except.bind, pure, Except.pure]

theorem inlinePlain_eq (old new : Array Bytes) (x : Op) :
    inlinePlain old new x = (opChanges x).mapM (plainStep old new) := rfl

/-- **C16 (a)**: whenever the plain expansion succeeds it is `opChanges x` with each line as one
unemphasised segment -/
theorem inlinePlain_ok (old new : Array Bytes) (x : Op) (cs : List InlineChange)
    (h : inlinePlain old new x = .ok cs) : cs = (opChanges x).map (plainOf old new) :=
  plain_mapM_ok old new _ cs h

/-- the ranges of the op are inside the line sequences -/
def InB (no nn : Nat) : Op → Prop
  | .equal o _ len => o + len ≤ no
  | .delete o len _ => o + len ≤ no
  | .insert _ n len => n + len ≤ nn
  | .replace o ol n nl => o + ol ≤ no ∧ n + nl ≤ nn

/-- the plain expansion of an in-range op never panics -/
theorem inlinePlain_total (old new : Array Bytes) (x : Op) (h : InB old.size new.size x) :
    inlinePlain old new x = .ok ((opChanges x).map (plainOf old new)) := by
  rw [inlinePlain_eq]
  apply plain_mapM_total
  intro c hc
  rw [C13.opChanges_eq_spec] at hc
  cases x <;> simp only [InB] at h <;> simp only [Spec.iterChanges, List.mem_append, List.mem_map, List.mem_range] at hc
  · obtain ⟨t, ht, rfl⟩ := hc; simp; omega
  · obtain ⟨t, ht, rfl⟩ := hc; simp; omega
  · obtain ⟨t, ht, rfl⟩ := hc; simp; omega
  · rcases hc with ⟨t, ht, rfl⟩ | ⟨t, ht, rfl⟩ <;> simp <;> omega

/-- **C16 (a)**: Equal / Delete / Insert ops take the plain expansion -/
theorem inlineChanges_nonReplace (lnl : Bytes → List (Nat × Nat)) (repair : Bool) (old new : Array Bytes) (x : Op)
    (segO segN : List (List Nat)) (w : World) (hx : x.tag ≠ .replace) :
    inlineChanges lnl repair old new x segO segN w = (inlinePlain old new x).map (·, w) := by
  cases x <;> first | rfl | exact absurd rfl hx

/-- **C16 (a)**: first ratio gate (`upper_seq_ratio < 0.5`): plain expansion, no comparison made -/
theorem inlineChanges_gate1 (lnl : Bytes → List (Nat × Nat)) (repair : Bool) (old new : Array Bytes)
    (o ol n nl : Nat) (segO segN : List (List Nat)) (w : World)
    (hb : o + ol ≤ old.size ∧ n + nl ≤ new.size)
    (hg : F32.lt (upperSeqRatio ((old.toList.drop o).take ol).length ((new.toList.drop n).take nl).length) F32.half = true) :
    inlineChanges lnl repair old new (.replace o ol n nl) segO segN w
      = (inlinePlain old new (.replace o ol n nl)).map (·, w) := by
  unfold inlineChanges
  have hb' : (decide (old.size < o + ol) || decide (new.size < n + nl)) = false := by simp; omega
  simp only [hb', Bool.false_eq_true, if_false, hg, if_true]

/-- **C16 (a)**: second ratio gate (`get_diff_ratio < 0.5`): plain expansion -/
theorem inlineChanges_gate2 (lnl : Bytes → List (Nat × Nat)) (repair : Bool) (old new : Array Bytes)
    (o ol n nl : Nat) (segO segN : List (List Nat)) (w w' : World) (ops2 : List Op)
    (hb : o + ol ≤ old.size ∧ n + nl ≤ new.size)
    (hg : ¬ F32.lt (upperSeqRatio ((old.toList.drop o).take ol).length ((new.toList.drop n).take nl).length) F32.half = true) :
    let oSeqs := (multiLookup 0 ((old.toList.drop o).take ol) segO).toArray
    let nSeqs := (multiLookup 0 ((new.toList.drop n).take nl) segN).toArray
    captureDiff .patience (Env.ofTokens (oSeqs.map (·.1)) (nSeqs.map (·.1))) repair 0 oSeqs.size 0 nSeqs.size w
      = .ok (ops2, w') →
    F32.lt (ratioF ((ratioPair ops2 oSeqs.size nSeqs.size).1 / 2) (ratioPair ops2 oSeqs.size nSeqs.size).2) F32.half = true →
    inlineChanges lnl repair old new (.replace o ol n nl) segO segN w
      = (inlinePlain old new (.replace o ol n nl)).map (·, w') := by
  intro oSeqs nSeqs hcap hr
  unfold inlineChanges
  have hb' : (decide (old.size < o + ol) || decide (new.size < n + nl)) = false := by simp; omega
  simp only [hb', Bool.false_eq_true, if_false, hg]
  simp only [oSeqs, nSeqs] at hcap hr
  simp only [hcap, hr, if_true]

/-! ## (d) numbering and the main theorem -/

theorem numberFrom_values (tag : CTag) (isNew : Bool) : ∀ (vs : List (List (Bool × Bytes))) (i : Nat),
    (numberFrom tag isNew i vs).map (·.values) = vs
  | [], _ => rfl
  | v :: vs, i => by simp [numberFrom, numberFrom_values tag isNew vs (i + 1)]

theorem numberFrom_idx (tag : CTag) (isNew : Bool) : ∀ (vs : List (List (Bool × Bytes))) (i : Nat),
    (numberFrom tag isNew i vs).map (fun c => (c.tag, c.oldIndex, c.newIndex))
      = (List.range vs.length).map fun t =>
          (tag, (if isNew then none else some (i + t)), (if isNew then some (i + t) else none))
  | [], _ => rfl
  | v :: vs, i => by
    simp only [numberFrom, List.map_cons, numberFrom_idx tag isNew vs (i + 1), List.length_cons,
      List.range_succ_eq_map, List.map_map, Nat.add_zero]
    congr 2
    funext t
    simp [Nat.add_assoc, Nat.add_comm 1]

theorem drop_take_eq_range (a : Array Bytes) (o l : Nat) (h : o + l ≤ a.size) :
    (a.toList.drop o).take l = (List.range l).map fun t => a[o + t]?.getD [] := by
  apply List.ext_getElem?
  intro j
  by_cases hj : j < l
  · have : o + j < a.size := by omega
    simp [hj, this]
  · rw [List.getElem?_eq_none (by simp; omega), List.getElem?_eq_none (by simp; omega)]

/-- `InlineChange::missing_newline` -/
def missingNewline (vs : List (Bool × Bytes)) : Bool :=
  !(match vs.getLast? with | some x => endsWithNewline x.2 | none => true)

/-- when no segment is empty (and there is one) the flag is that of the concatenated line -/
theorem missingNewline_agrees (vs : List (Bool × Bytes)) (hne : ∀ seg ∈ vs, seg.2 ≠ []) (h : vs ≠ []) :
    missingNewline vs = !endsWithNewline (segsConcat vs) := by
  obtain ⟨init, last, rfl⟩ : ∃ init last, vs = init ++ [last] :=
    ⟨vs.dropLast, vs.getLast h, (List.dropLast_concat_getLast h).symm⟩
  have hl := hne last (by simp)
  simp only [missingNewline, List.getLast?_append, List.getLast?_singleton, Option.some_or, segsConcat_append,
    endsWithNewline]
  have : (segsConcat [last]).getLast? = last.2.getLast? := by simp [segsConcat]
  rw [this]
  cases hq : last.2.getLast? with
  | none => exact absurd (List.getLast?_eq_none_iff.1 hq) hl
  | some x => simp

/-- **C16 (d), main theorem**: a Replace op inside the line sequences that passes both ratio gates,
with per-line word segmentations that satisfy the segmenter contract and a second-level script that is
merely VALID over the two word lists: `iter_inline_changes` does not panic; the changes have the tags
and indices of the plain expansion (`Delete o, o+1, …` then `Insert n, n+1, …`); the segments of each
change concatenate to the line of the corresponding plain change; every emphasised segment is a
lines-and-newlines token that does not end in a newline. -/
theorem inlineChanges_replace (lnl : Bytes → List (Nat × Nat)) (hlnl : ∀ s, Tiling (lnl s) s.length)
    (repair : Bool) (old new : Array Bytes)
    (o ol n nl : Nat) (segO segN : List (List Nat)) (w w' : World) (ops2 : List Op) {e2 : Nat → Nat → Bool}
    (hb : o + ol ≤ old.size ∧ n + nl ≤ new.size)
    (hg : ¬ F32.lt (upperSeqRatio ((old.toList.drop o).take ol).length ((new.toList.drop n).take nl).length) F32.half = true)
    (hO : SegsOK ((old.toList.drop o).take ol) segO) (hN : SegsOK ((new.toList.drop n).take nl) segN) :
    let oSeqs := (multiLookup 0 ((old.toList.drop o).take ol) segO).toArray
    let nSeqs := (multiLookup 0 ((new.toList.drop n).take nl) segN).toArray
    captureDiff .patience (Env.ofTokens (oSeqs.map (·.1)) (nSeqs.map (·.1))) repair 0 oSeqs.size 0 nSeqs.size w
      = .ok (ops2, w') →
    ¬ F32.lt (ratioF ((ratioPair ops2 oSeqs.size nSeqs.size).1 / 2) (ratioPair ops2 oSeqs.size nSeqs.size).2) F32.half = true →
    Walk e2 0 0 ops2 oSeqs.size nSeqs.size →
    ∃ cs, inlineChanges lnl repair old new (.replace o ol n nl) segO segN w = .ok (cs, w') ∧
      cs.map (fun c => (c.tag, c.oldIndex, c.newIndex))
        = (opChanges (.replace o ol n nl)).map (fun c => (c.tag, c.oldIndex, c.newIndex)) ∧
      cs.map (fun c => segsConcat c.values)
        = (opChanges (.replace o ol n nl)).map (fun c => segsConcat (plainOf old new c).values) ∧
      (∀ c ∈ cs, ∀ seg ∈ c.values, EmphOK lnl seg ∧ seg.2 ≠ []) ∧
      ∀ c ∈ cs, missingNewline c.values = !endsWithNewline (segsConcat c.values) := by
  intro oSeqs nSeqs hcap hr hw
  obtain ⟨ov, nv, h1, h2, h3, h4, h5⟩ := inlineApplyOps_main lnl hlnl _ _ segO segN hO hN ops2 hw
  have hlo : ov.toList.length = ol := by
    have := congrArg List.length h2; simp [Nat.min_def] at this; split at this <;> omega
  have hln : nv.toList.length = nl := by
    have := congrArg List.length h3; simp [Nat.min_def] at this; split at this <;> omega
  have hsegs : ∀ c ∈ numberFrom .delete false o ov.toList ++ numberFrom .insert true n nv.toList,
      (∀ seg ∈ c.values, EmphOK lnl seg ∧ seg.2 ≠ []) ∧ segsConcat c.values ≠ [] := by
    intro c hc
    rcases List.mem_append.1 hc with hc | hc
    · have hv : c.values ∈ ov.toList := by
        rw [← numberFrom_values .delete false ov.toList o]; exact List.mem_map_of_mem hc
      refine ⟨h4 _ hv, ?_⟩
      have : segsConcat c.values ∈ (old.toList.drop o).take ol := by rw [← h2]; exact List.mem_map_of_mem hv
      obtain ⟨k, hk⟩ := List.getElem?_of_mem this
      exact (hO k _ hk).2
    · have hv : c.values ∈ nv.toList := by
        rw [← numberFrom_values .insert true nv.toList n]; exact List.mem_map_of_mem hc
      refine ⟨h5 _ hv, ?_⟩
      have : segsConcat c.values ∈ (new.toList.drop n).take nl := by rw [← h3]; exact List.mem_map_of_mem hv
      obtain ⟨k, hk⟩ := List.getElem?_of_mem this
      exact (hN k _ hk).2
  refine ⟨numberFrom .delete false o ov.toList ++ numberFrom .insert true n nv.toList, ?_, ?_, ?_,
    fun c hc => (hsegs c hc).1, ?_⟩
  · unfold inlineChanges
    have hb' : (decide (old.size < o + ol) || decide (new.size < n + nl)) = false := by simp; omega
    simp only [hb', Bool.false_eq_true, if_false, hg]
    simp only [oSeqs, nSeqs] at hcap hr h1
    simp only [hcap, hr, Bool.false_eq_true, if_false, h1]
  · rw [C13.opChanges_eq_spec]
    simp only [List.map_append, numberFrom_idx, hlo, hln, Spec.iterChanges, List.map_map]
    congr 1
  · rw [C13.opChanges_eq_spec]
    have e1 : (numberFrom .delete false o ov.toList).map (fun c => segsConcat c.values) = ov.toList.map segsConcat := by
      have := congrArg (List.map segsConcat) (numberFrom_values .delete false ov.toList o)
      rwa [List.map_map] at this
    have e2 : (numberFrom .insert true n nv.toList).map (fun c => segsConcat c.values) = nv.toList.map segsConcat := by
      have := congrArg (List.map segsConcat) (numberFrom_values .insert true nv.toList n)
      rwa [List.map_map] at this
    simp only [List.map_append, e1, e2, h2, h3, Spec.iterChanges, List.map_map]
    rw [drop_take_eq_range old o ol hb.1, drop_take_eq_range new n nl hb.2]
    congr 1 <;> (apply List.map_congr_left; intro t _; simp [plainOf, segsConcat])
  · intro c hc
    obtain ⟨k1, k2⟩ := hsegs c hc
    refine missingNewline_agrees _ (fun seg hs => (k1 seg hs).2) ?_
    intro h0; rw [h0] at k2; exact k2 rfl

/-! ## (e) emphasised segments contain no line break -/

/-- a lines-and-newlines token that does not end in a newline contains no `\n` / `\r` byte -/
def LnlNoNL (lnl : Bytes → List (Nat × Nat)) : Prop :=
  ∀ s, ∀ r ∈ lnl s, endsWithNewline (slice s r) = false → ∀ x ∈ slice s r, x ≠ 10 ∧ x ≠ 13

/-- **C16 (e)**: an emphasised segment never contains a line-break byte -/
theorem emphOK_noNL {lnl : Bytes → List (Nat × Nat)} (h : LnlNoNL lnl) (seg : Bool × Bytes)
    (hs : EmphOK lnl seg) (he : seg.1 = true) : ∀ x ∈ seg.2, x ≠ 10 ∧ x ≠ 13 := by
  obtain ⟨h1, s, r, hr, h2⟩ := hs he
  rw [h2] at h1 ⊢
  exact h s r hr h1

/-- one group of a decoded chain: its span, the rest of the chain, no line break inside when all its
chars are non-newline, last byte a line break when its last char is a newline -/
theorem group_span (b : Bytes) (rest : List Tri) : ∀ (g : List Tri) (pos : Nat), g ≠ [] →
    DecChain b pos (g ++ rest) →
    ∃ mid, spanOf g = (pos, mid) ∧ pos < mid ∧ mid ≤ b.length ∧ DecChain b mid rest ∧
      ((∀ x ∈ g, isNewline x.2.2 = false) → NoNL b pos mid) ∧
      (∀ last, g.getLast? = some last → isNewline last.2.2 = true →
        b[mid - 1]? = some 10 ∨ b[mid - 1]? = some 13)
  | [], _, h, _ => absurd rfl h
  | [(s, e, c)], pos, _, hd => by
    obtain ⟨rfl, h2, h3, h4, h5⟩ := hd
    refine ⟨e, rfl, h2, h3, h5, ?_, ?_⟩
    · intro hn
      have hc : isNewline c = false := hn _ (List.mem_singleton.2 rfl)
      rcases dec_cases h2 h3 h4 with ⟨rfl, _, _⟩ | ⟨rfl, _, _⟩ | ⟨_, _, h⟩
      · exact absurd hc (by decide)
      · exact absurd hc (by decide)
      · exact h
    · intro last hl hnl
      simp at hl; subst hl
      rcases dec_cases h2 h3 h4 with ⟨_, he, hb⟩ | ⟨_, he, hb⟩ | ⟨h1, h2', _⟩
      · left; rw [he]; simpa using hb
      · right; rw [he]; simpa using hb
      · rcases (isNewline_iff c).1 hnl with h | h
        · exact absurd h h1
        · exact absurd h h2'
  | (s, e, c) :: t :: g, pos, _, hd => by
    obtain ⟨rfl, h2, h3, h4, h5⟩ := hd
    obtain ⟨mid, k1, k2, k3, k4, k5, k6⟩ := group_span b rest (t :: g) e (by simp) h5
    refine ⟨mid, ?_, by omega, k3, k4, ?_, ?_⟩
    · simp only [spanOf, List.head?_cons, Option.map_some, Option.getD_some, List.getLast?_cons_cons] at k1 ⊢
      rw [Prod.mk.injEq] at k1 ⊢
      exact ⟨rfl, k1.2⟩
    · intro hn
      have hc : isNewline c = false := hn _ (List.mem_cons_self ..)
      refine NoNL.append ?_ (k5 fun x hx => hn x (List.mem_cons_of_mem _ hx))
      rcases dec_cases h2 h3 h4 with ⟨rfl, _, _⟩ | ⟨rfl, _, _⟩ | ⟨_, _, h⟩
      · exact absurd hc (by decide)
      · exact absurd hc (by decide)
      · exact h
    · intro last hl hnl
      rw [List.getLast?_cons_cons] at hl
      exact k6 last hl hnl

theorem groups_span (b : Bytes) : ∀ (gs : List (List Tri)) (pos : Nat), (∀ g ∈ gs, g ≠ []) →
    DecChain b pos gs.flatten → ∀ g ∈ gs,
    ∃ st mid, spanOf g = (st, mid) ∧ st < mid ∧ mid ≤ b.length ∧
      ((∀ x ∈ g, isNewline x.2.2 = false) → NoNL b st mid) ∧
      (∀ last, g.getLast? = some last → isNewline last.2.2 = true →
        b[mid - 1]? = some 10 ∨ b[mid - 1]? = some 13)
  | [], _, _, _, g, hg => by simp at hg
  | g0 :: gs, pos, hne, hd, g, hg => by
    rw [List.flatten_cons] at hd
    obtain ⟨mid, k1, k2, k3, k4, k5, k6⟩ := group_span b gs.flatten g0 pos (hne g0 (List.mem_cons_self ..)) hd
    rcases List.mem_cons.1 hg with rfl | hg
    · exact ⟨pos, mid, k1, k2, k3, k5, k6⟩
    · exact groups_span b gs mid (fun g h => hne g (List.mem_cons_of_mem _ h)) k4 g hg

theorem maxRuns_mem (p : Char → Bool) : ∀ (gs : List (List Tri)), MaxRuns p gs → ∀ g ∈ gs,
    g ≠ [] ∧ ∀ x ∈ g, ∀ y ∈ g, p x.2.2 = p y.2.2
  | [], _, g, hg => by simp at hg
  | g0 :: gs, ⟨h1, h2, _, h4⟩, g, hg => by
    rcases List.mem_cons.1 hg with rfl | hg
    · exact ⟨h1, h2⟩
    · exact maxRuns_mem p gs h4 g hg

theorem ends_slice (b : Bytes) {st mid : Nat} (h1 : st < mid) (h3 : b[mid - 1]? = some 10 ∨ b[mid - 1]? = some 13) :
    endsWithNewline (slice b (st, mid)) = true := by
  rw [slice_split b (show st ≤ mid - 1 by omega) (show mid - 1 ≤ mid by omega)]
  rcases h3 with h | h
  · have := slice_one h
    rw [show mid - 1 + 1 = mid from by omega] at this
    simp [this, endsWithNewline]
  · have := slice_one h
    rw [show mid - 1 + 1 = mid from by omega] at this
    simp [this, endsWithNewline]

/-- **C16 (e)** for `[u8]` (bstr): a lines-and-newlines token not ending in a newline has no line-break byte -/
theorem lnlNoNL_B : LnlNoNL tokenizeLinesAndNewlinesB := by
  intro s r hr he
  obtain ⟨gs, hflat, hmax, heq⟩ := tokenizeLinesAndNewlinesB_shape s
  rw [heq] at hr
  obtain ⟨g, hg, rfl⟩ := List.mem_map.1 hr
  have hch := charIndicesB_chain s (Nat.le_refl _)
  rw [← hflat] at hch
  obtain ⟨hne, hcls⟩ := maxRuns_mem _ gs hmax g hg
  obtain ⟨st, mid, k1, k2, k3, k5, k6⟩ := groups_span s gs 0 (fun g h => (maxRuns_mem _ gs hmax g h).1) hch g hg
  rw [k1] at he ⊢
  obtain ⟨last, hl⟩ : ∃ last, g.getLast? = some last := by
    cases h : g.getLast? with
    | none => exact absurd (List.getLast?_eq_none_iff.1 h) hne
    | some l => exact ⟨l, rfl⟩
  have hlast : isNewline last.2.2 = false := by
    cases hc : isNewline last.2.2 with
    | false => rfl
    | true => rw [ends_slice s k2 (k6 last hl hc)] at he; cases he
  apply slice_noNL
  apply k5
  intro x hx
  rw [hcls x hx last (List.mem_of_getLast? hl), hlast]

/-- **C16 (e)** for `str`: the same over the UTF-8 encoding of a string -/
theorem lnlNoNL_S (cs : List Char) : ∀ r ∈ tokenizeLinesAndNewlinesS cs,
    endsWithNewline (slice (utf8EncAll cs) r) = false → ∀ x ∈ slice (utf8EncAll cs) r, x ≠ 10 ∧ x ≠ 13 := by
  rw [← tokenizeLinesAndNewlinesB_utf8]
  exact lnlNoNL_B (utf8EncAll cs)

end SimilarVerif.InlineP

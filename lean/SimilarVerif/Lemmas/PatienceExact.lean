import SimilarVerif.Lemmas.PatienceTotal
/-! # The raw Patience stream is exact without a deadline, and contains no `replace` call

`PatienceP.patience_sound` (Lemmas/Patience.lean) carries the invariant `Seg (eqB E) False …` — a valid,
NEAR-exact script — through the outer Myers run over the unique items.  Without a deadline every inner Myers
run (the gap runs of `Patience::equal`, the tail run of `Patience::finish`) is exact
(`MyersG.myersDiff_generic` + `MyersT.snake_found`), Patience's own `equal` calls are exact, and no hook
involved installs a deadline (`PatienceT.*_keeps`), so the same induction goes through with `Seg (eqB E) True …`
plus "no `replace`" plus "the clock is still absent". -/
namespace SimilarVerif.PatienceX
open Spec MyersP MyersG MyersT PatienceP PatienceT

/-- inner Myers run over `NoFinishHook(recording hook)` without a deadline: exact, no `replace`, clock kept -/
theorem myers_noFinish_exact (E : Env) (os oe ns ne : Nat) (r : Rec) (w : World) (r' : Rec) (w' : World)
    (hf : r.failAt = none) (ho : os ≤ oe) (hn : ns ≤ ne) (hb : InBounds E os oe ns ne) (hclk : w.clock = none)
    (hc : myersDiff E (noFinishHook recHook) os oe ns ne r w = .ok (r', w')) :
    ∃ ops, Seg (eqB E) True r os ns ops r' oe ne ∧ NoReplaceOp ops ∧ w'.clock = none := by
  obtain ⟨ops, r1, w1, h1, h2, h3, h4, h5, h6⟩ :=
    myersDiff_generic E (snake_in_box E) (noFinishHook recHook) os oe ns ne r w r' w' ho hn hb hc
  have he := h1.of_noFinish.rec_ext hf h5
  have hk := myersDiff_keeps_clock E _ (noFinish_keeps recHook_keeps) _ _ _ _ _ _ _ _ hc hclk
  simp [noFinishHook] at h2
  obtain ⟨rfl, rfl⟩ := h2
  exact ⟨ops, ⟨he, h3, h4, fun _ => h6 (snake_found E) (noFinish_keeps recHook_keeps) hclk⟩, h5, hk⟩

/-- tail Myers run over the recording hook without a deadline: exact, no `replace`, then `finish` -/
theorem myers_rec_exact (E : Env) (os oe ns ne : Nat) (r : Rec) (w : World) (r' : Rec) (w' : World)
    (hf : r.failAt = none) (ho : os ≤ oe) (hn : ns ≤ ne) (hb : InBounds E os oe ns ne) (hclk : w.clock = none)
    (hc : myersDiff E recHook os oe ns ne r w = .ok (r', w')) :
    ∃ ops, r' = { r with trace := r.trace ++ ops.map Call.op ++ [.finish] } ∧
      Walk (eqB E) os ns ops oe ne ∧ Exact os ns ops ∧ NoReplaceOp ops := by
  obtain ⟨ops, r1, w1, h1, h2, h3, h4, h5, h6⟩ :=
    myersDiff_generic E (snake_in_box E) recHook os oe ns ne r w r' w' ho hn hb hc
  have he := h1.rec_ext hf h5
  unfold Ext at he
  subst he
  simp [recHook, Rec.push, Except.map, hf] at h2
  obtain ⟨rfl, rfl⟩ := h2
  exact ⟨ops, by simp [hf], h3, h6 (snake_found E) recHook_keeps hclk, h5⟩

/-- what the user's recording hook holds when the Patience cursor is at `p`: a valid EXACT script without
`replace` from the range starts to the cursor -/
def UserInvX (E : Env) (os oe ns ne : Nat) (p : PState) (r : Rec) : Prop :=
  os ≤ p.oc ∧ p.oc ≤ oe ∧ ns ≤ p.nc ∧ p.nc ≤ ne ∧
  ∃ out, Seg (eqB E) True ({} : Rec) os ns out r p.oc p.nc ∧ NoReplaceOp out

def HInvX (E : Env) (os oe ns ne : Nat) (uo un : Array Nat) (i j : Nat) (st : RState × PState × Rec) : Prop :=
  UserInvX E os oe ns ne st.2.1 st.2.2 ∧ Pend uo un st.1 st.2.1 i j

section
variable (E : Env) (os oe ns ne : Nat) (hb : InBounds E os oe ns ne)
  (uo un : Array Nat) (hao : Asc uo os oe) (han : Asc un ns ne)
include hb hao han

theorem patAnchor_soundX (i j : Nat) (p : PState) (r : Rec) (w : World) (p' : PState) (r' : Rec) (w' : World)
    (hinv : UserInvX E os oe ns ne p r) (hcb : CB uo un p i j) (hclk : w.clock = none)
    (h : patAnchor E recHook uo un i j p r w = .ok (p', r', w')) :
    UserInvX E os oe ns ne p' r' ∧ uo[i]? = some p'.oc ∧ un[j]? = some p'.nc ∧ w'.clock = none := by
  have hkeep := patAnchor_keeps E recHook recHook_keeps uo un i j p r w p' r' w' h hclk
  unfold patAnchor at h
  split at h
  · rename_i a b hua hub
    have hoa : p.oc ≤ a := hcb.1 i a (Nat.le_refl _) hua
    have hnb : p.nc ≤ b := hcb.2 j b (Nat.le_refl _) hub
    have hra := hao.range i a hua
    have hrb := han.range j b hub
    obtain ⟨h1, h2, h3, h4, out, sg, hnro⟩ := hinv
    simp only at h
    split at h
    · simp at h
    · rename_i oc nc w1 hscan
      have hc1 : w1.clock = none := by rw [patScan_clock E _ _ _ _ _ _ _ _ _ hscan]; exact hclk
      obtain ⟨k, rfl, rfl, hk3, hk4, hk5⟩ := patScan_spec E a b _ _ _ _ _ _ _ hscan
      have hk4 := hk4 hoa
      have hk5 := hk5 hnb
      split at h
      · simp at h
      · rename_i r1 w2 hem
        have hf : r.failAt = none := sg.failAt rfl
        have hsg1 : ∃ eqs, Seg (eqB E) True r p.oc p.nc eqs r1 (p.oc + k) (p.nc + k) ∧ NoReplaceOp eqs ∧
            w2.clock = none := by
          split at hem
          · rename_i hpos
            have e1 : p.oc + k - p.oc = k := by omega
            rw [e1] at hem
            obtain ⟨sg1, rfl⟩ := Seg.equal (e := eqB E) (P := True) hf hem (by omega) hk3
            exact ⟨_, sg1, trivial, hc1⟩
          · rename_i hpos
            simp only [Except.ok.injEq, Prod.mk.injEq] at hem
            obtain ⟨rfl, rfl⟩ := hem
            have : k = 0 := by omega
            subst this
            exact ⟨[], Seg.nil, trivial, hc1⟩
        obtain ⟨eqs, sg1, hnr1, hc2⟩ := hsg1
        split at h
        · simp at h
        · rename_i r2 w3 hmy
          simp only [Except.ok.injEq, Prod.mk.injEq] at h
          obtain ⟨rfl, rfl, rfl⟩ := h
          obtain ⟨ops, sg2, hnr2, -⟩ := myers_noFinish_exact E (p.oc + k) a (p.nc + k) b r1 w2 _ _
            (sg1.failAt hf) hk4 hk5 (InBounds_sub hb (by omega) (by omega) (by omega) (by omega)) hc2 hmy
          exact ⟨⟨by simp only; omega, by simp only; omega, by simp only; omega, by simp only; omega,
            _, sg.append (sg1.append sg2),
            noReplaceOp_append _ _ hnro (noReplaceOp_append _ _ hnr1 hnr2)⟩, hua, hub, hkeep⟩
  · simp at h

theorem patEqual_soundX : ∀ (len i j : Nat) (p : PState) (r : Rec) (w : World) (p' : PState) (r' : Rec) (w' : World),
    UserInvX E os oe ns ne p r → CB uo un p i j → w.clock = none →
    patEqual E recHook uo un len i j p r w = .ok (p', r', w') →
    UserInvX E os oe ns ne p' r' ∧ CB uo un p' (i + len) (j + len) := by
  intro len
  induction len with
  | zero =>
    intro i j p r w p' r' w' hinv hcb _ h
    simp only [patEqual, Except.ok.injEq, Prod.mk.injEq] at h
    obtain ⟨rfl, rfl, rfl⟩ := h
    exact ⟨hinv, hcb⟩
  | succ l ih =>
    intro i j p r w p' r' w' hinv hcb hclk h
    simp only [patEqual] at h
    split at h
    · simp at h
    · rename_i p1 r1 w1 han1
      obtain ⟨hinv1, hu1, hu2, hc1⟩ := patAnchor_soundX E os oe ns ne hb uo un hao han i j p r w p1 r1 w1 hinv hcb hclk han1
      have hcb1 : CB uo un p1 (i+1) (j+1) :=
        ⟨fun k a hk hka => Nat.le_of_lt (hao.mono i k _ a (by omega) hu1 hka),
         fun k b hk hkb => Nat.le_of_lt (han.mono j k _ b (by omega) hu2 hkb)⟩
      obtain ⟨h1, h2⟩ := ih (i+1) (j+1) p1 r1 w1 p' r' w' hinv1 hcb1 hc1 h
      have e1 : i + 1 + l = i + (l + 1) := by omega
      have e2 : j + 1 + l = j + (l + 1) := by omega
      rw [e1, e2] at h2
      exact ⟨h1, h2⟩

theorem flushEq_patX (i j : Nat) (rs : RState) (p : PState) (r : Rec) (w : World) (rs' : RState)
    (p' : PState) (r' : Rec) (w' : World)
    (hinv : UserInvX E os oe ns ne p r) (hp : Pend uo un rs p i j) (hclk : w.clock = none)
    (h : rFlushEq (patienceHook E recHook uo un oe ne) rs (p, r) w = .ok (rs', (p', r'), w')) :
    UserInvX E os oe ns ne p' r' ∧ rs'.eq = none ∧ CB uo un p' i j := by
  unfold rFlushEq at h
  unfold Pend at hp
  split at h
  · rename_i o n l heq
    rw [heq] at hp
    obtain ⟨rfl, rfl, hcb⟩ := hp
    simp only [patienceHook] at h
    split at h
    · simp at h
    · rename_i st1 w1 hcall
      split at hcall
      · simp at hcall
      · rename_i p1 r1 w2 hpe
        simp only [Except.ok.injEq, Prod.mk.injEq] at hcall h
        obtain ⟨rfl, rfl⟩ := hcall
        obtain ⟨rfl, ⟨rfl, rfl⟩, rfl⟩ := h
        obtain ⟨h1, h2⟩ := patEqual_soundX E os oe ns ne hb uo un hao han l o n p r w _ _ _ hinv hcb hclk hpe
        exact ⟨h1, rfl, h2⟩
  · rename_i heq
    rw [heq] at hp
    simp only [Except.ok.injEq, Prod.mk.injEq] at h
    obtain ⟨rfl, ⟨rfl, rfl⟩, rfl⟩ := h
    exact ⟨hinv, heq, hp⟩

end

section
variable (E : Env) (os oe ns ne : Nat) (hb : InBounds E os oe ns ne)
  (uo un : Array Nat) (hao : Asc uo os oe) (han : Asc un ns ne)

theorem step_equalX (i j l : Nat) (st : RState × PState × Rec) (w : World) (st' : RState × PState × Rec) (w' : World)
    (hinv : HInvX E os oe ns ne uo un i j st)
    (h : (replaceHook (patienceHook E recHook uo un oe ne)).call (.op (.equal i j l)) st w = .ok (st', w')) :
    HInvX E os oe ns ne uo un (i + l) (j + l) st' := by
  obtain ⟨rs, p, r⟩ := st
  obtain ⟨hu, hp⟩ := hinv
  simp only at hu hp
  simp only [replaceHook] at h
  split at h
  · simp at h
  · rename_i rs1 st1 w1 hfl
    obtain ⟨rfl, heq⟩ := flushDelIns_pat E oe ne uo un rs p r w rs1 st1 w1 hfl
    unfold Pend at hp
    rw [← heq] at hp
    split at h
    · rename_i eo en el heq1
      rw [heq1] at hp
      simp only [Except.ok.injEq, Prod.mk.injEq] at h
      obtain ⟨rfl, rfl⟩ := h
      refine ⟨hu, ?_⟩
      simp only [Pend]
      exact ⟨by omega, by omega, hp.2.2⟩
    · rename_i heq1
      rw [heq1] at hp
      simp only [Except.ok.injEq, Prod.mk.injEq] at h
      obtain ⟨rfl, rfl⟩ := h
      refine ⟨hu, ?_⟩
      simp only [Pend, true_and]
      exact hp

include hb hao han

theorem step_deleteX (i j l cn : Nat) (st : RState × PState × Rec) (w : World) (st' : RState × PState × Rec) (w' : World)
    (hinv : HInvX E os oe ns ne uo un i j st) (hclk : w.clock = none)
    (h : (replaceHook (patienceHook E recHook uo un oe ne)).call (.op (.delete i l cn)) st w = .ok (st', w')) :
    HInvX E os oe ns ne uo un (i + l) j st' := by
  obtain ⟨rs, p, r⟩ := st
  obtain ⟨hu, hp⟩ := hinv
  simp only at hu hp
  simp only [replaceHook] at h
  split at h
  · simp at h
  · rename_i rs1 st1 w1 hfl
    obtain ⟨p1, r1⟩ := st1
    obtain ⟨hu1, heq1, hcb1⟩ := flushEq_patX E os oe ns ne hb uo un hao han i j rs p r w rs1 p1 r1 w1 hu hp hclk hfl
    have hcb2 := hcb1.mono (Nat.le_add_right i l) (Nat.le_refl j)
    split at h
    · split at h
      · simp only [Except.ok.injEq, Prod.mk.injEq] at h
        obtain ⟨rfl, rfl⟩ := h
        exact ⟨hu1, by simp only [Pend, heq1]; exact hcb2⟩
      · simp at h
    · simp only [Except.ok.injEq, Prod.mk.injEq] at h
      obtain ⟨rfl, rfl⟩ := h
      exact ⟨hu1, by simp only [Pend, heq1]; exact hcb2⟩

theorem step_insertX (i j l co : Nat) (st : RState × PState × Rec) (w : World) (st' : RState × PState × Rec) (w' : World)
    (hinv : HInvX E os oe ns ne uo un i j st) (hclk : w.clock = none)
    (h : (replaceHook (patienceHook E recHook uo un oe ne)).call (.op (.insert co j l)) st w = .ok (st', w')) :
    HInvX E os oe ns ne uo un i (j + l) st' := by
  obtain ⟨rs, p, r⟩ := st
  obtain ⟨hu, hp⟩ := hinv
  simp only at hu hp
  simp only [replaceHook] at h
  split at h
  · simp at h
  · rename_i rs1 st1 w1 hfl
    obtain ⟨p1, r1⟩ := st1
    obtain ⟨hu1, heq1, hcb1⟩ := flushEq_patX E os oe ns ne hb uo un hao han i j rs p r w rs1 p1 r1 w1 hu hp hclk hfl
    have hcb2 := hcb1.mono (Nat.le_refl i) (Nat.le_add_right j l)
    split at h
    · split at h
      · simp only [Except.ok.injEq, Prod.mk.injEq] at h
        obtain ⟨rfl, rfl⟩ := h
        exact ⟨hu1, by simp only [Pend, heq1]; exact hcb2⟩
      · simp at h
    · simp only [Except.ok.injEq, Prod.mk.injEq] at h
      obtain ⟨rfl, rfl⟩ := h
      exact ⟨hu1, by simp only [Pend, heq1]; exact hcb2⟩

/-- the whole outer run preserves the invariant and the absent clock -/
theorem outer_runX (e' : Nat → Nat → Bool) : ∀ (ops : List Op) (i j i2 j2 : Nat)
    (st : RState × PState × Rec) (w : World) (st' : RState × PState × Rec) (w' : World),
    Delivered (replaceHook (patienceHook E recHook uo un oe ne)) ops st w st' w' →
    Walk e' i j ops i2 j2 → NoReplaceOp ops → w.clock = none →
    HInvX E os oe ns ne uo un i j st → HInvX E os oe ns ne uo un i2 j2 st' ∧ w'.clock = none := by
  intro ops i j i2 j2 st w st' w' hd
  have hkeep : HookKeepsClock (replaceHook (patienceHook E recHook uo un oe ne)) :=
    replaceHook_keeps (patienceHook_keeps E recHook recHook_keeps uo un oe ne)
  induction hd generalizing i j with
  | nil hk => intro hw _ hclk hinv; obtain ⟨rfl, rfl⟩ := hw; exact ⟨hinv, hk hclk⟩
  | @cons x xs s s2 s' w w1 w2 w' hk hc _ ih =>
    intro hw hnr hclk hinv
    have hc1 : w1.clock = none := hk hclk
    have hc2 : w2.clock = none := hkeep _ _ _ _ _ hc hc1
    cases x with
    | equal co cn l =>
      simp only [Walk] at hw
      obtain ⟨rfl, rfl, _, _, hw'⟩ := hw
      exact ih _ _ hw' hnr hc2 (step_equalX E os oe ns ne uo un _ _ l s w1 s2 w2 hinv hc)
    | delete co l cn =>
      simp only [Walk] at hw
      obtain ⟨rfl, _, hw'⟩ := hw
      exact ih _ _ hw' hnr hc2 (step_deleteX E os oe ns ne hb uo un hao han _ _ l cn s w1 s2 w2 hinv hc1 hc)
    | insert co cn l =>
      simp only [Walk] at hw
      obtain ⟨rfl, _, hw'⟩ := hw
      exact ih _ _ hw' hnr hc2 (step_insertX E os oe ns ne hb uo un hao han _ _ l co s w1 s2 w2 hinv hc1 hc)
    | replace co ol cn nl => exact hnr.elim

/-- `finish`: pending anchors, then the tail run with the real `finish` -/
theorem step_finishX (i j : Nat) (st : RState × PState × Rec) (w : World) (st' : RState × PState × Rec) (w' : World)
    (hinv : HInvX E os oe ns ne uo un i j st) (hclk : w.clock = none)
    (h : (replaceHook (patienceHook E recHook uo un oe ne)).call .finish st w = .ok (st', w')) :
    ∃ ops, st'.2.2.trace = ops.map Call.op ++ [.finish] ∧ Walk (eqB E) os ns ops oe ne ∧ Exact os ns ops ∧
      NoReplaceOp ops := by
  obtain ⟨rs, p, r⟩ := st
  obtain ⟨hu, hp⟩ := hinv
  simp only at hu hp
  have hkp : HookKeepsClock (patienceHook E recHook uo un oe ne) :=
    patienceHook_keeps E recHook recHook_keeps uo un oe ne
  simp only [replaceHook] at h
  split at h
  · simp at h
  · rename_i rs1 st1 w1 hfl
    obtain ⟨p1, r1⟩ := st1
    have hc1 : w1.clock = none := rFlushEq_keeps hkp hfl hclk
    obtain ⟨hu1, -, -⟩ := flushEq_patX E os oe ns ne hb uo un hao han i j rs p r w rs1 p1 r1 w1 hu hp hclk hfl
    split at h
    · simp at h
    · rename_i rs2 st2 w2 hfl2
      have hc2 : w2.clock = none := rFlushDelIns_keeps hkp hfl2 hc1
      obtain ⟨rfl, -⟩ := flushDelIns_pat E oe ne uo un rs1 p1 r1 w1 rs2 st2 w2 hfl2
      split at h
      · simp at h
      · rename_i st3 w3 hfin
        simp only [Except.ok.injEq, Prod.mk.injEq] at h
        obtain ⟨rfl, rfl⟩ := h
        simp only [patienceHook] at hfin
        split at hfin
        · simp at hfin
        · rename_i r3 w4 hmy
          simp only [Except.ok.injEq, Prod.mk.injEq] at hfin
          obtain ⟨rfl, rfl⟩ := hfin
          obtain ⟨h1, h2, h3, h4, out, sg, hnro⟩ := hu1
          obtain ⟨ops, he, hw, hx, hnr⟩ := myers_rec_exact E p1.oc oe p1.nc ne r1 w2 r3 w4 (sg.failAt rfl) h2 h4
            (InBounds_sub hb h1 (Nat.le_refl _) h3 (Nat.le_refl _)) hc2 hmy
          have hxo := sg.ext
          unfold Ext at hxo
          subst hxo
          subst he
          exact ⟨out ++ ops, by simp, (Walk_append _ _ _ _ _ _).2 ⟨_, _, sg.walk, hw⟩,
            Exact_append _ _ _ _ _ _ sg.walk (sg.exact trivial) hx, noReplaceOp_append _ _ hnro hnr⟩

end

/-- **Patience without a deadline: the raw stream is exact and contains no `replace`** (whenever the call
returns; it does for in-bounds ranges, `PatienceT.patience_total`) -/
theorem patience_exact (E : Env) (os oe ns ne : Nat) (w : World) (r' : Rec) (w' : World)
    (ho : os ≤ oe) (hn : ns ≤ ne) (hb : InBounds E os oe ns ne) (hclk : w.clock = none)
    (h : patienceDiff E recHook os oe ns ne {} w = .ok (r', w')) :
    ∃ ops, r'.trace = ops.map Call.op ++ [.finish] ∧ Walk (eqB E) os ns ops oe ne ∧ Exact os ns ops ∧
      NoReplaceOp ops := by
  unfold patienceDiff at h
  split at h
  · rename_i uo un hu1 hu2
    have hao := unique_asc hu1
    have han := unique_asc hu2
    simp only at h
    split at h
    · simp at h
    · rename_i rs p r1 w1 hmy
      simp only [Except.ok.injEq, Prod.mk.injEq] at h
      obtain ⟨rfl, rfl⟩ := h
      obtain ⟨ops, s1, w2, hd, hfin, hw, -, hnr, -⟩ :=
        myersDiff_generic (E.sub uo.toArray un.toArray) (snake_in_box _) _ 0 uo.toArray.size 0 un.toArray.size
          _ w _ _ (Nat.zero_le _) (Nat.zero_le _) (sub_inBounds hb hao han) hmy
      have hinv0 : HInvX E os oe ns ne uo.toArray un.toArray 0 0
          (({} : RState), ({ oc := os, nc := ns } : PState), ({} : Rec)) := by
        refine ⟨⟨Nat.le_refl _, ho, Nat.le_refl _, hn, [], Seg.nil, trivial⟩, ?_⟩
        simp only [Pend]
        exact ⟨fun k a _ hk => (hao.range k a hk).1, fun k b _ hk => (han.range k b hk).1⟩
      obtain ⟨hinv1, hc2⟩ := outer_runX E os oe ns ne hb _ _ hao han _ ops 0 0 _ _ _ w s1 w2 hd hw hnr hclk hinv0
      exact step_finishX E os oe ns ne hb _ _ hao han _ _ s1 w2 _ _ hinv1 hc2 hfin
  · simp at h

end SimilarVerif.PatienceX

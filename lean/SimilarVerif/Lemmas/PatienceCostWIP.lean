/-! # Patience cost — material that is NOT proved (comments only; nothing here is imported)

## 1. C07 for Patience after the first probe that answered "exceeded" (general case)

Proved (`PatienceCost.lean`): `patience_expired_entry` — the call is ENTERED on an expired clock.
Not proved: the `PostN`-style statement of `DeadlineP.myersDiff_post_expiry` for Patience ("after
the first probe that answered exceeded, at most c₁·(N+M)+c₂ more comparisons").  The ingredients
are all available, what is missing is a ghost-instrumented Patience in which ONE ghost
`g : Option World` (the world right after the first "exceeded") is shared by the outer `conquer`
and by the hook (the first expiry may happen in the outer `find_middle_snake`, inside a gap run, or in
the tail run):

* `conquerGH`: `DeadlineP.conquerG` whose hook calls take and return the ghost
  (`Call → σ → Option World → World → Res (σ × Option World × World)`), with `erase`/`expired` lemmas
  and a `PostN` with a hook account `γ` (as `conquer_expired_acct` does for the entry-expired case);
* ghost versions of `patAnchor`/`patEqual`/`patienceHook` built from `DeadlineP.conquerG`
  (`myersDiff_post_expiry` bounds the gap run in which the expiry happens by `3·min`), after which
  every further anchor costs `≤ min(advance) + 3` (`patAnchor_expired`) and every pending outer frame
  `≤ min + 2` own comparisons (`conquer_expired_acct`);
* the invariant `SInv … (some 0) (CIA os ns)` of `PatienceCost.lean` then applies verbatim from the
  expiry point on (`crun`, `cfinish` are already generic in the kept clock value).
Expected constant: about `3·min(N,M)` (frame/gap run of the expiry) `+ 5·min(N,M) + 4`.

## 2. The consistency hypothesis of `patience_cmps` is necessary

`patience_cmps` assumes `IdentP.EqPattern E os oe ns ne`.  Without it the statement with ANY constant
is false: take `E.on i j = (i == j)`, `E.oo i j = (i == j)`, `E.nn i j = (i == j || (i, j both odd))`
on `N = M` items.  Patience reports the identity (`Dp = 0`), but `unique` drops every odd new index, so
the outer run compares `N` unique old items with `N/2` unique new ones at edit distance `N/2` and makes
quadratically many comparisons.  Measured on the model (`#eval`):
`N = 1000: cmps = 136478 > 57·2001·1 = 114057`, `N = 1600: cmps = 339660` (`Dp = 0` in both).

  def badEnv (N : Nat) : Env where
    on i j := if i < N && j < N then some (i == j) else none
    oo i j := if i < N && j < N then some (i == j) else none
    nn i j := if i < N && j < N then some (i == j || (i % 2 == 1 && j % 2 == 1)) else none
  -- patienceDiff (badEnv N) recHook 0 N 0 N {} {}

For such environments `patience_cmps_split` still holds (it only needs `InBounds`): the outer term is
`22·(|uo|+|un|+1)·(D_outer+1)` with `D_outer` the edit distance of the unique lists.
-/

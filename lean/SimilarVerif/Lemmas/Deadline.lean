import SimilarVerif.Lemmas.HookFail
import SimilarVerif.Lemmas.Utils
import SimilarVerif.Lemmas.Myers
/-! # C07: the deadline

* §1 (`lcs*`): LCS makes no item comparison after the clock has expired.
* §2 (`conquer_expired` …): Myers after expiry: every `findMiddleSnake` answers `none` after one probe and no
  comparison; a `conquer` started on an expired clock only runs its two scans and never recurses.
* §3 (`never_expires*`): a deadline that never expires gives exactly the result of no deadline
  (every model function is parametric in clock/probe counter as long as no probe answers "exceeded").
* §4 (`conquerG_spec`, `myersDiff_post_expiry`): Myers makes at most `3 * min n m` comparisons after the
  first probe that answered "exceeded" (ghost-instrumented `conquer`; relative to `SnakeInBox`).
-/
namespace SimilarVerif.DeadlineP
open SimilarVerif HookFail

section Tactics
open Lean Elab Tactic Meta

/-- `gather [L₁, …]`: for every hypothesis `h : _ = _` and every `Lᵢ`, add `Lᵢ h` when it elaborates -/
elab "gather " "[" ls:term,* "]" : tactic => withMainContext do
  let mut hs : Array (TSyntax `term) := #[]
  for ldecl in ← getLCtx do
    if ldecl.isImplementationDetail then continue
    let ty ← instantiateMVars ldecl.type
    unless ty.isAppOfArity ``Eq 3 do continue
    hs := hs.push (← Term.exprToSyntax ldecl.toExpr)
  for h in hs do
    for l in ls.getElems do
      try withoutRecover (evalTactic (← `(tactic| with_reducible have := $l $h))) catch _ => pure ()

end Tactics

/-- close `w'.clock = some 0 ∧ (four arithmetic facts)` from gathered facts -/
macro "fin_exp" : tactic =>
  `(tactic| (refine ⟨by simp only [*], ?_, ?_, ?_, ?_⟩ <;> omega))

/-- the hook never touches the world (true of the recording hook and of `Replace` over it) -/
def WorldId {σ} (h : Hook σ) : Prop := ∀ c s w s' w', h.call c s w = .ok (s', w') → w' = w

theorem push_map_world {r r' : Rec} {c : Call} {w w' : World} (hc : (r.push c).map (·, w) = .ok (r', w')) :
    w' = w := (push_map_ok hc).2

theorem recHook_worldId : WorldId recHook := by
  intro c r w r' w' hc
  unfold recHook at hc
  dsimp only at hc
  split at hc
  · split at hc
    · exact push_map_world hc
    · split at hc
      · cases hc
      · exact push_map_world hc
  · exact push_map_world hc

theorem call_world {σ} {h : Hook σ} (hW : WorldId h) {c s w s' w'} (hc : h.call c s w = .ok (s', w')) : w' = w :=
  hW _ _ _ _ _ hc

theorem emit_world {σ} {h : Hook σ} (hW : WorldId h) {x s w s' w'} (hc : emit h x s w = .ok (s', w')) : w' = w :=
  hW _ _ _ _ _ hc

theorem optEmit_world {σ} {h : Hook σ} (hW : WorldId h) {c : Prop} [Decidable c] {x s w s' w'}
    (hc : (if c then h.call x s w else .ok (s, w)) = .ok (s', w')) : w' = w := by
  split at hc
  · exact hW _ _ _ _ _ hc
  · cases hc; rfl

/-- the world right after a probe that answered "exceeded" -/
def JustExpired (wt : World) : Prop := ∃ wp : World, wp.clock = some 0 ∧ wt = { wp with probes := wp.probes + 1 }

theorem JustExpired.clock {wt : World} (h : JustExpired wt) : wt.clock = some 0 := by
  obtain ⟨wp, h0, rfl⟩ := h; exact h0

theorem probe_true {w w' : World} (h : probe w = (true, w')) :
    w.clock = some 0 ∧ w' = { w with probes := w.probes + 1 } := by
  unfold probe at h
  split at h
  · cases h
  · cases h; exact ⟨‹_›, rfl⟩
  · cases h

theorem probe_expired {w : World} (h : w.clock = some 0) :
    probe w = (true, { w with probes := w.probes + 1 }) := by
  unfold probe; rw [h]

/-! ## 1. LCS -/

/-- `make_table` gives up only directly after a probe that answered "exceeded": nothing (in particular
no comparison) happens between that probe and the return. -/
theorem tableRows_none (E : Env) (os ns ol : Nat) : ∀ (cnt : Nat) (t : Table) (w wt : World),
    tableRows E os ns ol cnt t w = .ok (none, wt) → JustExpired wt := by
  intro cnt
  induction cnt with
  | zero => intro t w wt h; simp [tableRows] at h
  | succ i ih =>
    intro t w wt h
    unfold tableRows at h
    split at h
    · rename_i w1 hp
      cases h
      obtain ⟨h0, rfl⟩ := probe_true hp
      exact ⟨w, h0, rfl⟩
    · split at h
      · cases h
      · exact ih _ _ _ h

theorem makeTable_none {E : Env} {os oe ns ne : Nat} {w wt : World}
    (h : makeTable E os oe ns ne w = .ok (none, wt)) : JustExpired wt :=
  tableRows_none E _ _ _ _ _ _ _ h

/-- on an expired clock `make_table` returns after one probe and zero comparisons -/
theorem makeTable_expired {E : Env} {os oe ns ne : Nat} {w : World} (h0 : w.clock = some 0) (hn : ns < ne) :
    makeTable E os oe ns ne w = .ok (none, { w with probes := w.probes + 1 }) := by
  unfold makeTable
  obtain ⟨k, hk⟩ : ∃ k, ne - ns = k + 1 := ⟨ne - ns - 1, by omega⟩
  simp only [hk, tableRows, probe_expired h0]

theorem makeTable_expired' {E : Env} {os oe ns ne : Nat} {w : World} (h0 : w.clock = some 0) (hn : ns < ne) :
    ∃ wt, makeTable E os oe ns ne w = .ok (none, wt) ∧ wt.clock = some 0 ∧ wt.cmps = w.cmps ∧
      wt.probes = w.probes + 1 :=
  ⟨_, makeTable_expired h0 hn, h0, rfl, rfl⟩

/-- **C07 (2)**: if `make_table` inside `lcs::diff_deadline` gave up (world `wt`, directly after the
expired probe), the rest of the call — the prefix `equal`, the two flushes, the suffix `equal`,
`finish` — does not touch the world: no comparison (and no probe) after the expiry. -/
theorem lcsDiff_expired {σ} {h : Hook σ} (hW : WorldId h) {E : Env} {os oe ns ne : Nat} {s s' : σ}
    {w w' w0 w1 wt : World} {p sl : Nat} (hn : ns < ne) (ho : os < oe)
    (hp : commonPrefixLen E os oe ns ne w = .ok (p, w0))
    (hs : commonSuffixLen E (os + p) oe (ns + p) ne w0 = .ok (sl, w1))
    (hne : (p == oe - os && oe - os == ne - ns) = false)
    (hm : makeTable E (os + p) (oe - sl) (ns + p) (ne - sl) w1 = .ok (none, wt))
    (hd : lcsDiff E h os oe ns ne s w = .ok (s', w')) : w' = wt ∧ JustExpired wt := by
  refine ⟨?_, makeTable_none hm⟩
  unfold lcsDiff at hd
  rw [if_neg (by omega), if_neg (by omega)] at hd
  simp only [hp, hs, hne, hm, Bool.false_eq_true, ↓reduceIte] at hd
  destruct_run
  all_goals (gather [optEmit_world hW, call_world hW]; subst_vars; rfl)

/-! ## 2. Myers after expiry -/

theorem snakeLoop_expired (E : Env) (os oe ns ne off : Nat) (delta : Int) (odd : Bool) (cnt d : Nat)
    (vf vb : V) {w : World} (h0 : w.clock = some 0) :
    snakeLoop E os oe ns ne off delta odd (cnt + 1) d vf vb w =
      .ok (vf, vb, none, { w with probes := w.probes + 1 }) := by
  simp only [snakeLoop, probe_expired h0]

/-- **C07 (3)**: on an expired clock `find_middle_snake` answers `None` after exactly one probe and
no comparison. -/
theorem findMiddleSnake_expired {E : Env} {os oe ns ne off : Nat} {vf vb vf' vb' : V} {w w' : World}
    {res : Option (Nat × Nat)} (h0 : w.clock = some 0)
    (h : findMiddleSnake E os oe ns ne off vf vb w = .ok (vf', vb', res, w')) :
    res = none ∧ w' = { w with probes := w.probes + 1 } := by
  unfold findMiddleSnake at h
  simp only [maxD] at h
  split at h
  · cases h
  · split at h
    · cases h
    · rw [snakeLoop_expired (h0 := h0)] at h
      simp only [Bool.or_eq_true] at h
      split at h
      · cases h
      · cases h
        exact ⟨rfl, rfl⟩

/-- the clock as a number: `0` = no deadline, `g + 1` = `g` more probes answer "not exceeded" -/
def ck (w : World) : Nat := match w.clock with | none => 0 | some g => g + 1

theorem ck_one {w : World} : ck w = 1 ↔ w.clock = some 0 := by
  unfold ck
  cases w.clock with
  | none => simp
  | some g => simp

theorem ck_congr {w w' : World} (h : w'.clock = w.clock) : ck w' = ck w := by unfold ck; rw [h]

theorem cpl_facts {E : Env} {os oe ns ne : Nat} {w w' : World} {p : Nat}
    (h : commonPrefixLen E os oe ns ne w = .ok (p, w')) :
    p ≤ oe - os ∧ p ≤ ne - ns ∧ ck w' = ck w ∧ w'.probes = w.probes ∧ w.cmps ≤ w'.cmps ∧
    w'.cmps ≤ w.cmps + p + 1 := by
  obtain ⟨h1, h2, _, _, h3, h4, h5, h6⟩ := commonPrefixLen_spec h
  exact ⟨h1, h2, ck_congr h3, h4, h5, by omega⟩

theorem csl_facts {E : Env} {os oe ns ne : Nat} {w w' : World} {p : Nat}
    (h : commonSuffixLen E os oe ns ne w = .ok (p, w')) :
    p ≤ oe - os ∧ p ≤ ne - ns ∧ ck w' = ck w ∧ w'.probes = w.probes ∧ w.cmps ≤ w'.cmps ∧
    w'.cmps ≤ w.cmps + p + 1 := by
  obtain ⟨h1, h2, _, _, h3, h4, h5, h6⟩ := commonSuffixLen_spec h
  exact ⟨h1, h2, ck_congr h3, h4, h5, by omega⟩

theorem fms_facts {E : Env} {os oe ns ne off : Nat} {vf vb vf' vb' : V} {w w' : World}
    {res : Option (Nat × Nat)} (h : findMiddleSnake E os oe ns ne off vf vb w = .ok (vf', vb', res, w')) :
    ck w = 1 → ck w' = 1 ∧ w'.cmps = w.cmps ∧ w'.probes = w.probes + 1 := by
  intro h0
  obtain ⟨rfl, rfl⟩ := findMiddleSnake_expired (ck_one.1 h0) h
  exact ⟨h0, rfl, rfl⟩

theorem fms_some {E : Env} {os oe ns ne off : Nat} {vf vb vf' vb' : V} {w w' : World} {q : Nat × Nat}
    (h : findMiddleSnake E os oe ns ne off vf vb w = .ok (vf', vb', some q, w')) : ck w ≠ 1 := by
  intro h0
  have := (findMiddleSnake_expired (ck_one.1 h0) h).1
  cases this

/-- close `w'.clock = some 0 ∧ (four arithmetic facts)` from gathered arithmetic facts -/
macro "fin_exp" : tactic =>
  `(tactic| first | (exfalso; omega) | (refine ⟨ck_one.1 ?_, ?_, ?_, ?_, ?_⟩ <;> omega))

/-- **C07 (3)**: a `conquer` call started on an expired clock only runs its prefix scan and its suffix
scan (at most `min n m + 2` comparisons together), probes at most once (inside `find_middle_snake`,
which gives up at once) … -/
theorem conquer_expired {σ} {h : Hook σ} (hW : WorldId h) {E : Env} {off fuel os oe ns ne : Nat}
    {vf vb vf' vb' : V} {s s' : σ} {w w' : World} (h0 : w.clock = some 0)
    (hc : conquer E h off (fuel + 1) os oe ns ne vf vb s w = .ok (s', vf', vb', w')) :
    w'.clock = some 0 ∧ w.cmps ≤ w'.cmps ∧ w'.cmps ≤ w.cmps + min (oe - os) (ne - ns) + 2 ∧
    w.probes ≤ w'.probes ∧ w'.probes ≤ w.probes + 1 := by
  have h1 := ck_one.2 h0
  unfold conquer at hc
  destruct_run
  all_goals
    gather [optEmit_world hW, call_world hW, cpl_facts, csl_facts, fms_facts, fms_some]
    subst_vars
    fin_exp

/-- … and it never recurses: the same call succeeds with recursion fuel 1 -/
theorem conquer_expired_norec {σ} {h : Hook σ} (hW : WorldId h) {E : Env} {off fuel os oe ns ne : Nat}
    {vf vb vf' vb' : V} {s s' : σ} {w w' : World} (h0 : w.clock = some 0)
    (hc : conquer E h off (fuel + 1) os oe ns ne vf vb s w = .ok (s', vf', vb', w')) :
    conquer E h off 1 os oe ns ne vf vb s w = .ok (s', vf', vb', w') := by
  have h1 := ck_one.2 h0
  unfold conquer at hc ⊢
  destruct_run
  all_goals first
    | (exfalso; gather [optEmit_world hW, call_world hW, cpl_facts, csl_facts, fms_some]; subst_vars; omega)
    | sim_simp

/-- `myers::diff_deadline` entered on an expired clock: at most `min n m + 2` comparisons, one probe -/
theorem myersDiff_expired {σ} {h : Hook σ} (hW : WorldId h) {E : Env} {os oe ns ne : Nat}
    {s s' : σ} {w w' : World} (h0 : w.clock = some 0)
    (hc : myersDiff E h os oe ns ne s w = .ok (s', w')) :
    w'.clock = some 0 ∧ w.cmps ≤ w'.cmps ∧ w'.cmps ≤ w.cmps + min (oe - os) (ne - ns) + 2 ∧
    w.probes ≤ w'.probes ∧ w'.probes ≤ w.probes + 1 := by
  unfold myersDiff at hc
  rw [show oe - os + (ne - ns) + 2 = (oe - os + (ne - ns) + 1) + 1 from rfl] at hc
  destruct_run
  rename_i hq
  have := conquer_expired hW h0 hq
  have := call_world hW hc
  subst_vars
  exact this

theorem lcsWalk_nl0 {σ} (E : Env) (h : Hook σ) (t : Table) (o0 n0 ol fuel oi ni : Nat) (s : σ) (w : World) :
    lcsWalk E h t o0 n0 ol 0 fuel oi ni s w = .ok (oi, ni, s, w) := by
  cases fuel <;> simp [lcsWalk]

theorem makeTable_nl0 {E : Env} {os oe ns ne : Nat} {w : World} (hn : ne ≤ ns) :
    ∃ t, makeTable E os oe ns ne w = .ok (some t, w) := by
  unfold makeTable
  rw [show ne - ns = 0 by omega]
  exact ⟨_, rfl⟩

/-- `lcs::diff_deadline` entered on an expired clock: only the two scans compare items -/
theorem lcsDiff_expired_start {σ} {h : Hook σ} (hW : WorldId h) {E : Env} {os oe ns ne : Nat}
    {s s' : σ} {w w' : World} (h0 : w.clock = some 0)
    (hc : lcsDiff E h os oe ns ne s w = .ok (s', w')) :
    w'.clock = some 0 ∧ w.cmps ≤ w'.cmps ∧ w'.cmps ≤ w.cmps + min (oe - os) (ne - ns) + 2 ∧
    w.probes ≤ w'.probes ∧ w'.probes ≤ w.probes + 1 := by
  have h1 := ck_one.2 h0
  unfold lcsDiff at hc
  split at hc
  · destruct_run
    all_goals (gather [optEmit_world hW, call_world hW]; subst_vars; fin_exp)
  · split at hc
    · destruct_run
      all_goals (gather [optEmit_world hW, call_world hW]; subst_vars; fin_exp)
    · split at hc
      · cases hc
      · rename_i p w0 hp
        split at hc
        · cases hc
        · rename_i sl w1 hs
          have fp := cpl_facts hp
          have fs := csl_facts hs
          split at hc
          · destruct_run
            all_goals (gather [optEmit_world hW, call_world hW]; subst_vars; fin_exp)
          · by_cases hnl : ns + p < ne - sl
            · obtain ⟨wt, ht, ht0, ht1, ht2⟩ := makeTable_expired' (E := E) (os := os + p) (oe := oe - sl) (ck_one.1 (by omega : ck w1 = 1)) hnl
              have ht0 := ck_one.2 ht0
              simp only [ht] at hc
              destruct_run
              all_goals (gather [optEmit_world hW, call_world hW]; subst_vars; fin_exp)
            · obtain ⟨t, ht⟩ := makeTable_nl0 (E := E) (os := os + p) (oe := oe - sl) (w := w1) (Nat.le_of_not_lt hnl)
              simp only [ht, show ne - ns - p - sl = 0 by omega, lcsWalk_nl0] at hc
              destruct_run
              all_goals (gather [optEmit_world hW, call_world hW]; subst_vars; fin_exp)

/-! ## 3. A deadline that never expires gives exactly the result of no deadline

`strip p0 w` is the no-deadline twin of the world `w` (same comparison counter; without a deadline
probes are not counted, so the probe counter stays at its initial value `p0`). `tm w` = probes made
plus probes still allowed; it is constant as long as no probe answers "exceeded" and grows by one
with each probe that does (`Step`). Every function of the model satisfies

  `f … w = .ok (y, w') → Step w w' ∧ (tm w' ≤ tm w → f … (strip p0 w) = .ok (y, strip p0 w'))`. -/

def strip (p0 : Nat) (w : World) : World := { clock := none, probes := p0, cmps := w.cmps }

def tm (w : World) : Nat := w.probes + ck w

/-- effect of a stretch of execution on clock and probe counter -/
def Step (w w' : World) : Prop :=
  (ck w' = 0 ↔ ck w = 0) ∧ ck w' ≤ ck w ∧ tm w ≤ tm w' ∧ (ck w' ≤ 1 ∨ tm w' = tm w)

theorem Step.refl (w : World) : Step w w := by unfold Step; omega
theorem Step.trans {a b c : World} (h1 : Step a b) (h2 : Step b c) : Step a c := by
  unfold Step tm at *; omega
theorem Step.mono {a b : World} (h : Step a b) : tm a ≤ tm b := h.2.2.1

section Tactics2
open Lean Elab Tactic Meta

/-- for every hypothesis `h : Step _ _` add `Step.mono h` -/
elab "step_monos" : tactic => withMainContext do
  let mut hs : Array (TSyntax `term) := #[]
  for ldecl in ← getLCtx do
    if ldecl.isImplementationDetail then continue
    let ty ← instantiateMVars ldecl.type
    unless ty.isAppOfArity ``Step 2 do continue
    hs := hs.push (← Term.exprToSyntax ldecl.toExpr)
  for h in hs do
    evalTactic (← `(tactic| have := Step.mono $h))

/-- discharge the premise `tm _ ≤ tm _` of every hypothesis by `omega` -/
elab "spec_all" : tactic => withMainContext do
  let mut hs : Array (TSyntax `term) := #[]
  for ldecl in ← getLCtx do
    if ldecl.isImplementationDetail then continue
    let ty ← instantiateMVars ldecl.type
    unless ty.isArrow do continue
    unless ty.bindingDomain!.isAppOf ``LE.le do continue
    hs := hs.push (← Term.exprToSyntax ldecl.toExpr)
  for h in hs do
    try withoutRecover (evalTactic (← `(tactic| have := $h (by omega)))) catch _ => pure ()

/-- split every hypothesis that is syntactically a conjunction -/
elab "split_ands" : tactic => do
  let rec loop (fuel : Nat) : TacticM Unit := do
    match fuel with
    | 0 => pure ()
    | fuel+1 =>
      let g ← getMainGoal
      let found ← g.withContext do
        for ldecl in ← getLCtx do
          if ldecl.isImplementationDetail then continue
          let ty ← instantiateMVars ldecl.type
          if ty.isAppOfArity ``And 2 then return some ldecl.fvarId
        return none
      match found with
      | none => pure ()
      | some fv =>
        let r ← g.cases fv
        replaceMainGoal (r.toList.map (·.mvarId))
        loop fuel
  loop 200

end Tactics2

/-- prove `Step w w'` by chaining the `Step` hypotheses backwards from `w'` -/
macro "step_chain" : tactic =>
  `(tactic| repeat (first
      | exact Step.refl _
      | (with_reducible assumption)
      | (refine Step.trans ?_ (by with_reducible assumption))))

/-- finish a `…_par` lemma after `destruct_run; gather […]` -/
macro "par_close" : tactic =>
  `(tactic| first
      | contradiction
      | (split_ands; refine ⟨by step_chain, fun hT => ?_⟩; step_monos;
         first | (exfalso; omega) | (spec_all; sim_simp; done))
      | (exfalso; grind))

theorem cmp_par (p0 : Nat) {E : Env} {i j : Nat} {w w' : World} {b : Bool} (hc : cmp E i j w = .ok (b, w')) :
    Step w w' ∧ (tm w' ≤ tm w → cmp E i j (strip p0 w) = .ok (b, strip p0 w')) := by
  obtain ⟨hE, rfl⟩ := cmp_ok hc
  refine ⟨Step.refl _, fun _ => ?_⟩
  unfold cmp
  rw [hE]
  rfl

theorem ck_some {w : World} {g : Nat} (h : w.clock = some g) : ck w = g + 1 := by unfold ck; rw [h]
theorem ck_none {w : World} (h : w.clock = none) : ck w = 0 := by unfold ck; rw [h]

theorem probe_par (p0 : Nat) {w w' : World} {b : Bool} (hc : probe w = (b, w')) :
    Step w w' ∧ (tm w' ≤ tm w → probe (strip p0 w) = (b, strip p0 w')) := by
  unfold probe at hc
  split at hc
  · cases hc; exact ⟨Step.refl _, fun _ => rfl⟩
  · rename_i h0
    cases hc
    have h1 := ck_some h0
    have h2 : ck { w with probes := w.probes + 1 } = 1 := ck_some h0
    refine ⟨?_, fun hT => ?_⟩
    · unfold Step tm; dsimp only; omega
    · exfalso; revert hT; unfold tm; dsimp only; omega
  · rename_i f h0
    cases hc
    have h1 := ck_some h0
    have h2 : ck { w with clock := some f, probes := w.probes + 1 } = f + 1 := ck_some rfl
    refine ⟨?_, fun _ => rfl⟩
    unfold Step tm; dsimp only; omega

/-- a probe that answers "exceeded" strictly increases `tm` -/
theorem probe_true_tm {w w' : World} (hc : probe w = (true, w')) : tm w' = tm w + 1 := by
  obtain ⟨h0, rfl⟩ := probe_true hc
  have h1 := ck_some h0
  have h2 : ck { w with probes := w.probes + 1 } = 1 := ck_some h0
  unfold tm; dsimp only; omega

theorem cplGo_par (p0 : Nat) (E : Env) (os ns : Nat) : ∀ {fuel i : Nat} {w : World} {p : Nat} {w' : World},
    cplGo E os ns fuel i w = .ok (p, w') →
    Step w w' ∧ (tm w' ≤ tm w → cplGo E os ns fuel i (strip p0 w) = .ok (p, strip p0 w')) := by
  intro fuel
  induction fuel with
  | zero => intro i w p w' hc; simp only [cplGo] at hc; cases hc; exact ⟨Step.refl _, fun _ => rfl⟩
  | succ fuel ih =>
    intro i w p w' hc
    unfold cplGo at hc ⊢
    destruct_run
    all_goals (gather [cmp_par p0, ih]; par_close)

theorem commonPrefixLen_par (p0 : Nat) {E : Env} {os oe ns ne : Nat} {w w' : World} {p : Nat}
    (hc : commonPrefixLen E os oe ns ne w = .ok (p, w')) :
    Step w w' ∧ (tm w' ≤ tm w → commonPrefixLen E os oe ns ne (strip p0 w) = .ok (p, strip p0 w')) := by
  unfold commonPrefixLen at hc ⊢
  destruct_run
  all_goals (gather [cplGo_par p0 E os ns]; par_close)

theorem cslGo_par (p0 : Nat) (E : Env) (oe ne : Nat) : ∀ {fuel i : Nat} {w : World} {p : Nat} {w' : World},
    cslGo E oe ne fuel i w = .ok (p, w') →
    Step w w' ∧ (tm w' ≤ tm w → cslGo E oe ne fuel i (strip p0 w) = .ok (p, strip p0 w')) := by
  intro fuel
  induction fuel with
  | zero => intro i w p w' hc; simp only [cslGo] at hc; cases hc; exact ⟨Step.refl _, fun _ => rfl⟩
  | succ fuel ih =>
    intro i w p w' hc
    unfold cslGo at hc ⊢
    destruct_run
    all_goals (gather [cmp_par p0, ih]; par_close)

theorem commonSuffixLen_par (p0 : Nat) {E : Env} {os oe ns ne : Nat} {w w' : World} {p : Nat}
    (hc : commonSuffixLen E os oe ns ne w = .ok (p, w')) :
    Step w w' ∧ (tm w' ≤ tm w → commonSuffixLen E os oe ns ne (strip p0 w) = .ok (p, strip p0 w')) := by
  unfold commonSuffixLen at hc ⊢
  destruct_run
  all_goals (gather [cslGo_par p0 E oe ne]; par_close)

theorem fwdPass_par (p0 : Nat) (E : Env) (os oe ns ne off : Nat) (d delta : Int) (odd : Bool) (vb : V) :
    ∀ {cnt : Nat} {k : Int} {vf : V} {w : World} {vf' : V} {res : Option (Nat × Nat)} {w' : World},
    fwdPass E os oe ns ne off d delta odd vb cnt k vf w = .ok (vf', res, w') →
    Step w w' ∧ (tm w' ≤ tm w →
      fwdPass E os oe ns ne off d delta odd vb cnt k vf (strip p0 w) = .ok (vf', res, strip p0 w')) := by
  intro cnt
  induction cnt with
  | zero => intro k vf w vf' res w' hc; simp only [fwdPass] at hc; cases hc; exact ⟨Step.refl _, fun _ => rfl⟩
  | succ cnt ih =>
    intro k vf w vf' res w' hc
    unfold fwdPass at hc ⊢
    destruct_run
    all_goals (gather [commonPrefixLen_par p0, ih]; par_close)

theorem bwdPass_par (p0 : Nat) (E : Env) (os oe ns ne off : Nat) (d delta : Int) (odd : Bool) (vf : V) :
    ∀ {cnt : Nat} {k : Int} {vb : V} {w : World} {vb' : V} {res : Option (Nat × Nat)} {w' : World},
    bwdPass E os oe ns ne off d delta odd vf cnt k vb w = .ok (vb', res, w') →
    Step w w' ∧ (tm w' ≤ tm w →
      bwdPass E os oe ns ne off d delta odd vf cnt k vb (strip p0 w) = .ok (vb', res, strip p0 w')) := by
  intro cnt
  induction cnt with
  | zero => intro k vb w vb' res w' hc; simp only [bwdPass] at hc; cases hc; exact ⟨Step.refl _, fun _ => rfl⟩
  | succ cnt ih =>
    intro k vb w vb' res w' hc
    unfold bwdPass at hc ⊢
    destruct_run
    all_goals (gather [commonSuffixLen_par p0, ih]; par_close)

theorem snakeLoop_par (p0 : Nat) (E : Env) (os oe ns ne off : Nat) (delta : Int) (odd : Bool) :
    ∀ {cnt d : Nat} {vf vb : V} {w : World} {vf' vb' : V} {res : Option (Nat × Nat)} {w' : World},
    snakeLoop E os oe ns ne off delta odd cnt d vf vb w = .ok (vf', vb', res, w') →
    Step w w' ∧ (tm w' ≤ tm w →
      snakeLoop E os oe ns ne off delta odd cnt d vf vb (strip p0 w) = .ok (vf', vb', res, strip p0 w')) := by
  intro cnt
  induction cnt with
  | zero => intro d vf vb w vf' vb' res w' hc; simp only [snakeLoop] at hc; cases hc; exact ⟨Step.refl _, fun _ => rfl⟩
  | succ cnt ih =>
    intro d vf vb w vf' vb' res w' hc
    unfold snakeLoop at hc ⊢
    destruct_run
    all_goals (gather [probe_par p0, probe_true_tm, fwdPass_par p0 E os oe ns ne off _ delta odd _,
      bwdPass_par p0 E os oe ns ne off _ delta odd _, ih]; par_close)

theorem findMiddleSnake_par (p0 : Nat) {E : Env} {os oe ns ne off : Nat} {vf vb vf' vb' : V} {w w' : World}
    {res : Option (Nat × Nat)} (hc : findMiddleSnake E os oe ns ne off vf vb w = .ok (vf', vb', res, w')) :
    Step w w' ∧ (tm w' ≤ tm w →
      findMiddleSnake E os oe ns ne off vf vb (strip p0 w) = .ok (vf', vb', res, strip p0 w')) := by
  unfold findMiddleSnake at hc ⊢
  destruct_run
  all_goals (gather [snakeLoop_par p0 E os oe ns ne off _ _]; par_close)

/-- the hook treats the world like the model functions do -/
def HookPar {σ} (p0 : Nat) (h : Hook σ) : Prop :=
  ∀ {c s w s' w'}, h.call c s w = .ok (s', w') →
    Step w w' ∧ (tm w' ≤ tm w → h.call c s (strip p0 w) = .ok (s', strip p0 w'))

/-- a hook that neither reads nor writes the world -/
def WorldFree {σ} (h : Hook σ) : Prop := ∀ c s, ∃ r : Res σ, ∀ w, h.call c s w = r.map (·, w)

theorem HookPar.ofWorldFree {σ} {h : Hook σ} (hI : WorldFree h) (p0 : Nat) : HookPar p0 h := by
  intro c s w s' w' hc
  obtain ⟨r, hr⟩ := hI c s
  rw [hr] at hc
  cases r with
  | error e => cases hc
  | ok s1 => cases hc; exact ⟨Step.refl _, fun _ => hr _⟩

section Generic
variable {σ : Type} {h : Hook σ} {p0 : Nat}

theorem call_par (hH : HookPar p0 h) {c s w s' w'} (hc : h.call c s w = .ok (s', w')) :
    Step w w' ∧ (tm w' ≤ tm w → h.call c s (strip p0 w) = .ok (s', strip p0 w')) := hH hc

theorem optCall_par (hH : HookPar p0 h) {c : Prop} [Decidable c] {x s w s' w'}
    (hc : (if c then h.call x s w else .ok (s, w)) = .ok (s', w')) :
    Step w w' ∧ (tm w' ≤ tm w →
      (if c then h.call x s (strip p0 w) else .ok (s, strip p0 w)) = .ok (s', strip p0 w')) := by
  split at hc
  · rw [if_pos ‹_›]; exact hH hc
  · rw [if_neg ‹_›]; cases hc; exact ⟨Step.refl _, fun _ => rfl⟩

theorem conquer_par (hH : HookPar p0 h) {E : Env} {off : Nat} :
    ∀ {fuel os oe ns ne vf vb s w s' vf' vb' w'},
    conquer E h off fuel os oe ns ne vf vb s w = .ok (s', vf', vb', w') →
    Step w w' ∧ (tm w' ≤ tm w →
      conquer E h off fuel os oe ns ne vf vb s (strip p0 w) = .ok (s', vf', vb', strip p0 w')) := by
  intro fuel
  induction fuel with
  | zero => intro os oe ns ne vf vb s w s' vf' vb' w' hc; simp [conquer] at hc
  | succ fuel ih =>
    intro os oe ns ne vf vb s w s' vf' vb' w' hc
    unfold conquer at hc ⊢
    destruct_run
    all_goals (gather [call_par hH, optCall_par hH, commonPrefixLen_par p0, commonSuffixLen_par p0,
      findMiddleSnake_par p0, ih]; par_close)

theorem myersDiff_par (hH : HookPar p0 h) {E : Env} {os oe ns ne s w s' w'}
    (hc : myersDiff E h os oe ns ne s w = .ok (s', w')) :
    Step w w' ∧ (tm w' ≤ tm w → myersDiff E h os oe ns ne s (strip p0 w) = .ok (s', strip p0 w')) := by
  unfold myersDiff at hc ⊢
  destruct_run
  all_goals (gather [call_par hH, conquer_par hH]; par_close)

theorem HookPar.noFinish (hH : HookPar p0 h) : HookPar p0 (noFinishHook h) := by
  intro c s w s' w' hc
  cases c with
  | finish => simp only [noFinishHook] at hc ⊢; cases hc; exact ⟨Step.refl _, fun _ => rfl⟩
  | op x => exact hH hc

end Generic

/-! ### LCS -/

theorem tableRow_par (p0 : Nat) (E : Env) (os ns i : Nat) : ∀ {cnt : Nat} {t : Table} {w : World} {t' : Table} {w' : World},
    tableRow E os ns i cnt t w = .ok (t', w') →
    Step w w' ∧ (tm w' ≤ tm w → tableRow E os ns i cnt t (strip p0 w) = .ok (t', strip p0 w')) := by
  intro cnt
  induction cnt with
  | zero => intro t w t' w' hc; simp only [tableRow] at hc; cases hc; exact ⟨Step.refl _, fun _ => rfl⟩
  | succ cnt ih =>
    intro t w t' w' hc
    unfold tableRow at hc ⊢
    destruct_run
    all_goals (gather [cmp_par p0, ih]; par_close)

theorem tableRows_par (p0 : Nat) (E : Env) (os ns ol : Nat) :
    ∀ {cnt : Nat} {t : Table} {w : World} {mt : Option Table} {w' : World},
    tableRows E os ns ol cnt t w = .ok (mt, w') →
    Step w w' ∧ (tm w' ≤ tm w → tableRows E os ns ol cnt t (strip p0 w) = .ok (mt, strip p0 w')) := by
  intro cnt
  induction cnt with
  | zero => intro t w mt w' hc; simp only [tableRows] at hc; cases hc; exact ⟨Step.refl _, fun _ => rfl⟩
  | succ cnt ih =>
    intro t w mt w' hc
    unfold tableRows at hc ⊢
    destruct_run
    all_goals (gather [probe_par p0, probe_true_tm, tableRow_par p0 E os ns _, ih]; par_close)

theorem makeTable_par (p0 : Nat) {E : Env} {os oe ns ne : Nat} {w w' : World} {mt : Option Table}
    (hc : makeTable E os oe ns ne w = .ok (mt, w')) :
    Step w w' ∧ (tm w' ≤ tm w → makeTable E os oe ns ne (strip p0 w) = .ok (mt, strip p0 w')) :=
  tableRows_par p0 E _ _ _ hc

section Generic2
variable {σ : Type} {h : Hook σ} {p0 : Nat}

theorem lcsWalk_par (hH : HookPar p0 h) {E : Env} {tb : Table} {o0 n0 ol nl : Nat} :
    ∀ {fuel oi ni s w oi' ni' s' w'},
    lcsWalk E h tb o0 n0 ol nl fuel oi ni s w = .ok (oi', ni', s', w') →
    Step w w' ∧ (tm w' ≤ tm w →
      lcsWalk E h tb o0 n0 ol nl fuel oi ni s (strip p0 w) = .ok (oi', ni', s', strip p0 w')) := by
  intro fuel
  induction fuel with
  | zero =>
    intro oi ni s w oi' ni' s' w' hc
    unfold lcsWalk at hc ⊢
    destruct_run
    all_goals par_close
  | succ fuel ih =>
    intro oi ni s w oi' ni' s' w' hc
    unfold lcsWalk at hc ⊢
    destruct_run
    all_goals (gather [cmp_par p0, call_par hH, ih]; par_close)

theorem lcsDiff_par (hH : HookPar p0 h) {E : Env} {os oe ns ne s w s' w'}
    (hc : lcsDiff E h os oe ns ne s w = .ok (s', w')) :
    Step w w' ∧ (tm w' ≤ tm w → lcsDiff E h os oe ns ne s (strip p0 w) = .ok (s', strip p0 w')) := by
  unfold lcsDiff at hc ⊢
  destruct_run
  all_goals (gather [call_par hH, optCall_par hH, commonPrefixLen_par p0, commonSuffixLen_par p0,
    makeTable_par p0, lcsWalk_par hH]; par_close)

end Generic2

/-! ### Replace, Patience -/
section Generic3
variable {σ : Type} {h : Hook σ} {p0 : Nat}

theorem rFlushEq_par (hH : HookPar p0 h) {r s w r' s' w'} (hc : rFlushEq h r s w = .ok (r', s', w')) :
    Step w w' ∧ (tm w' ≤ tm w → rFlushEq h r s (strip p0 w) = .ok (r', s', strip p0 w')) := by
  unfold rFlushEq at hc ⊢
  destruct_run
  all_goals (gather [call_par hH]; par_close)

theorem rFlushDelIns_par (hH : HookPar p0 h) {r s w r' s' w'} (hc : rFlushDelIns h r s w = .ok (r', s', w')) :
    Step w w' ∧ (tm w' ≤ tm w → rFlushDelIns h r s (strip p0 w) = .ok (r', s', strip p0 w')) := by
  unfold rFlushDelIns at hc ⊢
  destruct_run
  all_goals (gather [call_par hH]; par_close)

theorem HookPar.replace (hH : HookPar p0 h) : HookPar p0 (replaceHook h) := by
  intro c a w a' w' hc
  obtain ⟨r, s⟩ := a
  cases c with
  | finish =>
    simp only [replaceHook] at hc ⊢; destruct_run
    all_goals (gather [call_par hH, rFlushEq_par hH, rFlushDelIns_par hH]; par_close)
  | op x =>
    cases x <;> simp only [replaceHook] at hc ⊢ <;> destruct_run <;>
      (gather [call_par hH, rFlushEq_par hH, rFlushDelIns_par hH]; par_close)

theorem patScan_par (p0 : Nat) (E : Env) (a b : Nat) : ∀ {fuel oc nc : Nat} {w : World} {oc' nc' : Nat} {w' : World},
    patScan E a b fuel oc nc w = .ok (oc', nc', w') →
    Step w w' ∧ (tm w' ≤ tm w → patScan E a b fuel oc nc (strip p0 w) = .ok (oc', nc', strip p0 w')) := by
  intro fuel
  induction fuel with
  | zero =>
    intro oc nc w oc' nc' w' hc
    unfold patScan at hc ⊢
    destruct_run
    all_goals par_close
  | succ fuel ih =>
    intro oc nc w oc' nc' w' hc
    unfold patScan at hc ⊢
    destruct_run
    all_goals (gather [cmp_par p0, ih]; par_close)

theorem patAnchor_par (hH : HookPar p0 h) {E : Env} {uo un : Array Nat} {i j p s w p' s' w'}
    (hc : patAnchor E h uo un i j p s w = .ok (p', s', w')) :
    Step w w' ∧ (tm w' ≤ tm w → patAnchor E h uo un i j p s (strip p0 w) = .ok (p', s', strip p0 w')) := by
  unfold patAnchor at hc ⊢
  destruct_run
  all_goals (gather [optCall_par hH, patScan_par p0 E _ _, myersDiff_par hH.noFinish]; par_close)

theorem patEqual_par (hH : HookPar p0 h) {E : Env} {uo un : Array Nat} : ∀ {len i j p s w p' s' w'},
    patEqual E h uo un len i j p s w = .ok (p', s', w') →
    Step w w' ∧ (tm w' ≤ tm w → patEqual E h uo un len i j p s (strip p0 w) = .ok (p', s', strip p0 w')) := by
  intro len
  induction len with
  | zero => intro i j p s w p' s' w' hc; simp only [patEqual] at hc; cases hc; exact ⟨Step.refl _, fun _ => rfl⟩
  | succ len ih =>
    intro i j p s w p' s' w' hc
    unfold patEqual at hc ⊢
    destruct_run
    all_goals (gather [patAnchor_par hH, ih]; par_close)

theorem HookPar.patience (hH : HookPar p0 h) {E : Env} {uo un : Array Nat} {oe ne : Nat} :
    HookPar p0 (patienceHook E h uo un oe ne) := by
  intro c a w a' w' hc
  obtain ⟨p, s⟩ := a
  cases c with
  | finish =>
    simp only [patienceHook] at hc ⊢; destruct_run
    all_goals (gather [myersDiff_par hH]; par_close)
  | op x =>
    cases x <;> simp only [patienceHook] at hc ⊢ <;> destruct_run <;>
      (gather [patEqual_par hH]; par_close)

theorem patienceDiff_par (hH : HookPar p0 h) {E : Env} {os oe ns ne s w s' w'}
    (hc : patienceDiff E h os oe ns ne s w = .ok (s', w')) :
    Step w w' ∧ (tm w' ≤ tm w → patienceDiff E h os oe ns ne s (strip p0 w) = .ok (s', strip p0 w')) := by
  unfold patienceDiff at hc ⊢
  destruct_run
  all_goals (gather [myersDiff_par (hH.patience.replace)]; par_close)

end Generic3

/-! ### Compact -/

theorem shiftUp_par (p0 : Nat) (E : Env) (repair : Bool) : ∀ {fuel : Nat} {ops : List Op} {pointer : Nat} {w : World}
    {ops' : List Op} {pointer' : Nat} {w' : World},
    shiftUp E repair fuel ops pointer w = .ok (ops', pointer', w') →
    Step w w' ∧ (tm w' ≤ tm w → shiftUp E repair fuel ops pointer (strip p0 w) = .ok (ops', pointer', strip p0 w')) := by
  intro fuel
  induction fuel with
  | zero => intro ops pointer w ops' pointer' w' hc; simp [shiftUp] at hc
  | succ fuel ih =>
    intro ops pointer w ops' pointer' w' hc
    unfold shiftUp at hc ⊢
    destruct_run
    all_goals (gather [commonSuffixLen_par p0, ih]; par_close)

theorem shiftDown_par (p0 : Nat) (E : Env) (repair : Bool) : ∀ {fuel : Nat} {ops : List Op} {pointer : Nat} {w : World}
    {ops' : List Op} {pointer' : Nat} {w' : World},
    shiftDown E repair fuel ops pointer w = .ok (ops', pointer', w') →
    Step w w' ∧ (tm w' ≤ tm w → shiftDown E repair fuel ops pointer (strip p0 w) = .ok (ops', pointer', strip p0 w')) := by
  intro fuel
  induction fuel with
  | zero => intro ops pointer w ops' pointer' w' hc; simp [shiftDown] at hc
  | succ fuel ih =>
    intro ops pointer w ops' pointer' w' hc
    unfold shiftDown at hc ⊢
    destruct_run
    all_goals (gather [commonPrefixLen_par p0, ih]; par_close)

theorem cleanupPass_par (p0 : Nat) (E : Env) (repair : Bool) (which : Tag) (inner : Nat) :
    ∀ {fuel : Nat} {ops : List Op} {pointer : Nat} {w : World} {ops' : List Op} {w' : World},
    cleanupPass E repair which inner fuel ops pointer w = .ok (ops', w') →
    Step w w' ∧ (tm w' ≤ tm w →
      cleanupPass E repair which inner fuel ops pointer (strip p0 w) = .ok (ops', strip p0 w')) := by
  intro fuel
  induction fuel with
  | zero => intro ops pointer w ops' w' hc; simp [cleanupPass] at hc
  | succ fuel ih =>
    intro ops pointer w ops' w' hc
    unfold cleanupPass at hc ⊢
    destruct_run
    all_goals (gather [shiftUp_par p0 E repair, shiftDown_par p0 E repair, ih]; par_close)

theorem cleanupDiffOps_par (p0 : Nat) {E : Env} {repair : Bool} {ops ops' : List Op} {w w' : World}
    (hc : cleanupDiffOps E repair ops w = .ok (ops', w')) :
    Step w w' ∧ (tm w' ≤ tm w → cleanupDiffOps E repair ops (strip p0 w) = .ok (ops', strip p0 w')) := by
  unfold cleanupDiffOps at hc ⊢
  destruct_run
  all_goals (gather [cleanupPass_par p0 E repair _ _]; par_close)

section Generic4
variable {σ : Type} {h : Hook σ} {p0 : Nat}

theorem deliver_par (hH : HookPar p0 h) : ∀ {cs s w s' w'}, deliver h cs s w = .ok (s', w') →
    Step w w' ∧ (tm w' ≤ tm w → deliver h cs s (strip p0 w) = .ok (s', strip p0 w')) := by
  intro cs
  induction cs with
  | nil => intro s w s' w' hc; simp only [deliver] at hc; cases hc; exact ⟨Step.refl _, fun _ => rfl⟩
  | cons c cs ih =>
    intro s w s' w' hc
    unfold deliver at hc ⊢
    destruct_run
    all_goals (gather [call_par hH, ih]; par_close)

theorem HookPar.compact (hH : HookPar p0 h) {E : Env} {repair : Bool} : HookPar p0 (compactHook E repair h) := by
  intro c a w a' w' hc
  obtain ⟨b, s⟩ := a
  cases c with
  | finish =>
    simp only [compactHook] at hc ⊢; destruct_run
    all_goals (gather [call_par hH, cleanupDiffOps_par p0, deliver_par hH]; par_close)
  | op x =>
    cases x <;> simp only [compactHook] at hc ⊢ <;> destruct_run <;> par_close

theorem diffWith_par (hH : HookPar p0 h) {alg : Alg} {E : Env} {os oe ns ne s w s' w'}
    (hc : diffWith alg E h os oe ns ne s w = .ok (s', w')) :
    Step w w' ∧ (tm w' ≤ tm w → diffWith alg E h os oe ns ne s (strip p0 w) = .ok (s', strip p0 w')) := by
  cases alg with
  | myers => exact myersDiff_par hH hc
  | patience => exact patienceDiff_par hH hc
  | lcs => exact lcsDiff_par hH hc

end Generic4

/-! ### C07 (1) -/

theorem recHook_worldFree : WorldFree recHook := by
  intro c r
  cases c with
  | finish => exact ⟨r.push .finish, fun _ => rfl⟩
  | op x =>
    cases x with
    | equal o n l => exact ⟨r.push (.op (.equal o n l)), fun _ => rfl⟩
    | delete o l n => exact ⟨r.push (.op (.delete o l n)), fun _ => rfl⟩
    | insert o n l => exact ⟨r.push (.op (.insert o n l)), fun _ => rfl⟩
    | replace o ol n nl =>
      simp only [recHook]
      split
      · exact ⟨r.push (.op (.replace o ol n nl)), fun _ => rfl⟩
      · cases h1 : r.push (.op (.delete o ol n)) with
        | error e => exact ⟨.error e, fun _ => rfl⟩
        | ok r1 => exact ⟨r1.push (.op (.insert o n nl)), fun _ => rfl⟩

theorem recHook_par (p0 : Nat) : HookPar p0 recHook := HookPar.ofWorldFree recHook_worldFree p0

theorem ck_succ {w : World} {n : Nat} (h : ck w = n + 1) : w.clock = some n := by
  unfold ck at h
  cases hc : w.clock with
  | none => rw [hc] at h; cases h
  | some g => rw [hc] at h; simp only [Nat.add_right_cancel_iff] at h; rw [h]

/-- **C07 (1)**, generic form. `P` is any computation that treats the world like the model functions do
(`diffWith alg E h …` for a hook `h` with `HookPar`). Run it with a deadline of `f` probes; if it made
at most `f` probes (`w'.probes - p ≤ f`: every probe saw a positive clock, the deadline never
expired) then the run without a deadline returns the same value and the same comparison counter,
and the deadline run's clock is exactly `f` minus the probes made. -/
theorem never_expires_gen {α : Type} {P : World → Res (α × World)} {p c f : Nat} {y : α} {w' : World}
    (hP : ∀ {w y w'}, P w = .ok (y, w') → Step w w' ∧ (tm w' ≤ tm w → P (strip p w) = .ok (y, strip p w')))
    (hrun : P { clock := some f, probes := p, cmps := c } = .ok (y, w'))
    (hk : w'.probes - p ≤ f) :
    P { clock := none, probes := p, cmps := c } = .ok (y, { clock := none, probes := p, cmps := w'.cmps }) ∧
    w'.clock = some (f - (w'.probes - p)) ∧ p ≤ w'.probes := by
  obtain ⟨hS, hsim⟩ := hP hrun
  have h1 : ck { clock := some f, probes := p, cmps := c } = f + 1 := ck_some rfl
  unfold Step tm at hS
  dsimp only at hS
  have hT : tm w' ≤ tm { clock := some f, probes := p, cmps := c } := by unfold tm; dsimp only; omega
  refine ⟨hsim hT, ck_succ ?_, ?_⟩
  · unfold tm at hT; dsimp only at hT; omega
  · omega

/-- **C07 (1)** for every algorithm and every hook that treats the world parametrically -/
theorem never_expires {σ} {h : Hook σ} (hH : ∀ p0, HookPar p0 h) (alg : Alg) (E : Env) (os oe ns ne : Nat)
    (s : σ) (f p c : Nat) {s' : σ} {w' : World}
    (hrun : diffWith alg E h os oe ns ne s { clock := some f, probes := p, cmps := c } = .ok (s', w'))
    (hk : w'.probes - p ≤ f) :
    diffWith alg E h os oe ns ne s { clock := none, probes := p, cmps := c } =
      .ok (s', { clock := none, probes := p, cmps := w'.cmps }) ∧
    w'.clock = some (f - (w'.probes - p)) ∧ p ≤ w'.probes :=
  never_expires_gen (P := diffWith alg E h os oe ns ne s) (fun hc => diffWith_par (hH p) hc) hrun hk

/-- the recording hook -/
theorem never_expires_rec (alg : Alg) (E : Env) (os oe ns ne : Nat) (r : Rec) (f p c : Nat) {r' : Rec} {w' : World}
    (hrun : diffWith alg E recHook os oe ns ne r { clock := some f, probes := p, cmps := c } = .ok (r', w'))
    (hk : w'.probes - p ≤ f) :
    diffWith alg E recHook os oe ns ne r { clock := none, probes := p, cmps := c } =
      .ok (r', { clock := none, probes := p, cmps := w'.cmps }) ∧
    w'.clock = some (f - (w'.probes - p)) ∧ p ≤ w'.probes :=
  never_expires recHook_par alg E os oe ns ne r f p c hrun hk

/-- `Replace` over the recording hook -/
theorem never_expires_replace (alg : Alg) (E : Env) (os oe ns ne : Nat) (s : RState × Rec) (f p c : Nat)
    {s' : RState × Rec} {w' : World}
    (hrun : diffWith alg E (replaceHook recHook) os oe ns ne s { clock := some f, probes := p, cmps := c } = .ok (s', w'))
    (hk : w'.probes - p ≤ f) :
    diffWith alg E (replaceHook recHook) os oe ns ne s { clock := none, probes := p, cmps := c } =
      .ok (s', { clock := none, probes := p, cmps := w'.cmps }) ∧
    w'.clock = some (f - (w'.probes - p)) ∧ p ≤ w'.probes :=
  never_expires (fun p0 => HookPar.replace (recHook_par p0)) alg E os oe ns ne s f p c hrun hk

/-- `Compact` over `Replace` over the recording hook (the stack of `capture_diff`) -/
theorem never_expires_compact_replace (alg : Alg) (E E' : Env) (repair : Bool) (os oe ns ne : Nat)
    (s : List Op × RState × Rec) (f p c : Nat) {s' : List Op × RState × Rec} {w' : World}
    (hrun : diffWith alg E (compactHook E' repair (replaceHook recHook)) os oe ns ne s
      { clock := some f, probes := p, cmps := c } = .ok (s', w'))
    (hk : w'.probes - p ≤ f) :
    diffWith alg E (compactHook E' repair (replaceHook recHook)) os oe ns ne s { clock := none, probes := p, cmps := c } =
      .ok (s', { clock := none, probes := p, cmps := w'.cmps }) ∧
    w'.clock = some (f - (w'.probes - p)) ∧ p ≤ w'.probes :=
  never_expires (fun p0 => HookPar.compact (HookPar.replace (recHook_par p0))) alg E os oe ns ne s f p c hrun hk

/-- `capture_diff_deadline` -/
theorem never_expires_capture (alg : Alg) (E : Env) (repair : Bool) (os oe ns ne : Nat) (f p c : Nat)
    {ops : List Op} {w' : World}
    (hrun : captureDiff alg E repair os oe ns ne { clock := some f, probes := p, cmps := c } = .ok (ops, w'))
    (hk : w'.probes - p ≤ f) :
    captureDiff alg E repair os oe ns ne { clock := none, probes := p, cmps := c } =
      .ok (ops, { clock := none, probes := p, cmps := w'.cmps }) ∧
    w'.clock = some (f - (w'.probes - p)) ∧ p ≤ w'.probes := by
  unfold captureDiff at hrun ⊢
  split at hrun
  · cases hrun
  · rename_i b a r w1 hd
    cases hrun
    obtain ⟨h1, h2, h3⟩ := never_expires_compact_replace alg E E repair os oe ns ne _ f p c hd hk
    rw [h1]
    exact ⟨rfl, h2, h3⟩

/-- a positive final clock certifies that the deadline never expired -/
theorem probes_le_of_clock_pos {σ} {h : Hook σ} (hH : ∀ p0, HookPar p0 h) {alg : Alg} {E : Env} {os oe ns ne : Nat}
    {s s' : σ} {f p c g : Nat} {w' : World}
    (hrun : diffWith alg E h os oe ns ne s { clock := some f, probes := p, cmps := c } = .ok (s', w'))
    (hg : w'.clock = some (g + 1)) : w'.probes - p ≤ f := by
  obtain ⟨hS, _⟩ := diffWith_par (hH p) hrun
  have h1 : ck { clock := some f, probes := p, cmps := c } = f + 1 := ck_some rfl
  have h2 := ck_some hg
  unfold Step tm at hS
  dsimp only at hS
  omega

/-! ## 4. Myers: comparisons after the first probe that answered "exceeded"

The model does not record when a probe answered "exceeded", so `conquerG` re-runs `conquer` with a
ghost `g : Option World`: the world right after the first such probe (set where `find_middle_snake`
gave up with `tm` increased). `conquerG_spec`: the ghost run exists and agrees with `conquer`; if no
probe expired `tm` is unchanged; otherwise everything after the expiry costs at most `3 * min n m`
comparisons (the pending `conquer` frames work on disjoint boxes, each runs its two scans only). -/

theorem cpl_facts0 {E : Env} {os oe ns ne : Nat} {w w' : World} {p : Nat}
    (h : commonPrefixLen E os oe ns ne w = .ok (p, w')) : (oe ≤ os ∨ ne ≤ ns) → w'.cmps = w.cmps := by
  intro hc
  unfold commonPrefixLen at h
  rw [if_pos hc] at h
  cases h; rfl

theorem csl_facts0 {E : Env} {os oe ns ne : Nat} {w w' : World} {p : Nat}
    (h : commonSuffixLen E os oe ns ne w = .ok (p, w')) : (oe ≤ os ∨ ne ≤ ns) → w'.cmps = w.cmps := by
  intro hc
  unfold commonSuffixLen at h
  rw [if_pos hc] at h
  cases h; rfl

theorem conquer_expired3 {σ} {h : Hook σ} (hW : WorldId h) {E : Env} {off fuel os oe ns ne : Nat}
    {vf vb vf' vb' : V} {s s' : σ} {w w' : World} (h0 : ck w = 1)
    (hc : conquer E h off (fuel + 1) os oe ns ne vf vb s w = .ok (s', vf', vb', w')) :
    w'.cmps ≤ w.cmps + 3 * min (oe - os) (ne - ns) ∧ ck w' = 1 ∧ w.cmps ≤ w'.cmps := by
  unfold conquer at hc
  destruct_run
  all_goals
    gather [optEmit_world hW, call_world hW, cpl_facts, csl_facts, cpl_facts0, csl_facts0, fms_facts, fms_some]
    subst_vars
    first | (exfalso; omega) | (refine ⟨?_, ?_, ?_⟩ <;> omega)

/-- ghost update at a `find_middle_snake` that gave up: remember the first world with `tm` increased -/
def mark (g : Option World) (w w1 : World) : Option World :=
  match g with
  | some we => some we
  | none => if tm w < tm w1 then some w1 else none

/-- `conquer` with the ghost `g` threaded through (see the section header) -/
def conquerG {σ} (E : Env) (h : Hook σ) (off : Nat) :
    (fuel : Nat) → (os oe ns ne : Nat) → (vf vb : V) → σ → Option World → World →
      Res (σ × V × V × Option World × World)
  | 0, _, _, _, _, _, _, _, _, _ => .error .fuel
  | fuel+1, os, oe, ns, ne, vf, vb, s, g, w =>
    match commonPrefixLen E os oe ns ne w with
    | .error e => .error e
    | .ok (p, w) =>
    match (if 0 < p then emit h (.equal os ns p) s w else .ok (s, w)) with
    | .error e => .error e
    | .ok (s, w) =>
    let os := os + p
    let ns := ns + p
    match commonSuffixLen E os oe ns ne w with
    | .error e => .error e
    | .ok (sl, w) =>
    let sfxO := oe - sl
    let sfxN := ne - sl
    let oe := oe - sl
    let ne := ne - sl
    match (
      if oe ≤ os && ne ≤ ns then (.ok (s, vf, vb, g, w) : Res (σ × V × V × Option World × World))
      else if ne ≤ ns then
        match emit h (.delete os (oe - os) ns) s w with
        | .error e => .error e
        | .ok (s, w) => .ok (s, vf, vb, g, w)
      else if oe ≤ os then
        match emit h (.insert os ns (ne - ns)) s w with
        | .error e => .error e
        | .ok (s, w) => .ok (s, vf, vb, g, w)
      else
        match findMiddleSnake E os oe ns ne off vf vb w with
        | .error e => .error e
        | .ok (vf, vb, some (x, y), w) =>
          (match conquerG E h off fuel os x ns y vf vb s g w with
           | .error e => .error e
           | .ok (s, vf, vb, g, w) => conquerG E h off fuel x oe y ne vf vb s g w)
        | .ok (vf, vb, none, w1) =>
          match emit h (.delete os (oe - os) ns) s w1 with
          | .error e => .error e
          | .ok (s, w2) =>
            match emit h (.insert os ns (ne - ns)) s w2 with
            | .error e => .error e
            | .ok (s, w3) => .ok (s, vf, vb, mark g w w1, w3)) with
    | .error e => .error e
    | .ok (s, vf, vb, g, w) =>
    if 0 < sl then
      match emit h (.equal sfxO sfxN sl) s w with
      | .error e => .error e
      | .ok (s, w) => .ok (s, vf, vb, g, w)
    else .ok (s, vf, vb, g, w)

/-- forgetting the ghost gives back `conquer` -/
theorem conquerG_erase {σ} {h : Hook σ} {E : Env} {off : Nat} :
    ∀ {fuel os oe ns ne vf vb s g w s' vf' vb' g' w'},
    conquerG E h off fuel os oe ns ne vf vb s g w = .ok (s', vf', vb', g', w') →
    conquer E h off fuel os oe ns ne vf vb s w = .ok (s', vf', vb', w') := by
  intro fuel
  induction fuel with
  | zero => intro os oe ns ne vf vb s g w s' vf' vb' g' w' hc; simp [conquerG] at hc
  | succ fuel ih =>
    intro os oe ns ne vf vb s g w s' vf' vb' g' w' hc
    unfold conquerG at hc
    unfold conquer
    destruct_run
    all_goals (gather [ih]; sim_simp)

theorem mark_some (we w w1 : World) : mark (some we) w w1 = some we := rfl

/-- once the ghost is set (the clock has expired) a `conquer` frame keeps it -/
theorem conquerG_expired {σ} {h : Hook σ} (hW : WorldId h) {E : Env} {off fuel os oe ns ne : Nat}
    {vf vb vf' vb' : V} {s s' : σ} {w w' we : World} (h0 : ck w = 1)
    (hc : conquer E h off (fuel + 1) os oe ns ne vf vb s w = .ok (s', vf', vb', w')) :
    conquerG E h off (fuel + 1) os oe ns ne vf vb s (some we) w = .ok (s', vf', vb', some we, w') := by
  unfold conquer at hc
  unfold conquerG
  destruct_run
  all_goals first
    | (exfalso; gather [optEmit_world hW, call_world hW, cpl_facts, csl_facts, fms_some]; subst_vars; omega)
    | (simp only [mark_some]; sim_simp)

theorem fwdPass_np (E : Env) (os oe ns ne off : Nat) (d delta : Int) (odd : Bool) (vb : V) :
    ∀ {cnt : Nat} {k : Int} {vf : V} {w : World} {vf' : V} {res : Option (Nat × Nat)} {w' : World},
    fwdPass E os oe ns ne off d delta odd vb cnt k vf w = .ok (vf', res, w') →
    ck w' = ck w ∧ w'.probes = w.probes ∧ w.cmps ≤ w'.cmps := by
  intro cnt
  induction cnt with
  | zero => intro k vf w vf' res w' hc; simp only [fwdPass] at hc; cases hc; exact ⟨rfl, rfl, Nat.le_refl _⟩
  | succ cnt ih =>
    intro k vf w vf' res w' hc
    unfold fwdPass at hc
    destruct_run
    all_goals (gather [cpl_facts, ih]; (refine ⟨?_, ?_, ?_⟩ <;> omega))

theorem bwdPass_np (E : Env) (os oe ns ne off : Nat) (d delta : Int) (odd : Bool) (vf : V) :
    ∀ {cnt : Nat} {k : Int} {vb : V} {w : World} {vb' : V} {res : Option (Nat × Nat)} {w' : World},
    bwdPass E os oe ns ne off d delta odd vf cnt k vb w = .ok (vb', res, w') →
    ck w' = ck w ∧ w'.probes = w.probes ∧ w.cmps ≤ w'.cmps := by
  intro cnt
  induction cnt with
  | zero => intro k vb w vb' res w' hc; simp only [bwdPass] at hc; cases hc; exact ⟨rfl, rfl, Nat.le_refl _⟩
  | succ cnt ih =>
    intro k vb w vb' res w' hc
    unfold bwdPass at hc
    destruct_run
    all_goals (gather [csl_facts, ih]; (refine ⟨?_, ?_, ?_⟩ <;> omega))

theorem probe_false_facts {w w' : World} (hc : probe w = (false, w')) :
    tm w' = tm w ∧ w'.cmps = w.cmps ∧ ck w' ≤ ck w := by
  unfold probe at hc
  split at hc
  · cases hc; exact ⟨rfl, rfl, Nat.le_refl _⟩
  · cases hc
  · rename_i f h0
    cases hc
    have h1 := ck_some h0
    have h2 : ck { w with clock := some f, probes := w.probes + 1 } = f + 1 := ck_some rfl
    unfold tm; dsimp only; omega

/-- outcome of one probe that answered "exceeded", as arithmetic -/
theorem probe_true_facts {w w' : World} (hc : probe w = (true, w')) :
    tm w' = tm w + 1 ∧ w'.cmps = w.cmps ∧ ck w' = 1 ∧ JustExpired w' := by
  have ht := probe_true_tm hc
  obtain ⟨h0, rfl⟩ := probe_true hc
  exact ⟨ht, rfl, ck_some h0, w, h0, rfl⟩

/-- `snakeLoop` either never saw "exceeded" (`tm` unchanged) or gave up right after the first one -/
theorem snakeLoop_cases (E : Env) (os oe ns ne off : Nat) (delta : Int) (odd : Bool) :
    ∀ {cnt d : Nat} {vf vb : V} {w : World} {vf' vb' : V} {res : Option (Nat × Nat)} {w' : World},
    snakeLoop E os oe ns ne off delta odd cnt d vf vb w = .ok (vf', vb', res, w') →
    w.cmps ≤ w'.cmps ∧
    (tm w' = tm w ∨ (res = none ∧ tm w' = tm w + 1 ∧ ck w' = 1 ∧ JustExpired w')) := by
  intro cnt
  induction cnt with
  | zero => intro d vf vb w vf' vb' res w' hc; simp only [snakeLoop] at hc; cases hc; exact ⟨Nat.le_refl _, .inl rfl⟩
  | succ cnt ih =>
    intro d vf vb w vf' vb' res w' hc
    unfold snakeLoop at hc
    destruct_run
    all_goals
      gather [probe_false_facts, probe_true_facts, fwdPass_np E os oe ns ne off _ delta odd _,
        bwdPass_np E os oe ns ne off _ delta odd _, ih]
      split_ands
      unfold tm at *
    · exact ⟨by omega, .inr ⟨rfl, by omega, by omega, by assumption⟩⟩
    · exact ⟨by omega, .inl (by omega)⟩
    · exact ⟨by omega, .inl (by omega)⟩
    · refine ⟨by omega, ?_⟩
      rcases ‹_ ∨ _› with h1 | ⟨h1, h2, h3, h4⟩
      · exact .inl (by omega)
      · exact .inr ⟨h1, by omega, h3, h4⟩

theorem findMiddleSnake_cases {E : Env} {os oe ns ne off : Nat} {vf vb vf' vb' : V} {w w' : World}
    {res : Option (Nat × Nat)} (hc : findMiddleSnake E os oe ns ne off vf vb w = .ok (vf', vb', res, w')) :
    w.cmps ≤ w'.cmps ∧
    (tm w' = tm w ∨ (res = none ∧ tm w' = tm w + 1 ∧ ck w' = 1 ∧ JustExpired w')) := by
  unfold findMiddleSnake at hc
  destruct_run
  exact snakeLoop_cases E os oe ns ne off _ _ hc

/-- what the ghost says about a `conquer` call on an `n × m` box that started before any expiry -/
def PostN (g' : Option World) (w w' : World) (n m : Nat) : Prop :=
  match g' with
  | none => tm w' = tm w ∧ w.cmps ≤ w'.cmps
  | some we => JustExpired we ∧ w.cmps ≤ we.cmps ∧ we.cmps ≤ w'.cmps ∧ w'.cmps ≤ we.cmps + 3 * min n m ∧ ck w' = 1

theorem PostN_weaken {g' : Option World} {a a0 b : World} {n m n0 m0 : Nat} (hp : PostN g' a b n m)
    (ht : tm a = tm a0) (hc : a0.cmps ≤ a.cmps) (hn : n ≤ n0) (hm : m ≤ m0) : PostN g' a0 b n0 m0 := by
  cases g' with
  | none => obtain ⟨h1, h2⟩ := hp; exact ⟨by omega, by omega⟩
  | some we =>
    obtain ⟨h1, h2, h3, h4, h5⟩ := hp
    exact ⟨h1, by omega, h3, by omega, h5⟩

/-- the two recursive calls of `conquer`, given the statement for smaller fuel -/
theorem rec_step {σ} {h : Hook σ} (hW : WorldId h) {E : Env} {off fuel : Nat}
    (ih : ∀ {os oe ns ne vf vb s w s' vf' vb' w'}, os ≤ oe → ns ≤ ne → Spec.InBounds E os oe ns ne →
      conquer E h off fuel os oe ns ne vf vb s w = .ok (s', vf', vb', w') →
      ∃ g', conquerG E h off fuel os oe ns ne vf vb s none w = .ok (s', vf', vb', g', w') ∧
        PostN g' w w' (oe - os) (ne - ns))
    {os oe ns ne x y : Nat} {vf vb vf1 vb1 vf2 vb2 : V} {s s1 s2 : σ} {w w1 w2 : World}
    (h1 : os ≤ x) (h2 : x ≤ oe) (h3 : ns ≤ y) (h4 : y ≤ ne) (hb : Spec.InBounds E os oe ns ne)
    (hL : conquer E h off fuel os x ns y vf vb s w = .ok (s1, vf1, vb1, w1))
    (hR : conquer E h off fuel x oe y ne vf1 vb1 s1 w1 = .ok (s2, vf2, vb2, w2)) :
    ∃ g', (match conquerG E h off fuel os x ns y vf vb s none w with
           | .error e => (.error e : Res (σ × V × V × Option World × World))
           | .ok (s, vf, vb, g, w) => conquerG E h off fuel x oe y ne vf vb s g w) = .ok (s2, vf2, vb2, g', w2) ∧
      PostN g' w w2 (oe - os) (ne - ns) := by
  obtain ⟨g1, hk1, hp1⟩ := ih h1 h3 (MyersP.InBounds_sub hb (Nat.le_refl _) h2 (Nat.le_refl _) h4) hL
  simp only [hk1]
  cases g1 with
  | none =>
    obtain ⟨g2, hk2, hp2⟩ := ih h2 h4 (MyersP.InBounds_sub hb h1 (Nat.le_refl _) h3 (Nat.le_refl _)) hR
    refine ⟨g2, hk2, ?_⟩
    obtain ⟨ht, hc⟩ := hp1
    exact PostN_weaken hp2 ht hc (by omega) (by omega)
  | some we =>
    obtain ⟨hj, hc1, hc2, hc3, hck⟩ := hp1
    cases fuel with
    | zero => simp [conquer] at hR
    | succ fuel =>
      have hb3 := conquer_expired3 hW hck hR
      refine ⟨some we, conquerG_expired hW hck hR, hj, hc1, by omega, by omega, hb3.2.1⟩

theorem mark_none_same {w w1 : World} (h : tm w1 = tm w) : mark none w w1 = none := by
  unfold mark; rw [if_neg (by omega)]
theorem mark_none_inc {w w1 : World} (h : tm w1 = tm w + 1) : mark none w w1 = some w1 := by
  unfold mark; rw [if_pos (by omega)]

theorem conquerG_spec {σ} {h : Hook σ} (hW : WorldId h) {E : Env} (hbox : MyersP.SnakeInBox E) {off : Nat} :
    ∀ {fuel os oe ns ne vf vb s w s' vf' vb' w'}, os ≤ oe → ns ≤ ne → Spec.InBounds E os oe ns ne →
      conquer E h off fuel os oe ns ne vf vb s w = .ok (s', vf', vb', w') →
      ∃ g', conquerG E h off fuel os oe ns ne vf vb s none w = .ok (s', vf', vb', g', w') ∧
        PostN g' w w' (oe - os) (ne - ns) := by
  intro fuel
  induction fuel with
  | zero => intro os oe ns ne vf vb s w s' vf' vb' w' _ _ _ hc; simp [conquer] at hc
  | succ fuel ih =>
    intro os oe ns ne vf vb s w s' vf' vb' w' ho hn hb hc
    unfold conquer at hc
    unfold conquerG
    destruct_run
    all_goals
      gather [optEmit_world hW, call_world hW]
      subst_vars
      gather [cpl_facts, csl_facts, findMiddleSnake_cases]
      split_ands
    all_goals first
      | -- the two recursive calls
        (have hL := ‹conquer E h off fuel (os + _) _ (ns + _) _ _ _ _ _ = _›
         have hR := ‹conquer E h off fuel _ (oe - _) _ (ne - _) _ _ _ _ = _›
         have hF := ‹findMiddleSnake _ _ _ _ _ _ _ _ _ = _›
         have hin := hbox _ _ _ _ _ _ _ _ _ _ _ _ _ (by omega) (by omega)
           (MyersP.InBounds_sub hb (by omega) (by omega) (by omega) (by omega)) hF
         rcases ‹_ ∨ _› with hA | ⟨hx, _⟩
         · sim_simp
           obtain ⟨g', hk, hp⟩ := rec_step hW ih (by omega) (by omega) (by omega) (by omega)
             (MyersP.InBounds_sub hb (by omega) (by omega) (by omega) (by omega)) hL hR
           simp only [hk]
           clear hk
           try sim_simp
           refine ⟨g', rfl, PostN_weaken hp ?_ ?_ ?_ ?_⟩ <;> (unfold tm at *; omega)
         · cases hx)
      | -- `find_middle_snake` gave up
        (sim_simp
         rcases ‹_ ∨ _› with hA | ⟨_, hA, hB, hC⟩
         · rw [mark_none_same hA]
           refine ⟨none, rfl, ?_, ?_⟩ <;> (unfold tm at *; omega)
         · rw [mark_none_inc hA]
           exact ⟨_, rfl, hC, by omega, by omega, by omega, hB⟩)
      | -- no `find_middle_snake`
        (sim_simp
         refine ⟨none, rfl, ?_, ?_⟩ <;> (unfold tm at *; omega))

/-- **C07 (3), full form** for `myers::diff_deadline` over a hook that does not touch the world (e.g. the
recording hook): the ghost run of `conquer` exists and agrees with the real one; if its ghost is `none`
no probe answered "exceeded" (`tm` unchanged); if it is `some we` then `we` is the world right after
the first probe that answered "exceeded" and the whole rest of the call makes at most
`3 * min n m` comparisons. (Relative to `SnakeInBox`, like the soundness of `conquer`.) -/
theorem myersDiff_post_expiry {σ} {h : Hook σ} (hW : WorldId h) {E : Env} (hbox : MyersP.SnakeInBox E)
    {os oe ns ne : Nat} {s s' : σ} {w w' : World} (ho : os ≤ oe) (hn : ns ≤ ne)
    (hb : Spec.InBounds E os oe ns ne) (hc : myersDiff E h os oe ns ne s w = .ok (s', w')) :
    ∃ sc vf' vb' g',
      conquerG E h (maxD (oe - os) (ne - ns)) ((oe - os) + (ne - ns) + 2) os oe ns ne
        (Array.replicate (2 * maxD (oe - os) (ne - ns)) 0) (Array.replicate (2 * maxD (oe - os) (ne - ns)) 0)
        s none w = .ok (sc, vf', vb', g', w') ∧
      h.call .finish sc w' = .ok (s', w') ∧ PostN g' w w' (oe - os) (ne - ns) := by
  unfold myersDiff at hc
  destruct_run
  rename_i sc vf' vb' wc hq
  have := call_world hW hc
  subst this
  obtain ⟨g', hk, hp⟩ := conquerG_spec hW hbox ho hn hb hq
  exact ⟨sc, vf', vb', g', hk, hc, hp⟩

end SimilarVerif.DeadlineP

import SimilarVerif.Lemmas.PatiencePostSim
import SimilarVerif.Lemmas.MyersTheory
/-! # C07 for Patience, expiry at any probe: `conquerS` over a hook that carries the ghost

Everything about the ghost is expressed through numbers so that `omega` can chain it:
`ph g` (0: no probe has answered "exceeded" yet, 1: one has), `gc g`, `gpr g`, `gk g` (comparison
counter, probe counter and `ck` of the recorded world).

* `QN g w g' w'`: what a stretch of execution may do to ghost and world (`conquerS_qual`: position
  independent, no bounds).
* `conquerS_post`: the quantitative statement for a hook whose state also carries a counter `Γ` of the
  comparisons made INSIDE hook calls after the expiry, and a position-indexed state invariant `J`:
  the run itself makes at most `3 * min n m` comparisons after the expiry (`CostN`), `J` is carried
  from `(os, ns)` to `(oe, ne)`. -/
namespace SimilarVerif.PatiencePost
open SimilarVerif HookFail DeadlineP

/-! ## the ghost as numbers -/

def ph : Option World → Nat | none => 0 | some _ => 1
def gc : Option World → Nat | none => 0 | some we => we.cmps
def gpr : Option World → Nat | none => 0 | some we => we.probes
def gk : Option World → Nat | none => 0 | some we => ck we

theorem ph_le (g : Option World) : ph g ≤ 1 := by cases g <;> simp [ph]

/-- what a stretch of execution from ghost `g` / world `w` to `g'` / `w'` does -/
def QN (g : Option World) (w : World) (g' : Option World) (w' : World) : Prop :=
  w.cmps ≤ w'.cmps ∧ ph g ≤ ph g' ∧ ph g' ≤ 1 ∧ (ph g' = 0 → tm w' = tm w) ∧
  (ph g = 1 → gc g' = gc g ∧ gpr g' = gpr g ∧ gk g' = gk g ∧ (ck w = 1 → ck w' = 1)) ∧
  (ph g = 0 → ph g' = 1 → w.cmps ≤ gc g' ∧ gc g' ≤ w'.cmps ∧ ck w' = 1 ∧ gk g' = 1 ∧ 1 ≤ gpr g' ∧
    gpr g' = tm w)

theorem QN.refl (g : Option World) (w : World) : QN g w g w := by
  have := ph_le g
  unfold QN; refine ⟨?_, ?_, ?_, ?_, ?_, ?_⟩ <;> omega

/-- the ghost update as numbers -/
theorem markN (g : Option World) (w w1 : World) :
    ph g ≤ ph (mark g w w1) ∧ ph (mark g w w1) ≤ 1 ∧
    (ph g = 1 → gc (mark g w w1) = gc g ∧ gpr (mark g w w1) = gpr g ∧ gk (mark g w w1) = gk g) ∧
    (ph g = 0 → tm w1 ≤ tm w → ph (mark g w w1) = 0) ∧
    (ph g = 0 → tm w < tm w1 → ph (mark g w w1) = 1 ∧ gc (mark g w w1) = w1.cmps ∧
      gpr (mark g w w1) = w1.probes ∧ gk (mark g w w1) = ck w1) := by
  cases g with
  | some we => simp [mark, ph]
  | none =>
    unfold mark
    by_cases h : tm w < tm w1
    · simp [h, ph, gc, gpr, gk]
    · simp [h, ph]

theorem justExpired_facts {w : World} (h : JustExpired w) : ck w = 1 ∧ 1 ≤ w.probes := by
  obtain ⟨wp, h0, rfl⟩ := h
  exact ⟨ck_some h0, by simp⟩

theorem justExpired_of {w : World} (h1 : ck w = 1) (h2 : 1 ≤ w.probes) : JustExpired w :=
  ⟨{ w with probes := w.probes - 1 }, ck_one.1 h1, by
    cases w with
    | mk c p k => simp only [World.mk.injEq, true_and, and_true]; simp only at h2; omega⟩

/-- `find_middle_snake` as numbers -/
theorem fmsN {E : Env} {os oe ns ne off : Nat} {vf vb vf' vb' : V} {w w' : World}
    {res : Option (Nat × Nat)} (hc : findMiddleSnake E os oe ns ne off vf vb w = .ok (vf', vb', res, w')) :
    w.cmps ≤ w'.cmps ∧ (tm w' = tm w ∨ (tm w' = tm w + 1 ∧ ck w' = 1 ∧ 1 ≤ w'.probes)) ∧
    (ck w = 1 → ck w' = 1 ∧ w'.cmps = w.cmps ∧ tm w' = tm w + 1 ∧ 1 ≤ w'.probes) := by
  obtain ⟨h1, h2⟩ := findMiddleSnake_cases hc
  refine ⟨h1, ?_, ?_⟩
  · rcases h2 with h2 | ⟨_, h3, h4, h5⟩
    · exact .inl h2
    · exact .inr ⟨h3, h4, (justExpired_facts h5).2⟩
  · intro h0
    obtain ⟨a, b, c⟩ := fms_facts hc h0
    unfold tm
    refine ⟨a, b, by omega, by omega⟩

theorem fmsN_some {E : Env} {os oe ns ne off : Nat} {vf vb vf' vb' : V} {w w' : World} {q : Nat × Nat}
    (hc : findMiddleSnake E os oe ns ne off vf vb w = .ok (vf', vb', some q, w')) :
    ck w ≠ 1 ∧ tm w' = tm w := by
  refine ⟨fms_some hc, ?_⟩
  rcases (findMiddleSnake_cases hc).2 with h2 | ⟨h3, _⟩
  · exact h2
  · cases h3

/-- the scans as numbers (`tm` included) -/
theorem cplN {E : Env} {os oe ns ne : Nat} {w w' : World} {p : Nat}
    (h : commonPrefixLen E os oe ns ne w = .ok (p, w')) :
    p ≤ oe - os ∧ p ≤ ne - ns ∧ ck w' = ck w ∧ tm w' = tm w ∧ w.cmps ≤ w'.cmps ∧
    w'.cmps ≤ w.cmps + p + 1 ∧ ((oe ≤ os ∨ ne ≤ ns) → w'.cmps = w.cmps) := by
  obtain ⟨a, b, c, d, e, f⟩ := cpl_facts h
  exact ⟨a, b, c, by unfold tm; omega, e, f, cpl_facts0 h⟩

theorem cslN {E : Env} {os oe ns ne : Nat} {w w' : World} {p : Nat}
    (h : commonSuffixLen E os oe ns ne w = .ok (p, w')) :
    p ≤ oe - os ∧ p ≤ ne - ns ∧ ck w' = ck w ∧ tm w' = tm w ∧ w.cmps ≤ w'.cmps ∧
    w'.cmps ≤ w.cmps + p + 1 ∧ ((oe ≤ os ∨ ne ≤ ns) → w'.cmps = w.cmps) := by
  obtain ⟨a, b, c, d, e, f⟩ := csl_facts h
  exact ⟨a, b, c, by unfold tm; omega, e, f, csl_facts0 h⟩

/-! ## chaining `QN` -/

/-- a stretch of execution that only compares items -/
def PureW (w w' : World) : Prop := w.cmps ≤ w'.cmps ∧ tm w' = tm w ∧ (ck w = 1 → ck w' = 1)

theorem cplP {E : Env} {os oe ns ne : Nat} {w w' : World} {p : Nat}
    (h : commonPrefixLen E os oe ns ne w = .ok (p, w')) : PureW w w' := by
  obtain ⟨_, _, c, d, e, _⟩ := cplN h
  exact ⟨e, d, fun h1 => by omega⟩

theorem cslP {E : Env} {os oe ns ne : Nat} {w w' : World} {p : Nat}
    (h : commonSuffixLen E os oe ns ne w = .ok (p, w')) : PureW w w' := by
  obtain ⟨_, _, c, d, e, _⟩ := cslN h
  exact ⟨e, d, fun h1 => by omega⟩

theorem fmsSomeP {E : Env} {os oe ns ne off : Nat} {vf vb vf' vb' : V} {w w' : World} {q : Nat × Nat}
    (hc : findMiddleSnake E os oe ns ne off vf vb w = .ok (vf', vb', some q, w')) : PureW w w' := by
  obtain ⟨a, b⟩ := fmsN_some hc
  exact ⟨(fmsN hc).1, b, fun h1 => absurd h1 a⟩

theorem QN.trans {g g1 g2 : Option World} {w w1 w2 : World} (h1 : QN g w g1 w1) (h2 : QN g1 w1 g2 w2) :
    QN g w g2 w2 := by
  unfold QN at *
  refine ⟨?_, ?_, ?_, ?_, ?_, ?_⟩ <;> omega

theorem QN.pure {g g1 : Option World} {w w1 w2 : World} (h1 : QN g w g1 w1) (h2 : PureW w1 w2) :
    QN g w g1 w2 := by
  unfold QN PureW at *
  refine ⟨?_, ?_, ?_, ?_, ?_, ?_⟩ <;> omega

/-- `find_middle_snake` gave up and the ghost was marked -/
theorem QN.fmsMark {E : Env} {os oe ns ne off : Nat} {vf vb vf' vb' : V} {w w' : World}
    {res : Option (Nat × Nat)} (g : Option World)
    (hc : findMiddleSnake E os oe ns ne off vf vb w = .ok (vf', vb', res, w')) :
    QN g w (mark g w w') w' := by
  have h1 := fmsN hc
  have h2 := markN g w w'
  have h3 := ph_le g
  unfold QN
  unfold tm at *
  refine ⟨?_, ?_, ?_, ?_, ?_, ?_⟩ <;> omega

/-! ## the qualitative statement -/

section Qual
variable {τ : Type} {H : Hook τ} {mk : τ → World → World → τ} {gOf : τ → Option World}

/-- every successful call of the hook is a `QN` stretch -/
def HookQ (H : Hook τ) (gOf : τ → Option World) : Prop :=
  ∀ c t w t' w', H.call c t w = .ok (t', w') → QN (gOf t) w (gOf t') w'

/-- the state transformer marks the ghost -/
def MkOK (mk : τ → World → World → τ) (gOf : τ → Option World) : Prop :=
  ∀ t w w1, gOf (mk t w w1) = mark (gOf t) w w1

theorem callQ (hQ : HookQ H gOf) {c t w t' w'} (hc : H.call c t w = .ok (t', w')) :
    QN (gOf t) w (gOf t') w' := hQ _ _ _ _ _ hc

theorem optCallQ (hQ : HookQ H gOf) {c : Prop} [Decidable c] {x t w t' w'}
    (hc : (if c then H.call x t w else .ok (t, w)) = .ok (t', w')) : QN (gOf t) w (gOf t') w' := by
  split at hc
  · exact hQ _ _ _ _ _ hc
  · cases hc; exact QN.refl _ _

theorem fmsMkQ (hM : MkOK mk gOf) {E : Env} {os oe ns ne off : Nat} {vf vb vf' vb' : V} {w w' : World}
    {res : Option (Nat × Nat)} (t : τ)
    (hc : findMiddleSnake E os oe ns ne off vf vb w = .ok (vf', vb', res, w')) :
    QN (gOf t) w (gOf (mk t w w')) w' := by
  rw [hM]; exact QN.fmsMark _ hc

/-- prove `QN g w g' w'` by chaining the gathered `QN` / `PureW` facts backwards from `(g', w')` -/
macro "qn_chain " hM:term : tactic =>
  `(tactic| repeat (first
      | exact QN.refl _ _
      | (refine QN.trans ?_ (by with_reducible assumption))
      | (refine QN.pure ?_ (by with_reducible assumption))
      | (refine QN.trans ?_ (fmsMkQ $hM _ (by with_reducible assumption)))))

theorem conquerS_qual (hQ : HookQ H gOf) (hM : MkOK mk gOf) {E : Env} {off : Nat} :
    ∀ {fuel os oe ns ne vf vb t w t' vf' vb' w'},
    conquerS E H mk off fuel os oe ns ne vf vb t w = .ok (t', vf', vb', w') → QN (gOf t) w (gOf t') w' := by
  intro fuel
  induction fuel with
  | zero => intro os oe ns ne vf vb t w t' vf' vb' w' hc; simp [conquerS] at hc
  | succ fuel ih =>
    intro os oe ns ne vf vb t w t' vf' vb' w' hc
    unfold conquerS at hc
    destruct_run
    all_goals
      gather [callQ hQ, optCallQ hQ, cplP, cslP, fmsSomeP, ih]
      qn_chain hM

theorem myersDiffS_qual (hQ : HookQ H gOf) (hM : MkOK mk gOf) {E : Env} {os oe ns ne t w t' w'}
    (hc : myersDiffS E H mk os oe ns ne t w = .ok (t', w')) : QN (gOf t) w (gOf t') w' := by
  unfold myersDiffS at hc
  destruct_run
  gather [callQ hQ, conquerS_qual hQ hM]
  qn_chain hM

end Qual

/-! ## the quantitative statement -/

/-- `QN` plus the accounting: `γ` counts the comparisons made inside hook calls after the expiry, `b`
bounds the comparisons that the stretch itself made after the expiry -/
def AdvN (b : Nat) (g : Option World) (γ : Nat) (w : World) (g' : Option World) (γ' : Nat) (w' : World) : Prop :=
  QN g w g' w' ∧
  (ph g = 1 → ck w = 1 → w'.cmps + γ ≤ w.cmps + γ' + b) ∧
  (ph g = 0 → ph g' = 1 → w'.cmps ≤ gc g' + γ' + b) ∧
  (ph g' = 0 → γ = 0 → γ' = 0)

/-- before the expiry the counter is zero, after it the clock is expired -/
def GoodN (g : Option World) (γ : Nat) (w : World) : Prop := (ph g = 0 → γ = 0) ∧ (ph g = 1 → ck w = 1)

theorem AdvN.refl (g : Option World) (γ : Nat) (w : World) : AdvN 0 g γ w g γ w :=
  ⟨QN.refl g w, fun _ _ => by omega, fun h1 h2 => by omega, fun _ h => h⟩

theorem AdvN.trans {b1 b2 : Nat} {g g1 g2 : Option World} {γ γ1 γ2 : Nat} {w w1 w2 : World}
    (h1 : AdvN b1 g γ w g1 γ1 w1) (h2 : AdvN b2 g1 γ1 w1 g2 γ2 w2) : AdvN (b1 + b2) g γ w g2 γ2 w2 := by
  obtain ⟨q1, a1, a2, a3⟩ := h1
  obtain ⟨q2, c1, c2, c3⟩ := h2
  refine ⟨q1.trans q2, ?_, ?_, ?_⟩ <;> unfold QN at q1 q2 <;>
    cases g <;> cases g1 <;> cases g2 <;> simp only [ph, gc, gpr, gk, true_implies] at * <;> omega

theorem AdvN.mono {b b' : Nat} {g g' : Option World} {γ γ' : Nat} {w w' : World}
    (h : AdvN b g γ w g' γ' w') (hb : b ≤ b') : AdvN b' g γ w g' γ' w' := by
  obtain ⟨q, a1, a2, a3⟩ := h
  refine ⟨q, ?_, ?_, a3⟩ <;> omega

/-- own cost of a comparing stretch: it counts only after the expiry -/
def pcost (g : Option World) (w w' : World) : Nat := if ph g = 1 then w'.cmps - w.cmps else 0

theorem AdvN.pure (g : Option World) (γ : Nat) {w w' : World} (h : PureW w w') :
    AdvN (pcost g w w') g γ w g γ w' := by
  have := ph_le g
  unfold PureW at h
  refine ⟨(QN.refl g w).pure h, ?_, ?_, fun _ h => h⟩
  · intro h1 _; simp only [pcost, h1, ↓reduceIte]; omega
  · intro h1 h2; omega

theorem GoodN.step {b : Nat} {g g' : Option World} {γ γ' : Nat} {w w' : World} (hG : GoodN g γ w)
    (h : AdvN b g γ w g' γ' w') : GoodN g' γ' w' := by
  obtain ⟨q, a1, a2, a3⟩ := h
  unfold GoodN QN at *
  refine ⟨?_, ?_⟩ <;> omega

theorem pcost_le (g : Option World) (w w' : World) : pcost g w w' ≤ w'.cmps - w.cmps := by
  unfold pcost; split <;> omega

theorem pcost_zero {g : Option World} (h : ph g = 0) (w w' : World) : pcost g w w' = 0 := by
  unfold pcost; rw [if_neg (by omega)]

theorem cplPos {E : Env} {os oe ns ne : Nat} {w w' : World} {p : Nat}
    (h : commonPrefixLen E os oe ns ne w = .ok (p, w')) : p ≤ oe - os ∧ p ≤ ne - ns :=
  ⟨(cplN h).1, (cplN h).2.1⟩

theorem cslPos {E : Env} {os oe ns ne : Nat} {w w' : World} {p : Nat}
    (h : commonSuffixLen E os oe ns ne w = .ok (p, w')) : p ≤ oe - os ∧ p ≤ ne - ns :=
  ⟨(cslN h).1, (cslN h).2.1⟩

/-- the two scans of one `conquer` frame make at most `3 * min n m` comparisons -/
theorem scans_budget {E : Env} {os oe ns ne p sl : Nat} {w w1 w2 w3 : World}
    (h1 : commonPrefixLen E os oe ns ne w = .ok (p, w1))
    (h2 : commonSuffixLen E (os + p) oe (ns + p) ne w2 = .ok (sl, w3)) :
    (w1.cmps - w.cmps) + (w3.cmps - w2.cmps) ≤ 3 * min (oe - os) (ne - ns) := by
  obtain ⟨a1, a2, _, _, a5, a6, a7⟩ := cplN h1
  obtain ⟨b1, b2, _, _, b5, b6, b7⟩ := cslN h2
  omega

/-- the boxes of the two recursive calls fit into the box of the frame -/
theorem rec_budget {os oe ns ne p sl x y : Nat}
    (hin : os + p ≤ x ∧ x ≤ oe - sl ∧ ns + p ≤ y ∧ y ≤ ne - sl) :
    3 * min (x - (os + p)) (y - (ns + p)) + 3 * min (oe - sl - x) (ne - sl - y) ≤
      3 * min (oe - os) (ne - ns) := by
  omega

theorem inb_of_fms {E : Env} {os oe ns ne a b c d off : Nat} {vf vb : V} {w : World}
    {r : V × V × Option (Nat × Nat) × World} (hb : Spec.InBounds E os oe ns ne)
    (_hF : findMiddleSnake E a b c d off vf vb w = .ok r)
    (h1 : os ≤ a) (h2 : b ≤ oe) (h3 : ns ≤ c) (h4 : d ≤ ne) : Spec.InBounds E a b c d :=
  MyersP.InBounds_sub hb h1 h2 h3 h4

section Post
variable {τ : Type} {H : Hook τ} {mk : τ → World → World → τ} {gOf : τ → Option World} {Γ : τ → Nat}

/-- `AdvN` / `GoodN` on hook states -/
def AdvT (gOf : τ → Option World) (Γ : τ → Nat) (b : Nat) (t : τ) (w : World) (t' : τ) (w' : World) : Prop :=
  AdvN b (gOf t) (Γ t) w (gOf t') (Γ t') w'
def GoodT (gOf : τ → Option World) (Γ : τ → Nat) (t : τ) (w : World) : Prop := GoodN (gOf t) (Γ t) w

/-- every successful hook call is accounted exactly by the counter -/
def HookA (H : Hook τ) (gOf : τ → Option World) (Γ : τ → Nat) : Prop :=
  ∀ c t w t' w', H.call c t w = .ok (t', w') → AdvT gOf Γ 0 t w t' w'

theorem callA (hA : HookA H gOf Γ) {c t w t' w'} (hc : H.call c t w = .ok (t', w')) :
    AdvT gOf Γ 0 t w t' w' := hA _ _ _ _ _ hc

theorem optCallA (hA : HookA H gOf Γ) {c : Prop} [Decidable c] {x t w t' w'}
    (hc : (if c then H.call x t w else .ok (t, w)) = .ok (t', w')) : AdvT gOf Γ 0 t w t' w' := by
  split at hc
  · exact hA _ _ _ _ _ hc
  · cases hc; exact AdvN.refl _ _ _

theorem fmsMkA (hM : MkOK mk gOf) (hMΓ : ∀ t w w1, Γ (mk t w w1) = Γ t) {E : Env} {os oe ns ne off : Nat}
    {vf vb vf' vb' : V} {w w' : World} {res : Option (Nat × Nat)} (t : τ)
    (hc : findMiddleSnake E os oe ns ne off vf vb w = .ok (vf', vb', res, w')) :
    AdvT gOf Γ 0 t w (mk t w w') w' := by
  have q := fmsMkQ hM t hc
  have h1 := fmsN hc
  have h2 := markN (gOf t) w w'
  unfold AdvT AdvN
  rw [hMΓ]
  rw [hM] at q ⊢
  refine ⟨q, ?_, ?_, fun _ h => h⟩
  · intro a b; omega
  · intro a b
    unfold tm at h1 h2
    omega

theorem AdvT.trans {b1 b2 : Nat} {t t1 t2 : τ} {w w1 w2 : World}
    (h1 : AdvT gOf Γ b1 t w t1 w1) (h2 : AdvT gOf Γ b2 t1 w1 t2 w2) : AdvT gOf Γ (b1 + b2) t w t2 w2 :=
  AdvN.trans h1 h2

theorem AdvT.pure {t : τ} {w w' : World} (h : PureW w w') : AdvT gOf Γ (pcost (gOf t) w w') t w t w' :=
  AdvN.pure _ _ h

theorem AdvT.refl (t : τ) (w : World) : AdvT gOf Γ 0 t w t w := AdvN.refl _ _ _

theorem GoodT.step {b : Nat} {t t' : τ} {w w' : World} (hG : GoodT gOf Γ t w) (h : AdvT gOf Γ b t w t' w') :
    GoodT gOf Γ t' w' := GoodN.step hG h

theorem AdvT.mono {b b' : Nat} {t t' : τ} {w w' : World} (h : AdvT gOf Γ b t w t' w') (hb : b ≤ b') :
    AdvT gOf Γ b' t w t' w' := AdvN.mono h hb

/-- `AdvT` from the start of the run under analysis (a separate name so that the forward chaining
below can tell the accumulated fact from the facts about single steps) -/
def AdvC (gOf : τ → Option World) (Γ : τ → Nat) (b : Nat) (t : τ) (w : World) (t' : τ) (w' : World) : Prop :=
  AdvT gOf Γ b t w t' w'

theorem AdvC.start {t : τ} {w : World} (_hG : GoodT gOf Γ t w) : AdvC gOf Γ 0 t w t w := AdvT.refl t w

theorem AdvC.step {b b2 : Nat} {t t1 t2 : τ} {w w1 w2 : World} (h : AdvC gOf Γ b t w t1 w1)
    (h2 : AdvT gOf Γ b2 t1 w1 t2 w2) : AdvC gOf Γ (b + b2) t w t2 w2 := AdvT.trans h h2

theorem AdvC.pure {b : Nat} {t t1 : τ} {w w1 w2 : World} (h : AdvC gOf Γ b t w t1 w1) (h2 : PureW w1 w2) :
    AdvC gOf Γ (b + pcost (gOf t1) w1 w2) t w t1 w2 := AdvT.trans h (AdvT.pure h2)

theorem AdvC.fmsMk (hM : MkOK mk gOf) (hMΓ : ∀ t w w1, Γ (mk t w w1) = Γ t) {E : Env} {os oe ns ne off : Nat}
    {vf vb vf' vb' : V} {res : Option (Nat × Nat)} {b : Nat} {t t1 : τ} {w w1 w2 : World}
    (h : AdvC gOf Γ b t w t1 w1)
    (hF : findMiddleSnake E os oe ns ne off vf vb w1 = .ok (vf', vb', res, w2))
    {c : Call} {w3 : World} {t' : τ} {w' : World} (_hc : H.call c (mk t1 w1 w2) w3 = .ok (t', w')) :
    AdvC gOf Γ (b + 0) t w (mk t1 w1 w2) w2 := AdvT.trans h (fmsMkA hM hMΓ t1 hF)

theorem GoodT.stepC {b : Nat} {t t' : τ} {w w' : World} (hG : GoodT gOf Γ t w) (h : AdvC gOf Γ b t w t' w') :
    GoodT gOf Γ t' w' := GoodN.step hG h

theorem AdvC.finish {b b' : Nat} {t t' : τ} {w w' : World} (h : AdvC gOf Γ b t w t' w') (hb : b ≤ b') :
    AdvT gOf Γ b' t w t' w' := AdvN.mono h hb

/-- extend the most recent `AdvC` fact forwards along the gathered step facts as far as possible -/
macro "adv_fwd " hM:term ", " hMG:term : tactic =>
  `(tactic| repeat (first
      | (have hnew := AdvC.step (by with_reducible assumption : AdvC _ _ _ _ _ _ _) (by with_reducible assumption))
      | (have hnew := AdvC.pure (by with_reducible assumption : AdvC _ _ _ _ _ _ _) (by with_reducible assumption))
      | (have hnew := AdvC.fmsMk $hM $hMG (by with_reducible assumption : AdvC _ _ _ _ _ _ _) (by with_reducible assumption)
            (by with_reducible assumption))))

/-- the position-indexed state invariant and how the hook carries it -/
structure JSteps (H : Hook τ) (mk : τ → World → World → τ) (gOf : τ → Option World) (Γ : τ → Nat)
    (J : Nat → Nat → τ → Prop) : Prop where
  eqv : ∀ {i j l t w t' w'}, J i j t →
    (if 0 < l then H.call (.op (.equal i j l)) t w else .ok (t, w)) = .ok (t', w') →
    GoodT gOf Γ t w → J (i + l) (j + l) t'
  del : ∀ {i j l t w t' w'}, J i j t → H.call (.op (.delete i l j)) t w = .ok (t', w') →
    GoodT gOf Γ t w → J (i + l) j t'
  ins : ∀ {i j l o t w t' w'}, J i j t → H.call (.op (.insert o j l)) t w = .ok (t', w') →
    GoodT gOf Γ t w → J i (j + l) t'
  mkJ : ∀ {i j t w w1}, J i j t → J i j (mk t w w1)

section JC
variable {J : Nat → Nat → τ → Prop} (JS : JSteps H mk gOf Γ J)
include JS

theorem JSteps.eqvC {i0 j0 i j l t w t' w'} (hJ : J i0 j0 t)
    (hc : (if 0 < l then H.call (.op (.equal i j l)) t w else .ok (t, w)) = .ok (t', w'))
    (hi : i = i0) (hj : j = j0) (hG : GoodT gOf Γ t w) : J (i + l) (j + l) t' := by
  subst hi hj; exact JS.eqv hJ hc hG

theorem JSteps.eqvC' {i0 j0 i j l t w t' w'} (hJ : J i0 j0 t)
    (hc : H.call (.op (.equal i j l)) t w = .ok (t', w')) (hl : 0 < l)
    (hi : i = i0) (hj : j = j0) (hG : GoodT gOf Γ t w) : J (i + l) (j + l) t' := by
  subst hi hj; exact JS.eqv (l := l) hJ (by rw [if_pos hl]; exact hc) hG

theorem JSteps.delC {i0 j0 i j l t w t' w'} (hJ : J i0 j0 t)
    (hc : H.call (.op (.delete i l j)) t w = .ok (t', w'))
    (hi : i = i0) (hj : j = j0) (hG : GoodT gOf Γ t w) : J (i + l) j t' := by
  subst hi hj; exact JS.del hJ hc hG

theorem JSteps.insC {i0 j0 j l o t w t' w'} (hJ : J i0 j0 t)
    (hc : H.call (.op (.insert o j l)) t w = .ok (t', w'))
    (hj : j = j0) (hG : GoodT gOf Γ t w) : J i0 (j + l) t' := by
  subst hj; exact JS.ins hJ hc hG

theorem JSteps.mkC {i j t w w1 c w2 t' w'} (hJ : J i j t)
    (_hc : H.call c (mk t w w1) w2 = .ok (t', w')) : J i j (mk t w w1) := JS.mkJ hJ

end JC

theorem J_cast {J : Nat → Nat → τ → Prop} {i j i' j' : Nat} {t : τ} (h : J i j t) (hi : i' = i) (hj : j' = j) :
    J i' j' t := by subst hi hj; exact h

/-- extend the most recent `J` fact forwards through the hook calls of the run (the `AdvC` facts
must already reach that far) -/
macro "j_fwd " JS:term ", " hG:term ", " J:term : tactic =>
  `(tactic| repeat (first
      | (have hnew := JSteps.eqvC $JS ‹$J _ _ _› (by with_reducible assumption) (by omega) (by omega)
            (GoodT.stepC $hG (b := _) (by with_reducible assumption)))
      | (have hnew := JSteps.eqvC' $JS ‹$J _ _ _› (by with_reducible assumption) (by assumption) (by omega) (by omega)
            (GoodT.stepC $hG (b := _) (by with_reducible assumption)))
      | (have hnew := JSteps.delC $JS ‹$J _ _ _› (by with_reducible assumption) (by omega) (by omega)
            (GoodT.stepC $hG (b := _) (by with_reducible assumption)))
      | (have hnew := JSteps.insC $JS ‹$J _ _ _› (by with_reducible assumption) (by omega)
            (GoodT.stepC $hG (b := _) (by with_reducible assumption)))
      | (have hnew := JSteps.mkC $JS ‹$J _ _ _› (by with_reducible assumption))))

/-- in the branch of `conquerS` that recurses no probe has answered "exceeded" so far -/
theorem rec_phase {E : Env} {os oe ns ne off : Nat} {vf vb vf' vb' : V} {w3 w5 : World} {q : Nat × Nat}
    {b : Nat} {t t1 : τ} {w : World}
    (hF : findMiddleSnake E os oe ns ne off vf vb w3 = .ok (vf', vb', some q, w5))
    (hA : AdvC gOf Γ b t w t1 w3) (hG : GoodT gOf Γ t w) : ph (gOf t) = 0 ∧ ph (gOf t1) = 0 := by
  have h1 := (fmsN_some hF).1
  have h2 := GoodT.stepC hG hA
  have h3 := hA.1
  have := ph_le (gOf t1)
  unfold GoodT GoodN at h2
  unfold QN at h3
  refine ⟨?_, ?_⟩ <;> omega

/-- **`conquerS` over a hook with ghost, counter and position invariant**: `J` is carried from
`(os, ns)` to `(oe, ne)` and the run itself makes at most `3 * min n m` comparisons after the expiry -/
theorem conquerS_post {E : Env} (hbox : MyersP.SnakeInBox E) (hA : HookA H gOf Γ) (hM : MkOK mk gOf)
    (hMΓ : ∀ t w w1, Γ (mk t w w1) = Γ t) {J : Nat → Nat → τ → Prop} (JS : JSteps H mk gOf Γ J) {off : Nat} :
    ∀ {fuel os oe ns ne vf vb t w t' vf' vb' w'}, os ≤ oe → ns ≤ ne → Spec.InBounds E os oe ns ne →
      conquerS E H mk off fuel os oe ns ne vf vb t w = .ok (t', vf', vb', w') →
      J os ns t → GoodT gOf Γ t w →
      J oe ne t' ∧ AdvT gOf Γ (3 * min (oe - os) (ne - ns)) t w t' w' := by
  intro fuel
  induction fuel with
  | zero => intro os oe ns ne vf vb t w t' vf' vb' w' _ _ _ hc; simp [conquerS] at hc
  | succ fuel ih =>
    intro os oe ns ne vf vb t w t' vf' vb' w' ho hn hb hc hJ hG
    unfold conquerS at hc
    destruct_run
    all_goals
      gather [callA hA, optCallA hA, cplP, cslP, fmsSomeP, cplPos, cslPos]
      simp only [Bool.and_eq_true, decide_eq_true_eq] at *
      have hc0 := AdvC.start hG
      adv_fwd hM, hMΓ
      j_fwd JS, hG, J
    all_goals try
        (refine ⟨J_cast ‹J _ _ t'› (by omega) (by omega), AdvC.finish (by with_reducible assumption : AdvC gOf Γ _ t w t' w') ?_⟩
         refine Nat.le_trans ?_ (scans_budget ‹commonPrefixLen _ _ _ _ _ _ = _› ‹commonSuffixLen _ _ _ _ _ _ = _›)
         simp only [Nat.zero_add, Nat.add_zero]
         exact Nat.add_le_add (pcost_le _ _ _) (pcost_le _ _ _))
    -- the two recursive calls
    all_goals
        (have hF := ‹findMiddleSnake _ _ _ _ _ _ _ _ _ = _›
         have hL := ‹conquerS E H mk off fuel (os + _) _ (ns + _) _ _ _ _ _ = _›
         have hR := ‹conquerS E H mk off fuel _ (oe - _) _ (ne - _) _ _ _ _ = _›
         have hb' := inb_of_fms hb hF (by omega) (by omega) (by omega) (by omega)
         have hin := hbox _ _ _ _ _ _ _ _ _ _ _ _ _ (by omega) (by omega) hb' hF
         have hph := rec_phase hF (b := _) (by with_reducible assumption) hG
         obtain ⟨hJa, hAa⟩ := ih (by omega) (by omega)
           (MyersP.InBounds_sub hb' (by omega) (by omega) (by omega) (by omega)) hL
           (by with_reducible assumption) (GoodT.stepC hG (b := _) (by with_reducible assumption))
         adv_fwd hM, hMΓ
         obtain ⟨hJb, hAb⟩ := ih (by omega) (by omega)
           (MyersP.InBounds_sub hb' (by omega) (by omega) (by omega) (by omega)) hR
           hJa (GoodT.stepC hG (b := _) (by with_reducible assumption))
         adv_fwd hM, hMΓ
         j_fwd JS, hG, J
         refine ⟨J_cast ‹J _ _ t'› (by omega) (by omega), AdvC.finish (by with_reducible assumption : AdvC gOf Γ _ t w t' w') ?_⟩
         simp only [pcost_zero hph.1, pcost_zero hph.2, Nat.zero_add, Nat.add_zero]
         exact rec_budget hin)

end Post

end SimilarVerif.PatiencePost

import SimilarVerif.Lemmas.PatienceCostAcct
import SimilarVerif.Lemmas.PatienceCostOuter
/-! # C07 / C19 for Patience: the number of comparisons

`World.cmps` counts every evaluation of `new[j] == old[i]`, whichever run makes it: the OUTER Myers
run over the two `unique` lists (through `Env.sub`), the scans of the internal hook, the INNER
Myers runs on the gaps and the TAIL run.

* §1–§3: a generic accounting scheme.  The outer hook is wrapped into the ghost hook `gh` of
  `PatienceCostAcct`; a cost invariant `CI p r k g` (cursor, user state, anchors processed, ghost
  counter) is pushed through `patEqual`, through `Replace`, and through the ops of the outer run.
* §4: **C07, expired at entry** (`patience_expired_entry`): `≤ 5·min N M + 4` comparisons.
* §5–§6: **C19, no deadline**: `patience_cmps_split` (outer run + everything else, each bounded),
  `patience_cmps_rel` (one constant, relative to `D_outer ≤ Dp`), `patience_cmps` (`57·(N+M+1)·(Dp+1)`
  for every `Env` that is an equality pattern, via `PatienceCostOuter.outer_le_cost`).
-/
namespace SimilarVerif.PatienceC
open SimilarVerif Spec MyersP MyersT MyersC MyersG MyersGO HookFail DeadlineP PatienceP PatienceT

/-! ## 1. Delivery with a clock value that is kept -/

/-- algorithm-internal world changes keep the clock value `c0` (`none`: no deadline; `some 0`: expired) -/
def KeepC (c0 : Option Nat) (w w' : World) : Prop := w.clock = c0 → w'.clock = c0

theorem KeepC.refl (c0 : Option Nat) (w : World) : KeepC c0 w w := id
theorem KeepC.trans {c0 : Option Nat} {a b c : World} (h1 : KeepC c0 a b) (h2 : KeepC c0 b c) : KeepC c0 a c :=
  fun h => h2 (h1 h)

/-- `MyersG.Delivered` with an arbitrary kept clock value -/
inductive DeliveredR {σ} (c0 : Option Nat) (h : Hook σ) : List Op → σ → World → σ → World → Prop
  | nil {s : σ} {w w' : World} : KeepC c0 w w' → DeliveredR c0 h [] s w s w'
  | cons {x : Op} {xs : List Op} {s s2 s' : σ} {w w1 w2 w' : World} :
      KeepC c0 w w1 → h.call (.op x) s w1 = .ok (s2, w2) → DeliveredR c0 h xs s2 w2 s' w' →
      DeliveredR c0 h (x :: xs) s w s' w'

theorem DeliveredR.of_delivered {σ} {h : Hook σ} {ops : List Op} {s s' : σ} {w w' : World}
    (hd : Delivered h ops s w s' w') : DeliveredR none h ops s w s' w' := by
  induction hd with
  | nil h0 => exact .nil h0
  | cons h0 hc _ ih => exact .cons h0 hc ih

theorem DeliveredR.pre {σ} {c0 : Option Nat} {h : Hook σ} {ops : List Op} {s s' : σ} {w0 w w' : World}
    (h0 : KeepC c0 w0 w) (hd : DeliveredR c0 h ops s w s' w') : DeliveredR c0 h ops s w0 s' w' := by
  cases hd with
  | nil hk => exact .nil (h0.trans hk)
  | cons hk hc ht => exact .cons (h0.trans hk) hc ht

theorem DeliveredR.append {σ} {c0 : Option Nat} {h : Hook σ} {a b : List Op} {s s1 s2 : σ} {w w1 w2 : World}
    (h1 : DeliveredR c0 h a s w s1 w1) (h2 : DeliveredR c0 h b s1 w1 s2 w2) :
    DeliveredR c0 h (a ++ b) s w s2 w2 := by
  induction h1 with
  | nil hk => exact h2.pre hk
  | cons hk hc _ ih => exact .cons hk hc (ih h2)

theorem DeliveredR.single {σ} {c0 : Option Nat} {h : Hook σ} {x : Op} {s s' : σ} {w w' : World}
    (hc : emit h x s w = .ok (s', w')) : DeliveredR c0 h [x] s w s' w' :=
  .cons (KeepC.refl c0 w) hc (.nil (KeepC.refl c0 w'))

/-! ## 2. Scans and the cursor -/

/-- a scan makes at most `fuel` comparisons, at most one more than it advances, and only compares -/
theorem patScan_cost (E : Env) (a b : Nat) : ∀ (fuel oc nc : Nat) (w : World) (oc' nc' : Nat) (w' : World),
    patScan E a b fuel oc nc w = .ok (oc', nc', w') →
    w'.cmps ≤ w.cmps + fuel ∧ w'.cmps ≤ w.cmps + (oc' - oc) + 1 ∧ w'.clock = w.clock := by
  intro fuel
  induction fuel with
  | zero =>
    intro oc nc w oc' nc' w' h
    simp only [patScan] at h
    split at h
    · simp at h
    · simp only [Except.ok.injEq, Prod.mk.injEq] at h
      obtain ⟨rfl, rfl, rfl⟩ := h
      exact ⟨by omega, by omega, rfl⟩
  | succ f ih =>
    intro oc nc w oc' nc' w' h
    simp only [patScan] at h
    split at h
    · split at h
      · simp at h
      · rename_i w1 hc
        obtain ⟨-, rfl⟩ := cmp_ok hc
        obtain ⟨h1, h2, h3⟩ := ih _ _ _ _ _ _ h
        obtain ⟨k, rfl, -, -⟩ := patScan_spec E a b _ _ _ _ _ _ _ h
        simp only at h1 h2 h3
        exact ⟨by omega, by omega, h3⟩
      · rename_i w1 hc
        obtain ⟨-, rfl⟩ := cmp_ok hc
        simp only [Except.ok.injEq, Prod.mk.injEq] at h
        obtain ⟨rfl, rfl, rfl⟩ := h
        exact ⟨by simp only; omega, by simp only; omega, rfl⟩
    · simp only [Except.ok.injEq, Prod.mk.injEq] at h
      obtain ⟨rfl, rfl, rfl⟩ := h
      exact ⟨by omega, by omega, rfl⟩

/-- where an anchor step leaves the cursor: on the anchor -/
theorem patAnchor_cursor {σ} {E : Env} {h : Hook σ} {uo un : Array Nat} {i j : Nat} {p p' : PState}
    {s s' : σ} {w w' : World} (hc : patAnchor E h uo un i j p s w = .ok (p', s', w')) :
    ∃ a b, uo[i]? = some a ∧ un[j]? = some b ∧ p' = { oc := a, nc := b } := by
  unfold patAnchor at hc
  split at hc
  · rename_i a b ha hb
    refine ⟨a, b, ha, hb, ?_⟩
    simp only at hc
    destruct_run
  · simp at hc

/-- the cursor lies in the ranges -/
def Bnd (os oe ns ne : Nat) (p : PState) : Prop := os ≤ p.oc ∧ p.oc ≤ oe ∧ ns ≤ p.nc ∧ p.nc ≤ ne

/-- a cost invariant may forget part of the ghost counter -/
def CIDown (CI : PState → Rec → Nat → Nat → Prop) : Prop :=
  ∀ p r k g g', CI p r k g → g' ≤ g → CI p r k g'

/-- what one anchor step (scan, `equal`, gap run) does to the cost invariant `CI p r k g`:
`p` cursor, `r` user state, `k` anchors processed, `g` comparisons spent inside hook calls -/
def AnchorStep (E : Env) (os oe ns ne : Nat) (uo un : Array Nat) (c0 : Option Nat)
    (CI : PState → Rec → Nat → Nat → Prop) : Prop :=
  ∀ (i j a b : Nat) (p : PState) (r : Rec) (w : World) (p' : PState) (r' : Rec) (w' : World) (k g : Nat),
    uo[i]? = some a → un[j]? = some b → os ≤ p.oc → p.oc ≤ a → a < oe → ns ≤ p.nc → p.nc ≤ b → b < ne →
    w.clock = c0 → patAnchor E recHook uo un i j p r w = .ok (p', r', w') → CI p r k g →
    w'.clock = c0 ∧ CI p' r' (k+1) (g + (w'.cmps - w.cmps))

section Generic
variable {E : Env} {os oe ns ne : Nat} {uo un : Array Nat} (hao : Asc uo os oe) (han : Asc un ns ne)
  {c0 : Option Nat} {CI : PState → Rec → Nat → Nat → Prop} (hdown : CIDown CI)
  (hstep : AnchorStep E os oe ns ne uo un c0 CI)
include hao han hdown hstep

theorem patEqual_ci : ∀ (len i j : Nat) (p : PState) (r : Rec) (w : World) (p' : PState) (r' : Rec)
    (w' : World) (k g : Nat),
    Bnd os oe ns ne p → CB uo un p i j → w.clock = c0 →
    patEqual E recHook uo un len i j p r w = .ok (p', r', w') → CI p r k g →
    Bnd os oe ns ne p' ∧ CB uo un p' (i+len) (j+len) ∧ w'.clock = c0 ∧
      CI p' r' (k+len) (g + (w'.cmps - w.cmps)) := by
  intro len
  induction len with
  | zero =>
    intro i j p r w p' r' w' k g hb hcb hw hc hci
    simp only [patEqual, Except.ok.injEq, Prod.mk.injEq] at hc
    obtain ⟨rfl, rfl, rfl⟩ := hc
    exact ⟨hb, hcb, hw, hdown _ _ _ _ _ hci (by omega)⟩
  | succ l ih =>
    intro i j p r w p' r' w' k g hb hcb hw hc hci
    simp only [patEqual] at hc
    split at hc
    · simp at hc
    · rename_i p1 r1 w1 ha
      obtain ⟨a, b, hua, hub, rfl⟩ := patAnchor_cursor ha
      have ra := hao.range i a hua
      have rb := han.range j b hub
      obtain ⟨b1, b2, b3, b4⟩ := hb
      have la := hcb.1 i a (Nat.le_refl _) hua
      have lb := hcb.2 j b (Nat.le_refl _) hub
      obtain ⟨hw1, hci1⟩ := hstep i j a b p r w _ r1 w1 k g hua hub b1 la ra.2 b3 lb rb.2 hw ha hci
      have hb1 : Bnd os oe ns ne { oc := a, nc := b } := ⟨ra.1, Nat.le_of_lt ra.2, rb.1, Nat.le_of_lt rb.2⟩
      have hcb1 : CB uo un { oc := a, nc := b } (i+1) (j+1) :=
        ⟨fun k' a' hk' hu' => Nat.le_of_lt (hao.mono i k' a a' (by omega) hua hu'),
         fun k' b' hk' hu' => Nat.le_of_lt (han.mono j k' b b' (by omega) hub hu')⟩
      obtain ⟨c1, c2, c3, c4⟩ := ih (i+1) (j+1) _ r1 w1 p' r' w' (k+1) _ hb1 hcb1 hw1 hc hci1
      refine ⟨c1, ?_, c3, ?_⟩
      · rw [show i + (l+1) = i + 1 + l from by omega, show j + (l+1) = j + 1 + l from by omega]; exact c2
      · rw [show k + (l+1) = k + 1 + l from by omega]
        exact hdown _ _ _ _ _ c4 (by omega)

end Generic

/-! ## 3. Through `Replace` and along the outer run -/

/-- length of the `equal` that `Replace` holds back -/
def plen (rs : RState) : Nat := match rs.eq with | some (_, _, l) => l | none => 0

/-- the accounting invariant of the outer run at outer position `(i, j)`; `g` = ghost counter -/
def SInv (os oe ns ne : Nat) (uo un : Array Nat) (CI : PState → Rec → Nat → Nat → Prop)
    (i j : Nat) (st : RState × PState × Rec) (g : Nat) : Prop :=
  Bnd os oe ns ne st.2.1 ∧ Pend uo un st.1 st.2.1 i j ∧
    ∃ k, k + plen st.1 ≤ i ∧ k + plen st.1 ≤ j ∧ CI st.2.1 st.2.2 k g

/-- `delete` / `insert` / `replace` reaching the Patience hook are ignored, in every world -/
theorem flushDelIns_w {σ} {E : Env} {h : Hook σ} {uo un : Array Nat} {oe ne : Nat} {rs rs' : RState}
    {st st' : PState × σ} {w w' : World}
    (hc : rFlushDelIns (patienceHook E h uo un oe ne) rs st w = .ok (rs', st', w')) :
    st' = st ∧ rs'.eq = rs.eq ∧ w' = w := by
  unfold rFlushDelIns at hc
  split at hc <;> simp [patienceHook] at hc <;> obtain ⟨rfl, rfl, rfl⟩ := hc <;> simp

section Generic
variable {E : Env} {os oe ns ne : Nat} {uo un : Array Nat} (hao : Asc uo os oe) (han : Asc un ns ne)
  {c0 : Option Nat} {CI : PState → Rec → Nat → Nat → Prop} (hdown : CIDown CI)
  (hstep : AnchorStep E os oe ns ne uo un c0 CI)
include hao han hdown hstep

/-- flushing the pending `equal` processes its anchors -/
theorem flushEq_ci (i j : Nat) (rs : RState) (p : PState) (r : Rec) (w : World) (rs' : RState)
    (p' : PState) (r' : Rec) (w' : World) (g : Nat) (hw : w.clock = c0)
    (hinv : SInv os oe ns ne uo un CI i j (rs, p, r) g)
    (h : rFlushEq (patienceHook E recHook uo un oe ne) rs (p, r) w = .ok (rs', (p', r'), w')) :
    rs'.eq = none ∧ rs'.del = rs.del ∧ rs'.ins = rs.ins ∧ Bnd os oe ns ne p' ∧ CB uo un p' i j ∧
      w'.clock = c0 ∧ ∃ k, k ≤ i ∧ k ≤ j ∧ CI p' r' k (g + (w'.cmps - w.cmps)) := by
  obtain ⟨hb, hp, k, hk1, hk2, hci⟩ := hinv
  simp only at hb hp hci hk1 hk2
  unfold rFlushEq at h
  unfold Pend at hp
  unfold plen at hk1 hk2
  split at h
  · rename_i o n l heq
    rw [heq] at hp hk1 hk2
    simp only at hk1 hk2
    obtain ⟨rfl, rfl, hcb⟩ := hp
    simp only [patienceHook] at h
    split at h
    · simp at h
    · rename_i st1 w1 hcall
      split at hcall
      · simp at hcall
      · rename_i p1 r1 w2 hpe
        simp only [Except.ok.injEq, Prod.mk.injEq] at hcall h
        obtain ⟨rfl, rfl⟩ := hcall
        obtain ⟨rfl, ⟨rfl, rfl⟩, rfl⟩ := h
        obtain ⟨c1, c2, c3, c4⟩ := patEqual_ci hao han hdown hstep l o n p r w _ _ _ k g hb hcb hw hpe hci
        exact ⟨rfl, rfl, rfl, c1, c2, c3, k + l, hk1, hk2, c4⟩
  · rename_i heq
    rw [heq] at hp hk1 hk2
    simp only [Except.ok.injEq, Prod.mk.injEq] at h
    obtain ⟨rfl, ⟨rfl, rfl⟩, rfl⟩ := h
    exact ⟨heq, rfl, rfl, hb, hp, hw, k, by omega, by omega, hdown _ _ _ _ _ hci (by omega)⟩

end Generic

section Generic
variable {E : Env} {os oe ns ne : Nat} {uo un : Array Nat} (hao : Asc uo os oe) (han : Asc un ns ne)
  {c0 : Option Nat} {CI : PState → Rec → Nat → Nat → Prop} (hdown : CIDown CI)
  (hstep : AnchorStep E os oe ns ne uo un c0 CI)

include hdown in
/-- an outer `equal` is only queued by `Replace` -/
theorem cstep_equal (i j l : Nat) (st : RState × PState × Rec) (w : World) (st' : RState × PState × Rec)
    (w' : World) (g : Nat) (hw : w.clock = c0) (hinv : SInv os oe ns ne uo un CI i j st g)
    (h : (replaceHook (patienceHook E recHook uo un oe ne)).call (.op (.equal i j l)) st w = .ok (st', w')) :
    SInv os oe ns ne uo un CI (i + l) (j + l) st' (g + (w'.cmps - w.cmps)) ∧ w'.clock = c0 := by
  obtain ⟨rs, p, r⟩ := st
  obtain ⟨hb, hp, k, hk1, hk2, hci⟩ := hinv
  simp only at hb hp hk1 hk2 hci
  simp only [replaceHook] at h
  split at h
  · simp at h
  · rename_i rs1 st1 w1 hfl
    obtain ⟨rfl, heq, rfl⟩ := flushDelIns_w hfl
    unfold Pend at hp
    unfold plen at hk1 hk2
    rw [← heq] at hp hk1 hk2
    have hci' := hdown _ _ _ _ (g + (w1.cmps - w1.cmps)) hci (by omega)
    split at h
    · rename_i eo en el heq1
      rw [heq1] at hp hk1 hk2
      simp only [Except.ok.injEq, Prod.mk.injEq] at h
      obtain ⟨rfl, rfl⟩ := h
      simp only at hk1 hk2
      refine ⟨⟨hb, ?_, k, ?_, ?_, hci'⟩, hw⟩
      · simp only [Pend]; exact ⟨by omega, by omega, hp.2.2⟩
      · simp only [plen]; omega
      · simp only [plen]; omega
    · rename_i heq1
      rw [heq1] at hp hk1 hk2
      simp only [Except.ok.injEq, Prod.mk.injEq] at h
      obtain ⟨rfl, rfl⟩ := h
      simp only at hk1 hk2
      refine ⟨⟨hb, ?_, k, ?_, ?_, hci'⟩, hw⟩
      · simp only [Pend, true_and]; exact hp
      · simp only [plen]; omega
      · simp only [plen]; omega

include hao han hdown hstep

theorem cstep_delete (i j l cn : Nat) (st : RState × PState × Rec) (w : World) (st' : RState × PState × Rec)
    (w' : World) (g : Nat) (hw : w.clock = c0) (hinv : SInv os oe ns ne uo un CI i j st g)
    (h : (replaceHook (patienceHook E recHook uo un oe ne)).call (.op (.delete i l cn)) st w = .ok (st', w')) :
    SInv os oe ns ne uo un CI (i + l) j st' (g + (w'.cmps - w.cmps)) ∧ w'.clock = c0 := by
  obtain ⟨rs, p, r⟩ := st
  simp only [replaceHook] at h
  split at h
  · simp at h
  · rename_i rs1 st1 w1 hfl
    obtain ⟨p1, r1⟩ := st1
    obtain ⟨heq1, -, -, hb1, hcb1, hw1, k, hk1, hk2, hci⟩ :=
      flushEq_ci hao han hdown hstep i j rs p r w rs1 p1 r1 w1 g hw hinv hfl
    have hcb2 := hcb1.mono (Nat.le_add_right i l) (Nat.le_refl j)
    split at h
    · split at h
      · simp only [Except.ok.injEq, Prod.mk.injEq] at h
        obtain ⟨rfl, rfl⟩ := h
        exact ⟨⟨hb1, by simp only [Pend, heq1]; exact hcb2, k, by simp only [plen, heq1]; omega,
          by simp only [plen, heq1]; omega, hci⟩, hw1⟩
      · simp at h
    · simp only [Except.ok.injEq, Prod.mk.injEq] at h
      obtain ⟨rfl, rfl⟩ := h
      exact ⟨⟨hb1, by simp only [Pend, heq1]; exact hcb2, k, by simp only [plen, heq1]; omega,
        by simp only [plen, heq1]; omega, hci⟩, hw1⟩

theorem cstep_insert (i j l co : Nat) (st : RState × PState × Rec) (w : World) (st' : RState × PState × Rec)
    (w' : World) (g : Nat) (hw : w.clock = c0) (hinv : SInv os oe ns ne uo un CI i j st g)
    (h : (replaceHook (patienceHook E recHook uo un oe ne)).call (.op (.insert co j l)) st w = .ok (st', w')) :
    SInv os oe ns ne uo un CI i (j + l) st' (g + (w'.cmps - w.cmps)) ∧ w'.clock = c0 := by
  obtain ⟨rs, p, r⟩ := st
  simp only [replaceHook] at h
  split at h
  · simp at h
  · rename_i rs1 st1 w1 hfl
    obtain ⟨p1, r1⟩ := st1
    obtain ⟨heq1, -, -, hb1, hcb1, hw1, k, hk1, hk2, hci⟩ :=
      flushEq_ci hao han hdown hstep i j rs p r w rs1 p1 r1 w1 g hw hinv hfl
    have hcb2 := hcb1.mono (Nat.le_refl i) (Nat.le_add_right j l)
    split at h
    · split at h
      · simp only [Except.ok.injEq, Prod.mk.injEq] at h
        obtain ⟨rfl, rfl⟩ := h
        exact ⟨⟨hb1, by simp only [Pend, heq1]; exact hcb2, k, by simp only [plen, heq1]; omega,
          by simp only [plen, heq1]; omega, hci⟩, hw1⟩
      · simp at h
    · simp only [Except.ok.injEq, Prod.mk.injEq] at h
      obtain ⟨rfl, rfl⟩ := h
      exact ⟨⟨hb1, by simp only [Pend, heq1]; exact hcb2, k, by simp only [plen, heq1]; omega,
        by simp only [plen, heq1]; omega, hci⟩, hw1⟩

end Generic

section Generic
variable {E : Env} {os oe ns ne : Nat} {uo un : Array Nat} (hao : Asc uo os oe) (han : Asc un ns ne)
  {c0 : Option Nat} {CI : PState → Rec → Nat → Nat → Prop} (hdown : CIDown CI)
  (hstep : AnchorStep E os oe ns ne uo un c0 CI)
include hao han hdown hstep

/-- the ops of the outer run, delivered to the ghost-wrapped hook, preserve the accounting invariant;
only the positional part of the `Walk` matters -/
theorem crun (e' : Nat → Nat → Bool) : ∀ (ops : List Op) (i j i2 j2 : Nat)
    (t : (RState × PState × Rec) × Nat) (w : World) (t' : (RState × PState × Rec) × Nat) (w' : World),
    DeliveredR c0 (gh (replaceHook (patienceHook E recHook uo un oe ne))) ops t w t' w' →
    Walk e' i j ops i2 j2 → NoReplaceOp ops → w.clock = c0 →
    SInv os oe ns ne uo un CI i j t.1 t.2 → SInv os oe ns ne uo un CI i2 j2 t'.1 t'.2 ∧ w'.clock = c0 := by
  intro ops i j i2 j2 t w t' w' hd
  induction hd generalizing i j with
  | nil hk => intro hw _ hc hinv; obtain ⟨rfl, rfl⟩ := hw; exact ⟨hinv, hk hc⟩
  | @cons x xs s s2 s' w w1 w2 w' hk hc _ ih =>
    intro hw hnr hcl hinv
    obtain ⟨hc1, hg⟩ := gh_ok hc
    have hcl1 := hk hcl
    cases x with
    | equal co cn l =>
      simp only [Walk] at hw
      obtain ⟨rfl, rfl, _, _, hw'⟩ := hw
      obtain ⟨a1, a2⟩ := cstep_equal hdown _ _ l s.1 w1 s2.1 w2 s.2 hcl1 hinv hc1
      rw [← hg] at a1
      exact ih _ _ hw' hnr a2 a1
    | delete co l cn =>
      simp only [Walk] at hw
      obtain ⟨rfl, _, hw'⟩ := hw
      obtain ⟨a1, a2⟩ := cstep_delete hao han hdown hstep _ _ l cn s.1 w1 s2.1 w2 s.2 hcl1 hinv hc1
      rw [← hg] at a1
      exact ih _ _ hw' hnr a2 a1
    | insert co cn l =>
      simp only [Walk] at hw
      obtain ⟨rfl, _, hw'⟩ := hw
      obtain ⟨a1, a2⟩ := cstep_insert hao han hdown hstep _ _ l co s.1 w1 s2.1 w2 s.2 hcl1 hinv hc1
      rw [← hg] at a1
      exact ih _ _ hw' hnr a2 a1
    | replace co ol cn nl => exact hnr.elim

/-- `finish`: the pending anchors are processed, then the tail run with the real `finish` starts -/
theorem cfinish (i j : Nat) (st : RState × PState × Rec) (w : World) (st' : RState × PState × Rec)
    (w' : World) (g : Nat) (hw : w.clock = c0) (hinv : SInv os oe ns ne uo un CI i j st g)
    (h : (replaceHook (patienceHook E recHook uo un oe ne)).call .finish st w = .ok (st', w')) :
    ∃ p1 r1 w1 k, Bnd os oe ns ne p1 ∧ k ≤ i ∧ k ≤ j ∧ w1.clock = c0 ∧
      CI p1 r1 k (g + (w1.cmps - w.cmps)) ∧
      myersDiff E recHook p1.oc oe p1.nc ne r1 w1 = .ok (st'.2.2, w') := by
  obtain ⟨rs, p, r⟩ := st
  simp only [replaceHook] at h
  split at h
  · simp at h
  · rename_i rs1 st1 w1 hfl
    obtain ⟨p1, r1⟩ := st1
    obtain ⟨-, -, -, hb1, -, hw1, k, hk1, hk2, hci⟩ :=
      flushEq_ci hao han hdown hstep i j rs p r w rs1 p1 r1 w1 g hw hinv hfl
    split at h
    · simp at h
    · rename_i rs2 st2 w2 hfl2
      obtain ⟨rfl, -, rfl⟩ := flushDelIns_w hfl2
      split at h
      · simp at h
      · rename_i st3 w3 hfin
        simp only [Except.ok.injEq, Prod.mk.injEq] at h
        obtain ⟨rfl, rfl⟩ := h
        simp only [patienceHook] at hfin
        split at hfin
        · simp at hfin
        · rename_i r3 w4 hmy
          simp only [Except.ok.injEq, Prod.mk.injEq] at hfin
          obtain ⟨rfl, rfl⟩ := hfin
          exact ⟨p1, r1, w2, k, hb1, hk1, hk2, hw1, hci, hmy⟩

end Generic

/-! ## 4. C07: Patience entered on an expired clock -/

/-- a `conquer` call started on an expired clock delivers at most four ops (prefix `equal`, `delete`,
`insert`, suffix `equal`), all on an expired clock -/
theorem conquer_expired_delivered {σ} {h : Hook σ} (hk : HookKeepsExpired h) {E : Env}
    {off fuel os oe ns ne : Nat} {vf vb vf' vb' : V} {s s' : σ} {w w' : World} (ho : os ≤ oe) (hn : ns ≤ ne)
    (h0 : w.clock = some 0)
    (hrun : conquer E h off (fuel + 1) os oe ns ne vf vb s w = .ok (s', vf', vb', w')) :
    ∃ ops, DeliveredR (some 0) h ops s w s' w' ∧ Walk (fun _ _ => true) os ns ops oe ne ∧
      NoReplaceOp ops ∧ w'.clock = some 0 := by
  simp only [conquer] at hrun
  split at hrun
  · simp at hrun
  · rename_i p w1 hp
    obtain ⟨hp1, hp2, -, -, hp5⟩ := commonPrefixLen_spec hp
    have hc1 : w1.clock = some 0 := by rw [hp5.1]; exact h0
    have hk1 : KeepC (some 0) w w1 := fun _ => hc1
    split at hrun
    · simp at hrun
    · rename_i s1 w2 hpre
      have hpre' : ∃ a, DeliveredR (some 0) h a s w1 s1 w2 ∧
          Walk (fun _ _ => true) os ns a (os+p) (ns+p) ∧ NoReplaceOp a ∧ w2.clock = some 0 := by
        split at hpre
        · rename_i hpos
          exact ⟨[.equal os ns p], .single hpre, by simp [Walk, hpos], by simp [NoReplaceOp],
            hk _ _ _ _ _ hpre hc1⟩
        · simp only [Except.ok.injEq, Prod.mk.injEq] at hpre
          obtain ⟨rfl, rfl⟩ := hpre
          have : p = 0 := by omega
          subst this
          exact ⟨[], .nil (KeepC.refl _ _), by simp [Walk], by simp [NoReplaceOp], hc1⟩
      obtain ⟨a, da, wa, na, hc2⟩ := hpre'
      split at hrun
      · simp at hrun
      · rename_i sl w3 hs
        obtain ⟨hs1, hs2, -, -, hs5⟩ := commonSuffixLen_spec hs
        have hc3 : w3.clock = some 0 := by rw [hs5.1]; exact hc2
        have hk3 : KeepC (some 0) w2 w3 := fun _ => hc3
        split at hrun
        · simp at hrun
        · rename_i s2 vf2 vb2 w4 hmid
          have hmid' : ∃ b, DeliveredR (some 0) h b s1 w3 s2 w4 ∧
              Walk (fun _ _ => true) (os+p) (ns+p) b (oe-sl) (ne-sl) ∧ NoReplaceOp b ∧
              w4.clock = some 0 := by
            split at hmid
            · rename_i hcnd
              simp only [Bool.and_eq_true, decide_eq_true_eq] at hcnd
              simp only [Except.ok.injEq, Prod.mk.injEq] at hmid
              obtain ⟨rfl, -, -, rfl⟩ := hmid
              exact ⟨[], .nil (KeepC.refl _ _), by (simp only [Walk]; omega), by simp [NoReplaceOp], hc3⟩
            · rename_i hcnd
              simp only [Bool.and_eq_true, decide_eq_true_eq] at hcnd
              split at hmid
              · rename_i hne
                split at hmid
                · simp at hmid
                · rename_i sa wa' hem
                  simp only [Except.ok.injEq, Prod.mk.injEq] at hmid
                  obtain ⟨rfl, -, -, rfl⟩ := hmid
                  exact ⟨[.delete (os+p) (oe-sl-(os+p)) (ns+p)], .single hem,
                    by (simp only [Walk, true_and]; omega), by simp [NoReplaceOp], hk _ _ _ _ _ hem hc3⟩
              · rename_i hne
                split at hmid
                · rename_i hoe
                  split at hmid
                  · simp at hmid
                  · rename_i sa wa' hem
                    simp only [Except.ok.injEq, Prod.mk.injEq] at hmid
                    obtain ⟨rfl, -, -, rfl⟩ := hmid
                    exact ⟨[.insert (os+p) (ns+p) (ne-sl-(ns+p))], .single hem,
                      by (simp only [Walk, true_and]; omega), by simp [NoReplaceOp], hk _ _ _ _ _ hem hc3⟩
                · rename_i hoe
                  split at hmid
                  · simp at hmid
                  · rename_i vf5 vb5 x y w5 hfm
                    exact absurd (ck_one.2 hc3) (fms_some hfm)
                  · rename_i vf5 vb5 w5 hfm
                    obtain ⟨-, hw5⟩ := findMiddleSnake_expired hc3 hfm
                    have hc5 : w5.clock = some 0 := by rw [hw5]; exact hc3
                    split at hmid
                    · simp at hmid
                    · rename_i sa wa' hem
                      split at hmid
                      · simp at hmid
                      · rename_i sb wb hem2
                        simp only [Except.ok.injEq, Prod.mk.injEq] at hmid
                        obtain ⟨rfl, -, -, rfl⟩ := hmid
                        have hca : wa'.clock = some 0 := hk _ _ _ _ _ hem hc5
                        refine ⟨[.delete (os+p) (oe-sl-(os+p)) (ns+p), .insert (os+p) (ns+p) (ne-sl-(ns+p))],
                          ?_, by (simp only [Walk, true_and]; omega), by simp [NoReplaceOp], hk _ _ _ _ _ hem2 hca⟩
                        exact .cons (fun _ => hc5) hem (.single hem2)
          obtain ⟨b, db, wb, nb, hc4⟩ := hmid'
          have hpost : ∃ c, DeliveredR (some 0) h c s2 w4 s' w' ∧
              Walk (fun _ _ => true) (oe-sl) (ne-sl) c oe ne ∧ NoReplaceOp c ∧ w'.clock = some 0 := by
            split at hrun
            · rename_i hpos
              split at hrun
              · simp at hrun
              · rename_i sc wc hem
                simp only [Except.ok.injEq, Prod.mk.injEq] at hrun
                obtain ⟨rfl, -, -, rfl⟩ := hrun
                exact ⟨[.equal (oe-sl) (ne-sl) sl], .single hem, by simp only [Walk]; simp; omega,
                  by simp [NoReplaceOp], hk _ _ _ _ _ hem hc4⟩
            · simp only [Except.ok.injEq, Prod.mk.injEq] at hrun
              obtain ⟨rfl, -, -, rfl⟩ := hrun
              have : sl = 0 := by omega
              subst this
              exact ⟨[], .nil (KeepC.refl _ _), by simp [Walk], by simp [NoReplaceOp], hc4⟩
          obtain ⟨c, dc, wc, nc, hc5⟩ := hpost
          refine ⟨a ++ (b ++ c), (da.pre hk1).append ((db.pre hk3).append dc), ?_, ?_, hc5⟩
          · exact (Walk_append _ _ _ _ _ _).2 ⟨_, _, wa, (Walk_append _ _ _ _ _ _).2 ⟨_, _, wb, wc⟩⟩
          · exact noReplaceOp_append _ _ na (noReplaceOp_append _ _ nb nc)

theorem noFinish_worldId {σ} {h : Hook σ} (hW : WorldId h) : WorldId (noFinishHook h) := by
  intro c s w s' w' hc
  cases c with
  | finish => simp only [noFinishHook, Except.ok.injEq, Prod.mk.injEq] at hc; exact hc.2.symm
  | op x => exact hW _ _ _ _ _ hc

/-- one anchor step on an expired clock: the scan, then a gap run that gives up at once -/
theorem patAnchor_expired {E : Env} {uo un : Array Nat} {i j a b : Nat} {p p' : PState} {r r' : Rec}
    {w w' : World} (hua : uo[i]? = some a) (hub : un[j]? = some b) (hoa : p.oc ≤ a) (hnb : p.nc ≤ b)
    (h0 : w.clock = some 0) (h : patAnchor E recHook uo un i j p r w = .ok (p', r', w')) :
    w'.clock = some 0 ∧ w'.cmps ≤ w.cmps + min (a - p.oc) (b - p.nc) + 3 := by
  unfold patAnchor at h
  rw [hua, hub] at h
  simp only at h
  split at h
  · simp at h
  · rename_i oc nc w1 hscan
    obtain ⟨s1, s2, s3⟩ := patScan_cost E a b _ _ _ _ _ _ _ hscan
    obtain ⟨k, rfl, rfl, -, hk4, hk5⟩ := patScan_spec E a b _ _ _ _ _ _ _ hscan
    have l1 := hk4 hoa
    have l2 := hk5 hnb
    split at h
    · simp at h
    · rename_i r1 w2 hem
      have hw2 : w2 = w1 := optEmit_world recHook_worldId hem
      subst hw2
      split at h
      · simp at h
      · rename_i r2 w3 hmy
        simp only [Except.ok.injEq, Prod.mk.injEq] at h
        obtain ⟨-, -, rfl⟩ := h
        obtain ⟨m1, -, m3, -, -⟩ := myersDiff_expired (noFinish_worldId recHook_worldId)
          (by rw [s3]; exact h0) hmy
        exact ⟨m1, by omega⟩

/-- the cost invariant of the entry-expired case: the hook calls have spent at most
`min (cursor advance) + 3` per anchor -/
def CIA (os ns : Nat) : PState → Rec → Nat → Nat → Prop :=
  fun p _ k g => g ≤ min (p.oc - os) (p.nc - ns) + 3 * k

theorem CIA_down (os ns : Nat) : CIDown (CIA os ns) := by
  intro p r k g g' h hg
  simp only [CIA] at h ⊢
  omega

theorem anchorStep_expired (E : Env) (os oe ns ne : Nat) (uo un : Array Nat) :
    AnchorStep E os oe ns ne uo un (some 0) (CIA os ns) := by
  intro i j a b p r w p' r' w' k g hua hub h1 h2 h3 h4 h5 h6 hw hc hci
  obtain ⟨a', b', hua', hub', rfl⟩ := patAnchor_cursor hc
  rw [hua] at hua'; rw [hub] at hub'
  simp only [Option.some.injEq] at hua' hub'
  subst hua' hub'
  obtain ⟨c1, c2⟩ := patAnchor_expired hua hub h2 h5 hw hc
  refine ⟨c1, ?_⟩
  simp only [CIA] at hci ⊢
  omega

/-- an ascending index list inside `[s, e)` has at most `e - s` entries -/
theorem asc_size_le {u : Array Nat} {s e : Nat} (h : Asc u s e) : u.size ≤ e - s := by
  have key : ∀ k, k < u.size → ∀ a, u[k]? = some a → s + k ≤ a := by
    intro k
    induction k with
    | zero => intro _ a ha; have := (h.range 0 a ha).1; omega
    | succ k ih =>
      intro hk a ha
      have hk' : k < u.size := by omega
      have h1 : u[k]? = some u[k] := by simp [hk']
      have := ih hk' _ h1
      have := h.mono k (k+1) _ a (by omega) h1 ha
      omega
  rcases Nat.eq_zero_or_pos u.size with h0 | h0
  · omega
  · have h1 : u[u.size - 1]? = some u[u.size - 1] := by simp
    have := key (u.size - 1) (by omega) _ h1
    have := (h.range _ _ h1).2
    omega

theorem keepsExpired_of_par {σ} {h : Hook σ} {p0 : Nat} (hH : HookPar p0 h) : HookKeepsExpired h := by
  intro c s w s' w' hc hw
  have hs := (hH hc).1
  have h1 := ck_one.2 hw
  unfold Step at hs
  exact ck_one.1 (by omega)

/-- the accounting invariant holds at the start of the outer run -/
theorem sinv_init {os oe ns ne : Nat} {uo un : Array Nat} (hao : Asc uo os oe) (han : Asc un ns ne)
    (ho : os ≤ oe) (hn : ns ≤ ne) {CI : PState → Rec → Nat → Nat → Prop} (r : Rec)
    (h0 : CI { oc := os, nc := ns } r 0 0) :
    SInv os oe ns ne uo un CI 0 0 (({} : RState), ({ oc := os, nc := ns } : PState), r) 0 := by
  refine ⟨⟨Nat.le_refl _, ho, Nat.le_refl _, hn⟩, ?_, 0, by simp [plen], by simp [plen], h0⟩
  simp only [Pend]
  exact ⟨fun k a _ hk => (hao.range k a hk).1, fun k b _ hk => (han.range k b hk).1⟩

/-- **C07 for Patience, expired at entry**: entered on an expired clock, `patience::diff_deadline`
makes at most `5·min N M + 4` comparisons (outer run on the unique lists: its two scans; per anchor
of those scans: a scan and a gap run that gives up at once; the tail run gives up at once) and the
clock stays expired. -/
theorem patience_expired_entry (E : Env) (os oe ns ne : Nat) (r : Rec) (w : World) (r' : Rec) (w' : World)
    (ho : os ≤ oe) (hn : ns ≤ ne) (h0 : w.clock = some 0)
    (hrun : patienceDiff E recHook os oe ns ne r w = .ok (r', w')) :
    w'.cmps ≤ w.cmps + 5 * min (oe - os) (ne - ns) + 4 ∧ w'.clock = some 0 := by
  unfold patienceDiff at hrun
  split at hrun
  · rename_i uo un hu1 hu2
    have hao := unique_asc hu1
    have han := unique_asc hu2
    have so := asc_size_le hao
    have sn := asc_size_le han
    simp only at hrun
    split at hrun
    · simp at hrun
    · rename_i rs p r1 w1 hmy
      simp only [Except.ok.injEq, Prod.mk.injEq] at hrun
      obtain ⟨rfl, rfl⟩ := hrun
      obtain ⟨g', hg⟩ := myersDiff_gh 0 hmy
      have hkx : HookKeepsExpired (replaceHook (patienceHook E recHook uo.toArray un.toArray oe ne)) :=
        keepsExpired_of_par (p0 := 0) (HookPar.replace (HookPar.patience (recHook_par 0)))
      unfold myersDiff at hg
      simp only at hg
      split at hg
      · simp at hg
      · rename_i t1 vf1 vb1 w2 hcq
        rw [show uo.toArray.size - 0 + (un.toArray.size - 0) + 2
          = (uo.toArray.size - 0 + (un.toArray.size - 0) + 1) + 1 from rfl] at hcq
        obtain ⟨a1, a2⟩ := conquer_expired_acct (gh_acct _) (gh_keepsExpired hkx) h0 hcq
        obtain ⟨ops, d1, d2, d3, -⟩ := conquer_expired_delivered (gh_keepsExpired hkx)
          (Nat.zero_le _) (Nat.zero_le _) h0 hcq
        have hi0 := sinv_init hao han ho hn (CI := CIA os ns) r (by simp [CIA])
        obtain ⟨hi1, -⟩ := crun hao han (CIA_down os ns) (anchorStep_expired E os oe ns ne _ _) _
          ops 0 0 _ _ _ w t1 w2 d1 d2 d3 h0 hi0
        obtain ⟨f1, f2⟩ := gh_ok hg
        obtain ⟨p1, r2, w3, k, ⟨b1, b2, b3, b4⟩, k1, k2, hw3, hci, htail⟩ :=
          cfinish hao han (CIA_down os ns) (anchorStep_expired E os oe ns ne _ _) _ _ t1.1 w2 _ _ t1.2
            a1 hi1 f1
        obtain ⟨m1, -, m3, -, -⟩ := myersDiff_expired recHook_worldId hw3 htail
        simp only [CIA] at hci
        simp only at a2
        refine ⟨?_, m1⟩
        omega
  · simp at hrun

#print axioms patience_expired_entry

/-! ## 5. C19: the gap runs and the tail run without a deadline -/

/-- over the recording hook delivering ops (no `replace`) appends exactly them to the trace -/
theorem delivered_rec_trace {ops : List Op} {r r' : Rec} {w w' : World}
    (hd : Delivered recHook ops r w r' w') (hnr : NoReplaceOp ops) :
    r'.trace = r.trace ++ ops.map Call.op := by
  induction hd with
  | nil _ => simp
  | @cons x xs s s2 s' w w1 w2 w' _ hc _ ih =>
    have hnr' : NoReplaceOp xs := by
      cases x <;> first | exact hnr | exact hnr.elim
    have h1 : s2.trace = s.trace ++ [Call.op x] := by
      cases x with
      | replace o ol n nl => exact hnr.elim
      | equal o n l => simp only [recHook] at hc; exact push_map hc
      | delete o l n => simp only [recHook] at hc; exact push_map hc
      | insert o n l => simp only [recHook] at hc; exact push_map hc
    rw [ih hnr', h1]
    simp

theorem noFinish_quiet {σ} {h : Hook σ} (hq : HookQuiet h) : HookQuiet (noFinishHook h) := by
  intro c s w s' w' hc
  cases c with
  | finish =>
    simp only [noFinishHook, Except.ok.injEq, Prod.mk.injEq] at hc
    obtain ⟨-, rfl⟩ := hc
    exact ⟨rfl, rfl⟩
  | op x => exact hq _ _ _ _ _ hc

/-- **a gap run** (`NoFinishHook` over the recording hook, no deadline): it appends a script `ops` for
the box to the trace and makes at most `22·(n+m+1)·(cost ops + 1)` comparisons -/
theorem gap_run (E : Env) (os oe ns ne : Nat) (r : Rec) (w : World) (r' : Rec) (w' : World)
    (ho : os ≤ oe) (hn : ns ≤ ne) (hb : InBounds E os oe ns ne) (hw : w.clock = none)
    (hc : myersDiff E (noFinishHook recHook) os oe ns ne r w = .ok (r', w')) :
    ∃ ops, r'.trace = r.trace ++ ops.map Call.op ∧ Walk (eqB E) os ns ops oe ne ∧ w'.clock = none ∧
      w'.cmps ≤ w.cmps + 22 * (((oe-os) + (ne-ns) + 1) * (Spec.cost ops + 1)) := by
  obtain ⟨c1, c2⟩ := myers_cmps' E _ (noFinish_quiet recHook_quiet) os oe ns ne r w r' w' ho hn hw hc
  obtain ⟨ops, s1, w1, d1, d2, d3, -, d5, -, d7, -, d9⟩ :=
    myersDiff_generic_optimal E _ (noFinish_keeps recHook_keeps) os oe ns ne r w r' w' ho hn hb hw hc
  simp only [noFinishHook, Except.ok.injEq, Prod.mk.injEq] at d2
  obtain ⟨rfl, rfl⟩ := d2
  refine ⟨ops, delivered_rec_trace d1.of_noFinish d5, d3, d9, ?_⟩
  have : Spec.cost ops = boxD E os oe ns ne := by unfold Spec.cost; omega
  rw [this]; exact c1

/-- **the tail run** (the recording hook itself, no deadline) -/
theorem tail_run (E : Env) (os oe ns ne : Nat) (r : Rec) (w : World) (r' : Rec) (w' : World)
    (ho : os ≤ oe) (hn : ns ≤ ne) (hb : InBounds E os oe ns ne) (hw : w.clock = none)
    (hc : myersDiff E recHook os oe ns ne r w = .ok (r', w')) :
    ∃ ops, r'.trace = r.trace ++ ops.map Call.op ++ [.finish] ∧ Walk (eqB E) os ns ops oe ne ∧
      w'.clock = none ∧
      w'.cmps ≤ w.cmps + 22 * (((oe-os) + (ne-ns) + 1) * (Spec.cost ops + 1)) := by
  obtain ⟨c1, c2⟩ := myers_cmps' E _ recHook_quiet os oe ns ne r w r' w' ho hn hw hc
  obtain ⟨ops, s1, w1, d1, d2, d3, -, d5, -, d7, -, d9⟩ :=
    myersDiff_generic_optimal E _ recHook_keeps os oe ns ne r w r' w' ho hn hb hw hc
  have ht : r'.trace = s1.trace ++ [.finish] := by
    simp only [recHook] at d2; exact push_map d2
  refine ⟨ops, by rw [ht, delivered_rec_trace d1 d5], d3, ?_, ?_⟩
  · rw [recHook_world d2]; exact d9
  · have : Spec.cost ops = boxD E os oe ns ne := by unfold Spec.cost; omega
    rw [this]; exact c1

/-- the arithmetic of one accounting step: invariant `g ≤ 23·A·(c+1)`, a scan of `kk` matches and a
run on a box of size `sz` with cost `D` -/
theorem ci_arith (g x A kk sz c D : Nat) (hg : g ≤ 23 * (A * (c+1)))
    (hx : x ≤ kk + 1 + 22 * ((sz+1) * (D+1))) :
    g + x ≤ 23 * ((A + (2*kk + sz + 1)) * (c + D + 1)) := by
  have e1 : A*(c+1) ≤ A*(c+D+1) := Nat.mul_le_mul_left _ (by omega)
  have e2 : (2*kk + sz + 1)*(D+1) ≤ (2*kk + sz + 1)*(c+D+1) := Nat.mul_le_mul_left _ (by omega)
  have e3 : (A + (2*kk + sz + 1))*(c+D+1) = A*(c+D+1) + (2*kk + sz + 1)*(c+D+1) := Nat.add_mul _ _ _
  have e4 : (2*kk + sz + 1)*(D+1) = 2*kk*(D+1) + (sz+1)*(D+1) := by
    rw [show 2*kk + sz + 1 = 2*kk + (sz+1) from by omega, Nat.add_mul]
  have e5 : 2*kk ≤ 2*kk*(D+1) := Nat.le_mul_of_pos_right _ (by omega)
  have e6 : 1 ≤ (sz+1)*(D+1) := Nat.mul_pos (by omega) (by omega)
  omega

/-- the cost invariant without a deadline: the user trace is the initial one plus a script `out`, and
the hook calls have spent at most `23·(cursor advance + anchors)·(cost out + 1)` comparisons -/
def CIB (E : Env) (os ns : Nat) (r0 : Rec) : PState → Rec → Nat → Nat → Prop :=
  fun p r k g => ∃ out : List Op, r.trace = r0.trace ++ out.map Call.op ∧
    Walk (eqB E) os ns out p.oc p.nc ∧
    g ≤ 23 * (((p.oc - os) + (p.nc - ns) + k) * (Spec.cost out + 1))

theorem CIB_down (E : Env) (os ns : Nat) (r0 : Rec) : CIDown (CIB E os ns r0) := by
  intro p r k g g' h hg
  obtain ⟨out, h1, h2, h3⟩ := h
  exact ⟨out, h1, h2, by omega⟩

theorem anchorStep_nodl (E : Env) (os oe ns ne : Nat) (hb : InBounds E os oe ns ne) (uo un : Array Nat)
    (r0 : Rec) : AnchorStep E os oe ns ne uo un none (CIB E os ns r0) := by
  intro i j a b p r w p' r' w' k g hua hub h1 h2 h3 h4 h5 h6 hw hc hci
  obtain ⟨a', b', hua', hub', rfl⟩ := patAnchor_cursor hc
  rw [hua] at hua'; rw [hub] at hub'
  simp only [Option.some.injEq] at hua' hub'
  subst hua' hub'
  obtain ⟨out, ho1, hwk, ho2⟩ := hci
  unfold patAnchor at hc
  rw [hua, hub] at hc
  simp only at hc
  split at hc
  · simp at hc
  · rename_i oc nc w1 hscan
    obtain ⟨-, s2, s3⟩ := patScan_cost E a b _ _ _ _ _ _ _ hscan
    obtain ⟨kk, rfl, rfl, hk3, hk4, hk5⟩ := patScan_spec E a b _ _ _ _ _ _ _ hscan
    have l1 := hk4 h2
    have l2 := hk5 h5
    split at hc
    · simp at hc
    · rename_i r1 w2 hem
      have hw2 : w2 = w1 := optEmit_world recHook_worldId hem
      subst hw2
      have htr1 : ∃ eqp : List Op, r1.trace = r.trace ++ eqp.map Call.op ∧ Spec.cost eqp = 0 ∧
          Walk (eqB E) p.oc p.nc eqp (p.oc + kk) (p.nc + kk) := by
        split at hem
        · rename_i hpos
          refine ⟨[.equal p.oc p.nc (p.oc + kk - p.oc)], by rw [emit_rec_equal_trace hem]; simp,
            by simp [Spec.cost, nDel, nIns], ?_⟩
          simp only [Walk, true_and]
          refine ⟨by omega, fun t ht => hk3 t (by omega), by omega, by omega⟩
        · rename_i hpos
          simp only [Except.ok.injEq, Prod.mk.injEq] at hem
          obtain ⟨rfl, -⟩ := hem
          exact ⟨[], by simp, by simp [Spec.cost, nDel, nIns], by simp only [Walk]; omega⟩
      obtain ⟨eqp, ht1, hcq, hwe⟩ := htr1
      split at hc
      · simp at hc
      · rename_i r2 w3 hmy
        simp only [Except.ok.injEq, Prod.mk.injEq] at hc
        obtain ⟨-, rfl, rfl⟩ := hc
        obtain ⟨ops, g1, gw, g2, g3⟩ := gap_run E (p.oc + kk) a (p.nc + kk) b r1 w2 _ _ l1 l2
          (InBounds_sub hb (by omega) (by omega) (by omega) (by omega)) (by rw [s3]; exact hw) hmy
        refine ⟨g2, out ++ eqp ++ ops, ?_, ?_, ?_⟩
        · rw [g1, ht1, ho1]; simp
        · exact (Walk_append _ _ _ _ _ _).2 ⟨_, _, (Walk_append _ _ _ _ _ _).2 ⟨_, _, hwk, hwe⟩, gw⟩
        · have hx : w3.cmps - w.cmps ≤ kk + 1 + 22 * (((a - (p.oc + kk)) + (b - (p.nc + kk)) + 1)
              * (Spec.cost ops + 1)) := by omega
          have := ci_arith g _ _ kk _ _ _ ho2 hx
          rw [cost_append, cost_append, hcq]
          have ea : a - os + (b - ns) + (k + 1)
              = (p.oc - os) + (p.nc - ns) + k + (2*kk + ((a - (p.oc + kk)) + (b - (p.nc + kk))) + 1) := by
            omega
          rw [ea, Nat.add_zero]
          exact this

/-! ## 6. C19 for Patience -/

/-- **C19 for Patience, decomposition**: without a deadline, `Patience` reports a script `ops` and
makes at most

  `22·(|uo|+|un|+1)·(D_outer+1)`  (the outer Myers run over the unique lists, `D_outer` their edit distance)
  `+ 23·(N+M+min |uo| |un|+1)·(cost ops+1)`  (all scans, all gap runs and the tail run)

comparisons, where `cost ops` is the number of deleted plus inserted items Patience itself reports. -/
theorem patience_cmps_split (E : Env) (os oe ns ne : Nat) (r : Rec) (w : World) (r' : Rec) (w' : World)
    (ho : os ≤ oe) (hn : ns ≤ ne) (hb : InBounds E os oe ns ne) (hw : w.clock = none)
    (hrun : patienceDiff E recHook os oe ns ne r w = .ok (r', w')) :
    ∃ uo un ops, unique E.oo os oe = some uo ∧ unique E.nn ns ne = some un ∧
      uo.length ≤ oe - os ∧ un.length ≤ ne - ns ∧
      r'.trace = r.trace ++ ops.map Call.op ++ [.finish] ∧ Walk (eqB E) os ns ops oe ne ∧
      w'.clock = none ∧
      w'.cmps ≤ w.cmps
        + 22 * ((uo.length + un.length + 1) *
            (boxD (E.sub uo.toArray un.toArray) 0 uo.length 0 un.length + 1))
        + 23 * (((oe-os) + (ne-ns) + min uo.length un.length + 1) * (Spec.cost ops + 1)) := by
  unfold patienceDiff at hrun
  split at hrun
  · rename_i uo un hu1 hu2
    have hao := unique_asc hu1
    have han := unique_asc hu2
    have so := asc_size_le hao
    have sn := asc_size_le han
    simp only [List.size_toArray] at so sn
    simp only at hrun
    split at hrun
    · simp at hrun
    · rename_i rs p r1 w1 hmy
      simp only [Except.ok.injEq, Prod.mk.injEq] at hrun
      obtain ⟨rfl, rfl⟩ := hrun
      obtain ⟨g', hg⟩ := myersDiff_gh 0 hmy
      have hkeep : HookKeepsClock (replaceHook (patienceHook E recHook uo.toArray un.toArray oe ne)) :=
        replaceHook_keeps (patienceHook_keeps E recHook recHook_keeps _ _ oe ne)
      obtain ⟨a1, a2⟩ := myers_cmps_acct _ _ (fun t => t.2) (gh_acct _) (gh_keeps hkeep) 0 _ 0 _ _ w _ _
        (Nat.zero_le _) (Nat.zero_le _) hw hg
      obtain ⟨ops, t1, w2, d1, d2, d3, -, d5, -, -, -, d9⟩ :=
        myersDiff_generic_optimal _ _ (gh_keeps hkeep) 0 _ 0 _ _ w _ _ (Nat.zero_le _) (Nat.zero_le _)
          (sub_inBounds hb hao han) hw hg
      have hi0 := sinv_init hao han ho hn (CI := CIB E os ns r) r ⟨[], by simp, by simp [Walk], by omega⟩
      obtain ⟨hi1, -⟩ := crun hao han (CIB_down E os ns r) (anchorStep_nodl E os oe ns ne hb _ _ r) _
        ops 0 0 _ _ _ w t1 w2 (DeliveredR.of_delivered d1) d3 d5 hw hi0
      obtain ⟨f1, f2⟩ := gh_ok d2
      obtain ⟨p1, r2, w3, k, ⟨b1, b2, b3, b4⟩, k1, k2, hw3, ⟨out, ht, hwo, hci⟩, htail⟩ :=
        cfinish hao han (CIB_down E os ns r) (anchorStep_nodl E os oe ns ne hb _ _ r) _ _ t1.1 w2 _ _ t1.2
          d9 hi1 f1
      obtain ⟨opst, e1, ew, e2, e3⟩ := tail_run E p1.oc oe p1.nc ne r2 w3 _ _ b2 b4
        (InBounds_sub hb b1 (Nat.le_refl _) b3 (Nat.le_refl _)) hw3 htail
      simp only [List.size_toArray] at k1 k2 a1
      refine ⟨uo, un, out ++ opst, hu1, hu2, so, sn, ?_, ?_, e2, ?_⟩
      · rw [e1, ht]; simp
      · exact (Walk_append _ _ _ _ _ _).2 ⟨_, _, hwo, ew⟩
      · have hx : w1.cmps - w3.cmps ≤ 0 + 1 + 22 * (((oe - p1.oc) + (ne - p1.nc) + 1) * (Spec.cost opst + 1)) := by
          omega
        have h1 := ci_arith _ _ _ 0 _ _ _ hci hx
        have hm : ((p1.oc - os) + (p1.nc - ns) + k + (2*0 + ((oe - p1.oc) + (ne - p1.nc)) + 1))
            * (Spec.cost out + Spec.cost opst + 1)
            ≤ ((oe-os) + (ne-ns) + min uo.length un.length + 1) * (Spec.cost out + Spec.cost opst + 1) :=
          Nat.mul_le_mul_right _ (by omega)
        rw [cost_append]
        simp only [Nat.sub_zero] at a1
        simp only at f2
        omega
  · simp at hrun

#print axioms patience_cmps_split

/-- the arithmetic that folds the two terms of `patience_cmps_split` into one -/
theorem fold_arith (U N Do X mn : Nat) (T : Nat) (hU : U ≤ T) (hD : Do + 1 ≤ X)
    (hmn : 2 * (N + mn + 1) ≤ 3 * T) :
    22 * ((U) * (Do + 1)) + 23 * ((N + mn + 1) * X) ≤ 57 * (T * X) := by
  have e1 : U * (Do + 1) ≤ T * X := Nat.mul_le_mul hU hD
  have e2 : (2 * (N + mn + 1)) * X ≤ (3 * T) * X := Nat.mul_le_mul_right _ hmn
  rw [Nat.mul_assoc, Nat.mul_assoc] at e2
  omega

/-- **C19 for Patience, one constant, relative to `D_outer ≤ cost ops`**: whenever the edit distance
of the two unique lists is at most the cost of the script Patience reports (`outer_le_cost`: true whenever the
three relations of `E` are an equality pattern), the number of comparisons is at most
`57·(N+M+1)·(Dp+1)`.  This form needs only `InBounds`. -/
theorem patience_cmps_rel (E : Env) (os oe ns ne : Nat) (r : Rec) (w : World) (r' : Rec) (w' : World)
    (ho : os ≤ oe) (hn : ns ≤ ne) (hb : InBounds E os oe ns ne) (hw : w.clock = none)
    (hrun : patienceDiff E recHook os oe ns ne r w = .ok (r', w')) :
    ∃ uo un ops, unique E.oo os oe = some uo ∧ unique E.nn ns ne = some un ∧
      r'.trace = r.trace ++ ops.map Call.op ++ [.finish] ∧ Walk (eqB E) os ns ops oe ne ∧
      w'.clock = none ∧
      (boxD (E.sub uo.toArray un.toArray) 0 uo.length 0 un.length ≤ Spec.cost ops →
        w'.cmps ≤ w.cmps + 57 * (((oe-os) + (ne-ns) + 1) * (Spec.cost ops + 1))) := by
  obtain ⟨uo, un, ops, h1, h2, h3, h4, h5, h5w, h6, h7⟩ :=
    patience_cmps_split E os oe ns ne r w r' w' ho hn hb hw hrun
  refine ⟨uo, un, ops, h1, h2, h5, h5w, h6, fun hD => ?_⟩
  have := fold_arith (uo.length + un.length + 1) ((oe-os) + (ne-ns))
    (boxD (E.sub uo.toArray un.toArray) 0 uo.length 0 un.length) (Spec.cost ops + 1)
    (min uo.length un.length) ((oe-os) + (ne-ns) + 1) (by omega) (by omega) (by omega)
  omega

#print axioms patience_cmps_rel

/-- **C19 for Patience** (no deadline; the three relations of `E` come from two label sequences,
`IdentP.EqPattern`): with `N`, `M` the range lengths and `Dp = nDel ops + nIns ops` the number of
deleted plus inserted items of the script `ops` that Patience itself reports,

  `cmps ≤ 57·(N+M+1)·(Dp+1)`.

(`22·(N+M+1)·(Dp+1)` for the outer run over the unique lists, whose edit distance is at most `Dp` by
`outer_le_cost`; `23·(N+M+min|uo||un|+1)·(Dp+1) ≤ 35·(N+M+1)·(Dp+1)` for all scans, gap runs and the
tail run.) -/
theorem patience_cmps (E : Env) (os oe ns ne : Nat) (hE : IdentP.EqPattern E os oe ns ne)
    (r : Rec) (w : World) (r' : Rec) (w' : World)
    (ho : os ≤ oe) (hn : ns ≤ ne) (hw : w.clock = none)
    (hrun : patienceDiff E recHook os oe ns ne r w = .ok (r', w')) :
    ∃ ops, r'.trace = r.trace ++ ops.map Call.op ++ [.finish] ∧ Walk (eqB E) os ns ops oe ne ∧
      w'.clock = none ∧
      w'.cmps ≤ w.cmps + 57 * (((oe-os) + (ne-ns) + 1) * (nDel ops + nIns ops + 1)) := by
  obtain ⟨lo, ln, hP⟩ := hE
  have hb : InBounds E os oe ns ne := fun i j h1 h2 h3 h4 => by rw [hP.on i j h1 h2 h3 h4]; rfl
  obtain ⟨uo, un, ops, h1, h2, h3, h4, h5, h6⟩ :=
    patience_cmps_rel E os oe ns ne r w r' w' ho hn hb hw hrun
  exact ⟨ops, h3, h4, h5, h6 (outer_le_cost hP h1 h2 h4 ho hn)⟩

#print axioms patience_cmps

/-- the hypothesis of `patience_cmps` holds for every environment of two label sequences -/
theorem patience_cmps_ofSeqs (a b : Array Nat) (oOff nOff os oe ns ne : Nat)
    (h1 : oOff ≤ os) (h2 : oe ≤ oOff + a.size) (h3 : nOff ≤ ns) (h4 : ne ≤ nOff + b.size)
    (r : Rec) (w : World) (r' : Rec) (w' : World) (ho : os ≤ oe) (hn : ns ≤ ne) (hw : w.clock = none)
    (hrun : patienceDiff (Env.ofSeqs a b oOff nOff) recHook os oe ns ne r w = .ok (r', w')) :
    ∃ ops, r'.trace = r.trace ++ ops.map Call.op ++ [.finish] ∧
      w'.cmps ≤ w.cmps + 57 * (((oe-os) + (ne-ns) + 1) * (nDel ops + nIns ops + 1)) := by
  obtain ⟨ops, e1, -, -, e4⟩ := patience_cmps _ os oe ns ne
    (IdentP.eqPattern_ofSeqs a b oOff nOff os oe ns ne h1 h2 h3 h4) r w r' w' ho hn hw hrun
  exact ⟨ops, e1, e4⟩

end SimilarVerif.PatienceC

import SimilarVerif.Lemmas.Myers
/-! Myers' theory for `find_middle_snake`: the furthest-reaching invariant of the `V` arrays
(Myers' Lemma 2) and the overlap test (Lemma 3), phrased through the edit distance `dist` on the
extended grid (ℕ², diagonal edges only inside the box).  No paths are formalised. -/
namespace SimilarVerif.MyersT
open Spec MyersP

/-! ## A. The edit distance on the extended grid -/

/-- edit distance from `(0,0)` to `(x,y)`: horizontal/vertical steps cost 1, a diagonal step through
a matching cell `e x y` is free -/
def dist (e : Nat → Nat → Bool) : Nat → Nat → Nat
  | 0, y => y
  | x+1, 0 => x+1
  | x+1, y+1 => if e x y then dist e x y else 1 + min (dist e x (y+1)) (dist e (x+1) y)

@[simp] theorem dist_zero_left (e : Nat → Nat → Bool) (y : Nat) : dist e 0 y = y := by
  unfold dist; rfl

@[simp] theorem dist_zero_right (e : Nat → Nat → Bool) (x : Nat) : dist e x 0 = x := by
  cases x <;> (unfold dist; rfl)

theorem dist_succ (e : Nat → Nat → Bool) (x y : Nat) :
    dist e (x+1) (y+1) = if e x y then dist e x y else 1 + min (dist e x (y+1)) (dist e (x+1) y) := by
  rw [dist]

theorem dist_match {e : Nat → Nat → Bool} {x y : Nat} (h : e x y = true) :
    dist e (x+1) (y+1) = dist e x y := by
  rw [dist_succ, if_pos h]

theorem dist_nomatch {e : Nat → Nat → Bool} {x y : Nat} (h : e x y = false) :
    dist e (x+1) (y+1) = 1 + min (dist e x (y+1)) (dist e (x+1) y) := by
  rw [dist_succ, h]; simp

/-- neighbours differ by at most one (all four facts at once, by induction on `x + y`) -/
theorem dist_lip_aux (e : Nat → Nat → Bool) : ∀ (s x y : Nat), x + y < s →
    dist e (x+1) y ≤ dist e x y + 1 ∧ dist e x y ≤ dist e (x+1) y + 1 ∧
    dist e x (y+1) ≤ dist e x y + 1 ∧ dist e x y ≤ dist e x (y+1) + 1 := by
  intro s
  induction s with
  | zero => intro x y h; omega
  | succ s ih =>
    intro x y h
    have hH : dist e (x+1) y ≤ dist e x y + 1 ∧ dist e x y ≤ dist e (x+1) y + 1 := by
      cases y with
      | zero => simp; omega
      | succ y =>
        have h1 := ih x y (by omega)
        rw [dist_succ e x y]
        split
        · omega
        · omega
    have hV : dist e x (y+1) ≤ dist e x y + 1 ∧ dist e x y ≤ dist e x (y+1) + 1 := by
      cases x with
      | zero => simp; omega
      | succ x =>
        have h1 := ih x y (by omega)
        rw [dist_succ e x y]
        split
        · omega
        · omega
    exact ⟨hH.1, hH.2, hV.1, hV.2⟩

theorem dist_lip (e : Nat → Nat → Bool) (x y : Nat) :
    dist e (x+1) y ≤ dist e x y + 1 ∧ dist e x y ≤ dist e (x+1) y + 1 ∧
    dist e x (y+1) ≤ dist e x y + 1 ∧ dist e x y ≤ dist e x (y+1) + 1 :=
  dist_lip_aux e _ x y (Nat.lt_succ_self _)

/-- parity: `dist x y ≡ x + y (mod 2)` -/
theorem dist_parity (e : Nat → Nat → Bool) : ∀ (s x y : Nat), x + y < s →
    (dist e x y + x + y) % 2 = 0 := by
  intro s
  induction s with
  | zero => intro x y h; omega
  | succ s ih =>
    intro x y h
    cases x with
    | zero => simp; omega
    | succ x =>
      cases y with
      | zero => simp; omega
      | succ y =>
        have h1 := ih x y (by omega)
        have h2 := ih x (y+1) (by omega)
        have h3 := ih (x+1) y (by omega)
        rw [dist_succ]
        split
        · omega
        · omega

theorem dist_par (e : Nat → Nat → Bool) (x y : Nat) : (dist e x y + x + y) % 2 = 0 :=
  dist_parity e _ x y (Nat.lt_succ_self _)

theorem dist_diag_mono (e : Nat → Nat → Bool) (x y : Nat) :
    dist e x y ≤ dist e (x+1) (y+1) ∧ dist e (x+1) (y+1) ≤ dist e x y + 2 := by
  have h1 := dist_lip e x y
  have h2 := dist_lip e x (y+1)
  rw [dist_succ]
  split <;> omega

theorem dist_diag_mono_add (e : Nat → Nat → Bool) (x y t : Nat) :
    dist e x y ≤ dist e (x+t) (y+t) := by
  induction t with
  | zero => exact Nat.le_refl _
  | succ t ih =>
    have := (dist_diag_mono e (x+t) (y+t)).1
    rw [show x + (t+1) = x + t + 1 from rfl, show y + (t+1) = y + t + 1 from rfl]
    omega

/-- `dist x y ≥ |x - y|` -/
theorem dist_ge_sub (e : Nat → Nat → Bool) (x y : Nat) : x ≤ dist e x y + y ∧ y ≤ dist e x y + x := by
  constructor
  · induction y with
    | zero => simp
    | succ y ih =>
      have := dist_lip e x y
      omega
  · induction x with
    | zero => simp
    | succ x ih =>
      have := dist_lip e x y
      omega

theorem dist_le_add (e : Nat → Nat → Bool) (x y : Nat) : dist e x y ≤ x + y := by
  induction y with
  | zero => simp
  | succ y ih =>
    have := dist_lip e x y
    omega

/-- sliding along matching cells is free -/
theorem dist_slide {e : Nat → Nat → Bool} {x y : Nat} (a : Nat)
    (h : ∀ t, t < a → e (x+t) (y+t) = true) : dist e (x+a) (y+a) = dist e x y := by
  induction a with
  | zero => rfl
  | succ a ih =>
    rw [show x + (a+1) = x + a + 1 from rfl, show y + (a+1) = y + a + 1 from rfl,
      dist_match (h a (Nat.lt_succ_self _)), ih (fun t ht => h t (by omega))]

/-- the match predicate restricted to the box `[0,n) × [0,m)` -/
def inb (e : Nat → Nat → Bool) (n m : Nat) (x y : Nat) : Bool := decide (x < n) && decide (y < m) && e x y

theorem inb_false_right {e : Nat → Nat → Bool} {n m x y : Nat} (h : n ≤ x) : inb e n m x y = false := by
  simp [inb]; omega

theorem inb_false_below {e : Nat → Nat → Bool} {n m x y : Nat} (h : m ≤ y) : inb e n m x y = false := by
  simp [inb]; omega

/-- right of the box every horizontal step costs exactly one -/
theorem dist_right {f : Nat → Nat → Bool} {n : Nat} (hf : ∀ x y, n ≤ x → f x y = false) (x y : Nat)
    (h : n ≤ x) : dist f (x+1) y = dist f x y + 1 := by
  induction y with
  | zero => simp
  | succ y ih =>
    have := dist_lip f x y
    rw [dist_nomatch (hf x y h), ih]
    omega

theorem dist_below {f : Nat → Nat → Bool} {m : Nat} (hf : ∀ x y, m ≤ y → f x y = false) (x y : Nat)
    (h : m ≤ y) : dist f x (y+1) = dist f x y + 1 := by
  induction x with
  | zero => simp
  | succ x ih =>
    have := dist_lip f x y
    rw [dist_nomatch (hf x y h), ih]
    omega

/-- `dist x y` only depends on the cells left of and above `(x,y)` -/
theorem dist_congr {f g : Nat → Nat → Bool} : ∀ (s x y : Nat), x + y < s →
    (∀ x' y', x' < x → y' < y → f x' y' = g x' y') → dist f x y = dist g x y := by
  intro s
  induction s with
  | zero => intro x y h; omega
  | succ s ih =>
    intro x y h hfg
    cases x with
    | zero => simp
    | succ x =>
      cases y with
      | zero => simp
      | succ y =>
        rw [dist_succ, dist_succ, hfg x y (by omega) (by omega),
          ih x y (by omega) (fun x' y' h1 h2 => hfg x' y' (by omega) (by omega)),
          ih x (y+1) (by omega) (fun x' y' h1 h2 => hfg x' y' (by omega) (by omega)),
          ih (x+1) y (by omega) (fun x' y' h1 h2 => hfg x' y' (by omega) (by omega))]

/-! ## B. Furthest-reaching points (Myers' Lemma 2, one step) -/

/-- `(x,y)` is the furthest point of its diagonal with `dist ≤ d` -/
def Fur (e : Nat → Nat → Bool) (d x y : Nat) : Prop := dist e x y ≤ d ∧ d < dist e (x+1) (y+1)

theorem Fur.beyond {e : Nat → Nat → Bool} {d x y : Nat} (h : Fur e d x y) (t : Nat) :
    d < dist e (x+1+t) (y+1+t) :=
  Nat.lt_of_lt_of_le h.2 (dist_diag_mono_add e (x+1) (y+1) t)

theorem Fur.before {e : Nat → Nat → Bool} {d x y : Nat} (h : Fur e d x y) (t : Nat) (hx : t ≤ x) (hy : t ≤ y) :
    dist e (x-t) (y-t) ≤ d := by
  have := dist_diag_mono_add e (x-t) (y-t) t
  rw [show x - t + t = x from by omega, show y - t + t = y from by omega] at this
  exact Nat.le_trans this h.1

/-- on a diagonal, a point has `dist ≤ d` iff it is not beyond the furthest one -/
theorem Fur.le_of_dist {e : Nat → Nat → Bool} {d x y x' y' : Nat} (h : Fur e d x y)
    (hdiag : (x':Int) - y' = (x:Int) - y) (hd : dist e x' y' ≤ d) : x' ≤ x := by
  apply Classical.byContradiction
  intro hn
  have := h.beyond (x' - x - 1)
  rw [show x + 1 + (x' - x - 1) = x' from by omega, show y + 1 + (x' - x - 1) = y' from by omega] at this
  omega

/-- the start of a snake on diagonal `k` in iteration `d`: `dist ≤ d`, and both neighbours of every
later cell of the diagonal have `dist ≥ d` (they lie beyond the furthest `(d-1)`-points of the two
neighbouring diagonals) -/
def Start (e : Nat → Nat → Bool) (d : Nat) (k : Int) (x0 : Nat) : Prop :=
  ∃ y0 : Nat, (x0:Int) - k = y0 ∧ dist e x0 y0 ≤ d ∧
    ∀ t, d ≤ dist e (x0+t) (y0+t+1) ∧ d ≤ dist e (x0+t+1) (y0+t)

theorem Start.zero (e : Nat → Nat → Bool) : Start e 0 0 0 :=
  ⟨0, by simp, by simp, fun t => ⟨Nat.zero_le _, Nat.zero_le _⟩⟩

/-- sliding from a `Start` to the first non-matching cell gives the furthest `d`-point -/
theorem Start.slide {e : Nat → Nat → Bool} {d : Nat} {k : Int} {x0 y0 : Nat} (adv : Nat)
    (hs : Start e d k x0) (hy : (x0:Int) - k = y0)
    (hm : ∀ t, t < adv → e (x0+t) (y0+t) = true) (hstop : e (x0+adv) (y0+adv) = false) :
    Fur e d (x0+adv) (y0+adv) := by
  obtain ⟨y0', hy', h1, h2⟩ := hs
  have : y0' = y0 := by omega
  subst this
  refine ⟨by rw [dist_slide adv hm]; exact h1, ?_⟩
  rw [dist_nomatch hstop]
  have := h2 adv
  omega


/-- the start chosen by `startX` in iteration `d+1` from the furthest `d`-points `a` (diagonal `k-1`)
and `b` (diagonal `k+1`) -/
theorem Start.succ {e : Nat → Nat → Bool} {d : Nat} {k : Int} {a b : Nat}
    (ha : k ≠ -((d:Int)+1) → ∃ ya : Nat, (a:Int) - (k-1) = ya ∧ Fur e d a ya)
    (hb : k ≠ (d:Int)+1 → ∃ yb : Nat, (b:Int) - (k+1) = yb ∧ Fur e d b yb) :
    Start e (d+1) k
      (if k = -((d:Int)+1) then b else if k ≠ (d:Int)+1 then (if a < b then b else a+1) else a+1) := by
  by_cases h1 : k = -((d:Int)+1)
  · -- lowest diagonal: come down from `b`
    rw [if_pos h1]
    obtain ⟨yb, hyb, fb⟩ := hb (by omega)
    refine ⟨yb+1, by omega, ?_, fun t => ⟨?_, ?_⟩⟩
    · have := dist_lip e b yb; have := fb.1; omega
    · have := (dist_ge_sub e (b+t) (yb+1+t+1)).2; omega
    · have := fb.beyond t
      rw [show b + t + 1 = b + 1 + t from by omega, show yb + 1 + t = yb + 1 + t from rfl]; omega
  · rw [if_neg h1]
    obtain ⟨ya, hya, fa⟩ := ha h1
    by_cases h2 : k = (d:Int)+1
    · -- highest diagonal: go right from `a`
      rw [if_neg (by simpa using h2)]
      refine ⟨ya, by omega, ?_, fun t => ⟨?_, ?_⟩⟩
      · have := dist_lip e a ya; have := fa.1; omega
      · have := fa.beyond t
        rw [show a + 1 + t = a + 1 + t from rfl, show ya + t + 1 = ya + 1 + t from by omega]; omega
      · have := (dist_ge_sub e (a+1+t+1) (ya+t)).1; omega
    · rw [if_pos h2]
      obtain ⟨yb, hyb, fb⟩ := hb h2
      by_cases h3 : a < b
      · rw [if_pos h3]
        refine ⟨yb+1, by omega, ?_, fun t => ⟨?_, ?_⟩⟩
        · have := dist_lip e b yb; have := fb.1; omega
        · have := fa.beyond (b - a - 1 + t)
          rw [show a + 1 + (b - a - 1 + t) = b + t from by omega,
            show ya + 1 + (b - a - 1 + t) = yb + 1 + t + 1 from by omega] at this
          omega
        · have := fb.beyond t
          rw [show b + t + 1 = b + 1 + t from by omega]; omega
      · rw [if_neg h3]
        refine ⟨ya, by omega, ?_, fun t => ⟨?_, ?_⟩⟩
        · have := dist_lip e a ya; have := fa.1; omega
        · have := fa.beyond t
          rw [show ya + t + 1 = ya + 1 + t from by omega]; omega
        · have := fb.beyond (a + 1 + t - b)
          rw [show b + 1 + (a + 1 + t - b) = a + 1 + t + 1 from by omega,
            show yb + 1 + (a + 1 + t - b) = ya + t from by omega] at this
          omega


/-! ## C. The forward and the reversed problem -/

/-- `r` is `f` read backwards on the box `[0,n) × [0,m)`; both match nothing outside the box -/
structure Dual (f r : Nat → Nat → Bool) (n m : Nat) : Prop where
  rev : ∀ x y, x < n → y < m → r x y = f (n-1-x) (m-1-y)
  fout : ∀ x y, n ≤ x ∨ m ≤ y → f x y = false
  rout : ∀ x y, n ≤ x ∨ m ≤ y → r x y = false

theorem Dual.symm {f r : Nat → Nat → Bool} {n m : Nat} (h : Dual f r n m) : Dual r f n m where
  rev x y hx hy := by
    rw [h.rev (n-1-x) (m-1-y) (by omega) (by omega),
      show n - 1 - (n - 1 - x) = x from by omega, show m - 1 - (m - 1 - y) = y from by omega]
  fout := h.rout
  rout := h.fout

theorem Dual.inb (e : Nat → Nat → Bool) (n m : Nat) :
    Dual (inb e n m) (inb (fun i j => e (n-1-i) (m-1-j)) n m) n m where
  rev x y hx hy := by
    simp only [MyersT.inb, hx, hy, decide_true, Bool.true_and]
    rw [decide_eq_true (by omega : n - 1 - x < n), decide_eq_true (by omega : m - 1 - y < m)]
    simp
  fout x y h := by rcases h with h | h; exact inb_false_right h; exact inb_false_below h
  rout x y h := by rcases h with h | h; exact inb_false_right h; exact inb_false_below h

/-- triangle inequality: a forward path to `P` and a backward path to `P` make a full path -/
theorem Dual.triangle_aux {f r : Nat → Nat → Bool} {n m : Nat} (h : Dual f r n m) :
    ∀ (s xb yb : Nat), xb + yb < s → xb ≤ n → yb ≤ m →
      dist f n m ≤ dist f (n-xb) (m-yb) + dist r xb yb := by
  intro s
  induction s with
  | zero => intro xb yb hs; omega
  | succ s ih =>
    intro xb yb hs hx hy
    cases xb with
    | zero =>
      cases yb with
      | zero => simp
      | succ yb =>
        have h1 := ih 0 yb (by omega) hx (by omega)
        have h2 := dist_lip f n (m - (yb+1))
        rw [show m - (yb+1) + 1 = m - yb from by omega] at h2
        simp only [Nat.sub_zero, dist_zero_left] at h1 ⊢
        omega
    | succ xb =>
      cases yb with
      | zero =>
        have h1 := ih xb 0 (by omega) (by omega) hy
        have h2 := dist_lip f (n - (xb+1)) m
        rw [show n - (xb+1) + 1 = n - xb from by omega] at h2
        simp only [Nat.sub_zero, dist_zero_right] at h1 ⊢
        omega
      | succ yb =>
        have hc := h.rev xb yb (by omega) (by omega)
        have e1 : n - xb = n - (xb+1) + 1 := by omega
        have e2 : m - yb = m - (yb+1) + 1 := by omega
        have e3 : n - 1 - xb = n - (xb+1) := by omega
        have e4 : m - 1 - yb = m - (yb+1) := by omega
        rw [e3, e4] at hc
        have h1 := ih xb yb (by omega) (by omega) (by omega)
        have h2 := ih xb (yb+1) (by omega) (by omega) (by omega)
        have h3 := ih (xb+1) yb (by omega) (by omega) (by omega)
        rw [e1, e2] at h1
        rw [e1] at h2
        rw [e2] at h3
        have l1 := dist_lip f (n - (xb+1)) (m - (yb+1))
        cases hr : r xb yb with
        | true =>
          rw [dist_match hr]
          rw [dist_match (by rw [← hc]; exact hr)] at h1
          exact h1
        | false =>
          rw [dist_nomatch hr]
          omega

theorem Dual.triangle {f r : Nat → Nat → Bool} {n m : Nat} (h : Dual f r n m) {x y : Nat}
    (hx : x ≤ n) (hy : y ≤ m) : dist f n m ≤ dist f x y + dist r (n-x) (m-y) := by
  have := h.triangle_aux _ (n-x) (m-y) (Nat.lt_succ_self _) (by omega) (by omega)
  rwa [show n - (n - x) = x from by omega, show m - (m - y) = y from by omega] at this

/-- both problems have the same distance `D` -/
theorem Dual.dist_eq {f r : Nat → Nat → Bool} {n m : Nat} (h : Dual f r n m) : dist f n m = dist r n m := by
  have h1 := h.triangle (Nat.zero_le n) (Nat.zero_le m)
  have h2 := h.symm.triangle (Nat.zero_le n) (Nat.zero_le m)
  simp at h1 h2
  omega


/-- **discrete intermediate value**: from a point on an optimal path (backward coordinates `xb yb`)
every larger forward distance up to `D` is attained by some point on an optimal path -/
theorem Dual.chain_aux {f r : Nat → Nat → Bool} {n m : Nat} (h : Dual f r n m) :
    ∀ (s xb yb : Nat), xb + yb < s → xb ≤ n → yb ≤ m →
      dist f (n-xb) (m-yb) + dist r xb yb = dist f n m →
      ∀ d', dist f (n-xb) (m-yb) ≤ d' → d' ≤ dist f n m →
        ∃ xb' yb', xb' ≤ n ∧ yb' ≤ m ∧ dist f (n-xb') (m-yb') = d' ∧ dist r xb' yb' = dist f n m - d' := by
  intro s
  induction s with
  | zero => intro xb yb hs; omega
  | succ s ih =>
    intro xb yb hs hx hy hopt d' hd1 hd2
    by_cases heq : dist f (n-xb) (m-yb) = d'
    · exact ⟨xb, yb, hx, hy, heq, by omega⟩
    · cases xb with
      | zero =>
        cases yb with
        | zero => simp at hopt heq hd1; omega
        | succ yb =>
          have h1 := h.triangle_aux _ 0 yb (Nat.lt_succ_self _) hx (by omega)
          have h2 := dist_lip f n (m - (yb+1))
          rw [show m - (yb+1) + 1 = m - yb from by omega] at h2
          simp only [Nat.sub_zero, dist_zero_left] at h1 hopt hd1 heq ⊢
          exact ih 0 yb (by omega) hx (by omega) (by simp only [Nat.sub_zero, dist_zero_left]; omega) d'
            (by simp only [Nat.sub_zero]; omega) hd2
      | succ xb =>
        cases yb with
        | zero =>
          have h1 := h.triangle_aux _ xb 0 (Nat.lt_succ_self _) (by omega) hy
          have h2 := dist_lip f (n - (xb+1)) m
          rw [show n - (xb+1) + 1 = n - xb from by omega] at h2
          simp only [Nat.sub_zero, dist_zero_right] at h1 hopt hd1 heq ⊢
          exact ih xb 0 (by omega) (by omega) hy (by simp only [Nat.sub_zero, dist_zero_right]; omega) d'
            (by simp only [Nat.sub_zero]; omega) hd2
        | succ yb =>
          have hc := h.rev xb yb (by omega) (by omega)
          have e1 : n - xb = n - (xb+1) + 1 := by omega
          have e2 : m - yb = m - (yb+1) + 1 := by omega
          have e3 : n - 1 - xb = n - (xb+1) := by omega
          have e4 : m - 1 - yb = m - (yb+1) := by omega
          rw [e3, e4] at hc
          have t2 := h.triangle_aux _ xb (yb+1) (Nat.lt_succ_self _) (by omega) (by omega)
          have t3 := h.triangle_aux _ (xb+1) yb (Nat.lt_succ_self _) (by omega) (by omega)
          have l1 := dist_lip f (n - (xb+1)) (m - (yb+1))
          cases hr : r xb yb with
          | true =>
            rw [dist_match hr] at hopt
            have hm := dist_match (show f (n - (xb+1)) (m - (yb+1)) = true by rw [← hc]; exact hr)
            exact ih xb yb (by omega) (by omega) (by omega) (by rw [e1, e2, hm]; exact hopt) d'
              (by rw [e1, e2, hm]; exact hd1) hd2
          | false =>
            rw [dist_nomatch hr] at hopt
            by_cases hmin : dist r xb (yb+1) ≤ dist r (xb+1) yb
            · refine ih xb (yb+1) (by omega) (by omega) (by omega) ?_ d' ?_ hd2
              · rw [e1] at t2 ⊢; omega
              · rw [e1] at t2 ⊢; omega
            · refine ih (xb+1) yb (by omega) (by omega) (by omega) ?_ d' ?_ hd2
              · rw [e2] at t3 ⊢; omega
              · rw [e2] at t3 ⊢; omega

/-- for every `d' ≤ D` some in-box point has forward distance `d'` and backward distance `D - d'` -/
theorem Dual.chain {f r : Nat → Nat → Bool} {n m : Nat} (h : Dual f r n m) (d' : Nat)
    (hd : d' ≤ dist f n m) :
    ∃ x y, x ≤ n ∧ y ≤ m ∧ dist f x y = d' ∧ dist r (n-x) (m-y) = dist f n m - d' := by
  obtain ⟨xb, yb, h1, h2, h3, h4⟩ := h.chain_aux _ n m (Nat.lt_succ_self _) (Nat.le_refl _) (Nat.le_refl _)
    (by simp; exact h.dist_eq.symm) d' (by simp) hd
  exact ⟨n - xb, m - yb, by omega, by omega, h3,
    by rw [show n - (n - xb) = xb from by omega, show m - (m - yb) = yb from by omega]; exact h4⟩


/-! ## D. The overlap test (Myers' Lemma 3) -/

/-- at a point of the far boundary that lies on an optimal path, the next diagonal step costs 2 -/
theorem Dual.far_boundary {f r : Nat → Nat → Bool} {n m : Nat} (h : Dual f r n m) {px py : Nat}
    (hx : px ≤ n) (hy : py ≤ m) (hb : px = n ∨ py = m)
    (hopt : dist f px py + dist r (n-px) (m-py) = dist f n m) :
    dist f (px+1) (py+1) = dist f px py + 2 := by
  have l1 := dist_lip f px py
  rcases hb with rfl | rfl
  · rw [dist_nomatch (h.fout _ _ (Or.inl (Nat.le_refl _))),
      dist_right (fun x y hxy => h.fout x y (Or.inl hxy)) _ _ (Nat.le_refl _)]
    by_cases hpy : py = m
    · subst hpy
      rw [dist_below (fun x y hxy => h.fout x y (Or.inr hxy)) _ _ (Nat.le_refl _)]
      omega
    · have t := h.triangle (Nat.le_refl px) (show py + 1 ≤ m by omega)
      simp only [Nat.sub_self, dist_zero_left] at t hopt
      omega
  · rw [dist_nomatch (h.fout _ _ (Or.inr (Nat.le_refl _))),
      dist_below (fun x y hxy => h.fout x y (Or.inr hxy)) _ _ (Nat.le_refl _)]
    by_cases hpx : px = n
    · subst hpx
      rw [dist_right (fun x y hxy => h.fout x y (Or.inl hxy)) _ _ (Nat.le_refl _)]
      omega
    · have t := h.triangle (show px + 1 ≤ n by omega) (Nat.le_refl py)
      simp only [Nat.sub_self, dist_zero_right] at t hopt
      omega

/-- if the overlap test holds on a diagonal that meets the box, the last in-box point `P` of the
forward snake's diagonal that is not beyond the forward point is within `d` forward and `d'` backward -/
theorem overlap_point {f r : Nat → Nat → Bool} {n m d d' : Nat} {k : Int} {xf yf xb yb : Nat}
    (hkf : (xf:Int) - yf = k) (hf : Fur f d xf yf)
    (hkb : (xb:Int) - yb = (n:Int) - m - k) (hr : Fur r d' xb yb)
    (htest : n ≤ xf + xb) (hk1 : -(m:Int) ≤ k) (hk2 : k ≤ n) :
    ∃ px py : Nat, px ≤ n ∧ py ≤ m ∧ px ≤ xf ∧ (px:Int) - py = k ∧
      dist f px py ≤ d ∧ dist r (n-px) (m-py) ≤ d' ∧
      (px < xf → (px = n ∨ py = m) ∧ dist f (px+1) (py+1) ≤ d) := by
  have key : ∃ px py : Nat, px ≤ n ∧ py ≤ m ∧ px ≤ xf ∧ (px:Int) - py = k ∧ n ≤ px + xb ∧
      (px < xf → (px = n ∨ py = m)) := by
    by_cases c1 : xf ≤ n ∧ yf ≤ m
    · exact ⟨xf, yf, c1.1, c1.2, Nat.le_refl _, hkf, htest, fun h => absurd h (Nat.lt_irrefl _)⟩
    · by_cases c2 : (n:Int) - k ≤ m
      · exact ⟨n, ((n:Int) - k).toNat, Nat.le_refl _, by omega, by omega, by omega, by omega,
          fun _ => Or.inl rfl⟩
      · exact ⟨((m:Int) + k).toNat, m, by omega, Nat.le_refl _, by omega, by omega, by omega,
          fun _ => Or.inr rfl⟩
  obtain ⟨px, py, h1, h2, h3, h4, h5, h6⟩ := key
  refine ⟨px, py, h1, h2, h3, h4, ?_, ?_, fun hlt => ⟨h6 hlt, ?_⟩⟩
  · have := hf.before (xf - px) (by omega) (by omega)
    rwa [show xf - (xf - px) = px from by omega, show yf - (xf - px) = py from by omega] at this
  · have := hr.before (xb - (n - px)) (by omega) (by omega)
    rwa [show xb - (xb - (n - px)) = n - px from by omega,
      show yb - (xb - (n - px)) = m - py from by omega] at this
  · have := hf.before (xf - px - 1) (by omega) (by omega)
    rwa [show xf - (xf - px - 1) = px + 1 from by omega, show yf - (xf - px - 1) = py + 1 from by omega] at this

/-- **soundness of the test**: if it holds, `D ≤ d + d'` -/
theorem Dual.overlap_sound {f r : Nat → Nat → Bool} {n m d d' : Nat} (h : Dual f r n m) {k : Int}
    {xf yf xb yb : Nat}
    (hkf : (xf:Int) - yf = k) (hf : Fur f d xf yf)
    (hkb : (xb:Int) - yb = (n:Int) - m - k) (hr : Fur r d' xb yb)
    (htest : n ≤ xf + xb) (hk1 : -(m:Int) ≤ k) (hk2 : k ≤ n) : dist f n m ≤ d + d' := by
  obtain ⟨px, py, h1, h2, -, -, h5, h6, -⟩ := overlap_point hkf hf hkb hr htest hk1 hk2
  have := h.triangle h1 h2
  omega

/-- **the firing point is in the box** when `d + d'` is exactly `D`; it lies on an optimal path with
forward distance `d` and backward distance `d'` -/
theorem Dual.overlap_tight {f r : Nat → Nat → Bool} {n m d d' : Nat} (h : Dual f r n m) {k : Int}
    {xf yf xb yb : Nat}
    (hkf : (xf:Int) - yf = k) (hf : Fur f d xf yf)
    (hkb : (xb:Int) - yb = (n:Int) - m - k) (hr : Fur r d' xb yb)
    (htest : n ≤ xf + xb) (hk1 : -(m:Int) ≤ k) (hk2 : k ≤ n) (hD : d + d' ≤ dist f n m) :
    xf ≤ n ∧ yf ≤ m ∧ dist f xf yf = d ∧ dist r (n-xf) (m-yf) = d' := by
  obtain ⟨px, py, h1, h2, h3, h4, h5, h6, h7⟩ := overlap_point hkf hf hkb hr htest hk1 hk2
  have t := h.triangle h1 h2
  by_cases hlt : px < xf
  · obtain ⟨hb, hd⟩ := h7 hlt
    have := h.far_boundary h1 h2 hb (by omega)
    omega
  · have e1 : px = xf := by omega
    have e2 : py = yf := by omega
    subst e1 e2
    exact ⟨h1, h2, by omega, by omega⟩


/-- **completeness of the test**: if `D = d + d'`, on some diagonal (of the right parity and within
both bands) the furthest forward `d`-point and the furthest backward `d'`-point overlap -/
theorem Dual.overlap_complete {f r : Nat → Nat → Bool} {n m d d' : Nat} (h : Dual f r n m)
    (hD : dist f n m = d + d') :
    ∃ k : Int, -(d:Int) ≤ k ∧ k ≤ d ∧ (k - d) % 2 = 0 ∧
      -(d':Int) ≤ k - ((n:Int) - m) ∧ k - ((n:Int) - m) ≤ d' ∧
      ∀ xf yf xb yb : Nat, (xf:Int) - yf = k → Fur f d xf yf →
        (xb:Int) - yb = (n:Int) - m - k → Fur r d' xb yb → n ≤ xf + xb := by
  obtain ⟨x, y, hx, hy, h1, h2⟩ := h.chain d (by omega)
  have g1 := dist_ge_sub f x y
  have g2 := dist_ge_sub r (n-x) (m-y)
  have p1 := dist_par f x y
  refine ⟨(x:Int) - y, by omega, by omega, by omega, by omega, by omega, ?_⟩
  intro xf yf xb yb hkf hf hkb hr
  have a1 := hf.le_of_dist (x' := x) (y' := y) (by omega) (by omega)
  have a2 := hr.le_of_dist (x' := n - x) (y' := m - y) (by omega) (by omega)
  omega


/-! ## E. The `V` arrays -/

theorem vset_ok {v v' : V} {off : Nat} {k : Int} {x : Nat} (h : vset v off k x = .ok v') :
    vget v' off k = .ok x ∧ (∀ j, j ≠ k → vget v' off j = vget v off j) ∧ v'.size = v.size := by
  unfold vset at h
  simp only at h
  split at h
  · simp at h
  · rename_i hi
    split at h
    · rename_i hlt
      simp only [Except.ok.injEq] at h
      subst h
      refine ⟨?_, ?_, by simp⟩
      · unfold vget
        simp only [hi, if_false]
        rw [Array.getElem?_setIfInBounds_self_of_lt hlt]
      · intro j hj
        unfold vget
        simp only
        split
        · rfl
        · rw [Array.getElem?_setIfInBounds_ne (by omega)]
    · simp at h


/-- the entries of level `d` (diagonals `|j| ≤ d`, `j ≡ d`), *if readable*, hold the furthest `d`-points -/
def VInv (g : Nat → Nat → Bool) (off : Nat) (v : V) (d : Nat) : Prop :=
  ∀ j : Int, -(d:Int) ≤ j → j ≤ d → (j - d) % 2 = 0 → ∀ a, vget v off j = .ok a →
    ∃ y : Nat, (a:Int) - j = y ∧ Fur g d a y

/-- what iteration `d` reads: the level `d-1`, or the seed `v[1] = 0` -/
def VPrev (g : Nat → Nat → Bool) (off : Nat) (v : V) : Nat → Prop
  | 0 => ∀ a, vget v off 1 = .ok a → a = 0
  | d+1 => VInv g off v d

theorem startX_spec {g : Nat → Nat → Bool} {off : Nat} {v : V} {d : Nat} {k : Int} {x0 : Nat}
    (hv : VPrev g off v d) (hk1 : -(d:Int) ≤ k) (hk2 : k ≤ d) (hpar : (k - d) % 2 = 0)
    (h : startX v off (d:Int) k = .ok x0) : Start g d k x0 := by
  cases d with
  | zero =>
    have hk : k = 0 := by omega
    subst hk
    simp only [startX] at h
    simp at h
    rw [hv x0 h]
    exact Start.zero g
  | succ d =>
    simp only [VPrev] at hv
    unfold startX at h
    by_cases c1 : k = -((d:Int)+1)
    · have : (k == -((d+1 : Nat) : Int)) = true := by simp; omega
      rw [if_pos this] at h
      have := Start.succ (e := g) (d := d) (k := k) (a := 0) (b := x0) (fun hh => absurd c1 hh)
        (fun _ => hv (k+1) (by omega) (by omega) (by omega) x0 h)
      rwa [if_pos c1] at this
    · have : ¬ (k == -((d+1 : Nat) : Int)) = true := by simp; omega
      rw [if_neg this] at h
      by_cases c2 : k = (d:Int)+1
      · have : ¬ (k != ((d+1 : Nat) : Int)) = true := by simp; omega
        rw [if_neg this] at h
        split at h
        · rename_i a ha
          simp only [Except.ok.injEq] at h
          subst h
          have := Start.succ (e := g) (d := d) (k := k) (a := a) (b := 0)
            (fun _ => hv (k-1) (by omega) (by omega) (by omega) a ha) (fun hh => absurd c2 hh)
          rwa [if_neg c1, if_neg (by simpa using c2)] at this
        · simp at h
      · have : (k != ((d+1 : Nat) : Int)) = true := by simp; omega
        rw [if_pos this] at h
        split at h
        · rename_i a b ha hb
          simp only [Except.ok.injEq] at h
          subst h
          have := Start.succ (e := g) (d := d) (k := k) (a := a) (b := b)
            (fun _ => hv (k-1) (by omega) (by omega) (by omega) a ha)
            (fun _ => hv (k+1) (by omega) (by omega) (by omega) b hb)
          rwa [if_neg c1, if_pos c2] at this
        · simp at h
        · simp at h


/-! ## F. The box of the model and the slides -/

/-- forward match predicate of the box `[os,oe) × [ns,ne)`, relative coordinates -/
def fE (E : Env) (os oe ns ne : Nat) : Nat → Nat → Bool :=
  inb (fun i j => eqB E (os+i) (ns+j)) (oe-os) (ne-ns)

/-- the reversed problem -/
def rE (E : Env) (os oe ns ne : Nat) : Nat → Nat → Bool :=
  inb (fun i j => eqB E (os + (oe-os-1-i)) (ns + (ne-ns-1-j))) (oe-os) (ne-ns)

theorem dual_E (E : Env) (os oe ns ne : Nat) : Dual (fE E os oe ns ne) (rE E os oe ns ne) (oe-os) (ne-ns) :=
  Dual.inb (fun i j => eqB E (os+i) (ns+j)) (oe-os) (ne-ns)

theorem cpl_slide {E : Env} {os oe ns ne x0 y0 adv : Nat} {w w' : World}
    (h : commonPrefixLen E (os+x0) oe (ns+y0) ne w = .ok (adv, w')) (hx : x0 < oe-os) (hy : y0 < ne-ns) :
    (∀ t, t < adv → fE E os oe ns ne (x0+t) (y0+t) = true) ∧ fE E os oe ns ne (x0+adv) (y0+adv) = false := by
  obtain ⟨h1, h2, h3, h4, -⟩ := commonPrefixLen_spec h
  constructor
  · intro t ht
    have := h3 t ht
    simp only [fE, inb, Bool.and_eq_true, decide_eq_true_eq]
    refine ⟨⟨by omega, by omega⟩, ?_⟩
    rw [← Nat.add_assoc, ← Nat.add_assoc]; exact this
  · by_cases c : adv < oe - (os+x0) ∧ adv < ne - (ns+y0)
    · have := h4 c.1 c.2
      simp only [fE, inb, Bool.and_eq_false_iff]
      right
      rw [← Nat.add_assoc, ← Nat.add_assoc]; exact this
    · simp only [fE, inb, Bool.and_eq_false_iff, decide_eq_false_iff_not]
      left
      omega

theorem csl_slide {E : Env} {os oe ns ne x0 y0 adv : Nat} {w w' : World}
    (h : commonSuffixLen E os (os + (oe-os) - x0) ns (ns + (ne-ns) - y0) w = .ok (adv, w'))
    (hx : x0 < oe-os) (hy : y0 < ne-ns) :
    (∀ t, t < adv → rE E os oe ns ne (x0+t) (y0+t) = true) ∧ rE E os oe ns ne (x0+adv) (y0+adv) = false := by
  obtain ⟨h1, h2, h3, h4, -⟩ := commonSuffixLen_spec h
  constructor
  · intro t ht
    have := h3 t ht
    simp only [rE, inb, Bool.and_eq_true, decide_eq_true_eq]
    refine ⟨⟨by omega, by omega⟩, ?_⟩
    rw [show os + (oe - os - 1 - (x0+t)) = os + (oe-os) - x0 - 1 - t from by omega,
      show ns + (ne - ns - 1 - (y0+t)) = ns + (ne-ns) - y0 - 1 - t from by omega]
    exact this
  · by_cases c : adv < os + (oe-os) - x0 - os ∧ adv < ns + (ne-ns) - y0 - ns
    · have := h4 c.1 c.2
      simp only [rE, inb, Bool.and_eq_false_iff]
      right
      rw [show os + (oe - os - 1 - (x0+adv)) = os + (oe-os) - x0 - 1 - adv from by omega,
        show ns + (ne - ns - 1 - (y0+adv)) = ns + (ne-ns) - y0 - 1 - adv from by omega]
      exact this
    · simp only [rE, inb, Bool.and_eq_false_iff, decide_eq_false_iff_not]
      left
      omega

theorem fE_out {E : Env} {os oe ns ne x y : Nat} (h : ¬ (x < oe-os ∧ y < ne-ns)) :
    fE E os oe ns ne x y = false := by
  simp only [fE, inb, Bool.and_eq_false_iff, decide_eq_false_iff_not]; left; omega

theorem rE_out {E : Env} {os oe ns ne x y : Nat} (h : ¬ (x < oe-os ∧ y < ne-ns)) :
    rE E os oe ns ne x y = false := by
  simp only [rE, inb, Bool.and_eq_false_iff, decide_eq_false_iff_not]; left; omega


/-! ## G. One pass over the diagonals -/

/-- diagonal `j` was processed in iteration `d` and the overlap test did not fire there -/
def NoFire (g : Nat → Nat → Bool) (off n d : Nat) (delta : Int) (active : Bool) (band : Int)
    (v' vo : V) (j : Int) : Prop :=
  ∃ x, vget v' off j = .ok x ∧ (∃ y : Nat, (x:Int) - j = y ∧ Fur g d x y) ∧
    (active = true → ((j - delta).natAbs : Int) ≤ band →
      ∃ b, vget vo off (-(j - delta)) = .ok b ∧ x + b < n)

/-- the overlap test fired on diagonal `j`, whose snake runs from `(x0,y0)` for `adv` cells -/
def Fired (g : Nat → Nat → Bool) (off n d : Nat) (delta : Int) (band : Int) (vo : V)
    (j : Int) (x0 y0 adv : Nat) : Prop :=
  -(d:Int) ≤ j ∧ j ≤ d ∧ (j - d) % 2 = 0 ∧ Start g d j x0 ∧ (x0:Int) - j = y0 ∧
    (∀ t, t < adv → g (x0+t) (y0+t) = true) ∧ Fur g d (x0+adv) (y0+adv) ∧
    ((j - delta).natAbs : Int) ≤ band ∧ ∃ b, vget vo off (-(j - delta)) = .ok b ∧ n ≤ x0 + adv + b

/-- what a pass over the diagonals `hi, hi-2, … > lo` establishes -/
def PassPost (g : Nat → Nat → Bool) (off n d : Nat) (delta : Int) (active : Bool) (band : Int)
    (v' vo : V) (lo hi : Int) (pt : Nat → Nat → Nat → Nat × Nat) : Option (Nat × Nat) → Prop
  | none => ∀ j : Int, j ≤ hi → lo < j → (j - d) % 2 = 0 → NoFire g off n d delta active band v' vo j
  | some p => active = true ∧ ∃ j x0 y0 adv, Fired g off n d delta band vo j x0 y0 adv ∧ p = pt x0 y0 adv

theorem VPrev_frame {g : Nat → Nat → Bool} {off : Nat} {v v' : V} {d : Nat}
    (hfr : ∀ j : Int, (j - d) % 2 ≠ 0 → vget v' off j = vget v off j) (h : VPrev g off v d) :
    VPrev g off v' d := by
  cases d with
  | zero =>
    simp only [VPrev] at h ⊢
    intro a ha
    rw [hfr 1 (by omega)] at ha
    exact h a ha
  | succ d =>
    simp only [VPrev, VInv] at h ⊢
    intro j h1 h2 h3 a ha
    rw [hfr j (by omega)] at ha
    exact h j h1 h2 h3 a ha

theorem fwdPass_spec (E : Env) (os oe ns ne off d : Nat) (delta : Int) (odd : Bool) (vb : V) :
    ∀ (cnt : Nat) (k : Int) (vf : V) (w : World) (vf' : V) (res : Option (Nat × Nat)) (w' : World),
      VPrev (fE E os oe ns ne) off vf d → k ≤ d → -(d:Int) - 2 ≤ k - 2*cnt → (k - d) % 2 = 0 →
      fwdPass E os oe ns ne off d delta odd vb cnt k vf w = .ok (vf', res, w') →
      (∀ j : Int, ((j - d) % 2 ≠ 0 ∨ k < j ∨ j ≤ k - 2*cnt) → vget vf' off j = vget vf off j) ∧
      vf'.size = vf.size ∧
      PassPost (fE E os oe ns ne) off (oe-os) d delta odd ((d:Int)-1) vf' vb (k - 2*cnt) k
        (fun x0 y0 _ => (x0 + os, y0 + ns)) res := by
  intro cnt
  induction cnt with
  | zero =>
    intro k vf w vf' res w' hv hk1 hk2 hpar h
    simp [fwdPass] at h
    obtain ⟨rfl, rfl, rfl⟩ := h
    refine ⟨fun _ _ => rfl, rfl, ?_⟩
    simp only [PassPost]
    intro j h1 h2; omega
  | succ c ih =>
    intro k vf w vf' res w' hv hk1 hk2 hpar h
    simp only [fwdPass] at h
    split at h
    · simp at h
    · rename_i x0 hsx
      have hst := startX_spec hv (by omega) hk1 hpar hsx
      obtain ⟨y0, hy0, hd0, hnb⟩ := id hst
      split at h
      · simp at h
      · rename_i x w1 hadv
        have hyn : ¬ ((x0:Int) - k < 0) := by omega
        have hyt : ((x0:Int) - k).toNat = y0 := by omega
        rw [hyt] at hadv h
        have hsl : ∃ adv, x = x0 + adv ∧ (∀ t, t < adv → fE E os oe ns ne (x0+t) (y0+t) = true) ∧
            fE E os oe ns ne (x0+adv) (y0+adv) = false := by
          split at hadv
          · rename_i hcond
            simp only [Bool.and_eq_true, decide_eq_true_eq] at hcond
            split at hadv
            · rename_i adv w2 hc
              simp only [Except.ok.injEq, Prod.mk.injEq] at hadv
              obtain ⟨rfl, rfl⟩ := hadv
              exact ⟨adv, rfl, cpl_slide hc hcond.1.2 hcond.2⟩
            · simp at hadv
          · rename_i hcond
            simp only [Bool.and_eq_true, decide_eq_true_eq, Bool.not_eq_true', decide_eq_false_iff_not] at hcond
            simp only [Except.ok.injEq, Prod.mk.injEq] at hadv
            obtain ⟨rfl, rfl⟩ := hadv
            exact ⟨0, rfl, fun t ht => by omega, fE_out (by omega)⟩
        obtain ⟨adv, rfl, hm, hstop⟩ := hsl
        have hfur := hst.slide adv hy0 hm hstop
        split at h
        · simp at h
        · rename_i vf1 hset
          obtain ⟨hg1, hg2, hg3⟩ := vset_ok hset
          have hv1 : VPrev (fE E os oe ns ne) off vf1 d := VPrev_frame (fun j hj => hg2 j (by omega)) hv
          have hrec : (odd = true → (((k - delta).natAbs : Nat) : Int) ≤ (d:Int) - 1 →
                ∃ b, vget vb off (-(k - delta)) = .ok b ∧ x0 + adv + b < oe - os) →
              fwdPass E os oe ns ne off d delta odd vb c (k - 2) vf1 w1 = .ok (vf', res, w') →
              (∀ j : Int, ((j - d) % 2 ≠ 0 ∨ k < j ∨ j ≤ k - 2*((c+1 : Nat) : Int)) → vget vf' off j = vget vf off j) ∧
              vf'.size = vf.size ∧
              PassPost (fE E os oe ns ne) off (oe-os) d delta odd ((d:Int)-1) vf' vb (k - 2*((c+1 : Nat) : Int)) k
                (fun x0 y0 _ => (x0 + os, y0 + ns)) res := by
            intro hno hrun
            obtain ⟨i1, i2, i3⟩ := ih (k-2) vf1 w1 vf' res w' hv1 (by omega) (by omega) (by omega) hrun
            refine ⟨?_, by omega, ?_⟩
            · intro j hj
              rw [i1 j (by omega), hg2 j (by omega)]
            · cases res with
              | none =>
                simp only [PassPost] at i3 ⊢
                intro j h1 h2 h3
                by_cases hjk : j = k
                · subst hjk
                  exact ⟨x0+adv, by rw [i1 j (by omega)]; exact hg1, ⟨y0+adv, by omega, hfur⟩, hno⟩
                · exact i3 j (by omega) (by omega) h3
              | some p => exact i3
          split at h
          · rename_i htest
            simp only [Bool.and_eq_true, decide_eq_true_eq] at htest
            split at h
            · simp at h
            · rename_i b hb
              split at h
              · rename_i hov
                rw [if_neg (by simpa using hyn)] at h
                simp only [Except.ok.injEq, Prod.mk.injEq] at h
                obtain ⟨rfl, rfl, rfl⟩ := h
                exact ⟨fun j hj => hg2 j (by omega), hg3, htest.1, k, x0, y0, adv,
                  ⟨by omega, hk1, hpar, hst, hy0, hm, hfur, htest.2, b, hb, hov⟩, rfl⟩
              · rename_i hov
                exact hrec (fun _ _ => ⟨b, hb, by omega⟩) h
          · rename_i htest
            refine hrec (fun ho hb => ?_) h
            simp only [Bool.and_eq_true, decide_eq_true_eq] at htest
            exact absurd ⟨ho, hb⟩ htest


theorem bwdPass_spec (E : Env) (os oe ns ne off d : Nat) (delta : Int) (odd : Bool) (vf : V) :
    ∀ (cnt : Nat) (k : Int) (vb : V) (w : World) (vb' : V) (res : Option (Nat × Nat)) (w' : World),
      VPrev (rE E os oe ns ne) off vb d → k ≤ d → -(d:Int) - 2 ≤ k - 2*cnt → (k - d) % 2 = 0 →
      bwdPass E os oe ns ne off d delta odd vf cnt k vb w = .ok (vb', res, w') →
      (∀ j : Int, ((j - d) % 2 ≠ 0 ∨ k < j ∨ j ≤ k - 2*cnt) → vget vb' off j = vget vb off j) ∧
      vb'.size = vb.size ∧
      PassPost (rE E os oe ns ne) off (oe-os) d delta (!odd) (d:Int) vb' vf (k - 2*cnt) k
        (fun x0 y0 adv => (oe - os - (x0 + adv) + os, ne - ns - (y0 + adv) + ns)) res := by
  intro cnt
  induction cnt with
  | zero =>
    intro k vb w vb' res w' hv hk1 hk2 hpar h
    simp [bwdPass] at h
    obtain ⟨rfl, rfl, rfl⟩ := h
    refine ⟨fun _ _ => rfl, rfl, ?_⟩
    simp only [PassPost]
    intro j h1 h2; omega
  | succ c ih =>
    intro k vb w vb' res w' hv hk1 hk2 hpar h
    simp only [bwdPass] at h
    split at h
    · simp at h
    · rename_i x0 hsx
      have hst := startX_spec hv (by omega) hk1 hpar hsx
      obtain ⟨y0, hy0, hd0, hnb⟩ := id hst
      split at h
      · simp at h
      · rename_i x y w1 hadv
        have hyn : ¬ ((x0:Int) - k < 0) := by omega
        have hyt : ((x0:Int) - k).toNat = y0 := by omega
        rw [hyt] at hadv
        have hsl : ∃ adv, x = x0 + adv ∧ y = y0 + adv ∧
            (∀ t, t < adv → rE E os oe ns ne (x0+t) (y0+t) = true) ∧
            rE E os oe ns ne (x0+adv) (y0+adv) = false := by
          split at hadv
          · rename_i hcond
            simp only [Bool.and_eq_true, decide_eq_true_eq] at hcond
            split at hadv
            · rename_i adv w2 hc
              simp only [Except.ok.injEq, Prod.mk.injEq] at hadv
              obtain ⟨rfl, rfl, rfl⟩ := hadv
              exact ⟨adv, rfl, rfl, csl_slide hc hcond.1.2 hcond.2⟩
            · simp at hadv
          · rename_i hcond
            simp only [Bool.and_eq_true, decide_eq_true_eq, Bool.not_eq_true', decide_eq_false_iff_not] at hcond
            simp only [Except.ok.injEq, Prod.mk.injEq] at hadv
            obtain ⟨rfl, rfl, rfl⟩ := hadv
            exact ⟨0, rfl, rfl, fun t ht => by omega, rE_out (by omega)⟩
        obtain ⟨adv, rfl, rfl, hm, hstop⟩ := hsl
        have hfur := hst.slide adv hy0 hm hstop
        split at h
        · simp at h
        · rename_i vb1 hset
          obtain ⟨hg1, hg2, hg3⟩ := vset_ok hset
          have hv1 : VPrev (rE E os oe ns ne) off vb1 d := VPrev_frame (fun j hj => hg2 j (by omega)) hv
          have hrec : ((!odd) = true → (((k - delta).natAbs : Nat) : Int) ≤ (d:Int) →
                ∃ b, vget vf off (-(k - delta)) = .ok b ∧ x0 + adv + b < oe - os) →
              bwdPass E os oe ns ne off d delta odd vf c (k - 2) vb1 w1 = .ok (vb', res, w') →
              (∀ j : Int, ((j - d) % 2 ≠ 0 ∨ k < j ∨ j ≤ k - 2*((c+1 : Nat) : Int)) → vget vb' off j = vget vb off j) ∧
              vb'.size = vb.size ∧
              PassPost (rE E os oe ns ne) off (oe-os) d delta (!odd) (d:Int) vb' vf (k - 2*((c+1 : Nat) : Int)) k
                (fun x0 y0 adv => (oe - os - (x0 + adv) + os, ne - ns - (y0 + adv) + ns)) res := by
            intro hno hrun
            obtain ⟨i1, i2, i3⟩ := ih (k-2) vb1 w1 vb' res w' hv1 (by omega) (by omega) (by omega) hrun
            refine ⟨?_, by omega, ?_⟩
            · intro j hj
              rw [i1 j (by omega), hg2 j (by omega)]
            · cases res with
              | none =>
                simp only [PassPost] at i3 ⊢
                intro j h1 h2 h3
                by_cases hjk : j = k
                · subst hjk
                  exact ⟨x0+adv, by rw [i1 j (by omega)]; exact hg1, ⟨y0+adv, by omega, hfur⟩, hno⟩
                · exact i3 j (by omega) (by omega) h3
              | some p => exact i3
          split at h
          · rename_i htest
            simp only [Bool.and_eq_true, decide_eq_true_eq] at htest
            split at h
            · simp at h
            · rename_i b hb
              split at h
              · rename_i hov
                split at h
                · simp at h
                · simp only [Except.ok.injEq, Prod.mk.injEq] at h
                  obtain ⟨rfl, rfl, rfl⟩ := h
                  exact ⟨fun j hj => hg2 j (by omega), hg3, htest.1, k, x0, y0, adv,
                    ⟨by omega, hk1, hpar, hst, hy0, hm, hfur, htest.2, b, hb, hov⟩, rfl⟩
              · rename_i hov
                exact hrec (fun _ _ => ⟨b, hb, by omega⟩) h
          · rename_i htest
            refine hrec (fun ho hb => ?_) h
            simp only [Bool.and_eq_true, decide_eq_true_eq] at htest
            exact absurd ⟨ho, hb⟩ htest


/-! ## H. Consequences of a fired / not fired test -/

/-- a matching stretch is free for the reversed problem as well -/
theorem Dual.slide_back {f r : Nat → Nat → Bool} {n m : Nat} (h : Dual f r n m) {x0 y0 adv : Nat}
    (hm : ∀ t, t < adv → f (x0+t) (y0+t) = true) (hx : x0 + adv ≤ n) (hy : y0 + adv ≤ m) :
    dist r (n - x0) (m - y0) = dist r (n - (x0+adv)) (m - (y0+adv)) := by
  have := dist_slide (e := r) (x := n - (x0+adv)) (y := m - (y0+adv)) adv (by
    intro t ht
    rw [h.rev _ _ (by omega) (by omega)]
    have := hm (adv - 1 - t) (by omega)
    rwa [show n - 1 - (n - (x0+adv) + t) = x0 + (adv - 1 - t) from by omega,
      show m - 1 - (m - (y0+adv) + t) = y0 + (adv - 1 - t) from by omega])
  rw [← this]
  congr 1 <;> omega

/-- **a fired test, when `d + d'` cannot exceed `D`**: the furthest point that fired is in the box,
on an optimal path, at distance exactly `d` (own direction) and `d'` (other direction) -/
theorem fire_tight {g go : Nat → Nat → Bool} {n m : Nat} (hd : Dual g go n m) {off d d' : Nat} {vo : V}
    {j : Int} {x0 y0 adv : Nat}
    (hF : Fired g off n d ((n:Int) - m) (d':Int) vo j x0 y0 adv) (hvo : VInv go off vo d')
    (hpar : (j - ((n:Int) - m) + d') % 2 = 0) (hsz : d + d' ≤ n + m) (hD : d + d' ≤ dist g n m) :
    x0 + adv ≤ n ∧ y0 + adv ≤ m ∧ dist g (x0+adv) (y0+adv) = d ∧
      dist go (n-(x0+adv)) (m-(y0+adv)) = d' ∧ dist g x0 y0 = d ∧ dist go (n-x0) (m-y0) = d' ∧
      dist g n m = d + d' := by
  obtain ⟨h1, h2, h3, h4, h5, h6, h7, h8, b, hb, hov⟩ := hF
  obtain ⟨yb, hyb, fb⟩ := hvo (-(j - ((n:Int) - m))) (by omega) (by omega) (by omega) b hb
  obtain ⟨t1, t2, t3, t4⟩ := hd.overlap_tight (k := j) (xf := x0+adv) (yf := y0+adv) (xb := b) (yb := yb)
    (by omega) h7 (by omega) fb hov (by omega) (by omega) hD
  have tr := hd.triangle t1 t2
  refine ⟨t1, t2, t3, t4, ?_, ?_, by omega⟩
  · rw [← dist_slide adv h6]; exact t3
  · rw [hd.slide_back h6 t1 t2]; exact t4

/-- **no test fired over the whole range**: then `D ≠ d + d'` -/
theorem nofire_ne {g go : Nat → Nat → Bool} {n m : Nat} (hd : Dual g go n m) {off d d' : Nat} {v' vo : V}
    (hP : ∀ j : Int, j ≤ d → -(d:Int) - 2 < j → (j - d) % 2 = 0 →
      NoFire g off n d ((n:Int) - m) true (d':Int) v' vo j)
    (hvo : VInv go off vo d') : dist g n m ≠ d + d' := by
  intro hD
  obtain ⟨k, k1, k2, k3, k4, k5, k6⟩ := hd.overlap_complete hD
  obtain ⟨x, hx, ⟨y, hy, fx⟩, hno⟩ := hP k k2 (by omega) k3
  obtain ⟨b, hb, hlt⟩ := hno rfl (by omega)
  have p := dist_par g n m
  obtain ⟨yb, hyb, fb⟩ := hvo (-(k - ((n:Int) - m))) (by omega) (by omega) (by omega) b hb
  have := k6 x y b yb (by omega) fx (by omega) fb
  omega


/-! ## I. The loop over `d` -/

/-- a good split point: inside the box, on an optimal path, in the middle (so not a corner when `D ≥ 2`) -/
def Split (E : Env) (os oe ns ne : Nat) (p : Nat × Nat) : Prop :=
  os ≤ p.1 ∧ p.1 ≤ oe ∧ ns ≤ p.2 ∧ p.2 ≤ ne ∧
  dist (fE E os oe ns ne) (p.1 - os) (p.2 - ns) + dist (rE E os oe ns ne) (oe - p.1) (ne - p.2)
    = dist (fE E os oe ns ne) (oe-os) (ne-ns) ∧
  2 * dist (fE E os oe ns ne) (p.1 - os) (p.2 - ns) ≤ dist (fE E os oe ns ne) (oe-os) (ne-ns) + 1 ∧
  2 * dist (rE E os oe ns ne) (oe - p.1) (ne - p.2) ≤ dist (fE E os oe ns ne) (oe-os) (ne-ns)

def LoopPost (E : Env) (os oe ns ne : Nat) (w : World) : Option (Nat × Nat) → Prop
  | none => w.clock ≠ none
  | some p => Split E os oe ns ne p

theorem VInv_of_post {g : Nat → Nat → Bool} {off n d : Nat} {delta : Int} {act : Bool} {band : Int}
    {v' vo : V} {pt : Nat → Nat → Nat → Nat × Nat}
    (h : PassPost g off n d delta act band v' vo ((d:Int) - 2*((d+1 : Nat):Int)) d pt none) : VInv g off v' d := by
  intro j h1 h2 h3 a ha
  obtain ⟨x, hx, hf, -⟩ := h j h2 (by omega) h3
  rw [hx] at ha
  simp only [Except.ok.injEq] at ha
  subst ha
  exact hf

theorem fwd_fire_split {E : Env} {os oe ns ne off d : Nat} {vb : V} {j : Int} {x0 y0 adv : Nat}
    (ho : os ≤ oe) (hn : ns ≤ ne)
    (hoddp : (((oe-os : Nat) : Int) - ((ne-ns : Nat) : Int)) % 2 ≠ 0)
    (hD : 2 * d ≤ dist (fE E os oe ns ne) (oe-os) (ne-ns) + 1) (hdm : d < maxD (oe-os) (ne-ns))
    (hF : Fired (fE E os oe ns ne) off (oe-os) d (((oe-os : Nat) : Int) - ((ne-ns : Nat) : Int)) ((d:Int)-1) vb j x0 y0 adv)
    (hvb : VPrev (rE E os oe ns ne) off vb d) : Split E os oe ns ne (x0 + os, y0 + ns) := by
  have hdual := dual_E E os oe ns ne
  have hpar := dist_par (fE E os oe ns ne) (oe-os) (ne-ns)
  cases d with
  | zero => obtain ⟨_, _, _, _, _, _, _, h8, _⟩ := hF; omega
  | succ d' =>
    simp only [VPrev] at hvb
    have hF' : Fired (fE E os oe ns ne) off (oe-os) (d'+1) (((oe-os : Nat) : Int) - ((ne-ns : Nat) : Int)) (d':Int) vb j x0 y0 adv := by
      have : (((d'+1 : Nat) : Int) - 1) = (d':Int) := by omega
      rw [this] at hF; exact hF
    have hj := hF'.2.2.1
    unfold maxD at hdm
    obtain ⟨t1, t2, t3, t4, t5, t6, t7⟩ := fire_tight hdual hF' hvb (by omega) (by omega) (by omega)
    simp only [Split]
    rw [show x0 + os - os = x0 from by omega, show y0 + ns - ns = y0 from by omega,
      show oe - (x0 + os) = oe - os - x0 from by omega, show ne - (y0 + ns) = ne - ns - y0 from by omega,
      t5, t6]
    refine ⟨by omega, by omega, by omega, by omega, by omega, by omega, by omega⟩

theorem bwd_fire_split {E : Env} {os oe ns ne off d : Nat} {vf : V} {j : Int} {x0 y0 adv : Nat}
    (ho : os ≤ oe) (hn : ns ≤ ne)
    (hevenp : (((oe-os : Nat) : Int) - ((ne-ns : Nat) : Int)) % 2 = 0)
    (hD : 2 * d ≤ dist (fE E os oe ns ne) (oe-os) (ne-ns) + 1) (hdm : d < maxD (oe-os) (ne-ns))
    (hF : Fired (rE E os oe ns ne) off (oe-os) d (((oe-os : Nat) : Int) - ((ne-ns : Nat) : Int)) (d:Int) vf j x0 y0 adv)
    (hvf : VInv (fE E os oe ns ne) off vf d) :
    Split E os oe ns ne (oe - os - (x0 + adv) + os, ne - ns - (y0 + adv) + ns) := by
  have hdual := dual_E E os oe ns ne
  have hpar := dist_par (fE E os oe ns ne) (oe-os) (ne-ns)
  have heq := hdual.dist_eq
  have hj := hF.2.2.1
  unfold maxD at hdm
  obtain ⟨t1, t2, t3, t4, t5, t6, t7⟩ := fire_tight hdual.symm hF hvf (by omega) (by omega) (by omega)
  simp only [Split]
  rw [show oe - os - (x0 + adv) + os - os = oe - os - (x0 + adv) from by omega,
    show ne - ns - (y0 + adv) + ns - ns = ne - ns - (y0 + adv) from by omega,
    show oe - (oe - os - (x0 + adv) + os) = x0 + adv from by omega,
    show ne - (ne - ns - (y0 + adv) + ns) = y0 + adv from by omega, t3, t4]
  refine ⟨by omega, by omega, by omega, by omega, by omega, by omega, by omega⟩

theorem snakeLoop_spec (E : Env) (os oe ns ne off : Nat) (delta : Int) (odd : Bool)
    (hdelta : delta = ((oe-os : Nat) : Int) - ((ne-ns : Nat) : Int)) (hodd : odd = (delta % 2 != 0))
    (ho : os ≤ oe) (hn : ns ≤ ne) :
    ∀ (cnt d : Nat) (vf vb : V) (w : World) (vf' vb' : V) (res : Option (Nat × Nat)) (w' : World),
      VPrev (fE E os oe ns ne) off vf d → VPrev (rE E os oe ns ne) off vb d →
      2 * d ≤ dist (fE E os oe ns ne) (oe-os) (ne-ns) + 1 → cnt + d = maxD (oe-os) (ne-ns) →
      snakeLoop E os oe ns ne off delta odd cnt d vf vb w = .ok (vf', vb', res, w') →
      LoopPost E os oe ns ne w res := by
  have hdual := dual_E E os oe ns ne
  have hpar := dist_par (fE E os oe ns ne) (oe-os) (ne-ns)
  have hle := dist_le_add (fE E os oe ns ne) (oe-os) (ne-ns)
  intro cnt
  induction cnt with
  | zero =>
    intro d vf vb w vf' vb' res w' hvf hvb hD hcnt h
    exfalso
    unfold maxD at hcnt
    omega
  | succ c ih =>
    intro d vf vb w vf' vb' res w' hvf hvb hD hcnt h
    simp only [snakeLoop] at h
    split at h
    · rename_i w1 hpr
      simp only [Except.ok.injEq, Prod.mk.injEq] at h
      obtain ⟨rfl, rfl, rfl, rfl⟩ := h
      simp only [LoopPost]
      intro hc
      rw [probe_none hc] at hpr
      simp at hpr
    · rename_i w1 hpr
      have hdm : d < maxD (oe-os) (ne-ns) := by omega
      subst hdelta
      split at h
      · simp at h
      · rename_i vf1 p w2 hfw
        simp only [Except.ok.injEq, Prod.mk.injEq] at h
        obtain ⟨rfl, rfl, rfl, rfl⟩ := h
        obtain ⟨-, -, hpost⟩ := fwdPass_spec E os oe ns ne off d _ odd vb (d+1) d vf w1 vf1 (some p) w2 hvf
          (Int.le_refl _) (by omega) (by omega) hfw
        simp only [PassPost] at hpost
        obtain ⟨hoddt, j, x0, y0, adv, hF, rfl⟩ := hpost
        simp only [LoopPost]
        have hop : (((oe-os : Nat) : Int) - ((ne-ns : Nat) : Int)) % 2 ≠ 0 := by
          rw [hodd] at hoddt; simpa using hoddt
        exact fwd_fire_split ho hn hop hD hdm hF hvb
      · rename_i vf1 w2 hfw
        obtain ⟨-, -, hpost⟩ := fwdPass_spec E os oe ns ne off d _ odd vb (d+1) d vf w1 vf1 none w2 hvf
          (Int.le_refl _) (by omega) (by omega) hfw
        have hvf1 : VInv (fE E os oe ns ne) off vf1 d := VInv_of_post hpost
        have hD1 : odd = true → 2 * d + 1 ≤ dist (fE E os oe ns ne) (oe-os) (ne-ns) := by
          intro hoddt
          have hop : (((oe-os : Nat) : Int) - ((ne-ns : Nat) : Int)) % 2 ≠ 0 := by
            rw [hodd] at hoddt; simpa using hoddt
          cases d with
          | zero => omega
          | succ d' =>
            simp only [VPrev] at hvb
            simp only [PassPost] at hpost
            subst hoddt
            have hne := nofire_ne hdual (d := d'+1) (d' := d') (v' := vf1) (vo := vb) (off := off) (by
              intro j h1 h2 h3
              have := hpost j h1 (by omega) h3
              rwa [show (((d'+1 : Nat) : Int) - 1) = (d':Int) from by omega] at this) hvb
            omega
        split at h
        · simp at h
        · rename_i vb1 p w3 hbw
          simp only [Except.ok.injEq, Prod.mk.injEq] at h
          obtain ⟨rfl, rfl, rfl, rfl⟩ := h
          obtain ⟨-, -, hpost⟩ := bwdPass_spec E os oe ns ne off d _ odd vf1 (d+1) d vb w2 vb1 (some p) w3 hvb
            (Int.le_refl _) (by omega) (by omega) hbw
          simp only [PassPost] at hpost
          obtain ⟨hevt, j, x0, y0, adv, hF, rfl⟩ := hpost
          simp only [LoopPost]
          have hep : (((oe-os : Nat) : Int) - ((ne-ns : Nat) : Int)) % 2 = 0 := by
            rw [hodd] at hevt; simpa using hevt
          exact bwd_fire_split ho hn hep hD hdm hF hvf1
        · rename_i vb1 w3 hbw
          obtain ⟨-, -, hpost⟩ := bwdPass_spec E os oe ns ne off d _ odd vf1 (d+1) d vb w2 vb1 none w3 hvb
            (Int.le_refl _) (by omega) (by omega) hbw
          have hvb1 : VInv (rE E os oe ns ne) off vb1 d := VInv_of_post hpost
          have hD2 : odd = false → 2 * d + 1 ≤ dist (fE E os oe ns ne) (oe-os) (ne-ns) := by
            intro hev
            have hep : (((oe-os : Nat) : Int) - ((ne-ns : Nat) : Int)) % 2 = 0 := by
              rw [hodd] at hev; simpa using hev
            simp only [PassPost] at hpost
            subst hev
            have hne := nofire_ne hdual.symm (d := d) (d' := d) (v' := vb1) (vo := vf1) (off := off) (by
              intro j h1 h2 h3
              exact hpost j h1 (by omega) h3) hvf1
            rw [← hdual.dist_eq] at hne
            omega
          have hD3 : 2 * (d+1) ≤ dist (fE E os oe ns ne) (oe-os) (ne-ns) + 1 := by
            cases hb : odd with
            | true => have := hD1 hb; omega
            | false => have := hD2 hb; omega
          have hpostL := ih (d+1) vf1 vb1 w3 vf' vb' res w' hvf1 hvb1 hD3 (by omega) h
          cases res with
          | some p => exact hpostL
          | none =>
            simp only [LoopPost] at hpostL ⊢
            intro hc
            apply hpostL
            rw [probe_none hc] at hpr
            simp only [Prod.mk.injEq, true_and] at hpr
            subst hpr
            rw [bwdPass_clock _ _ _ _ _ _ _ _ _ _ _ _ _ _ _ _ _ hbw,
              fwdPass_clock _ _ _ _ _ _ _ _ _ _ _ _ _ _ _ _ _ hfw]
            exact hc


/-! ## J. `find_middle_snake` -/

/-- **`find_middle_snake`, partial correctness** (no hypothesis on `off`, the arrays or the bounds:
whenever it returns, a returned point is a good split point, and `none` is only returned when the
deadline fired) -/
theorem findMiddleSnake_spec {E : Env} {os oe ns ne off : Nat} {vf vb : V} {w : World}
    {vf' vb' : V} {res : Option (Nat × Nat)} {w' : World} (ho : os ≤ oe) (hn : ns ≤ ne)
    (h : findMiddleSnake E os oe ns ne off vf vb w = .ok (vf', vb', res, w')) :
    LoopPost E os oe ns ne w res := by
  unfold findMiddleSnake at h
  simp only at h
  split at h
  · simp at h
  · rename_i vf1 hs1
    split at h
    · simp at h
    · rename_i vb1 hs2
      split at h
      · simp at h
      · refine snakeLoop_spec E os oe ns ne off _ _ rfl rfl ho hn _ 0 vf1 vb1 w vf' vb' res w' ?_ ?_
          (Nat.zero_le _) rfl h
        · intro a ha
          rw [(vset_ok hs1).1] at ha
          simp only [Except.ok.injEq] at ha
          exact ha.symm
        · intro a ha
          rw [(vset_ok hs2).1] at ha
          simp only [Except.ok.injEq] at ha
          exact ha.symm

/-- **T1** `SnakeInBox` holds for every environment, unconditionally -/
theorem snake_in_box (E : Env) : SnakeInBox E := by
  intro os oe ns ne off vf vb w vf' vb' x y w' ho hn _ h
  have := findMiddleSnake_spec (Nat.le_of_lt ho) (Nat.le_of_lt hn) h
  simp only [LoopPost, Split] at this
  exact ⟨this.1, this.2.1, this.2.2.1, this.2.2.2.1⟩

/-- **T3** `SnakeFound` holds for every environment, unconditionally -/
theorem snake_found (E : Env) : SnakeFound E := by
  intro os oe ns ne off vf vb w vf' vb' w' ho hn _ hc h
  have := findMiddleSnake_spec (Nat.le_of_lt ho) (Nat.le_of_lt hn) h
  simp only [LoopPost] at this
  exact this hc


/-! ## K. Not a corner (T2, first half) -/

/-- a non-empty box whose first and last cells do not match has distance at least 2 -/
theorem dist_ge_two {f : Nat → Nat → Bool} {n m : Nat} (hn : 0 < n) (hm : 0 < m)
    (h0 : f 0 0 = false) (h1 : f (n-1) (m-1) = false) : 2 ≤ dist f n m := by
  have pos : ∀ x y, 0 < x + y → 0 < dist f x y := by
    intro x y hxy
    apply Classical.byContradiction
    intro hz
    have g := dist_ge_sub f x y
    have hx : x = y := by omega
    subst hx
    have := dist_diag_mono_add f 1 1 (x - 1)
    rw [show 1 + (x - 1) = x from by omega, dist_nomatch h0] at this
    omega
  have e : dist f n m = dist f (n-1+1) (m-1+1) := by
    rw [show n - 1 + 1 = n from by omega, show m - 1 + 1 = m from by omega]
  rw [e, dist_nomatch h1]
  have a := pos (n-1) (m-1+1) (by omega)
  have b := pos (n-1+1) (m-1) (by omega)
  omega

theorem fE_first {E : Env} {os oe ns ne : Nat} (ho : os < oe) (hn : ns < ne) :
    fE E os oe ns ne 0 0 = eqB E os ns := by
  simp [fE, inb]; omega

theorem fE_last {E : Env} {os oe ns ne : Nat} (ho : os < oe) (hn : ns < ne) :
    fE E os oe ns ne (oe-os-1) (ne-ns-1) = eqB E (oe-1) (ne-1) := by
  simp only [fE, inb]
  rw [show os + (oe - os - 1) = oe - 1 from by omega, show ns + (ne - ns - 1) = ne - 1 from by omega,
    decide_eq_true (by omega : oe - os - 1 < oe - os), decide_eq_true (by omega : ne - ns - 1 < ne - ns)]
  simp

/-- a good split point of a stripped box is not a corner -/
theorem Split.not_corner {E : Env} {os oe ns ne : Nat} {p : Nat × Nat} (h : Split E os oe ns ne p)
    (ho : os < oe) (hn : ns < ne) (h0 : eqB E os ns = false) (h1 : eqB E (oe-1) (ne-1) = false) :
    p ≠ (os, ns) ∧ p ≠ (oe, ne) := by
  have hD := dist_ge_two (f := fE E os oe ns ne) (n := oe-os) (m := ne-ns) (by omega) (by omega)
    (by rw [fE_first ho hn]; exact h0) (by rw [fE_last ho hn]; exact h1)
  obtain ⟨_, _, _, _, h5, h6, h7⟩ := h
  constructor
  · rintro rfl
    simp only [Nat.sub_self, dist_zero_left] at h5 h6 h7
    omega
  · rintro rfl
    simp only [Nat.sub_self, dist_zero_left] at h5 h6 h7
    omega

/-- **T2 (first half)**: on a stripped box the returned split point is neither corner, so both
recursive calls of `conquer` get strictly smaller boxes.  No hypothesis on `off` or the arrays. -/
theorem snake_not_corner {E : Env} {os oe ns ne off : Nat} {vf vb : V} {w : World}
    {vf' vb' : V} {x y : Nat} {w' : World} (ho : os < oe) (hn : ns < ne)
    (h0 : eqB E os ns = false) (h1 : eqB E (oe-1) (ne-1) = false)
    (h : findMiddleSnake E os oe ns ne off vf vb w = .ok (vf', vb', some (x, y), w')) :
    (x, y) ≠ (os, ns) ∧ (x, y) ≠ (oe, ne) :=
  Split.not_corner (findMiddleSnake_spec (Nat.le_of_lt ho) (Nat.le_of_lt hn) h) ho hn h0 h1

end SimilarVerif.MyersT

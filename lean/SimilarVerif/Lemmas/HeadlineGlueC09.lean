import SimilarVerif.Props.C09
import SimilarVerif.Props.C10
import SimilarVerif.Props.C13
import SimilarVerif.Lemmas.HeadlineGlue
/-! # Glue for the C09 headline theorem (Props/Headline/C09.lean)

* the item-level reading of "within any run of changes all deleted items precede all inserted items"
  (`run_dels_first`): from a valid alternating script to its item-wise expansion `allChanges`;
* a Replace op of a valid script has a deleted and an inserted part (`walk_replace_pos`);
* the comparison of clause 4 is defined, so "differs" is `E.on eo cn = some false` (`insert_equal_differs`);
* an arbitrary valid script pushed through `Compact` over `Replace` (C10's setting) leaves the recording hook with
  a list that satisfies clause 4 as well (`script_compact_replace`).
-/
namespace SimilarVerif.Headline.C09G
open SimilarVerif Spec

/-! ## deleted items before inserted items -/

/-- no inserted item is directly followed by a deleted item -/
def AdjOK : List Change → Prop
  | c :: d :: cs => ¬ (c.tag = .insert ∧ d.tag = .delete) ∧ AdjOK (d :: cs)
  | _ => True

theorem adjOK_cons {c : Change} {l : List Change} (h : AdjOK l)
    (hc : ∀ d, l.head? = some d → ¬ (c.tag = .insert ∧ d.tag = .delete)) : AdjOK (c :: l) := by
  cases l with
  | nil => trivial
  | cons d cs => exact ⟨hc d rfl, h⟩

theorem adjOK_tail {c : Change} {l : List Change} (h : AdjOK (c :: l)) : AdjOK l := by
  cases l with
  | nil => trivial
  | cons d cs => exact h.2

theorem adjOK_noIns_append : ∀ (a b : List Change), (∀ c ∈ a, c.tag ≠ .insert) → AdjOK b → AdjOK (a ++ b) := by
  intro a
  induction a with
  | nil => intro b _ hb; simpa using hb
  | cons c a ih =>
    intro b ha hb
    rw [List.cons_append]
    exact adjOK_cons (ih b (fun x hx => ha x (List.mem_cons_of_mem _ hx)) hb)
      (fun d _ h => ha c List.mem_cons_self h.1)

theorem adjOK_noDel : ∀ (b : List Change), (∀ c ∈ b, c.tag ≠ .delete) → AdjOK b := by
  intro b
  induction b with
  | nil => intro _; trivial
  | cons c b ih =>
    intro hb
    refine adjOK_cons (ih (fun x hx => hb x (List.mem_cons_of_mem _ hx))) ?_
    intro d hd h
    cases b with
    | nil => simp at hd
    | cons d' b' =>
      simp only [List.head?_cons, Option.some.injEq] at hd
      subst hd
      exact hb d' (by simp) h.2

/-- append: fine when the second list does not start with a deleted item -/
theorem adjOK_append : ∀ (a b : List Change), AdjOK a → AdjOK b →
    (∀ d, b.head? = some d → d.tag ≠ .delete) → AdjOK (a ++ b) := by
  intro a
  induction a with
  | nil => intro b _ hb _; simpa using hb
  | cons c a ih =>
    intro b ha hb hh
    rw [List.cons_append]
    refine adjOK_cons (ih b (adjOK_tail ha) hb hh) ?_
    intro d hd hcd
    cases a with
    | nil =>
      simp only [List.nil_append] at hd
      exact hh d hd hcd.2
    | cons c' a' =>
      simp only [List.cons_append, List.head?_cons, Option.some.injEq] at hd
      subst hd
      exact ha.1 hcd

theorem adjOK_idx : ∀ (l : List Change), AdjOK l → ∀ (i : Nat) c d, l[i]? = some c → l[i + 1]? = some d →
    ¬ (c.tag = .insert ∧ d.tag = .delete) := by
  intro l
  induction l with
  | nil => intro _ i c d h1; simp at h1
  | cons a l ih =>
    intro h i c d h1 h2
    cases i with
    | zero =>
      cases l with
      | nil => simp at h2
      | cons b l' =>
        simp only [List.getElem?_cons_zero, Option.some.injEq, Nat.zero_add, List.getElem?_cons_succ] at h1 h2
        subst h1; subst h2
        exact h.1
    | succ i =>
      simp only [List.getElem?_cons_succ] at h1 h2
      exact ih (adjOK_tail h) i c d h1 h2

/-! the changes of one op -/

theorem tags_equal (o n len : Nat) : ∀ c ∈ opChanges (.equal o n len), c.tag = .equal := by
  intro c hc
  rw [C13.opChanges_eq_spec] at hc
  simp only [iterChanges, List.mem_map] at hc
  obtain ⟨t, -, rfl⟩ := hc
  rfl

theorem tags_delete (o len n : Nat) : ∀ c ∈ opChanges (.delete o len n), c.tag = .delete := by
  intro c hc
  rw [C13.opChanges_eq_spec] at hc
  simp only [iterChanges, List.mem_map] at hc
  obtain ⟨t, -, rfl⟩ := hc
  rfl

theorem tags_insert (o n len : Nat) : ∀ c ∈ opChanges (.insert o n len), c.tag = .insert := by
  intro c hc
  rw [C13.opChanges_eq_spec] at hc
  simp only [iterChanges, List.mem_map] at hc
  obtain ⟨t, -, rfl⟩ := hc
  rfl

theorem adjOK_replace (o ol n nl : Nat) : AdjOK (opChanges (.replace o ol n nl)) := by
  rw [C13.opChanges_eq_spec]
  simp only [iterChanges]
  refine adjOK_noIns_append _ _ ?_ (adjOK_noDel _ ?_)
  · intro c hc
    simp only [List.mem_map] at hc
    obtain ⟨t, -, rfl⟩ := hc
    simp
  · intro c hc
    simp only [List.mem_map] at hc
    obtain ⟨t, -, rfl⟩ := hc
    simp

/-- the expansion of a script that starts with a (non-empty) Equal op starts with an equal item -/
theorem head_equal {e : Nat → Nat → Bool} {a b len : Nat} {ys : List Op} {o n o' n' : Nat}
    (hw : Walk e o n (.equal a b len :: ys) o' n') :
    ∀ d, ((Op.equal a b len :: ys).flatMap opChanges).head? = some d → d.tag ≠ .delete := by
  intro d hd
  simp only [Walk] at hw
  obtain ⟨-, -, hl, -, -⟩ := hw
  rw [List.flatMap_cons, C13.opChanges_eq_spec] at hd
  obtain ⟨k, rfl⟩ : ∃ k, len = k + 1 := ⟨len - 1, by omega⟩
  simp only [iterChanges, List.range_succ_eq_map, List.map_cons, List.cons_append, List.head?_cons,
    Option.some.injEq] at hd
  subst hd
  simp

theorem walk_tail {e : Nat → Nat → Bool} {x : Op} {xs : List Op} {o n o' n' : Nat}
    (hw : Walk e o n (x :: xs) o' n') : ∃ o1 n1, Walk e o1 n1 xs o' n' := by
  cases x <;> simp only [Walk] at hw
  · exact ⟨_, _, hw.2.2.2.2⟩
  · exact ⟨_, _, hw.2.2⟩
  · exact ⟨_, _, hw.2.2⟩
  · exact ⟨_, _, hw.2.2.2.2⟩

theorem alternating_tail {x : Op} {xs : List Op} (h : Alternating (x :: xs)) : Alternating xs := by
  cases xs with
  | nil => trivial
  | cons y ys => exact h.2

/-- in the item-wise expansion of a valid alternating script no inserted item is directly followed by a
deleted item -/
theorem adjOK_flatMap {e : Nat → Nat → Bool} : ∀ (ops : List Op) (o n o' n' : Nat), Walk e o n ops o' n' →
    Alternating ops → AdjOK (ops.flatMap opChanges) := by
  intro ops
  induction ops with
  | nil => intro _ _ _ _ _ _; trivial
  | cons x xs ih =>
    intro o n o' n' hw ha
    obtain ⟨o1, n1, hw'⟩ := walk_tail hw
    have ih' := ih o1 n1 o' n' hw' (alternating_tail ha)
    rw [List.flatMap_cons]
    have hnext : x.tag ≠ .equal → ∀ d, (xs.flatMap opChanges).head? = some d → d.tag ≠ .delete := by
      intro hx d hd
      cases xs with
      | nil => simp at hd
      | cons y ys =>
        have hy : y.tag = .equal := by
          apply Classical.byContradiction
          intro hy
          exact ha.1 (by simp [hx, hy])
        cases y with
        | equal a b len => exact head_equal hw' d hd
        | delete => cases hy
        | insert => cases hy
        | replace => cases hy
    cases x with
    | equal a b len =>
      exact adjOK_noIns_append _ _ (fun c hc h => by rw [tags_equal a b len c hc] at h; cases h) ih'
    | delete a len b =>
      exact adjOK_noIns_append _ _ (fun c hc h => by rw [tags_delete a len b c hc] at h; cases h) ih'
    | insert a b len =>
      exact adjOK_append _ _
        (adjOK_noDel _ (fun c hc h => by rw [tags_insert a b len c hc] at h; cases h)) ih'
        (hnext (by simp [Op.tag]))
    | replace a al b bl =>
      exact adjOK_append _ _ (adjOK_replace a al b bl) ih' (hnext (by simp [Op.tag]))

/-- **within any run of changes all deleted items precede all inserted items**: `run` is any contiguous stretch of
the item-wise expansion (`allChanges`, C13) of a valid alternating script that contains no equal item; then every
deleted item of `run` comes before every inserted item of `run` -/
theorem run_dels_first {e : Nat → Nat → Bool} (ops : List Op) (o n o' n' : Nat) (hw : Walk e o n ops o' n')
    (ha : Alternating ops) (pre run post : List Change) (hl : allChanges ops = pre ++ run ++ post)
    (hr : ∀ c ∈ run, c.tag ≠ .equal) :
    ∀ (i j : Nat) ci cj, run[i]? = some ci → run[j]? = some cj → ci.tag = .delete → cj.tag = .insert → i < j := by
  have hadj : AdjOK (pre ++ run ++ post) := by
    rw [← hl, C13.allChanges_eq_flatMap]
    exact adjOK_flatMap ops o n o' n' hw ha
  have hget : ∀ (m : Nat) c, run[m]? = some c → (pre ++ run ++ post)[pre.length + m]? = some c := by
    intro m c hm
    have hlt : m < run.length := by
      rcases Nat.lt_or_ge m run.length with h | h
      · exact h
      · rw [List.getElem?_eq_none h] at hm; cases hm
    rw [List.append_assoc, CompactP.get_pre, List.getElem?_append_left hlt]
    exact hm
  -- everything after an inserted item of the run is an inserted item
  have key : ∀ (k i : Nat) ci c, run[i]? = some ci → ci.tag = .insert → run[i + k]? = some c → c.tag = .insert := by
    intro k
    induction k with
    | zero =>
      intro i ci c h1 ht h2
      rw [Nat.add_zero, h1] at h2
      cases h2; exact ht
    | succ k ih =>
      intro i ci c h1 ht h2
      have hlt : i + k < run.length := by
        rcases Nat.lt_or_ge (i + (k + 1)) run.length with h | h
        · omega
        · rw [List.getElem?_eq_none h] at h2; cases h2
      have h3 : run[i + k]? = some run[i + k] := List.getElem?_eq_getElem hlt
      have ht' := ih i ci _ h1 ht h3
      have hne := adjOK_idx _ hadj (pre.length + (i + k)) _ c (hget _ _ h3) (by
        rw [Nat.add_assoc]; exact hget _ _ h2)
      have hc := hr c (List.mem_of_getElem? h2)
      cases htag : c.tag with
      | equal => exact absurd htag hc
      | delete => exact absurd ⟨ht', htag⟩ hne
      | insert => rfl
  intro i j ci cj h1 h2 hd hi
  rcases Nat.lt_or_ge i j with h | h
  · exact h
  · obtain ⟨k, rfl⟩ : ∃ k, i = j + k := ⟨i - j, by omega⟩
    have := key k j cj ci h2 hi h1
    rw [hd] at this
    cases this

/-! ## a Replace op has both parts -/

theorem walk_replace_pos {e : Nat → Nat → Bool} (ops : List Op) (o n o' n' : Nat) (hw : Walk e o n ops o' n') :
    ∀ a al b bl, Op.replace a al b bl ∈ ops → 0 < al ∧ 0 < bl := by
  intro a al b bl hm
  obtain ⟨pre, post, rfl⟩ := List.append_of_mem hm
  obtain ⟨o1, n1, -, h2⟩ := walk_split pre _ _ _ _ _ hw
  simp only [Walk] at h2
  exact ⟨h2.2.2.1, h2.2.2.2.1⟩

/-! ## clause 4: the comparison is defined -/

/-- in a valid script over in-bounds ranges, the first inserted item of an Insert and the first item of the Equal
after it lie inside the ranges, so `new[cn] == old[eo]` is defined; "not equal" is then `some false` -/
theorem insert_equal_differs (E : Env) (ops : List Op) (os ns oe ne : Nat) (hw : Walk (eqB E) os ns ops oe ne)
    (hb : InBounds E os oe ns ne)
    (h4 : ∀ pre co cn l eo en el post, ops = pre ++ .insert co cn l :: .equal eo en el :: post →
      eqB E eo cn = false) :
    ∀ pre co cn l eo en el post, ops = pre ++ .insert co cn l :: .equal eo en el :: post →
      E.on eo cn = some false := by
  intro pre co cn l eo en el post hs
  have hf := h4 pre co cn l eo en el post hs
  subst hs
  obtain ⟨o1, n1, h1, h2⟩ := walk_split pre _ _ _ _ _ hw
  simp only [Walk] at h2
  obtain ⟨rfl, hl, rfl, rfl, hel, -, h3⟩ := h2
  have m1 := walk_counts _ _ _ _ _ h1
  have m3 := walk_counts _ _ _ _ _ h3
  have hs := hb eo cn (by omega) (by omega) (by omega) (by omega)
  unfold eqB at hf
  cases hon : E.on eo cn with
  | none => rw [hon] at hs; cases hs
  | some v =>
    cases v with
    | false => rfl
    | true => rw [hon] at hf; cases hf

/-! ## C10's arbitrary scripts through `Compact` over `Replace` -/

theorem map_op_inj : ∀ (a b : List Op), a.map Call.op = b.map Call.op → a = b := by
  intro a
  induction a with
  | nil => intro b h; cases b with | nil => rfl | cons y ys => simp at h
  | cons x xs ih =>
    intro b h
    cases b with
    | nil => simp at h
    | cons y ys =>
      simp only [List.map_cons, List.cons.injEq, Call.op.injEq] at h
      rw [h.1, ih ys h.2]

/-- **any valid script fed through `Compact` over `Replace` over the recording hook**: the adapters return, and
what the recording hook holds is a valid alternating script that satisfies clause 4 of C09 (this is the clause
`Headline.C10_statement` states for the buffer of `Compact` only) -/
theorem script_compact_replace (E : Env) (repair : Bool) (ops : List Op) (o n o' n' : Nat) (w : World)
    (hnr : NoReplaceOp ops) (hw : Walk (eqB E) o n ops o' n') (hcar : Carried o n ops)
    (hb : InBounds E o o' n n') :
    ∃ (buf : List Op) (rs : RState) (out : List Op) (w' : World),
      deliver (compactHook E repair (replaceHook recHook)) (ops.map Call.op ++ [.finish]) ([], ({}, {})) w =
        .ok ((buf, (rs, { trace := out.map Call.op ++ [.finish] })), w') ∧
      Walk (eqB E) o n out o' n' ∧ Alternating out ∧
      (∀ pre co cn l eo en el post, out = pre ++ .insert co cn l :: .equal eo en el :: post →
        eqB E eo cn = false) := by
  obtain ⟨ops', w', hcl⟩ := CompactT.cleanup_total_carried E repair ops o n o' n' w hnr hw hcar hb
  obtain ⟨a1, -, -, -, a5, -, -⟩ := C10.compact_preserves E repair ops o n o' n' w ops' w' hnr hw hcl
  obtain ⟨out, rs, hro, b1, -, -, -, b5, -⟩ := C10.replace_preserves (eqB E) ops' o n o' n' w' a5 a1
  have hi := CaptureNF.cleanup_insOK E repair ops o n o' n' w ops' w' hnr hw hcl
  obtain ⟨out2, ht, h4⟩ := CaptureNF.replace_latest E ops' w' a5 hi _ hro
  have he : out2 = out := by
    simp only at ht
    exact (map_op_inj _ _ (List.append_cancel_right ht)).symm
  subst he
  refine ⟨ops', rs, out2, w', ?_, b1, b5, h4⟩
  rw [compact_deliver E repair (replaceHook recHook) ({}, {}) w ops hnr, hcl]
  unfold replaceOut at hro
  simp only [hro]

end SimilarVerif.Headline.C09G

#print axioms SimilarVerif.Headline.C09G.run_dels_first
#print axioms SimilarVerif.Headline.C09G.walk_replace_pos
#print axioms SimilarVerif.Headline.C09G.insert_equal_differs
#print axioms SimilarVerif.Headline.C09G.script_compact_replace

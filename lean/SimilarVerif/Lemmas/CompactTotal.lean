import SimilarVerif.Lemmas.Compact
/-! # `cleanup_diff_ops`: latest-position property of pure insertions (C09 clause 4), absence of aborts,
termination within the supplied fuel. -/
set_option linter.unusedSimpArgs false
namespace SimilarVerif.CompactT
open SimilarVerif Spec SimilarVerif.CompactP

/-! ## (D) an Insert followed by an Equal sits at its latest position -/

/-- the property for all adjacent pairs lying inside the first `k` ops -/
def GT (E : Env) (k : Nat) (ops : List Op) : Prop :=
  ∀ i co cn l eo en el, i + 1 < k → ops[i]? = some (.insert co cn l) → ops[i+1]? = some (.equal eo en el) →
    eqB E eo cn = false

/-- the op before the pointer is not an Insert -/
def PNI (ops : List Op) (p : Nat) : Prop := ∀ x, p ≠ 0 → ops[p - 1]? = some x → x.tag ≠ .insert

theorem GT.mono {E : Env} {k k' : Nat} {ops : List Op} (h : GT E k ops) (hk : k' ≤ k) : GT E k' ops :=
  fun i co cn l eo en el hi h1 h2 => h i co cn l eo en el (by omega) h1 h2

theorem get_in_pre {pre r : List Op} {i : Nat} (hi : i < pre.length) : (pre ++ r)[i]? = pre[i]? :=
  List.getElem?_append_left hi

theorem GT_pre_congr {E : Env} {k : Nat} {pre r r' : List Op} (hk : k ≤ pre.length)
    (h : GT E k (pre ++ r)) : GT E k (pre ++ r') := by
  intro i co cn l eo en el hi h1 h2
  rw [get_in_pre (by omega)] at h1 h2
  exact h i co cn l eo en el hi (by rw [get_in_pre (by omega)]; exact h1) (by rw [get_in_pre (by omega)]; exact h2)

/-- the op at position `pre.length` may change as long as an Equal keeps its old start -/
theorem GT_last_congr {E : Env} {pre r r' : List Op} {a a' : Op}
    (ha : ∀ eo en el, a' = .equal eo en el → ∃ en' el', a = .equal eo en' el')
    (h : GT E (pre.length + 1) (pre ++ a :: r)) : GT E (pre.length + 1) (pre ++ a' :: r') := by
  intro i co cn l eo en el hi h1 h2
  rw [get_in_pre (by omega)] at h1
  by_cases hi2 : i + 1 < pre.length
  · rw [get_in_pre hi2] at h2
    exact h i co cn l eo en el hi (by rw [get_in_pre (by omega)]; exact h1) (by rw [get_in_pre hi2]; exact h2)
  · have : i + 1 = pre.length := by omega
    rw [this, get_pre0] at h2
    simp at h2
    obtain ⟨en', el', rfl⟩ := ha eo en el h2
    exact h i co cn l eo en' el' hi (by rw [get_in_pre (by omega)]; exact h1) (by rw [this, get_pre0]; simp)

theorem GT_snoc_notins {E : Env} {pre r0 r : List Op} {a : Op} (h : GT E pre.length (pre ++ r0))
    (hp : PNI (pre ++ r0) pre.length) : GT E (pre.length + 1) (pre ++ a :: r) := by
  intro i co cn l eo en el hi h1 h2
  rw [get_in_pre (by omega)] at h1
  by_cases hi2 : i + 1 < pre.length
  · rw [get_in_pre hi2] at h2
    exact h i co cn l eo en el hi2 (by rw [get_in_pre (by omega)]; exact h1) (by rw [get_in_pre hi2]; exact h2)
  · have : i = pre.length - 1 := by omega
    have := hp (.insert co cn l) (by omega) (by rw [← this, get_in_pre (by omega)]; exact h1)
    simp [Op.tag] at this

theorem GT_snoc_noteq {E : Env} {pre r0 r : List Op} {a : Op} (h : GT E pre.length (pre ++ r0))
    (ha : a.tag ≠ .equal) : GT E (pre.length + 1) (pre ++ a :: r) := by
  intro i co cn l eo en el hi h1 h2
  rw [get_in_pre (by omega)] at h1
  by_cases hi2 : i + 1 < pre.length
  · rw [get_in_pre hi2] at h2
    exact h i co cn l eo en el hi2 (by rw [get_in_pre (by omega)]; exact h1) (by rw [get_in_pre hi2]; exact h2)
  · have : i + 1 = pre.length := by omega
    rw [this, get_pre0] at h2
    simp at h2
    subst h2
    simp [Op.tag] at ha

/-- the op at the pointer is an Insert -/
def TI (ops : List Op) (p : Nat) : Prop := ∃ co cn l, ops[p]? = some (.insert co cn l)

local macro "idx" : tactic =>
  `(tactic| simp only [get_pre, set_pre, erase_pre, insert_pre, get_pre0, set_pre0, erase_pre0, insert_pre0,
      Nat.add_sub_cancel, Nat.add_assoc, Nat.reduceAdd, List.set_cons_zero, List.set_cons_succ,
      List.eraseIdx_cons_zero, List.eraseIdx_cons_succ, List.insertIdx_zero, List.insertIdx_succ_cons,
      List.getElem?_cons_zero, List.getElem?_cons_succ] at *)

theorem TI_tag {ops : List Op} {p : Nat} {x : Op} (h : TI ops p) (hx : opAt ops p = .ok x) : x.tag = .insert := by
  obtain ⟨co, cn, l, h⟩ := h
  rw [opAt_ok_iff, h] at hx; cases hx; rfl

theorem swap_fst_insert (r : Bool) {a b : Op} (ha : a.tag = .delete) (hb : b.tag = .insert) :
    ∃ co cn l, (swapPair r a b).1 = .insert co cn l := by
  obtain ⟨_, _, _, rfl⟩ := tag_delete ha
  obtain ⟨_, _, _, rfl⟩ := tag_insert hb
  cases r <;> simp [swapPair]

theorem shiftUp_good (E : Env) (repair : Bool) (fuel : Nat) (ops : List Op) (pointer : Nat) (w : World) :
    ∀ ops' p' w', shiftUp E repair fuel ops pointer w = .ok (ops', p', w') → GT E pointer ops → TI ops pointer →
      GT E p' ops' ∧ PNI ops' p' ∧ TI ops' p' := by
  fun_induction shiftUp E repair fuel ops pointer w
  case case7 fuel ops p w hp prev h1 this h2 ht1 ht2 sl w1 hs hsl ops1 hx this' prev' h3 h4 ops2 hemp ih
     | case8 fuel ops p w hp prev h1 this h2 ht1 ht2 sl w1 hs hsl ops1 hx this' prev' h3 h4 ops2 hemp ih =>
    intro ops' p' w' h hG hT
    refine ih _ _ _ h ?_ ?_ <;> clear ih h
    all_goals
      obtain ⟨pre, post, rfl, rfl⟩ := window_up hp h1 h2
      clear h1 h2 hs hT
      obtain ⟨po, pn, pl, rfl⟩ := tag_equal ht1
      obtain ⟨co, cn, l, rfl⟩ := tag_insert ht2
      simp only [ops2]
      simp only [shrinkLeft_equal_ok, shiftLeft_insert_ok] at h3 h4
      obtain ⟨h3a, rfl⟩ := h3
      obtain ⟨h4a, h4b, rfl⟩ := h4
      simp only [Op.oStart, Op.oEnd, Op.nStart, Op.nEnd, Op.oLen, Op.nLen] at *
      idx
      have hx' : ∃ rest, ops1 = pre ++ Op.equal po pn pl :: Op.insert co cn l :: rest := by
        split at hx
        · rename_i o2 n2 l2 hnext
          obtain ⟨post', rfl⟩ := head_eq hnext
          simp only [map_ok, growLeft_equal_ok] at hx
          obtain ⟨_, ⟨hg1, hg2, rfl⟩, rfl⟩ := hx
          exact ⟨_, by idx; rfl⟩
        · split at hx
          · simp only [Op.tag] at hx; cases hx; exact ⟨_, rfl⟩
          · cases hx
      obtain ⟨rest, rfl⟩ := hx'
      clear hx
      idx
      first
        | exact GT_pre_congr (Nat.le_refl _) (hG.mono (Nat.le_succ _))
        | exact GT_last_congr (by intro eo en el h; cases h; exact ⟨_, _, rfl⟩) hG
        | exact ⟨co - sl, cn - sl, l, by simp [get_pre, get_pre0]⟩
  case case14 fuel ops p w hp prev h1 this h2 ht1 ht2 sl w1 hs hsl ops1 hx this' prev' h3 h4 ops2 hemp ih
     | case15 fuel ops p w hp prev h1 this h2 ht1 ht2 sl w1 hs hsl ops1 hx this' prev' h3 h4 ops2 hemp ih =>
    rw [nEnd_delete ht2] at hs; have := csl_empty hs; omega
  case case10 fuel ops p w hp prev h1 this h2 ht1 ht2 sl w1 hs hsl hemp ih
     | case17 fuel ops p w hp prev h1 this h2 ht1 ht2 sl w1 hs hsl hemp ih =>
    intro ops' p' w' h hG hT
    refine ih _ _ _ h ?_ ?_ <;> clear ih h
    all_goals
      obtain ⟨pre, post, rfl, rfl⟩ := window_up hp h1 h2
      have ht := TI_tag hT h2
      obtain ⟨co, cn, l, rfl⟩ := tag_insert ht
      idx
      first
        | exact GT_pre_congr (Nat.le_refl _) (hG.mono (Nat.le_succ _))
        | exact ⟨co, cn, l, by simp [get_pre, get_pre0]⟩
  case case11 fuel ops p w hp prev h1 this h2 ht1 ht2 sl w1 hs hsl hemp
     | case18 fuel ops p w hp prev h1 this h2 ht1 ht2 sl w1 hs hsl hemp =>
    intro ops' p' w' h hG hT
    cases h
    refine ⟨hG, ?_, hT⟩
    intro x _ hx
    rw [h1] at hx; cases hx; rw [ht1]; simp
  case case19 fuel ops p w hp prev h1 this h2 ht1 ht2 x y hxy ih =>
    intro ops' p' w' h hG hT
    refine ih _ _ _ h ?_ ?_ <;> clear ih h
    all_goals
      obtain ⟨pre, post, rfl, rfl⟩ := window_up hp h1 h2
      obtain ⟨co, cn, l, hx1⟩ := swap_fst_insert repair ht1 ht2
      rw [hxy] at hx1; simp only at hx1; subst hx1
      idx
      first
        | exact GT_pre_congr (Nat.le_refl _) (hG.mono (Nat.le_succ _))
        | exact ⟨co, cn, l, by simp [get_pre, get_pre0]⟩
  case case20 fuel ops p w hp prev h1 this h2 ht1 ht2 x y hxy ih =>
    intro ops' p' w' h hG hT
    have ht := TI_tag hT h2
    rw [ht] at ht2; cases ht2
  case case21 fuel ops p w hp prev h1 this h2 ht1 ht2 ih =>
    intro ops' p' w' h hG hT
    refine ih _ _ _ h ?_ ?_ <;> clear ih h
    all_goals
      obtain ⟨pre, post, rfl, rfl⟩ := window_up hp h1 h2
      obtain ⟨po, pn, pl, rfl⟩ := tag_insert ht1
      obtain ⟨co, cn, l, rfl⟩ := tag_insert ht2
      idx
      first
        | exact GT_pre_congr (Nat.le_refl _) (hG.mono (Nat.le_succ _))
        | exact ⟨po, pn, pl + l, by simp [get_pre, get_pre0, Op.growRight, Op.addLen, Op.nLen]⟩
  case case22 fuel ops p w hp prev h1 this h2 ht1 ht2 ih =>
    intro ops' p' w' h hG hT
    have ht := TI_tag hT h2
    rw [ht] at ht2; cases ht2
  case case2 =>
    intro ops' p' w' h hG hT
    cases h
    refine ⟨hG, ?_, hT⟩
    intro x hx _; exact absurd rfl hx
  case case3 fuel ops p w hp h0 =>
    intro ops' p' w' h hG hT
    cases h
    refine ⟨hG, ?_, hT⟩
    intro x _ hx; rw [h0] at hx; cases hx
  all_goals (intro _ _ _ h; cases h)

theorem PNI_pre_congr {pre r r' : List Op} (h : PNI (pre ++ r) pre.length) : PNI (pre ++ r') pre.length := by
  intro x hp hx
  rw [get_in_pre (by omega)] at hx
  exact h x hp (by rw [get_in_pre (by omega)]; exact hx)

theorem PNI_succ {pre r : List Op} {a : Op} (ha : a.tag ≠ .insert) : PNI (pre ++ a :: r) (pre.length + 1) := by
  intro x _ hx
  simp only [Nat.add_sub_cancel, get_pre0, List.getElem?_cons_zero] at hx
  cases hx; exact ha

/-- where `shift_diff_ops_down` stops -/
theorem GT_stop {E : Env} {pre r0 nexts : List Op} {this : Op} (h : GT E pre.length (pre ++ r0))
    (ht : this.tag ≠ .equal)
    (hn : ∀ co cn l eo en el, this = .insert co cn l → nexts[0]? = some (.equal eo en el) → eqB E eo cn = false) :
    GT E (pre.length + 2) (pre ++ this :: nexts) := by
  intro i co cn l eo en el hi h1 h2
  by_cases hi2 : i + 1 < pre.length
  · rw [get_in_pre (by omega)] at h1
    rw [get_in_pre hi2] at h2
    exact h i co cn l eo en el hi2 (by rw [get_in_pre (by omega)]; exact h1) (by rw [get_in_pre hi2]; exact h2)
  · by_cases hi3 : i + 1 = pre.length
    · rw [hi3, get_pre0] at h2
      simp at h2; subst h2; simp [Op.tag] at ht
    · have : i = pre.length := by omega
      subst this
      rw [get_pre0] at h1
      rw [get_pre] at h2
      simp at h1 h2
      exact hn co cn l eo en el h1 (by simpa using h2)

theorem swap_down (r : Bool) {a b : Op} (ha : a.tag = .insert) (hb : b.tag = .delete) :
    (swapPair r a b).1.tag = .delete ∧ ∃ co cn l, (swapPair r a b).2 = .insert co cn l := by
  obtain ⟨_, _, _, rfl⟩ := tag_insert ha
  obtain ⟨_, _, _, rfl⟩ := tag_delete hb
  cases r <;> simp [swapPair, Op.tag]

/-- every Insert of the list has positive length (a consequence of `Walk`) -/
def InsPos (ops : List Op) : Prop := ∀ (i : Nat) co cn l, ops[i]? = some (.insert co cn l) → 0 < l

theorem shiftDown_good (E : Env) (repair : Bool) (fuel : Nat) (ops : List Op) (pointer : Nat) (w : World) :
    ∀ ops' p' w', shiftDown E repair fuel ops pointer w = .ok (ops', p', w') → InsPos ops' →
      GT E pointer ops → PNI ops pointer → TI ops pointer → GT E (p' + 2) ops' := by
  fun_induction shiftDown E repair fuel ops pointer w
  case case6 fuel ops p w next h1 this h2 ht1 ht2 pl w1 hs hpl prevIsEq ops1 p1 hx t nx hnx ht nx' h3 ops2 hemp ih
     | case7 fuel ops p w next h1 this h2 ht1 ht2 pl w1 hs hpl prevIsEq ops1 p1 hx t nx hnx ht nx' h3 ops2 hemp ih =>
    intro ops' p' w' h hpos hG hP hT
    refine ih _ _ _ h hpos ?_ ?_ ?_ <;> clear ih h hpos
    all_goals
      obtain ⟨pre, post, rfl, rfl⟩ := window_down h1 h2
      clear h1 h2 hs hT
      obtain ⟨o2, n2, l2, rfl⟩ := tag_equal ht1
      obtain ⟨co, cn, l, rfl⟩ := tag_insert ht2
      simp only [ops2]
      simp only [prevIsEq] at hx
      simp only [Op.oStart, Op.oEnd, Op.nStart, Op.nEnd, Op.oLen, Op.nLen] at *
      have hx' : (ops1 = pre ++ .equal o2 cn pl :: .insert co cn l :: .equal o2 n2 l2 :: post ∧ p1 = pre.length + 1) ∨
          (∃ pre' qo qn ql, pre = pre' ++ [.equal qo qn ql] ∧
            ops1 = pre' ++ .equal qo qn (ql + pl) :: .insert co cn l :: .equal o2 n2 l2 :: post ∧ p1 = pre.length) := by
        by_cases hpe : pre.length = 0
        · left
          simp only [hpe, if_true, Bool.false_eq_true, if_false] at hx
          obtain rfl := List.eq_nil_of_length_eq_zero hpe
          cases hx
          exact ⟨rfl, rfl⟩
        · simp only [hpe, if_false] at hx
          cases hq : (pre ++ Op.insert co cn l :: Op.equal o2 n2 l2 :: post)[pre.length - 1]? with
          | none =>
            simp only [hq, Bool.false_eq_true, if_false] at hx
            left
            cases hx
            exact ⟨by simp only [insert_pre0, List.insertIdx_zero], rfl⟩
          | some q =>
            obtain ⟨pre', rfl⟩ := last_of_pre hpe hq
            simp only [hq] at hx
            cases q
            · right
              simp only [if_true] at hx
              cases hx
              refine ⟨pre', _, _, _, rfl, ?_, rfl⟩
              simp [Op.growRight, Op.addLen]
            all_goals
              left
              simp only [Bool.false_eq_true, if_false] at hx
              cases hx
              exact ⟨by simp only [insert_pre0, List.insertIdx_zero], rfl⟩
      clear hx
      rcases hx' with ⟨rfl, rfl⟩ | ⟨pre', qo, qn, ql, rfl, rfl, rfl⟩
      · simp only [opAt_ok_iff] at ht hnx
        idx
        cases ht
        cases hnx
        simp only [shrinkRight_equal_ok] at h3
        obtain ⟨h3a, rfl⟩ := h3
        first
          | exact GT_snoc_notins hG hP
          | exact PNI_succ (by simp [Op.tag])
          | exact ⟨co + pl, cn + pl, l, by simp [get_pre, Op.shiftRight]⟩
      · simp only [opAt_ok_iff, List.length_append, List.length_cons, List.length_nil, List.append_assoc,
          List.cons_append, List.nil_append] at ht hnx hG ⊢
        idx
        cases ht
        cases hnx
        simp only [shrinkRight_equal_ok] at h3
        obtain ⟨h3a, rfl⟩ := h3
        first
          | exact GT_last_congr (by intro eo en el h; cases h; exact ⟨_, _, rfl⟩) hG
          | exact PNI_succ (by simp [Op.tag])
          | exact ⟨co + pl, cn + pl, l, by simp [get_pre, Op.shiftRight]⟩
  case case13 fuel ops p w next h1 this h2 ht1 ht2 pl w1 hs hpl prevIsEq ops1 p1 hx t nx hnx ht nx' h3 ops2 hemp ih
     | case14 fuel ops p w next h1 this h2 ht1 ht2 pl w1 hs hpl prevIsEq ops1 p1 hx t nx hnx ht nx' h3 ops2 hemp ih =>
    rw [nEnd_delete ht2] at hs; have := cpl_empty hs; omega
  case case9 fuel ops p w next h1 this h2 ht1 ht2 pl w1 hs hpl hemp ih
     | case16 fuel ops p w next h1 this h2 ht1 ht2 pl w1 hs hpl hemp ih =>
    intro ops' p' w' h hpos hG hP hT
    refine ih _ _ _ h hpos ?_ ?_ ?_ <;> clear ih h hpos
    all_goals
      obtain ⟨pre, post, rfl, rfl⟩ := window_down h1 h2
      have ht := TI_tag hT h2
      obtain ⟨co, cn, l, rfl⟩ := tag_insert ht
      idx
      first
        | exact GT_pre_congr (Nat.le_refl _) hG
        | exact PNI_pre_congr hP
        | exact ⟨co, cn, l, by simp [get_pre0]⟩
  case case2 fuel ops p w h0 =>
    intro ops' p' w' h hpos hG hP hT
    cases h
    obtain ⟨co, cn, l, hT⟩ := hT
    obtain ⟨pre, post, rfl, rfl⟩ := split_at hT
    refine GT_stop hG (by simp [Op.tag]) ?_
    intro co cn l eo en el _ hn
    rw [get_pre] at h0; simp at h0; subst h0; simp at hn
  case case10 fuel ops p w next h1 this h2 ht1 ht2 pl w1 hs hpl hemp =>
    intro ops' p' w' h hpos hG hP hT
    cases h
    obtain ⟨pre, post, rfl, rfl⟩ := window_down h1 h2
    obtain ⟨o2, n2, l2, rfl⟩ := tag_equal ht1
    obtain ⟨co, cn, l, rfl⟩ := tag_insert ht2
    refine GT_stop hG (by simp [Op.tag]) ?_
    intro co' cn' l' eo en el hc hn
    cases hc
    simp at hn
    obtain ⟨rfl, rfl, rfl⟩ := hn
    have hl := hpos pre.length co cn l (by simp [get_pre0])
    have hl2 : l2 ≠ 0 := by simpa [isEmpty_equal] using hemp
    obtain ⟨-, -, -, h4, -⟩ := commonPrefixLen_spec hs
    simp only [Op.oStart, Op.oEnd, Op.nStart, Op.nEnd, Op.oLen, Op.nLen] at h4
    have hpl0 : pl = 0 := by omega
    subst hpl0
    simpa using h4 (by omega) (by omega)
  case case17 fuel ops p w next h1 this h2 ht1 ht2 pl w1 hs hpl hemp =>
    intro ops' p' w' h hpos hG hP hT
    have ht := TI_tag hT h2
    rw [ht] at ht2; cases ht2
  case case18 fuel ops p w next h1 this h2 ht1 ht2 x y hxy ih =>
    intro ops' p' w' h hpos hG hP hT
    refine ih _ _ _ h hpos ?_ ?_ ?_ <;> clear ih h hpos
    all_goals
      obtain ⟨pre, post, rfl, rfl⟩ := window_down h1 h2
      obtain ⟨hxd, co, cn, l, hyi⟩ := swap_down repair ht2 ht1
      rw [hxy] at hxd hyi; simp only at hxd hyi; subst hyi
      idx
      first
        | exact GT_snoc_noteq hG (by rw [hxd]; simp)
        | exact PNI_succ (by rw [hxd]; simp)
        | exact ⟨co, cn, l, by simp [get_pre]⟩
  case case19 fuel ops p w next h1 this h2 ht1 ht2 x y hxy ih =>
    intro ops' p' w' h hpos hG hP hT
    have ht := TI_tag hT h2
    rw [ht] at ht2; cases ht2
  case case20 fuel ops p w next h1 this h2 ht1 ht2 ih =>
    intro ops' p' w' h hpos hG hP hT
    refine ih _ _ _ h hpos ?_ ?_ ?_ <;> clear ih h hpos
    all_goals
      obtain ⟨pre, post, rfl, rfl⟩ := window_down h1 h2
      obtain ⟨o2, n2, l2, rfl⟩ := tag_insert ht1
      obtain ⟨co, cn, l, rfl⟩ := tag_insert ht2
      idx
      first
        | exact GT_pre_congr (Nat.le_refl _) hG
        | exact PNI_pre_congr hP
        | exact ⟨co, cn, l + l2, by simp [get_pre0, Op.growRight, Op.addLen, Op.nLen]⟩
  case case21 fuel ops p w next h1 this h2 ht1 ht2 ih =>
    intro ops' p' w' h hpos hG hP hT
    have ht := TI_tag hT h2
    rw [ht] at ht2; cases ht2
  all_goals (intro _ _ _ h; cases h)

theorem walk_insPos {e : Nat → Nat → Bool} : ∀ (ops : List Op) (o n o' n' : Nat), Walk e o n ops o' n' → InsPos ops := by
  intro ops
  induction ops with
  | nil => intro _ _ _ _ _ i co cn l h; simp at h
  | cons c cs ih =>
    intro o n o' n' hw i co cn l h
    cases i with
    | zero =>
      simp at h; subst h
      simp only [Walk] at hw; exact hw.2.1
    | succ i =>
      simp at h
      cases c <;> simp only [Walk] at hw
      · exact ih _ _ _ _ hw.2.2.2.2 i co cn l h
      · exact ih _ _ _ _ hw.2.2 i co cn l h
      · exact ih _ _ _ _ hw.2.2 i co cn l h
      · exact ih _ _ _ _ hw.2.2.2.2 i co cn l h

theorem GT_succ_notins {E : Env} {k : Nat} {ops : List Op} (h : GT E (k + 1) ops)
    (hk : ∀ co cn l, ops[k]? ≠ some (.insert co cn l)) : GT E (k + 2) ops := by
  intro i co cn l eo en el hi h1 h2
  by_cases hi2 : i + 1 < k + 1
  · exact h i co cn l eo en el hi2 h1 h2
  · have : i = k := by omega
    subst this
    exact absurd h1 (hk co cn l)

theorem GT_all_of_none {E : Env} {p : Nat} {ops : List Op} (h : GT E (p + 1) ops) (hp : ops[p]? = none) :
    ∀ k, GT E k ops := by
  intro k i co cn l eo en el _ h1 h2
  have : i + 1 < ops.length := by
    rcases Nat.lt_or_ge (i + 1) ops.length with h | h
    · exact h
    · rw [List.getElem?_eq_none h] at h2; cases h2
  have : ops.length ≤ p := by
    rcases Nat.lt_or_ge p ops.length with h | h
    · rw [List.getElem?_eq_getElem h] at hp; cases hp
    · exact h
  exact h i co cn l eo en el (by omega) h1 h2

theorem insertPass_good (E : Env) (repair : Bool) (inner fuel : Nat) (ops : List Op) (pointer : Nat) (w : World) :
    ∀ ops' w', cleanupPass E repair .insert inner fuel ops pointer w = .ok (ops', w') →
      ∀ o n o' n', Walk (eqB E) o n ops o' n' → NoReplaceOp ops → GT E (pointer + 1) ops → ∀ k, GT E k ops' := by
  fun_induction cleanupPass E repair .insert inner fuel ops pointer w
  case case2 fuel ops p w h0 =>
    intro ops' w' h o n o' n' hw hnr hG
    cases h
    exact GT_all_of_none hG h0
  case case5 fuel ops p w op hop htag ops1 p1 w1 hup ops2 p2 w2 hdown ih =>
    intro ops' w' h o n o' n' hw hnr hG
    obtain ⟨a1, -, -⟩ := shiftUp_pres E repair _ _ _ _ _ _ _ hup
    obtain ⟨b1, -, -⟩ := shiftDown_pres E repair _ _ _ _ _ _ _ hdown
    obtain ⟨hw1, hnr1, -⟩ := a1 o n o' n' hw hnr
    obtain ⟨hw2, hnr2, -⟩ := b1 o n o' n' hw1 hnr1
    obtain ⟨co, cn, l, rfl⟩ := tag_insert htag
    obtain ⟨g1, g2, g3⟩ := shiftUp_good E repair _ _ _ _ _ _ _ hup (hG.mono (Nat.le_succ _)) ⟨co, cn, l, hop⟩
    have g4 := shiftDown_good E repair _ _ _ _ _ _ _ hdown (walk_insPos _ _ _ _ _ hw2) g1 g2 g3
    exact ih _ _ h o n o' n' hw2 hnr2 g4
  case case6 fuel ops p w op hop htag ih =>
    intro ops' w' h o n o' n' hw hnr hG
    refine ih _ _ h o n o' n' hw hnr (GT_succ_notins hG ?_)
    intro co cn l hc
    rw [hop] at hc; cases hc; exact htag rfl
  all_goals (intro _ _ h; cases h)

/-- **(D)**, index form: in the result of `cleanup_diff_ops` every Insert directly followed by an Equal
has its first inserted item different from the first equal item (it cannot slide further down). -/
theorem cleanup_insert_latest_idx (E : Env) (repair : Bool) (ops : List Op) (o n o' n' : Nat) (w : World)
    (ops' : List Op) (w' : World)
    (hnr : NoReplaceOp ops) (hw : Walk (eqB E) o n ops o' n')
    (h : cleanupDiffOps E repair ops w = .ok (ops', w')) :
    ∀ (i : Nat) co cn l eo en el, ops'[i]? = some (.insert co cn l) → ops'[i + 1]? = some (.equal eo en el) →
      eqB E eo cn = false := by
  unfold cleanupDiffOps at h
  simp only at h
  split at h
  · cases h
  · rename_i ops1 w1 h1
    obtain ⟨a1, -, -⟩ := cleanupPass_pres E repair _ _ _ _ _ _ _ _ h1
    obtain ⟨hw1, hnr1, -⟩ := a1 o n o' n' hw hnr
    have hG : GT E (0 + 1) ops1 := fun i _ _ _ _ _ _ hi _ _ => by omega
    have := insertPass_good E repair _ _ _ _ _ _ _ h o n o' n' hw1 hnr1 hG
    intro i co cn l eo en el h1 h2
    exact this (i + 2) i co cn l eo en el (by omega) h1 h2

/-- **(D)** C09 clause 4 for the output of `cleanup_diff_ops` (shipped and repaired code, every fuel):
every adjacent Insert-then-Equal pair `… insert(_, cn, _) :: equal(eo, _, _) …` has `new[cn] ≠ old[eo]`. -/
theorem cleanup_insert_latest (E : Env) (repair : Bool) (ops : List Op) (o n o' n' : Nat) (w : World)
    (ops' : List Op) (w' : World)
    (hnr : NoReplaceOp ops) (hw : Walk (eqB E) o n ops o' n')
    (h : cleanupDiffOps E repair ops w = .ok (ops', w')) :
    ∀ pre co cn l eo en el post, ops' = pre ++ .insert co cn l :: .equal eo en el :: post → eqB E eo cn = false := by
  intro pre co cn l eo en el post hs
  subst hs
  exact cleanup_insert_latest_idx E repair ops o n o' n' w _ w' hnr hw h pre.length co cn l eo en el
    (by simp [get_pre0]) (by simp [get_pre])

/-! ## (E) no panic — the carried-index invariant

`CarOK o nd ops`: walking from old position `o`, with `nd` old items deleted so far, every Insert's carried
old index is at least its true old position minus the deletions before it. It follows from `Exact` (and from
the lower bound of `Carried`), it is preserved by every rewrite of both variants (an unrepaired swap moves
an Insert over a Delete and changes its true position by exactly that Delete's length), and it makes the
checked subtraction of `shift_left` succeed. -/

def CarOK : Nat → Nat → List Op → Prop
  | _, _, [] => True
  | o, nd, .equal _ _ len :: cs => CarOK (o + len) nd cs
  | o, nd, .delete _ l _ :: cs => CarOK (o + l) (nd + l) cs
  | o, nd, .insert co _ _ :: cs => o ≤ co + nd ∧ CarOK o nd cs
  | o, nd, .replace _ ol _ _ :: cs => CarOK (o + ol) (nd + ol) cs

theorem carOK_append : ∀ (a b : List Op) (o nd : Nat),
    CarOK o nd (a ++ b) ↔ CarOK o nd a ∧ CarOK (o + nDel a + nEq a) (nd + nDel a) b := by
  intro a
  induction a with
  | nil => intro b o nd; simp [CarOK, nDel, nEq]
  | cons c cs ih =>
    intro b o nd
    cases c <;> simp only [List.cons_append, CarOK, nDel, nEq, ih, and_assoc] <;>
      simp only [Nat.add_assoc, Nat.add_left_comm, Nat.add_comm]

theorem exact_carOK : ∀ (ops : List Op) (o n nd : Nat), Exact o n ops → CarOK o nd ops := by
  intro ops
  induction ops with
  | nil => intro _ _ _ _; trivial
  | cons c cs ih =>
    intro o n nd h
    cases c <;> simp only [Exact, Op.oStart, Op.nStart, Op.oLen, Op.nLen, Nat.add_zero] at h <;>
      simp only [CarOK]
    · exact ih _ _ _ h.2.2
    · exact ih _ _ _ h.2.2
    · exact ⟨by omega, ih _ _ _ h.2.2⟩
    · exact ih _ _ _ h.2.2

/-- `b` is as good as `a` also for the carried-index invariant -/
def PresC (e : Nat → Nat → Bool) (a b : List Op) : Prop :=
  ∀ o n o' n' nd, Walk e o n a o' n' → NoReplaceOp a → CarOK o nd a → CarOK o nd b

theorem PresC.ctx {e rep} {m m' : List Op} (hp : Pres e rep m m') (h : PresC e m m') (pre post : List Op) :
    PresC e (pre ++ (m ++ post)) (pre ++ (m' ++ post)) := by
  intro o n o' n' nd hw hn hc
  obtain ⟨o1, n1, hw1, hw'⟩ := (Replace.walk_append e _ _ _ _ _ _).1 hw
  obtain ⟨o2, n2, hw2, hw3⟩ := (Replace.walk_append e _ _ _ _ _ _).1 hw'
  obtain ⟨hn1, hn'⟩ := (noReplace_append _ _).1 hn
  obtain ⟨hn2, hn3⟩ := (noReplace_append _ _).1 hn'
  obtain ⟨-, -, a3, -, a5, -⟩ := hp o1 n1 o2 n2 hw2 hn2
  rw [carOK_append] at hc ⊢
  obtain ⟨c1, c2⟩ := hc
  rw [carOK_append] at c2 ⊢
  obtain ⟨c2, c3⟩ := c2
  have hcnt := walk_counts _ _ _ _ _ hw1
  have hq := h _ _ _ _ _ (by rw [← hcnt.1]; exact hw2) hn2 c2
  refine ⟨c1, hq, ?_⟩
  rw [a3, a5]; exact c3

theorem PresC.refl (e) (a : List Op) : PresC e a a := fun _ _ _ _ _ _ _ h => h

theorem carOK_optEq (o nd po pn k : Nat) (rest : List Op) :
    CarOK o nd (optEq po pn k ++ rest) ↔ CarOK (o + k) nd rest := by
  by_cases hk : k = 0
  · subst hk; simp [optEq]
  · simp [optEq, hk, CarOK]
theorem carOK_optEq_nil (o nd po pn k : Nat) : CarOK o nd (optEq po pn k) := by
  simpa [CarOK] using (carOK_optEq o nd po pn k []).2

local macro "unc" : tactic =>
  `(tactic| simp only [carOK_optEq, carOK_optEq_nil, CarOK, Walk, List.cons_append, List.nil_append, List.append_nil,
      and_true, true_and] at *)

theorem presC_swap (e : Nat → Nat → Bool) (rep : Bool) (a b : Op)
    (hab : (a.tag = .delete ∧ b.tag = .insert) ∨ (a.tag = .insert ∧ b.tag = .delete)) :
    PresC e [a, b] [(swapPair rep a b).1, (swapPair rep a b).2] := by
  intro o n o' n' nd hw hn hc
  cases a <;> cases b <;> simp [Op.tag] at hab <;> cases rep <;> simp only [swapPair] <;>
    simp only [Bool.not_true, Bool.not_false, Bool.false_eq_true, if_false, if_true] <;> unc <;> omega

theorem presC_merge_ins (e : Nat → Nat → Bool) (po pn pl co cn l : Nat) :
    PresC e [.insert po pn pl, .insert co cn l] [.insert po pn (pl + l)] := by
  intro o n o' n' nd hw hn hc; unc; omega

theorem presC_merge_del (e : Nat → Nat → Bool) (po pl pn co l cn : Nat) :
    PresC e [.delete po pl pn, .delete co l cn] [.delete po (pl + l) pn] := by
  intro o n o' n' nd hw hn hc; unc

theorem presC_up_next (e : Nat → Nat → Bool) (po pn pl co cn l o2 n2 l2 sl : Nat) (h1 : sl ≤ pl) (h2 : sl ≤ co) :
    PresC e [.equal po pn pl, .insert co cn l, .equal o2 n2 l2]
      (optEq po pn (pl - sl) ++ [.insert (co - sl) (cn - sl) l, .equal (o2 - sl) (n2 - sl) (l2 + sl)]) := by
  intro o n o' n' nd hw hn hc; unc; omega

theorem presC_up_end (e : Nat → Nat → Bool) (po pn pl co cn l sl : Nat) (h1 : sl ≤ pl) (h2 : sl ≤ co) :
    PresC e [.equal po pn pl, .insert co cn l]
      (optEq po pn (pl - sl) ++ [.insert (co - sl) (cn - sl) l, .equal (po + pl - sl) (cn + l - sl) sl]) := by
  intro o n o' n' nd hw hn hc; unc; omega

theorem presC_down_prev (e : Nat → Nat → Bool) (po pn plen co cn l o2 n2 l2 pl : Nat) :
    PresC e [.equal po pn plen, .insert co cn l, .equal o2 n2 l2]
      ([.equal po pn (plen + pl), .insert (co + pl) (cn + pl) l] ++ optEq (o2 + pl) (n2 + pl) (l2 - pl)) := by
  intro o n o' n' nd hw hn hc; unc; omega

theorem presC_down_noprev (e : Nat → Nat → Bool) (co cn l o2 n2 l2 pl : Nat) :
    PresC e [.insert co cn l, .equal o2 n2 l2]
      ([.equal o2 cn pl, .insert (co + pl) (cn + pl) l] ++ optEq (o2 + pl) (n2 + pl) (l2 - pl)) := by
  intro o n o' n' nd hw hn hc; unc; omega

theorem presC_drop_empty (e : Nat → Nat → Bool) (x : Op) (ht : x.tag = .equal) (he : x.isEmpty = true) :
    PresC e [x] [] := by
  obtain ⟨o, n, l, rfl⟩ := tag_equal ht
  rw [isEmpty_equal] at he; subst he
  intro o n o' n' nd hw; simp [Walk] at hw

/-! ## (E)+(F) one loop round, forward: a valid state either stops or steps to a valid state with a smaller measure -/

/-- number of ops with tag `t` -/
def cw (t : Tag) : List Op → Nat
  | [] => 0
  | x :: cs => (if x.tag = t then 1 else 0) + cw t cs

/-- loop measure of `shift_diff_ops_up`: pointer + equal items before it -/
def mU (ops : List Op) (p : Nat) : Nat := p + nEq (ops.take p)
/-- loop measure of `shift_diff_ops_down`: ops from the pointer on + equal items after it -/
def mD (ops : List Op) (p : Nat) : Nat := (ops.length - p) + nEq (ops.drop (p + 1))

/-- the state of a pass: a valid script whose op at the pointer has the tag of the pass -/
structure St (E : Env) (o n o' n' : Nat) (which : Tag) (ops : List Op) (p : Nat) : Prop where
  walk : Walk (eqB E) o n ops o' n'
  nr : NoReplaceOp ops
  car : CarOK o 0 ops
  ptr : ∃ x, ops[p]? = some x ∧ x.tag = which

theorem walk_mono {e : Nat → Nat → Bool} {ops : List Op} {o n o' n' : Nat} (h : Walk e o n ops o' n') :
    o ≤ o' ∧ n ≤ n' := by
  have := walk_counts _ _ _ _ _ h; omega

theorem inBounds_sub {E : Env} {o o' n n' a b c d : Nat} (h : InBounds E o o' n n')
    (h1 : o ≤ a) (h2 : b ≤ o') (h3 : n ≤ c) (h4 : d ≤ n') : InBounds E a b c d :=
  fun i j hi1 hi2 hj1 hj2 => h i j (by omega) (by omega) (by omega) (by omega)

/-- everything the window `pre ++ a :: rest` of a valid state tells -/
theorem win_split {E : Env} {o n o' n' : Nat} {pre rest : List Op}
    (hw : Walk (eqB E) o n (pre ++ rest) o' n') (hc : CarOK o 0 (pre ++ rest)) :
    ∃ o1 n1, Walk (eqB E) o n pre o1 n1 ∧ Walk (eqB E) o1 n1 rest o' n' ∧ o ≤ o1 ∧ n ≤ n1 ∧
      CarOK o1 (nDel pre) rest ∧ nDel pre ≤ o1 := by
  obtain ⟨o1, n1, h1, h2⟩ := (Replace.walk_append _ _ _ _ _ _ _).1 hw
  have hcnt := walk_counts _ _ _ _ _ h1
  have := (carOK_append _ _ _ _).1 hc
  refine ⟨o1, n1, h1, h2, by omega, by omega, ?_, by omega⟩
  have h3 := this.2
  rw [← hcnt.1, Nat.zero_add] at h3
  exact h3

theorem noReplace_tag {ops : List Op} (h : NoReplaceOp ops) : ∀ (i : Nat) x, ops[i]? = some x → x.tag ≠ .replace := by
  induction ops with
  | nil => intro i x hx; simp at hx
  | cons c cs ih =>
    intro i x hx
    cases i with
    | zero => simp at hx; subst hx; cases c <;> simp [NoReplaceOp, Op.tag] at h ⊢
    | succ i => simp at hx; cases c <;> simp only [NoReplaceOp] at h <;> first | exact ih h i x hx | exact h.elim

theorem win_get0 (pre post : List Op) (a b : Op) : (pre ++ a :: b :: post)[pre.length]? = some a := by
  simp
theorem win_get1 (pre post : List Op) (a b : Op) : (pre ++ a :: b :: post)[pre.length + 1]? = some b := by
  simp [get_pre]
theorem win_get2 (pre post : List Op) (a b : Op) : (pre ++ a :: b :: post)[pre.length + 1 + 1]? = post[0]? := by
  rw [Nat.add_assoc, get_pre]; simp

theorem mU_at_pre (pre rest : List Op) : mU (pre ++ rest) pre.length = pre.length + nEq pre := by
  simp [mU]
theorem mU_at_pre1 (pre rest : List Op) (a : Op) :
    mU (pre ++ a :: rest) (pre.length + 1) = pre.length + 1 + nEq pre + nEq [a] := by
  simp only [mU, List.take_length_add_append, List.take_succ_cons, List.take_zero, Replace.nEq_append]; omega
theorem drop_pre1 (pre rest : List Op) (a : Op) : (pre ++ a :: rest).drop (pre.length + 1) = rest := by
  rw [List.drop_length_add_append]; rfl
theorem drop_pre2 (pre rest : List Op) (a b : Op) : (pre ++ a :: b :: rest).drop (pre.length + 1 + 1) = rest := by
  rw [Nat.add_assoc, List.drop_length_add_append]; rfl

theorem St.of_pres {E : Env} {r : Bool} {o n o' n' : Nat} {which : Tag} {pre post m m' : List Op} {p1 : Nat}
    (hp : Pres (eqB E) r m m') (hq : PresC (eqB E) m m')
    (hw : Walk (eqB E) o n (pre ++ (m ++ post)) o' n') (hnr : NoReplaceOp (pre ++ (m ++ post)))
    (hc : CarOK o 0 (pre ++ (m ++ post)))
    (hptr : ∃ x, (pre ++ (m' ++ post))[p1]? = some x ∧ x.tag = which) :
    St E o n o' n' which (pre ++ (m' ++ post)) p1 := by
  obtain ⟨a1, a2, -⟩ := hp.ctx pre post o n o' n' hw hnr
  exact ⟨a1, a2, (hq.ctx hp pre post) o n o' n' 0 hw hnr hc, hptr⟩

/-- normalises the list expression a model step produces on `pre ++ a :: b :: post` -/
local macro "norm_ops" : tactic =>
  `(tactic| simp only [get_pre, set_pre, erase_pre, insert_pre, get_pre0, set_pre0, erase_pre0, insert_pre0,
      Nat.add_sub_cancel, Nat.add_assoc, Nat.reduceAdd, Nat.zero_add, List.set_cons_zero, List.set_cons_succ,
      List.eraseIdx_cons_zero, List.eraseIdx_cons_succ, List.insertIdx_zero, List.insertIdx_succ_cons,
      List.getElem?_cons_zero, List.getElem?_cons_succ, List.cons_append, List.nil_append,
      Op.growRight, Op.addLen, Op.nLen, Op.oLen, Op.shiftRight])

theorem swap_tags (r : Bool) {a b : Op}
    (hab : (a.tag = .delete ∧ b.tag = .insert) ∨ (a.tag = .insert ∧ b.tag = .delete)) :
    (swapPair r a b).1.tag = b.tag ∧ (swapPair r a b).2.tag = a.tag := by
  cases a <;> cases b <;> simp [Op.tag] at hab <;> cases r <;> simp [swapPair, Op.tag]

theorem up_step (E : Env) (r : Bool) (o n o' n' : Nat) (which : Tag) (ops : List Op) (p : Nat) (w : World)
    (hb : InBounds E o o' n n') (hwh : which = .insert ∨ which = .delete) (hst : St E o n o' n' which ops p) :
    (∃ w', ∀ fuel, shiftUp E r (fuel + 1) ops p w = .ok (ops, p, w')) ∨
    (∃ ops1 p1 w1, (∀ fuel, shiftUp E r (fuel + 1) ops p w = shiftUp E r fuel ops1 p1 w1) ∧
      St E o n o' n' which ops1 p1 ∧ mU ops1 p1 < mU ops p ∧
      cw which (ops1.drop (p1 + 1)) ≤ cw which (ops.drop (p + 1))) := by
  obtain ⟨hw, hnr, hc, this, hthis, htag⟩ := hst
  obtain ⟨pre0, post, rfl, rfl⟩ := split_at hthis
  rcases List.eq_nil_or_concat pre0 with rfl | ⟨pre, prev, rfl⟩
  · left; exact ⟨w, fun fuel => by simp [shiftUp]⟩
  simp only [List.concat_eq_append, List.append_assoc, List.cons_append, List.nil_append, List.length_append,
    List.length_cons, List.length_nil, Nat.zero_add] at *
  clear hthis
  obtain ⟨o1, n1, hw1, hw2, ho1, hn1, hc2, hnd⟩ := win_split hw hc
  have hprevtag := noReplace_tag hnr pre.length prev (by simp)
  have hne : ¬ pre.length + 1 = 0 := by omega
  cases prev with
  | replace => simp [Op.tag] at hprevtag
  | insert po pn pl =>
    cases this with
    | insert co cn l =>
      right
      refine ⟨pre ++ ([.insert po pn (pl + l)] ++ post), pre.length, w, ?_, ?_, ?_, ?_⟩
      · intro fuel
        simp only [shiftUp, hne, if_false, Nat.add_sub_cancel, win_get0, win_get1, opAt, Op.tag]
        norm_ops
      · exact St.of_pres (pres_merge_ins (eqB E) r po pn pl co cn l) (presC_merge_ins _ po pn pl co cn l) hw hnr hc
          ⟨_, by norm_ops; rfl, by simpa [Op.tag] using htag⟩
      · rw [mU_at_pre, mU_at_pre1]; omega
      · simp only [List.cons_append, List.nil_append, drop_pre1, drop_pre2, cw]; omega
    | delete co l cn =>
      right
      have hab : ((Op.insert po pn pl).tag = .delete ∧ (Op.delete co l cn).tag = .insert) ∨
          ((Op.insert po pn pl).tag = .insert ∧ (Op.delete co l cn).tag = .delete) := by simp [Op.tag]
      obtain ⟨hx, hy⟩ := swap_tags r hab
      refine ⟨pre ++ ([(swapPair r (.insert po pn pl) (.delete co l cn)).1,
        (swapPair r (.insert po pn pl) (.delete co l cn)).2] ++ post), pre.length, w, ?_, ?_, ?_, ?_⟩
      · intro fuel
        simp only [shiftUp, hne, if_false, Nat.add_sub_cancel, win_get0, win_get1, opAt, Op.tag]
        norm_ops
      · exact St.of_pres (pres_swap (eqB E) r _ _ hab) (presC_swap _ r _ _ hab) hw hnr hc
          ⟨_, by norm_ops; rfl, by rw [hx]; exact htag⟩
      · rw [mU_at_pre, mU_at_pre1]; omega
      · have hy' : (swapPair r (.insert po pn pl) (.delete co l cn)).2.tag = .insert := hy
        obtain rfl : which = .delete := htag.symm
        simp only [List.cons_append, List.nil_append, drop_pre1, drop_pre2, cw, hy']
        simp
    | equal => rcases hwh with rfl | rfl <;> simp [Op.tag] at htag
    | replace => rcases hwh with rfl | rfl <;> simp [Op.tag] at htag
  | delete po pl pn =>
    cases this with
    | delete co l cn =>
      right
      refine ⟨pre ++ ([.delete po (pl + l) pn] ++ post), pre.length, w, ?_, ?_, ?_, ?_⟩
      · intro fuel
        simp only [shiftUp, hne, if_false, Nat.add_sub_cancel, win_get0, win_get1, opAt, Op.tag]
        norm_ops
      · exact St.of_pres (pres_merge_del (eqB E) r po pl pn co l cn) (presC_merge_del _ po pl pn co l cn) hw hnr hc
          ⟨_, by norm_ops; rfl, by simpa [Op.tag] using htag⟩
      · rw [mU_at_pre, mU_at_pre1]; omega
      · simp only [List.cons_append, List.nil_append, drop_pre1, drop_pre2, cw]; omega
    | insert co cn l =>
      right
      have hab : ((Op.delete po pl pn).tag = .delete ∧ (Op.insert co cn l).tag = .insert) ∨
          ((Op.delete po pl pn).tag = .insert ∧ (Op.insert co cn l).tag = .delete) := by simp [Op.tag]
      obtain ⟨hx, hy⟩ := swap_tags r hab
      refine ⟨pre ++ ([(swapPair r (.delete po pl pn) (.insert co cn l)).1,
        (swapPair r (.delete po pl pn) (.insert co cn l)).2] ++ post), pre.length, w, ?_, ?_, ?_, ?_⟩
      · intro fuel
        simp only [shiftUp, hne, if_false, Nat.add_sub_cancel, win_get0, win_get1, opAt, Op.tag]
        norm_ops
      · exact St.of_pres (pres_swap (eqB E) r _ _ hab) (presC_swap _ r _ _ hab) hw hnr hc
          ⟨_, by norm_ops; rfl, by rw [hx]; exact htag⟩
      · rw [mU_at_pre, mU_at_pre1]; omega
      · have hy' : (swapPair r (.delete po pl pn) (.insert co cn l)).2.tag = .delete := hy
        obtain rfl : which = .insert := htag.symm
        simp only [List.cons_append, List.nil_append, drop_pre1, drop_pre2, cw, hy']
        simp
    | equal => rcases hwh with rfl | rfl <;> simp [Op.tag] at htag
    | replace => rcases hwh with rfl | rfl <;> simp [Op.tag] at htag
  | equal po pn pl =>
    have hpl : (Op.equal po pn pl).isEmpty = false := by
      simp only [Walk] at hw2
      have : pl ≠ 0 := by omega
      simpa [Op.isEmpty, Op.oLen, Op.nLen] using this
    cases this with
    | equal => rcases hwh with rfl | rfl <;> simp [Op.tag] at htag
    | replace => rcases hwh with rfl | rfl <;> simp [Op.tag] at htag
    | delete co l cn =>
      left
      refine ⟨w, fun fuel => ?_⟩
      simp only [shiftUp, hne, if_false, Nat.add_sub_cancel, win_get0, win_get1, opAt, Op.tag, Op.oStart, Op.oEnd,
        Op.nStart, Op.nEnd, Op.nLen, Nat.add_zero, csl_same, Nat.lt_irrefl, hpl, Bool.false_eq_true]
    | insert co cn l =>
      simp only [Walk] at hw2
      obtain ⟨rfl, rfl, hpl0, heq, rfl, hl0, hw3⟩ := hw2
      have hm3 := walk_mono hw3
      obtain ⟨sl, w1, hs⟩ := commonSuffixLen_total (E := E) (os := po) (oe := po + pl) (ns := pn + pl)
        (ne := pn + pl + l) w (inBounds_sub hb ho1 (by omega) (by omega) (by omega))
      obtain ⟨hs1, hs2, hs3, -, -⟩ := commonSuffixLen_spec hs
      by_cases hsl : 0 < sl
      · have hco : sl ≤ co := by
          simp only [CarOK] at hc2
          omega
        right
        have hSL : (Op.insert co (pn + pl) l).shiftLeft sl = .ok (.insert (co - sl) (pn + pl - sl) l) :=
          shiftLeft_insert_ok.2 ⟨hco, by omega, rfl⟩
        have hSH : (Op.equal po pn pl).shrinkLeft sl = .ok (.equal po pn (pl - sl)) :=
          shrinkLeft_equal_ok.2 ⟨by omega, rfl⟩
        have hc1 : csub (po + pl) sl = .ok (po + pl - sl) := csub_ok.2 ⟨by omega, rfl⟩
        have hc2' : csub (pn + pl + l) sl = .ok (pn + pl + l - sl) := csub_ok.2 ⟨by omega, rfl⟩
        have htagI : (Op.insert (co - sl) (pn + pl - sl) l).tag = which := by simpa [Op.tag] using htag
        have other : (∀ o2 n2 l2 post', post ≠ .equal o2 n2 l2 :: post') →
            ∃ ops1 p1 w1, (∀ fuel, shiftUp E r (fuel + 1) (pre ++ Op.equal po pn pl :: Op.insert co (pn + pl) l :: post)
                (pre.length + 1) w = shiftUp E r fuel ops1 p1 w1) ∧
              St E o n o' n' which ops1 p1 ∧
              mU ops1 p1 < mU (pre ++ Op.equal po pn pl :: Op.insert co (pn + pl) l :: post) (pre.length + 1) ∧
              cw which (ops1.drop (p1 + 1)) ≤
                cw which ((pre ++ Op.equal po pn pl :: Op.insert co (pn + pl) l :: post).drop (pre.length + 1 + 1)) := by
          intro hne2
          have hP := (pres_up_end (eqB E) r po pn pl co (pn + pl) l sl hsl (by omega) (by omega) (by simpa using hs3))
          have hQ := presC_up_end (eqB E) po pn pl co (pn + pl) l sl (by omega) hco
          have hw' : Walk (eqB E) o n (pre ++ ([Op.equal po pn pl, Op.insert co (pn + pl) l] ++ post)) o' n' := hw
          by_cases hv : pl - sl = 0
          · refine ⟨pre ++ ((optEq po pn (pl - sl) ++ [.insert (co - sl) (pn + pl - sl) l,
                .equal (po + pl - sl) (pn + pl + l - sl) sl]) ++ post), pre.length, w1, ?_, ?_, ?_, ?_⟩
            · intro fuel
              cases post with
              | nil =>
                simp only [shiftUp, hne, if_false, Nat.add_sub_cancel, win_get0, win_get1, win_get2, opAt, Op.tag,
                  Op.oStart, Op.oEnd, Op.nStart, Op.nEnd, Op.nLen, Op.oLen, hs, hsl, if_true,
                  List.getElem?_nil, hc1, hc2', hSL, hSH, isEmpty_equal, hv, optEq_zero]
                norm_ops
              | cons nx post' =>
                cases nx <;> first
                  | exact absurd rfl (hne2 _ _ _ _)
                  | (simp only [shiftUp, hne, if_false, Nat.add_sub_cancel, win_get0, win_get1, win_get2, opAt, Op.tag,
                      Op.oStart, Op.oEnd, Op.nStart, Op.nEnd, Op.nLen, Op.oLen, hs, hsl, if_true,
                      List.getElem?_cons_zero, hc1, hc2', hSL, hSH, isEmpty_equal, hv, optEq_zero]
                     norm_ops)
            · exact St.of_pres hP hQ hw' hnr hc ⟨_, by rw [hv, optEq_zero]; norm_ops, htagI⟩
            · rw [mU_at_pre, mU_at_pre1]; omega
            · simp only [hv, optEq_zero, List.cons_append, List.nil_append, drop_pre1, drop_pre2, cw, Op.tag]
              rcases hwh with rfl | rfl <;> simp
          · refine ⟨pre ++ ((optEq po pn (pl - sl) ++ [.insert (co - sl) (pn + pl - sl) l,
                .equal (po + pl - sl) (pn + pl + l - sl) sl]) ++ post), pre.length + 1, w1, ?_, ?_, ?_, ?_⟩
            · intro fuel
              cases post with
              | nil =>
                simp only [shiftUp, hne, if_false, Nat.add_sub_cancel, win_get0, win_get1, win_get2, opAt, Op.tag,
                  Op.oStart, Op.oEnd, Op.nStart, Op.nEnd, Op.nLen, Op.oLen, hs, hsl, if_true,
                  List.getElem?_nil, hc1, hc2', hSL, hSH, isEmpty_equal, hv, optEq_pos hv]
                norm_ops
              | cons nx post' =>
                cases nx <;> first
                  | exact absurd rfl (hne2 _ _ _ _)
                  | (simp only [shiftUp, hne, if_false, Nat.add_sub_cancel, win_get0, win_get1, win_get2, opAt, Op.tag,
                      Op.oStart, Op.oEnd, Op.nStart, Op.nEnd, Op.nLen, Op.oLen, hs, hsl, if_true,
                      List.getElem?_cons_zero, hc1, hc2', hSL, hSH, isEmpty_equal, hv, optEq_pos hv]
                     norm_ops)
            · exact St.of_pres hP hQ hw' hnr hc ⟨_, by rw [optEq_pos hv]; norm_ops, htagI⟩
            · rw [optEq_pos hv]; simp only [List.cons_append, List.nil_append]
              rw [mU_at_pre1, mU_at_pre1]; simp only [nEq]; omega
            · simp only [optEq_pos hv, List.cons_append, List.nil_append, drop_pre1, drop_pre2, cw, Op.tag]
              rcases hwh with rfl | rfl <;> simp
        cases post with
        | cons nx post' =>
          cases nx with
          | equal o2 n2 l2 =>
            simp only [Walk] at hw3
            obtain ⟨rfl, rfl, -⟩ := hw3
            have hG : (Op.equal (po + pl) (pn + pl + l) l2).growLeft sl =
                .ok (.equal (po + pl - sl) (pn + pl + l - sl) (l2 + sl)) :=
              growLeft_equal_ok.2 ⟨by omega, by omega, rfl⟩
            have hP := pres_up_next (eqB E) r po pn pl co (pn + pl) l (po + pl) (pn + pl + l) l2 sl (by omega) (by omega)
              (by simpa using hs3)
            have hQ := presC_up_next (eqB E) po pn pl co (pn + pl) l (po + pl) (pn + pl + l) l2 sl (by omega) hco
            by_cases hv : pl - sl = 0
            · refine ⟨pre ++ ((optEq po pn (pl - sl) ++ [.insert (co - sl) (pn + pl - sl) l,
                  .equal (po + pl - sl) (pn + pl + l - sl) (l2 + sl)]) ++ post'), pre.length, w1, ?_, ?_, ?_, ?_⟩
              · intro fuel
                simp only [shiftUp, hne, if_false, Nat.add_sub_cancel, win_get0, win_get1, win_get2, opAt, Op.tag,
                  Op.oStart, Op.oEnd, Op.nStart, Op.nEnd, Op.nLen, Op.oLen, hs, hsl, if_true,
                  List.getElem?_cons_zero, hG, Except.map, hSL, hSH, isEmpty_equal, hv, optEq_zero]
                norm_ops
              · exact St.of_pres hP hQ hw hnr hc ⟨_, by rw [hv, optEq_zero]; norm_ops, htagI⟩
              · rw [mU_at_pre, mU_at_pre1]; omega
              · simp only [hv, optEq_zero, List.cons_append, List.nil_append, drop_pre1, drop_pre2, cw, Op.tag]
                rcases hwh with rfl | rfl <;> simp
            · refine ⟨pre ++ ((optEq po pn (pl - sl) ++ [.insert (co - sl) (pn + pl - sl) l,
                  .equal (po + pl - sl) (pn + pl + l - sl) (l2 + sl)]) ++ post'), pre.length + 1, w1, ?_, ?_, ?_, ?_⟩
              · intro fuel
                simp only [shiftUp, hne, if_false, Nat.add_sub_cancel, win_get0, win_get1, win_get2, opAt, Op.tag,
                  Op.oStart, Op.oEnd, Op.nStart, Op.nEnd, Op.nLen, Op.oLen, hs, hsl, if_true,
                  List.getElem?_cons_zero, hG, Except.map, hSL, hSH, isEmpty_equal, hv, optEq_pos hv]
                norm_ops
              · exact St.of_pres hP hQ hw hnr hc ⟨_, by rw [optEq_pos hv]; norm_ops, htagI⟩
              · rw [optEq_pos hv]; simp only [List.cons_append, List.nil_append]
                rw [mU_at_pre1, mU_at_pre1]; simp only [nEq]; omega
              · simp only [optEq_pos hv, List.cons_append, List.nil_append, drop_pre1, drop_pre2, cw, Op.tag]
                rcases hwh with rfl | rfl <;> simp
          | _ => exact other (by intro _ _ _ _ h; cases h)
        | nil => exact other (by intro _ _ _ _ h; cases h)
      · left
        refine ⟨w1, fun fuel => ?_⟩
        simp only [shiftUp, hne, if_false, Nat.add_sub_cancel, win_get0, win_get1, opAt, Op.tag, Op.oStart, Op.oEnd,
          Op.nStart, Op.nEnd, Op.nLen, Op.oLen, hs, hsl, hpl, Bool.false_eq_true]

theorem mD_at (pre rest : List Op) (a : Op) : mD (pre ++ a :: rest) pre.length = rest.length + 1 + nEq rest := by
  simp only [mD, drop_pre1, List.length_append, List.length_cons]; omega
theorem mD_at1 (pre rest : List Op) (a b : Op) :
    mD (pre ++ a :: b :: rest) (pre.length + 1) = rest.length + 1 + nEq rest := by
  simp only [mD, drop_pre2, List.length_append, List.length_cons]; omega
theorem cw_optEq (t : Tag) (ht : t ≠ .equal) (o n k : Nat) (rest : List Op) :
    cw t (optEq o n k ++ rest) = cw t rest := by
  by_cases hk : k = 0
  · simp [optEq, hk]
  · simp [optEq, hk, cw, Op.tag, Ne.symm ht]
theorem length_optEq_le (o n k : Nat) : (optEq o n k).length ≤ 1 := by
  by_cases hk : k = 0 <;> simp [optEq, hk]

theorem win3_get2 (pre post : List Op) (a b c : Op) : (pre ++ a :: b :: c :: post)[pre.length + 1 + 1]? = some c := by
  rw [Nat.add_assoc, get_pre]; simp

theorem down_step (E : Env) (r : Bool) (o n o' n' : Nat) (which : Tag) (ops : List Op) (p : Nat) (w : World)
    (hb : InBounds E o o' n n') (hwh : which = .insert ∨ which = .delete) (hst : St E o n o' n' which ops p) :
    (∃ w', ∀ fuel, shiftDown E r (fuel + 1) ops p w = .ok (ops, p, w')) ∨
    (∃ ops1 p1 w1, (∀ fuel, shiftDown E r (fuel + 1) ops p w = shiftDown E r fuel ops1 p1 w1) ∧
      St E o n o' n' which ops1 p1 ∧ mD ops1 p1 < mD ops p ∧
      cw which (ops1.drop (p1 + 1)) ≤ cw which (ops.drop (p + 1))) := by
  obtain ⟨hw, hnr, hc, this, hthis, htag⟩ := hst
  obtain ⟨pre, post0, rfl, rfl⟩ := split_at hthis
  clear hthis
  cases post0 with
  | nil => left; exact ⟨w, fun fuel => by simp [shiftDown]⟩
  | cons next post =>
  obtain ⟨o1, n1, hw1, hw2, ho1, hn1, hc2, hnd⟩ := win_split hw hc
  have hnexttag := noReplace_tag hnr (pre.length + 1) next (by simp [get_pre])
  cases next with
  | replace => simp [Op.tag] at hnexttag
  | insert o2 n2 l2 =>
    cases this with
    | insert co cn l =>
      right
      refine ⟨pre ++ ([.insert co cn (l + l2)] ++ post), pre.length, w, ?_, ?_, ?_, ?_⟩
      · intro fuel
        simp only [shiftDown, win_get0, win_get1, opAt, Op.tag]
        norm_ops
      · exact St.of_pres (pres_merge_ins (eqB E) r co cn l o2 n2 l2) (presC_merge_ins _ co cn l o2 n2 l2) hw hnr hc
          ⟨_, by norm_ops; rfl, by simpa [Op.tag] using htag⟩
      · simp only [List.cons_append, List.nil_append]; rw [mD_at, mD_at]; simp [nEq]
      · simp only [List.cons_append, List.nil_append, drop_pre1, cw]; omega
    | delete co l cn =>
      right
      have hab : ((Op.delete co l cn).tag = .delete ∧ (Op.insert o2 n2 l2).tag = .insert) ∨
          ((Op.delete co l cn).tag = .insert ∧ (Op.insert o2 n2 l2).tag = .delete) := by simp [Op.tag]
      obtain ⟨hx, hy⟩ := swap_tags r hab
      refine ⟨pre ++ ([(swapPair r (.delete co l cn) (.insert o2 n2 l2)).1,
        (swapPair r (.delete co l cn) (.insert o2 n2 l2)).2] ++ post), pre.length + 1, w, ?_, ?_, ?_, ?_⟩
      · intro fuel
        simp only [shiftDown, win_get0, win_get1, opAt, Op.tag]
        norm_ops
      · exact St.of_pres (pres_swap (eqB E) r _ _ hab) (presC_swap _ r _ _ hab) hw hnr hc
          ⟨_, by norm_ops; rfl, by rw [hy]; exact htag⟩
      · simp only [List.cons_append, List.nil_append]; rw [mD_at, mD_at1]; simp [nEq]
      · simp only [List.cons_append, List.nil_append, drop_pre1, drop_pre2, cw]; omega
    | equal => rcases hwh with rfl | rfl <;> simp [Op.tag] at htag
    | replace => rcases hwh with rfl | rfl <;> simp [Op.tag] at htag
  | delete o2 l2 n2 =>
    cases this with
    | delete co l cn =>
      right
      refine ⟨pre ++ ([.delete co (l + l2) cn] ++ post), pre.length, w, ?_, ?_, ?_, ?_⟩
      · intro fuel
        simp only [shiftDown, win_get0, win_get1, opAt, Op.tag]
        norm_ops
      · exact St.of_pres (pres_merge_del (eqB E) r co l cn o2 l2 n2) (presC_merge_del _ co l cn o2 l2 n2) hw hnr hc
          ⟨_, by norm_ops; rfl, by simpa [Op.tag] using htag⟩
      · simp only [List.cons_append, List.nil_append]; rw [mD_at, mD_at]; simp [nEq]
      · simp only [List.cons_append, List.nil_append, drop_pre1, cw]; omega
    | insert co cn l =>
      right
      have hab : ((Op.insert co cn l).tag = .delete ∧ (Op.delete o2 l2 n2).tag = .insert) ∨
          ((Op.insert co cn l).tag = .insert ∧ (Op.delete o2 l2 n2).tag = .delete) := by simp [Op.tag]
      obtain ⟨hx, hy⟩ := swap_tags r hab
      refine ⟨pre ++ ([(swapPair r (.insert co cn l) (.delete o2 l2 n2)).1,
        (swapPair r (.insert co cn l) (.delete o2 l2 n2)).2] ++ post), pre.length + 1, w, ?_, ?_, ?_, ?_⟩
      · intro fuel
        simp only [shiftDown, win_get0, win_get1, opAt, Op.tag]
        norm_ops
      · exact St.of_pres (pres_swap (eqB E) r _ _ hab) (presC_swap _ r _ _ hab) hw hnr hc
          ⟨_, by norm_ops; rfl, by rw [hy]; exact htag⟩
      · simp only [List.cons_append, List.nil_append]; rw [mD_at, mD_at1]; simp [nEq]
      · simp only [List.cons_append, List.nil_append, drop_pre1, drop_pre2, cw]; omega
    | equal => rcases hwh with rfl | rfl <;> simp [Op.tag] at htag
    | replace => rcases hwh with rfl | rfl <;> simp [Op.tag] at htag
  | equal o2 n2 l2 =>
    have hl2 : (Op.equal o2 n2 l2).isEmpty = false := by
      have hw2' := hw2
      cases this <;> simp only [Walk] at hw2' <;>
        (have : l2 ≠ 0 := by omega) <;> simpa [Op.isEmpty, Op.oLen, Op.nLen] using this
    cases this with
    | equal => rcases hwh with rfl | rfl <;> simp [Op.tag] at htag
    | replace => rcases hwh with rfl | rfl <;> simp [Op.tag] at htag
    | delete co l cn =>
      left
      refine ⟨w, fun fuel => ?_⟩
      simp only [shiftDown, win_get0, win_get1, opAt, Op.tag, Op.oStart, Op.oEnd,
        Op.nStart, Op.nEnd, Op.nLen, Nat.add_zero, cpl_same, Nat.lt_irrefl, hl2, Bool.false_eq_true, if_false]
    | insert co cn l =>
      simp only [Walk] at hw2
      obtain ⟨rfl, hl0, rfl, rfl, hl20, heq, hw3⟩ := hw2
      have hm3 := walk_mono hw3
      obtain ⟨pl, w1, hs⟩ := commonPrefixLen_total (E := E) (os := o2) (oe := o2 + l2) (ns := cn)
        (ne := cn + l) w (inBounds_sub hb ho1 (by omega) (by omega) (by omega))
      obtain ⟨hs1, hs2, hs3, -, -⟩ := commonPrefixLen_spec hs
      by_cases hpl : 0 < pl
      · right
        have hSR : (Op.equal o2 (cn + l) l2).shrinkRight pl = .ok (.equal (o2 + pl) (cn + l + pl) (l2 - pl)) :=
          shrinkRight_equal_ok.2 ⟨by omega, rfl⟩
        have htagI : (Op.insert (co + pl) (cn + pl) l).tag = which := by simpa [Op.tag] using htag
        have hwne : which ≠ .equal := by rcases hwh with rfl | rfl <;> simp
        have noprev : (∀ fuel, shiftDown E r (fuel + 1) (pre ++ Op.insert co cn l :: Op.equal o2 (cn + l) l2 :: post)
              pre.length w = shiftDown E r fuel (pre ++ (([.equal o2 cn pl, .insert (co + pl) (cn + pl) l] ++
                optEq (o2 + pl) (cn + l + pl) (l2 - pl)) ++ post)) (pre.length + 1) w1) →
            ∃ ops1 p1 w1, (∀ fuel, shiftDown E r (fuel + 1) (pre ++ Op.insert co cn l :: Op.equal o2 (cn + l) l2 :: post)
                pre.length w = shiftDown E r fuel ops1 p1 w1) ∧
              St E o n o' n' which ops1 p1 ∧
              mD ops1 p1 < mD (pre ++ Op.insert co cn l :: Op.equal o2 (cn + l) l2 :: post) pre.length ∧
              cw which (ops1.drop (p1 + 1)) ≤
                cw which ((pre ++ Op.insert co cn l :: Op.equal o2 (cn + l) l2 :: post).drop (pre.length + 1)) := by
          intro heqn
          refine ⟨_, _, _, heqn, ?_, ?_, ?_⟩
          · exact St.of_pres (pres_down_noprev (eqB E) r co cn l o2 (cn + l) l2 pl hpl (by omega) hs3)
              (presC_down_noprev (eqB E) co cn l o2 (cn + l) l2 pl) hw hnr hc
              ⟨_, by simp only [List.cons_append, List.nil_append, get_pre, List.getElem?_cons_succ,
                  List.getElem?_cons_zero], htagI⟩
          · simp only [List.cons_append, List.nil_append, List.append_assoc]
            rw [mD_at, mD_at1]
            have := length_optEq_le (o2 + pl) (cn + l + pl) (l2 - pl)
            simp only [List.length_append, List.length_cons, Replace.nEq_append, nEq_optEq_nil, nEq]
            omega
          · simp only [List.cons_append, List.nil_append, List.append_assoc, drop_pre1, drop_pre2, cw_optEq _ hwne, cw]
            omega
        rcases List.eq_nil_or_concat pre with rfl | ⟨pre', q, rfl⟩
        · apply noprev
          intro fuel
          simp only [shiftDown, List.nil_append, List.length_nil, opAt, Op.tag, Op.oStart, Op.oEnd,
            Op.nStart, Op.nEnd, Op.nLen, Op.oLen, hs, hpl, if_true, List.getElem?_cons_zero, List.getElem?_cons_succ,
            Nat.zero_add, Bool.false_eq_true, if_false, List.insertIdx_zero, Nat.reduceAdd, hSR, isEmpty_equal]
          by_cases hv : l2 - pl = 0
          · simp only [hv, if_true, optEq_zero]; norm_ops
          · simp only [hv, if_false, optEq_pos hv]; norm_ops
        · simp only [List.concat_eq_append, List.append_assoc, List.cons_append, List.nil_append, List.length_append,
            List.length_cons, List.length_nil, Nat.zero_add] at *
          have hqtag := noReplace_tag hnr pre'.length q (by simp)
          have hne : ¬ pre'.length + 1 = 0 := by omega
          cases q with
          | replace => simp [Op.tag] at hqtag
          | equal qo qn ql =>
            refine ⟨pre' ++ (([.equal qo qn (ql + pl), .insert (co + pl) (cn + pl) l] ++
              optEq (o2 + pl) (cn + l + pl) (l2 - pl)) ++ post), pre'.length + 1, w1, ?_, ?_, ?_, ?_⟩
            · intro fuel
              simp only [shiftDown, win_get0, win_get1, win3_get2, opAt, Op.tag, Op.oStart, Op.oEnd,
                Op.nStart, Op.nEnd, Op.nLen, Op.oLen, hs, hpl, if_true, hne, if_false, Nat.add_sub_cancel]
              simp only [set_pre0, set_pre, List.set_cons_zero, List.set_cons_succ, Nat.add_assoc, Nat.reduceAdd,
                get_pre, List.getElem?_cons_succ, List.getElem?_cons_zero, hSR, isEmpty_equal]
              by_cases hv : l2 - pl = 0
              · simp only [hv, if_true, optEq_zero]; norm_ops
              · simp only [hv, if_false, optEq_pos hv]; norm_ops
            · exact St.of_pres (pres_down_prev (eqB E) r qo qn ql co cn l o2 (cn + l) l2 pl (by omega) hs3)
                (presC_down_prev (eqB E) qo qn ql co cn l o2 (cn + l) l2 pl) hw hnr hc
                ⟨_, by simp only [List.cons_append, List.nil_append, get_pre, List.getElem?_cons_succ,
                    List.getElem?_cons_zero], htagI⟩
            · simp only [List.cons_append, List.nil_append, List.append_assoc]
              rw [mD_at1, mD_at1]
              have := length_optEq_le (o2 + pl) (cn + l + pl) (l2 - pl)
              simp only [List.length_append, List.length_cons, Replace.nEq_append, nEq_optEq_nil, nEq]
              omega
            · simp only [List.cons_append, List.nil_append, List.append_assoc, drop_pre1, drop_pre2, cw_optEq _ hwne, cw]
              omega
          | delete qo ql qn =>
            apply noprev
            intro fuel
            simp only [shiftDown, win_get0, win_get1, win3_get2, opAt, Op.tag, Op.oStart, Op.oEnd,
              Op.nStart, Op.nEnd, Op.nLen, Op.oLen, hs, hpl, if_true, hne, if_false, Nat.add_sub_cancel,
              Bool.false_eq_true]
            simp only [insert_pre, List.insertIdx_succ_cons, List.insertIdx_zero, Nat.add_assoc, Nat.reduceAdd,
              get_pre, List.getElem?_cons_succ, List.getElem?_cons_zero, hSR, isEmpty_equal]
            by_cases hv : l2 - pl = 0
            · simp only [hv, if_true, optEq_zero]; norm_ops
            · simp only [hv, if_false, optEq_pos hv]; norm_ops
          | insert qo qn ql =>
            apply noprev
            intro fuel
            simp only [shiftDown, win_get0, win_get1, win3_get2, opAt, Op.tag, Op.oStart, Op.oEnd,
              Op.nStart, Op.nEnd, Op.nLen, Op.oLen, hs, hpl, if_true, hne, if_false, Nat.add_sub_cancel,
              Bool.false_eq_true]
            simp only [insert_pre, List.insertIdx_succ_cons, List.insertIdx_zero, Nat.add_assoc, Nat.reduceAdd,
              get_pre, List.getElem?_cons_succ, List.getElem?_cons_zero, hSR, isEmpty_equal]
            by_cases hv : l2 - pl = 0
            · simp only [hv, if_true, optEq_zero]; norm_ops
            · simp only [hv, if_false, optEq_pos hv]; norm_ops
      · left
        refine ⟨w1, fun fuel => ?_⟩
        simp only [shiftDown, win_get0, win_get1, opAt, Op.tag, Op.oStart, Op.oEnd,
          Op.nStart, Op.nEnd, Op.nLen, Op.oLen, hs, hpl, hl2, Bool.false_eq_true, if_false]

/-! ## (E)+(F) totality of the loops, of a pass, of `cleanup_diff_ops` -/

/-- `shift_diff_ops_up` returns normally from every valid state when the fuel exceeds the measure -/
theorem shiftUp_total (E : Env) (r : Bool) (o n o' n' : Nat) (which : Tag)
    (hb : InBounds E o o' n n') (hwh : which = .insert ∨ which = .delete) :
    ∀ (fuel : Nat) (ops : List Op) (p : Nat) (w : World), St E o n o' n' which ops p → mU ops p < fuel →
      ∃ ops' p' w', shiftUp E r fuel ops p w = .ok (ops', p', w') ∧ St E o n o' n' which ops' p' ∧
        cw which (ops'.drop (p' + 1)) ≤ cw which (ops.drop (p + 1)) := by
  intro fuel
  induction fuel with
  | zero => intro ops p w _ h; omega
  | succ fuel ih =>
    intro ops p w hst hm
    rcases up_step E r o n o' n' which ops p w hb hwh hst with ⟨w', h⟩ | ⟨ops1, p1, w1, h, hst1, hm1, hc1⟩
    · exact ⟨ops, p, w', h fuel, hst, Nat.le_refl _⟩
    · obtain ⟨ops', p', w', h2, hst2, hc2⟩ := ih ops1 p1 w1 hst1 (by omega)
      exact ⟨ops', p', w', by rw [h fuel]; exact h2, hst2, Nat.le_trans hc2 hc1⟩

theorem shiftDown_total (E : Env) (r : Bool) (o n o' n' : Nat) (which : Tag)
    (hb : InBounds E o o' n n') (hwh : which = .insert ∨ which = .delete) :
    ∀ (fuel : Nat) (ops : List Op) (p : Nat) (w : World), St E o n o' n' which ops p → mD ops p < fuel →
      ∃ ops' p' w', shiftDown E r fuel ops p w = .ok (ops', p', w') ∧ St E o n o' n' which ops' p' ∧
        cw which (ops'.drop (p' + 1)) ≤ cw which (ops.drop (p + 1)) := by
  intro fuel
  induction fuel with
  | zero => intro ops p w _ h; omega
  | succ fuel ih =>
    intro ops p w hst hm
    rcases down_step E r o n o' n' which ops p w hb hwh hst with ⟨w', h⟩ | ⟨ops1, p1, w1, h, hst1, hm1, hc1⟩
    · exact ⟨ops, p, w', h fuel, hst, Nat.le_refl _⟩
    · obtain ⟨ops', p', w', h2, hst2, hc2⟩ := ih ops1 p1 w1 hst1 (by omega)
      exact ⟨ops', p', w', by rw [h fuel]; exact h2, hst2, Nat.le_trans hc2 hc1⟩

/-! ### size bounds -/

theorem walk_length_le {e : Nat → Nat → Bool} : ∀ (ops : List Op) (o n o' n' : Nat), Walk e o n ops o' n' →
    ops.length ≤ nDel ops + nIns ops + nEq ops := by
  intro ops
  induction ops with
  | nil => intro _ _ _ _ _; simp
  | cons c cs ih =>
    intro o n o' n' h
    cases c <;> simp only [Walk] at h <;> simp only [List.length_cons, nDel, nIns, nEq]
    · have := ih _ _ _ _ h.2.2.2.2; omega
    · have := ih _ _ _ _ h.2.2; omega
    · have := ih _ _ _ _ h.2.2; omega
    · have := ih _ _ _ _ h.2.2.2.2; omega

theorem nEq_take_le (ops : List Op) (p : Nat) : nEq (ops.take p) ≤ nEq ops := by
  conv => rhs; rw [← List.take_append_drop p ops, Replace.nEq_append]
  omega
theorem nEq_drop_le (ops : List Op) (p : Nat) : nEq (ops.drop p) ≤ nEq ops := by
  conv => rhs; rw [← List.take_append_drop p ops, Replace.nEq_append]
  omega
theorem cw_le_length (t : Tag) : ∀ (l : List Op), cw t l ≤ l.length := by
  intro l
  induction l with
  | nil => simp [cw]
  | cons a l ih => simp only [cw, List.length_cons]; split <;> omega

/-- the span `L = (o'-o)+(n'-n)` of the walk bounds the list length and both loop measures -/
theorem st_bounds {E : Env} {o n o' n' : Nat} {which : Tag} {ops : List Op} {p : Nat}
    (h : St E o n o' n' which ops p) :
    ops.length ≤ (o' - o) + (n' - n) ∧ mU ops p ≤ 2 * ((o' - o) + (n' - n)) ∧ mD ops p ≤ 2 * ((o' - o) + (n' - n)) ∧
      p < ops.length := by
  have h1 := walk_counts _ _ _ _ _ h.walk
  have h2 := walk_length_le _ _ _ _ _ h.walk
  have h3 := nEq_take_le ops p
  have h4 := nEq_drop_le ops (p + 1)
  obtain ⟨x, hx, -⟩ := h.ptr
  have h5 : p < ops.length := by
    rcases Nat.lt_or_ge p ops.length with h | h
    · exact h
    · rw [List.getElem?_eq_none h] at hx; cases hx
  refine ⟨by omega, ?_, ?_, h5⟩
  · simp only [mU]; omega
  · simp only [mD]; omega

theorem om_lt {c c' x x' K : Nat} (hc : c' + 1 ≤ c) (hx : x' < K) : c' * K + x' < c * K + x := by
  have h1 : (c' + 1) * K ≤ c * K := Nat.mul_le_mul_right K hc
  rw [Nat.add_mul, Nat.one_mul] at h1
  omega

theorem cw_drop_of_get {t : Tag} {ops : List Op} {p : Nat} {op : Op} (h : ops[p]? = some op) :
    cw t (ops.drop p) = (if op.tag = t then 1 else 0) + cw t (ops.drop (p + 1)) := by
  obtain ⟨hp, rfl⟩ := List.getElem?_eq_some_iff.1 h
  rw [List.drop_eq_getElem_cons hp]; rfl

/-- a valid script for the passes of `cleanup_diff_ops` -/
structure PV (E : Env) (o n o' n' : Nat) (ops : List Op) : Prop where
  walk : Walk (eqB E) o n ops o' n'
  nr : NoReplaceOp ops
  car : CarOK o 0 ops

/-- one pass of `cleanup_diff_ops` returns normally on every valid script, for explicit sufficient fuels:
inner loops `> 2L`, outer loop `> c·(L+1) + (length − pointer)` with `L` the span of the walk and `c` the
number of ops of the pass's kind from the pointer on. -/
theorem cleanupPass_total (E : Env) (r : Bool) (o n o' n' : Nat) (which : Tag) (inner : Nat)
    (hb : InBounds E o o' n n') (hwh : which = .insert ∨ which = .delete)
    (hin : 2 * ((o' - o) + (n' - n)) < inner) :
    ∀ (fuel : Nat) (ops : List Op) (p : Nat) (w : World), PV E o n o' n' ops →
      cw which (ops.drop p) * ((o' - o) + (n' - n) + 1) + (ops.length - p) < fuel →
      ∃ ops' w', cleanupPass E r which inner fuel ops p w = .ok (ops', w') ∧ PV E o n o' n' ops' := by
  intro fuel
  induction fuel with
  | zero => intro ops p w _ h; omega
  | succ fuel ih =>
    intro ops p w hpv hm
    simp only [cleanupPass]
    cases hop : ops[p]? with
    | none => exact ⟨ops, w, rfl, hpv⟩
    | some op =>
      simp only []
      have hcd := cw_drop_of_get (t := which) hop
      by_cases ht : op.tag = which
      · have hst : St E o n o' n' which ops p := ⟨hpv.walk, hpv.nr, hpv.car, op, hop, ht⟩
        obtain ⟨-, hb1, -, -⟩ := st_bounds hst
        obtain ⟨ops1, p1, w1, h1, st1, c1⟩ := shiftUp_total E r o n o' n' which hb hwh inner ops p w hst (by omega)
        obtain ⟨-, -, hb2, -⟩ := st_bounds st1
        obtain ⟨ops2, p2, w2, h2, st2, c2⟩ := shiftDown_total E r o n o' n' which hb hwh inner ops1 p1 w1 st1 (by omega)
        obtain ⟨hb3, -, -, hb4⟩ := st_bounds st2
        simp only [ht, if_true, h1, h2]
        refine ih ops2 (p2 + 1) w2 ⟨st2.walk, st2.nr, st2.car⟩ ?_
        simp only [ht, if_true] at hcd
        have := om_lt (c' := cw which (ops2.drop (p2 + 1))) (c := cw which (ops.drop p))
          (x := ops.length - p) (x' := ops2.length - (p2 + 1)) (K := (o' - o) + (n' - n) + 1) (by omega) (by omega)
        omega
      · simp only [ht, if_false]
        refine ih ops (p + 1) w hpv ?_
        simp only [ht, if_false, Nat.zero_add] at hcd
        have hp : p < ops.length := (List.getElem?_eq_some_iff.1 hop).1
        rw [← hcd]; omega

def wsum : List Op → Nat
  | [] => 0
  | x :: cs => (x.oLen + x.nLen + 1) + wsum cs

theorem foldl_weight (ops : List Op) : ∀ a, ops.foldl (fun a x => a + x.oLen + x.nLen + 1) a = a + wsum ops := by
  induction ops with
  | nil => intro a; simp [wsum]
  | cons c cs ih => intro a; simp only [List.foldl_cons, ih, wsum]; omega

theorem weight_ge (ops : List Op) (hnr : NoReplaceOp ops) :
    nDel ops + nIns ops + 2 * nEq ops + ops.length ≤ opsWeight ops := by
  unfold opsWeight
  rw [foldl_weight, Nat.zero_add]
  induction ops with
  | nil => simp [nDel, nIns, nEq, wsum]
  | cons c cs ih =>
    cases c <;> simp only [NoReplaceOp] at hnr <;>
      simp only [wsum, nDel, nIns, nEq, List.length_cons, Op.oLen, Op.nLen] <;>
      (have := ih hnr; omega)

theorem pv_fuel {E : Env} {o n o' n' : Nat} {ops : List Op} (h : PV E o n o' n' ops) (which : Tag) (W : Nat)
    (hW : (o' - o) + (n' - n) ≤ W) :
    cw which (ops.drop 0) * ((o' - o) + (n' - n) + 1) + (ops.length - 0) < (W + 2) * (W + 2) := by
  have h1 := walk_counts _ _ _ _ _ h.walk
  have h2 := walk_length_le _ _ _ _ _ h.walk
  have h3 := cw_le_length which ops
  simp only [List.drop_zero, Nat.sub_zero]
  have h4 : cw which ops * ((o' - o) + (n' - n) + 1) ≤ W * (W + 1) := Nat.mul_le_mul (by omega) (by omega)
  have h5 : W * (W + 1) = W * W + W := by rw [Nat.mul_add, Nat.mul_one]
  have h6 : (W + 2) * (W + 2) = W * W + 4 * W + 4 := by
    simp only [Nat.add_mul, Nat.mul_add]; omega
  omega

/-- **(E)+(F)** `cleanup_diff_ops` returns normally — no panic, no fuel exhaustion — on every valid,
`Replace`-free, in-bounds script whose carried indices satisfy `CarOK` (implied by `Exact`), for the shipped
and the repaired code. -/
theorem cleanup_total (E : Env) (repair : Bool) (ops : List Op) (o n o' n' : Nat) (w : World)
    (hnr : NoReplaceOp ops) (hw : Walk (eqB E) o n ops o' n') (hc : CarOK o 0 ops) (hb : InBounds E o o' n n') :
    ∃ ops' w', cleanupDiffOps E repair ops w = .ok (ops', w') := by
  have h1 := walk_counts _ _ _ _ _ hw
  have hW := weight_ge ops hnr
  have hL : (o' - o) + (n' - n) ≤ opsWeight ops := by omega
  have hpv : PV E o n o' n' ops := ⟨hw, hnr, hc⟩
  obtain ⟨ops1, w1, e1, pv1⟩ := cleanupPass_total E repair o n o' n' .delete (2 * opsWeight ops + 4) hb (.inr rfl)
    (by omega) _ ops 0 w hpv (pv_fuel hpv .delete _ hL)
  obtain ⟨ops2, w2, e2, -⟩ := cleanupPass_total E repair o n o' n' .insert (2 * opsWeight ops + 4) hb (.inl rfl)
    (by omega) _ ops1 0 w1 pv1 (pv_fuel pv1 .insert _ hL)
  refine ⟨ops2, w2, ?_⟩
  simp only [cleanupDiffOps, e1, e2]

theorem cleanup_total_exact (E : Env) (repair : Bool) (ops : List Op) (o n o' n' : Nat) (w : World)
    (hnr : NoReplaceOp ops) (hw : Walk (eqB E) o n ops o' n') (hx : Exact o n ops) (hb : InBounds E o o' n n') :
    ∃ ops' w', cleanupDiffOps E repair ops w = .ok (ops', w') :=
  cleanup_total E repair ops o n o' n' w hnr hw (exact_carOK ops o n 0 hx) hb

/-- **(E)** no panic -/
theorem cleanup_no_panic (E : Env) (repair : Bool) (ops : List Op) (o n o' n' : Nat) (w : World)
    (hnr : NoReplaceOp ops) (hw : Walk (eqB E) o n ops o' n') (hx : Exact o n ops) (hb : InBounds E o o' n n') :
    cleanupDiffOps E repair ops w ≠ .error .panic := by
  obtain ⟨a, b, h⟩ := cleanup_total_exact E repair ops o n o' n' w hnr hw hx hb
  rw [h]; intro h'; cases h'

/-- **(F)** the fuel of the model is never exhausted -/
theorem cleanup_no_fuel (E : Env) (repair : Bool) (ops : List Op) (o n o' n' : Nat) (w : World)
    (hnr : NoReplaceOp ops) (hw : Walk (eqB E) o n ops o' n') (hx : Exact o n ops) (hb : InBounds E o o' n n') :
    cleanupDiffOps E repair ops w ≠ .error .fuel := by
  obtain ⟨a, b, h⟩ := cleanup_total_exact E repair ops o n o' n' w hnr hw hx hb
  rw [h]; intro h'; cases h'

theorem carried_pend : ∀ (cs : List Op) (o0 n0 o n : Nat) (pend : List Op), CarriedGo o0 n0 o n pend cs →
    ∀ co cn l, Op.insert co cn l ∈ pend → o0 ≤ co := by
  intro cs
  induction cs with
  | nil =>
    intro o0 n0 o n pend h co cn l hm
    exact (h _ hm).1
  | cons c cs ih =>
    intro o0 n0 o n pend h co cn l hm
    cases c <;> simp only [CarriedGo] at h
    · exact (h.1 _ hm).1
    · exact ih _ _ _ _ _ h co cn l (List.mem_cons_of_mem _ hm)
    · exact ih _ _ _ _ _ h co cn l (List.mem_cons_of_mem _ hm)
    · exact ih _ _ _ _ _ h co cn l (List.mem_cons_of_mem _ hm)

theorem carriedGo_carOK : ∀ (cs : List Op) (o0 n0 o n : Nat) (pend : List Op) (nd : Nat),
    CarriedGo o0 n0 o n pend cs → o ≤ o0 + nd → CarOK o nd cs := by
  intro cs
  induction cs with
  | nil => intro _ _ _ _ _ _ _ _; trivial
  | cons c cs ih =>
    intro o0 n0 o n pend nd h ho
    cases c <;> simp only [CarriedGo] at h <;> simp only [CarOK]
    · exact ih _ _ _ _ _ _ h.2 (by omega)
    · exact ih _ _ _ _ _ _ h (by omega)
    · rename_i co cn l
      have := carried_pend _ _ _ _ _ _ h co cn l (List.mem_cons_self ..)
      exact ⟨by omega, ih _ _ _ _ _ _ h ho⟩
    · exact ih _ _ _ _ _ _ h (by omega)

/-- the carried-index rule of C01 implies the invariant used for totality -/
theorem carried_carOK (o n : Nat) (ops : List Op) (h : Carried o n ops) : CarOK o 0 ops :=
  carriedGo_carOK ops o n o n [] 0 h (by omega)

/-- **(E)+(F)** for `Carried`-valid input (what the algorithms deliver, C01) -/
theorem cleanup_total_carried (E : Env) (repair : Bool) (ops : List Op) (o n o' n' : Nat) (w : World)
    (hnr : NoReplaceOp ops) (hw : Walk (eqB E) o n ops o' n') (hx : Carried o n ops) (hb : InBounds E o o' n n') :
    ∃ ops' w', cleanupDiffOps E repair ops w = .ok (ops', w') :=
  cleanup_total E repair ops o n o' n' w hnr hw (carried_carOK o n ops hx) hb

/-- (C) without the panic proviso: on valid input the shipped and the repaired clean-up both return, and their
results differ only in carried indices. -/
theorem repair_only_touches_carried_valid (E : Env) (ops : List Op) (o n o' n' : Nat) (w : World)
    (hnr : NoReplaceOp ops) (hw : Walk (eqB E) o n ops o' n') (hc : CarOK o 0 ops) (hb : InBounds E o o' n n') :
    ∃ a b w', cleanupDiffOps E true ops w = .ok (a, w') ∧ cleanupDiffOps E false ops w = .ok (b, w') ∧
      a.map eraseOp = b.map eraseOp := by
  obtain ⟨a, wa, h1⟩ := cleanup_total E true ops o n o' n' w hnr hw hc hb
  obtain ⟨b, wb, h2⟩ := cleanup_total E false ops o n o' n' w hnr hw hc hb
  obtain ⟨h3, rfl⟩ := repair_only_touches_carried_ok E ops w a b wa wb h1 h2
  exact ⟨a, b, wa, h1, h2, h3⟩

/-! ## Why the outer fuel of the model is quadratic: the witness family

Symbols `x=0 a=1 b=2 d=3`; `old = (d a b)^m (a b)^k`, `new = x (a b)^m (a b a b)^k`,
`ops = insert(x) :: (delete(d), equal(ab))^m ++ (insert(ab), equal(ab))^k` with exact indices (valid, `Exact`).
Every later Insert `ab` slides up over the Equals, swaps over the Deletes and merges into the front Insert;
the merged op `x ab…` cannot slide back down, so the outer pointer jumps back over `~2m` ops and re-walks them.
Measured with the model (insert pass, `m = k`): outer iterations needed `= 2m² + 2m + 1`, e.g.
`m = 6: 85`, `m = 14: 421`, `m = 15: 481`, `m = 16: 545`, whereas the former linear fuel `2·opsWeight + 4`
was `188`, `428`, `458`, `488`: exhausted from `m = k = 15` on (61 ops, `|old| = 75`, `|new| = 91`),
although the Rust code terminates. Hence the bound `(opsWeight + 2)²` in `cleanupDiffOps`. -/
namespace Witness
def wOpsA : (m o n : Nat) → List Op
  | 0, _, _ => []
  | m+1, o, n => .delete o 1 n :: .equal (o+1) n 2 :: wOpsA m (o+3) (n+2)
def wOpsB : (k o n : Nat) → List Op
  | 0, _, _ => []
  | k+1, o, n => .insert o n 2 :: .equal o (n+2) 2 :: wOpsB k (o+2) (n+4)
def wOps (m k : Nat) : List Op := .insert 0 0 1 :: (wOpsA m 0 1 ++ wOpsB k (3*m) (1+2*m))
def oldAt (m k i : Nat) : Option Nat :=
  if i < 3*m then some (if i % 3 = 0 then 3 else if i % 3 = 1 then 1 else 2)
  else if i < 3*m + 2*k then some (if (i - 3*m) % 2 = 0 then 1 else 2) else none
def newAt (m k j : Nat) : Option Nat :=
  if j = 0 then some 0
  else if j < 1 + 2*m + 4*k then some (if (j - 1) % 2 = 0 then 1 else 2) else none
def wEnv (m k : Nat) : Env :=
  { on := fun i j => do let a ← oldAt m k i; let b ← newAt m k j; pure (b == a)
    oo := fun i j => do let a ← oldAt m k i; let b ← oldAt m k j; pure (a == b)
    nn := fun i j => do let a ← newAt m k i; let b ← newAt m k j; pure (a == b) }

-- `m = k = 6`: 84 outer rounds are not enough for the insert pass, 85 are (`2m²+2m+1`); `opsWeight = 92`
set_option maxRecDepth 20000 in
example : cleanupPass (wEnv 6 6) false .insert 1000 84 (wOps 6 6) 0 {} = .error .fuel := by rfl
set_option maxRecDepth 20000 in
example : (cleanupPass (wEnv 6 6) false .insert 1000 85 (wOps 6 6) 0 {}).toOption.isSome = true := by rfl
set_option maxRecDepth 20000 in
example : opsWeight (wOps 6 6) = 92 := by rfl
set_option maxRecDepth 20000 in
example : opsWeight (wOps 15 15) = 227 := by rfl
end Witness

end SimilarVerif.CompactT

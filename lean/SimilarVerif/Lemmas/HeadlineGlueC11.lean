import SimilarVerif.Props.C11
import SimilarVerif.Lemmas.CaptureNormal
import SimilarVerif.Lemmas.HeadlineGlue
/-! # Glue for the C11 headline (Props/Headline/C11.lean)

* `Exact` / `Walk` unfolded into the wording of the property text ("the number of items consumed by all
  preceding ops plus the range start");
* the `Replace` adapter over the recording hook never looks at a carried index: erasing the carried indices of its
  input erases those of its output (`replaceOut_erase`);
* hence the shipped and the repaired `capture_diff` agree on everything but carried indices
  (`capture_repair_only_touches_carried`), the statement `C11.repair_only_touches_carried` lifted from the clean-up
  to the whole capture pipeline. -/
namespace SimilarVerif.Headline
open SimilarVerif Spec CompactP

/-! ### positions in words -/

/-- `Exact`, in the words of the property: both indices of every op equal the number of old / new items consumed
by all preceding ops plus the range start -/
theorem exact_iff_positions : ∀ (ops : List Op) (o n : Nat), Exact o n ops ↔
    ∀ pre x post, ops = pre ++ x :: post →
      x.oStart = o + (pre.map Op.oLen).sum ∧ x.nStart = n + (pre.map Op.nLen).sum := by
  intro ops
  induction ops with
  | nil =>
    intro o n
    simp only [Exact, true_iff]
    intro pre x post h
    cases pre <;> simp at h
  | cons y ys ih =>
    intro o n
    simp only [Exact]
    constructor
    · rintro ⟨h1, h2, h3⟩ pre x post h
      cases pre with
      | nil =>
        simp only [List.nil_append, List.cons.injEq] at h
        obtain ⟨rfl, -⟩ := h
        simp [h1, h2]
      | cons p pre =>
        simp only [List.cons_append, List.cons.injEq] at h
        obtain ⟨rfl, rfl⟩ := h
        obtain ⟨a, b⟩ := (ih _ _).1 h3 pre x post rfl
        simp only [List.map_cons, List.sum_cons]
        omega
    · intro h
      obtain ⟨a, b⟩ := h [] y ys rfl
      refine ⟨by simpa using a, by simpa using b, (ih _ _).2 ?_⟩
      intro pre x post hp
      obtain ⟨c, d⟩ := h (y :: pre) x post (by rw [hp]; rfl)
      simp only [List.map_cons, List.sum_cons] at c d
      omega

/-- `Walk`, in the same words: every index that is NOT a carried index (all but the old index of an Insert and
the new index of a Delete) is the number of items consumed before plus the range start -/
theorem walk_primary_positions (e : Nat → Nat → Bool) : ∀ (ops : List Op) (o n o' n' : Nat),
    Walk e o n ops o' n' → ∀ pre x post, ops = pre ++ x :: post →
      (x.tag ≠ .insert → x.oStart = o + (pre.map Op.oLen).sum) ∧
      (x.tag ≠ .delete → x.nStart = n + (pre.map Op.nLen).sum) := by
  intro ops
  induction ops with
  | nil => intro o n o' n' _ pre x post h; cases pre <;> simp at h
  | cons y ys ih =>
    intro o n o' n' hw pre x post h
    cases pre with
    | nil =>
      simp only [List.nil_append, List.cons.injEq] at h
      obtain ⟨rfl, -⟩ := h
      cases y <;> simp only [Walk] at hw <;> simp [Op.tag, Op.oStart, Op.nStart, hw]
    | cons p pre =>
      simp only [List.cons_append, List.cons.injEq] at h
      obtain ⟨rfl, rfl⟩ := h
      have step : ∀ o1 n1, Walk e o1 n1 (pre ++ x :: post) o' n' → o1 = o + y.oLen → n1 = n + y.nLen →
          (x.tag ≠ .insert → x.oStart = o + ((y :: pre).map Op.oLen).sum) ∧
          (x.tag ≠ .delete → x.nStart = n + ((y :: pre).map Op.nLen).sum) := by
        intro o1 n1 hw1 ho hn
        obtain ⟨a, b⟩ := ih _ _ _ _ hw1 pre x post rfl
        simp only [List.map_cons, List.sum_cons]
        exact ⟨fun t => by have := a t; omega, fun t => by have := b t; omega⟩
      cases y with
      | equal a b l => simp only [Walk] at hw; exact step _ _ hw.2.2.2.2 rfl rfl
      | delete a l b => simp only [Walk] at hw; exact step _ _ hw.2.2 rfl rfl
      | insert a b l => simp only [Walk] at hw; exact step _ _ hw.2.2 rfl rfl
      | replace a al b bl => simp only [Walk] at hw; exact step _ _ hw.2.2.2.2 rfl rfl

/-- two scripts that agree up to carried indices and are both exact are equal -/
theorem exact_unique_of_erase : ∀ (a b : List Op) (o n : Nat), a.map eraseOp = b.map eraseOp →
    Exact o n a → Exact o n b → a = b := by
  intro a
  induction a with
  | nil => intro b o n h _ _; cases b <;> simp at h ⊢
  | cons x xs ih =>
    intro b o n h ha hb
    cases b with
    | nil => simp at h
    | cons y ys =>
      simp only [List.map_cons, List.cons.injEq] at h
      obtain ⟨hxy, hrest⟩ := h
      simp only [Exact] at ha hb
      have hxy' : x = y := by
        rcases ER_cases hxy with ⟨_, _, _, rfl, rfl⟩ | ⟨_, _, _, _, rfl, rfl⟩ | ⟨_, _, _, _, rfl, rfl⟩ | ⟨_, _, _, _, rfl, rfl⟩
        · rfl
        · simp only [Op.nStart] at ha hb; rw [ha.2.1, hb.2.1]
        · simp only [Op.oStart] at ha hb; rw [ha.1, hb.1]
        · rfl
      subst hxy'
      rw [ih ys _ _ hrest ha.2.2 hb.2.2]

/-! ### `Replace` never looks at a carried index -/

/-- forget the carried index of a `delete` / `insert` call -/
def eraseCall : Call → Call
  | .op x => .op (eraseOp x)
  | .finish => .finish

/-- forget the carried indices held in the state of `Replace` -/
def eraseR (r : RState) : RState :=
  { del := r.del.map fun (a, b, _) => (a, b, 0), ins := r.ins.map fun (_, b, c) => (0, b, c), eq := r.eq }

/-- two results of `Replace` over the recording hook: same abort, or the second is the first with all carried
indices erased -/
def ResRel (a b : Res ((RState × Rec) × World)) : Prop :=
  match a, b with
  | .error e1, .error e2 => e1 = e2
  | .ok ((r1, s1), w1), .ok ((r2, s2), w2) =>
      ∃ T', s1 = { trace := T' } ∧ r2 = eraseR r1 ∧ s2 = { trace := T'.map eraseCall } ∧ w1 = w2
  | _, _ => False

theorem opsOf_eraseCall : ∀ (T : List Call), opsOf (T.map eraseCall) = (opsOf T).map eraseOp := by
  intro T
  induction T with
  | nil => rfl
  | cons c cs ih => cases c <;> simp [opsOf, eraseCall, ih]

theorem eraseCall_raw (ops : List Op) :
    (ops.map Call.op ++ [Call.finish]).map eraseCall = (ops.map eraseOp).map Call.op ++ [Call.finish] := by
  simp [eraseCall, Function.comp_def]

/-- one call: `Replace` treats a call and the erased call alike -/
theorem replace_call_erase (c : Call) (r : RState) (T : List Call) (w : World) :
    ResRel ((replaceHook recHook).call c (r, { trace := T }) w)
      ((replaceHook recHook).call (eraseCall c) (eraseR r, { trace := T.map eraseCall }) w) := by
  obtain ⟨del, ins, eq⟩ := r
  cases c with
  | finish =>
    rcases del with _ | ⟨a, b, c⟩ <;> rcases ins with _ | ⟨d, e, f⟩ <;> rcases eq with _ | ⟨g, h, i⟩ <;>
      simp [ResRel, replaceHook, rFlushEq, rFlushDelIns, Replace.recHook_call, eraseR, eraseCall, eraseOp]
  | op x =>
    cases x with
    | equal o n l =>
      rcases del with _ | ⟨a, b, c⟩ <;> rcases ins with _ | ⟨d, e, f⟩ <;> rcases eq with _ | ⟨g, h, i⟩ <;>
        simp [ResRel, replaceHook, rFlushEq, rFlushDelIns, Replace.recHook_call, eraseR, eraseCall, eraseOp]
    | replace o ol n nl =>
      rcases del with _ | ⟨a, b, c⟩ <;> rcases ins with _ | ⟨d, e, f⟩ <;> rcases eq with _ | ⟨g, h, i⟩ <;>
        simp [ResRel, replaceHook, rFlushEq, rFlushDelIns, Replace.recHook_call, eraseR, eraseCall, eraseOp]
    | delete o l n =>
      rcases del with _ | ⟨a, b, c⟩ <;> rcases ins with _ | ⟨d, e, f⟩ <;> rcases eq with _ | ⟨g, h, i⟩ <;>
        simp only [replaceHook, rFlushEq, rFlushDelIns, Replace.recHook_call, eraseR, eraseCall, eraseOp,
          Option.map_some, Option.map_none] <;>
        (try split) <;>
        simp [ResRel, eraseR, eraseCall, eraseOp]
    | insert o n l =>
      rcases del with _ | ⟨a, b, c⟩ <;> rcases ins with _ | ⟨d, e, f⟩ <;> rcases eq with _ | ⟨g, h, i⟩ <;>
        simp only [replaceHook, rFlushEq, rFlushDelIns, Replace.recHook_call, eraseR, eraseCall, eraseOp,
          Option.map_some, Option.map_none] <;>
        (try split) <;>
        simp [ResRel, eraseR, eraseCall, eraseOp]

/-- a list of calls -/
theorem replace_deliver_erase : ∀ (cs : List Call) (r : RState) (T : List Call) (w : World),
    ResRel (deliver (replaceHook recHook) cs (r, { trace := T }) w)
      (deliver (replaceHook recHook) (cs.map eraseCall) (eraseR r, { trace := T.map eraseCall }) w) := by
  intro cs
  induction cs with
  | nil => intro r T w; exact ⟨T, rfl, rfl, rfl, rfl⟩
  | cons c cs ih =>
    intro r T w
    have h := replace_call_erase c r T w
    simp only [List.map_cons, deliver]
    cases h1 : (replaceHook recHook).call c (r, { trace := T }) w with
    | error e1 =>
      cases h2 : (replaceHook recHook).call (eraseCall c) (eraseR r, { trace := T.map eraseCall }) w with
      | error e2 => rw [h1, h2] at h; exact h
      | ok v => rw [h1, h2] at h; exact h.elim
    | ok v1 =>
      obtain ⟨⟨r1, s1⟩, w1⟩ := v1
      cases h2 : (replaceHook recHook).call (eraseCall c) (eraseR r, { trace := T.map eraseCall }) w with
      | error e2 => rw [h1, h2] at h; exact h.elim
      | ok v2 =>
        obtain ⟨⟨r2, s2⟩, w2⟩ := v2
        rw [h1, h2] at h
        obtain ⟨T', rfl, rfl, rfl, rfl⟩ := h
        exact ih r1 T' w1

/-- **`Replace` never looks at a carried index**: if feeding `ops` then `finish` through `Replace` into the
recording hook records `out`, feeding `ops` with all carried indices erased records `out` with all carried
indices erased -/
theorem replaceOut_erase (ops out : List Op) (rs : RState) (w w' : World)
    (h : replaceOut ops w = .ok ((rs, { trace := out.map Call.op ++ [.finish] }), w')) :
    replaceOut (ops.map eraseOp) w =
      .ok ((eraseR rs, { trace := (out.map eraseOp).map Call.op ++ [.finish] }), w') := by
  have hr := replace_deliver_erase (ops.map Call.op ++ [.finish]) {} [] w
  have e0 : eraseR {} = {} := rfl
  rw [eraseCall_raw, e0] at hr
  unfold replaceOut at h ⊢
  simp only [List.map_nil] at hr
  rw [h] at hr
  cases h2 : deliver (replaceHook recHook) ((ops.map eraseOp).map Call.op ++ [Call.finish]) ({}, { trace := [] }) w with
  | error e => rw [h2] at hr; exact hr.elim
  | ok v =>
    obtain ⟨⟨r2, s2⟩, w2⟩ := v
    rw [h2] at hr
    obtain ⟨T', hT, rfl, rfl, rfl⟩ := hr
    have : T' = out.map Call.op ++ [.finish] := by
      have := congrArg Rec.trace hT
      exact this.symm
    subst this
    rw [eraseCall_raw]

/-! ### the whole capture pipeline -/

/-- **shipped and repaired `capture_diff` agree on everything but carried indices** (every algorithm, every
clock): both return, in the same world, valid alternating scripts that are equal once the carried indices are
erased.  `C11.repair_only_touches_carried` lifted through `Replace`. -/
theorem capture_repair_only_touches_carried (alg : Alg) (E : Env) (os oe ns ne : Nat) (w : World)
    (hr : RangesInBounds E os oe ns ne) :
    ∃ opsR opsS w', captureDiff alg E true os oe ns ne w = .ok (opsR, w') ∧
      captureDiff alg E false os oe ns ne w = .ok (opsS, w') ∧
      Walk (eqB E) os ns opsR oe ne ∧ Walk (eqB E) os ns opsS oe ne ∧
      Alternating opsR ∧ Alternating opsS ∧
      opsS.map eraseOp = opsR.map eraseOp := by
  obtain ⟨r, w1, hraw, raw, ht, hw, hcar⟩ := rawTrace_total_valid alg E os oe ns ne w hr
  have hreta := CaptureP.raw_rec_eta alg E os oe ns ne w r w1 hraw
  rw [ht] at hreta
  rw [hreta] at hraw
  obtain ⟨-, -, -, c4⟩ := CaptureP.counts_expand raw
  have hwe := CaptureP.walk_expand _ raw _ _ _ _ hw
  obtain ⟨a, b, w2, hcla, hclb, hab⟩ :=
    CompactT.repair_only_touches_carried_valid E (CaptureP.expandReplace raw) os ns oe ne w1 c4 hwe
      (CaptureMin.carOK_expand _ raw _ _ _ _ 0 hw (CompactT.carried_carOK os ns raw hcar)) hr.cross
  obtain ⟨a1, -, -, -, a5, -⟩ := CompactP.cleanup_preserves E true _ os ns oe ne w1 a w2 c4 hwe hcla
  obtain ⟨b1, -, -, -, b5, -⟩ := CompactP.cleanup_preserves E false _ os ns oe ne w1 b w2 c4 hwe hclb
  obtain ⟨outA, rsA, hroA, wA, -, -, -, altA, -⟩ := replace_preserves (eqB E) a os ns oe ne w2 a5 a1
  obtain ⟨outB, rsB, hroB, wB, -, -, -, altB, -⟩ := replace_preserves (eqB E) b os ns oe ne w2 b5 b1
  have hcA : captureDiff alg E true os oe ns ne w = .ok (outA, w2) := by
    rw [CaptureP.capture_factor_gen alg E true os oe ns ne w raw w1 hraw, hcla]
    simp only [hroA, CaptureP.traceOps_eq_opsOf, CaptureP.opsOf_raw]
  have hcB : captureDiff alg E false os oe ns ne w = .ok (outB, w2) := by
    rw [CaptureP.capture_factor_gen alg E false os oe ns ne w raw w1 hraw, hclb]
    simp only [hroB, CaptureP.traceOps_eq_opsOf, CaptureP.opsOf_raw]
  refine ⟨outA, outB, w2, hcA, hcB, wA, wB, altA, altB, ?_⟩
  have eA := replaceOut_erase a outA rsA w2 w2 hroA
  have eB := replaceOut_erase b outB rsB w2 w2 hroB
  rw [hab, eB] at eA
  simp only [Except.ok.injEq, Prod.mk.injEq, Rec.mk.injEq, and_true] at eA
  have := congrArg opsOf eA.2
  rwa [CaptureP.opsOf_raw, CaptureP.opsOf_raw] at this

end SimilarVerif.Headline

#print axioms SimilarVerif.Headline.exact_iff_positions
#print axioms SimilarVerif.Headline.walk_primary_positions
#print axioms SimilarVerif.Headline.exact_unique_of_erase
#print axioms SimilarVerif.Headline.replaceOut_erase
#print axioms SimilarVerif.Headline.capture_repair_only_touches_carried

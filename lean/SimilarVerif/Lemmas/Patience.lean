import SimilarVerif.Model.Patience
import SimilarVerif.Lemmas.MyersGeneric
/-! Soundness (partial correctness) of the Patience diff over the recording hook, relative to
`SnakeInBox` for the item environment and for the environment of the two `unique` lists. -/
namespace SimilarVerif.PatienceP
open Spec MyersP MyersG

/-! ## `unique`: indices of the range, strictly ascending -/

theorem uniqueGo_spec (eq : Nat → Nat → Option Bool) (s e : Nat) : ∀ (cnt i : Nat) (l : List Nat),
    uniqueGo eq s e cnt i = some l → (∀ x ∈ l, i ≤ x ∧ x < i + cnt) ∧ l.Pairwise (· < ·) := by
  intro cnt
  induction cnt with
  | zero => intro i l h; simp [uniqueGo] at h; subst h; simp
  | succ c ih =>
    intro i l h
    simp only [uniqueGo] at h
    split at h
    · rename_i cn rest hcn hrest
      obtain ⟨h1, h2⟩ := ih (i+1) rest hrest
      simp only [Option.some.injEq] at h
      subst h
      split
      · refine ⟨?_, ?_⟩
        · intro x hx
          simp only [List.mem_cons] at hx
          rcases hx with rfl | hx
          · omega
          · have := h1 x hx; omega
        · simp only [List.pairwise_cons]
          exact ⟨fun x hx => by have := h1 x hx; omega, h2⟩
      · exact ⟨fun x hx => by have := h1 x hx; omega, h2⟩
    · simp at h

theorem pairwise_getElem? : ∀ (l : List Nat), l.Pairwise (· < ·) → ∀ (k k' a a' : Nat), k < k' →
    l[k]? = some a → l[k']? = some a' → a < a' := by
  intro l
  induction l with
  | nil => intro _ k k' a a' _ h; simp at h
  | cons x xs ih =>
    intro hp k k' a a' hk h1 h2
    simp only [List.pairwise_cons] at hp
    cases k' with
    | zero => omega
    | succ k' =>
      simp only [List.getElem?_cons_succ] at h2
      cases k with
      | zero =>
        simp only [List.getElem?_cons_zero, Option.some.injEq] at h1
        subst h1
        exact hp.1 a' (List.mem_of_getElem? h2)
      | succ k =>
        simp only [List.getElem?_cons_succ] at h1
        exact ih hp.2 k k' a a' (by omega) h1 h2

/-- an index list as `unique` builds it: entries inside `[s,e)`, strictly ascending -/
structure Asc (u : Array Nat) (s e : Nat) : Prop where
  range : ∀ (k a : Nat), u[k]? = some a → s ≤ a ∧ a < e
  mono : ∀ (k k' a a' : Nat), k < k' → u[k]? = some a → u[k']? = some a' → a < a'

/-- **`unique`**: every returned index lies in the range and the list is strictly ascending -/
theorem unique_asc {eq : Nat → Nat → Option Bool} {s e : Nat} {l : List Nat}
    (h : unique eq s e = some l) : Asc l.toArray s e := by
  obtain ⟨h1, h2⟩ := uniqueGo_spec eq s e (e - s) s l h
  constructor
  · intro k a hk
    simp only [List.getElem?_toArray] at hk
    have := h1 a (List.mem_of_getElem? hk)
    omega
  · intro k k' a a' hkk hk hk'
    simp only [List.getElem?_toArray] at hk hk'
    exact pairwise_getElem? l h2 k k' a a' hkk hk hk'

/-! ## `Env.sub` -/

theorem sub_inBounds {E : Env} {os oe ns ne : Nat} {uo un : Array Nat} (hb : InBounds E os oe ns ne)
    (ho : Asc uo os oe) (hn : Asc un ns ne) : InBounds (E.sub uo un) 0 uo.size 0 un.size := by
  intro i j _ hi _ hj
  have h1 : uo[i]? = some uo[i] := by simp [hi]
  have h2 : un[j]? = some un[j] := by simp [hj]
  have r1 := ho.range i _ h1
  have r2 := hn.range j _ h2
  simp only [Env.sub, h1, h2]
  exact hb _ _ r1.1 r1.2 r2.1 r2.2

/-! ## `patScan` -/

theorem patScan_spec (E : Env) (a b : Nat) : ∀ (fuel oc nc : Nat) (w : World) (oc' nc' : Nat) (w' : World),
    patScan E a b fuel oc nc w = .ok (oc', nc', w') →
    ∃ k, oc' = oc + k ∧ nc' = nc + k ∧ (∀ t, t < k → eqB E (oc+t) (nc+t) = true) ∧
      (oc ≤ a → oc' ≤ a) ∧ (nc ≤ b → nc' ≤ b) := by
  intro fuel
  induction fuel with
  | zero =>
    intro oc nc w oc' nc' w' h
    simp only [patScan] at h
    split at h
    · simp at h
    · simp only [Except.ok.injEq, Prod.mk.injEq] at h
      obtain ⟨rfl, rfl, rfl⟩ := h
      exact ⟨0, rfl, rfl, fun t ht => by omega, id, id⟩
  | succ f ih =>
    intro oc nc w oc' nc' w' h
    simp only [patScan] at h
    split at h
    · rename_i hcond
      simp only [Bool.and_eq_true, decide_eq_true_eq] at hcond
      split at h
      · simp at h
      · rename_i w1 hc
        obtain ⟨hE, -⟩ := cmp_ok hc
        obtain ⟨k, rfl, rfl, h3, h4, h5⟩ := ih _ _ _ _ _ _ h
        refine ⟨k+1, by omega, by omega, ?_, fun _ => h4 (by omega), fun _ => h5 (by omega)⟩
        intro t ht
        cases t with
        | zero => simp [eqB, hE]
        | succ t =>
          have := h3 t (by omega)
          have e1 : oc + (t + 1) = oc + 1 + t := by omega
          have e2 : nc + (t + 1) = nc + 1 + t := by omega
          rw [e1, e2]; exact this
      · simp only [Except.ok.injEq, Prod.mk.injEq] at h
        obtain ⟨rfl, rfl, rfl⟩ := h
        exact ⟨0, rfl, rfl, fun t ht => by omega, id, id⟩
    · simp only [Except.ok.injEq, Prod.mk.injEq] at h
      obtain ⟨rfl, rfl, rfl⟩ := h
      exact ⟨0, rfl, rfl, fun t ht => by omega, id, id⟩

/-! ## The invariant of the internal `Patience` hook over the recording hook -/

/-- What the user's recording hook holds when the Patience cursor is at `p`: a valid, near-exact
script from the range starts to the cursor (and no scheduled failure). -/
def UserInv (E : Env) (os oe ns ne : Nat) (p : PState) (r : Rec) : Prop :=
  os ≤ p.oc ∧ p.oc ≤ oe ∧ ns ≤ p.nc ∧ p.nc ≤ ne ∧
  ∃ out, Seg (eqB E) False ({} : Rec) os ns out r p.oc p.nc

/-- the cursor has not passed any anchor from unique-list positions `(i, j)` on -/
def CB (uo un : Array Nat) (p : PState) (i j : Nat) : Prop :=
  (∀ (k a : Nat), i ≤ k → uo[k]? = some a → p.oc ≤ a) ∧ (∀ (k b : Nat), j ≤ k → un[k]? = some b → p.nc ≤ b)

theorem CB.mono {uo un : Array Nat} {p : PState} {i j i' j' : Nat} (h : CB uo un p i j)
    (hi : i ≤ i') (hj : j ≤ j') : CB uo un p i' j' :=
  ⟨fun k a hk => h.1 k a (by omega), fun k b hk => h.2 k b (by omega)⟩

section
variable (E : Env) (hboxE : SnakeInBox E) (os oe ns ne : Nat) (hb : InBounds E os oe ns ne)
  (uo un : Array Nat) (hao : Asc uo os oe) (han : Asc un ns ne)
include hboxE hb hao han

/-- one anchor: scan, one `equal`, inner Myers on the gap, cursor moves onto the anchor -/
theorem patAnchor_sound (i j : Nat) (p : PState) (r : Rec) (w : World) (p' : PState) (r' : Rec) (w' : World)
    (hinv : UserInv E os oe ns ne p r) (hcb : CB uo un p i j)
    (h : patAnchor E recHook uo un i j p r w = .ok (p', r', w')) :
    UserInv E os oe ns ne p' r' ∧ uo[i]? = some p'.oc ∧ un[j]? = some p'.nc := by
  unfold patAnchor at h
  split at h
  · rename_i a b hua hub
    have hoa : p.oc ≤ a := hcb.1 i a (Nat.le_refl _) hua
    have hnb : p.nc ≤ b := hcb.2 j b (Nat.le_refl _) hub
    have hra := hao.range i a hua
    have hrb := han.range j b hub
    obtain ⟨h1, h2, h3, h4, out, sg⟩ := hinv
    simp only at h
    split at h
    · simp at h
    · rename_i oc nc w1 hscan
      obtain ⟨k, rfl, rfl, hk3, hk4, hk5⟩ := patScan_spec E a b _ _ _ _ _ _ _ hscan
      have hk4 := hk4 hoa
      have hk5 := hk5 hnb
      split at h
      · simp at h
      · rename_i r1 w2 hem
        have hf : r.failAt = none := sg.failAt rfl
        have hsg1 : ∃ eqs, Seg (eqB E) False r p.oc p.nc eqs r1 (p.oc + k) (p.nc + k) := by
          split at hem
          · rename_i hpos
            have e1 : p.oc + k - p.oc = k := by omega
            rw [e1] at hem
            obtain ⟨sg1, _⟩ := Seg.equal (e := eqB E) (P := False) hf hem (by omega) hk3
            exact ⟨_, sg1⟩
          · rename_i hpos
            simp only [Except.ok.injEq, Prod.mk.injEq] at hem
            obtain ⟨rfl, rfl⟩ := hem
            have : k = 0 := by omega
            subst this
            exact ⟨[], Seg.nil⟩
        obtain ⟨eqs, sg1⟩ := hsg1
        split at h
        · simp at h
        · rename_i r2 w3 hmy
          simp only [Except.ok.injEq, Prod.mk.injEq] at h
          obtain ⟨rfl, rfl, rfl⟩ := h
          obtain ⟨ops, he, hw, hn⟩ := myersDiff_rec_noFinish E hboxE (p.oc + k) a (p.nc + k) b r1 w2 _ _
            (sg1.failAt hf) hk4 hk5 (InBounds_sub hb (by omega) (by omega) (by omega) (by omega)) hmy
          have sg2 : Seg (eqB E) False r1 (p.oc + k) (p.nc + k) ops r2 a b := ⟨he, hw, hn, False.elim⟩
          exact ⟨⟨by simp only; omega, by simp only; omega, by simp only; omega, by simp only; omega,
            _, sg.append (sg1.append sg2)⟩, hua, hub⟩
  · simp at h

/-- an outer `equal(i, j, len)`: `len` anchors in turn -/
theorem patEqual_sound : ∀ (len i j : Nat) (p : PState) (r : Rec) (w : World) (p' : PState) (r' : Rec) (w' : World),
    UserInv E os oe ns ne p r → CB uo un p i j →
    patEqual E recHook uo un len i j p r w = .ok (p', r', w') →
    UserInv E os oe ns ne p' r' ∧ CB uo un p' (i + len) (j + len) := by
  intro len
  induction len with
  | zero =>
    intro i j p r w p' r' w' hinv hcb h
    simp only [patEqual, Except.ok.injEq, Prod.mk.injEq] at h
    obtain ⟨rfl, rfl, rfl⟩ := h
    exact ⟨hinv, hcb⟩
  | succ l ih =>
    intro i j p r w p' r' w' hinv hcb h
    simp only [patEqual] at h
    split at h
    · simp at h
    · rename_i p1 r1 w1 han1
      obtain ⟨hinv1, hu1, hu2⟩ := patAnchor_sound E hboxE os oe ns ne hb uo un hao han i j p r w p1 r1 w1 hinv hcb han1
      have hcb1 : CB uo un p1 (i+1) (j+1) :=
        ⟨fun k a hk hka => Nat.le_of_lt (hao.mono i k _ a (by omega) hu1 hka),
         fun k b hk hkb => Nat.le_of_lt (han.mono j k _ b (by omega) hu2 hkb)⟩
      obtain ⟨h1, h2⟩ := ih (i+1) (j+1) p1 r1 w1 p' r' w' hinv1 hcb1 h
      have e1 : i + 1 + l = i + (l + 1) := by omega
      have e2 : j + 1 + l = j + (l + 1) := by omega
      rw [e1, e2] at h2
      exact ⟨h1, h2⟩

end

/-! ## `Replace` around the `Patience` hook, driven by the outer Myers run -/

/-- where the next anchor to be processed sits: at the outer position `(i, j)`, or — when `Replace`
still holds back an `equal` — at the start of that pending `equal`, which ends at `(i, j)` -/
def Pend (uo un : Array Nat) (rs : RState) (p : PState) (i j : Nat) : Prop :=
  match rs.eq with
  | some (eo, en, el) => eo + el = i ∧ en + el = j ∧ CB uo un p eo en
  | none => CB uo un p i j

/-- invariant of the outer run at outer position `(i, j)` -/
def HInv (E : Env) (os oe ns ne : Nat) (uo un : Array Nat) (i j : Nat) (st : RState × PState × Rec) : Prop :=
  UserInv E os oe ns ne st.2.1 st.2.2 ∧ Pend uo un st.1 st.2.1 i j

section
variable (E : Env) (hboxE : SnakeInBox E) (os oe ns ne : Nat) (hb : InBounds E os oe ns ne)
  (uo un : Array Nat) (hao : Asc uo os oe) (han : Asc un ns ne)

/-- `delete` / `insert` / `replace` reaching the Patience hook are ignored -/
theorem flushDelIns_pat (rs : RState) (p : PState) (r : Rec) (w : World) (rs' : RState)
    (st' : PState × Rec) (w' : World)
    (h : rFlushDelIns (patienceHook E recHook uo un oe ne) rs (p, r) w = .ok (rs', st', w')) :
    st' = (p, r) ∧ rs'.eq = rs.eq := by
  unfold rFlushDelIns at h
  split at h <;> simp [patienceHook] at h <;> obtain ⟨rfl, rfl, rfl⟩ := h <;> simp

include hboxE hb hao han

/-- flushing the pending `equal` processes its anchors -/
theorem flushEq_pat (i j : Nat) (rs : RState) (p : PState) (r : Rec) (w : World) (rs' : RState)
    (p' : PState) (r' : Rec) (w' : World)
    (hinv : UserInv E os oe ns ne p r) (hp : Pend uo un rs p i j)
    (h : rFlushEq (patienceHook E recHook uo un oe ne) rs (p, r) w = .ok (rs', (p', r'), w')) :
    UserInv E os oe ns ne p' r' ∧ rs'.eq = none ∧ CB uo un p' i j := by
  unfold rFlushEq at h
  unfold Pend at hp
  split at h
  · rename_i o n l heq
    rw [heq] at hp
    obtain ⟨rfl, rfl, hcb⟩ := hp
    simp only [patienceHook] at h
    split at h
    · simp at h
    · rename_i st1 w1 hcall
      split at hcall
      · simp at hcall
      · rename_i p1 r1 w2 hpe
        simp only [Except.ok.injEq, Prod.mk.injEq] at hcall h
        obtain ⟨rfl, rfl⟩ := hcall
        obtain ⟨rfl, ⟨rfl, rfl⟩, rfl⟩ := h
        obtain ⟨h1, h2⟩ := patEqual_sound E hboxE os oe ns ne hb uo un hao han l o n p r w _ _ _ hinv hcb hpe
        exact ⟨h1, rfl, h2⟩
  · rename_i heq
    rw [heq] at hp
    simp only [Except.ok.injEq, Prod.mk.injEq] at h
    obtain ⟨rfl, ⟨rfl, rfl⟩, rfl⟩ := h
    exact ⟨hinv, heq, hp⟩

end

section
variable (E : Env) (hboxE : SnakeInBox E) (os oe ns ne : Nat) (hb : InBounds E os oe ns ne)
  (uo un : Array Nat) (hao : Asc uo os oe) (han : Asc un ns ne)

/-- an outer `equal` is only queued by `Replace` (after flushing ignored calls) -/
theorem step_equal (i j l : Nat) (st : RState × PState × Rec) (w : World) (st' : RState × PState × Rec) (w' : World)
    (hinv : HInv E os oe ns ne uo un i j st)
    (h : (replaceHook (patienceHook E recHook uo un oe ne)).call (.op (.equal i j l)) st w = .ok (st', w')) :
    HInv E os oe ns ne uo un (i + l) (j + l) st' := by
  obtain ⟨rs, p, r⟩ := st
  obtain ⟨hu, hp⟩ := hinv
  simp only at hu hp
  simp only [replaceHook] at h
  split at h
  · simp at h
  · rename_i rs1 st1 w1 hfl
    obtain ⟨rfl, heq⟩ := flushDelIns_pat E oe ne uo un rs p r w rs1 st1 w1 hfl
    unfold Pend at hp
    rw [← heq] at hp
    split at h
    · rename_i eo en el heq1
      rw [heq1] at hp
      simp only [Except.ok.injEq, Prod.mk.injEq] at h
      obtain ⟨rfl, rfl⟩ := h
      refine ⟨hu, ?_⟩
      simp only [Pend]
      exact ⟨by omega, by omega, hp.2.2⟩
    · rename_i heq1
      rw [heq1] at hp
      simp only [Except.ok.injEq, Prod.mk.injEq] at h
      obtain ⟨rfl, rfl⟩ := h
      refine ⟨hu, ?_⟩
      simp only [Pend, true_and]
      exact hp

include hboxE hb hao han

theorem step_delete (i j l cn : Nat) (st : RState × PState × Rec) (w : World) (st' : RState × PState × Rec) (w' : World)
    (hinv : HInv E os oe ns ne uo un i j st)
    (h : (replaceHook (patienceHook E recHook uo un oe ne)).call (.op (.delete i l cn)) st w = .ok (st', w')) :
    HInv E os oe ns ne uo un (i + l) j st' := by
  obtain ⟨rs, p, r⟩ := st
  obtain ⟨hu, hp⟩ := hinv
  simp only at hu hp
  simp only [replaceHook] at h
  split at h
  · simp at h
  · rename_i rs1 st1 w1 hfl
    obtain ⟨p1, r1⟩ := st1
    obtain ⟨hu1, heq1, hcb1⟩ := flushEq_pat E hboxE os oe ns ne hb uo un hao han i j rs p r w rs1 p1 r1 w1 hu hp hfl
    have hcb2 := hcb1.mono (Nat.le_add_right i l) (Nat.le_refl j)
    split at h
    · split at h
      · simp only [Except.ok.injEq, Prod.mk.injEq] at h
        obtain ⟨rfl, rfl⟩ := h
        exact ⟨hu1, by simp only [Pend, heq1]; exact hcb2⟩
      · simp at h
    · simp only [Except.ok.injEq, Prod.mk.injEq] at h
      obtain ⟨rfl, rfl⟩ := h
      exact ⟨hu1, by simp only [Pend, heq1]; exact hcb2⟩

theorem step_insert (i j l co : Nat) (st : RState × PState × Rec) (w : World) (st' : RState × PState × Rec) (w' : World)
    (hinv : HInv E os oe ns ne uo un i j st)
    (h : (replaceHook (patienceHook E recHook uo un oe ne)).call (.op (.insert co j l)) st w = .ok (st', w')) :
    HInv E os oe ns ne uo un i (j + l) st' := by
  obtain ⟨rs, p, r⟩ := st
  obtain ⟨hu, hp⟩ := hinv
  simp only at hu hp
  simp only [replaceHook] at h
  split at h
  · simp at h
  · rename_i rs1 st1 w1 hfl
    obtain ⟨p1, r1⟩ := st1
    obtain ⟨hu1, heq1, hcb1⟩ := flushEq_pat E hboxE os oe ns ne hb uo un hao han i j rs p r w rs1 p1 r1 w1 hu hp hfl
    have hcb2 := hcb1.mono (Nat.le_refl i) (Nat.le_add_right j l)
    split at h
    · split at h
      · simp only [Except.ok.injEq, Prod.mk.injEq] at h
        obtain ⟨rfl, rfl⟩ := h
        exact ⟨hu1, by simp only [Pend, heq1]; exact hcb2⟩
      · simp at h
    · simp only [Except.ok.injEq, Prod.mk.injEq] at h
      obtain ⟨rfl, rfl⟩ := h
      exact ⟨hu1, by simp only [Pend, heq1]; exact hcb2⟩

/-- the whole outer run preserves the invariant; only the positional part of its `Walk` matters -/
theorem outer_run (e' : Nat → Nat → Bool) : ∀ (ops : List Op) (i j i2 j2 : Nat)
    (st : RState × PState × Rec) (w : World) (st' : RState × PState × Rec) (w' : World),
    Delivered (replaceHook (patienceHook E recHook uo un oe ne)) ops st w st' w' →
    Walk e' i j ops i2 j2 → NoReplaceOp ops →
    HInv E os oe ns ne uo un i j st → HInv E os oe ns ne uo un i2 j2 st' := by
  intro ops i j i2 j2 st w st' w' hd
  induction hd generalizing i j with
  | nil _ => intro hw _ hinv; obtain ⟨rfl, rfl⟩ := hw; exact hinv
  | @cons x xs s s2 s' w w1 w2 w' _ hc _ ih =>
    intro hw hnr hinv
    cases x with
    | equal co cn l =>
      simp only [Walk] at hw
      obtain ⟨rfl, rfl, _, _, hw'⟩ := hw
      exact ih _ _ hw' hnr (step_equal E os oe ns ne uo un _ _ l s w1 s2 w2 hinv hc)
    | delete co l cn =>
      simp only [Walk] at hw
      obtain ⟨rfl, _, hw'⟩ := hw
      exact ih _ _ hw' hnr (step_delete E hboxE os oe ns ne hb uo un hao han _ _ l cn s w1 s2 w2 hinv hc)
    | insert co cn l =>
      simp only [Walk] at hw
      obtain ⟨rfl, _, hw'⟩ := hw
      exact ih _ _ hw' hnr (step_insert E hboxE os oe ns ne hb uo un hao han _ _ l co s w1 s2 w2 hinv hc)
    | replace co ol cn nl => exact hnr.elim

/-- `finish`: pending anchors, then the tail run with the real `finish` -/
theorem step_finish (i j : Nat) (st : RState × PState × Rec) (w : World) (st' : RState × PState × Rec) (w' : World)
    (hinv : HInv E os oe ns ne uo un i j st)
    (h : (replaceHook (patienceHook E recHook uo un oe ne)).call .finish st w = .ok (st', w')) :
    ValidRaw E os oe ns ne st'.2.2.trace := by
  obtain ⟨rs, p, r⟩ := st
  obtain ⟨hu, hp⟩ := hinv
  simp only at hu hp
  simp only [replaceHook] at h
  split at h
  · simp at h
  · rename_i rs1 st1 w1 hfl
    obtain ⟨p1, r1⟩ := st1
    obtain ⟨hu1, -, -⟩ := flushEq_pat E hboxE os oe ns ne hb uo un hao han i j rs p r w rs1 p1 r1 w1 hu hp hfl
    split at h
    · simp at h
    · rename_i rs2 st2 w2 hfl2
      obtain ⟨rfl, -⟩ := flushDelIns_pat E oe ne uo un rs1 p1 r1 w1 rs2 st2 w2 hfl2
      split at h
      · simp at h
      · rename_i st3 w3 hfin
        simp only [Except.ok.injEq, Prod.mk.injEq] at h
        obtain ⟨rfl, rfl⟩ := h
        simp only [patienceHook] at hfin
        split at hfin
        · simp at hfin
        · rename_i r3 w4 hmy
          simp only [Except.ok.injEq, Prod.mk.injEq] at hfin
          obtain ⟨rfl, rfl⟩ := hfin
          obtain ⟨h1, h2, h3, h4, out, sg⟩ := hu1
          obtain ⟨ops, he, hw, hn⟩ := myersDiff_rec E hboxE p1.oc oe p1.nc ne r1 w2 r3 w4 (sg.failAt rfl) h2 h4
            (InBounds_sub hb h1 (Nat.le_refl _) h3 (Nat.le_refl _)) hmy
          have hx := sg.ext
          unfold Ext at hx
          subst hx
          subst he
          refine ⟨out ++ ops, by simp, (Walk_append _ _ _ _ _ _).2 ⟨_, _, sg.walk, hw⟩, ?_⟩
          exact Carried_of_NearExact (NearExact_append _ _ none _ _ _ _ sg.walk sg.near hn)

end

/-- **Patience, partial correctness**: if `patience::diff_deadline` returns, the recorded calls are a
valid script for the two ranges followed by exactly one `finish`. -/
theorem patience_sound (E : Env) (hboxE : SnakeInBox E) (os oe ns ne : Nat)
    (hboxU : ∀ uo un, unique E.oo os oe = some uo → unique E.nn ns ne = some un →
      SnakeInBox (E.sub uo.toArray un.toArray))
    (w : World) (r' : Rec) (w' : World)
    (ho : os ≤ oe) (hn : ns ≤ ne) (hb : InBounds E os oe ns ne)
    (h : patienceDiff E recHook os oe ns ne {} w = .ok (r', w')) :
    ValidRaw E os oe ns ne r'.trace := by
  unfold patienceDiff at h
  split at h
  · rename_i uo un hu1 hu2
    have hao := unique_asc hu1
    have han := unique_asc hu2
    simp only at h
    split at h
    · simp at h
    · rename_i rs p r1 w1 hmy
      simp only [Except.ok.injEq, Prod.mk.injEq] at h
      obtain ⟨rfl, rfl⟩ := h
      obtain ⟨ops, s1, w2, hd, hfin, hw, -, hnr, -⟩ :=
        myersDiff_generic (E.sub uo.toArray un.toArray) (hboxU uo un hu1 hu2) _ 0 uo.toArray.size 0 un.toArray.size
          _ w _ _ (Nat.zero_le _) (Nat.zero_le _) (sub_inBounds hb hao han) hmy
      have hinv0 : HInv E os oe ns ne uo.toArray un.toArray 0 0
          (({} : RState), ({ oc := os, nc := ns } : PState), ({} : Rec)) := by
        refine ⟨⟨Nat.le_refl _, ho, Nat.le_refl _, hn, [], Seg.nil⟩, ?_⟩
        simp only [Pend]
        exact ⟨fun k a _ hk => (hao.range k a hk).1, fun k b _ hk => (han.range k b hk).1⟩
      have hinv1 := outer_run E hboxE os oe ns ne hb _ _ hao han _ ops 0 0 _ _ _ w s1 w2 hd hw hnr hinv0
      exact step_finish E hboxE os oe ns ne hb _ _ hao han _ _ s1 w2 _ _ hinv1 hfin
  · simp at h

/-- the same with `SnakeInBox` assumed for every pair of index lists -/
theorem patience_sound' (E : Env) (hboxE : SnakeInBox E) (hboxU : ∀ uo un, SnakeInBox (E.sub uo un))
    (os oe ns ne : Nat) (w : World) (r' : Rec) (w' : World)
    (ho : os ≤ oe) (hn : ns ≤ ne) (hb : InBounds E os oe ns ne)
    (h : patienceDiff E recHook os oe ns ne {} w = .ok (r', w')) :
    ValidRaw E os oe ns ne r'.trace :=
  patience_sound E hboxE os oe ns ne (fun uo un _ _ => hboxU _ _) w r' w' ho hn hb h

end SimilarVerif.PatienceP

import SimilarVerif.Lemmas.Group
import SimilarVerif.Lemmas.CaptureNormal
/-! # C12 for captured diffs: the `AltOps` hypothesis holds for whatever `capture_diff` returns -/
namespace SimilarVerif.GroupCap
open SimilarVerif Spec

/-- a valid script whose Equal and non-Equal ops alternate has no empty op and no two adjacent Equal ops -/
theorem altOps_of_walk_alternating (e : Nat → Nat → Bool) : ∀ (ops : List Op) (o n o' n' : Nat),
    Walk e o n ops o' n' → Alternating ops → AltOps ops := by
  intro ops
  induction ops with
  | nil => intros; trivial
  | cons x xs ih =>
    intro o n o' n' hw ha
    have hx := (CaptureNF.walk_head_ok e x xs o n o' n' hw).1
    cases xs with
    | nil => exact hx
    | cons y ys =>
      have hw' : ∃ o1 n1, Walk e o1 n1 (y :: ys) o' n' := by
        cases x <;> simp only [Walk] at hw
        · exact ⟨_, _, hw.2.2.2.2⟩
        · exact ⟨_, _, hw.2.2⟩
        · exact ⟨_, _, hw.2.2⟩
        · exact ⟨_, _, hw.2.2.2.2⟩
      obtain ⟨o1, n1, hw'⟩ := hw'
      simp only [Alternating] at ha
      refine ⟨hx, ?_, ih o1 n1 o' n' hw' ha.2⟩
      rintro ⟨h1, h2⟩
      exact ha.1 (by simp [h1, h2])

/-- **the op list of every captured diff satisfies `AltOps`** (every algorithm, in-bounds ranges, every clock,
shipped and repaired clean-up) -/
theorem captured_altOps (alg : Alg) (E : Env) (repair : Bool) (os oe ns ne : Nat) (w : World)
    (ho : os ≤ oe) (hn : ns ≤ ne) (hb : InBounds E os oe ns ne)
    (hp : alg = .patience → CaptureNF.SameSideBounds E os oe ns ne) :
    ∃ ops w', captureDiff alg E repair os oe ns ne w = .ok (ops, w') ∧ Walk (eqB E) os ns ops oe ne ∧
      AltOps ops := by
  obtain ⟨ops, w', hc, hw, ha, -⟩ := CaptureNF.capture_normal_form alg E repair os oe ns ne w ho hn hb hp
  exact ⟨ops, w', hc, hw, altOps_of_walk_alternating _ ops _ _ _ _ hw ha⟩

/-- **all clauses of C12 for `group_diff_ops` of every captured diff**, no hypothesis on the op list left -/
theorem group_captured (alg : Alg) (E : Env) (repair : Bool) (os oe ns ne : Nat) (w : World)
    (ho : os ≤ oe) (hn : ns ≤ ne) (hb : InBounds E os oe ns ne)
    (hp : alg = .patience → CaptureNF.SameSideBounds E os oe ns ne) :
    ∃ ops w', captureDiff alg E repair os oe ns ne w = .ok (ops, w') ∧ Walk (eqB E) os ns ops oe ne ∧
      AltOps ops ∧ ∀ n : Nat,
      -- keeps_changes
      changesOf (groupDiffOps ops n).flatten = changesOf ops ∧
      -- has_change
      (∀ g ∈ groupDiffOps ops n, changesOf g ≠ []) ∧
      -- no_changes
      (changesOf ops = [] → groupDiffOps ops n = []) ∧
      -- contiguous
      (∀ g ∈ groupDiffOps ops n, ∃ pre mid post, ops = pre ++ mid ++ post ∧ Trimmed mid g) ∧
      -- equal_bounds
      (∀ g ∈ groupDiffOps ops n,
        (∀ x ∈ g, x.tag = .equal → x.oLen ≤ 2 * n) ∧
        (∀ x, g.head? = some x → x.tag = .equal → x.oLen ≤ n) ∧
        (∀ x, g.getLast? = some x → x.tag = .equal → x.oLen ≤ n)) ∧
      -- leading_context
      (∀ o m len rest, ops = .equal o m len :: rest → rest ≠ [] →
        ∃ s gs, groupDiffOps ops n =
          (.equal (o + (len - min n len)) (m + (len - min n len)) (min n len) :: s) :: gs) ∧
      -- trailing_context
      (∀ o m len pre, ops = pre ++ [.equal o m len] → pre ≠ [] →
        ∃ gs s, groupDiffOps ops n = gs ++ [s ++ [.equal o m (min n len)]]) ∧
      -- separation
      (∀ pre post c1 c2 o m len, ops = pre ++ [c1, .equal o m len, c2] ++ post →
        c1.tag ≠ .equal → c2.tag ≠ .equal →
        (len ≤ 2 * n → ∃ G1 s1 s2 G2,
          groupDiffOps ops n = G1 ++ [s1 ++ [c1, .equal o m len, c2] ++ s2] ++ G2 ∧
          changesOf (G1.flatten ++ s1) = changesOf pre) ∧
        (2 * n < len → ∃ G1 s1 s2 G2,
          groupDiffOps ops n =
            G1 ++ [s1 ++ [c1, .equal o m n], [.equal (o + (len - n)) (m + (len - n)) n, c2] ++ s2] ++ G2 ∧
          changesOf (G1.flatten ++ s1) = changesOf pre)) ∧
      -- group_is_walk
      (∀ g ∈ groupDiffOps ops n,
        ∃ a b c d, Walk (eqB E) a b (g.filter fun x => !x.isEmpty) c d ∧ os ≤ a ∧ c ≤ oe ∧ ns ≤ b ∧ d ≤ ne) := by
  obtain ⟨ops, w', hc, hw, hv⟩ := captured_altOps alg E repair os oe ns ne w ho hn hb hp
  refine ⟨ops, w', hc, hw, hv, fun n => ⟨group_keeps_changes ops n, group_has_change ops n hv,
    group_no_changes ops n hv, group_contiguous ops n, group_equal_bounds' ops n, ?_, ?_, ?_,
    group_walk (eqB E) ops n os ns oe ne hw⟩⟩
  · intro o m len rest hops hr
    exact group_leading_context_alt ops n o m len rest hv hops hr
  · intro o m len pre hops hpne
    exact group_trailing_context_alt ops n o m len pre hv hops hpne
  · intro pre post c1 c2 o m len hops h1 h2
    exact group_separation ops n pre post c1 c2 o m len hops h1 h2

end SimilarVerif.GroupCap

import SimilarVerif.Lemmas.Lcs
import SimilarVerif.Lemmas.Walk
import SimilarVerif.Spec.Lcs
/-! C03 for LCS: every valid script has at least `N + M - 2·L` deleted+inserted items, and without a
deadline the LCS diff attains that bound. -/
namespace SimilarVerif.LcsMin
open Spec LcsP

/-! ## The textbook recursion `Spec.lcsLen` -/

@[simp] theorem lcsLen_zero_left (e : Nat → Nat → Bool) (b i j : Nat) : lcsLen e 0 b i j = 0 := by
  unfold lcsLen; rfl

@[simp] theorem lcsLen_zero_right (e : Nat → Nat → Bool) (a i j : Nat) : lcsLen e a 0 i j = 0 := by
  cases a <;> (unfold lcsLen; rfl)

theorem lcsLen_succ (e : Nat → Nat → Bool) (a b i j : Nat) :
    lcsLen e (a+1) (b+1) i j =
      if e i j then lcsLen e a b (i+1) (j+1) + 1
      else max (lcsLen e a (b+1) (i+1) j) (lcsLen e (a+1) b i (j+1)) := by
  rw [lcsLen]

/-- first items equal: they are matched (this is the definition) -/
theorem lcsLen_succ_eq {e : Nat → Nat → Bool} {i j : Nat} (h : e i j = true) (a b : Nat) :
    lcsLen e (a+1) (b+1) i j = lcsLen e a b (i+1) (j+1) + 1 := by
  rw [lcsLen_succ, if_pos h]

theorem lcsLen_succ_ne {e : Nat → Nat → Bool} {i j : Nat} (h : e i j = false) (a b : Nat) :
    lcsLen e (a+1) (b+1) i j = max (lcsLen e a (b+1) (i+1) j) (lcsLen e (a+1) b i (j+1)) := by
  rw [lcsLen_succ, h]; simp

/-- dropping the first old (new) item loses at most one and never gains; all four facts at once,
by induction on the total length -/
theorem lcsLen_step_aux (e : Nat → Nat → Bool) : ∀ (s a b i j : Nat), a + b < s →
    lcsLen e a b (i+1) j ≤ lcsLen e (a+1) b i j ∧
    lcsLen e (a+1) b i j ≤ lcsLen e a b (i+1) j + 1 ∧
    lcsLen e a b i (j+1) ≤ lcsLen e a (b+1) i j ∧
    lcsLen e a (b+1) i j ≤ lcsLen e a b i (j+1) + 1 := by
  intro s
  induction s with
  | zero => intro a b i j h; omega
  | succ s ih =>
    intro a b i j h
    refine ⟨?_, ?_, ?_, ?_⟩
    · -- old item prepended: no loss
      cases b with
      | zero => simp
      | succ b =>
        rw [lcsLen_succ]
        split
        · exact (ih a b (i+1) j (by omega)).2.2.2
        · exact Nat.le_max_left _ _
    · -- old item prepended: at most one more
      cases b with
      | zero => simp
      | succ b =>
        rw [lcsLen_succ]
        split
        · have := (ih a b (i+1) j (by omega)).2.2.1
          omega
        · have h1 := (ih a b i (j+1) (by omega)).2.1
          have h2 := (ih a b (i+1) j (by omega)).2.2.1
          apply Nat.max_le.2
          exact ⟨Nat.le_succ _, by omega⟩
    · cases a with
      | zero => simp
      | succ a =>
        rw [lcsLen_succ]
        split
        · exact (ih a b i (j+1) (by omega)).2.1
        · exact Nat.le_max_right _ _
    · cases a with
      | zero => simp
      | succ a =>
        rw [lcsLen_succ]
        split
        · have := (ih a b i (j+1) (by omega)).1
          omega
        · have h1 := (ih a b (i+1) j (by omega)).2.2.2
          have h2 := (ih a b i (j+1) (by omega)).1
          apply Nat.max_le.2
          exact ⟨by omega, Nat.le_succ _⟩

theorem lcsLen_drop_old_one (e : Nat → Nat → Bool) (a b i j : Nat) :
    lcsLen e a b (i+1) j ≤ lcsLen e (a+1) b i j := (lcsLen_step_aux e _ a b i j (Nat.lt_succ_self _)).1

theorem lcsLen_old_lipschitz (e : Nat → Nat → Bool) (a b i j : Nat) :
    lcsLen e (a+1) b i j ≤ lcsLen e a b (i+1) j + 1 := (lcsLen_step_aux e _ a b i j (Nat.lt_succ_self _)).2.1

theorem lcsLen_drop_new_one (e : Nat → Nat → Bool) (a b i j : Nat) :
    lcsLen e a b i (j+1) ≤ lcsLen e a (b+1) i j := (lcsLen_step_aux e _ a b i j (Nat.lt_succ_self _)).2.2.1

theorem lcsLen_new_lipschitz (e : Nat → Nat → Bool) (a b i j : Nat) :
    lcsLen e a (b+1) i j ≤ lcsLen e a b i (j+1) + 1 := (lcsLen_step_aux e _ a b i j (Nat.lt_succ_self _)).2.2.2

/-- skipping `k` old items at the front does not increase the LCS -/
theorem lcsLen_drop_old (e : Nat → Nat → Bool) (k a b i j : Nat) :
    lcsLen e a b (i+k) j ≤ lcsLen e (a+k) b i j := by
  induction k generalizing a i with
  | zero => exact Nat.le_refl _
  | succ k ih =>
    have h1 := ih a (i+1)
    have h2 := lcsLen_drop_old_one e (a+k) b i j
    rw [show i + (k+1) = i + 1 + k from by omega, show a + (k+1) = a + k + 1 from by omega]
    omega

theorem lcsLen_drop_new (e : Nat → Nat → Bool) (k a b i j : Nat) :
    lcsLen e a b i (j+k) ≤ lcsLen e a (b+k) i j := by
  induction k generalizing b j with
  | zero => exact Nat.le_refl _
  | succ k ih =>
    have h1 := ih b (j+1)
    have h2 := lcsLen_drop_new_one e a (b+k) i j
    rw [show j + (k+1) = j + 1 + k from by omega, show b + (k+1) = b + k + 1 from by omega]
    omega

theorem lcsLen_le_left (e : Nat → Nat → Bool) (a b i j : Nat) : lcsLen e a b i j ≤ a := by
  induction a generalizing i with
  | zero => simp
  | succ a ih =>
    have := lcsLen_old_lipschitz e a b i j
    have := ih (i+1)
    omega

theorem lcsLen_le_right (e : Nat → Nat → Bool) (a b i j : Nat) : lcsLen e a b i j ≤ b := by
  induction b generalizing j with
  | zero => simp
  | succ b ih =>
    have := lcsLen_new_lipschitz e a b i j
    have := ih (j+1)
    omega

/-- monotone in the old length (items appended at the end) -/
theorem lcsLen_mono_left_one (e : Nat → Nat → Bool) : ∀ (s a b i j : Nat), a + b < s →
    lcsLen e a b i j ≤ lcsLen e (a+1) b i j ∧ lcsLen e a b i j ≤ lcsLen e a (b+1) i j := by
  intro s
  induction s with
  | zero => intro a b i j h; omega
  | succ s ih =>
    intro a b i j h
    cases a with
    | zero => simp
    | succ a =>
      cases b with
      | zero => simp
      | succ b =>
        have h1 := ih a b (i+1) (j+1) (by omega)
        have h2 := ih a (b+1) (i+1) j (by omega)
        have h3 := ih (a+1) b i (j+1) (by omega)
        rw [lcsLen_succ e a b, lcsLen_succ e (a+1) b, lcsLen_succ e a (b+1)]
        split
        · omega
        · refine ⟨?_, ?_⟩ <;> apply Nat.max_le.2 <;> constructor <;>
            first
            | exact Nat.le_trans h2.1 (Nat.le_max_left _ _)
            | exact Nat.le_trans h2.2 (Nat.le_max_left _ _)
            | exact Nat.le_trans h3.1 (Nat.le_max_right _ _)
            | exact Nat.le_trans h3.2 (Nat.le_max_right _ _)

theorem lcsLen_mono_add (e : Nat → Nat → Bool) (a b k l i j : Nat) :
    lcsLen e a b i j ≤ lcsLen e (a + k) (b + l) i j := by
  have h1 : lcsLen e a b i j ≤ lcsLen e (a + k) b i j := by
    induction k with
    | zero => exact Nat.le_refl _
    | succ k ih => exact Nat.le_trans ih (lcsLen_mono_left_one e _ (a+k) b i j (Nat.lt_succ_self _)).1
  have h2 : lcsLen e (a + k) b i j ≤ lcsLen e (a + k) (b + l) i j := by
    induction l with
    | zero => exact Nat.le_refl _
    | succ l ih => exact Nat.le_trans ih (lcsLen_mono_left_one e _ (a+k) (b+l) i j (Nat.lt_succ_self _)).2
  exact Nat.le_trans h1 h2

/-- monotone in both lengths -/
theorem lcsLen_mono (e : Nat → Nat → Bool) {a a' b b' : Nat} (ha : a ≤ a') (hb : b ≤ b') (i j : Nat) :
    lcsLen e a b i j ≤ lcsLen e a' b' i j := by
  obtain ⟨k, rfl⟩ := Nat.exists_eq_add_of_le ha
  obtain ⟨l, rfl⟩ := Nat.exists_eq_add_of_le hb
  exact lcsLen_mono_add e a b k l i j

/-- a common prefix of length `k` is matched entirely -/
theorem lcsLen_prefix {e : Nat → Nat → Bool} (k : Nat) : ∀ (a b i j : Nat),
    (∀ t, t < k → e (i+t) (j+t) = true) →
    lcsLen e (a+k) (b+k) i j = lcsLen e a b (i+k) (j+k) + k := by
  induction k with
  | zero => intro a b i j _; rfl
  | succ k ih =>
    intro a b i j h
    have h0 : e i j = true := h 0 (Nat.succ_pos _)
    rw [show a + (k+1) = a + k + 1 from rfl, show b + (k+1) = b + k + 1 from rfl, lcsLen_succ_eq h0,
      ih a b (i+1) (j+1) (fun t ht => by have := h (t+1) (by omega); rwa [show i + (t+1) = i + 1 + t from by omega, show j + (t+1) = j + 1 + t from by omega] at this)]
    rw [show i + 1 + k = i + (k+1) from by omega, show j + 1 + k = j + (k+1) from by omega, Nat.add_assoc]

/-- **a matching last pair is matched**: the symmetric fact for the end of the ranges -/
theorem lcsLen_suffix_one (e : Nat → Nat → Bool) : ∀ (s a b i j : Nat), a + b < s →
    e (i+a) (j+b) = true → lcsLen e (a+1) (b+1) i j = lcsLen e a b i j + 1 := by
  intro s
  induction s with
  | zero => intro a b i j h; omega
  | succ s ih =>
    intro a b i j h he
    rw [lcsLen_succ]
    cases a with
    | zero =>
      cases b with
      | zero => simp at he; simp [he]
      | succ b =>
        have h1 := ih 0 b i (j+1) (by omega) (by rw [show j + 1 + b = j + (b+1) from by omega]; exact he)
        simp only [lcsLen_zero_left, Nat.zero_add] at h1 ⊢
        split <;> simp [h1]
    | succ a =>
      cases b with
      | zero =>
        have h1 := ih a 0 (i+1) j (by omega) (by rw [show i + 1 + a = i + (a+1) from by omega]; exact he)
        simp only [lcsLen_zero_right, Nat.zero_add] at h1 ⊢
        split <;> simp [h1]
      | succ b =>
        have h1 := ih a b (i+1) (j+1) (by omega)
          (by rw [show i + 1 + a = i + (a+1) from by omega, show j + 1 + b = j + (b+1) from by omega]; exact he)
        have h2 := ih a (b+1) (i+1) j (by omega)
          (by rw [show i + 1 + a = i + (a+1) from by omega]; exact he)
        have h3 := ih (a+1) b i (j+1) (by omega)
          (by rw [show j + 1 + b = j + (b+1) from by omega]; exact he)
        rw [h1, h2, h3, lcsLen_succ e a b i j]
        split <;> omega

theorem lcsLen_suffix_eq {e : Nat → Nat → Bool} {a b i j : Nat} (h : e (i+a) (j+b) = true) :
    lcsLen e (a+1) (b+1) i j = lcsLen e a b i j + 1 :=
  lcsLen_suffix_one e _ a b i j (Nat.lt_succ_self _) h

/-- a common suffix of length `k` is matched entirely -/
theorem lcsLen_suffix {e : Nat → Nat → Bool} (k : Nat) (a b i j : Nat)
    (h : ∀ t, t < k → e (i+a+t) (j+b+t) = true) :
    lcsLen e (a+k) (b+k) i j = lcsLen e a b i j + k := by
  induction k with
  | zero => rfl
  | succ k ih =>
    rw [show a + (k+1) = a + k + 1 from rfl, show b + (k+1) = b + k + 1 from rfl,
      lcsLen_suffix_eq (by have := h k (Nat.lt_succ_self _); rwa [Nat.add_assoc, Nat.add_assoc j] at this),
      ih (fun t ht => h t (by omega))]
    omega

/-! ## (1) Lower bound for every valid script -/

/-- the equal items of a valid script form a common subsequence -/
theorem walk_nEq_le {e : Nat → Nat → Bool} : ∀ (ops : List Op) (o n o' n' : Nat),
    Walk e o n ops o' n' → nEq ops ≤ lcsLen e (o' - o) (n' - n) o n := by
  intro ops
  induction ops with
  | nil => intro o n o' n' _; simp [nEq]
  | cons c cs ih =>
    intro o n o' n' h
    cases c with
    | equal co cn len =>
      simp only [Walk] at h
      obtain ⟨_, _, _, h4, h5⟩ := h
      have hc := walk_counts _ _ _ _ _ h5
      have := ih _ _ _ _ h5
      have hp := lcsLen_prefix len (o' - (o+len)) (n' - (n+len)) o n h4
      rw [show o' - (o+len) + len = o' - o from by omega, show n' - (n+len) + len = n' - n from by omega] at hp
      simp only [nEq]; omega
    | delete co len cn =>
      simp only [Walk] at h
      obtain ⟨_, _, h5⟩ := h
      have hc := walk_counts _ _ _ _ _ h5
      have := ih _ _ _ _ h5
      have hp := lcsLen_drop_old e len (o' - (o+len)) (n' - n) o n
      rw [show o' - (o+len) + len = o' - o from by omega] at hp
      simp only [nEq]; omega
    | insert co cn len =>
      simp only [Walk] at h
      obtain ⟨_, _, h5⟩ := h
      have hc := walk_counts _ _ _ _ _ h5
      have := ih _ _ _ _ h5
      have hp := lcsLen_drop_new e len (o' - o) (n' - (n+len)) o n
      rw [show n' - (n+len) + len = n' - n from by omega] at hp
      simp only [nEq]; omega
    | replace co ol cn nl =>
      simp only [Walk] at h
      obtain ⟨_, _, _, _, h5⟩ := h
      have hc := walk_counts _ _ _ _ _ h5
      have := ih _ _ _ _ h5
      have hp := lcsLen_drop_old e ol (o' - (o+ol)) (n' - (n+nl)) o (n+nl)
      have hq := lcsLen_drop_new e nl (o' - (o+ol) + ol) (n' - (n+nl)) o n
      rw [show o' - (o+ol) + ol = o' - o from by omega] at hp hq
      rw [show n' - (n+nl) + nl = n' - n from by omega] at hq
      simp only [nEq]; omega

/-- **every valid script costs at least `N + M - 2·L`** -/
theorem walk_cost_lower {e : Nat → Nat → Bool} {ops : List Op} {o n o' n' : Nat}
    (h : Walk e o n ops o' n') :
    (o' - o) + (n' - n) ≤ Spec.cost ops + 2 * lcsLen e (o' - o) (n' - n) o n := by
  have h1 := walk_nEq_le ops o n o' n' h
  have h2 := walk_counts _ _ _ _ _ h
  unfold Spec.cost
  omega

/-- the cost of a valid script is determined by its number of equal items -/
theorem walk_cost_eq {e : Nat → Nat → Bool} {ops : List Op} {o n o' n' : Nat}
    (h : Walk e o n ops o' n') :
    Spec.cost ops + 2 * nEq ops = (o' - o) + (n' - n) := by
  have h2 := walk_counts _ _ _ _ _ h
  unfold Spec.cost
  omega


/-! ## (3) `Table.get` / `Table.set` algebra and correctness of the table -/

theorem idx_inj {W i j i' j' : Nat} (hj : j < W) (hj' : j' < W) (h : i * W + j = i' * W + j') :
    i = i' ∧ j = j' := by
  rcases Nat.lt_trichotomy i i' with hlt | heq | hgt
  · have := Nat.mul_le_mul_right W (Nat.succ_le_of_lt hlt)
    rw [Nat.succ_mul] at this; omega
  · subst heq; omega
  · have := Nat.mul_le_mul_right W (Nat.succ_le_of_lt hgt)
    rw [Nat.succ_mul] at this; omega

theorem get_set_same (t : Table) (i j v : Nat) (hj : j < t.width) (hs : i * t.width + j < t.cells.size) :
    (t.set i j v).get i j = v := by
  simp [Table.get, Table.set, hj, hs]

theorem get_set_other (t : Table) (i j v i' j' : Nat) (h : ¬ (i' = i ∧ j' = j)) :
    (t.set i j v).get i' j' = t.get i' j' := by
  unfold Table.set Table.get
  by_cases hj : j < t.width
  · simp only [hj, if_true]
    by_cases hj' : j' < t.width
    · simp only [hj', if_true]
      have : i * t.width + j ≠ i' * t.width + j' := by
        intro he; have := idx_inj hj hj' he; omega
      simp [Array.getD_eq_getD_getElem?, this]
    · simp [hj']
  · simp [hj]

@[simp] theorem set_width (t : Table) (i j v : Nat) : (t.set i j v).width = t.width := by
  unfold Table.set; split <;> rfl

@[simp] theorem set_size (t : Table) (i j v : Nat) : (t.set i j v).cells.size = t.cells.size := by
  unfold Table.set; split <;> simp

/-- out-of-range reads give 0 -/
theorem get_oob_col (t : Table) (i j : Nat) (h : t.width ≤ j) : t.get i j = 0 := by
  simp [Table.get, Nat.not_lt.2 h]

theorem get_oob_row (t : Table) (i j : Nat) (h : t.cells.size ≤ i * t.width) : t.get i j = 0 := by
  unfold Table.get
  split
  · simp [Array.getD_eq_getD_getElem?, Array.getElem?_eq_none (show t.cells.size ≤ i * t.width + j from by omega)]
  · rfl

/-- the value the finished table holds at `(new index i, old index j)` -/
def tval (E : Env) (os ns ol nl i j : Nat) : Nat :=
  lcsLen (eqB E) (ol - j) (nl - i) (os + j) (ns + i)

theorem tval_step (E : Env) (os ns ol nl : Nat) {i j : Nat} (hi : i < nl) (hj : j < ol) :
    tval E os ns ol nl i j =
      if eqB E (os + j) (ns + i) then tval E os ns ol nl (i+1) (j+1) + 1
      else max (tval E os ns ol nl (i+1) j) (tval E os ns ol nl i (j+1)) := by
  unfold tval
  rw [show ol - j = ol - (j+1) + 1 from by omega, show nl - i = nl - (i+1) + 1 from by omega, lcsLen_succ]
  simp only [Nat.add_assoc]
  rw [Nat.max_comm]

theorem tval_row_end (E : Env) (os ns ol nl : Nat) {i j : Nat} (h : nl ≤ i) : tval E os ns ol nl i j = 0 := by
  unfold tval; rw [Nat.sub_eq_zero_of_le h]; simp

theorem tval_col_end (E : Env) (os ns ol nl : Nat) {i j : Nat} (h : ol ≤ j) : tval E os ns ol nl i j = 0 := by
  unfold tval; rw [Nat.sub_eq_zero_of_le h]; simp

/-- loop invariant: rows `> i` and the cells `(i, j')` with `j' ≥ j` are final, everything else is 0 -/
def TInv (E : Env) (os ns ol nl : Nat) (t : Table) (i j : Nat) : Prop :=
  t.width = ol + 1 ∧ t.cells.size = (nl + 1) * (ol + 1) ∧
  ∀ i' j', t.get i' j' = if i < i' ∨ (i' = i ∧ j ≤ j') then tval E os ns ol nl i' j' else 0

theorem tableRow_inv (E : Env) (os ns ol nl i : Nat) (hi : i < nl) : ∀ (cnt : Nat) (t : Table) (w : World)
    (t' : Table) (w' : World), tableRow E os ns i cnt t w = .ok (t', w') → cnt ≤ ol →
    TInv E os ns ol nl t i cnt → TInv E os ns ol nl t' i 0 ∧ w'.clock = w.clock := by
  intro cnt
  induction cnt with
  | zero =>
    intro t w t' w' h _ hinv
    simp only [tableRow, Except.ok.injEq, Prod.mk.injEq] at h
    obtain ⟨rfl, rfl⟩ := h
    exact ⟨hinv, rfl⟩
  | succ j ih =>
    intro t w t' w' h hj hinv
    simp only [tableRow] at h
    cases hc : cmp E (os + j) (ns + i) w with
    | error e => simp [hc] at h
    | ok r =>
      obtain ⟨b, w1⟩ := r
      obtain ⟨hE, rfl⟩ := cmp_ok hc
      simp only [hc] at h
      obtain ⟨hw, hs, hcell⟩ := hinv
      have hb : eqB E (os + j) (ns + i) = b := by cases b <;> simp [eqB, hE]
      have hv : (if b then t.get (i+1) (j+1) + 1 else max (t.get (i+1) j) (t.get i (j+1))) =
          tval E os ns ol nl i j := by
        rw [tval_step E os ns ol nl hi (by omega), hb, hcell, hcell, hcell]
        simp
      rw [hv] at h
      have hidx : i * t.width + j < t.cells.size := by
        have := Nat.mul_le_mul_right (ol + 1) (Nat.succ_le_of_lt hi)
        rw [Nat.succ_mul] at this
        rw [hw, hs, Nat.succ_mul]; omega
      obtain ⟨h1, h2⟩ := ih _ _ _ _ h (by omega) (by
        refine ⟨by split <;> simp [hw], by split <;> simp [hs], ?_⟩
        intro i' j'
        by_cases hij : i' = i ∧ j' = j
        · obtain ⟨rfl, rfl⟩ := hij
          simp only [Nat.lt_irrefl, Nat.le_refl, and_self, or_true, if_true]
          split
          · exact get_set_same t _ _ _ (by omega) hidx
          · rw [hcell]; simp; omega
        · have : (if 0 < tval E os ns ol nl i j then t.set i j (tval E os ns ol nl i j) else t).get i' j' = t.get i' j' := by
            split
            · exact get_set_other _ _ _ _ _ _ hij
            · rfl
          rw [this, hcell]
          have : (i < i' ∨ i' = i ∧ j + 1 ≤ j') ↔ (i < i' ∨ i' = i ∧ j ≤ j') := by omega
          simp only [this])
      exact ⟨h1, by rw [h2]⟩

theorem tableRow_clock (E : Env) (os ns i : Nat) : ∀ (cnt : Nat) (t : Table) (w : World)
    (t' : Table) (w' : World), tableRow E os ns i cnt t w = .ok (t', w') → w'.clock = w.clock := by
  intro cnt
  induction cnt with
  | zero =>
    intro t w t' w' h
    simp only [tableRow, Except.ok.injEq, Prod.mk.injEq] at h
    rw [h.2]
  | succ j ih =>
    intro t w t' w' h
    simp only [tableRow] at h
    cases hc : cmp E (os + j) (ns + i) w with
    | error e => simp [hc] at h
    | ok r =>
      obtain ⟨b, w1⟩ := r
      obtain ⟨_, rfl⟩ := cmp_ok hc
      simp only [hc] at h
      rw [ih _ _ _ _ h]

theorem TInv_next_row {E : Env} {os ns ol nl : Nat} {t : Table} {i : Nat}
    (h : TInv E os ns ol nl t (i+1) 0) : TInv E os ns ol nl t i ol := by
  obtain ⟨hw, hs, hcell⟩ := h
  refine ⟨hw, hs, ?_⟩
  intro i' j'
  rw [hcell]
  by_cases h1 : i + 1 < i' ∨ i' = i + 1 ∧ 0 ≤ j'
  · have h2 : i < i' ∨ i' = i ∧ ol ≤ j' := by omega
    simp only [h1, h2, if_true]
  · by_cases h2 : i < i' ∨ i' = i ∧ ol ≤ j'
    · simp only [h1, h2, if_true, if_false]
      rw [tval_col_end E os ns ol nl (by omega)]
    · simp only [h1, h2, if_false]

theorem TInv_init (E : Env) (os ns ol nl : Nat) :
    TInv E os ns ol nl { width := ol + 1, cells := Array.replicate ((nl + 1) * (ol + 1)) 0 } nl 0 := by
  refine ⟨rfl, by simp, ?_⟩
  intro i' j'
  have h0 : ({ width := ol + 1, cells := Array.replicate ((nl + 1) * (ol + 1)) 0 } : Table).get i' j' = 0 := by
    unfold Table.get
    split
    · simp only [Array.getD_eq_getD_getElem?, Array.getElem?_replicate]
      split <;> rfl
    · rfl
  rw [h0]
  split
  · rw [tval_row_end E os ns ol nl (by omega)]
  · rfl

theorem TInv_final {E : Env} {os ns ol nl : Nat} {t : Table} (h : TInv E os ns ol nl t 0 0) (i j : Nat) :
    t.get i j = tval E os ns ol nl i j := by
  rw [h.2.2]
  have : 0 < i ∨ i = 0 ∧ 0 ≤ j := by omega
  simp only [this, if_true]

theorem tableRows_inv (E : Env) (os ns ol nl : Nat) : ∀ (cnt : Nat) (t : Table) (w : World)
    (t' : Table) (w' : World), tableRows E os ns ol cnt t w = .ok (some t', w') → cnt ≤ nl →
    TInv E os ns ol nl t cnt 0 → TInv E os ns ol nl t' 0 0 := by
  intro cnt
  induction cnt with
  | zero =>
    intro t w t' w' h _ hinv
    simp only [tableRows, Except.ok.injEq, Prod.mk.injEq, Option.some.injEq] at h
    rw [← h.1]; exact hinv
  | succ i ih =>
    intro t w t' w' h hi hinv
    simp only [tableRows] at h
    cases hp : probe w with
    | mk b w1 =>
      rw [hp] at h
      cases b with
      | true => simp at h
      | false =>
        simp only at h
        cases hr : tableRow E os ns i ol t w1 with
        | error e => simp [hr] at h
        | ok r =>
          obtain ⟨t1, w2⟩ := r
          simp only [hr] at h
          exact ih _ _ _ _ h (by omega)
            (tableRow_inv E os ns ol nl i (by omega) ol t w1 t1 w2 hr (Nat.le_refl _) (TInv_next_row hinv)).1

/-- without a deadline the table is always built -/
theorem tableRows_noclock (E : Env) (os ns ol : Nat) : ∀ (cnt : Nat) (t : Table) (w : World)
    (mt : Option Table) (w' : World), tableRows E os ns ol cnt t w = .ok (mt, w') → w.clock = none →
    mt.isSome = true ∧ w'.clock = none := by
  intro cnt
  induction cnt with
  | zero =>
    intro t w mt w' h hclk
    simp only [tableRows, Except.ok.injEq, Prod.mk.injEq] at h
    rw [← h.1, ← h.2]; exact ⟨rfl, hclk⟩
  | succ i ih =>
    intro t w mt w' h hclk
    have hp : probe w = (false, w) := by simp [probe, hclk]
    simp only [tableRows, hp] at h
    cases hr : tableRow E os ns i ol t w with
    | error e => simp [hr] at h
    | ok r =>
      obtain ⟨t1, w2⟩ := r
      simp only [hr] at h
      exact ih _ _ _ _ h (by rw [tableRow_clock _ _ _ _ _ _ _ _ _ hr]; exact hclk)

/-- **(3) table correctness**: if the table was built, cell `(i, j)` holds the LCS length of
`old[os+j .. oe)` and `new[ns+i .. ne)`; out-of-range cells read 0, which is that LCS length too -/
theorem makeTable_correct {E : Env} {os oe ns ne : Nat} {w w' : World} {t : Table}
    (h : makeTable E os oe ns ne w = .ok (some t, w')) (i j : Nat) :
    t.get i j = lcsLen (eqB E) ((oe - os) - j) ((ne - ns) - i) (os + j) (ns + i) := by
  unfold makeTable at h
  exact TInv_final (tableRows_inv E os ns (oe - os) (ne - ns) _ _ _ _ _ h (Nat.le_refl _)
    (TInv_init E os ns (oe - os) (ne - ns))) i j

/-- the same in the in-range form of the task statement -/
theorem makeTable_correct_inrange {E : Env} {os oe ns ne : Nat} {w w' : World} {t : Table}
    (h : makeTable E os oe ns ne w = .ok (some t, w')) :
    ∀ i j, i ≤ ne - ns → j ≤ oe - os →
      t.get i j = lcsLen (eqB E) ((oe - os) - j) ((ne - ns) - i) (os + j) (ns + i) :=
  fun i j _ _ => makeTable_correct h i j

theorem makeTable_noclock {E : Env} {os oe ns ne : Nat} {w w' : World} {mt : Option Table}
    (h : makeTable E os oe ns ne w = .ok (mt, w')) (hclk : w.clock = none) :
    ∃ t, mt = some t ∧ w'.clock = none := by
  unfold makeTable at h
  obtain ⟨h1, h2⟩ := tableRows_noclock _ _ _ _ _ _ _ _ _ h hclk
  cases mt with
  | none => simp at h1
  | some t => exact ⟨t, rfl, h2⟩

/-! ## (4) The greedy walk and the whole call -/

theorem nEq_append : ∀ (a b : List Op), nEq (a ++ b) = nEq a + nEq b := by
  intro a
  induction a with
  | nil => intro b; simp [nEq]
  | cons c cs ih => intro b; cases c <;> simp only [List.cons_append, nEq, ih] <;> omega

/-- **(4) the greedy walk over a correct table collects a longest common subsequence** -/
theorem lcsWalk_opt (E : Env) (t : Table) (o0 n0 ol nl : Nat)
    (hb : ∀ i j, i < ol → j < nl → (E.on (o0 + i) (n0 + j)).isSome)
    (ht : ∀ i j, t.get i j = tval E o0 n0 ol nl i j) :
    ∀ (fuel oi ni : Nat) (T : List Call) (w : World), oi ≤ ol → ni ≤ nl →
      (ol - oi) + (nl - ni) ≤ fuel →
      ∃ oi' ni' ops w',
        lcsWalk E recHook t o0 n0 ol nl fuel oi ni (Rec.mk T none true) w =
          .ok (oi', ni', Rec.mk (T ++ ops.map Call.op) none true, w') ∧
        WX (eqB E) (o0 + oi) (n0 + ni) ops (o0 + oi') (n0 + ni') ∧
        oi' ≤ ol ∧ ni' ≤ nl ∧ (oi' = ol ∨ ni' = nl) ∧
        nEq ops = lcsLen (eqB E) (ol - oi) (nl - ni) (o0 + oi) (n0 + ni) := by
  intro fuel
  induction fuel with
  | zero =>
    intro oi ni T w ho hn hf
    have hc : ¬ (ni < nl ∧ oi < ol) := by omega
    refine ⟨oi, ni, [], w, ?_, WX_nil _ _ _, ho, hn, by omega, ?_⟩
    · simp [lcsWalk, hc]
    · have : ol - oi = 0 ∨ nl - ni = 0 := by omega
      rcases this with h | h <;> simp [h, nEq]
  | succ f ih =>
    intro oi ni T w ho hn hf
    by_cases hc : ni < nl ∧ oi < ol
    · obtain ⟨b, hcmp, hE⟩ := cmp_total (E := E) w (hb oi ni hc.2 hc.1)
      have hstep := tval_step E o0 n0 ol nl hc.1 hc.2
      have hbe : eqB E (o0 + oi) (n0 + ni) = b := by cases b <;> simp [eqB, hE]
      rw [hbe] at hstep
      unfold tval at hstep
      cases b with
      | true =>
        obtain ⟨oi', ni', ops, w', h1, h2, h3, h4, h5, h6⟩ :=
          ih (oi+1) (ni+1) (T ++ [.op (.equal (o0 + oi) (n0 + ni) 1)]) { w with cmps := w.cmps + 1 } (by omega) (by omega) (by omega)
        refine ⟨oi', ni', .equal (o0 + oi) (n0 + ni) 1 :: ops, w', ?_, ?_, h3, h4, h5, ?_⟩
        · simp only [lcsWalk, hc, hcmp, decide_true, Bool.and_self, if_true, emit_rec, h1]; simp
        · have hs : WX (eqB E) (o0 + oi) (n0 + ni) [.equal (o0 + oi) (n0 + ni) 1] (o0 + (oi+1)) (n0 + (ni+1)) := by
            apply WX_equal rfl rfl (by omega) _ (by omega) (by omega)
            intro t ht
            have : t = 0 := by omega
            subst this
            simp [eqB, hE]
          exact WX_append [_] hs h2
        · simp only [nEq, h6, hstep, if_true]; omega
      | false =>
        simp only [Bool.false_eq_true, if_false] at hstep
        by_cases htab : t.get ni (oi+1) ≥ t.get (ni+1) oi
        · obtain ⟨oi', ni', ops, w', h1, h2, h3, h4, h5, h6⟩ :=
            ih (oi+1) ni (T ++ [.op (.delete (o0 + oi) 1 (n0 + ni))]) { w with cmps := w.cmps + 1 } (by omega) (by omega) (by omega)
          refine ⟨oi', ni', .delete (o0 + oi) 1 (n0 + ni) :: ops, w', ?_, ?_, h3, h4, h5, ?_⟩
          · simp only [lcsWalk, hc, hcmp, htab, decide_true, Bool.and_self, if_true, emit_rec, h1]; simp
          · have hs : WX (eqB E) (o0 + oi) (n0 + ni) [.delete (o0 + oi) 1 (n0 + ni)] (o0 + (oi+1)) (n0 + ni) :=
              WX_delete rfl rfl (by omega) (by omega) rfl
            exact WX_append [_] hs h2
          · rw [ht, ht] at htab
            unfold tval at htab
            simp only [nEq, h6, hstep]
            omega
        · obtain ⟨oi', ni', ops, w', h1, h2, h3, h4, h5, h6⟩ :=
            ih oi (ni+1) (T ++ [.op (.insert (o0 + oi) (n0 + ni) 1)]) { w with cmps := w.cmps + 1 } (by omega) (by omega) (by omega)
          refine ⟨oi', ni', .insert (o0 + oi) (n0 + ni) 1 :: ops, w', ?_, ?_, h3, h4, h5, ?_⟩
          · simp only [lcsWalk, hc, hcmp, htab, decide_true, Bool.and_self, if_true, if_false, emit_rec, h1]; simp
          · have hs : WX (eqB E) (o0 + oi) (n0 + ni) [.insert (o0 + oi) (n0 + ni) 1] (o0 + oi) (n0 + (ni+1)) :=
              WX_insert rfl rfl (by omega) rfl (by omega)
            exact WX_append [_] hs h2
          · rw [ht, ht] at htab
            unfold tval at htab
            simp only [nEq, h6, hstep]
            omega
    · refine ⟨oi, ni, [], w, ?_, WX_nil _ _ _, ho, hn, by omega, ?_⟩
      · simp [lcsWalk, hc]
      · have : ol - oi = 0 ∨ nl - ni = 0 := by omega
        rcases this with h | h <;> simp [h, nEq]

theorem nEq_opt_delete (c : Prop) [Decidable c] (a b d : Nat) :
    nEq (if c then [Op.delete a b d] else []) = 0 := by split <;> simp [nEq]

theorem nEq_opt_insert (c : Prop) [Decidable c] (a b d : Nat) :
    nEq (if c then [Op.insert a b d] else []) = 0 := by split <;> simp [nEq]

theorem nEq_opt_equal (a b k : Nat) :
    nEq (if 0 < k then [Op.equal a b k] else []) = k := by split <;> simp [nEq] <;> omega

/-- prefix and suffix stripping together -/
theorem lcsLen_strip {e : Nat → Nat → Bool} {os ns p sl ol nl : Nat}
    (hp : ∀ t, t < p → e (os+t) (ns+t) = true)
    (hs : ∀ t, t < sl → e (os+p+ol+t) (ns+p+nl+t) = true) :
    lcsLen e (ol + sl + p) (nl + sl + p) os ns = p + lcsLen e ol nl (os+p) (ns+p) + sl := by
  rw [lcsLen_prefix p _ _ _ _ hp, lcsLen_suffix sl _ _ _ _ hs]
  omega

/-- `lcs_minimal` for an arbitrary trace already recorded -/
theorem lcs_minimal_gen (E : Env) (os oe ns ne : Nat) (T : List Call) (w : World) (ho : os ≤ oe)
    (hn : ns ≤ ne) (hb : InBounds E os oe ns ne) (hclk : w.clock = none) :
    ∃ ops w', lcsDiff E recHook os oe ns ne (Rec.mk T none true) w =
        .ok (Rec.mk (T ++ ops.map Call.op ++ [.finish]) none true, w') ∧
      WX (eqB E) os ns ops oe ne ∧
      nEq ops = lcsLen (eqB E) (oe - os) (ne - ns) os ns := by
  unfold lcsDiff
  by_cases h1 : ne ≤ ns
  · have hz : ne - ns = 0 := by omega
    by_cases h2 : oe ≤ os
    · refine ⟨[], w, by simp [h1, h2], WX_nil' (by omega) (by omega), by simp [hz, nEq]⟩
    · refine ⟨[.delete os (oe - os) ns], w, by simp [h1, h2],
        WX_delete rfl rfl (by omega) (by omega) (by omega), by simp [hz, nEq]⟩
  · by_cases h2 : oe ≤ os
    · have hz : oe - os = 0 := by omega
      refine ⟨[.insert os ns (ne - ns)], w, by simp [h1, h2],
        WX_insert rfl rfl (by omega) (by omega) (by omega), by simp [hz, nEq]⟩
    · simp only [h1, h2, if_false]
      obtain ⟨p, w1, hp⟩ := commonPrefixLen_total (E := E) w hb
      obtain ⟨p1, p2, p3, -, pw⟩ := commonPrefixLen_spec hp
      obtain ⟨sl, w2, hs⟩ := commonSuffixLen_total (E := E) (os := os + p) (oe := oe) (ns := ns + p)
        (ne := ne) w1 (InBounds_sub hb (by omega) (by omega) (by omega) (by omega))
      obtain ⟨s1, s2, s3, -, sw⟩ := commonSuffixLen_spec hs
      have hclk2 : w2.clock = none := by rw [sw.1, pw.1, hclk]
      simp only [hp, hs]
      by_cases h3 : (p == oe - os && oe - os == ne - ns) = true
      · simp only [h3, if_true, emit_rec, finish_rec]
        simp only [Bool.and_eq_true, beq_iff_eq] at h3
        refine ⟨[.equal os ns (oe - os)], w2, by simp, ?_, ?_⟩
        · apply WX_equal rfl rfl (by omega) _ (by omega) (by omega)
          intro t ht; exact p3 t (by omega)
        · have := lcsLen_prefix (e := eqB E) p 0 0 os ns p3
          simp only [Nat.zero_add, lcsLen_zero_left] at this
          rw [← h3.2, ← h3.1, this]; simp [nEq]
      · simp only [h3, Bool.false_eq_true, if_false]
        obtain ⟨mt, w3, hm⟩ := makeTable_total E (os + p) (oe - sl) (ns + p) (ne - sl) w2
          (InBounds_sub hb (by omega) (by omega) (by omega) (by omega))
        obtain ⟨t, rfl, hclk3⟩ := makeTable_noclock hm hclk2
        have htab := makeTable_correct hm
        simp only [hm, optEmit_rec]
        have e1 : oe - sl - (os + p) = oe - os - p - sl := by omega
        have e2 : ne - sl - (ns + p) = ne - ns - p - sl := by omega
        rw [e1, e2] at htab
        generalize hol : oe - os - p - sl = ol at htab
        generalize hnl : ne - ns - p - sl = nl at htab
        generalize hT1 : T ++ List.map Call.op (if 0 < p then [Op.equal os ns p] else []) = T1
        have hA : WX (eqB E) os ns (if 0 < p then [Op.equal os ns p] else []) (os + p) (ns + p) := by
          apply WX_opt
          · intro h; exact WX_equal rfl rfl h p3 rfl rfl
          · intro h; exact ⟨by omega, by omega⟩
        obtain ⟨oi, ni, W, w4, e1, e2, e3, e4, -, e6⟩ := lcsWalk_opt E t (os + p) (ns + p) ol nl
          (fun i j hi hj => hb (os + p + i) (ns + p + j) (by omega) (by omega) (by omega) (by omega))
          htab (ol + nl) 0 0 T1 w3 (by omega) (by omega) (by omega)
        simp only [e1, emit_rec, optDel_rec', optEmit_rec', finish_rec]
        refine ⟨_, w4, ?_, WX_tail (ol := ol) (nl := nl)
          (P := (if 0 < p then [Op.equal os ns p] else []) ++ W) (WX_append _ hA e2)
          e3 e4 ho hn hol hnl p1 p2 s1 s2 s3, ?_⟩
        · simp [← hT1]
        · simp only [nEq_append, nEq_opt_delete, nEq_opt_insert, nEq_opt_equal, e6, Nat.sub_zero,
            Nat.add_zero]
          have hstrip := lcsLen_strip (e := eqB E) (os := os) (ns := ns) (p := p) (sl := sl)
            (ol := ol) (nl := nl) p3 (by
              intro t ht
              have h3 := s3 (sl - 1 - t) (by omega)
              have e1 : oe - 1 - (sl - 1 - t) = os + p + ol + t := by omega
              have e2 : ne - 1 - (sl - 1 - t) = ns + p + nl + t := by omega
              rw [e1, e2] at h3; exact h3)
          rw [show oe - os = ol + sl + p from by omega, show ne - ns = nl + sl + p from by omega, hstrip]
          omega

/-- **C03 for LCS**: for in-bounds ranges and no deadline the call returns a valid script whose
number of deleted plus inserted items is `N + M - 2·L`, the minimum over all valid scripts
(`walk_cost_lower`). -/
theorem lcs_minimal (E : Env) (os oe ns ne : Nat) (w : World) (ho : os ≤ oe) (hn : ns ≤ ne)
    (hb : InBounds E os oe ns ne) (hclk : w.clock = none) :
    ∃ ops w', lcsDiff E recHook os oe ns ne {} w = .ok ({ trace := ops.map Call.op ++ [.finish] }, w') ∧
      Walk (eqB E) os ns ops oe ne ∧ Exact os ns ops ∧
      nEq ops = lcsLen (eqB E) (oe - os) (ne - ns) os ns ∧
      Spec.cost ops = (oe - os) + (ne - ns) - 2 * lcsLen (eqB E) (oe - os) (ne - ns) os ns ∧
      Spec.cost ops + 2 * lcsLen (eqB E) (oe - os) (ne - ns) os ns = (oe - os) + (ne - ns) := by
  obtain ⟨ops, w', h1, h2, h3⟩ := lcs_minimal_gen E os oe ns ne [] w ho hn hb hclk
  have h4 := walk_cost_eq h2.1
  rw [h3] at h4
  exact ⟨ops, w', by simpa using h1, h2.1, h2.2, h3, by omega, h4⟩

/-- no valid script for the same ranges is cheaper than the one LCS produces -/
theorem lcs_minimal_le (E : Env) (os oe ns ne : Nat) (w : World) (ho : os ≤ oe) (hn : ns ≤ ne)
    (hb : InBounds E os oe ns ne) (hclk : w.clock = none) :
    ∃ ops w', lcsDiff E recHook os oe ns ne {} w = .ok ({ trace := ops.map Call.op ++ [.finish] }, w') ∧
      ∀ ops', Walk (eqB E) os ns ops' oe ne → Spec.cost ops ≤ Spec.cost ops' := by
  obtain ⟨ops, w', h1, _, _, _, _, h6⟩ := lcs_minimal E os oe ns ne w ho hn hb hclk
  refine ⟨ops, w', h1, ?_⟩
  intro ops' hw
  have := walk_cost_lower hw
  omega

end SimilarVerif.LcsMin
